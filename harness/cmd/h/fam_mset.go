//go:build verif && protolegacy

package main

// family "mset" (C47): the MessageSet wire format.
//
//	internal/encoding/messageset  item codec, Unmarshal loop, unknown-section re-framing
//	internal/impl/codec_messageset.go   fast path (generated MessageSet types: open / hybrid / opaque)
//	proto/messageset.go                 slow path (dynamicpb; every type under -tags protoreflect)
//
// C lines (compared with the Coq model Msg/MsetModel.v):
//
//	item   <id> <payload>                | <bytes> <size>
//	citem  <wantLen> <bytes>             | ok <id> <message> <n>  /  e-1..e-6 / etypeid
//	events <wantLen> <bytes>             | ok <id:msg,...>        /  e...
//	sizeunk <unknown>                    | <size>
//	appunk <unknown>                     | ok <bytes> / err
//	dec <f|s> <verbatim ids> <struct ids> <bytes> | ok <exts> <unknown> / err
//	enc <f|s> <exts> <unknown>           | ok <bytes> <size> / err <size>
//
// P lines: Unmarshal(Marshal(m)) Equal m, Size = len(Marshal), fast and slow paths
// accept the same inputs and give the same content / bytes, merge = concatenation.

import (
	"bytes"
	"fmt"
	"sort"
	"strconv"
	"strings"

	"google.golang.org/protobuf/encoding/protowire"
	"google.golang.org/protobuf/internal/encoding/messageset"
	"google.golang.org/protobuf/proto"
	"google.golang.org/protobuf/reflect/protodesc"
	"google.golang.org/protobuf/reflect/protoreflect"
	"google.golang.org/protobuf/reflect/protoregistry"
	"google.golang.org/protobuf/types/descriptorpb"
	"google.golang.org/protobuf/types/dynamicpb"

	"google.golang.org/protobuf/internal/testprotos/messageset/messagesetpb"
	"google.golang.org/protobuf/internal/testprotos/messageset/messagesetpb/messagesetpb_hybrid"
	"google.golang.org/protobuf/internal/testprotos/messageset/messagesetpb/messagesetpb_opaque"
	_ "google.golang.org/protobuf/internal/testprotos/messageset/msetextpb"
	_ "google.golang.org/protobuf/internal/testprotos/messageset/msetextpb/msetextpb_hybrid"
	_ "google.golang.org/protobuf/internal/testprotos/messageset/msetextpb/msetextpb_opaque"
)

func init() {
	Register("mset", famMset)
	Register("msetr", famMset) // same family under a second name: run with -tags protoreflect (distinct output files)
}

// verbatim ids: extensions whose message type has no fields, so the payload is
// kept byte for byte (as unknown fields of the extension message).
var msetVerbatimIDs = []int32{4, 5, 100, 1003, 2047, 2048, 65536, 1 << 28, 1<<29 - 1, 1<<29 + 1, 1<<31 - 2}

// struct ids: the generated test extensions Ext1, Ext2, ExtRequired, ExtLargeNumber.
var msetStructIDs = []int32{1000, 1001, 1002, 1 << 29}

// ids never registered
var msetUnknownIDs = []int32{1, 2, 3, 6, 999, 1004, 5000, 1<<29 + 5, 1<<31 - 1}

type msetVariant struct {
	name      string
	mt        protoreflect.MessageType // the MessageSet type
	container protoreflect.MessageType
	dyn       protoreflect.MessageType // dynamicpb type of the same descriptor
	all       *protoregistry.Types     // verbatim + struct extensions
	gen       *protoregistry.Types     // struct extensions only
	none      *protoregistry.Types
	verb      map[int32]protoreflect.ExtensionType
	strct     map[int32]protoreflect.ExtensionType
}

var msetVariants []*msetVariant

func msetSetup() {
	if msetVariants != nil {
		return
	}
	mk := func(name string, ms, cont proto.Message) {
		v := &msetVariant{name: name, mt: ms.ProtoReflect().Type(), container: cont.ProtoReflect().Type(),
			all: new(protoregistry.Types), gen: new(protoregistry.Types), none: new(protoregistry.Types),
			verb: map[int32]protoreflect.ExtensionType{}, strct: map[int32]protoreflect.ExtensionType{}}
		md := v.mt.Descriptor()
		v.dyn = dynamicpb.NewMessageType(md)
		for _, id := range msetStructIDs {
			xt, err := protoregistry.GlobalTypes.FindExtensionByNumber(md.FullName(), protoreflect.FieldNumber(id))
			if err != nil {
				panic(fmt.Sprintf("mset: no extension %d of %s: %v", id, md.FullName(), err))
			}
			v.strct[id] = xt
			v.all.RegisterExtension(xt)
			v.gen.RegisterExtension(xt)
		}
		// field-less extension messages V<id> { extend MessageSet { optional V<id> message_set_extension = <id>; } }
		fdp := &descriptorpb.FileDescriptorProto{
			Name:       proto.String("verif/mset_" + name + ".proto"),
			Syntax:     proto.String("proto2"),
			Package:    proto.String("verif.mset." + name),
			Dependency: []string{md.ParentFile().Path()},
		}
		for _, id := range msetVerbatimIDs {
			mn := "V" + strconv.Itoa(int(id))
			fdp.MessageType = append(fdp.MessageType, &descriptorpb.DescriptorProto{
				Name: proto.String(mn),
				Extension: []*descriptorpb.FieldDescriptorProto{{
					Name:     proto.String("message_set_extension"),
					Number:   proto.Int32(id),
					Label:    descriptorpb.FieldDescriptorProto_LABEL_OPTIONAL.Enum(),
					Type:     descriptorpb.FieldDescriptorProto_TYPE_MESSAGE.Enum(),
					TypeName: proto.String(".verif.mset." + name + "." + mn),
					Extendee: proto.String("." + string(md.FullName())),
				}},
			})
		}
		fd, err := protodesc.NewFile(fdp, protoregistry.GlobalFiles)
		if err != nil {
			panic("mset: protodesc.NewFile: " + err.Error())
		}
		for i := 0; i < fd.Messages().Len(); i++ {
			xd := fd.Messages().Get(i).Extensions().Get(0)
			xt := dynamicpb.NewExtensionType(xd)
			v.verb[int32(xd.Number())] = xt
			if err := v.all.RegisterExtension(xt); err != nil {
				panic(err)
			}
		}
		msetVariants = append(msetVariants, v)
	}
	mk("open", &messagesetpb.MessageSet{}, &messagesetpb.MessageSetContainer{})
	mk("hybrid", &messagesetpb_hybrid.MessageSet{}, &messagesetpb_hybrid.MessageSetContainer{})
	mk("opaque", &messagesetpb_opaque.MessageSet{}, &messagesetpb_opaque.MessageSetContainer{})
}

func msetIDList(ids []int32) string {
	if len(ids) == 0 {
		return "-"
	}
	s := make([]string, len(ids))
	for i, id := range ids {
		s[i] = HexN(uint64(id))
	}
	return strings.Join(s, ",")
}

func msetErrClass(err error) string {
	for k := -1; k >= -6; k-- {
		if err == protowire.ParseError(k) {
			return fmt.Sprintf("e%d", k)
		}
	}
	return "etypeid"
}

// ---------------------------------------------------------------- generators

func msetPad(c *Ctx, b []byte, v uint64) []byte {
	if c.Intn(8) != 0 {
		return protowire.AppendVarint(b, v)
	}
	n := protowire.SizeVarint(v)
	extra := 1 + c.Intn(3)
	if n+extra > 10 {
		return protowire.AppendVarint(b, v)
	}
	for i := 0; i < n; i++ {
		b = append(b, byte(v)|0x80)
		v >>= 7
	}
	for i := 0; i < extra-1; i++ {
		b = append(b, 0x80)
	}
	return append(b, 0)
}

func msetNum(c *Ctx) protowire.Number {
	switch c.Intn(6) {
	case 0:
		return protowire.Number(1 + c.Intn(3))
	case 1:
		return protowire.Number([]int32{15, 16, 2047, 2048, 1<<29 - 1}[c.Intn(5)])
	default:
		return protowire.Number(4 + c.Intn(60))
	}
}

// one well-formed field with the given number
func msetField(c *Ctx, b []byte, num protowire.Number, depth int) []byte {
	t := c.Intn(5)
	if depth <= 0 && t == 3 {
		t = 0
	}
	switch t {
	case 0:
		b = protowire.AppendTag(b, num, protowire.VarintType)
		b = msetPad(c, b, c.U64()>>uint(c.Intn(64)))
	case 1:
		b = protowire.AppendTag(b, num, protowire.Fixed64Type)
		b = protowire.AppendFixed64(b, c.U64())
	case 2:
		b = protowire.AppendTag(b, num, protowire.BytesType)
		p := c.Bytes(c.Intn(6))
		b = msetPad(c, b, uint64(len(p)))
		b = append(b, p...)
	case 3:
		b = protowire.AppendTag(b, num, protowire.StartGroupType)
		for i, k := 0, c.Intn(3); i < k; i++ {
			b = msetField(c, b, msetNum(c), depth-1)
		}
		b = msetPad(c, b, protowire.EncodeTag(num, protowire.EndGroupType))
	case 4:
		b = protowire.AppendTag(b, num, protowire.Fixed32Type)
		b = protowire.AppendFixed32(b, uint32(c.U64()))
	}
	return b
}

// a payload for an extension message: mostly a well-formed field sequence
func msetPayload(c *Ctx) []byte {
	var b []byte
	switch c.Intn(24) {
	case 0, 1:
		return nil
	case 2: // non-message payload
		return c.Bytes(1 + c.Intn(6))
	case 4: // long payload (length prefixes of two and three bytes once chunks are merged)
		n := []int{60, 100, 127, 128, 200}[c.Intn(5)]
		if c.Intn(40) == 0 {
			n = []int{8000, 16383, 16384}[c.Intn(3)]
		}
		b = protowire.AppendTag(b, protowire.Number(4+c.Intn(60)), protowire.BytesType)
		return protowire.AppendBytes(b, c.Bytes(n))
	case 3: // number above MaxValidNumber at top level
		b = protowire.AppendVarint(b, protowire.EncodeTag(1<<29+protowire.Number(c.Intn(3)), protowire.VarintType))
		return append(b, 1)
	}
	for i, k := 0, c.Intn(4); i < k; i++ {
		if c.Intn(3) == 0 { // the declared int32 fields of Ext1/Ext2/ExtRequired
			b = protowire.AppendTag(b, protowire.Number(1+c.Intn(2)), protowire.VarintType)
			b = msetPad(c, b, c.U64()>>uint(c.Intn(64)))
		} else {
			b = msetField(c, b, msetNum(c), 2)
		}
	}
	return b
}

func msetID(c *Ctx) uint64 {
	switch k := c.Intn(30); {
	case k < 9:
		return uint64(msetVerbatimIDs[c.Intn(len(msetVerbatimIDs))])
	case k < 15:
		return uint64(msetStructIDs[c.Intn(len(msetStructIDs))])
	case k < 21:
		return uint64(msetUnknownIDs[c.Intn(len(msetUnknownIDs))])
	case k < 24:
		return uint64(1 + c.Intn(1<<16))
	case k == 24: // invalid type ids
		return []uint64{0, 1 << 31, 1<<31 + 1, 1 << 32, 1<<32 + 1000, 1<<64 - 1}[c.Intn(6)]
	default:
		return uint64(msetVerbatimIDs[c.Intn(3)])
	}
}

// the body of an item (after the start tag), including the end tag unless truncated
func msetItemBody(c *Ctx, b []byte) []byte {
	var parts []int // 0 type_id, 1 message, 2 junk
	nid, nmsg := 1, 1
	switch c.Intn(10) {
	case 0:
		nid = 0
	case 1:
		nid = 2
	}
	switch c.Intn(10) {
	case 0:
		nmsg = 0
	case 1:
		nmsg = 2
	case 2:
		nmsg = 3
	}
	for i := 0; i < nid; i++ {
		parts = append(parts, 0)
	}
	for i := 0; i < nmsg; i++ {
		parts = append(parts, 1)
	}
	for c.Intn(5) == 0 {
		parts = append(parts, 2)
	}
	// canonical order is type_id first; shuffle often
	if c.Intn(2) == 0 {
		for i := len(parts) - 1; i > 0; i-- {
			j := c.Intn(i + 1)
			parts[i], parts[j] = parts[j], parts[i]
		}
	}
	for _, p := range parts {
		switch p {
		case 0:
			b = protowire.AppendTag(b, messageset.FieldTypeID, protowire.VarintType)
			b = msetPad(c, b, msetID(c))
		case 1:
			b = protowire.AppendTag(b, messageset.FieldMessage, protowire.BytesType)
			p := msetPayload(c)
			b = msetPad(c, b, uint64(len(p)))
			b = append(b, p...)
		case 2:
			switch c.Intn(6) {
			case 0: // type_id with a non-varint wire type
				b = msetField(c, b, messageset.FieldTypeID, 1)
			case 1: // message with a non-bytes wire type
				b = protowire.AppendTag(b, messageset.FieldMessage, protowire.VarintType)
				b = protowire.AppendVarint(b, c.U64()>>uint(c.Intn(64)))
			case 2: // nested group 1
				b = protowire.AppendTag(b, messageset.FieldItem, protowire.StartGroupType)
				b = msetField(c, b, msetNum(c), 1)
				b = protowire.AppendTag(b, messageset.FieldItem, protowire.EndGroupType)
			default:
				b = msetField(c, b, protowire.Number(4+c.Intn(40)), 2)
			}
		}
	}
	switch c.Intn(40) {
	case 0: // missing end
	case 1: // wrong end group number
		b = protowire.AppendTag(b, protowire.Number(2+c.Intn(3)), protowire.EndGroupType)
	default:
		b = msetPad(c, b, protowire.EncodeTag(messageset.FieldItem, protowire.EndGroupType))
	}
	return b
}

// a MessageSet encoding: items and some non-item fields
func msetGen(c *Ctx) []byte {
	var b []byte
	for i, k := 0, c.Intn(5); i < k; i++ {
		switch c.Intn(8) {
		case 0: // ordinary extension encoding inside a MessageSet: skipped
			b = protowire.AppendTag(b, protowire.Number(msetID(c)%(1<<29)+1), protowire.BytesType)
			b = protowire.AppendBytes(b, msetPayload(c))
		case 1: // other non-item field
			b = msetField(c, b, msetNum(c), 2)
		default:
			b = protowire.AppendTag(b, messageset.FieldItem, protowire.StartGroupType)
			b = msetItemBody(c, b)
		}
	}
	return b
}

func msetMutate(c *Ctx, b []byte) []byte {
	b = append([]byte(nil), b...)
	if len(b) == 0 {
		return c.Bytes(c.Intn(4))
	}
	switch c.Intn(5) {
	case 0:
		return b[:c.Intn(len(b))]
	case 1:
		b[c.Intn(len(b))] = byte(c.U64())
	case 2:
		i := c.Intn(len(b))
		b = append(b[:i], b[i+1:]...)
	case 3:
		i := c.Intn(len(b))
		b = append(b[:i], append([]byte{byte(c.U64())}, b[i:]...)...)
	case 4:
		b[c.Intn(len(b))] ^= 1 << uint(c.Intn(8))
	}
	return b
}

// an unknown-fields section as a MessageSet message may hold it
func msetGenUnknown(c *Ctx) []byte {
	var b []byte
	for i, k := 0, c.Intn(4); i < k; i++ {
		id := msetID(c)
		if id == 0 || id > 1<<31-1 {
			id = 7
		}
		switch c.Intn(10) {
		case 0: // not a bytes field: AppendUnknown refuses
			b = msetField(c, b, protowire.Number(id), 1)
		default:
			b = protowire.AppendTag(b, protowire.Number(id), protowire.BytesType)
			p := msetPayload(c)
			b = msetPad(c, b, uint64(len(p)))
			b = append(b, p...)
		}
	}
	if c.Intn(12) == 0 && len(b) > 0 {
		b = b[:c.Intn(len(b))]
	}
	return b
}

// ---------------------------------------------------------------- observers

// msetSafe runs f; a panic is a property failure ("never panics" is part of every C47 predicate)
func msetSafe(c *Ctx, what string, ins []string, f func()) {
	defer func() {
		if r := recover(); r != nil {
			c.PropFail("C47", what+" panics", ins...)
		}
	}()
	f()
}

func msetOpItem(c *Ctx, id uint64, payload []byte) {
	msetSafe(c, "Item", []string{HexN(id), HexB(payload)}, func() { msetOpItem0(c, id, payload) })
}

func msetOpItem0(c *Ctx, id uint64, payload []byte) {
	num := protowire.Number(id)
	b := messageset.AppendFieldStart(nil, num)
	b = protowire.AppendTag(b, messageset.FieldMessage, protowire.BytesType)
	b = protowire.AppendBytes(b, payload)
	b = messageset.AppendFieldEnd(b)
	size := messageset.SizeField(num) + protowire.SizeTag(messageset.FieldMessage) + protowire.SizeBytes(len(payload))
	c.Case("mset", "item", []string{HexN(id), HexB(payload)}, []string{HexB(b), HexN(uint64(size))})
	// Tier T: the same observation recomputed by the translated messageset.go (Gen/MsetGo.v)
	c.Case("mset", "go_item", []string{HexN(id), HexB(payload)}, []string{HexB(b), HexN(uint64(size))})
	if size != len(b) {
		c.PropFail("C47", "item size differs from its encoded length", HexN(id), HexB(payload))
	}
	// round trip through the item parser (start tag stripped), both variants
	st := protowire.SizeTag(messageset.FieldItem)
	rest := c.Bytes(c.Intn(3))
	in := append(append([]byte(nil), b[st:]...), rest...)
	tid, msg, n, err := messageset.ConsumeFieldValue(in, false)
	if err != nil || tid != num || !bytes.Equal(msg, payload) || n != len(b)-st {
		c.PropFail("C47", "item does not round-trip through ConsumeFieldValue", HexN(id), HexB(payload))
	}
	tid, msg, n, err = messageset.ConsumeFieldValue(in, true)
	if err != nil || tid != num || !bytes.Equal(msg, protowire.AppendBytes(nil, payload)) || n != len(b)-st {
		c.PropFail("C47", "item does not round-trip through ConsumeFieldValue(wantLen)", HexN(id), HexB(payload))
	}
}

func msetOpCItem(c *Ctx, b []byte) {
	for _, wl := range []bool{false, true} {
		var obs []string
		func() {
			defer func() {
				if r := recover(); r != nil {
					obs = []string{"panic"}
					c.PropFail("C47", "ConsumeFieldValue panics", Tok(wl), HexB(b))
				}
			}()
			tid, msg, n, err := messageset.ConsumeFieldValue(b, wl)
			if err != nil {
				obs = []string{msetErrClass(err)}
				c.Stat("citem:" + obs[0])
			} else {
				obs = []string{"ok", HexN(uint64(tid)), HexB(msg), strconv.Itoa(n)}
				c.Stat("citem:ok")
			}
		}()
		c.Case("mset", "citem", []string{Tok(wl), HexB(b)}, obs)
		c.Case("mset", "go_citem", []string{Tok(wl), HexB(b)}, obs)
	}
}

func msetOpEvents(c *Ctx, b []byte) {
	msetSafe(c, "Events", []string{HexB(b)}, func() { msetOpEvents0(c, b) })
}

func msetOpEvents0(c *Ctx, b []byte) {
	for _, wl := range []bool{false, true} {
		var evs []string
		err := messageset.Unmarshal(b, wl, func(id protowire.Number, v []byte) error {
			evs = append(evs, HexN(uint64(id))+":"+HexB(v))
			return nil
		})
		var obs []string
		if err != nil {
			obs = []string{msetErrClass(err)}
		} else if len(evs) == 0 {
			obs = []string{"ok", "-"}
		} else {
			obs = []string{"ok", strings.Join(evs, ",")}
		}
		c.Case("mset", "events", []string{Tok(wl), HexB(b)}, obs)
	}
}

func msetOpUnknown(c *Ctx, u []byte) {
	msetSafe(c, "Unknown", []string{HexB(u)}, func() { msetOpUnknown0(c, u) })
}

func msetOpUnknown0(c *Ctx, u []byte) {
	size := messageset.SizeUnknown(u)
	c.Case("mset", "sizeunk", []string{HexB(u)}, []string{HexN(uint64(size))})
	c.Case("mset", "go_sizeunk", []string{HexB(u)}, []string{HexN(uint64(size))})
	out, err := messageset.AppendUnknown(nil, u)
	if err != nil {
		c.Case("mset", "appunk", []string{HexB(u)}, []string{"err"})
		c.Case("mset", "go_appunk", []string{HexB(u)}, []string{"err"})
		c.Stat("appunk:err")
		return
	}
	c.Stat("appunk:ok")
	c.Case("mset", "appunk", []string{HexB(u)}, []string{"ok", HexB(out)})
	c.Case("mset", "go_appunk", []string{HexB(u)}, []string{"ok", HexB(out)})
	if size != len(out) {
		c.PropFail("C47", "SizeUnknown differs from len(AppendUnknown)", HexB(u))
	}
}

var msetMarshal = proto.MarshalOptions{Deterministic: true, AllowPartial: true}

// content of a MessageSet message: extensions by number (payload = deterministic
// re-marshalling of the extension message, or "*" for the struct ids) and raw unknown bytes
func msetDump(m protoreflect.Message, strct map[int32]protoreflect.ExtensionType, star bool) (string, []byte) {
	type ent struct {
		id uint64
		s  string
	}
	var es []ent
	m.Range(func(fd protoreflect.FieldDescriptor, v protoreflect.Value) bool {
		id := int32(fd.Number())
		if _, ok := strct[id]; ok && star {
			es = append(es, ent{uint64(id), HexN(uint64(id)) + "=*"})
			return true
		}
		p, err := msetMarshal.Marshal(v.Message().Interface())
		if err != nil {
			es = append(es, ent{uint64(id), HexN(uint64(id)) + "=!"})
			return true
		}
		es = append(es, ent{uint64(id), HexN(uint64(id)) + "=" + HexB(p)})
		return true
	})
	sort.Slice(es, func(i, j int) bool { return es[i].id < es[j].id })
	if len(es) == 0 {
		return "-", m.GetUnknown()
	}
	s := make([]string, len(es))
	for i := range es {
		s[i] = es[i].s
	}
	return strings.Join(s, ";"), m.GetUnknown()
}

// normalise the length prefixes of an unknown section made of bytes fields
func msetNormUnknown(u []byte) ([]byte, bool) {
	var out []byte
	for len(u) > 0 {
		num, typ, n := protowire.ConsumeTag(u)
		if n < 0 || typ != protowire.BytesType {
			return nil, false
		}
		u = u[n:]
		v, n := protowire.ConsumeBytes(u)
		if n < 0 {
			return nil, false
		}
		u = u[n:]
		out = protowire.AppendTag(out, num, protowire.BytesType)
		out = protowire.AppendBytes(out, v)
	}
	return out, true
}

type msetTarget struct {
	label string
	mt    protoreflect.MessageType
	fast  bool
}

func msetTargets(v *msetVariant) []msetTarget {
	return []msetTarget{{v.name, v.mt, !msetProtoReflect}, {v.name + "/dyn", v.dyn, false}}
}

// decode b into every target of one variant with one registry; model compare + property predicates
func msetOpDec(c *Ctx, v *msetVariant, regName string, b []byte) {
	msetSafe(c, "Dec", []string{regName, HexB(b)}, func() { msetOpDec0(c, v, regName, b) })
}

func msetOpDec0(c *Ctx, v *msetVariant, regName string, b []byte) {
	var reg *protoregistry.Types
	var verb, strct []int32
	switch regName {
	case "all":
		reg, verb, strct = v.all, msetVerbatimIDs, msetStructIDs
	case "gen":
		reg, strct = v.gen, msetStructIDs
	default:
		reg = v.none
	}
	uo := proto.UnmarshalOptions{Resolver: reg, AllowPartial: true}
	type res struct {
		ok   bool
		exts string
		unk  []byte
		m    proto.Message
	}
	var rs []res
	for _, t := range msetTargets(v) {
		m := t.mt.New().Interface()
		var r res
		func() {
			defer func() {
				if p := recover(); p != nil {
					c.PropFail("C47", "Unmarshal panics ("+t.label+")", regName, HexB(b))
				}
			}()
			err := uo.Unmarshal(b, m)
			r.ok = err == nil
		}()
		path := "s"
		if t.fast {
			path = "f"
		}
		ins := []string{path, msetIDList(verb), msetIDList(strct), HexB(b)}
		if !r.ok {
			c.Case("mset", "dec", ins, []string{"err"})
			c.Stat("dec:err")
			rs = append(rs, r)
			continue
		}
		c.Stat("dec:ok")
		r.m = m
		r.exts, r.unk = msetDump(m.ProtoReflect(), v.strct, true)
		c.Case("mset", "dec", ins, []string{"ok", r.exts, HexB(r.unk)})
		full, _ := msetDump(m.ProtoReflect(), v.strct, false)
		r.exts = full
		rs = append(rs, r)

		// Size = len(Marshal); Unmarshal(Marshal(m)) Equal m
		out, err := msetMarshal.Marshal(m)
		if err != nil {
			c.PropFail("C47", "Marshal of a decoded MessageSet fails ("+t.label+")", regName, HexB(b))
			continue
		}
		if sz := msetMarshal.Size(m); sz != len(out) {
			c.PropFail("C47", fmt.Sprintf("Size %d differs from len(Marshal) %d (%s)", sz, len(out), t.label), regName, HexB(b))
		}
		m2 := t.mt.New().Interface()
		if err := uo.Unmarshal(out, m2); err != nil || !proto.Equal(m, m2) {
			c.PropFail("C47", "Unmarshal(Marshal(m)) not Equal m ("+t.label+")", regName, HexB(b))
		}
		// re-encoding is a fixed point
		if out2, err := msetMarshal.Marshal(m2); err != nil || !bytes.Equal(out, out2) {
			c.PropFail("C47", "Marshal(Unmarshal(Marshal(m))) differs from Marshal(m) ("+t.label+")", regName, HexB(b))
		}
		// merge = concatenation: decoding b in two halves at an item boundary is covered by dec2
	}
	// fast and slow agree
	if len(rs) == 2 {
		f, s := rs[0], rs[1]
		switch {
		case f.ok != s.ok:
			c.PropFail("C47", "fast and slow paths disagree on acceptance ("+v.name+")", regName, HexB(b))
		case f.ok:
			if f.exts != s.exts {
				c.PropFail("C47", "fast and slow paths decode different extensions ("+v.name+")", regName, HexB(b))
			}
			if !bytes.Equal(f.unk, s.unk) {
				nf, ok := msetNormUnknown(f.unk)
				if ok && bytes.Equal(nf, s.unk) && !msetProtoReflect {
					// FJ1: the fast path keeps a non-minimal length prefix of an unknown item, the slow path re-encodes it
					c.Known("FJ1", "C47", "fast path keeps the non-minimal length prefix of an unresolved item, slow path normalises it")
					c.Stat("dec:FJ1")
				} else {
					c.PropFail("C47", "fast and slow paths store different unknown items ("+v.name+")", regName, HexB(b))
				}
			}
		}
	}
}

// Unmarshal(b1) then merge b2  ==  Unmarshal(b1 ++ b2)
func msetOpDec2(c *Ctx, v *msetVariant, b1, b2 []byte) {
	msetSafe(c, "Dec2", []string{HexB(b1), HexB(b2)}, func() { msetOpDec20(c, v, b1, b2) })
}

func msetOpDec20(c *Ctx, v *msetVariant, b1, b2 []byte) {
	uo := proto.UnmarshalOptions{Resolver: v.all, AllowPartial: true}
	um := proto.UnmarshalOptions{Resolver: v.all, AllowPartial: true, Merge: true}
	for _, t := range msetTargets(v) {
		m1 := t.mt.New().Interface()
		m2 := t.mt.New().Interface()
		e1 := uo.Unmarshal(b1, m1)
		if e1 == nil {
			e1 = um.Unmarshal(b2, m1)
		}
		e2 := uo.Unmarshal(append(append([]byte(nil), b1...), b2...), m2)
		if (e1 == nil) != (e2 == nil) {
			c.PropFail("C47", "merge-decoding two halves and decoding the concatenation disagree on acceptance ("+t.label+")", HexB(b1), HexB(b2))
			continue
		}
		if e1 != nil {
			continue
		}
		c.Stat("dec2:ok")
		if !proto.Equal(m1, m2) {
			x1, u1 := msetDump(m1.ProtoReflect(), v.strct, false)
			x2, u2 := msetDump(m2.ProtoReflect(), v.strct, false)
			nu1, ok1 := msetNormUnknown(u1)
			nu2, ok2 := msetNormUnknown(u2)
			if x1 == x2 && ok1 && ok2 && bytes.Equal(nu1, nu2) {
				continue // Equal compares lazily-held extension bytes; contents agree
			}
			c.PropFail("C47", "merge-decoding two halves differs from decoding the concatenation ("+t.label+")", HexB(b1), HexB(b2))
		}
	}
}

type msetExt struct {
	id      int32
	payload []byte
}

// build a message with the given content on every target, marshal; model compare + predicates
func msetOpEnc(c *Ctx, v *msetVariant, exts []msetExt, unk []byte) {
	msetSafe(c, "Enc", []string{HexB(unk)}, func() { msetOpEnc0(c, v, exts, unk) })
}

func msetOpEnc0(c *Ctx, v *msetVariant, exts []msetExt, unk []byte) {
	sort.Slice(exts, func(i, j int) bool { return exts[i].id < exts[j].id })
	var xs []string
	for _, e := range exts {
		xs = append(xs, HexN(uint64(e.id))+"="+HexB(e.payload))
	}
	xtok := "-"
	if len(xs) > 0 {
		xtok = strings.Join(xs, ";")
	}
	var outs [][]byte
	var oks []bool
	for _, t := range msetTargets(v) {
		m := t.mt.New()
		for _, e := range exts {
			xt := v.verb[e.id]
			if xt == nil {
				xt = v.strct[e.id]
			}
			xm := m.Mutable(xt.TypeDescriptor()).Message()
			if _, isVerb := v.verb[e.id]; isVerb {
				xm.SetUnknown(append(protoreflect.RawFields(nil), e.payload...))
			} else if err := (proto.UnmarshalOptions{AllowPartial: true, Merge: true}).Unmarshal(e.payload, xm.Interface()); err != nil {
				panic("mset: struct payload not decodable: " + err.Error())
			}
		}
		if len(unk) > 0 {
			m.SetUnknown(append(protoreflect.RawFields(nil), unk...))
		}
		path := "s"
		if t.fast {
			path = "f"
		}
		size := msetMarshal.Size(m.Interface())
		out, err := msetMarshal.Marshal(m.Interface())
		if err != nil {
			c.Case("mset", "enc", []string{path, xtok, HexB(unk)}, []string{"err", HexN(uint64(size))})
			c.Stat("enc:err")
			outs = append(outs, nil)
			oks = append(oks, false)
			continue
		}
		c.Stat("enc:ok")
		c.Case("mset", "enc", []string{path, xtok, HexB(unk)}, []string{"ok", HexB(out), HexN(uint64(size))})
		outs = append(outs, out)
		oks = append(oks, true)
		if size != len(out) {
			c.PropFail("C47", fmt.Sprintf("Size %d differs from len(Marshal) %d (%s)", size, len(out), t.label), xtok, HexB(unk))
		}
		// non-deterministic marshalling carries the same items
		if out2, err := (proto.MarshalOptions{AllowPartial: true}).Marshal(m.Interface()); err != nil || len(out2) != len(out) {
			c.PropFail("C47", "non-deterministic Marshal has a different length ("+t.label+")", xtok, HexB(unk))
		}
		// round trip.  The content must be one a decoder can produce: no unknown entry
		// with a resolvable id (it would come back as an extension).  An unknown entry with a
		// non-minimal length prefix comes back normalised on the slow path (see FJ1), so Equal
		// is demanded only when the prefixes are minimal; otherwise equal content.
		nunk, _ := msetNormUnknown(unk)
		resolvable := false
		for u := nunk; len(u) > 0; {
			num, _, n := protowire.ConsumeTag(u)
			u = u[n:]
			_, n = protowire.ConsumeBytes(u)
			u = u[n:]
			if v.verb[int32(num)] != nil || v.strct[int32(num)] != nil {
				resolvable = true
			}
		}
		if !resolvable {
			m2 := t.mt.New().Interface()
			err := (proto.UnmarshalOptions{Resolver: v.all, AllowPartial: true}).Unmarshal(out, m2)
			x1, _ := msetDump(m, v.strct, false)
			x2, u2 := msetDump(m2.ProtoReflect(), v.strct, false)
			nu2, _ := msetNormUnknown(u2)
			switch {
			case err != nil || x1 != x2 || !bytes.Equal(nunk, nu2):
				c.PropFail("C47", "Unmarshal(Marshal(m)) has different content ("+t.label+")", xtok, HexB(unk))
			case bytes.Equal(nunk, unk) && !proto.Equal(m.Interface(), m2):
				c.PropFail("C47", "Unmarshal(Marshal(m)) not Equal m ("+t.label+")", xtok, HexB(unk))
			case t.fast && !bytes.Equal(u2, unk):
				c.PropFail("C47", "fast path round trip changes the unknown bytes ("+t.label+")", xtok, HexB(unk))
			}
			c.Stat("enc:roundtrip")
		}
	}
	if len(outs) == 2 && (oks[0] != oks[1] || !bytes.Equal(outs[0], outs[1])) {
		c.PropFail("C47", "fast and slow paths marshal the same content differently ("+v.name+")", xtok, HexB(unk))
	}
}

// a MessageSet nested in a container message (length-delimited field 1)
func msetOpContainer(c *Ctx, v *msetVariant, b []byte) {
	msetSafe(c, "Container", []string{HexB(b)}, func() { msetOpContainer0(c, v, b) })
}

func msetOpContainer0(c *Ctx, v *msetVariant, b []byte) {
	wrapped := protowire.AppendTag(nil, 1, protowire.BytesType)
	wrapped = protowire.AppendBytes(wrapped, b)
	uo := proto.UnmarshalOptions{Resolver: v.all, AllowPartial: true}
	inner := v.mt.New().Interface()
	ei := uo.Unmarshal(b, inner)
	for _, mt := range []protoreflect.MessageType{v.container, dynamicpb.NewMessageType(v.container.Descriptor())} {
		m := mt.New().Interface()
		err := uo.Unmarshal(wrapped, m)
		if (err == nil) != (ei == nil) {
			c.PropFail("C47", "container and bare MessageSet disagree on acceptance ("+v.name+")", HexB(b))
			continue
		}
		if err != nil {
			continue
		}
		c.Stat("container:ok")
		out, err := msetMarshal.Marshal(m)
		if err != nil {
			c.PropFail("C47", "Marshal of container fails ("+v.name+")", HexB(b))
			continue
		}
		if sz := msetMarshal.Size(m); sz != len(out) {
			c.PropFail("C47", "container Size differs from len(Marshal) ("+v.name+")", HexB(b))
		}
		m2 := mt.New().Interface()
		if err := uo.Unmarshal(out, m2); err != nil || !proto.Equal(m, m2) {
			c.PropFail("C47", "container Unmarshal(Marshal(m)) not Equal m ("+v.name+")", HexB(b))
		}
		innerOut, _ := msetMarshal.Marshal(inner)
		want := protowire.AppendBytes(protowire.AppendTag(nil, 1, protowire.BytesType), innerOut)
		if mt == v.container && !bytes.Equal(out, want) {
			c.PropFail("C47", "container bytes differ from the wrapped bare MessageSet bytes ("+v.name+")", HexB(b))
		}
	}
}

// ---------------------------------------------------------------- driver

func msetCorpus(c *Ctx) [][]byte {
	it := func(parts ...[]byte) []byte {
		b := protowire.AppendTag(nil, 1, protowire.StartGroupType)
		for _, p := range parts {
			b = append(b, p...)
		}
		return protowire.AppendTag(b, 1, protowire.EndGroupType)
	}
	tid := func(id uint64) []byte {
		return protowire.AppendVarint(protowire.AppendTag(nil, 2, protowire.VarintType), id)
	}
	msg := func(p ...byte) []byte {
		return protowire.AppendBytes(protowire.AppendTag(nil, 3, protowire.BytesType), p)
	}
	padmsg := func(p ...byte) []byte { // non-minimal length prefix
		b := protowire.AppendTag(nil, 3, protowire.BytesType)
		b = append(b, byte(len(p))|0x80, 0)
		return append(b, p...)
	}
	return [][]byte{
		nil,
		it(tid(1000), msg(8, 1)),
		it(msg(8, 1), tid(1000)),                            // message first
		it(tid(1000), msg(8, 1), msg(16, 2)),                // two chunks
		it(msg(8, 1), tid(1000), msg(16, 2)),                // chunk, id, chunk
		it(tid(1000), tid(1001), msg(8, 1)),                 // last type_id wins
		it(tid(1000)),                                       // no message
		it(msg(8, 1)),                                       // no type_id: dropped
		it(),                                                // empty item
		it(tid(0), msg()),                                   // invalid type_id 0
		it(tid(1<<31), msg()),                               // invalid type_id > MaxInt32
		it(tid(1<<31-2), msg(8, 1)),                         // largest extension number (verbatim)
		it(tid(1<<31-1), msg(8, 1)),                         // largest type id, outside the extension range
		it(tid(5000), msg(8, 1)),                            // unknown id
		it(tid(5000), padmsg(8, 1)),                         // unknown id, non-minimal length (FJ1)
		it(tid(5000), padmsg(8, 1), msg(16, 2)),             // merged: prefix re-encoded on both paths
		it(tid(4), padmsg(8, 1)),                            // verbatim id
		it(tid(4), msg(0xff)),                               // known id, non-message payload
		it(tid(5000), msg(0xff)),                            // unknown id, non-message payload: kept
		it(tid(1), msg(8, 1)),                               // id outside the extension range
		it(tid(1000), msg(8, 1)), it(tid(1000), msg(16, 2)), // (two corpus entries)
		append(it(tid(1000), msg(8, 1)), it(tid(1000), msg(16, 2))...),                                                                // same id twice: merged
		append(protowire.AppendBytes(protowire.AppendTag(nil, 1000, protowire.BytesType), []byte{8, 1}), it(tid(1001), msg(8, 2))...), // ordinary extension encoding: skipped
		it(tid(1000), msg(8, 1))[:5], // truncated
		append(protowire.AppendTag(nil, 1, protowire.StartGroupType), protowire.AppendTag(nil, 2, protowire.EndGroupType)...), // wrong end group
		protowire.AppendTag(nil, 1, protowire.EndGroupType),                                                                   // stray end group
		it(protowire.AppendVarint(protowire.AppendTag(nil, 3, protowire.VarintType), 7), tid(4), msg()),                       // message with varint type: skipped
		it(protowire.AppendFixed32(protowire.AppendTag(nil, 2, protowire.Fixed32Type), 7), tid(4), msg()),                     // type_id with fixed32 type: skipped
		it(it(tid(9)), tid(4), msg()), // nested group 1 inside an item: skipped as a group
		it(tid(1002), msg()),          // ExtRequired without its required field
		it(tid(1<<29), msg(8, 1)),     // ExtLargeNumber
	}
}

func famMset(c *Ctx) {
	msetSetup()
	regs := []string{"all", "gen", "none"}
	round := 0
	runAll := func(b []byte, every bool) {
		msetOpEvents(c, b)
		// every item body (after a start tag at a field boundary) also goes through citem
		for rest := b; len(rest) > 0; {
			num, typ, n := protowire.ConsumeTag(rest)
			if n < 0 {
				break
			}
			rest = rest[n:]
			if num == 1 && typ == protowire.StartGroupType {
				msetOpCItem(c, rest)
			}
			n = protowire.ConsumeFieldValue(num, typ, rest)
			if n < 0 {
				break
			}
			rest = rest[n:]
		}
		// the corpus goes through every variant and registry; generated inputs rotate
		round++
		for i, v := range msetVariants {
			if !every && i != round%len(msetVariants) {
				continue
			}
			for j, r := range regs {
				if every || j == 0 || j == 1+(round/len(msetVariants))%2 {
					msetOpDec(c, v, r, b)
				}
			}
			msetOpContainer(c, v, b)
		}
	}
	for _, b := range msetCorpus(c) {
		c.Stat("corpus")
		runAll(b, true)
	}
	for _, id := range []uint64{1, 4, 127, 128, 1000, 16383, 16384, 1<<29 - 1, 1 << 29, 1<<31 - 1} {
		for _, p := range [][]byte{nil, {8, 1}, bytes.Repeat([]byte{0xaa}, 127), bytes.Repeat([]byte{0xbb}, 128), bytes.Repeat([]byte{1}, 16384)} {
			msetOpItem(c, id, p)
		}
	}
	for i := 0; i < c.N; i++ {
		switch k := c.Intn(10); {
		case k < 4: // structured, mostly valid
			c.Stat("gen:structured")
			runAll(msetGen(c), false)
		case k < 6: // malformed stream
			c.Stat("gen:mutated")
			b := msetGen(c)
			for j, m := 0, 1+c.Intn(2); j < m; j++ {
				b = msetMutate(c, b)
			}
			runAll(b, false)
		case k == 6:
			c.Stat("gen:item")
			id := msetID(c)
			if id == 0 || id > 1<<31-1 {
				id = 1 + id%(1<<31-1)
			}
			msetOpItem(c, id, msetPayload(c))
			b := msetItemBody(c, nil)
			msetOpCItem(c, b)
			msetOpCItem(c, msetMutate(c, b))
		case k == 7:
			c.Stat("gen:unknown")
			u := msetGenUnknown(c)
			msetOpUnknown(c, u)
			msetOpUnknown(c, msetMutate(c, u))
		case k == 8:
			c.Stat("gen:enc")
			v := msetVariants[c.Intn(len(msetVariants))]
			var exts []msetExt
			seen := map[int32]bool{}
			for j, m := 0, c.Intn(5); j < m; j++ {
				var e msetExt
				if c.Intn(3) == 0 {
					e.id = msetStructIDs[c.Intn(len(msetStructIDs))]
					// canonical encodings of the int32 fields (ExtLargeNumber has none)
					if e.id != 1<<29 {
						e.payload = protowire.AppendVarint(protowire.AppendTag(nil, 1, protowire.VarintType), uint64(int64(int32(c.U64()))))
					}
				} else {
					e.id = msetVerbatimIDs[c.Intn(len(msetVerbatimIDs))]
					for q, r := 0, c.Intn(3); q < r; q++ {
						e.payload = msetField(c, e.payload, msetNum(c), 2)
					}
				}
				if !seen[e.id] {
					seen[e.id] = true
					exts = append(exts, e)
				}
			}
			var unk []byte
			if c.Intn(3) != 0 {
				unk = msetGenUnknown(c)
			}
			msetOpEnc(c, v, exts, unk)
		default:
			c.Stat("gen:dec2")
			v := msetVariants[c.Intn(len(msetVariants))]
			msetOpDec2(c, v, msetGen(c), msetGen(c))
		}
	}
}
