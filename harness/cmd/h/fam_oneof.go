//go:build verif

package main

// family "oneof": C12 — oneof members are mutually exclusive.
//
// C lines (model: coq/theories/Msg/OneofModel.v via ocaml/fam_oneof.ml):
//   ops  <label> <repr> <members> <ops...>   | after every op "w<which>h<has bits>", then the value digest
//   wire <label> <repr> <members> <occ...>   | w<which> and the value digest after decoding all occurrences at once
//   json <label> <events...>                 | ok:<populated numbers> | e_dup | e_oneof | e_other
//   text <label> <events...>                 | same
// repr: wrap (generated struct: interface wrapper field; reflection, generated opaque accessors or
// direct struct access) or dyn (dynamicpb).
// members: comma separated <number><kind>, kind s scalar, x string/bytes, m message/group.
// values: s<hex image>, x<hex bytes>, m<a>,<b> (two scalar fields of the sub message, - when unset).
//
// P lines: two members populated; WhichOneof not naming the populated member; binary decoding not
// last-wins; JSON/text accepting two members of one oneof; generated accessors disagreeing with reflection.

import (
	"fmt"
	"math"
	"reflect"
	"sort"
	"strings"

	"google.golang.org/protobuf/encoding/protojson"
	"google.golang.org/protobuf/encoding/prototext"
	"google.golang.org/protobuf/encoding/protowire"
	"google.golang.org/protobuf/internal/strs"
	"google.golang.org/protobuf/proto"
	"google.golang.org/protobuf/reflect/protodesc"
	"google.golang.org/protobuf/reflect/protoreflect"
	"google.golang.org/protobuf/reflect/protoregistry"
	"google.golang.org/protobuf/types/descriptorpb"
	"google.golang.org/protobuf/types/dynamicpb"
)

// "oneofr" is the same family under a second name: bin/check names the case files after the family, and the
// run with build tag protoreflect (reflection slow path of package proto) must not share them.
func init() { Register("oneof", famOneof); Register("oneofr", famOneof) }

// ---------------------------------------------------------------- targets

type oneofTarget struct {
	mt      protoreflect.MessageType
	od      protoreflect.OneofDescriptor
	repr    string // wrap | dyn
	flavour string // open | hybrid | opaque | dyn (which extra APIs exist)
	label   string
	members []protoreflect.FieldDescriptor
	others  []protoreflect.FieldDescriptor // a few singular non-oneof scalar fields (JSON/text events)
}

var oneofTargetsCache []*oneofTarget

var oneofCorpusPrefixes = []string{
	"internal/testprotos/test/", "internal/testprotos/test3/", "internal/testprotos/testeditions/",
	"internal/testprotos/conformance/", "internal/testprotos/textpb2/", "internal/testprotos/textpb3/",
	"internal/testprotos/textpbeditions/", "internal/testprotos/editionsfuzztest/", "internal/testprotos/fuzz/",
	"internal/testprotos/lazy/", "internal/testprotos/required/", "internal/testprotos/mixed/", "internal/testprotos/nullable/",
}

func oneofMembersTok(members []protoreflect.FieldDescriptor) string {
	var parts []string
	for _, fd := range members {
		parts = append(parts, HexN(uint64(fd.Number()))+oneofKind(fd))
	}
	return strings.Join(parts, ",")
}

func oneofKind(fd protoreflect.FieldDescriptor) string {
	switch fd.Kind() {
	case protoreflect.MessageKind, protoreflect.GroupKind:
		return "m"
	case protoreflect.StringKind, protoreflect.BytesKind:
		return "x"
	}
	return "s"
}

func oneofMakeTargets(mt protoreflect.MessageType, flavour string) []*oneofTarget {
	var out []*oneofTarget
	md := mt.Descriptor()
	var others []protoreflect.FieldDescriptor
	for i := 0; i < md.Fields().Len() && len(others) < 2; i++ {
		fd := md.Fields().Get(i)
		if fd.ContainingOneof() == nil && fd.Cardinality() != protoreflect.Repeated && fd.Message() == nil && !fd.IsWeak() {
			others = append(others, fd)
		}
	}
	for i := 0; i < md.Oneofs().Len(); i++ {
		od := md.Oneofs().Get(i)
		if od.IsSynthetic() {
			continue
		}
		t := &oneofTarget{mt: mt, od: od, flavour: flavour, others: others}
		t.repr = "wrap"
		if flavour == "dyn" {
			t.repr = "dyn"
		} else if meth := oneofMethod(mt.New(), "Which"+strs.GoCamelCase(string(od.Name()))); meth.IsValid() {
			t.repr = "wrapg" // generated Which<Oneof> / Has<Member> accessors exist
		}
		for j := 0; j < od.Fields().Len(); j++ {
			t.members = append(t.members, od.Fields().Get(j))
		}
		t.label = flavour + ":" + string(od.FullName())
		out = append(out, t)
	}
	return out
}

func oneofFlavourOf(mt protoreflect.MessageType) string {
	t := reflect.TypeOf(mt.New().Interface()).Elem()
	if t.Kind() == reflect.Struct && t.NumField() > 0 {
		switch pg := t.Field(0).Tag.Get("protogen"); {
		case strings.HasPrefix(pg, "opaque"):
			return "opaque"
		case strings.HasPrefix(pg, "hybrid"):
			return "hybrid"
		}
	}
	return "open"
}

func oneofTargets() []*oneofTarget {
	if oneofTargetsCache != nil {
		return oneofTargetsCache
	}
	var mts []protoreflect.MessageType
	protoregistry.GlobalTypes.RangeMessages(func(mt protoreflect.MessageType) bool {
		path := mt.Descriptor().ParentFile().Path()
		for _, p := range oneofCorpusPrefixes {
			if strings.HasPrefix(path, p) {
				mts = append(mts, mt)
				break
			}
		}
		return true
	})
	sort.Slice(mts, func(i, j int) bool { return mts[i].Descriptor().FullName() < mts[j].Descriptor().FullName() })
	for _, mt := range mts {
		ts := oneofMakeTargets(mt, oneofFlavourOf(mt))
		oneofTargetsCache = append(oneofTargetsCache, ts...)
		if len(ts) > 0 {
			oneofTargetsCache = append(oneofTargetsCache, oneofMakeTargets(dynamicpb.NewMessageType(mt.Descriptor()), "dyn")...)
		}
	}
	return oneofTargetsCache
}

// ---------------------------------------------------------------- values

type oneofVal struct {
	tok string
	v   protoreflect.Value
}

// the two scalar fields a sub message is abstracted to
func oneofSubFields(md protoreflect.MessageDescriptor) (ab [2]protoreflect.FieldDescriptor) {
	k := 0
	for i := 0; i < md.Fields().Len() && k < 2; i++ {
		fd := md.Fields().Get(i)
		if fd.ContainingOneof() != nil || fd.Cardinality() == protoreflect.Repeated {
			continue
		}
		switch fd.Kind() {
		case protoreflect.Int32Kind, protoreflect.Int64Kind, protoreflect.Uint32Kind, protoreflect.Uint64Kind,
			protoreflect.Sint32Kind, protoreflect.Sint64Kind:
			ab[k] = fd
			k++
		}
	}
	return
}

func oneofSmallInt(fd protoreflect.FieldDescriptor, n uint64) protoreflect.Value {
	switch fd.Kind() {
	case protoreflect.Int32Kind, protoreflect.Sint32Kind:
		return protoreflect.ValueOfInt32(int32(n))
	case protoreflect.Int64Kind, protoreflect.Sint64Kind:
		return protoreflect.ValueOfInt64(int64(n))
	case protoreflect.Uint32Kind:
		return protoreflect.ValueOfUint32(uint32(n))
	default:
		return protoreflect.ValueOfUint64(n)
	}
}

func oneofImage(fd protoreflect.FieldDescriptor, v protoreflect.Value) uint64 {
	switch fd.Kind() {
	case protoreflect.BoolKind:
		if v.Bool() {
			return 1
		}
		return 0
	case protoreflect.EnumKind:
		return uint64(int64(v.Enum()))
	case protoreflect.Int32Kind, protoreflect.Sint32Kind, protoreflect.Sfixed32Kind, protoreflect.Int64Kind, protoreflect.Sint64Kind, protoreflect.Sfixed64Kind:
		return uint64(v.Int())
	case protoreflect.Uint32Kind, protoreflect.Fixed32Kind, protoreflect.Uint64Kind, protoreflect.Fixed64Kind:
		return v.Uint()
	case protoreflect.FloatKind:
		return uint64(math.Float32bits(float32(v.Float())))
	case protoreflect.DoubleKind:
		return math.Float64bits(v.Float())
	}
	panic("oneofImage")
}

// digest of the value of member fd in message m
func oneofDigest(m protoreflect.Message, fd protoreflect.FieldDescriptor) string {
	v := m.Get(fd)
	switch oneofKind(fd) {
	case "m":
		sub := v.Message()
		ab := oneofSubFields(fd.Message())
		parts := []string{"-", "-"}
		for i, f := range ab {
			if f != nil && sub.IsValid() && sub.Has(f) {
				parts[i] = HexN(oneofImage(f, sub.Get(f)))
			}
		}
		return "m" + parts[0] + "," + parts[1]
	case "x":
		if fd.Kind() == protoreflect.StringKind {
			return HexB([]byte(v.String()))
		}
		return HexB(v.Bytes())
	}
	return "s" + HexN(oneofImage(fd, v))
}

// oneofGenVal makes a value for member fd, built with message m's own factories
func oneofGenVal(c *Ctx, m protoreflect.Message, fd protoreflect.FieldDescriptor) oneofVal {
	switch oneofKind(fd) {
	case "m":
		val := m.NewField(fd)
		sub := val.Message()
		ab := oneofSubFields(fd.Message())
		parts := []string{"-", "-"}
		for i, f := range ab {
			if f != nil && c.Intn(3) != 0 {
				n := uint64(1 + c.Intn(1000))
				sub.Set(f, oneofSmallInt(f, n))
				parts[i] = HexN(n)
			}
		}
		return oneofVal{"m" + parts[0] + "," + parts[1], val}
	case "x":
		b := [][]byte{nil, {}, []byte("a"), []byte("hello"), {0}}[c.Intn(5)]
		if fd.Kind() == protoreflect.StringKind {
			return oneofVal{HexB(b), protoreflect.ValueOfString(string(b))}
		}
		return oneofVal{HexB(b), protoreflect.ValueOfBytes(b)}
	}
	var v protoreflect.Value
	r := uint64(0)
	if c.Intn(3) != 0 { // zero (the default) is a legal oneof value and must still count as set
		r = c.U64() >> uint(c.Intn(64))
	}
	switch fd.Kind() {
	case protoreflect.BoolKind:
		v = protoreflect.ValueOfBool(r&1 == 1)
	case protoreflect.EnumKind:
		vals := fd.Enum().Values()
		v = protoreflect.ValueOfEnum(vals.Get(int(r % uint64(vals.Len()))).Number())
		if r&0x100 != 0 {
			v = protoreflect.ValueOfEnum(0)
		}
	case protoreflect.Int32Kind, protoreflect.Sint32Kind, protoreflect.Sfixed32Kind:
		v = protoreflect.ValueOfInt32(int32(r))
	case protoreflect.Int64Kind, protoreflect.Sint64Kind, protoreflect.Sfixed64Kind:
		v = protoreflect.ValueOfInt64(int64(r))
	case protoreflect.Uint32Kind, protoreflect.Fixed32Kind:
		v = protoreflect.ValueOfUint32(uint32(r))
	case protoreflect.Uint64Kind, protoreflect.Fixed64Kind:
		v = protoreflect.ValueOfUint64(r)
	case protoreflect.FloatKind:
		f := math.Float32frombits(uint32(r))
		if f != f {
			f = 1.5
		}
		v = protoreflect.ValueOfFloat32(f)
	case protoreflect.DoubleKind:
		f := math.Float64frombits(r)
		if f != f {
			f = -0.0
		}
		v = protoreflect.ValueOfFloat64(f)
	}
	return oneofVal{"s" + HexN(oneofImage(fd, v)), v}
}

// ---------------------------------------------------------------- generated / struct level access

func oneofMethod(m protoreflect.Message, name string) reflect.Value {
	return reflect.ValueOf(m.Interface()).MethodByName(name)
}

func oneofGoArg(t reflect.Type, fd protoreflect.FieldDescriptor, v protoreflect.Value) reflect.Value {
	switch fd.Kind() {
	case protoreflect.MessageKind, protoreflect.GroupKind:
		return reflect.ValueOf(v.Message().Interface())
	case protoreflect.StringKind:
		return reflect.ValueOf(v.String()).Convert(t)
	case protoreflect.BytesKind:
		return reflect.ValueOf(v.Bytes()).Convert(t)
	case protoreflect.BoolKind:
		return reflect.ValueOf(v.Bool()).Convert(t)
	case protoreflect.EnumKind:
		return reflect.ValueOf(int32(v.Enum())).Convert(t)
	case protoreflect.FloatKind, protoreflect.DoubleKind:
		return reflect.ValueOf(v.Float()).Convert(t)
	case protoreflect.Uint32Kind, protoreflect.Fixed32Kind, protoreflect.Uint64Kind, protoreflect.Fixed64Kind:
		return reflect.ValueOf(v.Uint()).Convert(t)
	}
	return reflect.ValueOf(v.Int()).Convert(t)
}

// the exported interface field of an open / hybrid struct holding the oneof
func oneofStructField(m protoreflect.Message, od protoreflect.OneofDescriptor) reflect.Value {
	rv := reflect.ValueOf(m.Interface())
	if rv.Kind() != reflect.Ptr || rv.Elem().Kind() != reflect.Struct {
		return reflect.Value{}
	}
	f := rv.Elem().FieldByName(strs.GoCamelCase(string(od.Name())))
	if !f.IsValid() || f.Kind() != reflect.Interface || !f.CanSet() {
		return reflect.Value{}
	}
	return f
}

// wrapper pointer type of member fd (discovered by setting the member on a scratch message)
func oneofWrapperType(t *oneofTarget, fd protoreflect.FieldDescriptor) reflect.Type {
	m := t.mt.New()
	if fd.Message() != nil {
		m.Mutable(fd)
	} else {
		m.Set(fd, fd.Default())
	}
	f := oneofStructField(m, t.od)
	if !f.IsValid() || f.IsNil() {
		return nil
	}
	return f.Elem().Type()
}

// ---------------------------------------------------------------- op histories

// is the struct field of the oneof a typed nil wrapper pointer (an ill-formed value)?
func oneofTypedNil(t *oneofTarget, m protoreflect.Message) bool {
	f := oneofStructField(m, t.od)
	return f.IsValid() && !f.IsNil() && f.Elem().Kind() == reflect.Ptr && f.Elem().IsNil()
}

func oneofObserve(c *Ctx, t *oneofTarget, m protoreflect.Message, ins []string, failed *bool) string {
	which := m.WhichOneof(t.od)
	wnum := uint64(0)
	if which != nil {
		wnum = uint64(which.Number())
	}
	wellFormed := t.repr == "dyn" || !oneofTypedNil(t, m)
	var bits, gbits strings.Builder
	pop := 0
	var popfd protoreflect.FieldDescriptor
	for _, fd := range t.members {
		h := m.Has(fd)
		bits.WriteString(Tok(h))
		if h {
			pop++
			popfd = fd
		}
		if t.repr == "wrapg" {
			gh := false
			if meth := oneofMethod(m, "Has"+strs.GoCamelCase(string(fd.Name()))); meth.IsValid() && meth.Type().NumIn() == 0 && meth.Type().NumOut() == 1 && meth.Type().Out(0).Kind() == reflect.Bool {
				gh = meth.Call(nil)[0].Bool()
				if gh != h && wellFormed && !*failed {
					*failed = true
					c.PropFail("C12", "generated Has<Member> disagrees with reflection Has", ins...)
				}
			} else {
				gh = h
			}
			gbits.WriteString(Tok(gh))
		}
	}
	if pop > 1 && !*failed {
		*failed = true
		c.PropFail("C12", "two members of one oneof are populated", ins...)
	}
	if (pop == 1 && (which == nil || which.Number() != popfd.Number())) || (pop == 0 && which != nil) {
		if !*failed {
			*failed = true
			c.PropFail("C12", "WhichOneof does not name the populated member", ins...)
		}
	}
	out := "w" + HexN(wnum) + "h" + bits.String()
	if t.repr == "wrapg" {
		gc := wnum
		if meth := oneofMethod(m, "Which"+strs.GoCamelCase(string(t.od.Name()))); meth.IsValid() && meth.Type().NumIn() == 0 && meth.Type().NumOut() == 1 && (meth.Type().Out(0).Kind() == reflect.Int32 || meth.Type().Out(0).Kind() == reflect.Uint32) {
			if r := meth.Call(nil)[0]; r.Kind() == reflect.Int32 {
				gc = uint64(r.Int())
			} else {
				gc = r.Uint()
			}
			if gc != wnum && wellFormed && !*failed {
				*failed = true
				c.PropFail("C12", "generated Which<Oneof> disagrees with WhichOneof", ins...)
			}
		}
		out += "g" + HexN(gc) + "k" + gbits.String()
	}
	return out
}

func oneofFinalDigest(t *oneofTarget, m protoreflect.Message) string {
	which := m.WhichOneof(t.od)
	if which == nil {
		return "-"
	}
	return HexN(uint64(which.Number())) + "=" + oneofDigest(m, which)
}

func oneofHistory(c *Ctx, t *oneofTarget, nops int) {
	m := t.mt.New()
	ins := []string{t.label, t.repr, oneofMembersTok(t.members)}
	var obs []string
	failed := false
	defer func() {
		if r := recover(); r != nil {
			c.PropFail("C12", fmt.Sprintf("panic during oneof history: %v", r), ins...)
		}
	}()
	var msgMembers []protoreflect.FieldDescriptor
	for _, fd := range t.members {
		if fd.Message() != nil {
			msgMembers = append(msgMembers, fd)
		}
	}
	pickNear := func(last protoreflect.FieldDescriptor) protoreflect.FieldDescriptor {
		if last != nil && c.Intn(3) == 0 {
			return last
		}
		if len(msgMembers) > 0 && c.Intn(4) == 0 {
			return msgMembers[c.Intn(len(msgMembers))]
		}
		return t.members[c.Intn(len(t.members))]
	}
	var last protoreflect.FieldDescriptor
	for k := 0; k < nops; k++ {
		fd := pickNear(last)
		last = fd
		num := HexN(uint64(fd.Number()))
		r := c.Intn(20)
		switch {
		case r < 5: // Set, through reflection, the generated setter, or the struct field
			v := oneofGenVal(c, m, fd)
			done := false
			if t.repr != "dyn" && c.Intn(3) == 0 {
				if meth := oneofMethod(m, "Set"+strs.GoCamelCase(string(fd.Name()))); meth.IsValid() && meth.Type().NumIn() == 1 {
					meth.Call([]reflect.Value{oneofGoArg(meth.Type().In(0), fd, v.v)})
					done = true
					c.Stat("op_gen_set")
				}
			}
			if !done {
				m.Set(fd, v.v)
			}
			ins = append(ins, "S"+num+"="+v.tok)
		case r < 8:
			done := false
			if t.repr != "dyn" && c.Intn(3) == 0 {
				if meth := oneofMethod(m, "Clear"+strs.GoCamelCase(string(fd.Name()))); meth.IsValid() && meth.Type().NumIn() == 0 {
					meth.Call(nil)
					done = true
					c.Stat("op_gen_clear")
				}
			}
			if !done {
				m.Clear(fd)
			}
			ins = append(ins, "C"+num)
		case r < 10:
			if fd.Message() == nil {
				if len(msgMembers) == 0 {
					m.Get(fd)
					continue
				}
				fd = msgMembers[c.Intn(len(msgMembers))]
				last = fd
				num = HexN(uint64(fd.Number()))
			}
			m.Mutable(fd)
			ins = append(ins, "M"+num)
		case r == 10: // clear the whole oneof
			done := false
			if t.repr != "dyn" {
				if meth := oneofMethod(m, "Clear"+strs.GoCamelCase(string(t.od.Name()))); meth.IsValid() && meth.Type().NumIn() == 0 && c.Bool() {
					meth.Call(nil)
					done = true
					c.Stat("op_gen_clearoneof")
				} else if f := oneofStructField(m, t.od); f.IsValid() && c.Bool() {
					f.Set(reflect.Zero(f.Type()))
					done = true
					c.Stat("op_struct_nil")
				}
			}
			if !done {
				for _, f := range t.members {
					m.Clear(f)
				}
			}
			ins = append(ins, "Z")
		case r == 11: // generated setter of a message member with nil
			if t.repr == "dyn" || fd.Message() == nil {
				continue
			}
			meth := oneofMethod(m, "Set"+strs.GoCamelCase(string(fd.Name())))
			if !meth.IsValid() || meth.Type().NumIn() != 1 || meth.Type().In(0).Kind() != reflect.Ptr {
				continue
			}
			meth.Call([]reflect.Value{reflect.Zero(meth.Type().In(0))})
			ins = append(ins, "N"+num)
			c.Stat("op_gen_setnil")
		case r == 12: // typed nil wrapper pointer in the struct field
			if t.repr == "dyn" {
				continue
			}
			f := oneofStructField(m, t.od)
			wt := oneofWrapperType(t, fd)
			if !f.IsValid() || wt == nil {
				continue
			}
			f.Set(reflect.Zero(wt))
			ins = append(ins, "T"+num)
			c.Stat("op_struct_typednil")
		case r < 16: // Merge from another message (sometimes of the other flavour: generated <-> dynamicpb)
			srcT := t.mt
			if c.Intn(3) == 0 {
				if alt := oneofAltType(t); alt != nil {
					srcT = alt
					c.Stat("op_merge_cross_flavour")
				}
			}
			src := srcT.New()
			tok := "G-"
			if c.Intn(5) != 0 {
				v := oneofGenVal(c, src, fd)
				src.Set(fd, v.v)
				tok = "G" + num + "=" + v.tok
			}
			proto.Merge(m.Interface(), src.Interface())
			ins = append(ins, tok)
		default: // one occurrence on the wire, merged into the message
			src := t.mt.New()
			v := oneofGenVal(c, src, fd)
			src.Set(fd, v.v)
			b, err := proto.MarshalOptions{AllowPartial: true}.Marshal(src.Interface())
			if err != nil {
				continue
			}
			if err := (proto.UnmarshalOptions{Merge: true, AllowPartial: true}).Unmarshal(b, m.Interface()); err != nil {
				c.PropFail("C12", "unmarshal of a single oneof member fails", append(ins, "W"+num+"="+v.tok)...)
				return
			}
			ins = append(ins, "W"+num+"="+v.tok)
		}
		obs = append(obs, oneofObserve(c, t, m, ins, &failed))
	}
	obs = append(obs, oneofFinalDigest(t, m))
	c.Case("oneof", "ops", ins, obs)
	c.Stat("ops_" + t.flavour)
}

// the same descriptor through the other implementation (dynamicpb for generated types and back)
func oneofAltType(t *oneofTarget) protoreflect.MessageType {
	md := t.mt.Descriptor()
	if t.repr != "dyn" {
		return dynamicpb.NewMessageType(md)
	}
	mt, err := protoregistry.GlobalTypes.FindMessageByName(md.FullName())
	if err != nil || mt.Descriptor() != md {
		return nil
	}
	return mt
}

// ---------------------------------------------------------------- several members on the wire

func oneofWireCase(c *Ctx, t *oneofTarget, nocc int) {
	ins := []string{t.label, t.repr, oneofMembersTok(t.members)}
	defer func() {
		if r := recover(); r != nil {
			c.PropFail("C12", fmt.Sprintf("panic during oneof decode: %v", r), ins...)
		}
	}()
	var buf []byte
	var lastfd protoreflect.FieldDescriptor
	for k := 0; k < nocc; k++ {
		fd := t.members[c.Intn(len(t.members))]
		if lastfd != nil && c.Intn(3) == 0 {
			fd = lastfd // repeated occurrence of the same member
		}
		if c.Intn(6) == 0 {
			// malformed stream: an occurrence of a member with the wrong wire type is an unknown
			// field; it must not select the member ("u" tokens are ignored by the model)
			var wt protowire.Type
			switch fd.Kind() {
			case protoreflect.Fixed32Kind, protoreflect.Sfixed32Kind, protoreflect.FloatKind, protoreflect.Fixed64Kind,
				protoreflect.Sfixed64Kind, protoreflect.DoubleKind, protoreflect.StringKind, protoreflect.BytesKind,
				protoreflect.MessageKind, protoreflect.GroupKind:
				wt = protowire.VarintType
			default:
				wt = protowire.Fixed32Type
			}
			buf = protowire.AppendTag(buf, fd.Number(), wt)
			if wt == protowire.VarintType {
				buf = protowire.AppendVarint(buf, c.U64()>>uint(c.Intn(64)))
			} else {
				buf = protowire.AppendFixed32(buf, uint32(c.U64()))
			}
			ins = append(ins, "u"+HexN(uint64(fd.Number())))
			c.Stat("wire_wrong_type")
			continue
		}
		src := t.mt.New()
		v := oneofGenVal(c, src, fd)
		src.Set(fd, v.v)
		b, err := proto.MarshalOptions{AllowPartial: true}.Marshal(src.Interface())
		if err != nil {
			continue
		}
		buf = append(buf, b...)
		ins = append(ins, HexN(uint64(fd.Number()))+"="+v.tok)
		lastfd = fd
	}
	m := t.mt.New()
	if err := (proto.UnmarshalOptions{AllowPartial: true}).Unmarshal(buf, m.Interface()); err != nil {
		c.PropFail("C12", "unmarshal of concatenated oneof members fails", ins...)
		return
	}
	failed := false
	o := oneofObserve(c, t, m, ins, &failed)
	which := m.WhichOneof(t.od)
	if lastfd != nil && (which == nil || which.Number() != lastfd.Number()) {
		c.PropFail("C12", "binary decoding: the last member on the wire does not win", ins...)
	}
	c.Case("oneof", "wire", ins, []string{o, oneofFinalDigest(t, m)})
	c.Stat("wire_" + t.flavour)
}

// ---------------------------------------------------------------- JSON / text documents

func oneofIsNullSkippable(fd protoreflect.FieldDescriptor) bool {
	if md := fd.Message(); md != nil && md.FullName() == "google.protobuf.Value" && fd.Cardinality() != protoreflect.Repeated {
		return false
	}
	if ed := fd.Enum(); ed != nil && ed.FullName() == "google.protobuf.NullValue" {
		return false
	}
	return true
}

func oneofDocCase(c *Ctx, t *oneofTarget, format string, nev int) {
	// candidate fields: members of every real oneof of the message and a few ordinary fields
	md := t.mt.Descriptor()
	var cands []protoreflect.FieldDescriptor
	for i := 0; i < md.Oneofs().Len(); i++ {
		od := md.Oneofs().Get(i)
		if od.IsSynthetic() {
			continue
		}
		for j := 0; j < od.Fields().Len(); j++ {
			cands = append(cands, od.Fields().Get(j))
		}
	}
	cands = append(cands, t.others...)
	ins := []string{t.label}
	defer func() {
		if r := recover(); r != nil {
			c.PropFail("C12", fmt.Sprintf("panic during %s decode: %v", format, r), ins...)
		}
	}()
	var frags []string
	type named struct {
		od  protoreflect.OneofDescriptor
		num protoreflect.FieldNumber
	}
	var namedMembers []named
	var evfds []protoreflect.FieldDescriptor
	var lastfd protoreflect.FieldDescriptor
	for k := 0; k < nev; k++ {
		fd := cands[c.Intn(len(cands))]
		if lastfd != nil && c.Intn(8) == 0 {
			fd = lastfd
		}
		if c.Intn(3) == 0 { // prefer members of the target oneof
			fd = t.members[c.Intn(len(t.members))]
		}
		lastfd = fd
		isNull := format == "json" && c.Intn(4) == 0
		src := t.mt.New()
		src.Set(fd, oneofGenVal(c, src, fd).v)
		var frag string
		if format == "json" {
			b, err := protojson.MarshalOptions{AllowPartial: true}.Marshal(src.Interface())
			if err != nil {
				continue
			}
			s := strings.TrimSpace(string(b))
			if len(s) < 2 || s[0] != '{' || s[len(s)-1] != '}' || len(strings.TrimSpace(s[1:len(s)-1])) == 0 {
				continue
			}
			frag = strings.TrimSpace(s[1 : len(s)-1])
			if isNull {
				colon := strings.Index(frag, ":")
				frag = frag[:colon] + ":null"
			}
		} else {
			b, err := prototext.MarshalOptions{AllowPartial: true}.Marshal(src.Interface())
			if err != nil || len(b) == 0 {
				continue
			}
			frag = string(b)
		}
		frags = append(frags, frag)
		evfds = append(evfds, fd)
		oi := "-"
		if od := fd.ContainingOneof(); od != nil {
			oi = HexN(uint64(od.Index()))
		}
		skip := isNull && oneofIsNullSkippable(fd)
		ins = append(ins, HexN(uint64(fd.Number()))+":"+oi+":"+Tok(skip))
		if od := fd.ContainingOneof(); od != nil && !skip {
			namedMembers = append(namedMembers, named{od, fd.Number()})
		}
	}
	if len(frags) == 0 {
		return
	}
	m := t.mt.New()
	var err error
	if format == "json" {
		err = protojson.UnmarshalOptions{AllowPartial: true}.Unmarshal([]byte("{"+strings.Join(frags, ",")+"}"), m.Interface())
	} else {
		err = prototext.UnmarshalOptions{AllowPartial: true}.Unmarshal([]byte(strings.Join(frags, " ")), m.Interface())
	}
	var obs string
	switch {
	case err == nil:
		var nums []int
		seen := map[protoreflect.FieldNumber]bool{}
		for _, fd := range evfds {
			if m.Has(fd) && !seen[fd.Number()] {
				seen[fd.Number()] = true
				nums = append(nums, int(fd.Number()))
			}
		}
		sort.Ints(nums)
		var parts []string
		for _, n := range nums {
			parts = append(parts, HexN(uint64(n)))
		}
		obs = "ok:" + strings.Join(parts, ",")
		// property predicate: two distinct members of one oneof named, yet accepted
		for i := range namedMembers {
			for j := i + 1; j < len(namedMembers); j++ {
				if namedMembers[i].od == namedMembers[j].od && namedMembers[i].num != namedMembers[j].num {
					c.PropFail("C12", format+" decoding accepts two members of one oneof", ins...)
				}
			}
		}
		failed := false
		oneofObserve(c, t, m, ins, &failed)
	case strings.Contains(err.Error(), "already set"):
		obs = "e_oneof"
	case strings.Contains(err.Error(), "duplicate field") || strings.Contains(err.Error(), "is repeated"):
		obs = "e_dup"
	default:
		obs = "e_other"
		c.Sample(format + " other error: " + err.Error())
	}
	c.Case("oneof", format, ins, []string{obs})
	c.Stat(format + "_" + strings.SplitN(obs, ":", 2)[0])
}

// ---------------------------------------------------------------- random schemas

var oneofSchemaSeq int

func oneofRandomTarget(c *Ctx) *oneofTarget {
	oneofSchemaSeq++
	pkg := fmt.Sprintf("oneofrnd%d", oneofSchemaSeq)
	syn := []string{"proto2", "proto3", "editions"}[c.Intn(3)]
	fdp := &descriptorpb.FileDescriptorProto{Name: proto.String(pkg + ".proto"), Package: proto.String(pkg), Syntax: proto.String(syn)}
	if syn == "editions" {
		fdp.Edition = descriptorpb.Edition_EDITION_2023.Enum()
	}
	fdp.EnumType = []*descriptorpb.EnumDescriptorProto{{Name: proto.String("E"), Value: []*descriptorpb.EnumValueDescriptorProto{
		{Name: proto.String("E0"), Number: proto.Int32(0)}, {Name: proto.String("E3"), Number: proto.Int32(3)}}}}
	opt := descriptorpb.FieldDescriptorProto_LABEL_OPTIONAL.Enum()
	sub := &descriptorpb.DescriptorProto{Name: proto.String("Sub"), Field: []*descriptorpb.FieldDescriptorProto{
		{Name: proto.String("a"), Number: proto.Int32(1), Label: opt, Type: descriptorpb.FieldDescriptorProto_TYPE_INT32.Enum()},
		{Name: proto.String("b"), Number: proto.Int32(2), Label: opt, Type: descriptorpb.FieldDescriptorProto_TYPE_UINT64.Enum()},
	}}
	msg := &descriptorpb.DescriptorProto{Name: proto.String("M")}
	kinds := append([]descriptorpb.FieldDescriptorProto_Type{descriptorpb.FieldDescriptorProto_TYPE_MESSAGE, descriptorpb.FieldDescriptorProto_TYPE_MESSAGE}, presScalarKinds...)
	num := int32(1)
	// a plain field before, between and after the oneofs
	plain := func() {
		msg.Field = append(msg.Field, &descriptorpb.FieldDescriptorProto{Name: proto.String(fmt.Sprintf("p%d", num)), Number: proto.Int32(num),
			Label: opt, Type: descriptorpb.FieldDescriptorProto_TYPE_INT32.Enum()})
		num++
	}
	plain()
	noneofs := 1 + c.Intn(2)
	for o := 0; o < noneofs; o++ {
		msg.OneofDecl = append(msg.OneofDecl, &descriptorpb.OneofDescriptorProto{Name: proto.String(fmt.Sprintf("o%d", o))})
		nm := 1 + c.Intn(6)
		for k := 0; k < nm; k++ {
			kind := kinds[c.Intn(len(kinds))]
			f := &descriptorpb.FieldDescriptorProto{Name: proto.String(fmt.Sprintf("m%d_%d", o, k)), Number: proto.Int32(num), Label: opt,
				Type: kind.Enum(), OneofIndex: proto.Int32(int32(o))}
			num += int32(1 + c.Intn(2))
			switch kind {
			case descriptorpb.FieldDescriptorProto_TYPE_MESSAGE:
				f.TypeName = proto.String("." + pkg + ".Sub")
			case descriptorpb.FieldDescriptorProto_TYPE_ENUM:
				f.TypeName = proto.String("." + pkg + ".E")
			}
			msg.Field = append(msg.Field, f)
		}
		if c.Bool() {
			plain()
		}
	}
	fdp.MessageType = []*descriptorpb.DescriptorProto{sub, msg}
	fd, err := protodesc.NewFile(fdp, nil)
	if err != nil {
		c.Stat("schema_rejected")
		return nil
	}
	ts := oneofMakeTargets(dynamicpb.NewMessageType(fd.Messages().ByName("M")), "dyn")
	return ts[c.Intn(len(ts))]
}

// ---------------------------------------------------------------- driver

func famOneof(c *Ctx) {
	ts := oneofTargets()
	c.StatN("targets", len(ts))
	// (a) corpus: every oneof of every linked type: short histories, wire inputs, documents
	for _, t := range ts {
		oneofHistory(c, t, 6+c.Intn(6))
		oneofWireCase(c, t, 2+c.Intn(3))
		oneofDocCase(c, t, "json", 2+c.Intn(2))
		oneofDocCase(c, t, "text", 2+c.Intn(2))
	}
	// the main types get more
	var mains []*oneofTarget
	for _, t := range ts {
		if strings.HasSuffix(string(t.mt.Descriptor().FullName()), ".TestAllTypes") || strings.Contains(string(t.mt.Descriptor().FullName()), "TestAllTypesProto") {
			mains = append(mains, t)
		}
	}
	c.StatN("main_targets", len(mains))
	// (b) random part
	for c.Cases < c.N {
		var t *oneofTarget
		switch r := c.Intn(10); {
		case r < 5:
			t = mains[c.Intn(len(mains))]
		case r < 8:
			t = ts[c.Intn(len(ts))]
		default:
			t = oneofRandomTarget(c)
			if t == nil {
				continue
			}
		}
		switch r := c.Intn(10); {
		case r < 5:
			oneofHistory(c, t, 1+c.Intn(12))
		case r < 7:
			oneofWireCase(c, t, 1+c.Intn(5))
		case r < 9:
			oneofDocCase(c, t, "json", 1+c.Intn(4))
		default:
			oneofDocCase(c, t, "text", 1+c.Intn(4))
		}
	}
}
