//go:build verif

package main

// family "gencode": C41 — generated code compiles and is faithful to its schema.
//
// For random valid schemas × API levels the generator (compiler/protogen +
// cmd/protoc-gen-go/internal_gengo) is run in-process as a library; the output is checked for
// gofmt-cleanliness, written to a scratch module outside the repository, compiled with the Go
// toolchain, and linked into a comparison program (gencode_main.go.txt below) that compares every
// generated message type with dynamicpb over the original descriptor.  Only P/K/S lines: there
// is no Coq model of the Go type checker (props/C41.json has "model": false).

import (
	"bytes"
	"fmt"
	"go/format"
	"go/parser"
	"go/token"
	"math"
	"os"
	"os/exec"
	"path"
	"path/filepath"
	"runtime"
	"sort"
	"strings"
	"time"

	gengo "google.golang.org/protobuf/cmd/protoc-gen-go/internal_gengo"
	"google.golang.org/protobuf/compiler/protogen"
	"google.golang.org/protobuf/encoding/prototext"
	"google.golang.org/protobuf/internal/strs"
	"google.golang.org/protobuf/proto"
	"google.golang.org/protobuf/reflect/protodesc"
	"google.golang.org/protobuf/reflect/protoreflect"
	"google.golang.org/protobuf/reflect/protoregistry"
	"google.golang.org/protobuf/types/descriptorpb"
	"google.golang.org/protobuf/types/gofeaturespb"
	"google.golang.org/protobuf/types/pluginpb"
)

func init() { Register("gencode", famGencode) }

type gencodeRng struct{ s uint64 }

func (r *gencodeRng) U64() uint64 {
	r.s += 0x9e3779b97f4a7c15
	z := r.s
	z = (z ^ (z >> 30)) * 0xbf58476d1ce4e5b9
	z = (z ^ (z >> 27)) * 0x94d049bb133111eb
	return z ^ (z >> 31)
}
func (r *gencodeRng) Intn(n int) int {
	if n <= 0 {
		return 0
	}
	return int(r.U64() % uint64(n))
}
func (r *gencodeRng) Bool() bool              { return r.U64()&1 == 1 }
func (r *gencodeRng) Pct(p int) bool          { return r.Intn(100) < p }
func (r *gencodeRng) Pick(xs []string) string { return xs[r.Intn(len(xs))] }

// ---------------------------------------------------------------- schema generator

// names that collide with generated identifiers, methods, Go keywords and each other after camel-casing
var gencodeFieldNames = []string{
	"reset", "string", "proto_message", "descriptor", "x", "get_x", "has_x", "set_x", "clear_x", "which_x",
	"y", "get_y", "kind", "which_kind", "build", "marshal", "unmarshal", "size", "type", "value", "foo_bar", "fooBar", "FooBar",
	"_foo", "foo_", "foo__bar", "x_1", "X1", "x1", "class", "func", "package", "interface", "go", "map", "range", "select", "chan",
	"state", "sizeCache", "size_cache", "unknown_fields", "unknownFields", "extension_fields", "xxx_hidden_x", "XXX_x", "name", "names",
	"enum", "number", "zero", "new", "init", "len", "error", "nil", "true", "int32", "b0", "builder", "m", "msg", "e", "entry", "key",
	"has", "get", "set", "clear", "which", "not_set", "case", "Case", "a", "b", "c", "d", "is_x", "x_", "data", "id", "ID", "Id",
}

var gencodeMsgNames = []string{
	"M", "Msg", "Reset", "String", "ProtoMessage", "Descriptor", "Foo_Bar", "FooBar", "X", "GetX", "Kind", "Type", "Value", "Entry",
	"XEntry", "Builder", "Case", "isM_Kind", "Enum", "E", "N", "Nested", "File", "Error", "Map", "lower", "a1", "T_",
}

var gencodeEnumNames = []string{"E", "Kind", "Type", "Enum", "Color", "X", "Case", "e_lower", "State"}
var gencodeEnumValueNames = []string{"UNKNOWN", "ZERO", "A", "B", "C", "reset", "String", "Kind_A", "X", "names", "Value", "E_A", "FOO_BAR", "fooBar", "_x", "x_"}
var gencodeOneofNames = []string{"kind", "x", "y", "reset", "value", "test_oneof", "o", "choice", "which", "Kind", "foo_bar", "type", "string"}

var gencodeScalarTypes = []descriptorpb.FieldDescriptorProto_Type{
	descriptorpb.FieldDescriptorProto_TYPE_INT32, descriptorpb.FieldDescriptorProto_TYPE_INT64,
	descriptorpb.FieldDescriptorProto_TYPE_UINT32, descriptorpb.FieldDescriptorProto_TYPE_UINT64,
	descriptorpb.FieldDescriptorProto_TYPE_SINT32, descriptorpb.FieldDescriptorProto_TYPE_SINT64,
	descriptorpb.FieldDescriptorProto_TYPE_FIXED32, descriptorpb.FieldDescriptorProto_TYPE_FIXED64,
	descriptorpb.FieldDescriptorProto_TYPE_SFIXED32, descriptorpb.FieldDescriptorProto_TYPE_SFIXED64,
	descriptorpb.FieldDescriptorProto_TYPE_FLOAT, descriptorpb.FieldDescriptorProto_TYPE_DOUBLE,
	descriptorpb.FieldDescriptorProto_TYPE_BOOL, descriptorpb.FieldDescriptorProto_TYPE_STRING,
	descriptorpb.FieldDescriptorProto_TYPE_BYTES,
}

var gencodeMapKeyTypes = []descriptorpb.FieldDescriptorProto_Type{
	descriptorpb.FieldDescriptorProto_TYPE_INT32, descriptorpb.FieldDescriptorProto_TYPE_INT64,
	descriptorpb.FieldDescriptorProto_TYPE_UINT32, descriptorpb.FieldDescriptorProto_TYPE_UINT64,
	descriptorpb.FieldDescriptorProto_TYPE_SINT32, descriptorpb.FieldDescriptorProto_TYPE_SINT64,
	descriptorpb.FieldDescriptorProto_TYPE_FIXED32, descriptorpb.FieldDescriptorProto_TYPE_FIXED64,
	descriptorpb.FieldDescriptorProto_TYPE_SFIXED32, descriptorpb.FieldDescriptorProto_TYPE_SFIXED64,
	descriptorpb.FieldDescriptorProto_TYPE_BOOL, descriptorpb.FieldDescriptorProto_TYPE_STRING,
}

var gencodeFieldNumbers = []int32{1, 2, 3, 4, 5, 6, 7, 8, 9, 10, 11, 12, 13, 14, 15, 16, 17, 31, 32, 63, 64, 65, 127, 128, 2047, 2048, 18999, 20000, 65535, 536870911}

type gencodeGen struct {
	r       *gencodeRng
	syntax  string // proto2 | proto3 | editions
	pkg     string
	fd      *descriptorpb.FileDescriptorProto
	msgs    []string // ".pkg.M" full names usable as field types
	enums   []gencodeEnumRef
	extable []gencodeExtendee
	locs    []*descriptorpb.SourceCodeInfo_Location
	goFeat  bool // file imports go_features.proto

	nonZeroFirstEnums int

	fileClosedEnums bool // file-level features.enum_type = CLOSED
	fileImplicit    bool // file-level features.field_presence = IMPLICIT
}

type gencodeEnumRef struct {
	name      string
	first     string   // name of the first value
	names     []string // all value names, in declaration order
	zeroName  string   // a value numbered 0, if any
	closed    bool
	zeroFirst bool
}

func (g *gencodeGen) enumRef(name string) *gencodeEnumRef {
	for i := range g.enums {
		if g.enums[i].name == name {
			return &g.enums[i]
		}
	}
	return nil
}

type gencodeExtendee struct {
	name   string
	lo, hi int32 // [lo, hi)
	used   map[int32]bool
}

func (g *gencodeGen) comment(path ...int32) {
	if !g.r.Pct(25) {
		return
	}
	texts := []string{" plain comment\n", " two\n lines\n", "no leading space\n", " has */ inside and /* too\n", " tab\there\n", "\n\n blank lines around\n\n",
		" Deprecated: do not use.\n", " trailing spaces   \n", " unicode \u00e9 \u4e16\u754c \u2028 sep\n", "  indented\n    more indented\n", " // nested slashes\n", " build ignore\n", " x\n"}
	if v := os.Getenv("GENCODE_COMMENTS"); v != "" {
		var sel []string
		for _, i := range strings.Split(v, ",") {
			var k int
			fmt.Sscan(i, &k)
			sel = append(sel, texts[k])
		}
		texts = sel
	}
	loc := &descriptorpb.SourceCodeInfo_Location{Path: append([]int32(nil), path...), Span: []int32{int32(len(g.locs)), 0, 1}}
	loc.LeadingComments = proto.String(g.r.Pick(texts))
	if g.r.Pct(30) {
		loc.TrailingComments = proto.String(g.r.Pick(texts))
	}
	if g.r.Pct(20) {
		loc.LeadingDetachedComments = []string{g.r.Pick(texts), g.r.Pick(texts)}
	}
	g.locs = append(g.locs, loc)
}

func (g *gencodeGen) uniqueName(pool []string, used map[string]bool) string {
	for i := 0; i < 50; i++ {
		n := g.r.Pick(pool)
		if !used[n] {
			used[n] = true
			return n
		}
	}
	for i := 0; ; i++ {
		n := fmt.Sprintf("n%d", i)
		if !used[n] {
			used[n] = true
			return n
		}
	}
}

func (g *gencodeGen) featureSet() *descriptorpb.FeatureSet { return &descriptorpb.FeatureSet{} }

func (g *gencodeGen) genEnum(scope string, used map[string]bool, path []int32) *descriptorpb.EnumDescriptorProto {
	name := g.uniqueName(gencodeEnumNames, used)
	ed := &descriptorpb.EnumDescriptorProto{Name: proto.String(name)}
	g.comment(path...)
	closed := g.syntax == "proto2" || g.fileClosedEnums
	if g.syntax == "editions" && !closed && g.r.Pct(30) {
		ed.Options = &descriptorpb.EnumOptions{Features: &descriptorpb.FeatureSet{EnumType: descriptorpb.FeatureSet_CLOSED.Enum()}}
		closed = true
	}
	n := 1 + g.r.Intn(4)
	vused := used // enum values live in the scope that contains the enum
	nums := map[int32]bool{}
	// closed enums may start with a non-zero value; half of those get a later zero value
	nonZeroFirst := closed && g.r.Pct(50)
	laterZero := nonZeroFirst && g.r.Pct(60)
	if laterZero && n < 2 {
		n = 2
	}
	zeroPos := -1
	if laterZero {
		zeroPos = 1 + g.r.Intn(n-1)
	}
	for i := 0; i < n; i++ {
		vn := g.uniqueName(gencodeEnumValueNames, vused)
		var num int32
		switch {
		case i == 0 && !nonZeroFirst:
			num = 0
		case i == 0:
			num = []int32{1, 1, -1, 5, 2147483647, -2147483648}[g.r.Intn(6)]
		case i == zeroPos:
			num = 0
		default:
			num = []int32{1, 2, 3, -1, 100, 2147483647, -2147483648, 7, 0, -7}[g.r.Intn(10)]
		}
		if nums[num] {
			if g.r.Pct(50) {
				if ed.Options == nil {
					ed.Options = &descriptorpb.EnumOptions{}
				}
				ed.Options.AllowAlias = proto.Bool(true)
			} else {
				for nums[num] {
					num++
				}
			}
		}
		nums[num] = true
		v := &descriptorpb.EnumValueDescriptorProto{Name: proto.String(vn), Number: proto.Int32(num)}
		if g.r.Pct(10) {
			v.Options = &descriptorpb.EnumValueOptions{Deprecated: proto.Bool(true)}
		}
		ed.Value = append(ed.Value, v)
		g.comment(append(append([]int32(nil), path...), 2, int32(i))...)
	}
	if g.r.Pct(10) {
		ed.ReservedName = []string{"RESERVED_NAME"}
		ed.ReservedRange = []*descriptorpb.EnumDescriptorProto_EnumReservedRange{{Start: proto.Int32(1000), End: proto.Int32(1001)}}
	}
	if g.r.Pct(10) {
		if ed.Options == nil {
			ed.Options = &descriptorpb.EnumOptions{}
		}
		ed.Options.Deprecated = proto.Bool(true)
	}
	ref := gencodeEnumRef{name: scope + "." + name, first: ed.Value[0].GetName(), closed: closed, zeroFirst: ed.Value[0].GetNumber() == 0}
	for _, v := range ed.Value {
		ref.names = append(ref.names, v.GetName())
		if v.GetNumber() == 0 && ref.zeroName == "" {
			ref.zeroName = v.GetName()
		}
	}
	if nonZeroFirst {
		g.nonZeroFirstEnums++
	}
	g.enums = append(g.enums, ref)
	return ed
}

func gencodeDefault(r *gencodeRng, t descriptorpb.FieldDescriptorProto_Type) string {
	switch t {
	case descriptorpb.FieldDescriptorProto_TYPE_BOOL:
		return []string{"true", "false"}[r.Intn(2)]
	case descriptorpb.FieldDescriptorProto_TYPE_STRING:
		return []string{"hi", "", "a\"b\\c", "é\n", "`backtick`", "\x00\x01", "世界"}[r.Intn(7)]
	case descriptorpb.FieldDescriptorProto_TYPE_BYTES:
		return []string{"\\001\\377", "abc", "", "\\\"q\\\\", "\\000"}[r.Intn(5)]
	case descriptorpb.FieldDescriptorProto_TYPE_FLOAT:
		return []string{"1.5", "-0", "inf", "-inf", "nan", "1e+20", "3.4028235e+38", "1e-45"}[r.Intn(8)]
	case descriptorpb.FieldDescriptorProto_TYPE_DOUBLE:
		return []string{"1.5", "-0", "inf", "-inf", "nan", "1e+20", "1.7976931348623157e+308", "5e-324"}[r.Intn(8)]
	case descriptorpb.FieldDescriptorProto_TYPE_UINT32, descriptorpb.FieldDescriptorProto_TYPE_FIXED32:
		return []string{"0", "7", "4294967295"}[r.Intn(3)]
	case descriptorpb.FieldDescriptorProto_TYPE_UINT64, descriptorpb.FieldDescriptorProto_TYPE_FIXED64:
		return []string{"0", "7", "18446744073709551615"}[r.Intn(3)]
	case descriptorpb.FieldDescriptorProto_TYPE_INT64, descriptorpb.FieldDescriptorProto_TYPE_SINT64, descriptorpb.FieldDescriptorProto_TYPE_SFIXED64:
		return []string{"0", "-7", "9223372036854775807", "-9223372036854775808"}[r.Intn(4)]
	default:
		return []string{"0", "-7", "2147483647", "-2147483648"}[r.Intn(4)]
	}
}

// genMessage generates message `name` in `scope` (a full name with leading dot).
func (g *gencodeGen) genMessage(scope, name string, depth int, path []int32) *descriptorpb.DescriptorProto {
	r := g.r
	full := scope + "." + name
	md := &descriptorpb.DescriptorProto{Name: proto.String(name)}
	g.comment(path...)
	g.msgs = append(g.msgs, full)

	// fields, oneofs, nested types, nested enums and their values share one namespace
	nestedUsed := map[string]bool{}
	fieldUsed := nestedUsed
	// nested enums and messages first so that fields can refer to them
	for i, n := 0, r.Intn(3)-1; i < n; i++ {
		md.EnumType = append(md.EnumType, g.genEnum(full, nestedUsed, append(append([]int32(nil), path...), 4, int32(i))))
	}
	if depth > 0 {
		for i, n := 0, r.Intn(3); i < n; i++ {
			nn := g.uniqueName(gencodeMsgNames, nestedUsed)
			md.NestedType = append(md.NestedType, g.genMessage(full, nn, depth-1, append(append([]int32(nil), path...), 3, int32(len(md.NestedType)))))
		}
	}

	// extension range
	var extLo, extHi int32
	if g.syntax != "proto3" && r.Pct(30) {
		extLo, extHi = 100, 200
		if r.Pct(30) {
			extLo, extHi = 1000, 536870912
		}
		md.ExtensionRange = []*descriptorpb.DescriptorProto_ExtensionRange{{Start: proto.Int32(extLo), End: proto.Int32(extHi)}}
		g.extable = append(g.extable, gencodeExtendee{name: full, lo: extLo, hi: extHi, used: map[int32]bool{}})
	}

	numUsed := map[int32]bool{}
	pickNum := func() int32 {
		for i := 0; i < 100; i++ {
			n := gencodeFieldNumbers[r.Intn(len(gencodeFieldNumbers))]
			if r.Pct(70) {
				n = int32(1 + r.Intn(20))
			}
			if !numUsed[n] && !(n >= extLo && n < extHi) {
				numUsed[n] = true
				return n
			}
		}
		for n := int32(21); ; n++ {
			if !numUsed[n] && !(n >= extLo && n < extHi) {
				numUsed[n] = true
				return n
			}
		}
	}

	nfields := r.Intn(7)
	if r.Pct(10) {
		nfields = 8 + r.Intn(30) // many fields: presence bitmaps beyond one word, dense/sparse coders
	}
	// oneof plan: field index -> oneof index
	noneofs := 0
	if r.Pct(40) {
		noneofs = 1 + r.Intn(2)
	}
	oneofUsed := map[string]bool{}
	for i := 0; i < noneofs; i++ {
		var on string
		if r.Pct(50) {
			// collide with a field name on purpose (after camel-casing); proto requires distinct names, so vary the spelling
			on = g.uniqueName(gencodeOneofNames, oneofUsed)
		} else {
			on = g.uniqueName(gencodeOneofNames, oneofUsed)
		}
		fieldUsed[on] = true // fields and oneofs share the message's namespace
		md.OneofDecl = append(md.OneofDecl, &descriptorpb.OneofDescriptorProto{Name: proto.String(on)})
		g.comment(append(append([]int32(nil), path...), 8, int32(i))...)
	}
	oneofCount := make([]int, noneofs)

	addField := func(fdp *descriptorpb.FieldDescriptorProto) {
		g.comment(append(append([]int32(nil), path...), 2, int32(len(md.Field)))...)
		md.Field = append(md.Field, fdp)
	}

	var proto3Optionals []*descriptorpb.FieldDescriptorProto
	for i := 0; i < nfields; i++ {
		fname := g.uniqueName(gencodeFieldNames, fieldUsed)
		fdp := &descriptorpb.FieldDescriptorProto{Name: proto.String(fname), Number: proto.Int32(pickNum())}
		inOneof := -1
		if noneofs > 0 && r.Pct(45) {
			inOneof = r.Intn(noneofs)
		}
		kind := r.Intn(100)
		isMap := false
		switch {
		case kind < 42:
			fdp.Type = gencodeScalarTypes[r.Intn(len(gencodeScalarTypes))].Enum()
		case kind < 62 && len(g.enums) > 0:
			e := g.enums[r.Intn(len(g.enums))]
			fdp.Type = descriptorpb.FieldDescriptorProto_TYPE_ENUM.Enum()
			fdp.TypeName = proto.String(e.name)
		case kind < 82:
			fdp.Type = descriptorpb.FieldDescriptorProto_TYPE_MESSAGE.Enum()
			fdp.TypeName = proto.String(g.msgs[r.Intn(len(g.msgs))])
			if g.syntax == "editions" && r.Pct(20) {
				fdp.Options = &descriptorpb.FieldOptions{Features: &descriptorpb.FeatureSet{MessageEncoding: descriptorpb.FeatureSet_DELIMITED.Enum()}}
			}
		case kind < 88 && g.syntax == "proto2" && depth >= 0:
			// group: nested message with a capitalised name, field name is its lower-case form
			gname := "G" + fmt.Sprint(len(md.NestedType)) + strs.GoCamelCase(fname)
			gname = strings.Map(func(c rune) rune {
				if c == '_' {
					return -1
				}
				return c
			}, gname)
			if nestedUsed[gname] || fieldUsed[strings.ToLower(gname)] {
				fdp.Type = descriptorpb.FieldDescriptorProto_TYPE_INT32.Enum()
				break
			}
			nestedUsed[gname] = true
			fieldUsed[strings.ToLower(gname)] = true
			fdp.Name = proto.String(strings.ToLower(gname))
			sub := g.genMessage(full, gname, 0, append(append([]int32(nil), path...), 3, int32(len(md.NestedType))))
			md.NestedType = append(md.NestedType, sub)
			fdp.Type = descriptorpb.FieldDescriptorProto_TYPE_GROUP.Enum()
			fdp.TypeName = proto.String(full + "." + gname)
		case kind < 96 && inOneof < 0:
			// map field: synthesised entry message
			ename := strs.MapEntryName(fname)
			if nestedUsed[ename] {
				fdp.Type = descriptorpb.FieldDescriptorProto_TYPE_BOOL.Enum()
				break
			}
			nestedUsed[ename] = true
			isMap = true
			kt := gencodeMapKeyTypes[r.Intn(len(gencodeMapKeyTypes))]
			val := &descriptorpb.FieldDescriptorProto{Name: proto.String("value"), JsonName: proto.String("value"), Number: proto.Int32(2), Label: descriptorpb.FieldDescriptorProto_LABEL_OPTIONAL.Enum()}
			switch v := r.Intn(10); {
			case v < 5:
				val.Type = gencodeScalarTypes[r.Intn(len(gencodeScalarTypes))].Enum()
			case v < 7 && len(g.enums) > 0 && g.enums[(i+len(g.enums)-1)%len(g.enums)].zeroFirst:
				e := g.enums[(i+len(g.enums)-1)%len(g.enums)]
				val.Type = descriptorpb.FieldDescriptorProto_TYPE_ENUM.Enum()
				val.TypeName = proto.String(e.name)
			default:
				val.Type = descriptorpb.FieldDescriptorProto_TYPE_MESSAGE.Enum()
				val.TypeName = proto.String(g.msgs[r.Intn(len(g.msgs))])
			}
			entry := &descriptorpb.DescriptorProto{
				Name: proto.String(ename),
				Field: []*descriptorpb.FieldDescriptorProto{
					{Name: proto.String("key"), JsonName: proto.String("key"), Number: proto.Int32(1), Label: descriptorpb.FieldDescriptorProto_LABEL_OPTIONAL.Enum(), Type: kt.Enum()},
					val,
				},
				Options: &descriptorpb.MessageOptions{MapEntry: proto.Bool(true)},
			}
			md.NestedType = append(md.NestedType, entry)
			fdp.Type = descriptorpb.FieldDescriptorProto_TYPE_MESSAGE.Enum()
			fdp.TypeName = proto.String(full + "." + ename)
			fdp.Label = descriptorpb.FieldDescriptorProto_LABEL_REPEATED.Enum()
		default:
			fdp.Type = gencodeScalarTypes[r.Intn(len(gencodeScalarTypes))].Enum()
		}
		isMsg := fdp.GetType() == descriptorpb.FieldDescriptorProto_TYPE_MESSAGE || fdp.GetType() == descriptorpb.FieldDescriptorProto_TYPE_GROUP
		isScalar := !isMsg
		// label
		if !isMap {
			switch {
			case inOneof >= 0:
				fdp.Label = descriptorpb.FieldDescriptorProto_LABEL_OPTIONAL.Enum()
				fdp.OneofIndex = proto.Int32(int32(inOneof))
				oneofCount[inOneof]++
			case r.Pct(25):
				fdp.Label = descriptorpb.FieldDescriptorProto_LABEL_REPEATED.Enum()
				if isScalar && fdp.GetType() != descriptorpb.FieldDescriptorProto_TYPE_STRING && fdp.GetType() != descriptorpb.FieldDescriptorProto_TYPE_BYTES {
					switch g.syntax {
					case "editions":
						if r.Pct(30) {
							fdp.Options = &descriptorpb.FieldOptions{Features: &descriptorpb.FeatureSet{RepeatedFieldEncoding: descriptorpb.FeatureSet_EXPANDED.Enum()}}
						}
					default:
						if r.Pct(50) {
							fdp.Options = &descriptorpb.FieldOptions{Packed: proto.Bool(r.Bool())}
						}
					}
				}
			case g.syntax == "proto2" && r.Pct(12):
				fdp.Label = descriptorpb.FieldDescriptorProto_LABEL_REQUIRED.Enum()
			case g.syntax == "editions" && r.Pct(10) && fdp.GetType() != descriptorpb.FieldDescriptorProto_TYPE_MESSAGE:
				fdp.Label = descriptorpb.FieldDescriptorProto_LABEL_OPTIONAL.Enum()
				if fdp.Options == nil {
					fdp.Options = &descriptorpb.FieldOptions{}
				}
				if fdp.Options.Features == nil {
					fdp.Options.Features = &descriptorpb.FeatureSet{}
				}
				fdp.Options.Features.FieldPresence = descriptorpb.FeatureSet_LEGACY_REQUIRED.Enum()
			default:
				fdp.Label = descriptorpb.FieldDescriptorProto_LABEL_OPTIONAL.Enum()
				switch g.syntax {
				case "proto3":
					if !isMsg && r.Pct(35) {
						fdp.Proto3Optional = proto.Bool(true)
						proto3Optionals = append(proto3Optionals, fdp)
					}
				case "editions":
					if !isMsg && r.Pct(30) {
						if fdp.Options == nil {
							fdp.Options = &descriptorpb.FieldOptions{}
						}
						if fdp.Options.Features == nil {
							fdp.Options.Features = &descriptorpb.FeatureSet{}
						}
						fdp.Options.Features.FieldPresence = descriptorpb.FeatureSet_IMPLICIT.Enum()
					}
				}
			}
		}
		// implicit presence needs an open enum whose first value is zero
		if fdp.GetType() == descriptorpb.FieldDescriptorProto_TYPE_ENUM && fdp.GetOptions().GetFeatures().GetFieldPresence() == descriptorpb.FeatureSet_IMPLICIT {
			fdp.Options.Features.FieldPresence = nil
		}
		if e := g.enumRef(fdp.GetTypeName()); e != nil && e.closed && g.fileImplicit && !isMap &&
			fdp.GetLabel() == descriptorpb.FieldDescriptorProto_LABEL_OPTIONAL && inOneof < 0 && fdp.GetOptions().GetFeatures().GetFieldPresence() == descriptorpb.FeatureSet_FIELD_PRESENCE_UNKNOWN {
			if fdp.Options == nil {
				fdp.Options = &descriptorpb.FieldOptions{}
			}
			if fdp.Options.Features == nil {
				fdp.Options.Features = &descriptorpb.FeatureSet{}
			}
			fdp.Options.Features.FieldPresence = descriptorpb.FeatureSet_EXPLICIT.Enum()
		}
		// defaults (explicit presence singular scalars only)
		implicit := fdp.GetOptions().GetFeatures().GetFieldPresence() == descriptorpb.FeatureSet_IMPLICIT ||
			(g.fileImplicit && fdp.GetOptions().GetFeatures().GetFieldPresence() == descriptorpb.FeatureSet_FIELD_PRESENCE_UNKNOWN)
		if g.syntax != "proto3" && isScalar && fdp.GetLabel() == descriptorpb.FieldDescriptorProto_LABEL_OPTIONAL && inOneof < 0 && !implicit && r.Pct(30) {
			if fdp.GetType() == descriptorpb.FieldDescriptorProto_TYPE_ENUM {
				if e := g.enumRef(fdp.GetTypeName()); e != nil {
					switch k := r.Intn(3); {
					case k == 0 && e.zeroName != "":
						fdp.DefaultValue = proto.String(e.zeroName)
					case k == 1:
						fdp.DefaultValue = proto.String(e.names[len(e.names)-1])
					default:
						fdp.DefaultValue = proto.String(e.first)
					}
				}
			} else {
				fdp.DefaultValue = proto.String(gencodeDefault(r, fdp.GetType()))
			}
		}
		// lazy message fields
		if fdp.GetType() == descriptorpb.FieldDescriptorProto_TYPE_MESSAGE && !isMap && r.Pct(30) {
			if fdp.Options == nil {
				fdp.Options = &descriptorpb.FieldOptions{}
			}
			fdp.Options.Lazy = proto.Bool(true)
		}
		if r.Pct(8) {
			if fdp.Options == nil {
				fdp.Options = &descriptorpb.FieldOptions{}
			}
			fdp.Options.Deprecated = proto.Bool(true)
		}
		if fdp.GetType() == descriptorpb.FieldDescriptorProto_TYPE_STRING && g.syntax == "editions" && r.Pct(20) {
			if fdp.Options == nil {
				fdp.Options = &descriptorpb.FieldOptions{}
			}
			if fdp.Options.Features == nil {
				fdp.Options.Features = &descriptorpb.FeatureSet{}
			}
			fdp.Options.Features.Utf8Validation = descriptorpb.FeatureSet_NONE.Enum()
		}
		// json_name as protoc fills it in; sometimes a custom one
		fdp.JsonName = proto.String(strs.JSONCamelCase(fdp.GetName()))
		if r.Pct(8) {
			fdp.JsonName = proto.String([]string{"custom", "@type", "with space", "Ünï", "json_" + fdp.GetName()}[r.Intn(5)] + fmt.Sprint(i))
		}
		addField(fdp)
	}
	// every oneof needs at least one member
	for i, n := range oneofCount {
		if n == 0 {
			fname := g.uniqueName(gencodeFieldNames, fieldUsed)
			fdp := &descriptorpb.FieldDescriptorProto{Name: proto.String(fname), JsonName: proto.String(strs.JSONCamelCase(fname)), Number: proto.Int32(pickNum()),
				Label: descriptorpb.FieldDescriptorProto_LABEL_OPTIONAL.Enum(), OneofIndex: proto.Int32(int32(i))}
			if r.Bool() {
				fdp.Type = gencodeScalarTypes[r.Intn(len(gencodeScalarTypes))].Enum()
			} else {
				fdp.Type = descriptorpb.FieldDescriptorProto_TYPE_MESSAGE.Enum()
				fdp.TypeName = proto.String(g.msgs[r.Intn(len(g.msgs))])
			}
			addField(fdp)
		}
	}
	// members of a oneof must be declared consecutively
	{
		var plain []*descriptorpb.FieldDescriptorProto
		groups := make([][]*descriptorpb.FieldDescriptorProto, noneofs)
		for _, f := range md.Field {
			if f.OneofIndex != nil {
				groups[f.GetOneofIndex()] = append(groups[f.GetOneofIndex()], f)
			} else {
				plain = append(plain, f)
			}
		}
		md.Field = plain
		for _, grp := range groups {
			pos := 0
			if len(md.Field) > 0 {
				pos = r.Intn(len(md.Field) + 1)
				// do not split another oneof's run
				for pos < len(md.Field) && pos > 0 && md.Field[pos].OneofIndex != nil && md.Field[pos-1].OneofIndex != nil && md.Field[pos].GetOneofIndex() == md.Field[pos-1].GetOneofIndex() {
					pos++
				}
			}
			md.Field = append(md.Field[:pos:pos], append(grp, md.Field[pos:]...)...)
		}
	}
	// protoc rejects messages in which a JSON name of one field equals the JSON or proto name of
	// another (case-insensitively for proto3): give the later field a custom JSON name
	seenJSON := map[string]bool{}
	for _, f := range md.Field {
		seenJSON[strings.ToLower(f.GetName())] = true
	}
	ownJSON := map[string]bool{}
	for i, f := range md.Field {
		j := strings.ToLower(f.GetJsonName())
		if ownJSON[j] || (j != strings.ToLower(f.GetName()) && seenJSON[j]) {
			f.JsonName = proto.String(fmt.Sprintf("j%d%s", i, f.GetName()))
			j = strings.ToLower(f.GetJsonName())
		}
		ownJSON[j] = true
	}
	// synthetic oneofs for proto3 optional fields come after the real ones
	for _, fdp := range proto3Optionals {
		on := "_" + fdp.GetName()
		for fieldUsed[on] {
			on = "X" + on
		}
		fieldUsed[on] = true
		fdp.OneofIndex = proto.Int32(int32(len(md.OneofDecl)))
		md.OneofDecl = append(md.OneofDecl, &descriptorpb.OneofDescriptorProto{Name: proto.String(on)})
	}
	if r.Pct(10) && extHi <= 200 {
		md.ReservedName = []string{"reserved_name"}
		md.ReservedRange = []*descriptorpb.DescriptorProto_ReservedRange{{Start: proto.Int32(50000), End: proto.Int32(50010)}}
	}
	if r.Pct(8) {
		if md.Options == nil {
			md.Options = &descriptorpb.MessageOptions{}
		}
		md.Options.Deprecated = proto.Bool(true)
	}
	if g.goFeat && r.Pct(25) {
		if md.Options == nil {
			md.Options = &descriptorpb.MessageOptions{}
		}
		gf := &gofeaturespb.GoFeatures{ApiLevel: []gofeaturespb.GoFeatures_APILevel{gofeaturespb.GoFeatures_API_OPEN, gofeaturespb.GoFeatures_API_HYBRID, gofeaturespb.GoFeatures_API_OPAQUE}[r.Intn(3)].Enum()}
		md.Options.Features = &descriptorpb.FeatureSet{}
		proto.SetExtension(md.Options.Features, gofeaturespb.E_Go, gf)
	}
	return md
}

func (g *gencodeGen) genExtension(scope string, used map[string]bool, path []int32) *descriptorpb.FieldDescriptorProto {
	r := g.r
	if len(g.extable) == 0 {
		return nil
	}
	ext := &g.extable[r.Intn(len(g.extable))]
	var num int32
	for i := 0; ; i++ {
		num = ext.lo + int32(r.Intn(int(min(int64(ext.hi-ext.lo), 90))))
		if num >= 19000 && num <= 19999 {
			continue
		}
		if !ext.used[num] {
			ext.used[num] = true
			break
		}
		if i > 100 {
			return nil
		}
	}
	name := g.uniqueName([]string{"ext", "x_ext", "reset", "e_x", "E_X", "foo_bar", "value", "opt", "my_ext", "string"}, used)
	fdp := &descriptorpb.FieldDescriptorProto{Name: proto.String(name), JsonName: proto.String(strs.JSONCamelCase(name)), Number: proto.Int32(num), Extendee: proto.String(ext.name)}
	switch k := r.Intn(10); {
	case k < 5:
		fdp.Type = gencodeScalarTypes[r.Intn(len(gencodeScalarTypes))].Enum()
	case k < 7 && len(g.enums) > 0:
		fdp.Type = descriptorpb.FieldDescriptorProto_TYPE_ENUM.Enum()
		fdp.TypeName = proto.String(g.enums[r.Intn(len(g.enums))].name)
	default:
		fdp.Type = descriptorpb.FieldDescriptorProto_TYPE_MESSAGE.Enum()
		fdp.TypeName = proto.String(g.msgs[r.Intn(len(g.msgs))])
	}
	if r.Pct(30) {
		fdp.Label = descriptorpb.FieldDescriptorProto_LABEL_REPEATED.Enum()
	} else {
		fdp.Label = descriptorpb.FieldDescriptorProto_LABEL_OPTIONAL.Enum()
		if fdp.GetType() != descriptorpb.FieldDescriptorProto_TYPE_MESSAGE && fdp.GetType() != descriptorpb.FieldDescriptorProto_TYPE_ENUM && r.Pct(30) {
			fdp.DefaultValue = proto.String(gencodeDefault(r, fdp.GetType()))
		}
	}
	g.comment(path...)
	_ = scope
	return fdp
}

// gencodeSchema builds one file descriptor. Deterministic in (seed, pkg, fileName, goPkg).
func gencodeSchema(seed uint64, pkg, fileName, goPkg string) *descriptorpb.FileDescriptorProto {
	r := &gencodeRng{seed}
	g := &gencodeGen{r: r, pkg: pkg}
	g.syntax = []string{"proto2", "proto3", "editions"}[r.Intn(3)]
	fd := &descriptorpb.FileDescriptorProto{Name: proto.String(fileName), Package: proto.String(pkg)}
	g.fd = fd
	switch g.syntax {
	case "proto2":
		r.Bool() // (protoc leaves the syntax field empty for proto2)
	case "proto3":
		fd.Syntax = proto.String("proto3")
	case "editions":
		fd.Syntax = proto.String("editions")
		fd.Edition = descriptorpb.Edition_EDITION_2023.Enum()
		if r.Pct(30) {
			fd.Edition = descriptorpb.Edition_EDITION_2024.Enum()
		}
	}
	fd.Options = &descriptorpb.FileOptions{GoPackage: proto.String(goPkg)}
	if g.syntax == "editions" {
		fs := &descriptorpb.FeatureSet{}
		set := false
		if r.Pct(25) {
			fs.FieldPresence = descriptorpb.FeatureSet_IMPLICIT.Enum()
			g.fileImplicit = true
			set = true
		}
		if !g.fileImplicit && r.Pct(20) {
			fs.EnumType = descriptorpb.FeatureSet_CLOSED.Enum()
			g.fileClosedEnums = true
			set = true
		}
		if r.Pct(20) {
			fs.RepeatedFieldEncoding = descriptorpb.FeatureSet_EXPANDED.Enum()
			set = true
		}
		if r.Pct(15) {
			fs.Utf8Validation = descriptorpb.FeatureSet_NONE.Enum()
			set = true
		}
		if r.Pct(15) {
			fs.MessageEncoding = descriptorpb.FeatureSet_DELIMITED.Enum()
			set = true
		}
		if r.Pct(15) {
			fs.JsonFormat = descriptorpb.FeatureSet_LEGACY_BEST_EFFORT.Enum()
			set = true
		}
		if r.Pct(35) {
			g.goFeat = true
			fd.Dependency = append(fd.Dependency, "google/protobuf/go_features.proto")
			gf := &gofeaturespb.GoFeatures{}
			if r.Pct(50) {
				gf.ApiLevel = []gofeaturespb.GoFeatures_APILevel{gofeaturespb.GoFeatures_API_OPEN, gofeaturespb.GoFeatures_API_HYBRID, gofeaturespb.GoFeatures_API_OPAQUE}[r.Intn(3)].Enum()
			}
			if r.Pct(40) {
				gf.StripEnumPrefix = []gofeaturespb.GoFeatures_StripEnumPrefix{gofeaturespb.GoFeatures_STRIP_ENUM_PREFIX_KEEP, gofeaturespb.GoFeatures_STRIP_ENUM_PREFIX_GENERATE_BOTH, gofeaturespb.GoFeatures_STRIP_ENUM_PREFIX_STRIP}[r.Intn(3)].Enum()
			}
			proto.SetExtension(fs, gofeaturespb.E_Go, gf)
			set = true
		}
		if set {
			fd.Options.Features = fs
		}
	}
	// the file-level implicit presence default conflicts with closed enums / defaults in ways protoc rejects; protodesc decides validity below
	used := map[string]bool{}
	for i, n := 0, 1+r.Intn(3); i < n; i++ {
		fd.EnumType = append(fd.EnumType, g.genEnum("."+pkg, used, []int32{5, int32(i)}))
	}
	nm := 1 + r.Intn(4)
	for i := 0; i < nm; i++ {
		name := g.uniqueName(gencodeMsgNames, used)
		fd.MessageType = append(fd.MessageType, g.genMessage("."+pkg, name, 2, []int32{4, int32(i)}))
	}
	// extensions: file level and nested in the first message
	xused := map[string]bool{}
	for k := range used {
		xused[k] = true
	}
	for i, n := 0, r.Intn(4); i < n && g.syntax != "proto3"; i++ {
		if x := g.genExtension("."+pkg, xused, []int32{7, int32(len(fd.Extension))}); x != nil {
			fd.Extension = append(fd.Extension, x)
		}
	}
	if g.syntax != "proto3" && r.Pct(40) {
		m0 := fd.MessageType[0]
		u := map[string]bool{}
		for _, f := range m0.Field {
			u[f.GetName()] = true
		}
		for _, o := range m0.OneofDecl {
			u[o.GetName()] = true
		}
		for _, n := range m0.NestedType {
			u[n.GetName()] = true
		}
		for _, e := range m0.EnumType {
			u[e.GetName()] = true
			for _, v := range e.Value {
				u[v.GetName()] = true
			}
		}
		if x := g.genExtension("."+pkg+"."+m0.GetName(), u, []int32{4, 0, 6, 0}); x != nil {
			m0.Extension = append(m0.Extension, x)
		}
	}
	if r.Pct(15) {
		in, out := g.msgs[0], g.msgs[len(g.msgs)-1]
		fd.Service = []*descriptorpb.ServiceDescriptorProto{{Name: proto.String("Svc"), Method: []*descriptorpb.MethodDescriptorProto{
			{Name: proto.String("Call"), InputType: proto.String(in), OutputType: proto.String(out)}}}}
	}
	g.comment(12)
	g.comment(2)
	if len(g.locs) > 0 {
		fd.SourceCodeInfo = &descriptorpb.SourceCodeInfo{Location: g.locs}
	}
	gencodeLastNonZeroFirst = g.nonZeroFirstEnums
	return fd
}

// corpus (always first): the F12 witness and the other classes found by this check
const gencodeCorpusSize = 12

// order of execution: the enum/default shapes schema (11) comes first
var gencodeCorpusOrder = []int{11, 0, 1, 2, 3, 4, 5, 6, 7, 8, 9, 10}

func gencodeCorpus(idx int, pkg, fileName, goPkg string) *descriptorpb.FileDescriptorProto {
	opt := descriptorpb.FieldDescriptorProto_LABEL_OPTIONAL.Enum()
	i32 := descriptorpb.FieldDescriptorProto_TYPE_INT32.Enum()
	str := descriptorpb.FieldDescriptorProto_TYPE_STRING.Enum()
	f := func(name string, num int32, t *descriptorpb.FieldDescriptorProto_Type) *descriptorpb.FieldDescriptorProto {
		return &descriptorpb.FieldDescriptorProto{Name: proto.String(name), JsonName: proto.String(strs.JSONCamelCase(name)), Number: proto.Int32(num), Label: opt, Type: t}
	}
	of := func(fd *descriptorpb.FieldDescriptorProto, i int32) *descriptorpb.FieldDescriptorProto {
		fd.OneofIndex = proto.Int32(i)
		return fd
	}
	fd := &descriptorpb.FileDescriptorProto{Name: proto.String(fileName), Package: proto.String(pkg), Options: &descriptorpb.FileOptions{GoPackage: proto.String(goPkg)}}
	switch idx {
	case 0: // F12: field get_y + oneof y
		fd.MessageType = []*descriptorpb.DescriptorProto{{Name: proto.String("M"),
			Field:     []*descriptorpb.FieldDescriptorProto{f("get_y", 1, i32), of(f("a", 2, i32), 0)},
			OneofDecl: []*descriptorpb.OneofDescriptorProto{{Name: proto.String("y")}}}}
	case 1: // every handled method name of a generated message as a field name, plus nested types named like fields
		names := []string{"reset", "string", "proto_message", "descriptor", "x", "get_x", "has_x", "set_x", "clear_x", "which_x", "build", "state", "size_cache", "unknown_fields", "marshal", "unmarshal", "extension_range_array", "extension_map"}
		m := &descriptorpb.DescriptorProto{Name: proto.String("M")}
		for i, n := range names {
			m.Field = append(m.Field, f(n, int32(i+1), []*descriptorpb.FieldDescriptorProto_Type{i32, str}[i%2]))
		}
		m.NestedType = []*descriptorpb.DescriptorProto{{Name: proto.String("X")}, {Name: proto.String("GetX")}, {Name: proto.String("Reset")}}
		m.Field = append(m.Field, of(f("o1", 100, i32), 0), of(f("o2", 101, str), 0))
		m.OneofDecl = []*descriptorpb.OneofDescriptorProto{{Name: proto.String("kind")}}
		fd.MessageType = []*descriptorpb.DescriptorProto{m, {Name: proto.String("MX")}, {Name: proto.String("Builder")}}
	case 2: // proto3 with optional fields, maps, enum prefix collisions
		fd.Syntax = proto.String("proto3")
		e := &descriptorpb.EnumDescriptorProto{Name: proto.String("Kind"), Value: []*descriptorpb.EnumValueDescriptorProto{{Name: proto.String("Kind_UNKNOWN"), Number: proto.Int32(0)}, {Name: proto.String("A"), Number: proto.Int32(1)}}}
		m := &descriptorpb.DescriptorProto{Name: proto.String("M"), EnumType: []*descriptorpb.EnumDescriptorProto{e}}
		p3 := f("opt", 1, i32)
		p3.Proto3Optional = proto.Bool(true)
		p3.OneofIndex = proto.Int32(0)
		en := f("kind", 2, descriptorpb.FieldDescriptorProto_TYPE_ENUM.Enum())
		en.TypeName = proto.String("." + pkg + ".M.Kind")
		mp := f("m", 3, descriptorpb.FieldDescriptorProto_TYPE_MESSAGE.Enum())
		mp.Label = descriptorpb.FieldDescriptorProto_LABEL_REPEATED.Enum()
		mp.TypeName = proto.String("." + pkg + ".M.MEntry")
		val := f("value", 2, descriptorpb.FieldDescriptorProto_TYPE_MESSAGE.Enum())
		val.TypeName = proto.String("." + pkg + ".M")
		m.NestedType = []*descriptorpb.DescriptorProto{{Name: proto.String("MEntry"), Field: []*descriptorpb.FieldDescriptorProto{f("key", 1, str), val}, Options: &descriptorpb.MessageOptions{MapEntry: proto.Bool(true)}}}
		m.Field = []*descriptorpb.FieldDescriptorProto{p3, en, mp}
		m.OneofDecl = []*descriptorpb.OneofDescriptorProto{{Name: proto.String("_opt")}}
		fd.MessageType = []*descriptorpb.DescriptorProto{m}
	case 3: // FQ1: a comment that reads as a Go build constraint (file header)
		fd.MessageType = []*descriptorpb.DescriptorProto{{Name: proto.String("M"), Field: []*descriptorpb.FieldDescriptorProto{f("a", 1, i32)}}}
		fd.SourceCodeInfo = &descriptorpb.SourceCodeInfo{Location: []*descriptorpb.SourceCodeInfo_Location{
			{Path: []int32{12}, Span: []int32{1, 0, 1}, LeadingDetachedComments: []string{" +build ignore\n"}}}}
	case 4: // FQ1: the same inside a declaration (go/printer's build-line fixing joins two constants)
		e := &descriptorpb.EnumDescriptorProto{Name: proto.String("E"), Value: []*descriptorpb.EnumValueDescriptorProto{{Name: proto.String("A"), Number: proto.Int32(0)}, {Name: proto.String("B"), Number: proto.Int32(1)}}}
		fd.EnumType = []*descriptorpb.EnumDescriptorProto{e}
		fd.SourceCodeInfo = &descriptorpb.SourceCodeInfo{Location: []*descriptorpb.SourceCodeInfo_Location{
			{Path: []int32{5, 0, 2, 0}, Span: []int32{1, 0, 1}, TrailingComments: proto.String(" +build ignore\n")}}}
	case 5: // FQ2: field proto_reflect
		fd.MessageType = []*descriptorpb.DescriptorProto{{Name: proto.String("M"), Field: []*descriptorpb.FieldDescriptorProto{f("proto_reflect", 1, i32)}}}
	case 6: // FQ3: enum value called "value" (and "name")
		fd.EnumType = []*descriptorpb.EnumDescriptorProto{{Name: proto.String("E"), Value: []*descriptorpb.EnumValueDescriptorProto{{Name: proto.String("value"), Number: proto.Int32(0)}, {Name: proto.String("name"), Number: proto.Int32(1)}}}}
	case 7: // FQ4: nested M.X and top-level M_X
		fd.MessageType = []*descriptorpb.DescriptorProto{{Name: proto.String("M"), NestedType: []*descriptorpb.DescriptorProto{{Name: proto.String("X")}}}, {Name: proto.String("M_X")}}
	case 8: // editions, enum-level enum_type feature (was FQ5; repaired by 42c075f, kept as regression witness)
		fd.Syntax = proto.String("editions")
		fd.Edition = descriptorpb.Edition_EDITION_2023.Enum()
		e := &descriptorpb.EnumDescriptorProto{Name: proto.String("E"), Value: []*descriptorpb.EnumValueDescriptorProto{{Name: proto.String("A"), Number: proto.Int32(0)}, {Name: proto.String("B"), Number: proto.Int32(1)}},
			Options: &descriptorpb.EnumOptions{Features: &descriptorpb.FeatureSet{EnumType: descriptorpb.FeatureSet_CLOSED.Enum()}}}
		fd.EnumType = []*descriptorpb.EnumDescriptorProto{e}
		c := &descriptorpb.EnumDescriptorProto{Name: proto.String("C"), Value: []*descriptorpb.EnumValueDescriptorProto{{Name: proto.String("C_ONE"), Number: proto.Int32(1)}, {Name: proto.String("C_ZERO"), Number: proto.Int32(0)}},
			Options: &descriptorpb.EnumOptions{Features: &descriptorpb.FeatureSet{EnumType: descriptorpb.FeatureSet_CLOSED.Enum()}}}
		fd.EnumType = []*descriptorpb.EnumDescriptorProto{e, c}
		en := f("e", 1, descriptorpb.FieldDescriptorProto_TYPE_ENUM.Enum())
		en.TypeName = proto.String("." + pkg + ".E")
		cn := f("c", 2, descriptorpb.FieldDescriptorProto_TYPE_ENUM.Enum()) // explicit presence, no default: reads as C_ONE when unset
		cn.TypeName = proto.String("." + pkg + ".C")
		cd := f("c_zero", 3, descriptorpb.FieldDescriptorProto_TYPE_ENUM.Enum())
		cd.TypeName = proto.String("." + pkg + ".C")
		cd.DefaultValue = proto.String("C_ZERO")
		cr := f("c_req", 4, descriptorpb.FieldDescriptorProto_TYPE_ENUM.Enum())
		cr.TypeName = proto.String("." + pkg + ".C")
		cr.Options = &descriptorpb.FieldOptions{Features: &descriptorpb.FeatureSet{FieldPresence: descriptorpb.FeatureSet_LEGACY_REQUIRED.Enum()}}
		fd.MessageType = []*descriptorpb.DescriptorProto{{Name: proto.String("M"), Field: []*descriptorpb.FieldDescriptorProto{en, cn, cd, cr}}}
	case 9: // FQ6: an empty comment line before a field
		fd.MessageType = []*descriptorpb.DescriptorProto{{Name: proto.String("M"), Field: []*descriptorpb.FieldDescriptorProto{f("a", 1, i32), f("bb", 2, i32), f("reset", 3, i32)}}}
		fd.SourceCodeInfo = &descriptorpb.SourceCodeInfo{Location: []*descriptorpb.SourceCodeInfo_Location{
			{Path: []int32{4, 0, 2, 2}, Span: []int32{1, 0, 1}, LeadingComments: proto.String("\n")}}}
	case 10: // FQ7: [default = -0] on a floating-point field
		d := f("d", 1, descriptorpb.FieldDescriptorProto_TYPE_DOUBLE.Enum())
		d.DefaultValue = proto.String("-0")
		fl := f("f", 2, descriptorpb.FieldDescriptorProto_TYPE_FLOAT.Enum())
		fl.DefaultValue = proto.String("-0")
		fd.MessageType = []*descriptorpb.DescriptorProto{{Name: proto.String("M"), Field: []*descriptorpb.FieldDescriptorProto{d, fl}}}
	case 11: // shapes of enums and defaults that getters of unset fields depend on (proto2, closed enums)
		ev := func(n string, num int32) *descriptorpb.EnumValueDescriptorProto {
			return &descriptorpb.EnumValueDescriptorProto{Name: proto.String(n), Number: proto.Int32(num)}
		}
		fd.EnumType = []*descriptorpb.EnumDescriptorProto{
			{Name: proto.String("E"), Value: []*descriptorpb.EnumValueDescriptorProto{ev("ONE", 1), ev("ZERO", 0)}},                          // non-zero first, later zero
			{Name: proto.String("N"), Value: []*descriptorpb.EnumValueDescriptorProto{ev("N_NEG", -1), ev("N_ZERO", 0), ev("N_ONE", 1)}},     // negative first
			{Name: proto.String("NZ"), Value: []*descriptorpb.EnumValueDescriptorProto{ev("FIVE", 5), ev("SIX", 6), ev("MIN", -2147483648)}}, // no zero at all
			{Name: proto.String("A"), Value: []*descriptorpb.EnumValueDescriptorProto{ev("A_TWO", 2), ev("A_DEUX", 2), ev("A_ZERO", 0), ev("A_NIL", 0)}, Options: &descriptorpb.EnumOptions{AllowAlias: proto.Bool(true)}},
			{Name: proto.String("Z"), Value: []*descriptorpb.EnumValueDescriptorProto{ev("Z_ZERO", 0), ev("Z_ONE", 1), ev("Z_NEG", -5)}}, // zero first
		}
		m := &descriptorpb.DescriptorProto{Name: proto.String("M")}
		num := int32(0)
		add := func(name string, t descriptorpb.FieldDescriptorProto_Type, typeName, def string, label descriptorpb.FieldDescriptorProto_Label) *descriptorpb.FieldDescriptorProto {
			num++
			x := f(name, num, t.Enum())
			x.Label = label.Enum()
			if typeName != "" {
				x.TypeName = proto.String("." + pkg + "." + typeName)
			}
			if def != "\x00none" {
				x.DefaultValue = proto.String(def)
			}
			m.Field = append(m.Field, x)
			return x
		}
		const none = "\x00none"
		en := descriptorpb.FieldDescriptorProto_TYPE_ENUM
		optl, reql, repl := descriptorpb.FieldDescriptorProto_LABEL_OPTIONAL, descriptorpb.FieldDescriptorProto_LABEL_REQUIRED, descriptorpb.FieldDescriptorProto_LABEL_REPEATED
		for _, e := range []string{"E", "N", "NZ", "A", "Z"} {
			add("opt_"+strings.ToLower(e), en, e, none, optl) // optional, no explicit default: the first declared value
		}
		add("e_first", en, "E", "ONE", optl)
		add("e_zero", en, "E", "ZERO", optl)
		add("n_nonfirst", en, "N", "N_ONE", optl)
		add("n_zero", en, "N", "N_ZERO", optl)
		add("nz_last", en, "NZ", "MIN", optl)
		add("a_alias", en, "A", "A_DEUX", optl)
		add("a_zero", en, "A", "A_NIL", optl)
		add("z_nonfirst", en, "Z", "Z_NEG", optl)
		add("req_e", en, "E", none, reql)
		add("req_n", en, "N", none, reql)
		add("rep_e", en, "E", none, repl)
		add("rep_nz", en, "NZ", none, repl).Options = &descriptorpb.FieldOptions{Packed: proto.Bool(true)}
		// scalar and string/bytes defaults
		add("i32", descriptorpb.FieldDescriptorProto_TYPE_INT32, "", "-7", optl)
		add("s64", descriptorpb.FieldDescriptorProto_TYPE_SINT64, "", "-9223372036854775808", optl)
		add("u32", descriptorpb.FieldDescriptorProto_TYPE_UINT32, "", "4294967295", optl)
		add("f64", descriptorpb.FieldDescriptorProto_TYPE_FIXED64, "", "18446744073709551615", optl)
		add("b_true", descriptorpb.FieldDescriptorProto_TYPE_BOOL, "", "true", optl)
		add("b_false", descriptorpb.FieldDescriptorProto_TYPE_BOOL, "", "false", optl)
		add("fl", descriptorpb.FieldDescriptorProto_TYPE_FLOAT, "", "1.5", optl)
		add("fl_inf", descriptorpb.FieldDescriptorProto_TYPE_FLOAT, "", "-inf", optl)
		add("db", descriptorpb.FieldDescriptorProto_TYPE_DOUBLE, "", "1e+20", optl)
		add("db_nan", descriptorpb.FieldDescriptorProto_TYPE_DOUBLE, "", "nan", optl)
		add("str", descriptorpb.FieldDescriptorProto_TYPE_STRING, "", "hi \"there\"\n", optl)
		add("str_empty", descriptorpb.FieldDescriptorProto_TYPE_STRING, "", "", optl)
		add("byt", descriptorpb.FieldDescriptorProto_TYPE_BYTES, "", "\\001\\377abc", optl)
		add("byt_empty", descriptorpb.FieldDescriptorProto_TYPE_BYTES, "", "", optl)
		add("plain_i32", descriptorpb.FieldDescriptorProto_TYPE_INT32, "", none, optl)
		add("plain_str", descriptorpb.FieldDescriptorProto_TYPE_STRING, "", none, optl)
		add("plain_byt", descriptorpb.FieldDescriptorProto_TYPE_BYTES, "", none, optl)
		// oneof members
		m.OneofDecl = []*descriptorpb.OneofDescriptorProto{{Name: proto.String("o")}}
		for _, e := range []string{"E", "N", "NZ", "A"} {
			add("o_"+strings.ToLower(e), en, e, none, optl).OneofIndex = proto.Int32(0)
		}
		add("o_i", descriptorpb.FieldDescriptorProto_TYPE_INT32, "", none, optl).OneofIndex = proto.Int32(0)
		add("o_s", descriptorpb.FieldDescriptorProto_TYPE_STRING, "", none, optl).OneofIndex = proto.Int32(0)
		// map values (the first value of a map value enum must be zero)
		val := f("value", 2, en.Enum())
		val.TypeName = proto.String("." + pkg + ".Z")
		m.NestedType = []*descriptorpb.DescriptorProto{{Name: proto.String("MapZEntry"), Field: []*descriptorpb.FieldDescriptorProto{f("key", 1, str), val}, Options: &descriptorpb.MessageOptions{MapEntry: proto.Bool(true)}}}
		add("map_z", descriptorpb.FieldDescriptorProto_TYPE_MESSAGE, "M.MapZEntry", none, repl)
		fd.MessageType = []*descriptorpb.DescriptorProto{m}
	default:
		return nil
	}
	return fd
}

// ---------------------------------------------------------------- running the generator

type gencodeUnit struct {
	idx     int
	seed    uint64
	level   string // API_OPEN ...
	tok     string // directory / package token, e.g. s3o
	fd      *descriptorpb.FileDescriptorProto
	files   map[string]string // relative path -> content
	pkgPath string            // import path of the generated package
	known   map[string]bool   // predicted known-finding classes of this schema
	hybrid  bool
	names   string // accessor method names (gencodeAccessorNames)
}

func gencodeDeps(fd *descriptorpb.FileDescriptorProto) []*descriptorpb.FileDescriptorProto {
	var out []*descriptorpb.FileDescriptorProto
	seen := map[string]bool{}
	var add func(path string)
	add = func(path string) {
		if seen[path] {
			return
		}
		seen[path] = true
		d, err := protoregistry.GlobalFiles.FindFileByPath(path)
		if err != nil {
			return
		}
		for i := 0; i < d.Imports().Len(); i++ {
			add(d.Imports().Get(i).Path())
		}
		out = append(out, protodesc.ToFileDescriptorProto(d))
	}
	for _, dep := range fd.Dependency {
		add(dep)
	}
	return out
}

// gencodeRun runs protoc-gen-go in-process (the call sequence of cmd/protoc-gen-go/main.go).
func gencodeRun(fd *descriptorpb.FileDescriptorProto, param string) (resp *pluginpb.CodeGeneratorResponse, gen *protogen.Plugin, hybrid bool, errText string) {
	defer func() {
		if r := recover(); r != nil {
			errText = fmt.Sprintf("panic: %v", r)
		}
	}()
	req := &pluginpb.CodeGeneratorRequest{
		FileToGenerate:  []string{fd.GetName()},
		Parameter:       proto.String(param),
		ProtoFile:       append(gencodeDeps(fd), fd),
		CompilerVersion: &pluginpb.Version{Major: proto.Int32(5), Minor: proto.Int32(29), Patch: proto.Int32(0)},
	}
	// the request goes through the wire, as it does between protoc and the plugin
	b, err := proto.Marshal(req)
	if err != nil {
		return nil, nil, false, "marshal request: " + err.Error()
	}
	req = &pluginpb.CodeGeneratorRequest{}
	if err := proto.Unmarshal(b, req); err != nil {
		return nil, nil, false, "unmarshal request: " + err.Error()
	}
	gen, err = protogen.Options{}.New(req)
	if err != nil {
		return nil, nil, false, "protogen.New: " + err.Error()
	}
	hybrid = gencodeFileIsHybrid(gen) // (generation rewrites the API level of hybrid files and messages)
	gencodeLastKnown = gencodeKnown(fd, gen)
	gencodeLastNames = gencodeAccessorNames(gen)
	for _, f := range gen.Files {
		if f.Generate {
			gengo.GenerateFile(gen, f)
		}
	}
	gen.SupportedFeatures = gengo.SupportedFeatures
	gen.SupportedEditionsMinimum = gengo.SupportedEditionsMinimum
	gen.SupportedEditionsMaximum = gengo.SupportedEditionsMaximum
	resp = gen.Response()
	if resp.Error != nil {
		return resp, gen, hybrid, "response error: " + resp.GetError()
	}
	return resp, gen, hybrid, ""
}

// gencodeKnown classifies a schema into the listed known-finding classes (narrow recognisers).
//
//	F12  within one message an identifier derived from a oneof (struct field, Get/Has/Clear/Which
//	     method) equals one derived from a field (struct field, Get/Set/Has/Clear method)
//	FQ1  a comment line that reads as a Go build constraint ("+build ...", "go:build ...")
//	FQ2  a field whose Go name is ProtoReflect
//	FQ3  an enum value called "name" or "value" (collides with the <Enum>_name / <Enum>_value maps)
//	FQ4  two package-level declarations with the same underscore-joined Go name (M.X and M_X, M_builder,
//	     a nested enum value M_Value and the oneof wrapper type M_Value, ...), by protogen's own GoIdents
//	(FQ5, enum-level features.enum_type ignored by internal/filedesc, was repaired in the repository
//	by 42c075f; corpus 8 stays as a regression witness and is reported as an ordinary violation)
//	FQ7  a float/double field with [default = -0] (the generated constant float64(-0) is +0)
//	FQ6  a comment that consists of blank lines only (the single go/printer pass is then not a gofmt fixed point)
func gencodeKnown(fd *descriptorpb.FileDescriptorProto, gen *protogen.Plugin) map[string]bool {
	known := map[string]bool{}
	for _, loc := range fd.GetSourceCodeInfo().GetLocation() {
		texts := append([]string{loc.GetLeadingComments(), loc.GetTrailingComments()}, loc.GetLeadingDetachedComments()...)
		for _, t := range texts {
			if t != "" && strings.TrimSpace(t) == "" {
				known["FQ6"] = true
			}
			for _, line := range strings.Split(t, "\n") {
				l := strings.TrimLeft(line, " \t")
				if strings.HasPrefix(l, "+build") || strings.HasPrefix(line, "go:build") {
					known["FQ1"] = true
				}
			}
		}
	}
	pkgIdents := map[string]int{}
	var walkE func(es []*protogen.Enum)
	walkE = func(es []*protogen.Enum) {
		for _, e := range es {
			pkgIdents[e.GoIdent.GoName]++
			pkgIdents[e.GoIdent.GoName+"_name"]++
			pkgIdents[e.GoIdent.GoName+"_value"]++
			for _, v := range e.Values {
				if v.Desc.Name() != "name" && v.Desc.Name() != "value" { // (that collision is FQ3)
					pkgIdents[v.GoIdent.GoName]++
				}
				if v.Desc.Name() == "name" || v.Desc.Name() == "value" {
					known["FQ3"] = true
				}
			}
		}
	}
	var walkM func(ms []*protogen.Message)
	walkM = func(ms []*protogen.Message) {
		for _, m := range ms {
			if m.Desc.IsMapEntry() {
				continue
			}
			pkgIdents[m.GoIdent.GoName]++
			pkgIdents[m.GoIdent.GoName+"_builder"]++
			for _, x := range m.Extensions {
				pkgIdents["E_"+x.GoIdent.GoName]++
			}
			// every identifier protogen derives for this message (struct fields and accessor
			// methods, with protogen's own final names); a duplicate is the F12 family
			ids := map[string]int{}
			add := func(id string) {
				if id != "" {
					ids[id]++
				}
			}
			open := m.APILevel != gofeaturespb.GoFeatures_API_OPAQUE
			for _, f := range m.Fields {
				if k := f.Desc.Kind(); (k == protoreflect.FloatKind || k == protoreflect.DoubleKind) && f.Desc.HasDefault() {
					if d := f.Desc.Default().Float(); d == 0 && math.Signbit(d) {
						known["FQ7"] = true
					}
				}
				if f.Oneof != nil && !f.Oneof.Desc.IsSynthetic() {
					pkgIdents[f.GoIdent.GoName]++ // oneof wrapper type
				}
				if f.GoName == "ProtoReflect" {
					known["FQ2"] = true
				}
				if open && (f.Oneof == nil || f.Oneof.Desc.IsSynthetic()) {
					add(f.GoName)
				}
				methods := []string{"Get", "Set"}
				if f.Desc.HasPresence() {
					methods = append(methods, "Has", "Clear")
				}
				for _, mth := range methods {
					name, compat := f.MethodName(mth)
					add(name)
					add(compat)
				}
			}
			for _, o := range m.Oneofs {
				if o.Desc.IsSynthetic() {
					continue
				}
				if open {
					add(o.GoName)
					add("Get" + o.GoName)
				}
				for _, mth := range []string{"Has", "Clear", "Which"} {
					add(o.MethodName(mth))
				}
			}
			for id, n := range ids {
				// a struct field and a method may not share a name either: both were added
				if n > 1 {
					known["F12"] = true
					_ = id
				}
			}
			walkE(m.Enums)
			walkM(m.Messages)
		}
	}
	for _, f := range gen.Files {
		if f.Generate {
			walkE(f.Enums)
			walkM(f.Messages)
			for _, x := range f.Extensions {
				pkgIdents["E_"+x.GoIdent.GoName]++ // extension variables are called E_<name>
			}
			pkgIdents[f.GoDescriptorIdent.GoName]++
		}
	}
	for _, n := range pkgIdents {
		if n > 1 {
			known["FQ4"] = true
		}
	}
	return known
}

var gencodeLastKnown map[string]bool
var gencodeLastNonZeroFirst int
var gencodeLastNames string

// gencodeAccessorNames lists, for every scalar singular field, the accessor method names that
// protogen derives: "<message full name>\t<number>\t<Get>\t<compat Get>\t<Set>\t<Has>\t<Clear>".
func gencodeAccessorNames(gen *protogen.Plugin) string {
	var sb strings.Builder
	var walk func(ms []*protogen.Message)
	walk = func(ms []*protogen.Message) {
		for _, m := range ms {
			if m.Desc.IsMapEntry() {
				continue
			}
			for _, f := range m.Fields {
				get, compat := f.MethodName("Get")
				set, _ := f.MethodName("Set")
				has, clr := "", ""
				if f.Desc.HasPresence() {
					has, _ = f.MethodName("Has")
					clr, _ = f.MethodName("Clear")
				}
				fmt.Fprintf(&sb, "%s\t%d\t%s\t%s\t%s\t%s\t%s\n", m.Desc.FullName(), f.Desc.Number(), get, compat, set, has, clr)
			}
			walk(m.Messages)
		}
	}
	for _, f := range gen.Files {
		if f.Generate {
			walk(f.Messages)
		}
	}
	return sb.String()
}

func gencodeRepoRoot() string {
	if v := os.Getenv("VERIF_REPO"); v != "" {
		return v
	}
	if _, file, _, ok := runtime.Caller(0); ok {
		if i := strings.Index(file, "/internal/verifh/"); i > 0 {
			return file[:i]
		}
	}
	return "/repo"
}

func gencodeGo(dir string, timeout time.Duration, args ...string) (string, error) {
	cmd := exec.Command("go", args...)
	cmd.Dir = dir
	cmd.Env = append(os.Environ(), "GOFLAGS=-mod=mod", "GOPROXY=off", "GOSUMDB=off", "GOTOOLCHAIN=local", "GOWORK=off")
	var out bytes.Buffer
	cmd.Stdout = &out
	cmd.Stderr = &out
	if err := cmd.Start(); err != nil {
		return "", err
	}
	done := make(chan error, 1)
	go func() { done <- cmd.Wait() }()
	select {
	case err := <-done:
		return out.String(), err
	case <-time.After(timeout):
		cmd.Process.Kill()
		<-done
		return out.String(), fmt.Errorf("timeout after %v", timeout)
	}
}

func gencodeClip(s string, n int) string {
	s = strings.Map(func(r rune) rune {
		if r == '\t' || r == '\n' || r == '\r' {
			return ' '
		}
		return r
	}, s)
	if len(s) > n {
		s = s[:n]
	}
	return s
}

// gencodeReport reports a failure of unit u: as a listed known finding when the schema belongs
// to a class that explains this kind of failure, as a property failure otherwise.
func gencodeReport(c *Ctx, u *gencodeUnit, kind string, what string, extra ...string) {
	in := fmt.Sprintf("schema=%d seed=%x level=%s", u.idx, u.seed, u.level)
	explains := map[string][]string{
		"compile": {"F12", "FQ1", "FQ2", "FQ3", "FQ4"},
		"gofmt":   {"FQ1", "FQ6"},
		"parse":   {"FQ1"},
		"negzero": {"FQ7"},
	}
	for _, id := range explains[kind] {
		if u.known[id] {
			c.Known(id, "C41", what+" "+in)
			c.Stat("known_" + id)
			return
		}
	}
	c.PropFail("C41", what, append([]string{in}, extra...)...)
}

// gencodeNames: naming of generated files, compared with CodeGen/GenFileModel.v (C lines).
func gencodeNames(c *Ctx, n int) {
	segs := []string{"a", "b.c", "x_y", "v1", "1file", "proto", "dir.proto", "A-b", "x.protodevel", "é"}
	exts := []string{".proto", ".proto", ".proto", ".protodevel", "", ".txt", ".proto.bak", ".Proto", ".proto.proto", "."}
	ips := []string{"ex.com/p", "verifgen/x", "a.b/c/d", "m/v2"}
	for i := 0; i < n; i++ {
		var parts []string
		for j, k := 0, 1+c.Intn(3); j < k; j++ {
			parts = append(parts, segs[c.Intn(len(segs))])
		}
		name := strings.Join(parts, "/") + exts[c.Intn(len(exts))]
		ip := ips[c.Intn(len(ips))]
		importMode := c.Bool()
		c.Case("gencode", "pathext", []string{HexB([]byte(name))}, []string{HexB([]byte(path.Ext(name)))})
		c.Case("gencode", "pathbase", []string{HexB([]byte(name))}, []string{HexB([]byte(path.Base(name)))})
		param := "paths=source_relative"
		if importMode {
			param = "paths=import"
		}
		fd := &descriptorpb.FileDescriptorProto{Name: proto.String(name), Package: proto.String(fmt.Sprintf("np%d", i)), Options: &descriptorpb.FileOptions{GoPackage: proto.String(ip)}}
		gen, err := protogen.Options{}.New(&pluginpb.CodeGeneratorRequest{FileToGenerate: []string{name}, Parameter: proto.String(param), ProtoFile: []*descriptorpb.FileDescriptorProto{fd}})
		if err != nil {
			c.Stat("names_rejected")
			continue
		}
		got := gen.Files[0].GeneratedFilenamePrefix + ".pb.go"
		c.Case("gencode", "genname", []string{Tok(importMode), HexB([]byte(ip)), HexB([]byte(name)), "0"}, []string{HexB([]byte(got))})
		if !importMode && strings.HasSuffix(name, ".proto") && got != strings.TrimSuffix(name, ".proto")+".pb.go" {
			c.PropFail("C41", "source_relative output name is not the source path with .pb.go suffix", HexB([]byte(name)), HexB([]byte(got)))
		}
		// module= trimming in Response
		module := []string{"", "ex.com", "ex.com/p", "verifgen", "a.b/c", "other", "m"}[c.Intn(7)]
		fn := ip + "/" + path.Base(strings.TrimSuffix(name, path.Ext(name))) + ".go"
		g2, err := protogen.Options{}.New(&pluginpb.CodeGeneratorRequest{FileToGenerate: []string{name}, Parameter: proto.String("module=" + module), ProtoFile: []*descriptorpb.FileDescriptorProto{fd}})
		if err != nil {
			continue
		}
		gf := g2.NewGeneratedFile(fn, protogen.GoImportPath(ip))
		gf.P("package x")
		resp := g2.Response()
		if resp.Error != nil {
			c.Case("gencode", "respname", []string{HexB([]byte(module)), HexB([]byte(fn))}, []string{"err"})
		} else if len(resp.File) == 1 {
			c.Case("gencode", "respname", []string{HexB([]byte(module)), HexB([]byte(fn))}, []string{"ok", HexB([]byte(resp.File[0].GetName()))})
		}
	}
}

func famGencode(c *Ctx) {
	gencodeNames(c, 300)
	nSchemas := c.N
	if nSchemas < gencodeCorpusSize+1 {
		nSchemas = gencodeCorpusSize + 1
	}
	levels := []struct{ name, suffix string }{{"API_OPEN", "o"}, {"API_HYBRID", "h"}, {"API_OPAQUE", "q"}}
	var units []*gencodeUnit
	byTok := map[string]*gencodeUnit{}
	// ---- (a) generate
	for i := 0; i < nSchemas; i++ {
		seed := c.U64()
		for li, lv := range levels {
			tok := fmt.Sprintf("s%d%s", i, lv.suffix)
			pkg := "verif." + tok
			base := []string{"x", "reset", "a-b", "x.y", "1file", "File", "go", "x_test", "string"}[int(seed>>8)%9]
			fileName := tok + "/" + base + ".proto"
			goPkg := "verifgen/" + tok
			if (seed>>16)%4 == 0 {
				goPkg += ";pkg_" + tok
			}
			var fd *descriptorpb.FileDescriptorProto
			if i < gencodeCorpusSize {
				fd = gencodeCorpus(gencodeCorpusOrder[i], pkg, fileName, goPkg)
			} else {
				fd = gencodeSchema(seed, pkg, fileName, goPkg)
			}
			// only valid schemas count
			if _, err := protodesc.NewFile(fd, protoregistry.GlobalFiles); err != nil {
				if li == 0 {
					c.Stat("schema_invalid")
					if c.stats["schema_invalid"] <= 3 || os.Getenv("GENCODE_NOBUILD") != "" {
						c.Sample("invalid schema: " + gencodeClip(err.Error(), 200))
					}
				}
				continue
			}
			if li == 0 {
				c.Stat("schema_valid")
				if i >= gencodeCorpusSize {
					c.StatN("random_enums_nonzero_first", gencodeLastNonZeroFirst)
				}
				c.Stat("schema_syntax_" + map[string]string{"": "proto2", "proto2": "proto2", "proto3": "proto3", "editions": "editions"}[fd.GetSyntax()])
			}
			var param string
			switch (seed >> 24) % 3 {
			case 0:
				param = "paths=source_relative"
			case 1:
				param = "paths=import"
			default:
				param = "paths=import,module=verifgen"
			}
			param += ",default_api_level=" + lv.name
			if d := os.Getenv("GENCODE_DUMP"); d != "" {
				os.MkdirAll(filepath.Join(d, tok), 0o755)
				os.WriteFile(filepath.Join(d, tok, "schema.txtpb"), []byte(prototext.MarshalOptions{Multiline: true}.Format(fd)), 0o644)
			}
			resp, gen, wantHybrid, errText := gencodeRun(fd, param)
			in := fmt.Sprintf("schema=%d seed=%x level=%s param=%s", i, seed, lv.name, param)
			if errText != "" {
				c.PropFail("C41", "generator fails on a valid schema: "+gencodeClip(errText, 300), in, HexB(gencodeMarshal(fd)))
				continue
			}
			u := &gencodeUnit{idx: i, seed: seed, level: lv.name, tok: tok, fd: fd, files: map[string]string{}, pkgPath: "verifgen/" + tok}
			u.known = gencodeLastKnown
			u.names = gencodeLastNames
			_ = gen
			// ---- (b) file names, gofmt-clean, parses
			ok := true
			wantNames := map[string]bool{tok + "/" + base + ".pb.go": true}
			for _, f := range resp.File {
				name := strings.TrimPrefix(f.GetName(), "verifgen/")
				if name == tok+"/"+base+"_protoopaque.pb.go" {
					u.hybrid = true // the hybrid API emits a second file guarded by the protoopaque build tag
				} else if !wantNames[name] {
					c.PropFail("C41", "generated file name "+f.GetName()+" is not the source path with .pb.go suffix", in)
					ok = false
					continue
				}
				{
					// the generated file name against the naming model (before module= trimming)
					full := "verifgen/" + name
					if strings.HasPrefix(param, "paths=source_relative") {
						full = name
					}
					c.Case("gencode", "genname", []string{Tok(!strings.HasPrefix(param, "paths=source_relative")), HexB([]byte("verifgen/" + tok)), HexB([]byte(fileName)),
						Tok(strings.HasSuffix(name, "_protoopaque.pb.go"))}, []string{HexB([]byte(full))})
					if strings.Contains(param, "module=verifgen") {
						c.Case("gencode", "respname", []string{HexB([]byte("verifgen")), HexB([]byte(full))}, []string{"ok", HexB([]byte(f.GetName()))})
					}
				}
				content := f.GetContent()
				if d := os.Getenv("GENCODE_DUMP"); d != "" {
					os.MkdirAll(filepath.Join(d, filepath.Dir(name)), 0o755)
					os.WriteFile(filepath.Join(d, name), []byte(content), 0o644)
				}
				if _, err := parser.ParseFile(token.NewFileSet(), name, content, parser.ParseComments); err != nil {
					gencodeReport(c, u, "parse", "generated file does not parse: "+gencodeClip(err.Error(), 200), HexB(gencodeMarshal(fd)))
					ok = false
					continue
				}
				formatted, err := format.Source([]byte(content))
				if err != nil || string(formatted) != content {
					gencodeReport(c, u, "gofmt", "generated file is not gofmt-clean", HexB(gencodeMarshal(fd)))
				}
				u.files[name] = content
				c.Stat("generated_files")
				c.StatN("generated_bytes", len(content))
			}
			wantFiles := 1
			if u.hybrid {
				wantFiles = 2
			}
			if len(resp.File) != wantFiles || u.hybrid != wantHybrid {
				c.PropFail("C41", fmt.Sprintf("unexpected set of generated files (%d)", len(resp.File)), in)
			}
			if resp.GetSupportedFeatures()&uint64(pluginpb.CodeGeneratorResponse_FEATURE_SUPPORTS_EDITIONS) == 0 {
				c.PropFail("C41", "response does not declare editions support", in)
			}
			if ok && len(u.files) > 0 {
				units = append(units, u)
				byTok[tok] = u
			}
		}
	}
	if len(units) == 0 {
		c.PropFail("C41", "no schema survived generation")
		return
	}
	if os.Getenv("GENCODE_NOBUILD") != "" {
		return
	}
	// ---- (c) compile in a scratch module outside the repository
	root, err := os.MkdirTemp("", "verifgen-")
	if err != nil {
		c.PropFail("C41", "cannot create scratch dir: "+err.Error())
		return
	}
	if os.Getenv("GENCODE_KEEP") == "" {
		defer os.RemoveAll(root)
	} else {
		fmt.Fprintln(os.Stderr, "gencode: keeping", root)
	}
	repo := gencodeRepoRoot()
	abs, _ := filepath.Abs(root)
	if strings.HasPrefix(abs, repo+"/") || strings.HasPrefix(abs, "/verif/") || strings.HasPrefix(abs, "/work/") {
		c.PropFail("C41", "scratch dir must be outside the repository and the framework: "+abs)
		return
	}
	gomod := "module verifgen\n\ngo 1.21\n\nrequire google.golang.org/protobuf v0.0.0\n\nreplace google.golang.org/protobuf => " + repo + "\n"
	must := func(err error) {
		if err != nil {
			panic(err)
		}
	}
	must(os.WriteFile(filepath.Join(root, "go.mod"), []byte(gomod), 0o644))
	if sum, err := os.ReadFile(filepath.Join(repo, "go.sum")); err == nil {
		must(os.WriteFile(filepath.Join(root, "go.sum"), sum, 0o644))
	}
	must(os.MkdirAll(filepath.Join(root, "schemas"), 0o755))
	for _, u := range units {
		for name, content := range u.files {
			p := filepath.Join(root, name)
			must(os.MkdirAll(filepath.Dir(p), 0o755))
			must(os.WriteFile(p, []byte(content), 0o644))
		}
	}
	// build builds the packages of us (with the protoopaque tag when opaqueTag) and returns the
	// units that compile; failures are reported.
	build := func(us []*gencodeUnit, opaqueTag bool) []*gencodeUnit {
		// go build stops scheduling after the first failing packages: iterate
		for iter := 0; iter < 40 && len(us) > 0; iter++ {
			args := []string{"build"}
			if opaqueTag {
				args = append(args, "-tags", "protoopaque")
			}
			for _, u := range us {
				args = append(args, "./"+u.tok)
			}
			out, err := gencodeGo(root, 20*time.Minute, args...)
			if err == nil {
				return us
			}
			c.Stat("build_batch_failed")
			failed := map[string]string{}
			for _, line := range strings.Split(out, "\n") {
				for _, u := range us {
					if strings.HasPrefix(line, u.tok+"/") || strings.HasPrefix(line, "./"+u.tok+"/") || strings.Contains(line, "verifgen/"+u.tok+":") || strings.HasSuffix(line, "verifgen/"+u.tok) {
						if !strings.Contains(failed[u.tok], ".go:") {
							failed[u.tok] = line
						}
					}
				}
			}
			if len(failed) == 0 {
				c.PropFail("C41", "go build of the generated packages fails: "+gencodeClip(out, 400)+" "+err.Error())
				return nil
			}
			var good []*gencodeUnit
			for _, u := range us {
				msg, bad := failed[u.tok]
				if !bad {
					good = append(good, u)
					continue
				}
				tag := ""
				if opaqueTag {
					tag = " (-tags protoopaque)"
				}
				gencodeReport(c, u, "compile", "generated code does not compile"+tag+": "+gencodeClip(msg, 300), HexB(gencodeMarshal(u.fd)))
			}
			us = good
		}
		return us
	}
	good := build(units, false)
	var hybrids []*gencodeUnit
	for _, u := range units {
		if u.hybrid {
			hybrids = append(hybrids, u)
		}
	}
	goodOpaque := build(hybrids, true)
	c.StatN("packages_compiled", len(good))
	c.StatN("packages_compiled_protoopaque", len(goodOpaque))
	// ---- (d) faithfulness: comparison program linked against the generated packages
	compare := func(us []*gencodeUnit, opaqueTag bool) {
		if len(us) == 0 {
			return
		}
		sdir := filepath.Join(root, "schemas")
		os.RemoveAll(sdir)
		must(os.MkdirAll(sdir, 0o755))
		var imports strings.Builder
		for _, u := range us {
			fmt.Fprintf(&imports, "\t_ %q\n", u.pkgPath)
			must(os.WriteFile(filepath.Join(sdir, u.tok+".binpb"), gencodeMarshal(u.fd), 0o644))
			must(os.WriteFile(filepath.Join(sdir, u.tok+".names"), []byte(u.names), 0o644))
		}
		mainSrc := strings.Replace(gencodeMainSrc, "\t// IMPORTS\n", imports.String(), 1)
		must(os.MkdirAll(filepath.Join(root, "cmp"), 0o755))
		must(os.WriteFile(filepath.Join(root, "cmp", "main.go"), []byte(mainSrc), 0o644))
		args := []string{"build", "-o", filepath.Join(root, "cmp.bin")}
		if opaqueTag {
			args = append(args, "-tags", "protoopaque")
		}
		if out, err := gencodeGo(root, 20*time.Minute, append(args, "./cmp")...); err != nil {
			c.PropFail("C41", "comparison program does not build: "+gencodeClip(out, 600))
			return
		}
		rounds := "6"
		if c.Tier == "thorough" {
			rounds = "25"
		}
		cmd := exec.Command(filepath.Join(root, "cmp.bin"), sdir, fmt.Sprint(c.U64()), rounds)
		var outb, errb bytes.Buffer
		cmd.Stdout = &outb
		cmd.Stderr = &errb
		runErr := cmd.Run()
		sawEnd := false
		for _, line := range strings.Split(outb.String(), "\n") {
			parts := strings.Split(line, "\t")
			switch {
			case len(parts) >= 4 && parts[0] == "P":
				u := byTok[parts[3]]
				kind := "cmp"
				if strings.HasPrefix(parts[2], "enum IsClosed") {
					kind = "closed"
				}
				if n := len(parts); strings.HasPrefix(parts[2], "generated getter differs") && n >= 2 &&
					((parts[n-2] == "d0" && parts[n-1] == "d8000000000000000") || (parts[n-2] == "f0" && parts[n-1] == "f80000000")) {
					kind = "negzero" // the getter returns +0 where the declared default is -0
				}
				if u != nil {
					gencodeReport(c, u, kind, parts[2], parts[3:]...)
				} else {
					c.PropFail(parts[1], parts[2], parts[3:]...)
				}
			case len(parts) >= 3 && parts[0] == "P":
				c.PropFail(parts[1], parts[2], parts[3:]...)
			case len(parts) == 3 && parts[0] == "S":
				var n int
				fmt.Sscan(parts[2], &n)
				c.StatN(parts[1], n)
			case line == "END":
				sawEnd = true
			}
		}
		if runErr != nil || !sawEnd {
			// a registration conflict or init-time panic of generated code lands here
			c.PropFail("C41", "comparison program failed: "+fmt.Sprint(runErr)+" "+gencodeClip(errb.String(), 600))
		}
	}
	compare(good, false)
	compare(goodOpaque, true)
	var toks []string
	for _, u := range good {
		toks = append(toks, u.tok)
	}
	sort.Strings(toks)
	c.Sample(fmt.Sprintf("compiled and compared %d packages: %s", len(good), gencodeClip(strings.Join(toks, " "), 200)))
}

// gencodeFileIsHybrid: the second (protoopaque) file is emitted iff the file's API level is hybrid
func gencodeFileIsHybrid(gen *protogen.Plugin) bool {
	for _, f := range gen.Files {
		if f.Generate && f.APILevel == gofeaturespb.GoFeatures_API_HYBRID {
			return true
		}
	}
	return false
}

func gencodeMarshal(m proto.Message) []byte {
	b, err := proto.MarshalOptions{Deterministic: true}.Marshal(m)
	if err != nil {
		return []byte("marshal error: " + err.Error())
	}
	return b
}

var _ = protoreflect.FullName("")
var _ = gofeaturespb.GoFeatures_API_OPEN
