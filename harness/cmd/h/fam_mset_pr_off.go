//go:build verif && !protoreflect

package main

const msetProtoReflect = false
