//go:build verif

package main

// Family `alias` -- property C14 "decoded and cloned messages never alias caller memory".
//
// Purely behavioural (no Coq model comparison: only P / K / S / X lines).  For ~N messages
// (corpus types in generated open/hybrid/opaque form, the same descriptors through dynamicpb, and
// random schemas through dynamicpb) four scenarios are run:
//
//	decode      Unmarshal(buf) in every variant (default = lazy where the type supports it,
//	            NoLazyDecoding, Merge into empty / pre-populated / twice, DiscardUnknown,
//	            UnmarshalState, dynamicpb), then the ENTIRE input buffer buf[:cap(buf)] is
//	            overwritten with junk; the message must not change (deterministic bytes + dump
//	            before/after; for still-lazy messages: the non-deterministic re-marshal (which
//	            re-emits the retained buffer) before/after, then all lazy fields are forced and the
//	            message is compared with a twin decoded the same way from a buffer that was never
//	            touched).
//	decode-rev  the decoded message is mutated in place (bytes obtained through reflection are
//	            flipped, lists/maps/sub-messages/unknown fields changed): the input buffer
//	            (including its spare capacity) and a second message decoded from the same buffer
//	            must not change.
//	clone       proto.Clone, then every mutation op on the clone (source unchanged) and on the
//	            source (second clone unchanged); sources: eagerly decoded, lazily decoded and never
//	            touched (its input buffer is overwritten after Clone), dynamicpb, and messages built
//	            through reflection.
//	merge       proto.Merge(dst, src) for gen/gen, dyn/dyn, gen/dyn, dyn/gen with empty and
//	            pre-populated dst; input buffers overwritten; then src mutated (dst unchanged) or
//	            dst mutated (src unchanged).
//	delim       protodelim.UnmarshalFrom over bufio readers of size 16/64/4096 and over a reader
//	            that retains every slice handed to Read and scribbles on it later; after the whole
//	            stream was read the source array, the bufio buffer and the retained slices are
//	            overwritten: every message read must be unchanged.
//
// Expected values are never computed with proto.Clone / proto.Merge: they are snapshots (msgDump
// tokens + deterministic Marshal bytes) taken before the disturbance, or a twin built by the same
// calls from private, untouched copies of the input.

import (
	"bufio"
	"bytes"
	"fmt"
	"io"
	"reflect"
	"runtime/debug"
	"sort"
	"strconv"
	"strings"
	"unsafe"

	"google.golang.org/protobuf/encoding/protodelim"
	"google.golang.org/protobuf/encoding/protowire"
	"google.golang.org/protobuf/internal/flags"
	"google.golang.org/protobuf/internal/impl"
	"google.golang.org/protobuf/internal/protolazy"
	"google.golang.org/protobuf/proto"
	"google.golang.org/protobuf/reflect/protoreflect"
	"google.golang.org/protobuf/runtime/protoiface"
	"google.golang.org/protobuf/types/dynamicpb"
)

func init() { Register("alias", famAlias) }

const aliasMaxPLines = 120

// ---------------------------------------------------------------- environment of one message

type aliasEnv struct {
	c     *Ctx
	md    protoreflect.MessageDescriptor
	mt    protoreflect.MessageType // nil: random schema, dynamicpb only
	name  string
	b     []byte        // deterministic encoding of the content under test
	other []byte        // encoding of another message of the same type
	built proto.Message // the message b was marshalled from (built through reflection)
	lazy  bool          // a generated flavour exists and a [lazy=true] field (or, with protolegacy, a message extension) is reachable
	iter  int
}

func (e *aliasEnv) fresh(fl string) proto.Message {
	if fl == "gen" {
		return e.mt.New().Interface()
	}
	return dynamicpb.NewMessage(e.md)
}

func (e *aliasEnv) flavours() []string {
	if e.mt != nil {
		return []string{"gen", "dyn"}
	}
	return []string{"dyn"}
}

func aliasClean(s string) string {
	s = strings.Map(func(r rune) rune {
		if r == '\t' || r == '\n' || r == '\r' {
			return ' '
		}
		if r < 0x20 || r == 0x7f || r == 0xfffd {
			return '?'
		}
		return r
	}, s)
	if len(s) > 300 {
		s = s[:300] + "..."
	}
	return s
}

// fail reports a violation of C14.  (Inputs of the class of known finding F1 are never generated,
// see famAlias; F1 itself -- lazy and eager decoding disagree -- is not an aliasing effect and is
// recognised in decodeVariant.)
func (e *aliasEnv) fail(scn, what, fl, path, op string, inputs ...[]byte) {
	c := e.c
	c.Stat("fail." + scn)
	if c.Fails >= aliasMaxPLines {
		c.Stat("fail.suppressed_p_lines")
		c.Fails++
		return
	}
	if path == "" {
		path = "(root)"
	}
	toks := make([]string, 0, len(inputs))
	for _, in := range inputs {
		toks = append(toks, HexB(in))
	}
	c.PropFail("C14", aliasClean(fmt.Sprintf("%s: %s type=%s flavour=%s field path=%s op=%s", scn, what, e.name, fl, path, op)), toks...)
}

func aliasPanicLoc(stack []byte) string {
	var mine, repo string
	for _, ln := range strings.Split(string(stack), "\n") {
		ln = strings.TrimSpace(ln)
		if i := strings.Index(ln, "fam_alias.go:"); i >= 0 && mine == "" && !strings.Contains(ln, "aliasPanicLoc") {
			mine = ln[i:]
		}
		if strings.HasPrefix(ln, "/") && repo == "" && !strings.Contains(ln, "/runtime/") && !strings.Contains(ln, "verifh") && !strings.Contains(ln, "fam_alias.go") && !strings.Contains(ln, "common_msg.go") {
			repo = ln
		}
	}
	if j := strings.IndexByte(mine, ' '); j > 0 {
		mine = mine[:j]
	}
	if j := strings.IndexByte(repo, ' '); j > 0 {
		repo = repo[:j]
	}
	return "harness@" + mine + " code@" + repo
}

// guard runs f; a panic is a P line (the implementation must not panic on these API uses).
func (e *aliasEnv) guard(scn, fl string, f func()) {
	defer func() {
		if r := recover(); r != nil {
			e.fail(scn, "panic: "+fmt.Sprint(r)+" ["+aliasPanicLoc(debug.Stack())+"]", fl, "-", "-", e.b, e.other)
		}
	}()
	f()
}

// ---------------------------------------------------------------- observations

type aliasSnap struct {
	toks []string
	det  []byte
}

func aliasDet(m proto.Message) []byte {
	b, err := proto.MarshalOptions{Deterministic: true, AllowPartial: true}.Marshal(m)
	if err != nil {
		return []byte("marshal error: " + err.Error())
	}
	return b
}

// aliasND: ordinary (non-deterministic) Marshal; it re-emits the retained buffer of fields that
// are still lazy instead of forcing them.
func aliasND(m proto.Message) []byte {
	b, err := proto.MarshalOptions{AllowPartial: true}.Marshal(m)
	if err != nil {
		return []byte("marshal error: " + err.Error())
	}
	return b
}

// aliasSnapOf forces every lazy field (msgDump ranges over everything) and observes m.
func aliasSnapOf(m proto.Message) aliasSnap {
	return aliasSnap{toks: msgDump(m.ProtoReflect()), det: aliasDet(m)}
}

// dumpOf: dump of an independent eager (dynamicpb) decode of b.
func (e *aliasEnv) dumpOf(b []byte) []string {
	m := dynamicpb.NewMessage(e.md)
	if err := (proto.UnmarshalOptions{AllowPartial: true}).Unmarshal(append([]byte(nil), b...), m); err != nil {
		return []string{"decode error: " + err.Error()}
	}
	return msgDump(m)
}

// aliasTokPaths maps every token of a msgDump to the field path it belongs to.
func aliasTokPaths(toks []string) (paths []string) {
	paths = make([]string, len(toks))
	defer func() { recover() }()
	i := 0
	atoi := func(s string) int { n, _ := strconv.Atoi(s); return n }
	var msg func(path string)
	val := func(path string) {
		if toks[i] == "M" {
			msg(path)
		} else {
			paths[i] = path
			i++
		}
	}
	msg = func(path string) {
		paths[i] = path
		i++
		n := atoi(toks[i])
		paths[i] = path
		i++
		for k := 0; k < n; k++ {
			num, _ := strconv.ParseUint(toks[i], 16, 64)
			fp := path + "." + strconv.FormatUint(num, 10)
			paths[i] = fp
			i++
			cnt := atoi(toks[i])
			paths[i] = fp
			i++
			for j := 0; j < cnt; j++ {
				if toks[i] == "E" {
					paths[i] = fp
					i++
					kp := fp + "{" + toks[i] + "}"
					paths[i] = kp
					i++
					val(kp)
				} else {
					val(fp + "[" + strconv.Itoa(j) + "]")
				}
			}
		}
		paths[i] = path + ".unknown"
		i++
	}
	msg("")
	return paths
}

func aliasTrunc(s string) string {
	if len(s) > 48 {
		return s[:48] + "..."
	}
	return s
}

func aliasDiffToks(a, b []string) (what, path string) {
	n := len(a)
	if len(b) < n {
		n = len(b)
	}
	for i := 0; i < n; i++ {
		if a[i] != b[i] {
			return "dump " + aliasTrunc(a[i]) + " -> " + aliasTrunc(b[i]), aliasTokPaths(a)[i]
		}
	}
	if len(a) != len(b) {
		return fmt.Sprintf("dump length %d -> %d", len(a), len(b)), "?"
	}
	return "", ""
}

// aliasDiff describes the first difference between two snapshots ("" = equal).
func aliasDiff(a, b aliasSnap) (what, path string) {
	if w, p := aliasDiffToks(a.toks, b.toks); w != "" {
		return w, p
	}
	if !bytes.Equal(a.det, b.det) {
		k := 0
		for k < len(a.det) && k < len(b.det) && a.det[k] == b.det[k] {
			k++
		}
		return fmt.Sprintf("deterministic bytes differ at offset %d (len %d -> %d)", k, len(a.det), len(b.det)), "?"
	}
	return "", ""
}

// aliasLazyPending counts (by reading memory through package reflect, without calling any
// accessor) the lazy fields of m, at any depth, that are present in the retained buffer but not
// yet unmarshalled.
func aliasLazyPending(m proto.Message) (n int) {
	defer func() {
		if recover() != nil {
			n = -1
		}
	}()
	rv := reflect.ValueOf(m)
	if rv.Kind() != reflect.Ptr || rv.IsNil() {
		return 0
	}
	lazyT := reflect.TypeOf((*protolazy.XXX_lazyUnmarshalInfo)(nil))
	seen := 0
	var walk func(sv reflect.Value, depth int)
	walk = func(sv reflect.Value, depth int) {
		if depth > 8 || sv.Kind() != reflect.Struct || !sv.CanAddr() {
			return
		}
		seen++
		if seen > 3000 {
			return
		}
		var info *protolazy.XXX_lazyUnmarshalInfo
		if f := sv.FieldByName("XXX_lazyUnmarshalInfo"); f.IsValid() && f.Type() == lazyT {
			info = *(**protolazy.XXX_lazyUnmarshalInfo)(unsafe.Pointer(f.UnsafeAddr()))
		}
		st := sv.Type()
		for i := 0; i < sv.NumField(); i++ {
			sf := st.Field(i)
			tag := sf.Tag.Get("protobuf")
			if tag == "" {
				continue
			}
			f := sv.Field(i)
			switch f.Kind() {
			case reflect.Ptr:
				if f.Type().Elem().Kind() != reflect.Struct {
					continue
				}
				if !f.IsNil() {
					walk(f.Elem(), depth+1)
					continue
				}
				if info == nil || info.Buffer() == nil {
					continue
				}
				parts := strings.Split(tag, ",")
				if len(parts) < 2 {
					continue
				}
				num, err := strconv.Atoi(parts[1])
				if err != nil {
					continue
				}
				if _, _, found, _, multi := info.FindFieldInProto(uint32(num)); found || multi != nil {
					n++
				}
			case reflect.Slice:
				if f.Type().Elem().Kind() == reflect.Ptr && f.Type().Elem().Elem().Kind() == reflect.Struct {
					for j := 0; j < f.Len() && j < 4; j++ {
						if el := f.Index(j); !el.IsNil() {
							walk(el.Elem(), depth+1)
						}
					}
				}
			}
		}
	}
	walk(rv.Elem(), 0)
	return n
}

// aliasLazyExts counts extension fields of the top-level message that are still lazily encoded.
func aliasLazyExts(m protoreflect.Message) int {
	n := 0
	for _, xd := range msgExtensionsOf(m.Descriptor()) {
		if impl.IsLazy(m, xd) {
			n++
		}
	}
	return n
}

// ---------------------------------------------------------------- content generation

func aliasBytesVal(c *Ctx) []byte {
	switch c.Intn(12) {
	case 0:
		return []byte{}
	case 1:
		return c.Bytes(128 + c.Intn(8))
	default:
		return c.Bytes(1 + c.Intn(9))
	}
}

func aliasRealOneof(fd protoreflect.FieldDescriptor) protoreflect.OneofDescriptor {
	if od := fd.ContainingOneof(); od != nil && !od.IsSynthetic() {
		return od
	}
	return nil
}

// aliasForce makes sure bytes-kind values (singular, oneof, list, map value, extension), lazy
// sub-messages and unknown fields are populated often.
func aliasForce(c *Ctx, m protoreflect.Message, depth int, budget *int) {
	md := m.Descriptor()
	one := func(fd protoreflect.FieldDescriptor) {
		if *budget <= 0 {
			return
		}
		switch {
		case fd.IsMap():
			vfd := fd.MapValue()
			switch {
			case vfd.Kind() == protoreflect.BytesKind && c.Intn(4) != 0:
				mp := m.Mutable(fd).Map()
				for j := 1 + c.Intn(3); j > 0; j-- {
					mp.Set(msgScalar(c, fd.MapKey(), false).MapKey(), protoreflect.ValueOfBytes(aliasBytesVal(c)))
					*budget--
				}
			case vfd.Message() != nil && depth > 0 && c.Intn(2) == 0:
				mp := m.Mutable(fd).Map()
				k := msgScalar(c, fd.MapKey(), false).MapKey()
				v := mp.NewValue()
				*budget--
				aliasForce(c, v.Message(), depth-1, budget)
				mp.Set(k, v)
			}
		case fd.IsList():
			switch {
			case fd.Kind() == protoreflect.BytesKind && c.Intn(4) != 0:
				var l protoreflect.List
				if fd.IsExtension() && !m.Has(fd) {
					l = m.NewField(fd).List()
				} else {
					l = m.Mutable(fd).List()
				}
				for j := 1 + c.Intn(3); j > 0; j-- {
					l.Append(protoreflect.ValueOfBytes(aliasBytesVal(c)))
					*budget--
				}
				if fd.IsExtension() {
					m.Set(fd, protoreflect.ValueOfList(l))
				}
			case fd.Message() != nil && depth > 0 && !fd.IsExtension():
				l := m.Mutable(fd).List()
				if n := l.Len(); n > 0 {
					aliasForce(c, l.Get(c.Intn(n)).Message(), depth-1, budget)
				} else if c.Intn(2) == 0 {
					v := l.NewElement()
					*budget--
					aliasForce(c, v.Message(), depth-1, budget)
					l.Append(v)
				}
			}
		case fd.Message() != nil:
			if depth <= 0 {
				return
			}
			has := m.Has(fd)
			if od := aliasRealOneof(fd); od != nil && !has && m.WhichOneof(od) != nil && c.Intn(3) != 0 {
				return
			}
			if has || (msgIsLazyField(fd) && c.Intn(4) != 0) || c.Intn(4) == 0 {
				*budget--
				if fd.IsExtension() && !has {
					v := m.NewField(fd)
					aliasForce(c, v.Message(), depth-1, budget)
					m.Set(fd, v)
				} else {
					aliasForce(c, m.Mutable(fd).Message(), depth-1, budget)
				}
			}
		case fd.Kind() == protoreflect.BytesKind:
			if od := aliasRealOneof(fd); od != nil && m.WhichOneof(od) != nil && c.Intn(3) != 0 {
				return
			}
			if c.Intn(5) != 0 {
				m.Set(fd, protoreflect.ValueOfBytes(aliasBytesVal(c)))
				*budget--
			}
		}
	}
	fds := md.Fields()
	for i := 0; i < fds.Len(); i++ {
		one(fds.Get(i))
	}
	for _, xd := range msgExtensionsOf(md) {
		if xd.Kind() == protoreflect.BytesKind || c.Intn(3) == 0 {
			one(xd)
		}
	}
	if len(m.GetUnknown()) == 0 && c.Intn(3) == 0 {
		m.SetUnknown(msgGenUnknown(c, md))
	}
}

func aliasFill(c *Ctx, m protoreflect.Message) {
	budget := 30 + c.Intn(70)
	msgRandomFillOpts(c, m, 3, msgFillOpts{budget: &budget, badUTF8: false, unknown: true, dense: c.Intn(8) == 0})
	fb := 50
	aliasForce(c, m, 3, &fb)
}

type aliasFeat struct {
	bytesSingular, bytesOneof, bytesList, bytesMap, bytesExt, strings int
	unknown, exts, lazyFields, msgs, values                           int
}

func aliasFeatures(m protoreflect.Message, f *aliasFeat, depth int) {
	f.msgs++
	if len(m.GetUnknown()) > 0 {
		f.unknown++
	}
	if depth > 6 {
		return
	}
	m.Range(func(fd protoreflect.FieldDescriptor, v protoreflect.Value) bool {
		f.values++
		if fd.IsExtension() {
			f.exts++
		}
		if msgIsLazyField(fd) {
			f.lazyFields++
		}
		switch {
		case fd.IsMap():
			vfd := fd.MapValue()
			v.Map().Range(func(_ protoreflect.MapKey, mv protoreflect.Value) bool {
				if vfd.Kind() == protoreflect.BytesKind {
					f.bytesMap++
				} else if vfd.Message() != nil {
					aliasFeatures(mv.Message(), f, depth+1)
				}
				return true
			})
		case fd.IsList():
			l := v.List()
			if fd.Kind() == protoreflect.BytesKind {
				f.bytesList += l.Len()
				if fd.IsExtension() {
					f.bytesExt++
				}
			} else if fd.Message() != nil {
				for i := 0; i < l.Len(); i++ {
					aliasFeatures(l.Get(i).Message(), f, depth+1)
				}
			}
		case fd.Message() != nil:
			aliasFeatures(v.Message(), f, depth+1)
		case fd.Kind() == protoreflect.BytesKind:
			switch {
			case fd.IsExtension():
				f.bytesExt++
			case aliasRealOneof(fd) != nil:
				f.bytesOneof++
			default:
				f.bytesSingular++
			}
		case fd.Kind() == protoreflect.StringKind:
			f.strings++
		}
		return true
	})
}

// ---------------------------------------------------------------- buffers

// aliasMkbuf returns a private copy of b, exactly sized (capmode 0) or with spare capacity that
// holds a plausible continuation (capmode 1).
func aliasMkbuf(c *Ctx, b []byte, capmode int) []byte {
	if capmode == 0 {
		buf := make([]byte, len(b))
		copy(buf, b)
		return buf
	}
	extra := 1 + c.Intn(64)
	full := make([]byte, len(b)+extra)
	copy(full, b)
	for i := len(b); i < len(full); i++ {
		if len(b) > 0 {
			full[i] = b[(i-len(b))%len(b)]
		} else {
			full[i] = 0x08
		}
	}
	return full[:len(b)]
}

var aliasJunkNames = []string{"ff", "00", "random", "othermsg"}

// junk overwrites the whole backing array of buf.
func (e *aliasEnv) junk(buf []byte, mode int) {
	full := buf[:cap(buf)]
	switch mode {
	case 0:
		for i := range full {
			full[i] = 0xff
		}
	case 1:
		for i := range full {
			full[i] = 0
		}
	case 2:
		copy(full, e.c.Bytes(len(full)))
	default:
		src := e.other
		if len(src) == 0 || bytes.Equal(src, e.b) {
			src = []byte{0x0a, 0x01, 0x5a}
		}
		for i := range full {
			full[i] = src[i%len(src)]
		}
	}
}

// ---------------------------------------------------------------- decode variants

type aliasVar struct {
	name    string
	fl      string
	opts    proto.UnmarshalOptions
	plain   bool // proto.Unmarshal
	state   bool // UnmarshalOptions.UnmarshalState with Flags 0
	pre     bool // destination pre-populated
	twice   bool // the same buffer merged twice
	canLazy bool
}

var aliasVars = []aliasVar{
	{name: "default", fl: "gen", plain: true, canLazy: true},
	{name: "nolazy", fl: "gen", opts: proto.UnmarshalOptions{NoLazyDecoding: true}},
	{name: "merge-empty", fl: "gen", opts: proto.UnmarshalOptions{Merge: true}, canLazy: true},
	{name: "merge-pre", fl: "gen", opts: proto.UnmarshalOptions{Merge: true}, pre: true, canLazy: true},
	{name: "merge-twice", fl: "gen", opts: proto.UnmarshalOptions{Merge: true}, twice: true, canLazy: true},
	{name: "discard", fl: "gen", opts: proto.UnmarshalOptions{DiscardUnknown: true}},
	{name: "state", fl: "gen", state: true, canLazy: true},
	{name: "dyn", fl: "dyn", plain: true},
	{name: "dyn-merge-pre", fl: "dyn", opts: proto.UnmarshalOptions{Merge: true}, pre: true},
	{name: "dyn-merge-twice", fl: "dyn", opts: proto.UnmarshalOptions{Merge: true}, twice: true},
	{name: "dyn-discard", fl: "dyn", opts: proto.UnmarshalOptions{DiscardUnknown: true}},
	{name: "dyn-state", fl: "dyn", state: true},
}

func aliasOK(err error) error {
	if err != nil && strings.Contains(err.Error(), "required field") {
		return nil // the message is completely decoded; only the final initialisation check complains
	}
	return err
}

func (e *aliasEnv) apply(v *aliasVar, buf []byte, m proto.Message) error {
	var err error
	switch {
	case v.plain:
		err = proto.Unmarshal(buf, m)
	case v.state:
		o := v.opts
		o.AllowPartial = true
		_, err = o.UnmarshalState(protoiface.UnmarshalInput{Message: m.ProtoReflect(), Buf: buf})
	default:
		o := v.opts
		o.AllowPartial = true
		err = o.Unmarshal(buf, m)
		if err == nil && v.twice {
			err = o.Unmarshal(buf, m)
		}
	}
	return aliasOK(err)
}

func (e *aliasEnv) decodeErr(key string, err error) {
	e.c.Stat(key + ".decode_err")
	if e.c.stats[key+".decode_err"] <= 2 {
		e.c.Sample(aliasClean(fmt.Sprintf("%s: unexpected decode error %v type=%s input=%s", key, err, e.name, HexB(e.b))))
	}
}

// prepare builds (message, twin): both get the same calls, the twin from private exact copies.
func (e *aliasEnv) prepare(v *aliasVar, buf []byte, capmode int, key string) (m, t proto.Message, pbuf []byte, ok bool) {
	m, t = e.fresh(v.fl), e.fresh(v.fl)
	if v.pre {
		pbuf = aliasMkbuf(e.c, e.other, capmode)
		tp := aliasMkbuf(e.c, e.other, 0)
		o := proto.UnmarshalOptions{AllowPartial: true}
		if err := o.Unmarshal(pbuf, m); err != nil {
			e.decodeErr(key, err)
			return nil, nil, nil, false
		}
		if err := o.Unmarshal(tp, t); err != nil {
			e.decodeErr(key, err)
			return nil, nil, nil, false
		}
	}
	if err := e.apply(v, buf, m); err != nil {
		e.decodeErr(key, err)
		return nil, nil, nil, false
	}
	if err := e.apply(v, aliasMkbuf(e.c, e.b, 0), t); err != nil {
		e.decodeErr(key, err)
		return nil, nil, nil, false
	}
	return m, t, pbuf, true
}

func (e *aliasEnv) decodeVariant(v *aliasVar, capmode, junkmode int) {
	c := e.c
	key := "decode." + v.name
	c.Stat(key + ".run")
	fl := fmt.Sprintf("%s:%s:cap%d:junk-%s", v.fl, v.name, capmode, aliasJunkNames[junkmode])
	buf := aliasMkbuf(c, e.b, capmode)
	m, t, pbuf, ok := e.prepare(v, buf, capmode, key)
	if !ok {
		return
	}
	lazyV := e.lazy && v.fl == "gen" && v.canLazy
	var s1 aliasSnap
	var d1 []string
	if lazyV {
		pending := aliasLazyPending(m)
		if pending > 0 {
			c.Stat(key + ".msgs_with_lazy_pending")
			c.StatN(key+".lazy_pending_fields", pending)
		}
		if n := aliasLazyExts(m.ProtoReflect()); n > 0 {
			c.StatN(key+".lazy_pending_extensions", n)
		}
		d1 = e.dumpOf(aliasND(m))
		if p2 := aliasLazyPending(m); p2 != pending {
			c.Stat(key + ".lazy_forced_by_plain_marshal")
		}
	} else {
		s1 = aliasSnapOf(m)
	}
	e.junk(buf, junkmode)
	if pbuf != nil {
		e.junk(pbuf, junkmode)
	}
	if lazyV {
		d2 := e.dumpOf(aliasND(m))
		if w, p := aliasDiffToks(d1, d2); w != "" {
			e.fail("decode", "re-marshal of the still-lazy message changed after the input buffer was overwritten ("+w+")", fl, p, "overwrite-input", e.b, e.other)
			return
		}
	} else {
		s2 := aliasSnapOf(m)
		if w, p := aliasDiff(s1, s2); w != "" {
			e.fail("decode", "message changed after the input buffer was overwritten ("+w+")", fl, p, "overwrite-input", e.b, e.other)
			return
		}
	}
	// force everything, compare with the twin decoded from untouched memory
	s3 := aliasSnapOf(m)
	st := aliasSnapOf(t)
	if w, p := aliasDiff(st, s3); w != "" {
		e.fail("decode", "after forcing lazy fields the message differs from its twin decoded from an untouched buffer ("+w+")", fl, p, "overwrite-input+force", e.b, e.other)
		return
	}
	if lazyV {
		// the forced content also has to be what an eager decoder sees in the original bytes
		if !v.pre && !v.twice {
			if w, p := aliasDiffToks(e.dumpOf(e.b), s3.toks); w != "" {
				if msgF1Class(e.md, e.b) {
					c.Known("F1", "C14", aliasClean(fmt.Sprintf("decode: lazy decode differs from eager decode (%s at %s) type=%s flavour=%s", w, p, e.name, fl)))
				}
				c.Stat(key + ".lazy_vs_eager_differs(not_alias)")
				if c.stats[key+".lazy_vs_eager_differs(not_alias)"] <= 2 {
					c.Sample(aliasClean(fmt.Sprintf("lazy decode differs from eager decode (also for the untouched twin; not an aliasing effect): %s at %s type=%s input=%s", w, p, e.name, HexB(e.b))))
				}
			}
		}
	}
	c.Stat(key + ".ok")
}

// decodeRev: mutate the decoded message, the input buffer and a sibling decoded from the same
// buffer must not change.
func (e *aliasEnv) decodeRev(v *aliasVar, capmode int) {
	c := e.c
	key := "decode-rev." + v.name
	c.Stat(key + ".run")
	fl := fmt.Sprintf("%s:%s:cap%d", v.fl, v.name, capmode)
	buf := aliasMkbuf(c, e.b, capmode)
	m, t, _, ok := e.prepare(v, buf, capmode, key)
	if !ok {
		return
	}
	m2 := e.fresh(v.fl)
	if v.pre {
		if err := (proto.UnmarshalOptions{AllowPartial: true}).Unmarshal(aliasMkbuf(c, e.other, 0), m2); err != nil {
			e.decodeErr(key, err)
			return
		}
	}
	if err := e.apply(v, buf, m2); err != nil {
		e.decodeErr(key, err)
		return
	}
	keep := append([]byte(nil), buf[:cap(buf)]...)
	lazyV := e.lazy && v.fl == "gen" && v.canLazy
	var s2 aliasSnap
	if !lazyV {
		s2 = aliasSnapOf(m2)
	}
	mu := &aliasMut{c: c, budget: 120}
	mu.check = func(path, op string) {
		if !bytes.Equal(buf[:cap(buf)], keep) {
			e.fail("decode-rev", "the input buffer changed when the decoded message was mutated", fl, path, op, e.b)
			mu.stopped = true
			return
		}
		if !lazyV && !bytes.Equal(aliasDet(m2), s2.det) {
			e.fail("decode-pair", "a second message decoded from the same buffer changed when the first was mutated", fl, path, op, e.b)
			mu.stopped = true
		}
	}
	mu.message(m.ProtoReflect(), "", 3)
	c.StatN(key+".ops", mu.nops)
	if mu.stopped {
		return
	}
	if !bytes.Equal(buf[:cap(buf)], keep) {
		e.fail("decode-rev", "the input buffer changed when the decoded message was mutated", fl, "?", "(final)", e.b)
		return
	}
	sEnd := aliasSnapOf(m2)
	if w, p := aliasDiff(aliasSnapOf(t), sEnd); w != "" {
		e.fail("decode-pair", "a second message decoded from the same buffer differs from its untouched twin after the first was mutated ("+w+")", fl, p, "(final)", e.b)
		return
	}
	c.Stat(key + ".ok")
}

// ---------------------------------------------------------------- mutation engine

type aliasMut struct {
	c       *Ctx
	budget  int
	nops    int
	stopped bool
	check   func(path, op string)
}

func (mu *aliasMut) op(path, op string) {
	mu.c.Stat("mut.op." + op)
	mu.nops++
	mu.budget--
	if !mu.stopped {
		mu.check(path, op)
	}
}

func (mu *aliasMut) done() bool { return mu.stopped || mu.budget <= 0 }

func aliasFlip(bs []byte) bool {
	if len(bs) == 0 {
		return false
	}
	bs[0] ^= 0xff
	if len(bs) > 1 {
		bs[len(bs)-1] ^= 0x55
	}
	return true
}

// aliasFlipUnknown changes, in place, one value byte of the first raw field that has one; the
// result stays syntactically valid.
func aliasFlipUnknown(u []byte) bool {
	b := u
	for len(b) > 0 {
		num, typ, n := protowire.ConsumeTag(b)
		if n < 0 {
			return false
		}
		m := protowire.ConsumeFieldValue(num, typ, b[n:])
		if m < 0 {
			return false
		}
		val := b[n : n+m]
		switch typ {
		case protowire.VarintType:
			val[0] ^= 1
			return true
		case protowire.Fixed32Type, protowire.Fixed64Type:
			val[0] ^= 0xff
			return true
		case protowire.BytesType:
			if _, k := protowire.ConsumeVarint(val); k > 0 && len(val) > k {
				val[k] ^= 0xff
				return true
			}
		}
		b = b[n+m:]
	}
	return false
}

func aliasKeyStr(k protoreflect.MapKey) string { return aliasTrunc(fmt.Sprint(k.Interface())) }

func (mu *aliasMut) message(m protoreflect.Message, path string, depth int) {
	c := mu.c
	type ent struct {
		fd protoreflect.FieldDescriptor
		v  protoreflect.Value
	}
	var es []ent
	m.Range(func(fd protoreflect.FieldDescriptor, v protoreflect.Value) bool {
		es = append(es, ent{fd, v})
		return true
	})
	sort.Slice(es, func(i, j int) bool { return es[i].fd.Number() < es[j].fd.Number() })
	// when there are many fields start somewhere else each time so that the budget does not
	// always starve the same ones
	if len(es) > 8 {
		k := c.Intn(len(es))
		es = append(append([]ent(nil), es[k:]...), es[:k]...)
	}
	// unknown fields first: they are few and easily starved
	if u := m.GetUnknown(); len(u) > 0 && !mu.done() {
		if aliasFlipUnknown(u) {
			m.SetUnknown(u)
			mu.op(path+".unknown", "unknown-flip-in-place")
		}
		u = append(u, msgGenUnknown(c, m.Descriptor())...)
		m.SetUnknown(u)
		mu.op(path+".unknown", "unknown-append")
	}
	for _, e := range es {
		if mu.done() {
			if !mu.stopped {
				c.Stat("mut.budget_exhausted")
			}
			return
		}
		fd := e.fd
		p := path + "." + strconv.Itoa(int(fd.Number()))
		if fd.IsExtension() {
			p += "x"
		}
		switch {
		case fd.IsMap():
			mu.mapField(m, fd, p, depth)
		case fd.IsList():
			mu.listField(m, fd, p, depth)
		case fd.Message() != nil:
			if depth > 0 {
				mu.message(m.Mutable(fd).Message(), p, depth-1)
			}
			m.Set(fd, m.NewField(fd))
			mu.op(p, "msg-replace")
		case fd.Kind() == protoreflect.BytesKind:
			if aliasFlip(m.Get(fd).Bytes()) {
				mu.op(p, "bytes-flip-in-place")
			}
			m.Set(fd, protoreflect.ValueOfBytes(aliasBytesVal(c)))
			mu.op(p, "bytes-set")
		default:
			m.Set(fd, msgScalar(c, fd, false))
			mu.op(p, "scalar-set")
		}
		if c.Intn(2) == 0 {
			m.Clear(fd)
			mu.op(p, "clear")
		}
	}
}

func (mu *aliasMut) listField(m protoreflect.Message, fd protoreflect.FieldDescriptor, p string, depth int) {
	c := mu.c
	l := m.Mutable(fd).List()
	n := l.Len()
	newVal := func() protoreflect.Value {
		if fd.Message() != nil {
			return l.NewElement()
		}
		if fd.Kind() == protoreflect.BytesKind {
			return protoreflect.ValueOfBytes(aliasBytesVal(c))
		}
		return msgScalar(c, fd, false)
	}
	switch {
	case fd.Message() != nil:
		if n > 0 && depth > 0 {
			mu.message(l.Get(0).Message(), p+"[0]", depth-1)
			if n > 1 && !mu.done() {
				mu.message(l.Get(n-1).Message(), p+"["+strconv.Itoa(n-1)+"]", depth-1)
			}
		}
		l.AppendMutable()
		mu.op(p, "list-append-mutable")
	case fd.Kind() == protoreflect.BytesKind:
		flipped := false
		for i := 0; i < n && i < 6; i++ {
			if aliasFlip(l.Get(i).Bytes()) {
				flipped = true
			}
		}
		if flipped {
			mu.op(p, "list-bytes-flip-in-place")
		}
	}
	if n > 0 {
		l.Set(c.Intn(n), newVal())
		mu.op(p, "list-set")
	}
	l.Append(newVal())
	mu.op(p, "list-append")
	if k := l.Len(); k > 1 {
		l.Truncate(k - 1 - c.Intn(k-1))
		mu.op(p, "list-truncate")
		l.Append(newVal())
		mu.op(p, "list-append-after-truncate")
	}
	if c.Intn(3) == 0 {
		l.Truncate(0)
		mu.op(p, "list-truncate0")
		l.Append(newVal())
		mu.op(p, "list-append-after-truncate")
	}
}

func (mu *aliasMut) mapField(m protoreflect.Message, fd protoreflect.FieldDescriptor, p string, depth int) {
	c := mu.c
	mp := m.Mutable(fd).Map()
	vfd := fd.MapValue()
	var keys []protoreflect.MapKey
	mp.Range(func(k protoreflect.MapKey, _ protoreflect.Value) bool { keys = append(keys, k); return true })
	sort.Slice(keys, func(i, j int) bool { return msgKeyLess(keys[i], keys[j]) })
	newVal := func() protoreflect.Value {
		if vfd.Message() != nil {
			return mp.NewValue()
		}
		if vfd.Kind() == protoreflect.BytesKind {
			return protoreflect.ValueOfBytes(aliasBytesVal(c))
		}
		return msgScalar(c, vfd, false)
	}
	switch {
	case vfd.Message() != nil:
		if depth > 0 {
			for i := 0; i < len(keys) && i < 2 && !mu.done(); i++ {
				mu.message(mp.Mutable(keys[i]).Message(), p+"{"+aliasKeyStr(keys[i])+"}", depth-1)
			}
		}
	case vfd.Kind() == protoreflect.BytesKind:
		flipped := false
		for i := 0; i < len(keys) && i < 6; i++ {
			if aliasFlip(mp.Get(keys[i]).Bytes()) {
				flipped = true
			}
		}
		if flipped {
			mu.op(p, "map-bytes-flip-in-place")
		}
	}
	if len(keys) > 0 {
		mp.Set(keys[c.Intn(len(keys))], newVal())
		mu.op(p, "map-set-existing")
	}
	mp.Set(msgScalar(c, fd.MapKey(), false).MapKey(), newVal())
	mu.op(p, "map-set-new")
	if len(keys) > 0 {
		mp.Clear(keys[c.Intn(len(keys))])
		mu.op(p, "map-clear-key")
	}
}

// mutateChecked applies the mutation ops to victim and checks after each op that witness keeps
// its deterministic bytes, and at the end its complete snapshot.
func (e *aliasEnv) mutateChecked(scn, fl, what string, victim, witness proto.Message, pre aliasSnap, budget int, inputs ...[]byte) bool {
	mu := &aliasMut{c: e.c, budget: budget}
	mu.check = func(path, op string) {
		if d := aliasDet(witness); !bytes.Equal(d, pre.det) {
			w, _ := aliasDiff(pre, aliasSnapOf(witness))
			e.fail(scn, what+" ("+w+")", fl, path, op, inputs...)
			mu.stopped = true
		}
	}
	mu.message(victim.ProtoReflect(), "", 3)
	e.c.StatN(scn+".ops", mu.nops)
	if mu.stopped {
		return false
	}
	if w, p := aliasDiff(pre, aliasSnapOf(witness)); w != "" {
		e.fail(scn, what+" ("+w+")", fl, p, "(final)", inputs...)
		return false
	}
	return true
}

// ---------------------------------------------------------------- clone

// cloneScenario: kind = "eager" | "lazy" | "dyn" (source decoded from a buffer) | "built" (source
// built through reflection; src given).
func (e *aliasEnv) cloneScenario(kind string, built proto.Message, capmode, junkmode int) {
	c := e.c
	key := "clone." + kind
	c.Stat(key + ".run")
	fl := "gen"
	if kind == "dyn" || (kind == "built" && e.mt == nil) {
		fl = "dyn"
	}
	flTok := fmt.Sprintf("%s:%s:cap%d:junk-%s", fl, kind, capmode, aliasJunkNames[junkmode])
	var src proto.Message
	var buf []byte
	var expect aliasSnap
	haveExpect := false
	if kind == "built" {
		src = built
	} else {
		o := proto.UnmarshalOptions{AllowPartial: true, NoLazyDecoding: kind == "eager"}
		buf = aliasMkbuf(c, e.b, capmode)
		src = e.fresh(fl)
		if err := o.Unmarshal(buf, src); err != nil {
			e.decodeErr(key, err)
			return
		}
		if kind == "lazy" {
			t := e.fresh(fl)
			if err := o.Unmarshal(aliasMkbuf(c, e.b, 0), t); err != nil {
				e.decodeErr(key, err)
				return
			}
			if n := aliasLazyPending(src); n > 0 {
				c.Stat(key + ".src_lazy_pending_before_clone")
			}
			expect = aliasSnapOf(t)
			haveExpect = true
		}
	}
	m2 := proto.Clone(src)
	if kind == "lazy" {
		if n := aliasLazyPending(src); n > 0 {
			c.Stat(key + ".src_lazy_pending_after_clone")
		}
		if n := aliasLazyPending(m2); n > 0 {
			c.Stat(key + ".clone_has_lazy_pending")
		}
	}
	var sSrc, sClone aliasSnap
	if buf != nil && kind == "lazy" {
		// the source has not been observed yet: overwrite its input buffer first
		e.junk(buf, junkmode)
		sClone = aliasSnapOf(m2)
		sSrc = aliasSnapOf(src)
	} else {
		sSrc = aliasSnapOf(src)
		sClone = aliasSnapOf(m2)
		if buf != nil {
			e.junk(buf, junkmode)
			if w, p := aliasDiff(sSrc, aliasSnapOf(src)); w != "" {
				e.fail("clone", "the source changed after its input buffer was overwritten ("+w+")", flTok, p, "overwrite-input", e.b)
				return
			}
			if w, p := aliasDiff(sClone, aliasSnapOf(m2)); w != "" {
				e.fail("clone", "the clone changed after the input buffer of its source was overwritten ("+w+")", flTok, p, "overwrite-input", e.b)
				return
			}
		}
	}
	if haveExpect {
		if w, p := aliasDiff(expect, sClone); w != "" {
			e.fail("clone", "the clone of a lazily decoded source differs from the twin decoded from an untouched buffer, after the source's input buffer was overwritten ("+w+")", flTok, p, "overwrite-input", e.b)
			return
		}
		if w, p := aliasDiff(expect, sSrc); w != "" {
			e.fail("clone", "the lazily decoded source differs from its untouched twin after Clone and overwriting its input buffer ("+w+")", flTok, p, "overwrite-input", e.b)
			return
		}
	}
	if w, p := aliasDiffToks(sSrc.toks, sClone.toks); w != "" {
		e.fail("clone", "the clone differs from its source right after Clone ("+w+")", flTok, p, "clone", e.b)
		return
	}
	// mutate the clone, the source must stay
	if !e.mutateChecked("clone", flTok+":mutate-clone", "the source changed when its clone was mutated", m2, src, sSrc, 150, e.b) {
		return
	}
	// a second clone; mutate the source, the clone must stay
	m3 := proto.Clone(src)
	s3 := aliasSnapOf(m3)
	if w, p := aliasDiffToks(sSrc.toks, s3.toks); w != "" {
		e.fail("clone", "the second clone differs from its source ("+w+")", flTok, p, "clone", e.b)
		return
	}
	if !e.mutateChecked("clone", flTok+":mutate-source", "the clone changed when its source was mutated", src, m3, s3, 150, e.b) {
		return
	}
	c.Stat(key + ".ok")
}

// ---------------------------------------------------------------- merge

func (e *aliasEnv) mergeScenario(dfl, sfl string, pre, reverse bool, capmode, junkmode int) {
	c := e.c
	key := fmt.Sprintf("merge.%s<-%s", dfl, sfl)
	if pre {
		key += ".pre"
	} else {
		key += ".empty"
	}
	if reverse {
		key += ".mutate-dst"
	} else {
		key += ".mutate-src"
	}
	c.Stat(key + ".run")
	flTok := fmt.Sprintf("%s:cap%d:junk-%s", key[len("merge."):], capmode, aliasJunkNames[junkmode])
	o := proto.UnmarshalOptions{AllowPartial: true}
	build := func(capmode int) (dst, src proto.Message, bufs [][]byte, ok bool) {
		sbuf := aliasMkbuf(c, e.b, capmode)
		bufs = append(bufs, sbuf)
		src = e.fresh(sfl)
		if err := o.Unmarshal(sbuf, src); err != nil {
			e.decodeErr(key, err)
			return nil, nil, nil, false
		}
		dst = e.fresh(dfl)
		if pre {
			dbuf := aliasMkbuf(c, e.other, capmode)
			bufs = append(bufs, dbuf)
			if err := o.Unmarshal(dbuf, dst); err != nil {
				e.decodeErr(key, err)
				return nil, nil, nil, false
			}
		}
		return dst, src, bufs, true
	}
	dst, src, bufs, ok := build(capmode)
	if !ok {
		return
	}
	tdst, tsrc, _, ok := build(0)
	if !ok {
		return
	}
	if e.lazy {
		if sfl == "gen" && aliasLazyPending(src) > 0 {
			c.Stat(key + ".src_lazy_pending")
		}
		if dfl == "gen" && pre && aliasLazyPending(dst) > 0 {
			c.Stat(key + ".dst_lazy_pending")
		}
	}
	proto.Merge(dst, src)
	proto.Merge(tdst, tsrc)
	for _, b := range bufs {
		e.junk(b, junkmode)
	}
	sDst, sSrc := aliasSnapOf(dst), aliasSnapOf(src)
	if w, p := aliasDiff(aliasSnapOf(tdst), sDst); w != "" {
		e.fail("merge", "dst differs from its twin (built from untouched buffers) after the input buffers were overwritten ("+w+")", flTok, p, "overwrite-input", e.b, e.other)
		return
	}
	if w, p := aliasDiff(aliasSnapOf(tsrc), sSrc); w != "" {
		e.fail("merge", "src differs from its twin (built from untouched buffers) after Merge and overwriting the input buffers ("+w+")", flTok, p, "overwrite-input", e.b, e.other)
		return
	}
	if !reverse {
		if !e.mutateChecked("merge", flTok, "dst changed when src was mutated after Merge", src, dst, sDst, 150, e.b, e.other) {
			return
		}
	} else {
		if !e.mutateChecked("merge", flTok, "src changed when dst was mutated after Merge", dst, src, sSrc, 150, e.b, e.other) {
			return
		}
	}
	c.Stat(key + ".ok")
}

// ---------------------------------------------------------------- protodelim

// aliasSliceReader reads from a slice it does not own, in short chunks (no ByteReader: it is
// wrapped in a bufio.Reader).
type aliasSliceReader struct {
	data  []byte
	pos   int
	chunk int
}

func (r *aliasSliceReader) Read(p []byte) (int, error) {
	if r.pos >= len(r.data) {
		return 0, io.EOF
	}
	n := len(p)
	if r.chunk > 0 && n > r.chunk {
		n = r.chunk
	}
	if n > len(r.data)-r.pos {
		n = len(r.data) - r.pos
	}
	copy(p, r.data[r.pos:r.pos+n])
	r.pos += n
	return n, nil
}

// aliasEvilReader is a protodelim.Reader that remembers every slice handed to Read so that the
// harness can scribble on them later (a reader may legally reuse the memory it was given only
// during the call; retaining it shows whether the decoder kept pointing into that memory).
type aliasEvilReader struct {
	data     []byte
	pos      int
	retained [][]byte
}

func (r *aliasEvilReader) ReadByte() (byte, error) {
	if r.pos >= len(r.data) {
		return 0, io.EOF
	}
	b := r.data[r.pos]
	r.pos++
	return b, nil
}

func (r *aliasEvilReader) Read(p []byte) (int, error) {
	if r.pos >= len(r.data) {
		return 0, io.EOF
	}
	r.retained = append(r.retained, p[:len(p):len(p)])
	n := copy(p, r.data[r.pos:])
	r.pos += n
	return n, nil
}

type aliasJunkReader struct{ v byte }

func (r *aliasJunkReader) Read(p []byte) (int, error) {
	for i := range p {
		p[i] = r.v
	}
	return len(p), nil
}

var aliasDelimKinds = []string{"bufio16", "bufio64", "bufio4096", "evil", "bytes.Reader"}

func (e *aliasEnv) delimScenario(fl string, kind string, junkmode int, withMax bool) {
	c := e.c
	key := "delim." + kind + "." + fl
	c.Stat(key + ".run")
	flTok := fmt.Sprintf("%s:%s:junk-%s:max%v", fl, kind, aliasJunkNames[junkmode], withMax)
	// 2-4 messages
	encs := [][]byte{e.b, e.other}
	for k := c.Intn(3); k > 0; k-- {
		if c.Bool() {
			encs = append(encs, e.b)
		} else {
			encs = append(encs, e.other)
		}
	}
	var stream bytes.Buffer
	mo := protodelim.MarshalOptions{MarshalOptions: proto.MarshalOptions{Deterministic: true, AllowPartial: true}}
	uo := proto.UnmarshalOptions{AllowPartial: true}
	var twins []proto.Message
	for _, enc := range encs {
		w := e.fresh(fl)
		if err := uo.Unmarshal(append([]byte(nil), enc...), w); err != nil {
			e.decodeErr(key, err)
			return
		}
		before := stream.Len()
		if _, err := mo.MarshalTo(&stream, w); err != nil {
			e.decodeErr(key, err)
			return
		}
		// twin: decoded the same way from a private copy of exactly the bytes written
		rec := append([]byte(nil), stream.Bytes()[before:]...)
		_, n := protowire.ConsumeVarint(rec)
		t := e.fresh(fl)
		if err := aliasOK(proto.Unmarshal(rec[n:], t)); err != nil {
			e.decodeErr(key, err)
			return
		}
		twins = append(twins, t)
	}
	own := aliasMkbuf(c, stream.Bytes(), 1)
	var rd protodelim.Reader
	var br *bufio.Reader
	var evil *aliasEvilReader
	switch kind {
	case "bufio16":
		br = bufio.NewReaderSize(&aliasSliceReader{data: own, chunk: 1 + c.Intn(40)}, 16)
		rd = br
	case "bufio64":
		br = bufio.NewReaderSize(&aliasSliceReader{data: own, chunk: c.Intn(100)}, 64)
		rd = br
	case "bufio4096":
		br = bufio.NewReaderSize(&aliasSliceReader{data: own}, 4096)
		rd = br
	case "evil":
		evil = &aliasEvilReader{data: own}
		rd = evil
	default:
		rd = bytes.NewReader(own)
	}
	o := protodelim.UnmarshalOptions{}
	if withMax {
		o.MaxSize = int64(len(own)) + 10
	}
	lazyV := e.lazy && fl == "gen"
	var msgs []proto.Message
	var pres []aliasSnap
	var preND [][]string
	for i := range encs {
		m := e.fresh(fl)
		if err := aliasOK(o.UnmarshalFrom(rd, m)); err != nil {
			e.fail("delim", "UnmarshalFrom failed on a well-formed stream: "+err.Error(), flTok, "-", fmt.Sprintf("read#%d", i), own)
			return
		}
		msgs = append(msgs, m)
		if lazyV {
			if aliasLazyPending(m) > 0 {
				c.Stat(key + ".msgs_with_lazy_pending")
			}
			preND = append(preND, e.dumpOf(aliasND(m)))
			pres = append(pres, aliasSnap{})
		} else {
			pres = append(pres, aliasSnapOf(m))
		}
	}
	if err := o.UnmarshalFrom(rd, e.fresh(fl)); err != io.EOF {
		e.fail("delim", fmt.Sprintf("expected io.EOF at the end of the stream, got %v", err), flTok, "-", "read-eof", own)
		return
	}
	// disturb everything the reader side ever owned
	e.junk(own, junkmode)
	if br != nil {
		br.Reset(&aliasJunkReader{v: byte(0xa5 + junkmode)})
		br.Peek(br.Size())
		br.Reset(&aliasJunkReader{v: byte(0x11 * junkmode)})
		br.Peek(br.Size())
	}
	if evil != nil {
		c.StatN(key+".retained_slices", len(evil.retained))
		for _, p := range evil.retained {
			e.junk(p, junkmode)
		}
	}
	for i, m := range msgs {
		op := fmt.Sprintf("message#%d-of-%d", i, len(msgs))
		if lazyV {
			if w, p := aliasDiffToks(preND[i], e.dumpOf(aliasND(m))); w != "" {
				e.fail("delim", "re-marshal of a still-lazy message read from the stream changed after the reader's memory was overwritten ("+w+")", flTok, p, op, own)
				return
			}
		} else if w, p := aliasDiff(pres[i], aliasSnapOf(m)); w != "" {
			e.fail("delim", "a message read from the stream changed after the reader's memory was overwritten ("+w+")", flTok, p, op, own)
			return
		}
		if w, p := aliasDiff(aliasSnapOf(twins[i]), aliasSnapOf(m)); w != "" {
			e.fail("delim", "a message read from the stream differs from its twin decoded from untouched memory ("+w+")", flTok, p, op, own)
			return
		}
	}
	c.StatN(key+".messages", len(msgs))
	c.Stat(key + ".ok")
}

// ---------------------------------------------------------------- driver

func aliasGoHasLazyInfo(mt protoreflect.MessageType) bool {
	t := reflect.TypeOf(mt.New().Interface())
	if t.Kind() != reflect.Ptr || t.Elem().Kind() != reflect.Struct {
		return false
	}
	_, ok := t.Elem().FieldByName("XXX_lazyUnmarshalInfo")
	return ok
}

func aliasHasBytesField(md protoreflect.MessageDescriptor) bool {
	fds := md.Fields()
	for i := 0; i < fds.Len(); i++ {
		fd := fds.Get(i)
		if fd.IsMap() {
			fd = fd.MapValue()
		}
		if fd.Kind() == protoreflect.BytesKind {
			return true
		}
	}
	for _, xd := range msgExtensionsOf(md) {
		if xd.Kind() == protoreflect.BytesKind {
			return true
		}
	}
	return false
}

func aliasReachesBytes(md protoreflect.MessageDescriptor, seen map[protoreflect.FullName]bool) bool {
	if seen[md.FullName()] {
		return false
	}
	seen[md.FullName()] = true
	if aliasHasBytesField(md) {
		return true
	}
	fds := md.Fields()
	for i := 0; i < fds.Len(); i++ {
		fd := fds.Get(i)
		if fd.IsMap() {
			fd = fd.MapValue()
		}
		if sub := fd.Message(); sub != nil && aliasReachesBytes(sub, seen) {
			return true
		}
	}
	return false
}

// aliasReachesMsgExt: a message-typed extension is registered for md or a message reachable from
// it (such extensions are decoded lazily in builds with -tags protolegacy).
func aliasReachesMsgExt(md protoreflect.MessageDescriptor, seen map[protoreflect.FullName]bool) bool {
	if seen[md.FullName()] {
		return false
	}
	seen[md.FullName()] = true
	for _, xd := range msgExtensionsOf(md) {
		if xd.Message() != nil {
			return true
		}
	}
	fds := md.Fields()
	for i := 0; i < fds.Len(); i++ {
		fd := fds.Get(i)
		if fd.IsMap() {
			fd = fd.MapValue()
		}
		if sub := fd.Message(); sub != nil && aliasReachesMsgExt(sub, seen) {
			return true
		}
	}
	return false
}

func (e *aliasEnv) runAll() {
	c := e.c
	i := e.iter
	// content statistics
	var f aliasFeat
	aliasFeatures(e.built.ProtoReflect(), &f, 0)
	c.Stat("content.messages")
	c.StatN("content.values", f.values)
	c.StatN("content.input_bytes", len(e.b))
	stat := func(k string, n int) {
		if n > 0 {
			c.Stat("content.msgs_with_" + k)
			c.StatN("content.n_"+k, n)
		}
	}
	stat("bytes_singular", f.bytesSingular)
	stat("bytes_oneof", f.bytesOneof)
	stat("bytes_list_elems", f.bytesList)
	stat("bytes_map_values", f.bytesMap)
	stat("bytes_extension", f.bytesExt)
	stat("strings", f.strings)
	stat("unknown_fields", f.unknown)
	stat("extensions", f.exts)
	stat("lazy_fields_populated", f.lazyFields)
	stat("submessages", f.msgs-1)
	if e.lazy {
		c.Stat("content.msgs_of_lazy_capable_type")
	}
	if len(e.b) == 0 {
		c.Stat("content.empty_encoding")
	}

	// 1. decode, every variant
	for k := range aliasVars {
		v := &aliasVars[k]
		if v.fl == "gen" && e.mt == nil {
			continue
		}
		capmode, junkmode := c.Intn(2), c.Intn(4)
		e.guard("decode", v.fl+":"+v.name, func() { e.decodeVariant(v, capmode, junkmode) })
	}
	// 1b. reverse direction: one generated and one dynamic variant
	{
		var gens, dyns []*aliasVar
		for k := range aliasVars {
			v := &aliasVars[k]
			if v.fl == "gen" && e.mt != nil {
				gens = append(gens, v)
			}
			if v.fl == "dyn" {
				dyns = append(dyns, v)
			}
		}
		if len(gens) > 0 {
			v := gens[c.Intn(len(gens))]
			capmode := c.Intn(2)
			e.guard("decode-rev", v.fl+":"+v.name, func() { e.decodeRev(v, capmode) })
		}
		if e.mt == nil || i%2 == 0 {
			v := dyns[c.Intn(len(dyns))]
			capmode := c.Intn(2)
			e.guard("decode-rev", v.fl+":"+v.name, func() { e.decodeRev(v, capmode) })
		}
	}
	// 2. clone: one decoded source kind per message (rotating) ...
	{
		kinds := []string{"dyn"}
		if e.mt != nil {
			kinds = []string{"lazy", "eager", "dyn", "lazy"}
			if !e.lazy {
				kinds = []string{"eager", "dyn", "lazy"}
			}
		}
		kind := kinds[i%len(kinds)]
		capmode, junkmode := c.Intn(2), c.Intn(4)
		e.guard("clone", kind, func() { e.cloneScenario(kind, nil, capmode, junkmode) })
	}
	// 3. merge: one forward and one reverse combination per message
	{
		combos := [][2]string{{"dyn", "dyn"}}
		if e.mt != nil {
			combos = [][2]string{{"gen", "gen"}, {"dyn", "dyn"}, {"gen", "dyn"}, {"dyn", "gen"}, {"gen", "gen"}}
		}
		for r := 0; r < 2; r++ {
			cb := combos[c.Intn(len(combos))]
			pre := c.Bool()
			capmode, junkmode := c.Intn(2), c.Intn(4)
			rev := r == 1
			e.guard("merge", cb[0]+"<-"+cb[1], func() { e.mergeScenario(cb[0], cb[1], pre, rev, capmode, junkmode) })
		}
	}
	// 4. protodelim: one reader kind per message
	{
		kind := aliasDelimKinds[i%len(aliasDelimKinds)]
		fls := e.flavours()
		fl := fls[(i/len(aliasDelimKinds))%len(fls)]
		if e.lazy && i%3 != 0 {
			fl = "gen"
		}
		junkmode := c.Intn(4)
		withMax := c.Intn(3) == 0
		e.guard("delim", fl+":"+kind, func() { e.delimScenario(fl, kind, junkmode, withMax) })
	}
	// 2b. ... and the message built through reflection itself (destroys it: last)
	e.guard("clone", "built", func() { e.cloneScenario("built", e.built, 0, 0) })
}

func famAlias(c *Ctx) {
	var all, lazyCore, lazyReach, bytesRich, extTypes []protoreflect.MessageType
	for _, mt := range msgAllTypes() {
		md := mt.Descriptor()
		if msgLegacyReach(md) {
			continue
		}
		if strings.Contains(fmt.Sprintf("%T", mt.New().Interface()), "messageIfaceWrapper") {
			continue
		}
		all = append(all, mt)
		switch {
		case msgHasLazy(md) && aliasGoHasLazyInfo(mt):
			lazyCore = append(lazyCore, mt)
		case msgHasLazy(md):
			lazyReach = append(lazyReach, mt)
		}
		if aliasHasBytesField(md) {
			bytesRich = append(bytesRich, mt)
		}
		if len(msgExtensionsOf(md)) > 0 {
			extTypes = append(extTypes, mt)
		}
	}
	c.StatN("types.with_extensions", len(extTypes))
	c.StatN("types.all", len(all))
	c.StatN("types.lazy_core(struct_has_lazy_info)", len(lazyCore))
	c.StatN("types.lazy_reach_only", len(lazyReach))
	c.StatN("types.with_bytes_field", len(bytesRich))
	var names []string
	for _, mt := range lazyCore {
		names = append(names, string(mt.Descriptor().FullName()))
	}
	c.Sample("lazy core types: " + strings.Join(names, " "))

	nsch := c.N/6 + 6
	rnd := msgRandomSchemas(c, nsch)
	// prefer random schemas that contain a bytes field somewhere at the top
	var rndBytes []protoreflect.MessageDescriptor
	for _, md := range rnd {
		if aliasReachesBytes(md, map[protoreflect.FullName]bool{}) {
			rndBytes = append(rndBytes, md)
		}
	}
	c.StatN("types.random_roots", len(rnd))
	c.StatN("types.random_roots_with_bytes", len(rndBytes))

	for i := 0; i < c.N; i++ {
		var mt protoreflect.MessageType
		var md protoreflect.MessageDescriptor
		class := ""
		switch sel := i % 8; {
		case sel == 0 || sel == 4 || sel == 6:
			// lazy corpus: fixed core list first (round robin), then the types that only reach one
			if k := i / 8 * 3; sel == 6 && len(lazyReach) > 0 {
				mt = lazyReach[(k+c.Intn(3))%len(lazyReach)]
				class = "lazy-reach"
			} else if len(lazyCore) > 0 {
				mt = lazyCore[(i/4)%len(lazyCore)]
				class = "lazy-core"
			}
		case sel == 1:
			if len(bytesRich) > 0 {
				mt = bytesRich[c.Intn(len(bytesRich))]
				class = "bytes-rich"
			}
		case sel == 5:
			if len(extTypes) > 0 {
				mt = extTypes[c.Intn(len(extTypes))]
				class = "extendable"
			}
		case sel == 2:
			mt = all[c.Intn(len(all))]
			class = "any"
		default:
			if len(rndBytes) > 0 && c.Intn(3) != 0 {
				md = rndBytes[c.Intn(len(rndBytes))]
			} else if len(rnd) > 0 {
				md = rnd[c.Intn(len(rnd))]
			}
			class = "random-schema"
		}
		if mt == nil && md == nil {
			mt = all[c.Intn(len(all))]
			class = "any"
		}
		if mt != nil {
			md = mt.Descriptor()
		}
		c.Stat("class." + class)
		switch {
		case mt == nil:
			c.Stat("api.dynamicpb-only")
		case strings.HasPrefix(string(md.FullName()), "opaque.") || aliasGoHasLazyInfo(mt):
			c.Stat("api.opaque")
		case strings.HasPrefix(string(md.FullName()), "hybrid."):
			c.Stat("api.hybrid")
		default:
			c.Stat("api.open(or unmarked)")
		}
		e := &aliasEnv{c: c, md: md, mt: mt, name: string(md.FullName()), iter: i}
		e.lazy = mt != nil && (msgHasLazy(md) || (flags.LazyUnmarshalExtensions && aliasReachesMsgExt(md, map[protoreflect.FullName]bool{})))
		okBuild := false
		e.guard("build", class, func() {
			mk := func() (proto.Message, []byte) {
				var m proto.Message
				if mt != nil {
					m = mt.New().Interface()
				} else {
					m = dynamicpb.NewMessage(md)
				}
				aliasFill(c, m.ProtoReflect())
				return m, aliasDet(m)
			}
			for try := 0; ; try++ {
				e.built, e.b = mk()
				if !e.lazy || !msgF1Class(md, e.b) {
					break
				}
				c.Stat("build.f1_class_input_regenerated")
				if try > 6 {
					c.Stat("build.f1_class_input_gave_up(message skipped)")
					return
				}
			}
			for try := 0; ; try++ {
				_, e.other = mk()
				if !e.lazy || !msgF1Class(md, e.other) {
					break
				}
				c.Stat("build.f1_class_input_regenerated")
				if try > 6 {
					c.Stat("build.f1_class_input_gave_up(message skipped)")
					return
				}
			}
			okBuild = true
		})
		if !okBuild {
			continue
		}
		if bytes.HasPrefix(e.b, []byte("marshal error")) || bytes.HasPrefix(e.other, []byte("marshal error")) {
			c.Stat("build.marshal_error")
			continue
		}
		if i < 3 {
			c.Sample(fmt.Sprintf("message %d type=%s class=%s len=%d input=%s", i, e.name, class, len(e.b), aliasTrunc(HexB(e.b))))
		}
		e.runAll()
		// one (uncompared) case line per message, so that the evidence counts what was evaluated
		c.Case("alias", "msg", []string{e.name, class, HexB(e.b)}, []string{"checked"})
	}
}
