//go:build verif

package main

import (
	"google.golang.org/protobuf/reflect/protoreflect"
	"google.golang.org/protobuf/types/descriptorpb"
)

func convCorpus(c *Ctx) {}

func convEmitModelCases(c *Ctx, cs *convCase, fd protoreflect.FileDescriptor, norm *descriptorpb.FileDescriptorProto) {
}
