//go:build verif

package main

// family "conv": token encoding of descriptor protos (the AST of Desc/ConvertModel.v), the
// model-level observation of a built descriptor, and the C lines:
//
//	newfile   <env> <file>            | ok <snapshot tokens> / e1 / e2      protodesc.NewFile
//	fdbuild   <env> <file>            | ok <snapshot tokens> / e3           filedesc.Builder
//	roundtrip <env> <file>            | ok <file tokens> / e1 / e2          ToFileDescriptorProto(NewFile(p))
//	normalize <env> <file>            | <file tokens>                       (same observation, model runs [normalize])
//	resolve   <scope> <ref> <want> <locals> <env> | found <full> / wrongkind <full> / notfound / notimported / invalid
//	fullnames <file>                  | <full names in declaration order>
//	jsonname  <name>                  | <camel-cased name>
//	names     <s>                     | Name.IsValid FullName.IsValid Parent Name

import (
	"fmt"
	"regexp"
	"sort"
	"strings"

	"google.golang.org/protobuf/encoding/prototext"
	"google.golang.org/protobuf/internal/strs"
	"google.golang.org/protobuf/proto"
	"google.golang.org/protobuf/reflect/protodesc"
	"google.golang.org/protobuf/reflect/protoreflect"
	"google.golang.org/protobuf/reflect/protoregistry"
	"google.golang.org/protobuf/types/descriptorpb"
)

type convTW struct{ t []string }

func (w *convTW) add(s ...string) { w.t = append(w.t, s...) }
func (w *convTW) str(s string)    { w.add(HexB([]byte(s))) }
func (w *convTW) optStr(s *string) {
	if s == nil {
		w.add("-")
	} else {
		w.str(*s)
	}
}
func (w *convTW) num(v int64) { w.add(HexZ(v)) }
func (w *convTW) count(n int)  { w.add(HexN(uint64(n))) }
func (w *convTW) optBool(b *bool) {
	switch {
	case b == nil:
		w.add("-")
	case *b:
		w.add("1")
	default:
		w.add("0")
	}
}
func (w *convTW) bool(b bool) { w.add(Tok(b)) }

func convRestBytes(m proto.Message) string { return HexB(convMarshal(m)) }

func (w *convTW) feat(fs *descriptorpb.FeatureSet) {
	if fs == nil {
		w.add("-")
		return
	}
	w.add("F")
	on := func(set bool, v int32) {
		if !set {
			w.add("-")
		} else {
			w.num(int64(v))
		}
	}
	on(fs.FieldPresence != nil, int32(fs.GetFieldPresence()))
	on(fs.EnumType != nil, int32(fs.GetEnumType()))
	on(fs.RepeatedFieldEncoding != nil, int32(fs.GetRepeatedFieldEncoding()))
	on(fs.Utf8Validation != nil, int32(fs.GetUtf8Validation()))
	on(fs.MessageEncoding != nil, int32(fs.GetMessageEncoding()))
	on(fs.JsonFormat != nil, int32(fs.GetJsonFormat()))
	r := proto.Clone(fs).(*descriptorpb.FeatureSet)
	r.FieldPresence, r.EnumType, r.RepeatedFieldEncoding, r.Utf8Validation, r.MessageEncoding, r.JsonFormat = nil, nil, nil, nil, nil, nil
	w.add(convRestBytes(r))
}

func (w *convTW) fieldOpts(o *descriptorpb.FieldOptions) {
	if o == nil {
		w.add("-")
		return
	}
	w.add("O")
	w.optBool(o.Packed)
	w.optBool(o.Lazy)
	w.feat(o.Features)
	r := proto.Clone(o).(*descriptorpb.FieldOptions)
	r.Packed, r.Lazy, r.Features = nil, nil, nil
	w.add(convRestBytes(r))
}

func (w *convTW) msgOpts(o *descriptorpb.MessageOptions) {
	if o == nil {
		w.add("-")
		return
	}
	w.add("O")
	w.optBool(o.MapEntry)
	w.feat(o.Features)
	r := proto.Clone(o).(*descriptorpb.MessageOptions)
	r.MapEntry, r.Features = nil, nil
	w.add(convRestBytes(r))
}

// genOpts: options messages of which only the features are modelled.
func (w *convTW) genOpts(present bool, fs *descriptorpb.FeatureSet, rest func() proto.Message) {
	if !present {
		w.add("-")
		return
	}
	w.add("O")
	w.feat(fs)
	w.add(convRestBytes(rest()))
}

func (w *convTW) opaque(present bool, m proto.Message) {
	if !present {
		w.add("-")
		return
	}
	w.add(convRestBytes(m))
}

func (w *convTW) field(f *descriptorpb.FieldDescriptorProto) {
	w.add("f")
	w.str(f.GetName())
	w.num(int64(f.GetNumber()))
	w.num(int64(f.GetLabel()))
	if f.Type == nil {
		w.add("-")
	} else {
		w.num(int64(f.GetType()))
	}
	w.optStr(f.TypeName)
	w.optStr(f.Extendee)
	w.optStr(f.DefaultValue)
	if f.OneofIndex == nil {
		w.add("-")
	} else {
		w.num(int64(f.GetOneofIndex()))
	}
	w.optStr(f.JsonName)
	w.optBool(f.Proto3Optional)
	w.fieldOpts(f.Options)
}

func (w *convTW) enum(e *descriptorpb.EnumDescriptorProto) {
	w.add("e")
	w.str(e.GetName())
	w.count(len(e.Value))
	for _, v := range e.Value {
		w.add("v")
		w.str(v.GetName())
		w.num(int64(v.GetNumber()))
		w.opaque(v.Options != nil, v.Options)
	}
	w.count(len(e.ReservedRange))
	for _, r := range e.ReservedRange {
		w.num(int64(r.GetStart()))
		w.num(int64(r.GetEnd()))
	}
	w.count(len(e.ReservedName))
	for _, n := range e.ReservedName {
		w.str(n)
	}
	w.genOpts(e.Options != nil, e.GetOptions().GetFeatures(), func() proto.Message {
		r := proto.Clone(e.Options).(*descriptorpb.EnumOptions)
		r.Features = nil
		return r
	})
	w.num(int64(e.GetVisibility()))
}

func (w *convTW) msg(m *descriptorpb.DescriptorProto) {
	w.add("m")
	w.str(m.GetName())
	w.count(len(m.Field))
	for _, f := range m.Field {
		w.field(f)
	}
	w.count(len(m.Extension))
	for _, f := range m.Extension {
		w.field(f)
	}
	w.count(len(m.NestedType))
	for _, n := range m.NestedType {
		w.msg(n)
	}
	w.count(len(m.EnumType))
	for _, e := range m.EnumType {
		w.enum(e)
	}
	w.count(len(m.ExtensionRange))
	for _, r := range m.ExtensionRange {
		w.num(int64(r.GetStart()))
		w.num(int64(r.GetEnd()))
		w.opaque(r.Options != nil, r.Options)
	}
	w.count(len(m.OneofDecl))
	for _, o := range m.OneofDecl {
		w.add("o")
		w.str(o.GetName())
		w.genOpts(o.Options != nil, o.GetOptions().GetFeatures(), func() proto.Message {
			r := proto.Clone(o.Options).(*descriptorpb.OneofOptions)
			r.Features = nil
			return r
		})
	}
	w.count(len(m.ReservedRange))
	for _, r := range m.ReservedRange {
		w.num(int64(r.GetStart()))
		w.num(int64(r.GetEnd()))
	}
	w.count(len(m.ReservedName))
	for _, n := range m.ReservedName {
		w.str(n)
	}
	w.msgOpts(m.Options)
	w.num(int64(m.GetVisibility()))
}

func (w *convTW) file(p *descriptorpb.FileDescriptorProto) {
	w.add("P")
	w.optStr(p.Name)
	w.optStr(p.Package)
	w.optStr(p.Syntax)
	if p.Edition == nil {
		w.add("-")
	} else {
		w.num(int64(p.GetEdition()))
	}
	w.count(len(p.Dependency))
	for _, d := range p.Dependency {
		w.str(d)
	}
	w.count(len(p.PublicDependency))
	for _, d := range p.PublicDependency {
		w.num(int64(d))
	}
	w.count(len(p.MessageType))
	for _, m := range p.MessageType {
		w.msg(m)
	}
	w.count(len(p.EnumType))
	for _, e := range p.EnumType {
		w.enum(e)
	}
	w.count(len(p.Extension))
	for _, f := range p.Extension {
		w.field(f)
	}
	w.count(len(p.Service))
	for _, s := range p.Service {
		w.add("s")
		w.str(s.GetName())
		w.count(len(s.Method))
		for _, m := range s.Method {
			w.str(m.GetName())
		}
		w.opaque(s.Options != nil, s.Options)
	}
	w.genOpts(p.Options != nil, p.GetOptions().GetFeatures(), func() proto.Message {
		r := proto.Clone(p.Options).(*descriptorpb.FileOptions)
		r.Features = nil
		return r
	})
}

func convFileTokens(p *descriptorpb.FileDescriptorProto) []string {
	w := &convTW{}
	w.file(p)
	return w.t
}

// convEnvTokens: the part of the resolver that lookups of this file can reach: for every
// reference and every enclosing scope level, the candidate name if the resolver knows it.
func convEnvTokens(p *descriptorpb.FileDescriptorProto, env *convEnv, reg protodesc.Resolver) []string {
	cands := map[string]bool{}
	addRef := func(scope string, ref *string) {
		if ref == nil {
			return
		}
		r := strings.TrimPrefix(*ref, ".")
		for s := scope; ; s = convParent(s) {
			cands[convJoin(s, r)] = true
			if s == "" {
				break
			}
		}
		cands[r] = true
	}
	var msg func(scope string, m *descriptorpb.DescriptorProto)
	msg = func(scope string, m *descriptorpb.DescriptorProto) {
		full := convJoin(scope, m.GetName())
		for _, f := range m.Field {
			addRef(full, f.TypeName)
		}
		for _, f := range m.Extension {
			addRef(full, f.TypeName)
			addRef(full, f.Extendee)
		}
		for _, n := range m.NestedType {
			msg(full, n)
		}
	}
	for _, m := range p.MessageType {
		msg(p.GetPackage(), m)
	}
	for _, f := range p.Extension {
		addRef(p.GetPackage(), f.TypeName)
		addRef(p.GetPackage(), f.Extendee)
	}
	var names []string
	for n := range cands {
		if _, ok := env.remote[n]; ok {
			names = append(names, n)
		}
	}
	sort.Strings(names)
	w := &convTW{}
	w.count(len(names))
	for _, n := range names {
		r := env.remote[n]
		me := false
		if r.kind == convKindMsg {
			if d, err := reg.FindDescriptorByName(protoreflect.FullName(n)); err == nil {
				if md, ok := d.(protoreflect.MessageDescriptor); ok {
					me = md.IsMapEntry()
				}
			}
		}
		w.str(n)
		w.num(int64(r.kind))
		w.bool(r.imported)
		w.bool(me)
	}
	return w.t
}

// ---------------------------------------------------------------- model-level observation

func (w *convTW) obsRef(d protoreflect.Descriptor) {
	if d == nil {
		w.add("-")
		return
	}
	w.str(string(d.FullName()))
}

func (w *convTW) obsField(fd protoreflect.FieldDescriptor) {
	w.add("f")
	w.str(string(fd.FullName()))
	w.num(int64(fd.Number()))
	w.num(int64(fd.Cardinality()))
	w.num(int64(fd.Kind()))
	w.bool(fd.HasJSONName())
	w.str(fd.JSONName())
	w.bool(fd.HasPresence())
	w.bool(fd.IsPacked())
	w.bool(fd.IsList())
	w.bool(fd.IsMap())
	w.bool(fd.HasOptionalKeyword())
	w.bool(fd.(interface{ IsLazy() bool }).IsLazy())
	w.bool(fd.HasDefault())
	w.obsRef(fd.ContainingOneof())
	w.obsRef(fd.ContainingMessage())
	if m := fd.Message(); m != nil {
		w.str(string(m.FullName()))
		w.bool(m.IsMapEntry())
		w.bool(m.IsPlaceholder())
	} else {
		w.add("-", "0", "0")
	}
	if e := fd.Enum(); e != nil {
		w.str(string(e.FullName()))
		w.bool(e.IsPlaceholder())
	} else {
		w.add("-", "0")
	}
	w.bool(fd.IsExtension())
}

func (w *convTW) obsEnum(ed protoreflect.EnumDescriptor) {
	w.add("E")
	w.str(string(ed.FullName()))
	w.bool(ed.IsClosed())
	w.count(ed.Values().Len())
	for i := 0; i < ed.Values().Len(); i++ {
		v := ed.Values().Get(i)
		w.add("V")
		w.str(string(v.FullName()))
		w.num(int64(v.Number()))
	}
	w.count(ed.ReservedRanges().Len())
	for i := 0; i < ed.ReservedRanges().Len(); i++ {
		r := ed.ReservedRanges().Get(i)
		w.num(int64(r[0]))
		w.num(int64(r[1]))
	}
	w.count(ed.ReservedNames().Len())
	for i := 0; i < ed.ReservedNames().Len(); i++ {
		w.str(string(ed.ReservedNames().Get(i)))
	}
}

func (w *convTW) obsMsg(md protoreflect.MessageDescriptor) {
	w.add("M")
	w.str(string(md.FullName()))
	w.bool(md.IsMapEntry())
	w.count(md.Fields().Len())
	for i := 0; i < md.Fields().Len(); i++ {
		w.obsField(md.Fields().Get(i))
	}
	w.count(md.Oneofs().Len())
	for i := 0; i < md.Oneofs().Len(); i++ {
		o := md.Oneofs().Get(i)
		w.add("o")
		w.str(string(o.FullName()))
		w.bool(o.IsSynthetic())
		w.count(o.Fields().Len())
	}
	w.count(md.Enums().Len())
	for i := 0; i < md.Enums().Len(); i++ {
		w.obsEnum(md.Enums().Get(i))
	}
	w.count(md.Messages().Len())
	for i := 0; i < md.Messages().Len(); i++ {
		w.obsMsg(md.Messages().Get(i))
	}
	w.count(md.Extensions().Len())
	for i := 0; i < md.Extensions().Len(); i++ {
		w.obsField(md.Extensions().Get(i))
	}
	w.count(md.ExtensionRanges().Len())
	for i := 0; i < md.ExtensionRanges().Len(); i++ {
		r := md.ExtensionRanges().Get(i)
		w.num(int64(r[0]))
		w.num(int64(r[1]))
	}
	w.count(md.ReservedRanges().Len())
	for i := 0; i < md.ReservedRanges().Len(); i++ {
		r := md.ReservedRanges().Get(i)
		w.num(int64(r[0]))
		w.num(int64(r[1]))
	}
	w.count(md.ReservedNames().Len())
	for i := 0; i < md.ReservedNames().Len(); i++ {
		w.str(string(md.ReservedNames().Get(i)))
	}
	w.count(md.RequiredNumbers().Len())
	for i := 0; i < md.RequiredNumbers().Len(); i++ {
		w.num(int64(md.RequiredNumbers().Get(i)))
	}
}

func convObsFile(fd protoreflect.FileDescriptor) (toks []string, err error) {
	defer func() {
		if x := recover(); x != nil {
			toks, err = nil, fmt.Errorf("PANIC: %v", x)
		}
	}()
	w := &convTW{}
	w.add("ok")
	w.str(fd.Path())
	w.str(string(fd.Package()))
	w.num(int64(fd.Syntax()))
	w.num(int64(fd.(interface{ Edition() int32 }).Edition()))
	w.count(fd.Enums().Len())
	for i := 0; i < fd.Enums().Len(); i++ {
		w.obsEnum(fd.Enums().Get(i))
	}
	w.count(fd.Messages().Len())
	for i := 0; i < fd.Messages().Len(); i++ {
		w.obsMsg(fd.Messages().Get(i))
	}
	w.count(fd.Extensions().Len())
	for i := 0; i < fd.Extensions().Len(); i++ {
		w.obsField(fd.Extensions().Get(i))
	}
	w.count(fd.Services().Len())
	for i := 0; i < fd.Services().Len(); i++ {
		s := fd.Services().Get(i)
		w.add("s")
		w.str(string(s.FullName()))
		w.count(s.Methods().Len())
		for j := 0; j < s.Methods().Len(); j++ {
			w.str(string(s.Methods().Get(j).FullName()))
		}
	}
	return w.t, nil
}

// full names in makeBase order
func convFullNames(fd protoreflect.FileDescriptor) []string {
	var out []string
	add := func(d protoreflect.Descriptor) { out = append(out, HexB([]byte(d.FullName()))) }
	var enum func(e protoreflect.EnumDescriptor)
	enum = func(e protoreflect.EnumDescriptor) {
		add(e)
		for i := 0; i < e.Values().Len(); i++ {
			add(e.Values().Get(i))
		}
	}
	var msg func(m protoreflect.MessageDescriptor)
	msg = func(m protoreflect.MessageDescriptor) {
		add(m)
		for i := 0; i < m.Fields().Len(); i++ {
			add(m.Fields().Get(i))
		}
		for i := 0; i < m.Oneofs().Len(); i++ {
			add(m.Oneofs().Get(i))
		}
		for i := 0; i < m.Enums().Len(); i++ {
			enum(m.Enums().Get(i))
		}
		for i := 0; i < m.Messages().Len(); i++ {
			msg(m.Messages().Get(i))
		}
		for i := 0; i < m.Extensions().Len(); i++ {
			add(m.Extensions().Get(i))
		}
	}
	for i := 0; i < fd.Enums().Len(); i++ {
		enum(fd.Enums().Get(i))
	}
	for i := 0; i < fd.Messages().Len(); i++ {
		msg(fd.Messages().Get(i))
	}
	for i := 0; i < fd.Extensions().Len(); i++ {
		add(fd.Extensions().Get(i))
	}
	for i := 0; i < fd.Services().Len(); i++ {
		s := fd.Services().Get(i)
		add(s)
		for j := 0; j < s.Methods().Len(); j++ {
			add(s.Methods().Get(j))
		}
	}
	return out
}

// convModelErr maps a NewFile error to the model's error class; "" = outside the model
// (validation, defaults, imports).
func convModelErr(err error) string {
	switch convErrClass(err) {
	case "already_declared", "invalid_nested_name":
		return "e1"
	case "cannot_resolve_type", "cannot_resolve_extendee", "invalid_oneof_index":
		return "e2"
	}
	return ""
}

// convCanonicalDefaults: the model carries default values as text and the C lines use the
// identity as canonicalisation, so only files whose defaults are already canonical are emitted.
func convHasMethodsOrSourceInfo(p *descriptorpb.FileDescriptorProto) bool { return false }

func convEmitModelCases(c *Ctx, cs *convCase, fd protoreflect.FileDescriptor, norm *descriptorpb.FileDescriptorProto) {
	// the model has no AST slot for these: strip them from the input of the C lines
	p := proto.Clone(cs.p).(*descriptorpb.FileDescriptorProto)
	p.SourceCodeInfo = nil
	p.WeakDependency = nil
	envT := convEnvTokens(p, cs.env, cs.reg)
	fileT := convFileTokens(p)
	in := append(append([]string{}, envT...), fileT...)

	if obs, err := convObsFile(fd); err == nil {
		c.Case("conv", "newfile", in, obs)
	}
	if q, err := convToProto(fd); err == nil {
		q.SourceCodeInfo = nil
		out := append([]string{"ok"}, convFileTokens(q)...)
		c.Case("conv", "roundtrip", in, out)
		c.Case("conv", "normalize", in, out[1:])
	}
	fns := convFullNames(fd)
	c.Case("conv", "fullnames", fileT, append([]string{HexN(uint64(len(fns)))}, fns...))

	// C37: the same resolved records from the raw-descriptor builder (input: absolute names)
	pn := proto.Clone(norm).(*descriptorpb.FileDescriptorProto)
	pn.SourceCodeInfo = nil
	if fdB, err := convBuild(convMarshal(pn), cs.reg, nil); err == nil {
		if obs, err := convObsFile(fdB); err == nil {
			in2 := append(append([]string{}, convEnvTokens(pn, cs.env, cs.reg)...), convFileTokens(pn)...)
			c.Case("conv", "fdbuild", in2, obs)
		}
	}
}

// ---------------------------------------------------------------- resolve probes

var convQuoted = regexp.MustCompile(`resolved "([^"]*)"`)

// convResolveProbe builds a small file realising a random declaration tree and one reference,
// and observes how NewFile resolves that reference.
func convResolveProbe(c *Ctx, idx int) {
	pool := []string{"A", "B", "C", "a"}
	pkgs := []string{"", "p", "A", "p.A", "A.B"}
	reg := new(protoregistry.Files)
	local := map[string]int{}
	// dependency file with a few names, imported or not
	depPkg := pkgs[c.Intn(len(pkgs))]
	dep := &descriptorpb.FileDescriptorProto{Name: proto.String(fmt.Sprintf("conv/r%d/dep.proto", idx))}
	if depPkg != "" {
		dep.Package = proto.String(depPkg)
	}
	depNames := map[string]bool{}
	for i, n := 0, c.Intn(3); i < n; i++ {
		nm := pool[c.Intn(len(pool))]
		if depNames[nm] {
			continue
		}
		depNames[nm] = true
		if c.Intn(3) == 0 {
			dep.EnumType = append(dep.EnumType, &descriptorpb.EnumDescriptorProto{Name: proto.String(nm),
				Value: []*descriptorpb.EnumValueDescriptorProto{{Name: proto.String(nm + "_DEPV"), Number: proto.Int32(0)}}})
		} else {
			m := &descriptorpb.DescriptorProto{Name: proto.String(nm)}
			if c.Bool() {
				m.NestedType = append(m.NestedType, &descriptorpb.DescriptorProto{Name: proto.String(pool[c.Intn(len(pool))])})
			}
			dep.MessageType = append(dep.MessageType, m)
		}
	}
	depFD, err := convNewFile(dep, reg)
	if err != nil {
		return
	}
	if reg.RegisterFile(depFD) != nil {
		return
	}
	imported := c.Intn(4) != 0
	pkg := pkgs[c.Intn(len(pkgs))]
	p := &descriptorpb.FileDescriptorProto{Name: proto.String(fmt.Sprintf("conv/r%d/main.proto", idx))}
	if pkg != "" {
		p.Package = proto.String(pkg)
	}
	if imported {
		p.Dependency = []string{dep.GetName()}
	}
	var scopes []struct {
		full string
		md   *descriptorpb.DescriptorProto
	}
	var gen func(scope string, depth int) *descriptorpb.DescriptorProto
	gen = func(scope string, depth int) *descriptorpb.DescriptorProto {
		var nm string
		for try := 0; ; try++ {
			nm = pool[c.Intn(len(pool))]
			if try > 5 {
				nm = fmt.Sprintf("Z%d", len(local))
			}
			if _, ok := local[convJoin(scope, nm)]; !ok {
				break
			}
		}
		full := convJoin(scope, nm)
		local[full] = convKindMsg
		m := &descriptorpb.DescriptorProto{Name: proto.String(nm)}
		scopes = append(scopes, struct {
			full string
			md   *descriptorpb.DescriptorProto
		}{full, m})
		if depth < 3 {
			for i, n := 0, c.Intn(3); i < n; i++ {
				switch c.Intn(4) {
				case 0: // enum
					en := pool[c.Intn(len(pool))]
					if _, ok := local[convJoin(full, en)]; ok {
						continue
					}
					vn := en + "_V"
					if _, ok := local[convJoin(full, vn)]; ok {
						continue
					}
					local[convJoin(full, en)] = convKindEnum
					local[convJoin(full, vn)] = convKindOther
					m.EnumType = append(m.EnumType, &descriptorpb.EnumDescriptorProto{Name: proto.String(en),
						Value: []*descriptorpb.EnumValueDescriptorProto{{Name: proto.String(vn), Number: proto.Int32(0)}}})
				case 1: // scalar field
					fn := pool[c.Intn(len(pool))]
					if _, ok := local[convJoin(full, fn)]; ok {
						continue
					}
					local[convJoin(full, fn)] = convKindOther
					m.Field = append(m.Field, &descriptorpb.FieldDescriptorProto{Name: proto.String(fn), Number: proto.Int32(int32(10 + len(m.Field))),
						Label: descriptorpb.FieldDescriptorProto_LABEL_OPTIONAL.Enum(), Type: descriptorpb.FieldDescriptorProto_TYPE_INT32.Enum()})
				default:
					m.NestedType = append(m.NestedType, gen(full, depth+1))
				}
			}
		}
		return m
	}
	for i, n := 0, 1+c.Intn(2); i < n; i++ {
		p.MessageType = append(p.MessageType, gen(pkg, 0))
	}
	// the probe field
	sc := scopes[c.Intn(len(scopes))]
	var ref string
	switch c.Intn(10) {
	case 0:
		ref = []string{"", ".", "A..B", "A.", ".A.", "1A", "A.1", "..A", "A b", ".p..A"}[c.Intn(10)]
	default:
		var segs []string
		if c.Intn(3) == 0 && pkg != "" {
			segs = append(segs, strings.Split(pkg, ".")...)
		} else if c.Intn(4) == 0 && depPkg != "" {
			segs = append(segs, strings.Split(depPkg, ".")...)
		}
		for i, n := 0, 1+c.Intn(3); i < n; i++ {
			segs = append(segs, pool[c.Intn(len(pool))])
		}
		if c.Intn(3) == 0 { // a suffix of a real declaration
			var all []string
			for k := range local {
				all = append(all, k)
			}
			sort.Strings(all)
			t := strings.Split(all[c.Intn(len(all))], ".")
			segs = t[c.Intn(len(t)):]
		}
		ref = strings.Join(segs, ".")
		if c.Intn(4) == 0 {
			ref = "." + ref
		}
	}
	wantEnum := c.Intn(4) == 0
	pf := &descriptorpb.FieldDescriptorProto{Name: proto.String("zz"), Number: proto.Int32(1), Label: descriptorpb.FieldDescriptorProto_LABEL_OPTIONAL.Enum(),
		Type: descriptorpb.FieldDescriptorProto_TYPE_MESSAGE.Enum(), TypeName: proto.String(ref)}
	want := convKindMsg
	if wantEnum {
		pf.Type = descriptorpb.FieldDescriptorProto_TYPE_ENUM.Enum()
		want = convKindEnum
	}
	if _, ok := local[convJoin(sc.full, "zz")]; ok {
		return
	}
	local[convJoin(sc.full, "zz")] = convKindOther
	sc.md.Field = append(sc.md.Field, pf)

	fd, err := convNewFile(p, reg)
	var obs []string
	switch {
	case err == nil:
		var got protoreflect.Descriptor
		var walk func(ms protoreflect.MessageDescriptors)
		walk = func(ms protoreflect.MessageDescriptors) {
			for i := 0; i < ms.Len(); i++ {
				m := ms.Get(i)
				if string(m.FullName()) == sc.full {
					f := m.Fields().ByName("zz")
					if wantEnum {
						got = f.Enum()
					} else {
						got = f.Message()
					}
				}
				walk(m.Messages())
			}
		}
		walk(fd.Messages())
		if got == nil {
			return
		}
		obs = []string{"found", HexB([]byte(got.FullName()))}
	case strings.Contains(err.Error(), "invalid name reference"):
		obs = []string{"invalid"}
	case strings.Contains(err.Error(), "is not imported"):
		obs = []string{"notimported"}
	case strings.Contains(err.Error(), "but it is not"):
		m := convQuoted.FindStringSubmatch(err.Error())
		if m == nil {
			return
		}
		obs = []string{"wrongkind", HexB([]byte(m[1]))}
	case strings.Contains(err.Error(), "not found"):
		obs = []string{"notfound"}
	default:
		c.Stat("probe_other_error")
		return
	}
	c.Stat("probe_" + obs[0])
	w := &convTW{}
	w.str(sc.full)
	w.str(ref)
	w.num(int64(want))
	var names []string
	for k := range local {
		names = append(names, k)
	}
	sort.Strings(names)
	w.count(len(names))
	for _, k := range names {
		w.str(k)
		w.num(int64(local[k]))
	}
	rem := map[string]convRemote{}
	convWalkRemote(depFD, imported, rem, nil)
	var rn []string
	for k := range rem {
		rn = append(rn, k)
	}
	sort.Strings(rn)
	w.count(len(rn))
	for _, k := range rn {
		w.str(k)
		w.num(int64(rem[k].kind))
		w.bool(rem[k].imported)
		w.bool(false)
	}
	c.Case("conv", "resolve", w.t, obs)
}

func convNameCases(c *Ctx) {
	alpha := []byte("abAB_09.. -")
	mk := func() string {
		n := c.Intn(9)
		b := make([]byte, n)
		for i := range b {
			b[i] = alpha[c.Intn(len(alpha))]
		}
		return string(b)
	}
	fixed := []string{"", "a", "_", "foo_bar", "foo__bar", "_foo", "foo_", "fooBar", "foo_Bar", "foo_1a", "a.b", ".a", "a.", "a..b", "9a", "a9", "FOO_BAR", "f_o_o", "__", "a_b_c_d"}
	for i := 0; i < 60; i++ {
		s := mk()
		if i < len(fixed) {
			s = fixed[i]
		}
		c.Case("conv", "jsonname", []string{HexB([]byte(s))}, []string{HexB([]byte(strs.JSONCamelCase(s)))})
		fn := protoreflect.FullName(s)
		c.Case("conv", "names", []string{HexB([]byte(s))}, []string{Tok(protoreflect.Name(s).IsValid()), Tok(fn.IsValid()),
			HexB([]byte(fn.Parent())), HexB([]byte(fn.Name()))})
	}
}

// convCorpusFiles: minimal witnesses of the listed findings and boundary schemas (text format).
var convCorpusFiles = []struct{ origin, text string }{
	// regression for FK1 (repaired by 42c075f): enum-level features must be honoured by filedesc too;
	// the linked witness is editionsfuzztest/test2editions.proto (TestAllTypesProto2Editions.NestedEnum)
	{"corpus:fk1-regression", `name:"conv/c/fk1.proto" package:"c.fk1" syntax:"editions" edition:EDITION_2023
	  enum_type:{name:"E" value:{name:"A" number:1} options:{features:{enum_type:CLOSED}}}
	  message_type:{name:"M" field:{name:"e" number:1 label:LABEL_OPTIONAL type:TYPE_ENUM type_name:".c.fk1.E"}
	    enum_type:{name:"N" value:{name:"Z" number:0} value:{name:"NEG" number:-1} options:{features:{enum_type:CLOSED json_format:LEGACY_BEST_EFFORT}}}
	    options:{features:{json_format:ALLOW}}}
	  options:{features:{enum_type:OPEN}}`},
	// FK2: lazy option on an extension
	{"corpus:fk2", `name:"conv/c/fk2.proto" package:"c.fk2"
	  message_type:{name:"M" extension_range:{start:100 end:200}}
	  extension:{name:"x" number:100 label:LABEL_OPTIONAL type:TYPE_MESSAGE type_name:".c.fk2.M" extendee:".c.fk2.M" options:{lazy:true}}`},
	// FK3: packed option together with the repeated_field_encoding feature (protoc refuses this input)
	{"corpus:fk3", `name:"conv/c/fk3.proto" package:"c.fk3" syntax:"editions" edition:EDITION_2023
	  message_type:{name:"M" field:{name:"r" number:1 label:LABEL_REPEATED type:TYPE_INT32 options:{packed:false features:{repeated_field_encoding:PACKED}}}}`},
	// FK4: editions file that spells required / group the proto2 way (protoc never emits this)
	{"corpus:fk4", `name:"conv/c/fk4.proto" package:"c.fk4" syntax:"editions" edition:EDITION_2023
	  message_type:{name:"M" field:{name:"r" number:1 label:LABEL_REQUIRED type:TYPE_INT32}
	                         field:{name:"g" number:2 label:LABEL_OPTIONAL type:TYPE_GROUP type_name:".c.fk4.M"}}`},
	// scope resolution: innermost first, partially qualified, leading dot, value siblings
	{"corpus:scopes", `name:"conv/c/scopes.proto" package:"a.b"
	  message_type:{name:"M"
	    nested_type:{name:"M" nested_type:{name:"a" nested_type:{name:"b" nested_type:{name:"M"}}}
	      field:{name:"f1" number:1 label:LABEL_OPTIONAL type:TYPE_MESSAGE type_name:"M"}
	      field:{name:"f2" number:2 label:LABEL_OPTIONAL type:TYPE_MESSAGE type_name:"M.M"}
	      field:{name:"f3" number:3 label:LABEL_OPTIONAL type:TYPE_MESSAGE type_name:"a.b.M"}
	      field:{name:"f4" number:4 label:LABEL_OPTIONAL type:TYPE_MESSAGE type_name:".a.b.M"}
	      field:{name:"f5" number:5 label:LABEL_OPTIONAL type:TYPE_MESSAGE type_name:"b.M.M"}
	      field:{name:"f6" number:6 label:LABEL_OPTIONAL type:TYPE_ENUM type_name:"E"}}
	    enum_type:{name:"E" value:{name:"V" number:0}}}
	  enum_type:{name:"E" value:{name:"W" number:0}}`},
	// everything optional absent / present-but-empty options
	{"corpus:empty", `name:"conv/c/empty.proto"`},
	{"corpus:emptyopts", `name:"conv/c/emptyopts.proto" package:"c.eo" syntax:"proto3" options:{}
	  message_type:{name:"M" options:{} field:{name:"f" number:1 label:LABEL_OPTIONAL type:TYPE_INT32 options:{} proto3_optional:true oneof_index:0}
	    oneof_decl:{name:"_f" options:{}}}
	  enum_type:{name:"E" options:{} value:{name:"Z" number:0 options:{}}}
	  service:{name:"S" options:{} method:{name:"Do" input_type:"M" output_type:".c.eo.M" options:{}}}`},
	// type left unset: the kind comes from the resolved declaration
	{"corpus:kind0", `name:"conv/c/kind0.proto" package:"c.k0"
	  message_type:{name:"M" field:{name:"m" number:1 label:LABEL_OPTIONAL type_name:"M"} field:{name:"e" number:2 label:LABEL_OPTIONAL type_name:"E"}}
	  enum_type:{name:"E" value:{name:"Z" number:0}}`},
}

func convLocalEnv(p *descriptorpb.FileDescriptorProto) *convEnv {
	env := &convEnv{local: map[string]int{}, remote: map[string]convRemote{}}
	pkg := p.GetPackage()
	enum := func(scope string, e *descriptorpb.EnumDescriptorProto) {
		env.local[convJoin(scope, e.GetName())] = convKindEnum
		for _, v := range e.Value {
			env.local[convJoin(scope, v.GetName())] = convKindOther
		}
	}
	var msg func(scope string, m *descriptorpb.DescriptorProto)
	msg = func(scope string, m *descriptorpb.DescriptorProto) {
		full := convJoin(scope, m.GetName())
		env.local[full] = convKindMsg
		for _, f := range m.Field {
			env.local[convJoin(full, f.GetName())] = convKindOther
		}
		for _, f := range m.Extension {
			env.local[convJoin(full, f.GetName())] = convKindOther
		}
		for _, o := range m.OneofDecl {
			env.local[convJoin(full, o.GetName())] = convKindOther
		}
		for _, e := range m.EnumType {
			enum(full, e)
		}
		for _, n := range m.NestedType {
			msg(full, n)
		}
	}
	for _, e := range p.EnumType {
		enum(pkg, e)
	}
	for _, m := range p.MessageType {
		msg(pkg, m)
	}
	for _, f := range p.Extension {
		env.local[convJoin(pkg, f.GetName())] = convKindOther
	}
	for _, s := range p.Service {
		env.local[convJoin(pkg, s.GetName())] = convKindOther
		for _, m := range s.Method {
			env.local[convJoin(convJoin(pkg, s.GetName()), m.GetName())] = convKindOther
		}
	}
	return env
}

func convCorpus(c *Ctx) {
	convNameCases(c)
	for _, cf := range convCorpusFiles {
		p := &descriptorpb.FileDescriptorProto{}
		if err := (prototext.UnmarshalOptions{}).Unmarshal([]byte(cf.text), p); err != nil {
			panic(fmt.Sprintf("%s: %v", cf.origin, err))
		}
		cs := &convCase{p: p, env: convLocalEnv(p), reg: new(protoregistry.Files), origin: cf.origin}
		fd, norm := convCheckC34(c, cs)
		if fd != nil && norm != nil {
			if cf.origin != "corpus:kind0" { // filedesc requires the type to be set (protoc always sets it)
				convCheckC37(c, cs, norm)
			}
			convEmitModelCases(c, cs, fd, norm)
		}
	}
}

// convMutantCases: the malformed stream.  One edit of a valid file that hits the declaration
// stage (makeBase) or the resolution stage; the model must report the same error class.
func convMutantCases(c *Ctx, cs *convCase) {
	p := proto.Clone(cs.p).(*descriptorpb.FileDescriptorProto)
	p.SourceCodeInfo = nil
	var msgs []*descriptorpb.DescriptorProto
	var walk func(m *descriptorpb.DescriptorProto)
	walk = func(m *descriptorpb.DescriptorProto) {
		msgs = append(msgs, m)
		for _, n := range m.NestedType {
			walk(n)
		}
	}
	for _, m := range p.MessageType {
		walk(m)
	}
	if len(msgs) == 0 {
		return
	}
	m := msgs[c.Intn(len(msgs))]
	kind := c.Intn(8)
	switch kind {
	case 0: // duplicate a field name
		if len(m.Field) == 0 {
			return
		}
		f := proto.Clone(m.Field[c.Intn(len(m.Field))]).(*descriptorpb.FieldDescriptorProto)
		f.Number = proto.Int32(49)
		f.OneofIndex = nil
		f.Proto3Optional = nil
		m.Field = append(m.Field, f)
	case 1: // enum value colliding with a sibling of the enum
		if len(m.EnumType) == 0 || len(m.NestedType) == 0 {
			return
		}
		e := m.EnumType[c.Intn(len(m.EnumType))]
		e.Value = append(e.Value, &descriptorpb.EnumValueDescriptorProto{Name: proto.String(m.NestedType[0].GetName()), Number: proto.Int32(77)})
	case 2: // invalid name
		bad := []string{"", "1x", "a.b", "a-b", "é", " a"}
		m.Name = proto.String(bad[c.Intn(len(bad))])
	case 3: // unresolvable / malformed type name
		var fs []*descriptorpb.FieldDescriptorProto
		for _, f := range m.Field {
			if f.TypeName != nil {
				fs = append(fs, f)
			}
		}
		if len(fs) == 0 {
			return
		}
		bad := []string{"NoSuchType", ".no.such.Type", "", ".", "A..B", fs[0].GetTypeName() + ".Nope"}
		fs[c.Intn(len(fs))].TypeName = proto.String(bad[c.Intn(len(bad))])
	case 4: // reference to a declaration of the wrong kind
		var fs []*descriptorpb.FieldDescriptorProto
		for _, f := range m.Field {
			if f.TypeName != nil {
				fs = append(fs, f)
			}
		}
		if len(fs) == 0 {
			return
		}
		f := fs[c.Intn(len(fs))]
		if f.GetType() == descriptorpb.FieldDescriptorProto_TYPE_ENUM {
			f.Type = descriptorpb.FieldDescriptorProto_TYPE_MESSAGE.Enum()
		} else {
			f.Type = descriptorpb.FieldDescriptorProto_TYPE_ENUM.Enum()
		}
	case 5: // oneof index out of range
		if len(m.Field) == 0 {
			return
		}
		idx := []int32{int32(len(m.OneofDecl)), -1, 1000}
		m.Field[c.Intn(len(m.Field))].OneofIndex = proto.Int32(idx[c.Intn(len(idx))])
	case 6: // scalar with a type name / invalid kind
		if len(m.Field) == 0 {
			return
		}
		f := m.Field[c.Intn(len(m.Field))]
		if c.Bool() {
			f.Type = descriptorpb.FieldDescriptorProto_Type(19 + c.Intn(3)).Enum()
			f.TypeName = nil
		} else if f.TypeName == nil {
			f.TypeName = proto.String(".x.Y")
		}
	case 7: // duplicate top-level message
		p.MessageType = append(p.MessageType, &descriptorpb.DescriptorProto{Name: proto.String(p.MessageType[0].GetName())})
	}
	fd, err := convNewFile(p, cs.reg)
	in := append(append([]string{}, convEnvTokens(p, cs.env, cs.reg)...), convFileTokens(p)...)
	switch {
	case err == nil:
		if obs, e2 := convObsFile(fd); e2 == nil {
			c.Stat("mutant_still_ok")
			c.Case("conv", "newfile", in, obs)
		}
	case strings.HasPrefix(err.Error(), "PANIC"):
		c.PropFail("C34", "newfile_panics_on_mutant", HexB(convMarshal(p)), convTok(err.Error()))
	default:
		if cl := convModelErr(err); cl != "" {
			c.Stat("mutant_" + cl)
			c.Case("conv", "newfile", in, []string{cl})
			c.Case("conv", "roundtrip", in, []string{cl})
		} else {
			c.Stat("mutant_outside_model")
		}
	}
}
