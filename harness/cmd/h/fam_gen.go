//go:build verif

package main

import (
	"bytes"
	"encoding/binary"
	"flag"
	"fmt"
	"go/parser"
	"go/token"
	"os"
	"os/exec"
	"sort"
	"strconv"
	"strings"

	"google.golang.org/protobuf/cmd/protoc-gen-go/internal_gengo"
	"google.golang.org/protobuf/compiler/protogen"
	"google.golang.org/protobuf/proto"
	"google.golang.org/protobuf/reflect/protodesc"
	"google.golang.org/protobuf/reflect/protoreflect"
	"google.golang.org/protobuf/reflect/protoregistry"
	"google.golang.org/protobuf/types/descriptorpb"
	"google.golang.org/protobuf/types/pluginpb"

	_ "google.golang.org/protobuf/types/gofeaturespb"
	_ "google.golang.org/protobuf/types/known/anypb"
	_ "google.golang.org/protobuf/types/known/apipb"
	_ "google.golang.org/protobuf/types/known/durationpb"
	_ "google.golang.org/protobuf/types/known/emptypb"
	_ "google.golang.org/protobuf/types/known/fieldmaskpb"
	_ "google.golang.org/protobuf/types/known/structpb"
	_ "google.golang.org/protobuf/types/known/timestamppb"
	_ "google.golang.org/protobuf/types/known/typepb"
	_ "google.golang.org/protobuf/types/known/wrapperspb"
)

// family "gen": C40 — protoc-gen-go (protogen + internal_gengo) run as a library on
// CodeGeneratorRequests built from the linked files' descriptors and from random
// schemas: twice in this process, in two fresh subprocesses (forward and reverse
// request order), and with file_to_generate permuted.  Every pair of responses
// must be byte-identical.  C lines: the import block of a GeneratedFile against
// the Coq model (CodeGen/EmitModel.v).
//
//   imports <own path> <op>...  |  <import block lines>      op = q:<path> (QualifiedGoIdent) | m:<path> (Import)

func init() {
	Register("gen", famGen)
	Register("gen_child", famGenChild)
}

// genRun is cmd/protoc-gen-go's main as a function: request bytes -> response bytes.
// class: "ok", "newerr" (Options.New failed: reported on stderr by the real plugin,
// not part of the response), "panic".
func genRun(reqb []byte) (class string, resp []byte, detail string) {
	defer func() {
		if r := recover(); r != nil {
			class, resp, detail = "panic", nil, fmt.Sprint(r)
		}
	}()
	req := &pluginpb.CodeGeneratorRequest{}
	if err := proto.Unmarshal(reqb, req); err != nil {
		return "badreq", nil, err.Error()
	}
	var flags flag.FlagSet
	flags.String("plugins", "", "")
	strip := flags.Bool("experimental_strip_nonfunctional_codegen", false, "")
	gen, err := protogen.Options{ParamFunc: flags.Set, InternalStripForEditionsDiff: strip}.New(req)
	if err != nil {
		return "newerr", nil, err.Error()
	}
	for _, f := range gen.Files {
		if f.Generate {
			internal_gengo.GenerateFile(gen, f)
		}
	}
	gen.SupportedFeatures = internal_gengo.SupportedFeatures
	gen.SupportedEditionsMinimum = internal_gengo.SupportedEditionsMinimum
	gen.SupportedEditionsMaximum = internal_gengo.SupportedEditionsMaximum
	out, err := proto.Marshal(gen.Response())
	if err != nil {
		return "marshalerr", nil, err.Error()
	}
	return "ok", out, ""
}

// ---- subprocess protocol: frames of (4-byte big-endian length, bytes) ----

func genWriteFrames(path string, frames [][]byte) error {
	var b bytes.Buffer
	for _, f := range frames {
		var l [4]byte
		binary.BigEndian.PutUint32(l[:], uint32(len(f)))
		b.Write(l[:])
		b.Write(f)
	}
	return os.WriteFile(path, b.Bytes(), 0o600)
}

func genReadFrames(path string) ([][]byte, error) {
	data, err := os.ReadFile(path)
	if err != nil {
		return nil, err
	}
	var out [][]byte
	for len(data) > 0 {
		if len(data) < 4 {
			return nil, fmt.Errorf("truncated frame header")
		}
		n := int(binary.BigEndian.Uint32(data))
		if len(data) < 4+n {
			return nil, fmt.Errorf("truncated frame")
		}
		out = append(out, data[4:4+n])
		data = data[4+n:]
	}
	return out, nil
}

// famGenChild: a fresh process that answers every request of GEN_CHILD_IN.
func famGenChild(c *Ctx) {
	in, out := os.Getenv("GEN_CHILD_IN"), os.Getenv("GEN_CHILD_OUT")
	reqs, err := genReadFrames(in)
	if err != nil {
		panic(err)
	}
	resps := make([][]byte, len(reqs))
	order := make([]int, len(reqs))
	for i := range order {
		order[i] = i
		if os.Getenv("GEN_CHILD_REV") == "1" {
			order[i] = len(reqs) - 1 - i
		}
	}
	for _, i := range order {
		class, resp, _ := genRun(reqs[i])
		resps[i] = append([]byte(class+"\x00"), resp...)
	}
	if err := genWriteFrames(out, resps); err != nil {
		panic(err)
	}
}

func genSpawn(reqs [][]byte, rev bool, tag string) ([][]byte, error) {
	dir, err := os.MkdirTemp("", "verif-gen")
	if err != nil {
		return nil, err
	}
	defer os.RemoveAll(dir)
	in, out := dir+"/in", dir+"/out"
	if err := genWriteFrames(in, reqs); err != nil {
		return nil, err
	}
	exe, err := os.Executable()
	if err != nil {
		return nil, err
	}
	cmd := exec.Command(exe, "gen_child", "-out", os.DevNull)
	cmd.Env = append(os.Environ(), "GEN_CHILD_IN="+in, "GEN_CHILD_OUT="+out)
	if rev {
		cmd.Env = append(cmd.Env, "GEN_CHILD_REV=1")
	}
	if b, err := cmd.CombinedOutput(); err != nil {
		return nil, fmt.Errorf("child %s: %v: %s", tag, err, b)
	}
	return genReadFrames(out)
}

// ---- requests ----

type genReq struct {
	desc  string // human-readable origin
	bytes []byte
	multi [][]byte // the same request with file_to_generate permuted
	reps  bool     // carries custom options with map fields: repeated genOptionReps times per mode
}

// A request whose descriptors carry maps (custom options) shows a map-order dependence
// only with some probability per run; it is answered this many times in this process
// and this many times in the child processes together.
const genOptionReps = 8

func genClosure(fd protoreflect.FileDescriptor, seen map[string]bool, out *[]*descriptorpb.FileDescriptorProto) {
	if seen[fd.Path()] {
		return
	}
	seen[fd.Path()] = true
	imps := fd.Imports()
	for i := 0; i < imps.Len(); i++ {
		if imps.Get(i).FileDescriptor != nil && !imps.Get(i).IsPlaceholder() {
			genClosure(imps.Get(i).FileDescriptor, seen, out)
		}
	}
	*out = append(*out, protodesc.ToFileDescriptorProto(fd))
}

var genAPILevels = []string{"", "default_api_level=API_OPEN", "default_api_level=API_HYBRID", "default_api_level=API_OPAQUE"}

func genParam(c *Ctx, files []*descriptorpb.FileDescriptorProto, toGen []string) string {
	var ps []string
	if p := genAPILevels[c.Intn(len(genAPILevels))]; p != "" {
		ps = append(ps, p)
	}
	switch c.Intn(4) {
	case 0:
		ps = append(ps, "paths=source_relative")
	case 1:
		ps = append(ps, "paths=import")
	}
	if c.Intn(4) == 0 {
		ps = append(ps, "annotate_code=true")
	}
	if c.Intn(3) == 0 && len(files) > 0 {
		// M mappings for some of the files (an import path, optionally with a package name)
		for _, f := range files {
			if c.Intn(3) == 0 {
				v := "example.org/mapped/" + strings.NewReplacer("/", "_", ".", "_").Replace(f.GetName())
				if c.Bool() {
					v += ";mp" + strconv.Itoa(c.Intn(3))
				}
				ps = append(ps, "M"+f.GetName()+"="+v)
			}
		}
	}
	if c.Intn(6) == 0 && len(toGen) > 0 {
		ps = append(ps, "apilevelM"+toGen[c.Intn(len(toGen))]+"="+[]string{"API_OPEN", "API_HYBRID", "API_OPAQUE"}[c.Intn(3)])
	}
	if c.Intn(12) == 0 {
		ps = append(ps, "experimental_strip_nonfunctional_codegen=true")
	}
	// parameter order is part of the input; shuffle it
	for i := len(ps) - 1; i > 0; i-- {
		j := c.Intn(i + 1)
		ps[i], ps[j] = ps[j], ps[i]
	}
	return strings.Join(ps, ",")
}

func genMakeReq(c *Ctx, desc string, files []*descriptorpb.FileDescriptorProto, toGen []string, param string) *genReq {
	mk := func(tg []string) []byte {
		req := &pluginpb.CodeGeneratorRequest{FileToGenerate: tg, ProtoFile: files}
		if param != "" {
			req.Parameter = proto.String(param)
		}
		b, err := proto.MarshalOptions{Deterministic: true}.Marshal(req)
		if err != nil {
			panic(err)
		}
		return b
	}
	r := &genReq{desc: fmt.Sprintf("%s gen=%v param=%q", desc, toGen, param), bytes: mk(toGen)}
	if len(toGen) > 1 {
		for k := 0; k < 2; k++ {
			p := append([]string(nil), toGen...)
			for i := len(p) - 1; i > 0; i-- {
				j := c.Intn(i + 1)
				p[i], p[j] = p[j], p[i]
			}
			r.multi = append(r.multi, mk(p))
		}
		rev := append([]string(nil), toGen...)
		for i, j := 0, len(rev)-1; i < j; i, j = i+1, j-1 {
			rev[i], rev[j] = rev[j], rev[i]
		}
		r.multi = append(r.multi, mk(rev))
	}
	return r
}

func genLinkedRequests(c *Ctx) []*genReq {
	var fds []protoreflect.FileDescriptor
	protoregistry.GlobalFiles.RangeFiles(func(fd protoreflect.FileDescriptor) bool {
		fds = append(fds, fd)
		return true
	})
	sort.Slice(fds, func(i, j int) bool { return fds[i].Path() < fds[j].Path() })
	var out []*genReq
	for _, fd := range fds {
		var files []*descriptorpb.FileDescriptorProto
		genClosure(fd, map[string]bool{}, &files)
		out = append(out, genMakeReq(c, "linked", files, []string{fd.Path()}, genParam(c, files, []string{fd.Path()})))
		c.Stat("gen_linked")
	}
	// several files of one run: everything a file depends on is generated with it
	for k := 0; k < 12 && len(fds) > 0; k++ {
		fd := fds[c.Intn(len(fds))]
		var files []*descriptorpb.FileDescriptorProto
		genClosure(fd, map[string]bool{}, &files)
		if len(files) < 2 {
			continue
		}
		var tg []string
		for _, f := range files {
			if c.Intn(3) > 0 || f.GetName() == fd.Path() {
				tg = append(tg, f.GetName())
			}
		}
		out = append(out, genMakeReq(c, "linked-multi", files, tg, genParam(c, files, tg)))
		c.Stat("gen_linked_multi")
	}
	return out
}

// ---- comparison ----

func genSplit(resp []byte) (map[string]string, []string, string) {
	r := &pluginpb.CodeGeneratorResponse{}
	if err := proto.Unmarshal(resp, r); err != nil {
		return nil, nil, "unparsable response: " + err.Error()
	}
	m := map[string]string{}
	var names []string
	for _, f := range r.File {
		names = append(names, f.GetName())
		m[f.GetName()] = f.GetContent() + "\x00" + f.GetGeneratedCodeInfo().String()
	}
	return m, names, r.GetError()
}

func genFirstDiff(a, b string) string {
	la, lb := strings.Split(a, "\n"), strings.Split(b, "\n")
	for i := 0; i < len(la) && i < len(lb); i++ {
		if la[i] != lb[i] {
			return fmt.Sprintf("line %d: %.80q vs %.80q", i+1, la[i], lb[i])
		}
	}
	return fmt.Sprintf("lengths %d vs %d lines", len(la), len(lb))
}

// genCompare emits P lines when two outcomes of the same request differ.
func genCompare(c *Ctx, r *genReq, modeA, modeB string, classA string, a []byte, classB string, b []byte) {
	c.Stat("gen_compare_" + modeB)
	if classA != classB {
		c.PropFail("C40", fmt.Sprintf("outcome class differs between %s (%s) and %s (%s)", modeA, classA, modeB, classB), r.desc)
		return
	}
	if bytes.Equal(a, b) {
		return
	}
	fa, na, ea := genSplit(a)
	fb, nb, eb := genSplit(b)
	if ea != eb {
		c.PropFail("C40", fmt.Sprintf("response error differs between %s and %s: %.100q vs %.100q", modeA, modeB, ea, eb), r.desc)
		return
	}
	if strings.Join(na, ",") != strings.Join(nb, ",") {
		sa, sb := append([]string(nil), na...), append([]string(nil), nb...)
		sort.Strings(sa)
		sort.Strings(sb)
		same := strings.Join(sa, ",") == strings.Join(sb, ",")
		for _, n := range sa {
			if same && fa[n] != fb[n] {
				same = false
			}
		}
		if same && modeB == "permuted_file_to_generate" {
			// gatherTransitiveDependencies walks file_to_generate in request order, so
			// the File entries of the response come in that order; names and contents agree
			c.Stat("gen_F17_order_only")
			c.Known("FH3", "C40", "order of response File entries follows file_to_generate; same names and contents")
			return
		}
		c.PropFail("C40", fmt.Sprintf("generated file list differs between %s and %s: %v vs %v", modeA, modeB, na, nb), r.desc)
		return
	}
	for _, n := range na {
		if fa[n] != fb[n] {
			c.PropFail("C40", fmt.Sprintf("generated file %s differs between %s and %s: %s", n, modeA, modeB, genFirstDiff(fa[n], fb[n])), r.desc)
			return
		}
	}
	c.PropFail("C40", fmt.Sprintf("response bytes differ between %s and %s outside file contents", modeA, modeB), r.desc)
}

// ---- import block: GeneratedFile.QualifiedGoIdent / Import / Content vs the Coq model ----

var genImportBases = []string{"foo", "bar", "string", "int", "max", "a", "b", "foo1", "go", "type", "x-y", "9p", "Foo", "_", "pb"}
var genImportDirs = []string{"", "a/", "b/", "example.com/", "example.com/a/", "z/", "a.b/c/"}

func genImportBlock(c *Ctx) {
	req := &pluginpb.CodeGeneratorRequest{}
	gen, err := protogen.Options{}.New(req)
	if err != nil {
		panic(err)
	}
	path := func() string {
		return genImportDirs[c.Intn(len(genImportDirs))] + genImportBases[c.Intn(len(genImportBases))]
	}
	own := path()
	g := gen.NewGeneratedFile("x.go", protogen.GoImportPath(own))
	g.P("package x")
	ins := []string{own}
	n := c.Intn(9)
	for i := 0; i < n; i++ {
		p := path()
		if c.Intn(4) == 0 {
			g.Import(protogen.GoImportPath(p))
			ins = append(ins, "m:"+p)
		} else {
			q := g.QualifiedGoIdent(protogen.GoIdent{GoName: "T", GoImportPath: protogen.GoImportPath(p)})
			g.P("var _ ", q)
			ins = append(ins, "q:"+p)
		}
	}
	content, err := g.Content()
	if err != nil {
		c.Case("gen", "imports", ins, []string{"error"})
		return
	}
	// the import block as printed
	var lines []string
	in := false
	for _, l := range strings.Split(string(content), "\n") {
		switch {
		case l == "import (":
			in = true
		case in && l == ")":
			in = false
		case in:
			lines = append(lines, strings.TrimSpace(l))
		}
	}
	obs := strings.Join(lines, ";")
	if obs == "" {
		obs = "-"
	}
	c.Case("gen", "imports", ins, []string{obs})
	// property: sorted by path, no duplicates
	fset := token.NewFileSet()
	af, err := parser.ParseFile(fset, "", content, parser.ImportsOnly)
	if err != nil {
		c.PropFail("C40", "generated file does not parse", strings.Join(ins, " "))
		return
	}
	prev := ""
	for i, im := range af.Imports {
		p, _ := strconv.Unquote(im.Path.Value)
		if i > 0 && !(prev < p) {
			c.PropFail("C40", "import block not strictly sorted by path", strings.Join(ins, " "))
		}
		prev = p
	}
	c.Stat("gen_importblock")
}

func famGen(c *Ctx) {
	// import block cases (cheap): model correspondence
	for i := 0; i < 500+c.N*20; i++ {
		genImportBlock(c)
	}

	var reqs []*genReq
	reqs = append(reqs, genOptionCorpus(c)...)
	reqs = append(reqs, genLinkedRequests(c)...)
	for i := 0; i < c.N; i++ {
		if r := genRandomRequest(c); r != nil {
			reqs = append(reqs, r)
		}
	}

	// 1. in this process, twice; 2. permuted file_to_generate
	type outcome struct {
		class string
		resp  []byte
	}
	first := make([]outcome, len(reqs))
	for i, r := range reqs {
		cl, resp, detail := genRun(r.bytes)
		first[i] = outcome{cl, resp}
		c.Stat("gen_class_" + cl)
		if cl == "panic" {
			c.PropFail("C40", "generator panicked: "+detail, r.desc)
		}
		if cl == "newerr" && strings.HasPrefix(r.desc, "linked") {
			// e.g. MessageSet in builds without the protolegacy tag
			c.Stat("gen_linked_rejected")
			c.Sample("linked file rejected: " + strings.ReplaceAll(strings.ReplaceAll(detail, "\n", " "), "\t", " "))
		}
		if cl == "newerr" && c.Intn(20) == 0 {
			c.Sample("rejected: " + strings.ReplaceAll(strings.ReplaceAll(detail, "\n", " "), "\t", " "))
		}
		if cl == "ok" {
			if _, _, e := genSplit(resp); e != "" {
				c.Stat("gen_response_error")
				if c.Intn(10) == 0 {
					c.Sample("response error: " + strings.ReplaceAll(strings.ReplaceAll(e, "\n", " "), "\t", " "))
				}
			}
		}
		nrep := 1
		if r.reps {
			nrep = genOptionReps - 1
			c.Stat("gen_option_requests")
		}
		for k := 0; k < nrep; k++ {
			cl2, resp2, _ := genRun(r.bytes)
			genCompare(c, r, "run1", "run2", cl, resp, cl2, resp2)
		}
		for _, mb := range r.multi {
			cl3, resp3, _ := genRun(mb)
			genCompare(c, r, "run1", "permuted_file_to_generate", cl, resp, cl3, resp3)
		}
	}
	// 3. two fresh processes (different hash seeds, no state carried over), one
	// answering the requests in reverse order
	var frames [][]byte
	var frameReq []int
	for i, r := range reqs {
		n := 1
		if r.reps {
			n = genOptionReps / 2
		}
		for k := 0; k < n; k++ {
			frames = append(frames, r.bytes)
			frameReq = append(frameReq, i)
		}
	}
	for k, rev := range []bool{false, true} {
		tag := []string{"child_forward", "child_reverse"}[k]
		resps, err := genSpawn(frames, rev, tag)
		if err != nil || len(resps) != len(frames) {
			c.PropFail("C40", fmt.Sprintf("subprocess %s failed: %v (%d of %d responses)", tag, err, len(resps), len(frames)))
			continue
		}
		for fi, i := range frameReq {
			r := reqs[i]
			j := bytes.IndexByte(resps[fi], 0)
			if j < 0 {
				c.PropFail("C40", "malformed child response", r.desc)
				continue
			}
			resp := resps[fi][j+1:]
			if len(resp) == 0 {
				resp = nil
			}
			genCompare(c, r, "run1", tag, first[i].class, first[i].resp, string(resps[fi][:j]), resp)
		}
	}
}
