//go:build verif

package main

// family "fastslow" (C08): the table-driven fast path and the reflection path are indistinguishable.
//
// Three executions of the same seeded cases are compared:
//	gen/default build   generated message types, methods of internal/impl (fast path)
//	dyn                 dynamicpb messages of the same descriptors (reflection path of package proto)
//	gen/other build     the same generated types in the harness binary built with the other tag set
//	                    (-tags protoreflect makes package proto ignore the generated methods); that
//	                    binary is re-executed with the same seed and prints its observations
// A case is a pair of byte strings (A, B) for one message type: encodings of random contents
// (produced by dynamicpb, i.e. identically in both builds), other valid encodings of the same
// contents, concatenations and damaged encodings.  Observations per flavour:
//	u   Unmarshal(A) verdict (AllowPartial)      r   Unmarshal(A) verdict without AllowPartial
//	i   CheckInitialized verdict                 d   digest of the decoded canonical dump
//	s   Size                                     b   digest of the deterministic Marshal bytes
//	e   Equal(dec A, dec B), Equal(dec B, dec A) m   digest of the dump of Merge(dec A, dec B)
//	c   digest of the dump of Clone(dec A) and Equal(dec A, Clone)
// all after re-encoding the tags of unknown fields minimally (the table-driven decoder does that
// while decoding, the reflection decoder keeps the input's tag bytes).
// P lines (C08) on any difference, except the recorded findings F13 (message_set_wire_format
// without -tags protolegacy), FL1 (repeated string extension of a proto3/editions file,
// ill-formed UTF-8) and FWC1 (uninitialized message in a non-first oneof member accepted by
// Unmarshal without AllowPartial), recognised by descriptor option / input class.

import (
	"fmt"
	"os"
	"path/filepath"
	"strconv"
	"strings"
	"unicode/utf8"

	"google.golang.org/protobuf/encoding/protowire"
	"google.golang.org/protobuf/internal/encoding/messageset"
	"google.golang.org/protobuf/internal/strs"
	"google.golang.org/protobuf/proto"
	"google.golang.org/protobuf/reflect/protoreflect"
	"google.golang.org/protobuf/reflect/protoregistry"
	"google.golang.org/protobuf/types/dynamicpb"
)

func init() { Register("fastslow", famFastslow) }

var fastslowObsNames = []string{"u", "r", "i", "d", "s", "b", "e", "m", "c"}

func fastslowVerdict(err error) string {
	if err != nil {
		return "err"
	}
	return "ok"
}

// fastslowObserve computes the observation vector of one flavour.  It must not draw random numbers.
func fastslowObserve(mk func() protoreflect.Message, A, B []byte) (obs []string) {
	obs = make([]string, len(fastslowObsNames))
	for i := range obs {
		obs[i] = "-"
	}
	defer func() {
		if r := recover(); r != nil {
			obs = append(obs, fmt.Sprintf("panic:%v", r))
		}
	}()
	part := proto.UnmarshalOptions{AllowPartial: true, NoLazyDecoding: true}
	m := mk()
	err := part.Unmarshal(A, m.Interface())
	obs[0] = fastslowVerdict(err)
	obs[1] = fastslowVerdict(proto.UnmarshalOptions{NoLazyDecoding: true}.Unmarshal(A, mk().Interface()))
	if err != nil {
		return obs
	}
	obs[2] = fastslowVerdict(proto.CheckInitialized(m.Interface()))
	detNormalizeUnknown(m)
	obs[3] = detDigestToks(msgDump(m))
	obs[4] = strconv.Itoa(proto.Size(m.Interface()))
	if b, err := detMarshal(m); err != nil {
		obs[5] = "err"
	} else {
		obs[5] = detDigest(b)
		if len(b) != proto.Size(m.Interface()) {
			obs[5] += "!size"
		}
	}
	m2 := mk()
	if err := part.Unmarshal(B, m2.Interface()); err == nil {
		detNormalizeUnknown(m2)
		obs[6] = Tok(proto.Equal(m.Interface(), m2.Interface())) + Tok(proto.Equal(m2.Interface(), m.Interface()))
		d := mk()
		if err := part.Unmarshal(A, d.Interface()); err == nil {
			proto.Merge(d.Interface(), m2.Interface())
			detNormalizeUnknown(d)
			obs[7] = detDigestToks(msgDump(d))
		}
	} else {
		obs[6], obs[7] = "errB", "errB"
	}
	cl := proto.Clone(m.Interface())
	obs[8] = detDigestToks(msgDump(cl.ProtoReflect())) + Tok(proto.Equal(m.Interface(), cl)) + Tok(proto.Equal(cl, m.Interface()))
	return obs
}

// fastslowFL1Class: b contains, reachable through known message fields of md, an occurrence of a
// repeated string extension with strs.EnforceUTF8 whose payload is not valid UTF-8 (finding FL1).
func fastslowFL1Class(md protoreflect.MessageDescriptor, b []byte, depth int) bool {
	if depth <= 0 {
		return false
	}
	chunks, ok := msgSplitFields(b)
	if !ok {
		// damaged input: look at the well-formed prefix
		chunks = nil
		for len(b) > 0 {
			num, typ, n := protowire.ConsumeTag(b)
			if n < 0 {
				break
			}
			m := protowire.ConsumeFieldValue(num, typ, b[n:])
			if m < 0 {
				break
			}
			chunks = append(chunks, msgChunk{num, typ, b[n : n+m]})
			b = b[n+m:]
		}
	}
	for _, ch := range chunks {
		fd := msgFindField(md, ch.num)
		if fd == nil {
			continue
		}
		if fd.IsExtension() && fd.IsList() && fd.Kind() == protoreflect.StringKind && strs.EnforceUTF8(fd) && ch.typ == protowire.BytesType {
			if p, n := protowire.ConsumeBytes(ch.val); n >= 0 && !utf8.Valid(p) {
				return true
			}
		}
		sub := fd.Message()
		if sub == nil {
			continue
		}
		if fd.IsMap() {
			if vm := fd.MapValue().Message(); vm != nil && ch.typ == protowire.BytesType {
				if p, n := protowire.ConsumeBytes(ch.val); n >= 0 {
					if es, ok := msgSplitFields(p); ok {
						for _, e := range es {
							if e.num == 2 && e.typ == protowire.BytesType {
								if q, n := protowire.ConsumeBytes(e.val); n >= 0 && fastslowFL1Class(vm, q, depth-1) {
									return true
								}
							}
						}
					}
				}
			}
			continue
		}
		if ch.typ == protowire.BytesType {
			if p, n := protowire.ConsumeBytes(ch.val); n >= 0 && fastslowFL1Class(sub, p, depth-1) {
				return true
			}
		}
		if ch.typ == protowire.StartGroupType {
			if p, n := protowire.ConsumeGroup(ch.num, ch.val); n >= 0 && fastslowFL1Class(sub, p, depth-1) {
				return true
			}
		}
	}
	return false
}

// fastslowOnlyDiff: the two observation vectors differ exactly at index k.
func fastslowOnlyDiff(o1, o2 []string, k int) bool {
	if len(o1) != len(o2) || k >= len(o1) || o1[k] == o2[k] {
		return false
	}
	for i := range o1 {
		if i != k && o1[i] != o2[i] {
			return false
		}
	}
	return true
}

// fastslowFWC1Class: b decodes (reflection path, AllowPartial) to a message in which, at any
// depth, a populated oneof member that is NOT the first field of its oneof holds a message with
// missing required fields (finding FWC1).
func fastslowFWC1Class(md protoreflect.MessageDescriptor, b []byte) bool {
	m := dynamicpb.NewMessage(md)
	if err := (proto.UnmarshalOptions{AllowPartial: true}).Unmarshal(b, m); err != nil {
		return false
	}
	return fastslowFWC1Msg(m, 8)
}

func fastslowFWC1Msg(m protoreflect.Message, depth int) bool {
	if depth <= 0 {
		return false
	}
	found := false
	m.Range(func(fd protoreflect.FieldDescriptor, v protoreflect.Value) bool {
		switch {
		case fd.IsMap():
			if fd.MapValue().Message() != nil {
				v.Map().Range(func(_ protoreflect.MapKey, x protoreflect.Value) bool {
					found = found || fastslowFWC1Msg(x.Message(), depth-1)
					return !found
				})
			}
		case fd.IsList():
			if fd.Message() != nil {
				for i := 0; i < v.List().Len() && !found; i++ {
					found = fastslowFWC1Msg(v.List().Get(i).Message(), depth-1)
				}
			}
		case fd.Message() != nil:
			if od := fd.ContainingOneof(); od != nil && !od.IsSynthetic() && od.Fields().Get(0) != fd &&
				proto.CheckInitialized(v.Message().Interface()) != nil {
				found = true
			} else {
				found = fastslowFWC1Msg(v.Message(), depth-1)
			}
		}
		return !found
	})
	return found
}

type fastslowTarget struct {
	mt      protoreflect.MessageType
	md      protoreflect.MessageDescriptor
	reachMS bool // the type is or reaches a message_set_wire_format message (F13)
	legacy  bool
}

func fastslowTypes() []*fastslowTarget {
	var out []*fastslowTarget
	seen := map[protoreflect.FullName]bool{}
	for _, mt := range msgAllTypes() {
		md := mt.Descriptor()
		seen[md.FullName()] = true
		out = append(out, &fastslowTarget{mt: mt, md: md, legacy: msgLegacyReach(md)})
	}
	// msgAllTypes leaves out everything that reaches a MessageSet; those are F13's class
	var ms []*fastslowTarget
	protoregistry.GlobalTypes.RangeMessages(func(mt protoreflect.MessageType) bool {
		md := mt.Descriptor()
		if md.IsMapEntry() || seen[md.FullName()] {
			return true
		}
		ms = append(ms, &fastslowTarget{mt: mt, md: md, reachMS: true, legacy: msgLegacyReach(md)})
		return true
	})
	for i := 1; i < len(ms); i++ { // sorted by name (insertion sort: few elements)
		for j := i; j > 0 && ms[j].md.FullName() < ms[j-1].md.FullName(); j-- {
			ms[j], ms[j-1] = ms[j-1], ms[j]
		}
	}
	return append(out, ms...)
}

type fastslowCase struct {
	t    *fastslowTarget
	A, B []byte
	gen  []string
}

type fastslowRun struct {
	c     *Ctx
	child *detChild
	cases []fastslowCase
}

// fastslowWireInput: a well-formed encoding generated without any Marshal call (for the types whose
// reflection-path Marshal fails, F13): MessageSet items, registered extensions, unknown fields.
func fastslowWireInput(c *Ctx, md protoreflect.MessageDescriptor) []byte {
	var b []byte
	xs := msgExtensionsOf(md)
	for k := c.Intn(4); k > 0; k-- {
		switch {
		case len(xs) > 0 && c.Intn(2) == 0:
			xd := xs[c.Intn(len(xs))]
			if messageset.IsMessageSet(md) && c.Bool() {
				// item { type_id, message }
				b = protowire.AppendTag(b, 1, protowire.StartGroupType)
				b = protowire.AppendTag(b, 2, protowire.VarintType)
				b = protowire.AppendVarint(b, uint64(xd.Number()))
				b = protowire.AppendTag(b, 3, protowire.BytesType)
				b = protowire.AppendBytes(b, msgGenUnknown(c, xd.Message()))
				b = protowire.AppendTag(b, 1, protowire.EndGroupType)
			} else if xd.Message() != nil && !xd.IsList() {
				b = protowire.AppendTag(b, xd.Number(), protowire.BytesType)
				b = protowire.AppendBytes(b, msgGenUnknown(c, xd.Message()))
			}
		default:
			b = append(b, msgGenUnknown(c, md)...)
		}
	}
	return b
}

func (d *fastslowRun) one(t *fastslowTarget, depth int) {
	c := d.c
	var enc1, enc2 []byte
	if t.reachMS {
		enc1 = fastslowWireInput(c, t.md)
		enc2 = fastslowWireInput(c, t.md)
	} else {
		src := dynamicpb.NewMessage(t.md)
		if !detFill(c, src, depth, 40+c.Intn(160), true) {
			return
		}
		var err error
		if enc1, err = detMarshal(src); err != nil {
			c.Stat("input_marshal_error")
			return
		}
		src2 := dynamicpb.NewMessage(t.md)
		if detFill(c, src2, depth, 20+c.Intn(60), true) {
			enc2, _ = detMarshal(src2)
		}
	}
	variant := func(b []byte) []byte {
		switch c.Intn(8) {
		case 0, 1:
			return b
		case 2, 3:
			return msgRewrite(c, t.md, b, 3)
		case 4:
			return msgRewriteOpts(c, t.md, b, 3, true)
		case 5:
			return append(append([]byte{}, b...), enc2...)
		default:
			return msgMutate(c, b)
		}
	}
	A := variant(enc1)
	var B []byte
	switch c.Intn(4) {
	case 0:
		B = enc2
	case 1:
		B = msgRewrite(c, t.md, A, 3) // usually decodes to an equal message
	default:
		B = variant(enc1)
	}
	d.run(t, A, B)
}

func (d *fastslowRun) run(t *fastslowTarget, A, B []byte) {
	c := d.c
	gen := fastslowObserve(func() protoreflect.Message { return t.mt.New() }, A, B)
	idx := len(d.cases)
	d.cases = append(d.cases, fastslowCase{t: t, A: A, B: B, gen: gen})
	if d.child != nil {
		d.child.Line(append([]string{strconv.Itoa(idx), string(t.md.FullName())}, gen...)...)
		return
	}
	c.Stat("gen_u_" + gen[0])
	dyn := fastslowObserve(func() protoreflect.Message { return dynamicpb.NewMessage(t.md) }, A, B)
	// recorded as an evaluation (this run has no model side: the other flavours are the reference)
	c.Case("fastslow", "case", []string{string(t.md.FullName()), HexB(A), HexB(B)}, gen)
	d.compare(t, A, B, "generated ("+fastslowBuildName+" build)", gen, "dynamicpb", dyn)
}

func (d *fastslowRun) compare(t *fastslowTarget, A, B []byte, n1 string, o1 []string, n2 string, o2 []string) {
	c := d.c
	if msgEqualToks(o1, o2) {
		c.Stat("agree")
		return
	}
	var diff string
	for i := 0; i < len(o1) && i < len(o2); i++ {
		if o1[i] != o2[i] {
			name := "panic"
			if i < len(fastslowObsNames) {
				name = fastslowObsNames[i]
			}
			diff += fmt.Sprintf(" %s:%s/%s", name, o1[i], o2[i])
		}
	}
	if len(o1) != len(o2) {
		diff += " (panic in one flavour)"
	}
	sample := func(id string) {
		if c.stats["known_"+id] == 1 {
			c.Sample(fmt.Sprintf("%s witness %s: %s vs %s:%s A=%s", id, t.md.FullName(), n1, n2, diff, HexB(A)))
		}
	}
	switch {
	case t.reachMS:
		c.Known("F13", "C08", "message_set_wire_format type in a build without protolegacy")
		c.Stat("known_F13")
		sample("F13")
	case fastslowFL1Class(t.md, A, 6) || fastslowFL1Class(t.md, B, 6):
		c.Known("FL1", "C08", "repeated string extension with EnforceUTF8: ill-formed UTF-8 accepted by the table-driven path only")
		c.Stat("known_FL1")
		sample("FL1")
	case fastslowOnlyDiff(o1, o2, 1) && (fastslowFWC1Class(t.md, A) || fastslowFWC1Class(t.md, B)):
		c.Known("FWC1", "C08", "Unmarshal without AllowPartial accepts an uninitialized message in a non-first oneof member (table-driven path only)")
		c.Stat("known_FWC1")
		sample("FWC1")
	case t.legacy && (msgFB1Class(t.md, A) || msgFB1Class(t.md, B)):
		c.Known("FB1", "C08", "legacy message field allocated by a wrong-wire-type occurrence (table-driven path only)")
		c.Stat("known_FB1")
		sample("FB1")
	case t.legacy:
		// other differences on legacy (pre-protoimpl) generated messages (e.g. no unknown-field
		// storage in the oldest proto3 ones): their codec is not the table-driven one of the property
		c.Stat("legacy_differs")
		if c.stats["legacy_differs"] <= 3 {
			c.Sample(fmt.Sprintf("legacy type %s differs:%s A=%s", t.md.FullName(), diff, HexB(A)))
		}
	default:
		c.PropFail("C08", fmt.Sprintf("%s and %s differ on %s:%s", n1, n2, t.md.FullName(), diff), HexB(A), HexB(B))
	}
}

func (d *fastslowRun) corpus() {
	c := d.c
	find := func(name string) *fastslowTarget {
		mt, err := protoregistry.GlobalTypes.FindMessageByName(protoreflect.FullName(name))
		if err != nil {
			c.PropFail("C08", "corpus type not linked: "+name)
			return nil
		}
		md := mt.Descriptor()
		return &fastslowTarget{mt: mt, md: md, reachMS: msgReachesMessageSet(md, map[protoreflect.FullName]bool{}), legacy: msgLegacyReach(md)}
	}
	// F13 witness: a MessageSet with one item (extension 10 = MessageSetExtension1? any number) and an unknown field
	if t := find("goproto.proto.messageset.MessageSet"); t != nil {
		A := []byte{0x0b, 0x10, 0x0a, 0x1a, 0x02, 0x08, 0x01, 0x0c}
		d.run(t, A, A)
		d.run(t, []byte{}, []byte{})
	}
	// FL1 witness: goproto.proto.test3.repeated_string_ext (field 1001? looked up) on MessageOptions
	if t := find("google.protobuf.MessageOptions"); t != nil {
		for _, xd := range msgExtensionsOf(t.md) {
			if xd.IsList() && xd.Kind() == protoreflect.StringKind && strs.EnforceUTF8(xd) {
				A := protowire.AppendTag(nil, xd.Number(), protowire.BytesType)
				A = protowire.AppendBytes(A, []byte("\xe2\x82"))
				d.run(t, A, A)
				c.Stat("corpus_FL1_witness")
				break
			}
		}
	}
	// extension-map shapes (empty-list entries vs populated entries): Equal of this build's path vs
	// the reflection algorithm vs content vs deterministic bytes, all ordered pairs
	sub := c.Fork() // one draw in parent and child alike; only the parent enumerates
	if d.child == nil {
		equalExtShapes(sub, "C08", "goproto.proto.test.TestAllExtensions", nil)
	}
	// FWC1 witness: oneof_required (second member of the oneof) = an empty TestRequired
	if t := find("goproto.proto.test.TestOneofWithRequired"); t != nil {
		before := c.stats["known_FWC1"]
		d.run(t, []byte{0x12, 0x00}, []byte{0x12, 0x00})
		if fastslowBuildName == "default" && c.stats["known_FWC1"] == before && d.child == nil {
			c.Stat("FWC1_witness_passes")
		}
		d.run(t, []byte{0x12, 0x02, 0x08, 0x01}, []byte{0x08, 0x01}) // initialized member; first member
	}
	// unknown fields with non-minimal tags, groups, required fields, oneofs last, extensions first
	for _, name := range []string{"goproto.proto.test.TestAllTypes", "goproto.proto.test3.TestAllTypes", "goproto.proto.test.TestAllExtensions",
		"goproto.proto.test.TestRequired", "goproto.proto.testeditions.TestAllTypes", "opaque.goproto.proto.testeditions.TestAllTypes"} {
		t := find(name)
		if t == nil {
			continue
		}
		for _, A := range [][]byte{
			{0xa0, 0xbe, 0x00, 0x01},                   // field 996 varint, tag in 3 bytes
			{0xa3, 0xbe, 0x80, 0x00, 0xa4, 0x3e},       // group 996 with padded start tag
			{0x08, 0x01, 0xa0, 0x3e, 0x02, 0x08, 0x03}, // known, unknown, known again
			{0x0d, 0x01, 0x00, 0x00, 0x00},             // field 1 with the wrong wire type
			{0x08},                                     // truncated
			{0x0b, 0x0c},                               // empty group on a non-group field
		} {
			d.run(t, A, A)
			d.run(t, A, []byte{})
		}
	}
}

// fastslowDebug (VERIF_FS_DEBUG=<type>,<xhexA>,<xhexB>): print the decoded and merged dumps of one
// case for both flavours; a diagnosis aid, not part of the check.
func fastslowDebug(spec string) {
	parts := strings.Split(spec, ",")
	if len(parts) != 3 {
		return
	}
	mt, err := protoregistry.GlobalTypes.FindMessageByName(protoreflect.FullName(parts[0]))
	if err != nil {
		fmt.Println("no such type")
		return
	}
	A, B := ParseHexB(parts[1]), ParseHexB(parts[2])
	for name, mk := range map[string]func() protoreflect.Message{
		"gen": func() protoreflect.Message { return mt.New() },
		"dyn": func() protoreflect.Message { return dynamicpb.NewMessage(mt.Descriptor()) }} {
		part := proto.UnmarshalOptions{AllowPartial: true, NoLazyDecoding: true}
		m, m2 := mk(), mk()
		e1 := part.Unmarshal(A, m.Interface())
		e2 := part.Unmarshal(B, m2.Interface())
		fmt.Println(name, "decA", e1, strings.Join(msgDump(m), " "))
		fmt.Println(name, "decB", e2, strings.Join(msgDump(m2), " "))
		proto.Merge(m.Interface(), m2.Interface())
		fmt.Println(name, "merge", strings.Join(msgDump(m), " "))
		fmt.Println(name, "obs", fastslowObserve(mk, A, B))
	}
}

func famFastslow(c *Ctx) {
	if spec := os.Getenv("VERIF_FS_DEBUG"); spec != "" {
		fastslowDebug(spec)
		return
	}
	d := &fastslowRun{c: c, child: detChildOpen()}
	d.corpus()
	targets := fastslowTypes()
	c.StatN("types", len(targets))
	var heavy []*fastslowTarget
	heavyNames := map[string]bool{}
	for _, n := range []string{"goproto.proto.test.TestAllTypes", "goproto.proto.test3.TestAllTypes", "goproto.proto.testeditions.TestAllTypes",
		"hybrid.goproto.proto.test3.TestAllTypes", "opaque.goproto.proto.test3.TestAllTypes", "opaque.goproto.proto.testeditions.TestAllTypes",
		"goproto.proto.test.TestAllExtensions", "goproto.proto.testeditions.TestAllExtensions", "goproto.proto.test.TestRequired",
		"goproto.proto.test.TestRequiredForeign", "goproto.proto.test.TestPackedTypes", "goproto.proto.test.TestUnpackedTypes"} {
		heavyNames[n] = true
	}
	for _, t := range targets {
		if heavyNames[string(t.md.FullName())] {
			heavy = append(heavy, t)
		}
	}
	spent := 0
	start := c.Intn(len(targets))
	for i := 0; i < len(targets) && spent < c.N/2; i++ {
		d.one(targets[(start+i)%len(targets)], 1+c.Intn(3))
		spent++
	}
	for spent < c.N {
		if len(heavy) > 0 && c.Intn(2) == 0 {
			d.one(heavy[c.Intn(len(heavy))], 1+c.Intn(3))
		} else {
			d.one(targets[c.Intn(len(targets))], 1+c.Intn(3))
		}
		spent++
	}
	if d.child != nil {
		d.child.Close()
		return
	}
	// the other build
	other := os.Getenv(fastslowOtherEnv)
	if other == "" {
		other = filepath.Join(filepath.Dir(os.Args[0]), fastslowOtherBin)
	}
	if _, err := os.Stat(other); err != nil {
		c.PropFail("C08", "harness binary of the other build not found: "+other)
		return
	}
	lines, err := detSelfExec(c, other, "fastslow", nil)
	if err != nil {
		c.PropFail("C08", "other build failed: "+err.Error())
		return
	}
	if len(lines) != len(d.cases) {
		c.PropFail("C08", fmt.Sprintf("other build ran %d cases, this build %d (case generation differs between the builds)", len(lines), len(d.cases)))
		return
	}
	for i, l := range lines {
		cs := d.cases[i]
		if len(l) < 2 || l[0] != strconv.Itoa(i) || l[1] != string(cs.t.md.FullName()) {
			c.PropFail("C08", fmt.Sprintf("other build diverges at case %d", i))
			return
		}
		c.Stat("cross_build_cases")
		d.compare(cs.t, cs.A, cs.B, "generated ("+fastslowBuildName+" build)", cs.gen, "generated (other build)", l[2:])
	}
}
