//go:build verif && race

package main

const concRaceEnabled = true
