//go:build verif

package main

// family "uniq": property C26 (JSON and text decoders are total and enforce field uniqueness).
//
// C lines:
//
//	ints <op>...                       | <obs>...   internal/set.Ints: s<hex> set, c<hex> clear, h<hex> has -> 0/1, l len -> decimal
//	events <j|t> <limit> <discard> <tree> <doc>  | accept / rej<class> / panic
//
// <tree> is the field-event tree of the generated document (derived from the generator, never from the
// decoder):  body ::= "(" fld* ")"   fld ::= "K" num cls oneof null body* "." | "U" reserved depth | "S" depth | "N"
//
// P lines: panic; accepted although a non-repeated field is named twice, two members of a oneof are
// named, or the nesting exceeds RecursionLimit.

import (
	"fmt"
	"sort"
	"strings"

	"google.golang.org/protobuf/encoding/protojson"
	"google.golang.org/protobuf/encoding/prototext"
	"google.golang.org/protobuf/internal/encoding/messageset"
	"google.golang.org/protobuf/internal/set"
	"google.golang.org/protobuf/proto"
	"google.golang.org/protobuf/reflect/protoreflect"
	"google.golang.org/protobuf/reflect/protoregistry"
)

func init() { Register("uniq", famUniq) }

// ---------------------------------------------------------------- set.Ints

var uniqSetNums = []uint64{0, 1, 2, 31, 32, 62, 63, 64, 65, 127, 128, 1000, 536870911, 1 << 32, 1<<63 - 1, 1 << 63, 1<<64 - 1}

func uniqIntsCase(c *Ctx, nops int) {
	var s set.Ints
	ref := map[uint64]bool{}
	var ins, obs []string
	pick := func() uint64 {
		switch c.Intn(4) {
		case 0:
			return uniqSetNums[c.Intn(len(uniqSetNums))]
		case 1:
			return uint64(c.Intn(70))
		case 2:
			return uint64(c.Intn(200))
		}
		return c.U64() >> uint(c.Intn(64))
	}
	for i := 0; i < nops; i++ {
		n := pick()
		switch c.Intn(8) {
		case 0, 1, 2:
			s.Set(n)
			ref[n] = true
			ins = append(ins, "s"+HexN(n))
		case 3:
			s.Clear(n)
			delete(ref, n)
			ins = append(ins, "c"+HexN(n))
		case 4, 5, 6:
			h := s.Has(n)
			ins = append(ins, "h"+HexN(n))
			obs = append(obs, Tok(h))
			if h != ref[n] {
				c.PropFail("C26", "set.Ints.Has disagrees with a reference set", strings.Join(ins, " "))
			}
		default:
			l := s.Len()
			ins = append(ins, "l")
			obs = append(obs, fmt.Sprint(l))
			if l != len(ref) {
				c.PropFail("C26", "set.Ints.Len disagrees with a reference set", strings.Join(ins, " "))
			}
		}
	}
	ins = append(ins, "l")
	obs = append(obs, fmt.Sprint(s.Len()))
	c.Case("uniq", "ints", ins, obs)
	c.Stat("ints")
}

// ---------------------------------------------------------------- event trees

type uniqFld struct {
	kind     byte // 'K' known, 'U' unknown, 'S' scan, 'N' known field by number
	num      uint64
	cls      byte // 's' singular, 'l' list, 'm' map
	oneof    int  // -1: none
	null     bool
	children [][]uniqFld
	reserved bool
	d        int
}

func uniqTreeTok(sb *strings.Builder, body []uniqFld) {
	sb.WriteString("(")
	for _, f := range body {
		switch f.kind {
		case 'K':
			one := "-"
			if f.oneof >= 0 {
				one = fmt.Sprint(f.oneof)
			}
			fmt.Fprintf(sb, " K %d %c %s %s", f.num, f.cls, one, Tok(f.null))
			for _, ch := range f.children {
				sb.WriteString(" ")
				uniqTreeTok(sb, ch)
			}
			sb.WriteString(" .")
		case 'U':
			fmt.Fprintf(sb, " U %s %d", Tok(f.reserved), f.d)
		case 'S':
			fmt.Fprintf(sb, " S %d", f.d)
		case 'N':
			sb.WriteString(" N")
		}
	}
	sb.WriteString(" )")
}

// ---------------------------------------------------------------- document generator

type uniqGen struct {
	c        *Ctx
	dec      byte // 'j' or 't'
	budget   int  // no message is generated below this level
	deep     int  // deepest level reached, in the decoder's own accounting (top-level message = 1)
	synDeep  int  // deepest syntactic message nesting (what the property calls nesting)
	hasDup   bool // a non-repeated field is named twice in some message
	hasOneof bool // two members of one oneof are named in some message
	unknown  bool // an unknown (not reserved) name occurs
	bynum    bool
	inject   int // 0 none, 1 duplicate, 2 oneof pair
	unkProb  int // percentage of unknown fields
	nUnknown int
}

var uniqJSONScalarWKT = map[protoreflect.FullName]string{
	"google.protobuf.BoolValue": "true", "google.protobuf.Int32Value": "7", "google.protobuf.Int64Value": `"7"`,
	"google.protobuf.UInt32Value": "7", "google.protobuf.UInt64Value": `"7"`, "google.protobuf.FloatValue": "1.5",
	"google.protobuf.DoubleValue": "1.5", "google.protobuf.StringValue": `"s"`, "google.protobuf.BytesValue": `"YWJj"`,
	"google.protobuf.Timestamp": `"2000-01-02T03:04:05Z"`, "google.protobuf.Duration": `"3s"`,
	"google.protobuf.FieldMask": `"fooBar"`, "google.protobuf.Empty": "{}",
}

func (g *uniqGen) note(level int) {
	if level > g.deep {
		g.deep = level
	}
}
func (g *uniqGen) noteSyn(level int) {
	if level > g.synDeep {
		g.synDeep = level
	}
}

func (g *uniqGen) scalar(fd protoreflect.FieldDescriptor) string {
	j := g.dec == 'j'
	c := g.c
	switch fd.Kind() {
	case protoreflect.BoolKind:
		return []string{"true", "false"}[c.Intn(2)]
	case protoreflect.EnumKind:
		v := fd.Enum().Values().Get(c.Intn(fd.Enum().Values().Len()))
		if fd.Enum().FullName() == "google.protobuf.NullValue" && j {
			return "null"
		}
		if c.Bool() {
			return fmt.Sprint(int32(v.Number()))
		}
		if j {
			return `"` + string(v.Name()) + `"`
		}
		return string(v.Name())
	case protoreflect.Int32Kind, protoreflect.Sint32Kind, protoreflect.Sfixed32Kind:
		return fmt.Sprint(c.Intn(200) - 100)
	case protoreflect.Uint32Kind, protoreflect.Fixed32Kind:
		return fmt.Sprint(c.Intn(200))
	case protoreflect.Int64Kind, protoreflect.Sint64Kind, protoreflect.Sfixed64Kind:
		if j && c.Bool() {
			return fmt.Sprintf(`"%d"`, c.Intn(200)-100)
		}
		return fmt.Sprint(c.Intn(200) - 100)
	case protoreflect.Uint64Kind, protoreflect.Fixed64Kind:
		if j && c.Bool() {
			return fmt.Sprintf(`"%d"`, c.Intn(200))
		}
		return fmt.Sprint(c.Intn(200))
	case protoreflect.FloatKind, protoreflect.DoubleKind:
		return []string{"1.5", "0", "-2", "1e3"}[c.Intn(4)]
	case protoreflect.StringKind:
		return `"` + []string{"", "a", "hello", "x y"}[c.Intn(4)] + `"`
	case protoreflect.BytesKind:
		if j {
			return `"` + []string{"", "YQ==", "YWJj"}[c.Intn(3)] + `"`
		}
		return `"` + []string{"", "a", "abc"}[c.Intn(3)] + `"`
	}
	return "0"
}

func (g *uniqGen) mapKey(fd protoreflect.FieldDescriptor, i int) string {
	switch fd.Kind() {
	case protoreflect.BoolKind:
		s := []string{"true", "false"}[i%2]
		if g.dec == 'j' {
			return `"` + s + `"`
		}
		return s
	case protoreflect.StringKind:
		return fmt.Sprintf(`"k%d"`, i)
	}
	if g.dec == 'j' {
		return fmt.Sprintf(`"%d"`, i)
	}
	return fmt.Sprint(i)
}

func uniqSkipMessage(md protoreflect.MessageDescriptor) bool {
	return messageset.IsMessageSet(md)
}

func (g *uniqGen) name(fd protoreflect.FieldDescriptor) string {
	if fd.IsExtension() {
		if g.dec == 'j' {
			return `"[` + string(fd.FullName()) + `]"`
		}
		return "[" + string(fd.FullName()) + "]"
	}
	if g.dec == 'j' {
		if g.c.Bool() {
			return `"` + fd.JSONName() + `"`
		}
		return `"` + fd.TextName() + `"`
	}
	return fd.TextName()
}

// message renders a message value of type md at the given level and returns its text and body tree.
func (g *uniqGen) message(md protoreflect.MessageDescriptor, level int) (string, []uniqFld) {
	g.note(level)
	g.noteSyn(level)
	j := g.dec == 'j'
	if j {
		if lit, ok := uniqJSONScalarWKT[md.FullName()]; ok {
			return lit, nil
		}
		switch md.FullName() {
		case "google.protobuf.Value":
			return g.jsonValue(level)
		case "google.protobuf.Struct":
			return g.jsonStruct(level)
		case "google.protobuf.ListValue":
			return g.jsonListValue(level)
		case "google.protobuf.Any":
			return g.jsonAny(level)
		}
	} else if md.FullName() == "google.protobuf.Any" {
		return g.textAny(level)
	}
	items, tree := g.body(md, level)
	if j {
		return "{" + strings.Join(items, ", ") + "}", tree
	}
	if g.c.Intn(5) == 0 {
		return "<" + strings.Join(items, " ") + ">", tree
	}
	sep := " "
	if g.c.Intn(4) == 0 {
		sep = []string{", ", "; ", "\n"}[g.c.Intn(3)]
	}
	return "{" + strings.Join(items, sep) + "}", tree
}

// google.protobuf.Value in JSON: unmarshalKnownValue calls unmarshalStruct / unmarshalListValue directly
// (no unmarshalMessage, no RecursionLimit unit) on the Struct / ListValue inside the Value; every member
// Value is one unmarshalMessage.  In the tree the Value body therefore holds the map (num 5) or list
// (num 6) of member Values directly.
func (g *uniqGen) jsonValue(level int) (string, []uniqFld) {
	g.note(level)
	if level < g.budget && g.c.Intn(3) == 0 {
		g.noteSyn(level)
		n := g.c.Intn(3)
		var items []string
		var kids [][]uniqFld
		obj := g.c.Bool()
		for i := 0; i < n; i++ {
			s, t := g.jsonValue(level + 1)
			if obj {
				s = fmt.Sprintf(`"k%d": %s`, i, s)
			}
			items = append(items, s)
			kids = append(kids, t)
		}
		if obj {
			return "{" + strings.Join(items, ", ") + "}", []uniqFld{{kind: 'K', num: 5, cls: 'm', oneof: -1, children: kids}}
		}
		return "[" + strings.Join(items, ", ") + "]", []uniqFld{{kind: 'K', num: 6, cls: 'l', oneof: -1, children: kids}}
	}
	return []string{"null", "1.5", `"s"`, "true"}[g.c.Intn(4)], nil
}
func (g *uniqGen) jsonStruct(level int) (string, []uniqFld) {
	g.note(level)
	g.noteSyn(level)
	n := g.c.Intn(3)
	var items []string
	var kids [][]uniqFld
	for i := 0; i < n && level < g.budget; i++ {
		s, t := g.jsonValue(level + 1)
		items = append(items, fmt.Sprintf(`"k%d": %s`, i, s))
		kids = append(kids, t)
	}
	if len(items) == 0 {
		return "{}", nil
	}
	return "{" + strings.Join(items, ", ") + "}", []uniqFld{{kind: 'K', num: 1, cls: 'm', oneof: -1, children: kids}}
}
func (g *uniqGen) jsonListValue(level int) (string, []uniqFld) {
	g.note(level)
	n := g.c.Intn(3)
	var items []string
	var kids [][]uniqFld
	for i := 0; i < n && level < g.budget; i++ {
		s, t := g.jsonValue(level + 1)
		items = append(items, s)
		kids = append(kids, t)
	}
	if len(items) == 0 {
		return "[]", nil
	}
	return "[" + strings.Join(items, ", ") + "]", []uniqFld{{kind: 'K', num: 1, cls: 'l', oneof: -1, children: kids}}
}

// bracket nesting of a rendered JSON value (string literals are skipped; generated strings have no escapes)
func uniqJSONNesting(s string) int {
	d, m := 0, 0
	instr := false
	for i := 0; i < len(s); i++ {
		if s[i] == '"' {
			instr = !instr
			continue
		}
		if instr {
			continue
		}
		switch s[i] {
		case '{', '[':
			d++
			if d > m {
				m = d
			}
		case '}', ']':
			d--
		}
	}
	return m
}

var uniqAnyTypes = []protoreflect.FullName{"goproto.proto.test.TestAllTypes", "goproto.proto.test3.TestAllTypes", "pb2.Nested", "pb3.Nested", "pb2.Nests"}

func (g *uniqGen) jsonAny(level int) (string, []uniqFld) {
	g.note(level)
	g.noteSyn(level)
	if level >= g.budget || g.c.Intn(4) == 0 {
		return "{}", nil
	}
	mt, err := protoregistry.GlobalTypes.FindMessageByName(uniqAnyTypes[g.c.Intn(len(uniqAnyTypes))])
	if err != nil {
		return "{}", nil
	}
	g.note(level + 1)
	g.noteSyn(level + 1)
	items, tree := g.body(mt.Descriptor(), level+1)
	scan := 0
	for _, it := range items {
		// every member value is skipped once by findTypeURL
		if n := uniqJSONNesting(it); n > scan {
			scan = n
		}
	}
	at := fmt.Sprintf(`"@type": "type.googleapis.com/%s"`, mt.Descriptor().FullName())
	k := 0
	if len(items) > 0 {
		k = g.c.Intn(len(items) + 1)
	}
	all := append(append(append([]string{}, items[:k]...), at), items[k:]...)
	return "{" + strings.Join(all, ", ") + "}", []uniqFld{{kind: 'S', d: scan}, {kind: 'K', num: 2, cls: 's', oneof: -1, children: [][]uniqFld{tree}}}
}

func (g *uniqGen) textAny(level int) (string, []uniqFld) {
	g.note(level)
	g.noteSyn(level)
	switch g.c.Intn(4) {
	case 0:
		return "{}", nil
	case 1:
		tree := []uniqFld{{kind: 'K', num: 1, cls: 's', oneof: -1}, {kind: 'K', num: 2, cls: 's', oneof: -1}}
		s := `type_url: "x/y" value: "abc"`
		switch g.c.Intn(6) {
		case 0:
			s += ` type_url: "z"`
			tree = append(tree, uniqFld{kind: 'K', num: 1, cls: 's', oneof: -1})
			g.hasDup = true
		case 1:
			s += ` value: "z"`
			tree = append(tree, uniqFld{kind: 'K', num: 2, cls: 's', oneof: -1})
			g.hasDup = true
		}
		return "{" + s + "}", tree
	}
	if level >= g.budget {
		return "{}", nil
	}
	mt, err := protoregistry.GlobalTypes.FindMessageByName(uniqAnyTypes[g.c.Intn(len(uniqAnyTypes))])
	if err != nil {
		return "{}", nil
	}
	s, tree := g.message(mt.Descriptor(), level+1)
	return fmt.Sprintf("{[type.googleapis.com/%s] %s}", mt.Descriptor().FullName(), s), []uniqFld{{kind: 'K', num: 2, cls: 's', oneof: -1, children: [][]uniqFld{tree}}}
}

// unknown field value: returns text and its bracket nesting as the decoder counts it
func (g *uniqGen) skipValue(level int, depth int) (string, int) {
	c := g.c
	if g.dec == 'j' {
		if depth <= 0 {
			return []string{"1", `"u"`, "null", "true"}[c.Intn(4)], 0
		}
		inner, d := g.skipValue(level, depth-1)
		switch c.Intn(3) {
		case 0:
			return "[" + inner + "]", d + 1
		case 1:
			return `{"a": ` + inner + `}`, d + 1
		}
		inner2, d2 := g.skipValue(level, c.Intn(depth))
		m := d + 1 // "b": [inner, 3]
		if d2 > m {
			m = d2
		}
		return `{"a": ` + inner2 + `, "b": [` + inner + `, 3]}`, m + 1
	}
	if depth <= 0 {
		return []string{": 1", `: "u"`, ": IDENT", ": [1, 2]", ": -inf"}[c.Intn(5)], 0
	}
	inner, d := g.skipValue(level, depth-1)
	switch c.Intn(3) {
	case 0:
		return " { a" + inner + " }", d + 1
	case 1:
		return ": < a" + inner + " b: 2 >", d + 1
	}
	inner2, d2 := g.skipValue(level, c.Intn(depth))
	if d2 > d {
		d = d2
	}
	return ": [ { x" + inner2 + " }, { y" + inner + " } ]", d + 1
}

type uniqItem struct {
	text string
	fld  uniqFld
	fd   protoreflect.FieldDescriptor
}

// field renders one occurrence of fd inside a message at the given level.
func (g *uniqGen) field(fd protoreflect.FieldDescriptor, level int, allowNull bool) (uniqItem, bool) {
	c := g.c
	j := g.dec == 'j'
	f := uniqFld{kind: 'K', num: uint64(fd.Number()), cls: 's', oneof: -1}
	if od := fd.ContainingOneof(); od != nil {
		f.oneof = od.Index()
	}
	name := g.name(fd)
	msgOK := func(md protoreflect.MessageDescriptor) bool { return !uniqSkipMessage(md) && level < g.budget }
	sepMsg := func() string { // text: the separator is optional before a message value
		if c.Bool() {
			return " "
		}
		return ": "
	}
	switch {
	case fd.IsMap():
		f.cls = 'm'
		f.oneof = -1
		vfd := fd.MapValue()
		n := c.Intn(3)
		if vfd.Message() != nil && !msgOK(vfd.Message()) {
			n = 0
		}
		if j {
			var ents []string
			for i := 0; i < n; i++ {
				var v string
				if vfd.Message() != nil {
					var t []uniqFld
					v, t = g.message(vfd.Message(), level+1)
					f.children = append(f.children, t)
				} else {
					v = g.scalar(vfd)
				}
				ents = append(ents, g.mapKey(fd.MapKey(), i)+": "+v)
			}
			return uniqItem{name + ": {" + strings.Join(ents, ", ") + "}", f, fd}, true
		}
		// text: one entry per occurrence, or a list of entries; the entry level costs one RecursionLimit unit
		if level+1 > g.budget {
			return uniqItem{}, false
		}
		g.note(level + 1)
		var ents []string
		for i := 0; i < n; i++ {
			var v string
			if vfd.Message() != nil {
				if level+2 > g.budget {
					break
				}
				var t []uniqFld
				v, t = g.message(vfd.Message(), level+2)
				v = "value" + sepMsg() + v
				f.children = append(f.children, t)
			} else {
				v = "value: " + g.scalar(vfd)
			}
			g.noteSyn(level + 1)
			ents = append(ents, "{key: "+g.mapKey(fd.MapKey(), i)+" "+v+"}")
		}
		if len(ents) == 1 && c.Bool() {
			return uniqItem{name + sepMsg() + ents[0], f, fd}, true
		}
		return uniqItem{name + ": [" + strings.Join(ents, ", ") + "]", f, fd}, true
	case fd.IsList():
		f.cls = 'l'
		f.oneof = -1
		n := c.Intn(3)
		if fd.Message() != nil && !msgOK(fd.Message()) {
			n = 0
		}
		var vals []string
		for i := 0; i < n; i++ {
			if fd.Message() != nil {
				v, t := g.message(fd.Message(), level+1)
				vals = append(vals, v)
				f.children = append(f.children, t)
			} else {
				vals = append(vals, g.scalar(fd))
			}
		}
		if j {
			return uniqItem{name + ": [" + strings.Join(vals, ", ") + "]", f, fd}, true
		}
		if len(vals) == 1 && c.Bool() {
			if fd.Message() != nil {
				return uniqItem{name + sepMsg() + vals[0], f, fd}, true
			}
			return uniqItem{name + ": " + vals[0], f, fd}, true
		}
		return uniqItem{name + ": [" + strings.Join(vals, ", ") + "]", f, fd}, true
	}
	// singular
	if fd.Message() != nil {
		isValue := fd.Message().FullName() == "google.protobuf.Value"
		if j && allowNull && !isValue && c.Intn(8) == 0 {
			f.null = true
			return uniqItem{name + ": null", f, fd}, true
		}
		if !msgOK(fd.Message()) {
			return uniqItem{}, false
		}
		v, t := g.message(fd.Message(), level+1)
		f.children = [][]uniqFld{t}
		if j {
			return uniqItem{name + ": " + v, f, fd}, true
		}
		return uniqItem{name + sepMsg() + v, f, fd}, true
	}
	isNullEnum := fd.Enum() != nil && fd.Enum().FullName() == "google.protobuf.NullValue"
	if j && allowNull && !isNullEnum && c.Intn(8) == 0 {
		f.null = true
		return uniqItem{name + ": null", f, fd}, true
	}
	return uniqItem{name + ": " + g.scalar(fd), f, fd}, true
}

// body renders the fields of a message of type md.
func (g *uniqGen) body(md protoreflect.MessageDescriptor, level int) ([]string, []uniqFld) {
	c := g.c
	fds := md.Fields()
	var cands []protoreflect.FieldDescriptor
	for i := 0; i < fds.Len(); i++ {
		cands = append(cands, fds.Get(i))
	}
	if md.ExtensionRanges().Len() > 0 {
		protoregistry.GlobalTypes.RangeExtensionsByMessage(md.FullName(), func(xt protoreflect.ExtensionType) bool {
			cands = append(cands, xt.TypeDescriptor())
			return true
		})
		sort.Slice(cands, func(i, j int) bool { return cands[i].FullName() < cands[j].FullName() })
	}
	var items []uniqItem
	usedNum := map[protoreflect.FieldNumber]bool{}
	usedOneof := map[int]bool{}
	n := c.Intn(5)
	if len(cands) == 0 {
		n = 0
	}
	for i := 0; i < n; i++ {
		fd := cands[c.Intn(len(cands))]
		if c.Intn(3) == 0 { // prefer message-typed fields now and then (depth)
			for k := 0; k < 6 && fd.Message() == nil; k++ {
				fd = cands[c.Intn(len(cands))]
			}
		}
		if usedNum[fd.Number()] {
			continue
		}
		od := fd.ContainingOneof()
		if od != nil && usedOneof[od.Index()] {
			continue
		}
		it, ok := g.field(fd, level, true)
		if !ok {
			continue
		}
		usedNum[fd.Number()] = true
		if od != nil && !it.fld.null {
			usedOneof[od.Index()] = true
		}
		if od != nil && it.fld.null {
			// a null member does not mark the oneof in JSON; keep other members out to stay simple
			usedOneof[od.Index()] = true
		}
		items = append(items, it)
	}
	// text: lists and maps may legally be named more than once
	if g.dec == 't' && len(items) > 0 && c.Intn(4) == 0 {
		src := items[c.Intn(len(items))]
		if src.fld.kind == 'K' && src.fld.cls != 's' {
			if it, ok := g.field(src.fd, level, false); ok {
				items = append(items, it)
				c.Stat("events:t:legal-repeat")
			}
		}
	}
	// violations
	if g.inject == 1 && len(items) > 0 && c.Intn(3) == 0 {
		src := items[c.Intn(len(items))]
		if it, ok := g.field(src.fd, level, false); ok {
			items = append(items, it)
			if g.dec == 'j' || it.fld.cls == 's' {
				g.hasDup = true
			}
			g.inject = 0
		}
	}
	if g.inject == 2 && c.Intn(3) == 0 {
		for _, k := range c.perm(len(items)) {
			src := items[k]
			od := src.fd.ContainingOneof()
			if od == nil || od.Fields().Len() < 2 || src.fld.null {
				continue
			}
			other := od.Fields().Get(c.Intn(od.Fields().Len()))
			if other.Number() == src.fd.Number() {
				continue
			}
			if it, ok := g.field(other, level, false); ok {
				items = append(items, it)
				g.hasOneof = true
				g.inject = 0
			}
			break
		}
		if g.inject == 2 && len(items) == 0 {
			// start a pair from scratch
			for i := 0; i < fds.Len(); i++ {
				od := fds.Get(i).ContainingOneof()
				if od != nil && od.Fields().Len() >= 2 {
					a, ok1 := g.field(od.Fields().Get(0), level, false)
					b, ok2 := g.field(od.Fields().Get(1), level, false)
					if ok1 && ok2 {
						items = append(items, a, b)
						g.hasOneof = true
						g.inject = 0
					}
					break
				}
			}
		}
	}
	// unknown fields, reserved names, fields by number
	if c.Intn(100) < g.unkProb {
		g.nUnknown++
		v, d := g.skipValue(level, c.Intn(4))
		f := uniqFld{kind: 'U', d: d}
		var nm string
		if g.dec == 'j' {
			nm = fmt.Sprintf(`"zzUnknown%d": `, g.nUnknown)
			g.unknown = true
		} else {
			nm = fmt.Sprintf("zz_unknown_%d", g.nUnknown)
			switch {
			case md.ReservedNames().Len() > 0 && c.Bool():
				nm = string(md.ReservedNames().Get(c.Intn(md.ReservedNames().Len())))
				f.reserved = true
			case c.Intn(4) == 0:
				nm = "536870000" // a field number nobody declares
				g.unknown = true
			default:
				g.unknown = true
			}
		}
		g.note(level + d)
		g.noteSyn(level + d)
		items = append(items, uniqItem{text: nm + v, fld: f})
	}
	if g.dec == 't' && fds.Len() > 0 && c.Intn(60) == 0 {
		fd := fds.Get(c.Intn(fds.Len()))
		if fd.Message() == nil && !fd.IsList() && !fd.IsMap() {
			items = append(items, uniqItem{text: fmt.Sprintf("%d: %s", fd.Number(), g.scalar(fd)), fld: uniqFld{kind: 'N'}})
			g.bynum = true
		}
	}
	// shuffle (keeps document order = tree order)
	for i := len(items) - 1; i > 0; i-- {
		k := c.Intn(i + 1)
		items[i], items[k] = items[k], items[i]
	}
	var texts []string
	var tree []uniqFld
	for _, it := range items {
		texts = append(texts, it.text)
		tree = append(tree, it.fld)
	}
	return texts, tree
}

func (c *Ctx) perm(n int) []int {
	p := make([]int, n)
	for i := range p {
		p[i] = i
	}
	for i := n - 1; i > 0; i-- {
		k := c.Intn(i + 1)
		p[i], p[k] = p[k], p[i]
	}
	return p
}

// ---------------------------------------------------------------- running the decoders

func uniqClass(dec byte, err error) string {
	s := err.Error()
	switch {
	case strings.Contains(s, "duplicate field"), strings.Contains(s, "is repeated"), strings.Contains(s, "duplicate google.protobuf.Any"):
		return "rej1"
	case strings.Contains(s, "is already set"):
		return "rej2"
	case strings.Contains(s, "recursion depth"):
		return "rej3"
	case strings.Contains(s, "unknown field"):
		return "rej4"
	case strings.Contains(s, "cannot specify field by number"):
		return "rej5"
	}
	return "err:" + strings.ReplaceAll(strings.ReplaceAll(s, "\t", " "), "\n", " ")
}

// uniqDecode runs one decoder; a panic is reported as observation "panic".
func uniqDecode(dec byte, doc []byte, m proto.Message, limit int, discard bool) (obs string) {
	defer func() {
		if r := recover(); r != nil {
			obs = "panic"
		}
	}()
	var err error
	if dec == 'j' {
		err = protojson.UnmarshalOptions{AllowPartial: true, DiscardUnknown: discard, RecursionLimit: limit}.Unmarshal(doc, m)
	} else {
		err = prototext.UnmarshalOptions{AllowPartial: true, DiscardUnknown: discard, RecursionLimit: limit}.Unmarshal(doc, m)
	}
	if err != nil {
		return uniqClass(dec, err)
	}
	return "accept"
}

var uniqRootPrefixes = []string{"goproto.proto.test.", "goproto.proto.test3.", "goproto.proto.testeditions.", "pb2.", "pb3.", "pbeditions."}

func uniqRoots() []protoreflect.MessageType {
	var out []protoreflect.MessageType
	protoregistry.GlobalTypes.RangeMessages(func(mt protoreflect.MessageType) bool {
		md := mt.Descriptor()
		if md.IsMapEntry() || uniqSkipMessage(md) {
			return true
		}
		n := string(md.FullName())
		for _, p := range uniqRootPrefixes {
			if strings.HasPrefix(n, p) {
				out = append(out, mt)
				break
			}
		}
		return true
	})
	sort.Slice(out, func(i, j int) bool { return out[i].Descriptor().FullName() < out[j].Descriptor().FullName() })
	return out
}

var uniqFavourites = []protoreflect.FullName{"goproto.proto.test.TestAllTypes", "goproto.proto.test.TestAllExtensions", "goproto.proto.test3.TestAllTypes",
	"goproto.proto.testeditions.TestAllTypes", "pb2.Nests", "pb2.Oneofs", "pb2.Maps", "pb2.KnownTypes", "pb3.KnownTypes", "pb3.Oneofs", "pb3.Maps", "pb3.Nests",
	"pb2.Extensions", "pb2.ReservedFieldNames", "pb3.ReservedFieldNames", "goproto.proto.test.TestReservedFields", "pb2.Repeats", "pb3.Proto3Optional"}

// uniqEventsCase generates one document with its event tree, runs the decoder, prints the C line
// and evaluates the property.
func uniqEventsCase(c *Ctx, roots []protoreflect.MessageType, byName map[protoreflect.FullName]protoreflect.MessageType) []byte {
	var mt protoreflect.MessageType
	if c.Intn(4) != 0 {
		mt = byName[uniqFavourites[c.Intn(len(uniqFavourites))]]
	}
	if mt == nil {
		mt = roots[c.Intn(len(roots))]
	}
	g := &uniqGen{c: c, dec: []byte{'j', 't'}[c.Intn(2)], budget: 1 + c.Intn(7)}
	switch c.Intn(6) {
	case 0:
		g.inject = 1
	case 1:
		g.inject = 2
	}
	if c.Intn(3) == 0 {
		g.unkProb = 25
	}
	var doc string
	var tree []uniqFld
	if g.dec == 't' && mt.Descriptor().FullName() != "google.protobuf.Any" {
		items, t := g.body(mt.Descriptor(), 1)
		g.note(1)
		g.noteSyn(1)
		doc, tree = strings.Join(items, " "), t
	} else {
		doc, tree = g.message(mt.Descriptor(), 1)
	}
	// limit around the depth the document needs
	var limit int
	switch c.Intn(8) {
	case 0:
		limit = g.deep - 1
	case 1, 2:
		limit = g.deep
	case 3:
		limit = g.deep + 1
	case 4:
		limit = 1 + c.Intn(8)
	case 5:
		limit = 10000
	default:
		limit = g.deep + c.Intn(3)
	}
	if limit < 1 {
		limit = 1
	}
	discard := c.Bool()
	obs := uniqDecode(g.dec, []byte(doc), mt.New().Interface(), limit, discard)
	var sb strings.Builder
	uniqTreeTok(&sb, tree)
	c.Case("uniq", "events", []string{string(g.dec), fmt.Sprint(limit), Tok(discard), sb.String(), HexB([]byte(doc))}, []string{obs})
	c.Stat(fmt.Sprintf("events:%c:%s", g.dec, strings.SplitN(obs, ":", 2)[0]))
	if g.hasDup {
		c.Stat("events:with-duplicate")
	}
	if g.hasOneof {
		c.Stat("events:with-oneof-pair")
	}
	if g.synDeep > limit {
		c.Stat("events:deeper-than-limit")
	}
	if g.synDeep == limit {
		c.Stat("events:at-limit")
	}
	in := []string{string(mt.Descriptor().FullName()), string(g.dec), fmt.Sprint(limit), Tok(discard), HexB([]byte(doc))}
	switch {
	case obs == "panic":
		c.PropFail("C26", "decoder panicked", in...)
	case obs == "accept" && g.hasDup:
		c.PropFail("C26", "accepted although a non-repeated field is named twice", in...)
	case obs == "accept" && g.hasOneof:
		c.PropFail("C26", "accepted although two members of one oneof are named", in...)
	case obs == "accept" && g.synDeep > limit:
		c.PropFail("C26", fmt.Sprintf("accepted although nesting %d exceeds RecursionLimit %d", g.synDeep, limit), in...)
	}
	return []byte(doc)
}

// ---------------------------------------------------------------- prototext Any

// uniqAnyEvents: every sequence of up to three Any field events (type_url: / value: / expanded form)
// through prototext; the loop of unmarshalAny is modelled by tany.
func uniqAnyEvents(c *Ctx, byName map[protoreflect.FullName]protoreflect.MessageType) {
	mt := byName["google.protobuf.Any"]
	if mt == nil {
		return
	}
	var seqs []string
	var gen func(p string, n int)
	gen = func(p string, n int) {
		seqs = append(seqs, p)
		if n == 0 {
			return
		}
		for _, e := range "TVE" {
			gen(p+string(e), n-1)
		}
	}
	gen("", 4)
	for _, evs := range seqs {
		var parts []string
		sets := 0
		for _, e := range evs {
			switch e {
			case 'T':
				parts = append(parts, `type_url: "type.googleapis.com/pb2.Nested"`)
			case 'V':
				parts = append(parts, `value: "\n\001a"`)
				sets++
			default:
				parts = append(parts, `[type.googleapis.com/pb2.Nested] {opt_string: "b"}`)
				sets++
			}
		}
		doc := strings.Join(parts, " ")
		obs := uniqDecode('t', []byte(doc), mt.New().Interface(), 100, false)
		if strings.HasPrefix(obs, "err:") && strings.Contains(obs, "conflict with") || strings.Contains(obs, "more than one type") {
			obs = "rej1"
		}
		fl3 := evs == "VE"
		c.Case("uniq", "anyev", []string{evs}, []string{obs, Tok(fl3)})
		c.Stat("anyev:" + strings.SplitN(obs, ":", 2)[0])
		switch {
		case obs == "panic":
			c.PropFail("C26", "decoder panicked", "google.protobuf.Any", "t", HexB([]byte(doc)))
		case obs == "accept" && sets >= 2 && fl3:
			c.Known("FL3", "C26", "prototext unmarshalAny accepts `value: ... [type.url] {...}`: Any.value is given twice")
		case obs == "accept" && sets >= 2:
			c.PropFail("C26", "prototext Any accepted although value is given twice", "google.protobuf.Any", "t", HexB([]byte(doc)))
		}
	}
}

// ---------------------------------------------------------------- targeted depth documents

// uniqDepthCases: chains of exactly n nested messages through known fields, unknown (discarded) fields,
// reserved names, Struct/Value/ListValue and Any, for limits n-1, n, n+1.
func uniqDepthCases(c *Ctx, byName map[protoreflect.FullName]protoreflect.MessageType) {
	for _, n := range []int{1, 2, 3, 5, 8, 40} {
		for _, dl := range []int{-1, 0, 1} {
			for _, dec := range []byte{'j', 't'} {
				for variant := 0; variant < 7; variant++ {
					uniqDepthOne(c, byName, dec, variant, n, n+dl)
				}
			}
		}
	}
	// the default limit
	for _, n := range []int{9999, 10000, 10001} {
		for _, dec := range []byte{'j', 't'} {
			for _, variant := range []int{6, 2} {
				uniqDepthOne(c, byName, dec, variant, n, 10000)
			}
		}
	}
}

// uniqRope builds deeply nested text inside-out without quadratic copying.
type uniqRope struct {
	opens, closes []string
	core          string
}

func (r *uniqRope) wrap(open, close string) {
	r.opens = append(r.opens, open)
	r.closes = append(r.closes, close)
}
func (r *uniqRope) String() string {
	var sb strings.Builder
	for i := len(r.opens) - 1; i >= 0; i-- {
		sb.WriteString(r.opens[i])
	}
	sb.WriteString(r.core)
	for _, c := range r.closes {
		sb.WriteString(c)
	}
	return sb.String()
}

// uniqDepthOne builds a document whose deepest point needs exactly n RecursionLimit units.
// variants: 0 singular known chain, 1 repeated known chain, 2 unknown discarded, 3 reserved name (text) /
// Struct-Value chain (JSON), 4 map chain, 5 Any chain.
func uniqDepthOne(c *Ctx, byName map[protoreflect.FullName]protoreflect.MessageType, dec byte, variant, n, limit int) {
	if limit < 1 || n < 1 {
		return
	}
	j := dec == 'j'
	root := protoreflect.FullName("goproto.proto.test.TestAllTypes.NestedMessage")
	discard := false
	var doc string
	var tree []uniqFld
	wrapK := func(num uint64, cls byte, oneof int, child []uniqFld) []uniqFld {
		return []uniqFld{{kind: 'K', num: num, cls: cls, oneof: oneof, children: [][]uniqFld{child}}}
	}
	syn := n
	switch variant {
	case 0, 1:
		// NestedMessage{ corecursive: TestAllTypes{ optional_nested_message / repeated_nested_message: NestedMessage ... } }
		// levels alternate NestedMessage (field corecursive = 2) and TestAllTypes (field 18 / 48)
		tree = nil
		rope := uniqRope{}
		if j {
			rope.core = "{}"
		}
		for lvl := n; lvl >= 2; lvl-- {
			// the message at level lvl is wrapped by a field of the message at level lvl-1
			parentIsNested := (lvl-1)%2 == 1
			if parentIsNested {
				if j {
					rope.wrap(`{"corecursive": `, `}`)
				} else {
					rope.wrap(`corecursive {`, `}`)
				}
				tree = wrapK(2, 's', -1, tree)
			} else if variant == 0 {
				if j {
					rope.wrap(`{"optionalNestedMessage": `, `}`)
				} else {
					rope.wrap(`optional_nested_message {`, `}`)
				}
				tree = wrapK(18, 's', -1, tree)
			} else {
				if j {
					rope.wrap(`{"repeatedNestedMessage": [`, `]}`)
				} else {
					rope.wrap(`repeated_nested_message: [{`, `}]`)
				}
				tree = wrapK(48, 'l', -1, tree)
			}
		}
		doc = rope.String()
	case 6:
		// pb2.Nested{opt_nested: Nested{...}}: a light recursive message (used at the default limit)
		root = "pb2.Nested"
		rope := uniqRope{}
		if j {
			rope.core = "{}"
		}
		for lvl := n; lvl >= 2; lvl-- {
			if j {
				rope.wrap(`{"optNested": `, `}`)
			} else {
				rope.wrap(`opt_nested {`, `}`)
			}
			tree = wrapK(2, 's', -1, tree)
		}
		doc = rope.String()
	case 2, 3:
		// one unknown field at the top level whose value nests n-1 deep
		d := n - 1
		discard = variant == 2 || j
		if j && variant == 3 {
			// Struct field: KnownTypes(1) . opt_struct: Struct(2) . member Value(3) . member Value(4) ...
			// (a Value that holds an object decodes the Struct in place, one unit per member Value)
			root = "pb2.KnownTypes"
			k := n - 2 // JSON objects under optStruct, the Struct itself included
			if k < 1 {
				return
			}
			inner := "1"
			var t []uniqFld // body of the innermost Value (a number)
			for i := 0; i < k-1; i++ {
				inner = `{"k": ` + inner + `}`
				t = []uniqFld{{kind: 'K', num: 5, cls: 'm', oneof: -1, children: [][]uniqFld{t}}}
			}
			doc = `{"optStruct": {"k": ` + inner + `}}`
			tree = wrapK(25, 's', -1, []uniqFld{{kind: 'K', num: 1, cls: 'm', oneof: -1, children: [][]uniqFld{t}}})
			syn = n - 1 // message objects: KnownTypes and the k objects; the innermost Value is a number
			break
		}
		if !j && variant == 3 {
			root = "pb2.ReservedFieldNames"
		}
		if j {
			rope := uniqRope{core: "1"}
			for i := 0; i < d; i++ {
				if i%2 == 0 {
					rope.wrap(`{"a": `, `}`)
				} else {
					rope.wrap(`[`, `]`)
				}
			}
			doc = `{"zzUnknown": ` + rope.String() + `}`
		} else {
			rope := uniqRope{core: ": 1"}
			for i := 0; i < d; i++ {
				rope.wrap(` { a`, ` }`)
			}
			v := rope.String()
			name := "zz_unknown"
			if variant == 3 {
				name = "reserved_field"
			}
			doc = name + v
		}
		tree = []uniqFld{{kind: 'U', reserved: variant == 3 && !j, d: d}}
	case 4:
		// pb2.Maps / str_to_nested: map<string, Nested>; Nested{ opt_nested: Nested }
		root = "pb2.Maps"
		if j {
			// Maps(1) . strToNested values: Nested(2) . optNested: Nested(3) ...
			if n < 2 {
				return
			}
			inner := "{}"
			var t []uniqFld
			for lvl := n; lvl >= 3; lvl-- {
				inner = `{"optNested": ` + inner + `}`
				t = wrapK(2, 's', -1, t)
			}
			doc = `{"strToNested": {"k": ` + inner + `}}`
			tree = []uniqFld{{kind: 'K', num: 4, cls: 'm', oneof: -1, children: [][]uniqFld{t}}}
		} else {
			// text: Maps(1) . entry(2) . value Nested(3) . opt_nested Nested(4) ...
			if n < 3 {
				return
			}
			inner := ""
			var t []uniqFld
			for lvl := n; lvl >= 4; lvl-- {
				inner = `opt_nested {` + inner + `}`
				t = wrapK(2, 's', -1, t)
			}
			doc = `str_to_nested { key: "k" value {` + inner + `} }`
			tree = []uniqFld{{kind: 'K', num: 4, cls: 'm', oneof: -1, children: [][]uniqFld{t}}}
		}
	case 5:
		// Any holding pb2.Nested{opt_nested: ...}: KnownTypes(1) . opt_any: Any(2) . embedded Nested(3) . opt_nested(4) ...
		root = "pb2.KnownTypes"
		if n < 3 {
			return
		}
		var t []uniqFld
		if j {
			inner := ""
			for lvl := n; lvl >= 4; lvl-- {
				if inner == "" {
					inner = `"optNested": {}`
				} else {
					inner = `"optNested": {` + inner + `}`
				}
				t = wrapK(2, 's', -1, t)
			}
			scan := 0
			if inner != "" {
				scan = uniqJSONNesting(inner)
				inner = ", " + inner
			}
			doc = `{"optAny": {"@type": "type.googleapis.com/pb2.Nested"` + inner + `}}`
			tree = wrapK(32, 's', -1, []uniqFld{{kind: 'S', d: scan}, {kind: 'K', num: 2, cls: 's', oneof: -1, children: [][]uniqFld{t}}})
		} else {
			inner := ""
			for lvl := n; lvl >= 4; lvl-- {
				inner = `opt_nested {` + inner + `}`
				t = wrapK(2, 's', -1, t)
			}
			doc = `opt_any { [type.googleapis.com/pb2.Nested] {` + inner + `} }`
			tree = wrapK(32, 's', -1, wrapK(2, 's', -1, t))
		}
	}
	mt := byName[root]
	if mt == nil {
		c.Stat("depth:missing-root")
		return
	}
	obs := uniqDecode(dec, []byte(doc), mt.New().Interface(), limit, discard)
	var sb strings.Builder
	uniqTreeTok(&sb, tree)
	c.Case("uniq", "events", []string{string(dec), fmt.Sprint(limit), Tok(discard), sb.String(), HexB([]byte(doc))}, []string{obs})
	c.Stat(fmt.Sprintf("depth:%c:v%d:%s", dec, variant, strings.SplitN(obs, ":", 2)[0]))
	in := []string{string(root), string(dec), fmt.Sprint(limit), Tok(discard), HexB([]byte(doc))}
	switch {
	case obs == "panic":
		c.PropFail("C26", "decoder panicked", in...)
	case obs == "accept" && syn > limit:
		c.PropFail("C26", fmt.Sprintf("accepted although nesting %d exceeds RecursionLimit %d", syn, limit), in...)
	case obs != "accept" && n <= limit && !(variant == 2 && !discard):
		// not demanded by the property, but a document within the limit that is refused deserves a look
		c.Stat("depth:within-limit-refused")
	}
}

// ---------------------------------------------------------------- byte-level totality search

var uniqJSONTokens = []string{"{", "}", "[", "]", ":", ",", `"a"`, `"optionalInt32"`, `"@type"`, `"type.googleapis.com/pb2.Nested"`, "null", "true", "1", "-1", "1e", "1.5e300",
	`"\ud800"`, `"\u0000"`, "\"\xff\"", `"value"`, `"optionalNestedMessage"`, `"mapStringNestedMessage"`, `"[goproto.proto.test.optional_int32]"`, " ", "\n", "Infinity", `"NaN"`, "0x1", "tru", `"`, "\\"}
var uniqTextTokens = []string{"{", "}", "<", ">", "[", "]", ":", ",", ";", "a", "optional_int32", "optional_nested_message", "corecursive", "map_string_nested_message", "key", "value",
	"[goproto.proto.test.optional_int32]", "[type.googleapis.com/pb2.Nested]", "type_url", `"s"`, `'s'`, `"\xff"`, "\"\xff\"", "1", "-1", "0x", "1e", "inf", "-nan", "true", "# c\n", " ", "\n",
	"1:", "536870912", "-", ".", "/", `"`, "\\", "0777", "1f", "2.5f", "u"}

func uniqMutate(c *Ctx, doc []byte, vocab []string) []byte {
	b := append([]byte{}, doc...)
	for k := 1 + c.Intn(4); k > 0; k-- {
		switch c.Intn(7) {
		case 0:
			if len(b) > 0 {
				b[c.Intn(len(b))] ^= 1 << c.Intn(8)
			}
		case 1:
			if len(b) > 0 {
				i := c.Intn(len(b))
				b = append(b[:i], b[i+1:]...)
			}
		case 2:
			i := c.Intn(len(b) + 1)
			t := vocab[c.Intn(len(vocab))]
			b = append(b[:i], append([]byte(t), b[i:]...)...)
		case 3:
			if len(b) > 0 {
				b = b[:c.Intn(len(b))]
			}
		case 4:
			if len(b) > 1 {
				i := c.Intn(len(b))
				k := i + c.Intn(len(b)-i)
				b = append(b[:k], append(append([]byte{}, b[i:k]...), b[k:]...)...)
			}
		case 5:
			if len(b) > 0 {
				b[c.Intn(len(b))] = byte(c.U64())
			}
		default:
			if len(b) > 1 {
				i := c.Intn(len(b) - 1)
				b[i], b[i+1] = b[i+1], b[i]
			}
		}
	}
	return b
}

func uniqTotalCase(c *Ctx, roots []protoreflect.MessageType, dec byte, doc []byte, what string) {
	mt := roots[c.Intn(len(roots))]
	limit := []int{0, 1, 2, 3, 100}[c.Intn(5)]
	obs := uniqDecode(dec, doc, mt.New().Interface(), limit, c.Bool())
	c.Stat(fmt.Sprintf("total:%s:%c:%s", what, dec, strings.SplitN(strings.SplitN(obs, ":", 2)[0], "1", 2)[0]))
	if obs == "panic" {
		c.PropFail("C26", "decoder panicked ("+what+")", string(mt.Descriptor().FullName()), string(dec), fmt.Sprint(limit), HexB(doc))
	}
}

func famUniq(c *Ctx) {
	roots := uniqRoots()
	byName := map[protoreflect.FullName]protoreflect.MessageType{}
	protoregistry.GlobalTypes.RangeMessages(func(mt protoreflect.MessageType) bool {
		byName[mt.Descriptor().FullName()] = mt
		return true
	})
	// boundary corpus first
	uniqDepthCases(c, byName)
	uniqAnyEvents(c, byName)
	for i := 0; i < 40; i++ {
		uniqIntsCase(c, 1+i)
	}
	for i := 0; i < c.N; i++ {
		doc := uniqEventsCase(c, roots, byName)
		if i%4 == 0 {
			uniqIntsCase(c, 1+c.Intn(60))
		}
		// byte-level: mutations of the valid document and token soups, both decoders
		for k := 0; k < 2; k++ {
			uniqTotalCase(c, roots, 'j', uniqMutate(c, doc, uniqJSONTokens), "mutation")
			uniqTotalCase(c, roots, 't', uniqMutate(c, doc, uniqTextTokens), "mutation")
		}
		var sj, st []byte
		for k := c.Intn(12); k >= 0; k-- {
			sj = append(sj, uniqJSONTokens[c.Intn(len(uniqJSONTokens))]...)
			st = append(st, uniqTextTokens[c.Intn(len(uniqTextTokens))]...)
			if c.Bool() {
				st = append(st, ' ')
			}
		}
		uniqTotalCase(c, roots, 'j', sj, "soup")
		uniqTotalCase(c, roots, 't', st, "soup")
		if i%16 == 0 {
			uniqTotalCase(c, roots, 'j', c.Bytes(c.Intn(24)), "random")
			uniqTotalCase(c, roots, 't', c.Bytes(c.Intn(24)), "random")
		}
	}
}
