//go:build verif

package main

// family "nil": C31, typed nil messages behave as empty read-only messages.
// Exhaustive over every message type in protoregistry.GlobalTypes (build tag
// nilall links all of them) x every read-only entry point.
//
// C lines: nil <op> <type> [<schema>] [<args>] | observation of the operation on the typed nil
// schema = ';'-joined fields in number order: num:kind:req:oneof:default
//   kind s(calar) m(essage) l(ist) p(map); oneof index or '-'; default = canonical value token

import (
	"bytes"
	"fmt"
	"math"
	"reflect"
	"sort"
	"strings"

	"google.golang.org/protobuf/encoding/protojson"
	"google.golang.org/protobuf/encoding/prototext"
	"google.golang.org/protobuf/proto"
	"google.golang.org/protobuf/reflect/protoreflect"
	"google.golang.org/protobuf/reflect/protoregistry"
	"google.golang.org/protobuf/runtime/protoimpl"
)

func init() { Register("nil", famNil) }

func nilValTok(fd protoreflect.FieldDescriptor, v protoreflect.Value) string {
	switch fd.Kind() {
	case protoreflect.BoolKind:
		return "b" + Tok(v.Bool())
	case protoreflect.EnumKind:
		return fmt.Sprintf("e%d", v.Enum())
	case protoreflect.Int32Kind, protoreflect.Sint32Kind, protoreflect.Sfixed32Kind,
		protoreflect.Int64Kind, protoreflect.Sint64Kind, protoreflect.Sfixed64Kind:
		return fmt.Sprintf("i%d", v.Int())
	case protoreflect.Uint32Kind, protoreflect.Fixed32Kind, protoreflect.Uint64Kind, protoreflect.Fixed64Kind:
		return fmt.Sprintf("u%d", v.Uint())
	case protoreflect.FloatKind:
		return fmt.Sprintf("f%08x", math.Float32bits(float32(v.Float())))
	case protoreflect.DoubleKind:
		return fmt.Sprintf("d%016x", math.Float64bits(v.Float()))
	case protoreflect.StringKind:
		return "s" + HexB([]byte(v.String()))
	case protoreflect.BytesKind:
		return "y" + HexB(v.Bytes())
	}
	return "?"
}

// nilGetTok renders what Get returned for fd.
func nilGetTok(fd protoreflect.FieldDescriptor, v protoreflect.Value) string {
	switch {
	case fd.IsMap():
		return fmt.Sprintf("p%d", v.Map().Len())
	case fd.IsList():
		return fmt.Sprintf("l%d", v.List().Len())
	case fd.Message() != nil:
		return "m" + Tok(v.Message().IsValid())
	default:
		return nilValTok(fd, v)
	}
}

type nilType struct {
	name   string
	mt     protoreflect.MessageType
	fields []protoreflect.FieldDescriptor // declared fields in number order, then extensions in number order
	schema string
}

func nilTypes() []nilType {
	var ts []nilType
	protoregistry.GlobalTypes.RangeMessages(func(mt protoreflect.MessageType) bool {
		ts = append(ts, nilType{name: string(mt.Descriptor().FullName()), mt: mt})
		return true
	})
	sort.Slice(ts, func(i, j int) bool { return ts[i].name < ts[j].name })
	for i := range ts {
		t := &ts[i]
		md := t.mt.Descriptor()
		fds := md.Fields()
		for j := 0; j < fds.Len(); j++ {
			t.fields = append(t.fields, fds.Get(j))
		}
		sort.SliceStable(t.fields, func(a, b int) bool { return t.fields[a].Number() < t.fields[b].Number() })
		var xs []protoreflect.FieldDescriptor
		protoregistry.GlobalTypes.RangeExtensionsByMessage(md.FullName(), func(xt protoreflect.ExtensionType) bool {
			xs = append(xs, xt.TypeDescriptor())
			return true
		})
		sort.Slice(xs, func(a, b int) bool { return xs[a].Number() < xs[b].Number() })
		t.fields = append(t.fields, xs...)
		var parts []string
		for _, fd := range t.fields {
			kind, def := "s", "-"
			switch {
			case fd.IsMap():
				kind = "p"
			case fd.IsList():
				kind = "l"
			case fd.Message() != nil:
				kind = "m"
			default:
				def = nilValTok(fd, fd.Default())
			}
			oneof := "-"
			if od := fd.ContainingOneof(); od != nil && !fd.IsExtension() {
				oneof = fmt.Sprint(od.Index())
			}
			parts = append(parts, fmt.Sprintf("%d:%s:%s:%s:%s", fd.Number(), kind, Tok(fd.Cardinality() == protoreflect.Required && !fd.IsExtension()), oneof, def))
		}
		t.schema = strings.Join(parts, ";")
		if t.schema == "" {
			t.schema = "-"
		}
	}
	return ts
}

// nilTry runs f and converts a panic into the observation "panic".
func nilTry(f func() string) (obs string) {
	defer func() {
		if r := recover(); r != nil {
			obs = "panic"
		}
	}()
	return f()
}

func nilReqNum(md protoreflect.MessageDescriptor, err error) string {
	if err == nil {
		return "ok"
	}
	s := err.Error()
	i := strings.Index(s, "required field ")
	j := strings.LastIndex(s, " not set")
	if i < 0 || j < 0 {
		return "err"
	}
	full := protoreflect.FullName(s[i+len("required field ") : j])
	if full.Parent() != md.FullName() {
		return "err"
	}
	fd := md.Fields().ByName(full.Name())
	if fd == nil {
		return "err"
	}
	return fmt.Sprintf("req:%d", fd.Number())
}

func nilMarshalObs(md protoreflect.MessageDescriptor, b []byte, err error) string {
	if err != nil {
		return nilReqNum(md, err)
	}
	if b == nil {
		return "nilbuf"
	}
	return "buf:" + HexB(b)
}

// nilSameVal compares two reflect values returned by generated accessors.
func nilSameVal(a, b reflect.Value) bool {
	if a.Type() != b.Type() {
		return false
	}
	switch a.Kind() {
	case reflect.Float32, reflect.Float64:
		return math.Float64bits(a.Float()) == math.Float64bits(b.Float())
	case reflect.Ptr, reflect.Map, reflect.Slice, reflect.Interface:
		if a.IsNil() || b.IsNil() {
			return a.IsNil() == b.IsNil()
		}
		if am, ok := a.Interface().(proto.Message); ok {
			bm := b.Interface().(proto.Message)
			return am.ProtoReflect().IsValid() == bm.ProtoReflect().IsValid() && proto.Equal(am, bm)
		}
		return reflect.DeepEqual(a.Interface(), b.Interface())
	default:
		return reflect.DeepEqual(a.Interface(), b.Interface())
	}
}

func famNil(c *Ctx) {
	types := nilTypes()
	c.StatN("exhaustive_types", len(types))
	g := &wpiGen{c: c, fill: 30, depth: 1}
	for _, t := range types {
		nilOne(c, g, t)
	}
}

func nilOne(c *Ctx, g *wpiGen, t nilType) {
	mt, md := t.mt, t.mt.Descriptor()
	var z, e protoreflect.Message
	if nilTry(func() string { z = mt.Zero(); e = mt.New(); return "" }) == "panic" {
		c.PropFail("C31", "Zero()/New() panics", t.name)
		return
	}
	var zi, ei proto.Message
	if nilTry(func() string { zi = z.Interface(); ei = e.Interface(); return "" }) == "panic" {
		c.PropFail("C31", "Interface() panics", t.name)
		return
	}
	if rv := reflect.ValueOf(zi); rv.Kind() == reflect.Ptr && !rv.IsNil() {
		c.Stat("zero_not_a_nil_pointer") // legacy wrappers around nil pointers
	}
	c.Stat("types")

	// op runs the operation on the typed nil and on the valid empty message;
	// the nil observation goes to the model, a difference (other than the ones
	// the property sanctions, handled by the caller through cmp) is a property failure.
	op := func(name string, ins []string, f func(m protoreflect.Message, mi proto.Message) string, same bool) {
		on := nilTry(func() string { return f(z, zi) })
		oe := nilTry(func() string { return f(e, ei) })
		c.Case("nil", name, append([]string{t.name}, ins...), []string{on})
		c.Stat("op_" + name)
		if on == "panic" {
			c.PropFail("C31", name+" panics on the typed nil", t.name)
		} else if same && on != oe {
			c.PropFail("C31", name+" on the typed nil differs from the empty message: "+on+" vs "+oe, t.name)
		}
	}

	op("isvalid", nil, func(m protoreflect.Message, _ proto.Message) string { return Tok(m.IsValid()) }, false)
	if z.IsValid() || !e.IsValid() {
		c.PropFail("C31", "IsValid: typed nil must be invalid, New() valid", t.name)
	}
	op("has", []string{t.schema}, func(m protoreflect.Message, _ proto.Message) string {
		var sb strings.Builder
		for _, fd := range t.fields {
			sb.WriteString(Tok(m.Has(fd)))
		}
		return "h" + sb.String()
	}, true)
	op("get", []string{t.schema}, func(m protoreflect.Message, _ proto.Message) string {
		var parts []string
		for _, fd := range t.fields {
			parts = append(parts, nilGetTok(fd, m.Get(fd)))
		}
		return "g" + strings.Join(parts, ",")
	}, true)
	op("range", nil, func(m protoreflect.Message, _ proto.Message) string {
		n := 0
		m.Range(func(protoreflect.FieldDescriptor, protoreflect.Value) bool { n++; return true })
		return fmt.Sprint(n)
	}, true)
	op("oneof", []string{t.schema, fmt.Sprint(md.Oneofs().Len())}, func(m protoreflect.Message, _ proto.Message) string {
		var parts []string
		for i := 0; i < md.Oneofs().Len(); i++ {
			if fd := m.WhichOneof(md.Oneofs().Get(i)); fd != nil {
				parts = append(parts, fmt.Sprint(fd.Number()))
			} else {
				parts = append(parts, "-")
			}
		}
		return "o" + strings.Join(parts, ",")
	}, true)
	op("unknown", nil, func(m protoreflect.Message, _ proto.Message) string { return fmt.Sprint(len(m.GetUnknown())) }, true)
	op("desc", nil, func(m protoreflect.Message, _ proto.Message) string {
		if m.Descriptor() != md || m.Type() != mt {
			return "differs"
		}
		n := m.New()
		if !n.IsValid() || n.Descriptor() != md {
			return "differs"
		}
		cnt := 0
		n.Range(func(protoreflect.FieldDescriptor, protoreflect.Value) bool { cnt++; return true })
		if cnt != 0 || reflect.TypeOf(n.Interface()) != reflect.TypeOf(ei) {
			return "differs"
		}
		return "same"
	}, true)
	op("size", nil, func(_ protoreflect.Message, mi proto.Message) string { return fmt.Sprint(proto.Size(mi)) }, true)
	for _, ap := range []bool{false, true} {
		ap := ap
		// the nil-ness of the empty buffer is the sanctioned difference
		op("marshal", []string{t.schema, Tok(ap)}, func(_ protoreflect.Message, mi proto.Message) string {
			b, err := proto.MarshalOptions{AllowPartial: ap}.Marshal(mi)
			return nilMarshalObs(md, b, err)
		}, false)
		bn, errn := proto.MarshalOptions{AllowPartial: ap}.Marshal(zi)
		be, erre := proto.MarshalOptions{AllowPartial: ap}.Marshal(ei)
		if (errn == nil) != (erre == nil) || !bytes.Equal(bn, be) {
			c.PropFail("C31", "Marshal of the typed nil differs from the empty message", t.name, Tok(ap))
		}
		if errn == nil && (bn != nil || be == nil) {
			c.PropFail("C31", "Marshal: empty buffer must be nil exactly for the invalid message", t.name, Tok(ap))
		}
	}
	op("marshaldet", []string{t.schema}, func(_ protoreflect.Message, mi proto.Message) string {
		b, err := proto.MarshalOptions{AllowPartial: true, Deterministic: true}.Marshal(mi)
		if err != nil {
			return "err"
		}
		return fmt.Sprintf("len:%d", len(b))
	}, true)
	prefix := c.Bytes(1 + c.Intn(4))
	op("marshalappend", []string{t.schema, HexB(prefix)}, func(_ protoreflect.Message, mi proto.Message) string {
		b, err := proto.MarshalOptions{AllowPartial: true}.MarshalAppend(append([]byte{}, prefix...), mi)
		if err != nil {
			return "err"
		}
		return HexB(b)
	}, true)
	op("checkinit", []string{t.schema}, func(_ protoreflect.Message, mi proto.Message) string {
		return nilReqNum(md, proto.CheckInitialized(mi))
	}, true)
	// Equal: nil/nil, nil/empty, empty/nil
	on := nilTry(func() string {
		return Tok(proto.Equal(zi, zi)) + Tok(proto.Equal(zi, mt.Zero().Interface())) + Tok(proto.Equal(zi, ei)) + Tok(proto.Equal(ei, zi))
	})
	c.Case("nil", "equal", []string{t.name}, []string{on})
	c.Stat("op_equal")
	if on != "1100" {
		c.PropFail("C31", "Equal: want nil==nil, nil!=empty, got "+on, t.name)
	}
	// Clone
	on = nilTry(func() string {
		cl := proto.Clone(zi)
		if reflect.TypeOf(cl) != reflect.TypeOf(zi) {
			return "type"
		}
		return Tok(cl.ProtoReflect().IsValid())
	})
	c.Case("nil", "clone", []string{t.name}, []string{on})
	c.Stat("op_clone")
	if on != "0" {
		c.PropFail("C31", "Clone of the typed nil: want an invalid message of the same type, got "+on, t.name)
	}
	// Merge with a nil source into an empty and into a populated destination
	on = nilTry(func() string {
		for k := 0; k < 2; k++ {
			dst := mt.New()
			if k == 1 {
				g.fillMsg(dst, 1)
			}
			before := proto.Clone(dst.Interface())
			proto.Merge(dst.Interface(), zi)
			if !proto.Equal(before, dst.Interface()) {
				return "changed"
			}
			b1, _ := proto.MarshalOptions{AllowPartial: true, Deterministic: true}.Marshal(before)
			b2, _ := proto.MarshalOptions{AllowPartial: true, Deterministic: true}.Marshal(dst.Interface())
			if !bytes.Equal(b1, b2) {
				return "changed"
			}
		}
		return "same"
	})
	c.Case("nil", "merge", []string{t.name}, []string{on})
	c.Stat("op_merge")
	if on != "same" {
		c.PropFail("C31", "Merge with a typed nil source: "+on, t.name)
	}

	// formatters: class only (same / differs / panic), the text itself is another property's subject
	format := func(name string, f func(mi proto.Message) string) {
		on := nilTry(func() string {
			a := f(zi)
			b := f(ei)
			if a != b {
				return "differs"
			}
			return "same"
		})
		c.Case("nil", name, []string{t.name}, []string{on})
		c.Stat("op_" + name)
		if on != "same" {
			c.PropFail("C31", name+" of the typed nil: "+on, t.name)
		}
	}
	format("json", func(mi proto.Message) string {
		b, err := protojson.MarshalOptions{AllowPartial: true}.Marshal(mi)
		return fmt.Sprint(string(b), err != nil)
	})
	format("jsonstrict", func(mi proto.Message) string {
		b, err := protojson.Marshal(mi)
		return fmt.Sprint(string(b), err != nil)
	})
	format("jsonemit", func(mi proto.Message) string {
		b, err := protojson.MarshalOptions{AllowPartial: true, EmitUnpopulated: true, Multiline: true}.Marshal(mi)
		return fmt.Sprint(string(b), err != nil)
	})
	format("text", func(mi proto.Message) string {
		b, err := prototext.MarshalOptions{AllowPartial: true}.Marshal(mi)
		return fmt.Sprint(string(b), err != nil)
	})
	format("textstrict", func(mi proto.Message) string {
		b, err := prototext.Marshal(mi)
		return fmt.Sprint(string(b), err != nil)
	})
	format("textemit", func(mi proto.Message) string {
		b, err := prototext.MarshalOptions{AllowPartial: true, EmitUnknown: true, Multiline: true}.Marshal(mi)
		return fmt.Sprint(string(b), err != nil)
	})
	// Format (debugging helpers): "<nil>" for the invalid message is the documented behaviour
	for _, ff := range []struct {
		name string
		f    func(proto.Message) string
	}{{"jsonformat", protojson.Format}, {"textformat", prototext.Format}} {
		ff := ff
		on := nilTry(func() string { return HexB([]byte(ff.f(zi))) })
		oe := nilTry(func() string { return HexB([]byte(ff.f(ei))) })
		c.Case("nil", ff.name, []string{t.name}, []string{on})
		c.Stat("op_" + ff.name)
		if on != HexB([]byte("<nil>")) || oe == "panic" {
			c.PropFail("C31", ff.name+" of the typed nil: want <nil>, got "+on, t.name)
		}
	}

	// generated accessors on the nil pointer: Get*/Has* methods without arguments
	nilGetters(c, t, zi, ei)
}

func nilUnwrap(m proto.Message) reflect.Value {
	// legacy (APIv1-only) messages are wrapped: get the wrapped pointer
	return reflect.ValueOf(protoimpl.X.ProtoMessageV1Of(m))
}

func nilGetters(c *Ctx, t nilType, zi, ei proto.Message) {
	zv, ev := reflect.ValueOf(zi), reflect.ValueOf(ei)
	if zv.Kind() != reflect.Ptr || !zv.IsNil() {
		// legacy messages are wrapped: look at the wrapped pointer
		var ok bool
		func() {
			defer func() { recover() }()
			zv, ev = nilUnwrap(zi), nilUnwrap(ei)
			ok = zv.Kind() == reflect.Ptr && zv.IsNil()
		}()
		if !ok {
			c.Case("nil", "getters", []string{t.name, "0"}, []string{"same"})
			c.Stat("getters_no_nil_pointer")
			return
		}
	}
	n, bad := 0, ""
	tp := zv.Type()
	for i := 0; i < tp.NumMethod(); i++ {
		mth := tp.Method(i)
		if !(strings.HasPrefix(mth.Name, "Get") || strings.HasPrefix(mth.Name, "Has")) || mth.Type.NumIn() != 1 || mth.Type.NumOut() != 1 {
			continue
		}
		n++
		r := nilTry(func() string {
			a := zv.Method(i).Call(nil)[0]
			b := ev.Method(i).Call(nil)[0]
			if !nilSameVal(a, b) {
				return "differs"
			}
			return "same"
		})
		if r != "same" && bad == "" {
			bad = r + ":" + mth.Name
		}
	}
	c.StatN("getter_methods", n)
	cls := "same"
	if bad != "" {
		cls = strings.SplitN(bad, ":", 2)[0]
		c.PropFail("C31", "generated accessor on the nil pointer "+bad, t.name)
	}
	c.Case("nil", "getters", []string{t.name, fmt.Sprint(n)}, []string{cls})
	c.Stat("op_getters")
}
