//go:build verif

package main

// Hand-built table-driven message types for family req (C10).  The corpus has no generated type
// with (a) a oneof whose non-first member is a message with required fields, (b) a map whose value
// message has optional sub-messages with required fields, (c) a cycle of message types that
// reaches a required field, (d) more than 64 required fields.  These Go structs are driven by
// impl.MessageInfo exactly like generated messages (struct tags, ProtoReflect methods returning
// MessageInfo.MessageOf), with descriptors built by protodesc; the flat many-required types are
// built with reflect.StructOf.
//
//	verif.reqh.Req   { required int32 a = 1; }
//	verif.reqh.One   { oneof u { int32 x = 1; Req m = 2; Req n = 3; }  optional Req child = 4;
//	                   repeated Req list = 5;  map<int32, Req> mp = 6; }
//	verif.reqh.MapV  { map<int32, One> mv = 1; }
//	verif.reqh.X { optional A a = 1; }  A { optional B b = 1; optional Req c = 2; }  B { optional A a = 1; }
//	verif.reqh.Flat<n>  n required int32 fields 1..n, optional int32 field n+1

import (
	"fmt"
	"reflect"

	"google.golang.org/protobuf/internal/impl"
	"google.golang.org/protobuf/proto"
	"google.golang.org/protobuf/reflect/protodesc"
	"google.golang.org/protobuf/reflect/protoreflect"
	"google.golang.org/protobuf/reflect/protoregistry"
	"google.golang.org/protobuf/types/descriptorpb"
)

type reqhReq struct {
	A                *int32 `protobuf:"varint,1,req,name=a"`
	XXX_unrecognized []byte
}
type reqhOne struct {
	U                isReqhOne_U        `protobuf_oneof:"u"`
	Child            *reqhReq           `protobuf:"bytes,4,opt,name=child"`
	List             []*reqhReq         `protobuf:"bytes,5,rep,name=list"`
	Mp               map[int32]*reqhReq `protobuf:"bytes,6,rep,name=mp" protobuf_key:"varint,1,opt,name=key" protobuf_val:"bytes,2,opt,name=value"`
	XXX_unrecognized []byte
}
type isReqhOne_U interface{ isReqhOne_U() }
type reqhOne_X struct {
	X int32 `protobuf:"varint,1,opt,name=x,oneof"`
}
type reqhOne_M struct {
	M *reqhReq `protobuf:"bytes,2,opt,name=m,oneof"`
}
type reqhOne_N struct {
	N *reqhReq `protobuf:"bytes,3,opt,name=n,oneof"`
}

func (*reqhOne_X) isReqhOne_U() {}
func (*reqhOne_M) isReqhOne_U() {}
func (*reqhOne_N) isReqhOne_U() {}

type reqhMapV struct {
	Mv               map[int32]*reqhOne `protobuf:"bytes,1,rep,name=mv" protobuf_key:"varint,1,opt,name=key" protobuf_val:"bytes,2,opt,name=value"`
	XXX_unrecognized []byte
}
type reqhX struct {
	A                *reqhA `protobuf:"bytes,1,opt,name=a"`
	XXX_unrecognized []byte
}
type reqhA struct {
	B                *reqhB   `protobuf:"bytes,1,opt,name=b"`
	C                *reqhReq `protobuf:"bytes,2,opt,name=c"`
	XXX_unrecognized []byte
}
type reqhB struct {
	A                *reqhA `protobuf:"bytes,1,opt,name=a"`
	XXX_unrecognized []byte
}

var reqhMI = map[string]*impl.MessageInfo{}

func (x *reqhReq) ProtoReflect() protoreflect.Message  { return reqhMI["Req"].MessageOf(x) }
func (x *reqhOne) ProtoReflect() protoreflect.Message  { return reqhMI["One"].MessageOf(x) }
func (x *reqhMapV) ProtoReflect() protoreflect.Message { return reqhMI["MapV"].MessageOf(x) }
func (x *reqhX) ProtoReflect() protoreflect.Message    { return reqhMI["X"].MessageOf(x) }
func (x *reqhA) ProtoReflect() protoreflect.Message    { return reqhMI["A"].MessageOf(x) }
func (x *reqhB) ProtoReflect() protoreflect.Message    { return reqhMI["B"].MessageOf(x) }

type reqhType struct {
	name string
	md   protoreflect.MessageDescriptor
	new  func() protoreflect.Message
}

var reqhTypesCache []reqhType

func reqhField(name string, num int32, label descriptorpb.FieldDescriptorProto_Label, typ descriptorpb.FieldDescriptorProto_Type, typeName string) *descriptorpb.FieldDescriptorProto {
	f := &descriptorpb.FieldDescriptorProto{Name: proto.String(name), JsonName: proto.String(name), Number: proto.Int32(num), Label: label.Enum(), Type: typ.Enum()}
	if typeName != "" {
		f.TypeName = proto.String(typeName)
	}
	return f
}

// reqhTypes returns the hand-built types (built once).
func reqhTypes() []reqhType {
	if reqhTypesCache != nil {
		return reqhTypesCache
	}
	opt, req, rep := descriptorpb.FieldDescriptorProto_LABEL_OPTIONAL, descriptorpb.FieldDescriptorProto_LABEL_REQUIRED, descriptorpb.FieldDescriptorProto_LABEL_REPEATED
	tI32, tMsg := descriptorpb.FieldDescriptorProto_TYPE_INT32, descriptorpb.FieldDescriptorProto_TYPE_MESSAGE
	mapEntry := func(name, valType string) *descriptorpb.DescriptorProto {
		return &descriptorpb.DescriptorProto{Name: proto.String(name), Options: &descriptorpb.MessageOptions{MapEntry: proto.Bool(true)},
			Field: []*descriptorpb.FieldDescriptorProto{reqhField("key", 1, opt, tI32, ""), reqhField("value", 2, opt, tMsg, valType)}}
	}
	oneM := reqhField("m", 2, opt, tMsg, ".verif.reqh.Req")
	oneN := reqhField("n", 3, opt, tMsg, ".verif.reqh.Req")
	oneX := reqhField("x", 1, opt, tI32, "")
	for _, f := range []*descriptorpb.FieldDescriptorProto{oneX, oneM, oneN} {
		f.OneofIndex = proto.Int32(0)
	}
	flatSizes := []int{1, 2, 63, 64, 65, 66, 100, 255, 256, 300}
	fdp := &descriptorpb.FileDescriptorProto{
		Name: proto.String("verif/reqh.proto"), Package: proto.String("verif.reqh"), Syntax: proto.String("proto2"),
		MessageType: []*descriptorpb.DescriptorProto{
			{Name: proto.String("Req"), Field: []*descriptorpb.FieldDescriptorProto{reqhField("a", 1, req, tI32, "")}},
			{Name: proto.String("One"), OneofDecl: []*descriptorpb.OneofDescriptorProto{{Name: proto.String("u")}},
				Field: []*descriptorpb.FieldDescriptorProto{oneX, oneM, oneN,
					reqhField("child", 4, opt, tMsg, ".verif.reqh.Req"), reqhField("list", 5, rep, tMsg, ".verif.reqh.Req"),
					reqhField("mp", 6, rep, tMsg, ".verif.reqh.One.MpEntry")},
				NestedType: []*descriptorpb.DescriptorProto{mapEntry("MpEntry", ".verif.reqh.Req")}},
			{Name: proto.String("MapV"), Field: []*descriptorpb.FieldDescriptorProto{reqhField("mv", 1, rep, tMsg, ".verif.reqh.MapV.MvEntry")},
				NestedType: []*descriptorpb.DescriptorProto{mapEntry("MvEntry", ".verif.reqh.One")}},
			{Name: proto.String("X"), Field: []*descriptorpb.FieldDescriptorProto{reqhField("a", 1, opt, tMsg, ".verif.reqh.A")}},
			{Name: proto.String("A"), Field: []*descriptorpb.FieldDescriptorProto{reqhField("b", 1, opt, tMsg, ".verif.reqh.B"), reqhField("c", 2, opt, tMsg, ".verif.reqh.Req")}},
			{Name: proto.String("B"), Field: []*descriptorpb.FieldDescriptorProto{reqhField("a", 1, opt, tMsg, ".verif.reqh.A")}},
		}}
	for _, n := range flatSizes {
		dp := &descriptorpb.DescriptorProto{Name: proto.String(fmt.Sprintf("Flat%d", n))}
		for i := 1; i <= n; i++ {
			dp.Field = append(dp.Field, reqhField(fmt.Sprintf("f%d", i), int32(i), req, tI32, ""))
		}
		dp.Field = append(dp.Field, reqhField("opt", int32(n+1), opt, tI32, ""))
		fdp.MessageType = append(fdp.MessageType, dp)
	}
	fd, err := protodesc.NewFile(fdp, protoregistry.GlobalFiles)
	if err != nil {
		panic("reqh: " + err.Error())
	}
	msgs := fd.Messages()
	static := []struct {
		name string
		zero any
		wrap []any
	}{
		{"Req", (*reqhReq)(nil), nil},
		{"One", (*reqhOne)(nil), []any{(*reqhOne_X)(nil), (*reqhOne_M)(nil), (*reqhOne_N)(nil)}},
		{"MapV", (*reqhMapV)(nil), nil},
		{"X", (*reqhX)(nil), nil},
		{"A", (*reqhA)(nil), nil},
		{"B", (*reqhB)(nil), nil},
	}
	for _, s := range static {
		reqhMI[s.name] = &impl.MessageInfo{GoReflectType: reflect.TypeOf(s.zero), Desc: msgs.ByName(protoreflect.Name(s.name)), OneofWrappers: s.wrap}
	}
	var out []reqhType
	for _, s := range static {
		s := s
		mi := reqhMI[s.name]
		out = append(out, reqhType{"reqh." + s.name, mi.Desc, func() protoreflect.Message {
			return mi.MessageOf(reflect.New(mi.GoReflectType.Elem()).Interface())
		}})
	}
	// X must be the first type whose coders are built (see the needsInitCheck note in fam_req.go)
	reqhMI["X"].MessageOf(&reqhX{}).Has(reqhMI["X"].Desc.Fields().Get(0))
	for _, n := range flatSizes {
		var fields []reflect.StructField
		for i := 1; i <= n; i++ {
			fields = append(fields, reflect.StructField{Name: fmt.Sprintf("F%d", i), Type: reflect.TypeOf((*int32)(nil)),
				Tag: reflect.StructTag(fmt.Sprintf(`protobuf:"varint,%d,req,name=f%d"`, i, i))})
		}
		fields = append(fields, reflect.StructField{Name: "Opt", Type: reflect.TypeOf((*int32)(nil)),
			Tag: reflect.StructTag(fmt.Sprintf(`protobuf:"varint,%d,opt,name=opt"`, n+1))})
		fields = append(fields, reflect.StructField{Name: "XXX_unrecognized", Type: reflect.TypeOf([]byte(nil))})
		st := reflect.StructOf(fields)
		mi := &impl.MessageInfo{GoReflectType: reflect.PtrTo(st), Desc: msgs.ByName(protoreflect.Name(fmt.Sprintf("Flat%d", n)))}
		out = append(out, reqhType{fmt.Sprintf("reqh.Flat%d", n), mi.Desc, func() protoreflect.Message {
			return mi.MessageOf(reflect.New(st).Interface())
		}})
	}
	reqhTypesCache = out
	return out
}
