//go:build verif

package main

import (
	"fmt"
	"sort"
	"strconv"
	"strings"

	"google.golang.org/protobuf/proto"
	"google.golang.org/protobuf/reflect/protodesc"
	"google.golang.org/protobuf/reflect/protoreflect"
	"google.golang.org/protobuf/reflect/protoregistry"
	"google.golang.org/protobuf/types/descriptorpb"
	"google.golang.org/protobuf/types/dynamicpb"
)

// family "reg": C33 — local protoregistry.Files / protoregistry.Types against the Coq model
// coq/theories/Desc/RegistryModel.v.  One C line per history:
//
//	C reg files <file tokens...> <op tokens...> | <one result token per op>
//	C reg types <op tokens...> | <one result token per op>
//	C reg wf <file token> | 1          (the model's wf_file must accept every file NewFile accepts)
//
// File token (comma separated atoms, names as x<hex>, lists prefixed by their length):
//
//	F,path,pkg,nE,enum*,nM,msg*,nX,ext*,nS,svc*
//	enum = name,nV,val*     msg = name,nM,msg*,nE,enum*,nX,ext*,nF,field*,nO,oneof*     svc = name,nMeth,meth*

func init() { Register("reg", famReg) }

// ---------------------------------------------------------------- file specs -> descriptor protos

type regEnumSpec struct {
	name string
	vals []string
}
type regFieldSpec struct {
	name  string
	oneof int    // index into oneofs, -1 = none
	typ   string // "" = int32, else fully-qualified message name (leading dot)
}
type regExtSpec struct {
	name     string
	extendee string // leading dot
	num      int32
}
type regMsgSpec struct {
	name     string
	msgs     []regMsgSpec
	enums    []regEnumSpec
	exts     []regExtSpec
	fields   []regFieldSpec
	oneofs   []string
	extRange bool
}
type regSvcSpec struct {
	name    string
	methods []string
	typ     string // input/output message (leading dot)
}
type regFileSpec struct {
	path, pkg string
	enums     []regEnumSpec
	msgs      []regMsgSpec
	exts      []regExtSpec
	svcs      []regSvcSpec
}

func regEnumProto(e regEnumSpec) *descriptorpb.EnumDescriptorProto {
	ep := &descriptorpb.EnumDescriptorProto{Name: proto.String(e.name)}
	for i, v := range e.vals {
		ep.Value = append(ep.Value, &descriptorpb.EnumValueDescriptorProto{Name: proto.String(v), Number: proto.Int32(int32(i))})
	}
	return ep
}

func regExtProto(x regExtSpec) *descriptorpb.FieldDescriptorProto {
	return &descriptorpb.FieldDescriptorProto{
		Name: proto.String(x.name), Number: proto.Int32(x.num), Extendee: proto.String(x.extendee),
		Label: descriptorpb.FieldDescriptorProto_LABEL_OPTIONAL.Enum(),
		Type:  descriptorpb.FieldDescriptorProto_TYPE_INT32.Enum(),
	}
}

func regMsgProto(m regMsgSpec) *descriptorpb.DescriptorProto {
	mp := &descriptorpb.DescriptorProto{Name: proto.String(m.name)}
	for _, n := range m.msgs {
		mp.NestedType = append(mp.NestedType, regMsgProto(n))
	}
	for _, e := range m.enums {
		mp.EnumType = append(mp.EnumType, regEnumProto(e))
	}
	for _, x := range m.exts {
		mp.Extension = append(mp.Extension, regExtProto(x))
	}
	for i, f := range m.fields {
		fp := &descriptorpb.FieldDescriptorProto{
			Name: proto.String(f.name), Number: proto.Int32(int32(i + 1)),
			Label: descriptorpb.FieldDescriptorProto_LABEL_OPTIONAL.Enum(),
			Type:  descriptorpb.FieldDescriptorProto_TYPE_INT32.Enum(),
		}
		if f.typ != "" {
			fp.Type = descriptorpb.FieldDescriptorProto_TYPE_MESSAGE.Enum()
			fp.TypeName = proto.String(f.typ)
		}
		if f.oneof >= 0 {
			fp.OneofIndex = proto.Int32(int32(f.oneof))
		}
		mp.Field = append(mp.Field, fp)
	}
	for _, o := range m.oneofs {
		mp.OneofDecl = append(mp.OneofDecl, &descriptorpb.OneofDescriptorProto{Name: proto.String(o)})
	}
	if m.extRange {
		mp.ExtensionRange = []*descriptorpb.DescriptorProto_ExtensionRange{{Start: proto.Int32(100), End: proto.Int32(200)}}
	}
	return mp
}

func regFileProto(s regFileSpec) *descriptorpb.FileDescriptorProto {
	fp := &descriptorpb.FileDescriptorProto{Name: proto.String(s.path), Syntax: proto.String("proto2")}
	if s.pkg != "" {
		fp.Package = proto.String(s.pkg)
	}
	for _, e := range s.enums {
		fp.EnumType = append(fp.EnumType, regEnumProto(e))
	}
	for _, m := range s.msgs {
		fp.MessageType = append(fp.MessageType, regMsgProto(m))
	}
	for _, x := range s.exts {
		fp.Extension = append(fp.Extension, regExtProto(x))
	}
	for _, sv := range s.svcs {
		sp := &descriptorpb.ServiceDescriptorProto{Name: proto.String(sv.name)}
		for _, m := range sv.methods {
			sp.Method = append(sp.Method, &descriptorpb.MethodDescriptorProto{
				Name: proto.String(m), InputType: proto.String(sv.typ), OutputType: proto.String(sv.typ)})
		}
		fp.Service = append(fp.Service, sp)
	}
	return fp
}

// ---------------------------------------------------------------- built files

type regFile struct {
	fd    protoreflect.FileDescriptor
	tok   string
	decls []protoreflect.Descriptor // every declaration, recursively
}

func regHexS(s string) string { return HexB([]byte(s)) }

func regTokEnum(b *[]string, e protoreflect.EnumDescriptor) {
	*b = append(*b, regHexS(string(e.Name())), strconv.Itoa(e.Values().Len()))
	for i := 0; i < e.Values().Len(); i++ {
		*b = append(*b, regHexS(string(e.Values().Get(i).Name())))
	}
}

func regTokMsg(b *[]string, m protoreflect.MessageDescriptor) {
	*b = append(*b, regHexS(string(m.Name())), strconv.Itoa(m.Messages().Len()))
	for i := 0; i < m.Messages().Len(); i++ {
		regTokMsg(b, m.Messages().Get(i))
	}
	*b = append(*b, strconv.Itoa(m.Enums().Len()))
	for i := 0; i < m.Enums().Len(); i++ {
		regTokEnum(b, m.Enums().Get(i))
	}
	*b = append(*b, strconv.Itoa(m.Extensions().Len()))
	for i := 0; i < m.Extensions().Len(); i++ {
		*b = append(*b, regHexS(string(m.Extensions().Get(i).Name())))
	}
	*b = append(*b, strconv.Itoa(m.Fields().Len()))
	for i := 0; i < m.Fields().Len(); i++ {
		*b = append(*b, regHexS(string(m.Fields().Get(i).Name())))
	}
	*b = append(*b, strconv.Itoa(m.Oneofs().Len()))
	for i := 0; i < m.Oneofs().Len(); i++ {
		*b = append(*b, regHexS(string(m.Oneofs().Get(i).Name())))
	}
}

// regFileToken encodes what the registry reads from a FileDescriptor.
func regFileToken(fd protoreflect.FileDescriptor) string {
	b := []string{"F", regHexS(fd.Path()), regHexS(string(fd.Package()))}
	b = append(b, strconv.Itoa(fd.Enums().Len()))
	for i := 0; i < fd.Enums().Len(); i++ {
		regTokEnum(&b, fd.Enums().Get(i))
	}
	b = append(b, strconv.Itoa(fd.Messages().Len()))
	for i := 0; i < fd.Messages().Len(); i++ {
		regTokMsg(&b, fd.Messages().Get(i))
	}
	b = append(b, strconv.Itoa(fd.Extensions().Len()))
	for i := 0; i < fd.Extensions().Len(); i++ {
		b = append(b, regHexS(string(fd.Extensions().Get(i).Name())))
	}
	b = append(b, strconv.Itoa(fd.Services().Len()))
	for i := 0; i < fd.Services().Len(); i++ {
		s := fd.Services().Get(i)
		b = append(b, regHexS(string(s.Name())), strconv.Itoa(s.Methods().Len()))
		for j := 0; j < s.Methods().Len(); j++ {
			b = append(b, regHexS(string(s.Methods().Get(j).Name())))
		}
	}
	return strings.Join(b, ",")
}

func regWalkEnum(out *[]protoreflect.Descriptor, e protoreflect.EnumDescriptor) {
	*out = append(*out, e)
	for i := 0; i < e.Values().Len(); i++ {
		*out = append(*out, e.Values().Get(i))
	}
}
func regWalkMsg(out *[]protoreflect.Descriptor, m protoreflect.MessageDescriptor) {
	*out = append(*out, m)
	for i := 0; i < m.Enums().Len(); i++ {
		regWalkEnum(out, m.Enums().Get(i))
	}
	for i := 0; i < m.Extensions().Len(); i++ {
		*out = append(*out, m.Extensions().Get(i))
	}
	for i := 0; i < m.Fields().Len(); i++ {
		*out = append(*out, m.Fields().Get(i))
	}
	for i := 0; i < m.Oneofs().Len(); i++ {
		*out = append(*out, m.Oneofs().Get(i))
	}
	for i := 0; i < m.Messages().Len(); i++ {
		regWalkMsg(out, m.Messages().Get(i))
	}
}
func regWalkFile(fd protoreflect.FileDescriptor) []protoreflect.Descriptor {
	var out []protoreflect.Descriptor
	for i := 0; i < fd.Enums().Len(); i++ {
		regWalkEnum(&out, fd.Enums().Get(i))
	}
	for i := 0; i < fd.Messages().Len(); i++ {
		regWalkMsg(&out, fd.Messages().Get(i))
	}
	for i := 0; i < fd.Extensions().Len(); i++ {
		out = append(out, fd.Extensions().Get(i))
	}
	for i := 0; i < fd.Services().Len(); i++ {
		s := fd.Services().Get(i)
		out = append(out, s)
		for j := 0; j < s.Methods().Len(); j++ {
			out = append(out, s.Methods().Get(j))
		}
	}
	return out
}

// regBuild returns nil when protodesc.NewFile rejects the spec.
func regBuild(c *Ctx, s regFileSpec) *regFile {
	fd, err := protodesc.NewFile(regFileProto(s), nil)
	if err != nil {
		c.Stat("newfile:rejected")
		if c.stats["newfile:rejected"] <= 2 {
			c.Sample("NewFile rejected: " + strings.ReplaceAll(err.Error(), "\t", " "))
		}
		return nil
	}
	c.Stat("newfile:ok")
	f := &regFile{fd: fd, tok: regFileToken(fd), decls: regWalkFile(fd)}
	// wf_file of the model must hold for everything NewFile accepts (hypothesis of the theorems)
	c.Case("reg", "wf", []string{f.tok}, []string{"1"})
	return f
}

// ---------------------------------------------------------------- random specs

var regPkgs = []string{"", "a", "a.b", "a.b.c", "b"}
var regNames = []string{"a", "b", "c", "M", "E", "V", "X", "S", "f", "o"}
var regPaths = []string{"p0.proto", "p1.proto", "p2.proto", "p3.proto", "p4.proto", "p5.proto", "p6.proto", "d/p1.proto", "none.proto"}

// regPick draws a name from the pool; mostly avoids names already used in this scope so
// that most generated files are accepted by NewFile.
func regPick(c *Ctx, used map[string]bool) string {
	for try := 0; try < 8; try++ {
		n := regNames[c.Intn(len(regNames))]
		if !used[n] || c.Intn(60) == 0 {
			used[n] = true
			return n
		}
	}
	n := regNames[c.Intn(len(regNames))]
	used[n] = true
	return n
}

func regGenEnum(c *Ctx, used map[string]bool) regEnumSpec {
	e := regEnumSpec{name: regPick(c, used)}
	for i, n := 0, 1+c.Intn(3); i < n; i++ {
		e.vals = append(e.vals, regPick(c, used))
	}
	return e
}

// messages are generated first without extensions / message-typed fields; these are filled in
// once all message full names of the file are known.
func regGenMsg(c *Ctx, used map[string]bool, depth int) regMsgSpec {
	m := regMsgSpec{name: regPick(c, used), extRange: c.Intn(2) == 0}
	in := map[string]bool{}
	if depth < 2 {
		for i, n := 0, c.Intn(3); i < n; i++ {
			m.msgs = append(m.msgs, regGenMsg(c, in, depth+1))
		}
	}
	for i, n := 0, c.Intn(2); i < n; i++ {
		m.enums = append(m.enums, regGenEnum(c, in))
	}
	for i, n := 0, c.Intn(2); i < n; i++ {
		m.oneofs = append(m.oneofs, regPick(c, in))
	}
	for i, n := 0, c.Intn(3); i < n; i++ {
		m.fields = append(m.fields, regFieldSpec{name: regPick(c, in), oneof: -1})
	}
	for i := range m.oneofs { // every oneof needs a member
		m.fields = append(m.fields, regFieldSpec{name: regPick(c, in), oneof: i})
	}
	for i, n := 0, c.Intn(2); i < n; i++ {
		m.exts = append(m.exts, regExtSpec{name: regPick(c, in)})
	}
	return m
}

func regCollect(prefix string, ms []regMsgSpec, all, ranged *[]string) {
	for _, m := range ms {
		fn := prefix + "." + m.name
		*all = append(*all, fn)
		if m.extRange {
			*ranged = append(*ranged, fn)
		}
		regCollect(fn, m.msgs, all, ranged)
	}
}

func regFixMsg(c *Ctx, m *regMsgSpec, all, ranged []string) {
	for i := range m.fields {
		if len(all) > 0 && c.Intn(3) == 0 {
			m.fields[i].typ = all[c.Intn(len(all))]
		}
	}
	if len(ranged) == 0 {
		m.exts = nil
	}
	for i := range m.exts {
		m.exts[i].extendee = ranged[c.Intn(len(ranged))]
		m.exts[i].num = int32(100 + c.Intn(3))
	}
	for i := range m.msgs {
		regFixMsg(c, &m.msgs[i], all, ranged)
	}
}

func regGenSpec(c *Ctx, idx int) regFileSpec {
	// mostly one path per file; sometimes a path that another file of the pool is likely to have
	s := regFileSpec{path: "p" + strconv.Itoa(idx) + ".proto", pkg: regPkgs[c.Intn(len(regPkgs))]}
	if c.Intn(5) == 0 {
		s.path = []string{"p0.proto", "p1.proto", "d/p1.proto"}[c.Intn(3)]
	}
	used := map[string]bool{}
	for i, n := 0, c.Intn(3); i < n; i++ {
		s.enums = append(s.enums, regGenEnum(c, used))
	}
	for i, n := 0, c.Intn(4); i < n; i++ {
		s.msgs = append(s.msgs, regGenMsg(c, used, 0))
	}
	var all, ranged []string
	pfx := ""
	if s.pkg != "" {
		pfx = "." + s.pkg
	}
	regCollect(pfx, s.msgs, &all, &ranged)
	for i := range s.msgs {
		regFixMsg(c, &s.msgs[i], all, ranged)
	}
	if len(ranged) > 0 {
		for i, n := 0, c.Intn(3); i < n; i++ {
			s.exts = append(s.exts, regExtSpec{name: regPick(c, used), extendee: ranged[c.Intn(len(ranged))], num: int32(100 + c.Intn(3))})
		}
	}
	if len(all) > 0 {
		for i, n := 0, c.Intn(2); i < n; i++ {
			sv := regSvcSpec{name: regPick(c, used), typ: all[c.Intn(len(all))]}
			in := map[string]bool{}
			for j, k := 0, c.Intn(3); j < k; j++ {
				sv.methods = append(sv.methods, regPick(c, in))
			}
			s.svcs = append(s.svcs, sv)
		}
	}
	return s
}

// ---------------------------------------------------------------- observations

func regKind(d protoreflect.Descriptor) string {
	switch d := d.(type) {
	case protoreflect.MessageDescriptor:
		return "msg"
	case protoreflect.EnumDescriptor:
		return "enum"
	case protoreflect.EnumValueDescriptor:
		return "enumval"
	case protoreflect.FieldDescriptor:
		if d.IsExtension() {
			return "ext"
		}
		return "field"
	case protoreflect.OneofDescriptor:
		return "oneof"
	case protoreflect.ServiceDescriptor:
		return "svc"
	case protoreflect.MethodDescriptor:
		return "method"
	}
	return "unknown"
}

func regFileID(pool []*regFile, fd protoreflect.FileDescriptor) string {
	for i, f := range pool {
		if f.fd == fd {
			return strconv.Itoa(i)
		}
	}
	return "?"
}

func regErrClass(err error) string {
	if err == nil {
		return "ok"
	}
	s := err.Error()
	switch {
	case strings.Contains(s, "is already registered") && strings.Contains(s, "file "):
		return "e:path"
	case strings.Contains(s, "package name conflict"):
		return "e:pkg"
	case strings.Contains(s, "name conflict"):
		return "e:name"
	}
	return "e:other"
}

func regIDList(ids []int, sorted bool) string {
	if sorted {
		sort.Ints(ids)
	}
	ss := make([]string, len(ids))
	for i, v := range ids {
		ss[i] = strconv.Itoa(v)
	}
	return "[" + strings.Join(ss, ",") + "]"
}

func regFindTok(pool []*regFile, r *protoregistry.Files, name string) string {
	d, err := r.FindDescriptorByName(protoreflect.FullName(name))
	if err == protoregistry.NotFound {
		return "nf"
	}
	if err != nil {
		return "e:other"
	}
	return "f:" + regKind(d) + ":" + regFileID(pool, d.ParentFile()) + ":" + regHexS(string(d.FullName()))
}

// regFindSound: a successful FindDescriptorByName(n) returns a descriptor whose full name is n
// and which is a declaration of a file of the pool (soundness half of the lookup property).
func regFindSound(c *Ctx, pool []*regFile, r *protoregistry.Files, name string) {
	d, err := r.FindDescriptorByName(protoreflect.FullName(name))
	if err != nil {
		return
	}
	if string(d.FullName()) != name {
		c.PropFail("C33", "FindDescriptorByName returned a descriptor with another full name", regHexS(name), regHexS(string(d.FullName())))
		return
	}
	for _, f := range pool {
		if f.fd == d.ParentFile() {
			for _, x := range f.decls {
				if x == d {
					return
				}
			}
		}
	}
	c.PropFail("C33", "FindDescriptorByName returned a descriptor that is no declaration of a known file", regHexS(name))
}

// regProbe is the fixed probe set of predicate (a): every lookup / count observation.
func regProbe(pool []*regFile, r *protoregistry.Files, names []string) []any {
	var out []any
	for _, n := range names {
		d, err := r.FindDescriptorByName(protoreflect.FullName(n))
		out = append(out, d, err)
		out = append(out, r.NumFilesByPackage(protoreflect.FullName(n)))
		var ids []int
		r.RangeFilesByPackage(protoreflect.FullName(n), func(fd protoreflect.FileDescriptor) bool {
			id, _ := strconv.Atoi(regFileID(pool, fd))
			ids = append(ids, id)
			return true
		})
		out = append(out, regIDList(ids, false))
	}
	for _, p := range regPaths {
		fd, err := r.FindFileByPath(p)
		out = append(out, fd, err == nil, err == protoregistry.NotFound)
	}
	out = append(out, r.NumFiles())
	var ids []int
	r.RangeFiles(func(fd protoreflect.FileDescriptor) bool {
		id, _ := strconv.Atoi(regFileID(pool, fd))
		ids = append(ids, id)
		return true
	})
	out = append(out, regIDList(ids, true))
	return out
}

func regSameProbe(a, b []any) int {
	if len(a) != len(b) {
		return 0
	}
	for i := range a {
		if a[i] != b[i] {
			return i
		}
	}
	return -1
}

// regCandidateNames: names worth looking up for a pool of files.
func regCandidateNames(pool []*regFile) []string {
	set := map[string]bool{"": true, ".": true, "a..b": true, ".a": true, "a.": true, "zz": true, "a.b.c.d.e": true}
	for _, p := range regPkgs {
		set[p] = true
	}
	for _, f := range pool {
		for _, d := range f.decls {
			n := string(d.FullName())
			set[n] = true
			set[n+".x"] = true
			set[n+"."] = true
			set[n+".a"] = true
			set[n+".M.a"] = true
			for q := protoreflect.FullName(n).Parent(); q != ""; q = q.Parent() {
				set[string(q)] = true
			}
		}
	}
	var out []string
	for n := range set {
		out = append(out, n)
	}
	sort.Strings(out)
	return out
}

// ---------------------------------------------------------------- Files histories

// regRunFiles executes one history.  script: non-negative = register pool[i]; negative = a
// random lookup op (drawn from c).  The whole history becomes one C line.
func regRunFiles(c *Ctx, pool []*regFile, script []int) {
	if len(pool) == 0 {
		return
	}
	defer func() {
		if e := recover(); e != nil {
			c.PropFail("C33", fmt.Sprintf("panic in Files history: %v", e))
		}
	}()
	names := regCandidateNames(pool)
	// probe set of predicate (a): the packages plus a fixed random subset of the candidate names
	probe := append([]string(nil), regPkgs...)
	for i := 0; i < 40; i++ {
		probe = append(probe, names[c.Intn(len(names))])
	}
	r := new(protoregistry.Files)
	ins := make([]string, 0, len(pool)+len(script))
	for _, f := range pool {
		ins = append(ins, f.tok)
	}
	var obs []string
	var okIDs []int
	for _, sc := range script {
		var op, ob string
		switch {
		case sc >= 0:
			i := sc % len(pool)
			op = "reg:" + strconv.Itoa(i)
			before := regProbe(pool, r, probe)
			err := r.RegisterFile(pool[i].fd)
			ob = regErrClass(err)
			c.Stat("files:reg:" + ob)
			if err != nil {
				// (a) a failed registration changes no observation
				if k := regSameProbe(before, regProbe(pool, r, probe)); k >= 0 {
					c.PropFail("C33", "failed RegisterFile changed an observation", strings.Join(ins, " "), op, strconv.Itoa(k))
				}
			} else {
				okIDs = append(okIDs, i)
				// (b) every declaration of the file is found by its full name, and is that very descriptor
				for _, d := range pool[i].decls {
					got, err := r.FindDescriptorByName(d.FullName())
					if err != nil || got != d {
						c.PropFail("C33", "declaration of a registered file not found by full name", pool[i].tok, regKind(d), regHexS(string(d.FullName())))
					}
				}
			}
			// every declaration of every registered file stays found (later registrations do not hide it)
			for _, j := range okIDs {
				for _, d := range pool[j].decls {
					if got, err := r.FindDescriptorByName(d.FullName()); err != nil || got != d {
						c.PropFail("C33", "declaration of an earlier registered file no longer found", strings.Join(ins, " "), op, regHexS(string(d.FullName())))
					}
				}
			}
			// (c) NumFiles = number of successful registrations, RangeFiles enumerates them
			var ids []int
			r.RangeFiles(func(fd protoreflect.FileDescriptor) bool {
				id, _ := strconv.Atoi(regFileID(pool, fd))
				ids = append(ids, id)
				return true
			})
			if r.NumFiles() != len(okIDs) || regIDList(ids, true) != regIDList(append([]int(nil), okIDs...), true) {
				c.PropFail("C33", "NumFiles/RangeFiles differ from the successful registrations", strings.Join(ins, " "), op)
			}
			// ... and per package, in registration order
			for _, pk := range regPkgs {
				var want, got []int
				for _, j := range okIDs {
					if string(pool[j].fd.Package()) == pk {
						want = append(want, j)
					}
				}
				r.RangeFilesByPackage(protoreflect.FullName(pk), func(fd protoreflect.FileDescriptor) bool {
					id, _ := strconv.Atoi(regFileID(pool, fd))
					got = append(got, id)
					return true
				})
				if r.NumFilesByPackage(protoreflect.FullName(pk)) != len(want) || regIDList(got, false) != regIDList(want, false) {
					c.PropFail("C33", "NumFilesByPackage/RangeFilesByPackage differ from the successful registrations", strings.Join(ins, " "), op, regHexS(pk))
				}
			}
			// FindFileByPath finds exactly the registered paths
			for _, j := range okIDs {
				if fd, err := r.FindFileByPath(pool[j].fd.Path()); err != nil || fd != pool[j].fd {
					c.PropFail("C33", "FindFileByPath does not find a registered file", strings.Join(ins, " "), op)
				}
			}
		default:
			switch k := c.Intn(10); {
			case k < 5:
				n := names[c.Intn(len(names))]
				op = "find:" + regHexS(n)
				ob = regFindTok(pool, r, n)
				regFindSound(c, pool, r, n)
				c.Stat("files:find:" + strings.SplitN(ob, ":", 3)[0] + ":" + func() string {
					if p := strings.SplitN(ob, ":", 3); len(p) > 1 {
						return p[1]
					}
					return ""
				}())
			case k == 5:
				p := regPaths[c.Intn(len(regPaths))]
				op = "bypath:" + regHexS(p)
				fd, err := r.FindFileByPath(p)
				switch {
				case err == protoregistry.NotFound:
					ob = "nf"
				case err != nil:
					ob = "multi"
					c.PropFail("C33", "FindFileByPath reports multiple files on a local registry", strings.Join(ins, " "), op)
				default:
					ob = "f:" + regFileID(pool, fd)
				}
				c.Stat("files:bypath:" + ob[:1])
			case k == 6:
				op, ob = "num", strconv.Itoa(r.NumFiles())
			case k == 7:
				var ids []int
				r.RangeFiles(func(fd protoreflect.FileDescriptor) bool {
					id, _ := strconv.Atoi(regFileID(pool, fd))
					ids = append(ids, id)
					return true
				})
				op, ob = "range", regIDList(ids, true)
			case k == 8:
				p := names[c.Intn(len(names))]
				if c.Bool() {
					p = regPkgs[c.Intn(len(regPkgs))]
				}
				op, ob = "numpkg:"+regHexS(p), strconv.Itoa(r.NumFilesByPackage(protoreflect.FullName(p)))
			default:
				p := names[c.Intn(len(names))]
				if c.Bool() {
					p = regPkgs[c.Intn(len(regPkgs))]
				}
				var ids []int
				r.RangeFilesByPackage(protoreflect.FullName(p), func(fd protoreflect.FileDescriptor) bool {
					id, _ := strconv.Atoi(regFileID(pool, fd))
					ids = append(ids, id)
					return true
				})
				op, ob = "rangepkg:"+regHexS(p), regIDList(ids, false)
			}
		}
		ins = append(ins, op)
		obs = append(obs, ob)
	}
	c.Case("reg", "files", ins, obs)
}

// regFindAll appends a lookup of every candidate name to a script of registrations: used by the
// boundary corpus, where every name must be observed after the registrations.
func regRunFilesExhaustive(c *Ctx, pool []*regFile, regs []int) {
	if len(pool) == 0 {
		return
	}
	defer func() {
		if e := recover(); e != nil {
			c.PropFail("C33", fmt.Sprintf("panic in Files corpus history: %v", e))
		}
	}()
	names := regCandidateNames(pool)
	r := new(protoregistry.Files)
	var ins, obs []string
	for _, f := range pool {
		ins = append(ins, f.tok)
	}
	for _, i := range regs {
		ins = append(ins, "reg:"+strconv.Itoa(i))
		ob := regErrClass(r.RegisterFile(pool[i].fd))
		c.Stat("files:reg:" + ob)
		obs = append(obs, ob)
	}
	for _, n := range names {
		ins = append(ins, "find:"+regHexS(n))
		obs = append(obs, regFindTok(pool, r, n))
		regFindSound(c, pool, r, n)
		ins = append(ins, "numpkg:"+regHexS(n))
		obs = append(obs, strconv.Itoa(r.NumFilesByPackage(protoreflect.FullName(n))))
	}
	for _, p := range regPaths {
		ins = append(ins, "bypath:"+regHexS(p))
		fd, err := r.FindFileByPath(p)
		switch {
		case err == protoregistry.NotFound:
			obs = append(obs, "nf")
		case err != nil:
			obs = append(obs, "multi")
		default:
			obs = append(obs, "f:"+regFileID(pool, fd))
		}
	}
	ins = append(ins, "num")
	obs = append(obs, strconv.Itoa(r.NumFiles()))
	c.Case("reg", "files", ins, obs)
}

// ---------------------------------------------------------------- Types histories

type regType struct {
	kind     string // msg | enum | ext
	name     string
	extendee string
	num      int32
	mt       protoreflect.MessageType
	et       protoreflect.EnumType
	xt       protoreflect.ExtensionType
	desc     protoreflect.Descriptor
}

func regTypePool(pool []*regFile) []*regType {
	var out []*regType
	for _, f := range pool {
		for _, d := range f.decls {
			switch d := d.(type) {
			case protoreflect.MessageDescriptor:
				out = append(out, &regType{kind: "msg", name: string(d.FullName()), mt: dynamicpb.NewMessageType(d), desc: d})
			case protoreflect.EnumDescriptor:
				out = append(out, &regType{kind: "enum", name: string(d.FullName()), et: dynamicpb.NewEnumType(d), desc: d})
			case protoreflect.FieldDescriptor:
				if d.IsExtension() {
					out = append(out, &regType{kind: "ext", name: string(d.FullName()), extendee: string(d.ContainingMessage().FullName()),
						num: int32(d.Number()), xt: dynamicpb.NewExtensionType(d), desc: d})
				}
			}
		}
	}
	return out
}

func regTypeID(tp []*regType, d protoreflect.Descriptor) string {
	for i, t := range tp {
		if t.desc == d {
			return strconv.Itoa(i)
		}
	}
	return "?"
}

func regTypeErr(err error) string {
	if err == nil {
		return "ok"
	}
	s := err.Error()
	switch {
	case strings.Contains(s, "extension number"):
		return "e:extnum"
	case strings.Contains(s, "is already registered"):
		return "e:name"
	}
	return "e:other"
}

func regFindErr(err error) string {
	if err == protoregistry.NotFound {
		return "nf"
	}
	if strings.Contains(err.Error(), "found wrong type") {
		return "wrongtype"
	}
	return "e:other"
}

func regTypesProbe(tp []*regType, r *protoregistry.Types, names []string) []any {
	var out []any
	for _, n := range names {
		fn := protoreflect.FullName(n)
		m, e1 := r.FindMessageByName(fn)
		e, e2 := r.FindEnumByName(fn)
		x, e3 := r.FindExtensionByName(fn)
		out = append(out, m, e1 == nil, e1 == protoregistry.NotFound, e, e2 == nil, e2 == protoregistry.NotFound, x, e3 == nil, e3 == protoregistry.NotFound)
		out = append(out, r.NumExtensionsByMessage(fn))
		for num := 99; num <= 103; num++ {
			x, err := r.FindExtensionByNumber(fn, protoreflect.FieldNumber(num))
			out = append(out, x, err == nil)
		}
	}
	out = append(out, r.NumMessages(), r.NumEnums(), r.NumExtensions())
	return out
}

func regRunTypes(c *Ctx, pool []*regFile, nops int) {
	tp := regTypePool(pool)
	if len(tp) == 0 {
		return
	}
	defer func() {
		if e := recover(); e != nil {
			c.PropFail("C33", fmt.Sprintf("panic in Types history: %v", e))
		}
	}()
	names := regCandidateNames(pool)
	probe := append([]string(nil), regPkgs...)
	for i := 0; i < 30; i++ {
		probe = append(probe, names[c.Intn(len(names))])
	}
	var tnames []string // names of types (hit rate) + some others
	for _, t := range tp {
		tnames = append(tnames, t.name, t.extendee)
	}
	r := new(protoregistry.Types)
	var ins, obs []string
	nOK := map[string]int{}
	pickName := func() string {
		if c.Intn(4) == 0 {
			return names[c.Intn(len(names))]
		}
		return tnames[c.Intn(len(tnames))]
	}
	found := func(d protoreflect.Descriptor, err error) string {
		if err != nil {
			return regFindErr(err)
		}
		return "f:" + regTypeID(tp, d)
	}
	rangeIDs := func(which string, m string) string {
		var ids []int
		add := func(d protoreflect.Descriptor) {
			id, _ := strconv.Atoi(regTypeID(tp, d))
			ids = append(ids, id)
		}
		switch which {
		case "msg":
			r.RangeMessages(func(t protoreflect.MessageType) bool { add(t.Descriptor()); return true })
		case "enum":
			r.RangeEnums(func(t protoreflect.EnumType) bool { add(t.Descriptor()); return true })
		case "ext":
			r.RangeExtensions(func(t protoreflect.ExtensionType) bool { add(t.TypeDescriptor().Descriptor()); return true })
		case "extby":
			r.RangeExtensionsByMessage(protoreflect.FullName(m), func(t protoreflect.ExtensionType) bool { add(t.TypeDescriptor().Descriptor()); return true })
		}
		return regIDList(ids, true)
	}
	var tried []int
	for step := 0; step < nops; step++ {
		var op, ob string
		switch k := c.Intn(20); {
		case k < 8:
			i := c.Intn(len(tp))
			if len(tried) > 0 && c.Intn(3) == 0 {
				// another pool entry with the name of a type already tried: name conflicts between
				// different descriptors (for extensions: after the number check has passed)
				want := tp[tried[c.Intn(len(tried))]].name
				for j, off := 0, c.Intn(len(tp)); j < len(tp); j++ {
					if cand := (j + off) % len(tp); tp[cand].name == want {
						i = cand
						break
					}
				}
			}
			tried = append(tried, i)
			t := tp[i]
			before := regTypesProbe(tp, r, append(probe, t.name, t.extendee))
			var err error
			switch t.kind {
			case "msg":
				op = "regmsg:" + strconv.Itoa(i) + ":" + regHexS(t.name)
				err = r.RegisterMessage(t.mt)
			case "enum":
				op = "regenum:" + strconv.Itoa(i) + ":" + regHexS(t.name)
				err = r.RegisterEnum(t.et)
			default:
				op = "regext:" + strconv.Itoa(i) + ":" + regHexS(t.name) + ":" + regHexS(t.extendee) + ":" + HexN(uint64(t.num))
				err = r.RegisterExtension(t.xt)
			}
			ob = regTypeErr(err)
			c.Stat("types:reg" + t.kind + ":" + ob)
			if err != nil {
				if k := regSameProbe(before, regTypesProbe(tp, r, append(probe, t.name, t.extendee))); k >= 0 {
					c.PropFail("C33", "failed Types registration changed an observation", strings.Join(ins, " "), op, strconv.Itoa(k))
				}
			} else {
				nOK[t.kind]++
				fn := protoreflect.FullName(t.name)
				switch t.kind {
				case "msg":
					if got, err := r.FindMessageByName(fn); err != nil || got.Descriptor() != t.desc {
						c.PropFail("C33", "registered message type not found by name", op)
					}
					if got, err := r.FindMessageByURL("type.googleapis.com/" + t.name); err != nil || got.Descriptor() != t.desc {
						c.PropFail("C33", "registered message type not found by URL", op)
					}
				case "enum":
					if got, err := r.FindEnumByName(fn); err != nil || got.Descriptor() != t.desc {
						c.PropFail("C33", "registered enum type not found by name", op)
					}
				default:
					if got, err := r.FindExtensionByName(fn); err != nil || got.TypeDescriptor().Descriptor() != t.desc {
						c.PropFail("C33", "registered extension type not found by name", op)
					}
					if got, err := r.FindExtensionByNumber(protoreflect.FullName(t.extendee), protoreflect.FieldNumber(t.num)); err != nil || got.TypeDescriptor().Descriptor() != t.desc {
						c.PropFail("C33", "registered extension type not found by number", op)
					}
				}
			}
			if r.NumMessages() != nOK["msg"] || r.NumEnums() != nOK["enum"] || r.NumExtensions() != nOK["ext"] {
				c.PropFail("C33", "Types counters differ from the successful registrations", strings.Join(ins, " "), op)
			}
		case k < 10:
			n := pickName()
			op = "findmsg:" + regHexS(n)
			t, err := r.FindMessageByName(protoreflect.FullName(n))
			if err == nil {
				ob = found(t.Descriptor(), nil)
			} else {
				ob = found(nil, err)
			}
			c.Stat("types:findmsg:" + ob[:1])
		case k < 12:
			n := pickName()
			switch c.Intn(4) {
			case 0:
				n = "type.googleapis.com/" + n
			case 1:
				n = "a/b/" + n
			case 2:
				n = "/" + n
			}
			op = "findurl:" + regHexS(n)
			t, err := r.FindMessageByURL(n)
			if err == nil {
				if want := n[strings.LastIndexByte(n, '/')+1:]; string(t.Descriptor().FullName()) != want {
					c.PropFail("C33", "FindMessageByURL returned a message whose name is not the URL's last segment", regHexS(n))
				}
				ob = found(t.Descriptor(), nil)
			} else {
				ob = found(nil, err)
			}
			c.Stat("types:findurl:" + ob[:1])
		case k < 13:
			n := pickName()
			op = "findenum:" + regHexS(n)
			t, err := r.FindEnumByName(protoreflect.FullName(n))
			if err == nil {
				ob = found(t.Descriptor(), nil)
			} else {
				ob = found(nil, err)
			}
			c.Stat("types:findenum:" + ob[:1])
		case k < 14:
			n := pickName()
			op = "findext:" + regHexS(n)
			t, err := r.FindExtensionByName(protoreflect.FullName(n))
			if err == nil {
				ob = found(t.TypeDescriptor().Descriptor(), nil)
			} else {
				ob = found(nil, err)
			}
			c.Stat("types:findext:" + ob[:1])
		case k < 16:
			n := pickName()
			num := 99 + c.Intn(5)
			op = "findextnum:" + regHexS(n) + ":" + HexN(uint64(num))
			t, err := r.FindExtensionByNumber(protoreflect.FullName(n), protoreflect.FieldNumber(num))
			if err == nil {
				ob = found(t.TypeDescriptor().Descriptor(), nil)
			} else {
				ob = found(nil, err)
			}
			c.Stat("types:findextnum:" + ob[:1])
		case k == 16:
			switch c.Intn(3) {
			case 0:
				op, ob = "nummsg", strconv.Itoa(r.NumMessages())
			case 1:
				op, ob = "numenum", strconv.Itoa(r.NumEnums())
			default:
				op, ob = "numext", strconv.Itoa(r.NumExtensions())
			}
		case k == 17:
			n := pickName()
			op, ob = "numextby:"+regHexS(n), strconv.Itoa(r.NumExtensionsByMessage(protoreflect.FullName(n)))
		case k == 18:
			switch c.Intn(3) {
			case 0:
				op, ob = "rangemsg", rangeIDs("msg", "")
			case 1:
				op, ob = "rangeenum", rangeIDs("enum", "")
			default:
				op, ob = "rangeext", rangeIDs("ext", "")
			}
		default:
			n := pickName()
			op, ob = "rangeextby:"+regHexS(n), rangeIDs("extby", n)
		}
		ins = append(ins, op)
		obs = append(obs, ob)
	}
	c.Case("reg", "types", ins, obs)
}

// ---------------------------------------------------------------- boundary corpus

func regCorpus(c *Ctx) {
	m := func(name string, fields ...string) regMsgSpec {
		ms := regMsgSpec{name: name}
		for _, f := range fields {
			ms.fields = append(ms.fields, regFieldSpec{name: f, oneof: -1})
		}
		return ms
	}
	build := func(specs ...regFileSpec) []*regFile {
		var pool []*regFile
		for _, s := range specs {
			if f := regBuild(c, s); f != nil {
				pool = append(pool, f)
			} else {
				c.PropFail("C33", "corpus file rejected by protodesc.NewFile", s.path, s.pkg)
			}
		}
		return pool
	}
	// A: package a, message b { message c { field f }, field f, oneof o{g}, enum E{V} }, enum T {W}
	a := regFileSpec{path: "p1.proto", pkg: "a",
		msgs: []regMsgSpec{{name: "b", msgs: []regMsgSpec{m("c", "f")}, enums: []regEnumSpec{{"E", []string{"V"}}},
			fields: []regFieldSpec{{"f", -1, ""}, {"g", 0, ""}}, oneofs: []string{"o"}, extRange: true}},
		enums: []regEnumSpec{{"T", []string{"W"}}}}
	// B: package a.b, message M
	b := regFileSpec{path: "p2.proto", pkg: "a.b", msgs: []regMsgSpec{m("M", "x")}}
	// message b in package a, then package a.b: pkg conflict; converse order: name conflict
	p := build(a, b)
	regRunFilesExhaustive(c, p, []int{0, 1})
	regRunFilesExhaustive(c, p, []int{1, 0})
	regRunFilesExhaustive(c, p, []int{1, 0, 1, 0})
	// deeper package prefix conflicts: a.b.c vs message a.b
	d := regFileSpec{path: "p3.proto", pkg: "a.b.c", msgs: []regMsgSpec{m("M")}}
	p = build(a, d, b)
	regRunFilesExhaustive(c, p, []int{0, 1, 2})
	regRunFilesExhaustive(c, p, []int{1, 0, 2})
	regRunFilesExhaustive(c, p, []int{2, 1, 0})
	// empty package; enum value M vs message M across files
	e1 := regFileSpec{path: "p1.proto", msgs: []regMsgSpec{m("M", "a")}, enums: []regEnumSpec{{"E", []string{"V"}}}}
	e2 := regFileSpec{path: "p2.proto", enums: []regEnumSpec{{"X", []string{"Y", "M"}}}}
	e3 := regFileSpec{path: "p3.proto", msgs: []regMsgSpec{m("V")}}
	p = build(e1, e2, e3)
	regRunFilesExhaustive(c, p, []int{0, 1, 2})
	regRunFilesExhaustive(c, p, []int{1, 0, 2})
	regRunFilesExhaustive(c, p, []int{2, 1, 0})
	// same path twice (different content), same file twice
	s1 := regFileSpec{path: "p1.proto", pkg: "b", msgs: []regMsgSpec{m("M")}}
	s2 := regFileSpec{path: "p1.proto", pkg: "c", msgs: []regMsgSpec{m("M")}}
	s3 := regFileSpec{path: "p2.proto", pkg: "b", msgs: []regMsgSpec{m("N")}}
	p = build(s1, s2, s3)
	regRunFilesExhaustive(c, p, []int{0, 1, 0, 2, 2})
	regRunFilesExhaustive(c, p, []int{1, 0, 2})
	// services and methods; extensions top-level and nested; package equal to a declaration name elsewhere
	x1 := regFileSpec{path: "p1.proto", pkg: "a.b",
		msgs: []regMsgSpec{{name: "M", extRange: true, exts: []regExtSpec{{"x", ".a.b.M", 100}},
			msgs: []regMsgSpec{{name: "N", exts: []regExtSpec{{"y", ".a.b.M", 101}}, enums: []regEnumSpec{{"E", []string{"A", "B"}}, {"F", []string{"C"}}}}}}},
		exts: []regExtSpec{{"x", ".a.b.M", 102}, {"z", ".a.b.M", 100}},
		svcs: []regSvcSpec{{name: "S", methods: []string{"m", "n"}, typ: ".a.b.M"}}}
	x2 := regFileSpec{path: "p2.proto", pkg: "a", svcs: nil, msgs: []regMsgSpec{m("S", "m")}, enums: []regEnumSpec{{"b2", []string{"x"}}}}
	x3 := regFileSpec{path: "p3.proto", pkg: "a", msgs: []regMsgSpec{m("x")}}
	p = build(x1, x2, x3)
	regRunFilesExhaustive(c, p, []int{0, 1, 2})
	regRunFilesExhaustive(c, p, []int{2, 1, 0})
	// Types: every type of the last pools, registered twice, all lookups
	for i := 0; i < 4; i++ {
		regRunTypes(c, p, 40)
	}
	p = build(a, b, d, e1, e2)
	for i := 0; i < 4; i++ {
		regRunTypes(c, p, 40)
	}
}

// regLinkedFiles: every file linked into the binary (generated code of every syntax and API level: proto3 optional
// fields with their synthetic oneofs, groups, map entries, nested extensions, services), registered alone in a fresh
// local registry: each of its declarations must be found by its full name, as that very descriptor.
func regLinkedFiles(c *Ctx) {
	var fds []protoreflect.FileDescriptor
	protoregistry.GlobalFiles.RangeFiles(func(fd protoreflect.FileDescriptor) bool { fds = append(fds, fd); return true })
	sort.Slice(fds, func(i, j int) bool { return fds[i].Path() < fds[j].Path() })
	for _, fd := range fds {
		r := new(protoregistry.Files)
		if err := r.RegisterFile(fd); err != nil {
			c.PropFail("C33", "a linked file is rejected by an empty registry: "+regErrClass(err), fd.Path())
			continue
		}
		c.Stat("linked_file")
		if got, err := r.FindFileByPath(fd.Path()); err != nil || got != fd {
			c.PropFail("C33", "FindFileByPath does not return the registered file", fd.Path())
		}
		n := 0
		for _, d := range regWalkFile(fd) {
			n++
			got, err := r.FindDescriptorByName(d.FullName())
			if err != nil {
				c.PropFail("C33", "declaration of a registered file not found by full name ("+regKind(d)+")", fd.Path(), string(d.FullName()))
			} else if got != d {
				c.PropFail("C33", "FindDescriptorByName returns another descriptor ("+regKind(d)+")", fd.Path(), string(d.FullName()))
			}
			if od, ok := d.(protoreflect.OneofDescriptor); ok && od.IsSynthetic() {
				c.Stat("linked_synthetic_oneof")
			}
		}
		if r.NumFiles() != 1 || r.NumFilesByPackage(fd.Package()) != 1 {
			c.PropFail("C33", "counts after registering one file", fd.Path())
		}
		c.StatN("linked_decls", n)
	}
}

func famReg(c *Ctx) {
	defer func() {
		if e := recover(); e != nil {
			c.PropFail("C33", fmt.Sprintf("panic: %v", e))
		}
	}()
	regCorpus(c)
	regLinkedFiles(c)
	for h := 0; h < c.N; h++ {
		var pool []*regFile
		for i, n := 0, 3+c.Intn(4); i < n; i++ {
			if f := regBuild(c, regGenSpec(c, i)); f != nil {
				pool = append(pool, f)
			}
		}
		if len(pool) == 0 {
			continue
		}
		c.StatN("files:pool", len(pool))
		nops := 10 + c.Intn(31)
		script := make([]int, nops)
		tried := map[int]bool{}
		for i := range script {
			if c.Intn(10) < 3 {
				k := c.Intn(len(pool))
				for try := 0; try < 4 && tried[k] && c.Intn(5) != 0; try++ { // prefer files not yet tried
					k = c.Intn(len(pool))
				}
				tried[k] = true
				script[i] = k
			} else {
				script[i] = -1
			}
		}
		regRunFiles(c, pool, script)
		regRunTypes(c, pool, 10+c.Intn(31))
	}
}
