//go:build verif

package main

// Shared helpers of the message-level families (msg and its descendants).
//
//	msgDynTypes()              resolver with dynamicpb extension types (for reflection-path flavours)
//	msgAllTypes()              every linked message type (sorted by name; no map entries, nothing that
//	                           reaches a MessageSet message)
//	msgRandomSchemas(c, n)     n random valid FileDescriptorProtos -> root message descriptors (dynamicpb)
//	msgSchemaOf(c, md)         schema id of md for this run; emits the `schema` case line on first use
//	msgDumpSchema(md)          schema tokens (see ocaml/fam_msg.ml for the format)
//	msgDump(m)                 canonical value tokens (field-number keyed, maps sorted by key, floats as
//	                           bits, unknown as raw bytes)
//	msgRandomFill(c, m, depth) random population through protoreflect (works for generated and dynamicpb)
//	msgScalar(c, fd)           one boundary-heavy scalar value
//	msgGenUnknown(c, md)       well-formed unknown fields (numbers the schema does not decode)
//	msgRewrite(c, md, b, d)    another valid encoding of the same field sequence (order, packedness,
//	                           split sub-messages, non-minimal varints)
//	msgMutate(c, b)            a damaged encoding
//	msgErrClass(err)           e1 parse | e2 depth | e3 utf8 | e9 other
//	msgF1Class(md, b)          recogniser of known finding F1
//	msgHasLazy(md)             some reachable field is declared [lazy=true]
//	msgFB1Class(md, b)         recogniser of finding FB1 (legacy message fields)
//	msgFB3Class(md, b)         recogniser of finding FB3 (ConsumeGroup budget on the reflection path)
//	msgLegacyReach(md), msgDepthExact(mt)   types whose table-driven decoder is not the modelled one

import (
	"fmt"
	"math"
	"sort"
	"strconv"
	"strings"

	"google.golang.org/protobuf/encoding/protowire"
	"google.golang.org/protobuf/internal/encoding/messageset"
	"google.golang.org/protobuf/internal/strs"
	"google.golang.org/protobuf/proto"
	"google.golang.org/protobuf/reflect/protodesc"
	"google.golang.org/protobuf/reflect/protoreflect"
	"google.golang.org/protobuf/reflect/protoregistry"
	"google.golang.org/protobuf/types/descriptorpb"
	"google.golang.org/protobuf/types/dynamicpb"

	_ "google.golang.org/protobuf/internal/testprotos/annotation"
	_ "google.golang.org/protobuf/internal/testprotos/benchmarks"
	_ "google.golang.org/protobuf/internal/testprotos/benchmarks/datasets/google_message1/proto2"
	_ "google.golang.org/protobuf/internal/testprotos/benchmarks/datasets/google_message1/proto3"
	_ "google.golang.org/protobuf/internal/testprotos/benchmarks/datasets/google_message2"
	_ "google.golang.org/protobuf/internal/testprotos/benchmarks/datasets/google_message3"
	_ "google.golang.org/protobuf/internal/testprotos/benchmarks/datasets/google_message4"
	_ "google.golang.org/protobuf/internal/testprotos/benchmarks/micro"
	_ "google.golang.org/protobuf/internal/testprotos/conformance"
	_ "google.golang.org/protobuf/internal/testprotos/conformance/editions"
	_ "google.golang.org/protobuf/internal/testprotos/conformance/editionsmigration"
	_ "google.golang.org/protobuf/internal/testprotos/conformance/editionunstable"
	_ "google.golang.org/protobuf/internal/testprotos/editionsfuzztest"
	_ "google.golang.org/protobuf/internal/testprotos/enums"
	_ "google.golang.org/protobuf/internal/testprotos/enums/enums_hybrid"
	_ "google.golang.org/protobuf/internal/testprotos/enums/enums_opaque"
	_ "google.golang.org/protobuf/internal/testprotos/examples/ext"
	_ "google.golang.org/protobuf/internal/testprotos/fieldtrack"
	_ "google.golang.org/protobuf/internal/testprotos/fuzz"
	_ "google.golang.org/protobuf/internal/testprotos/lazy"
	_ "google.golang.org/protobuf/internal/testprotos/lazy/lazy_hybrid"
	_ "google.golang.org/protobuf/internal/testprotos/lazy/lazy_opaque"
	_ "google.golang.org/protobuf/internal/testprotos/legacy"
	_ "google.golang.org/protobuf/internal/testprotos/legacy/proto2_20160225_2fc053c5"
	_ "google.golang.org/protobuf/internal/testprotos/legacy/proto2_20160519_a4ab9ec5"
	_ "google.golang.org/protobuf/internal/testprotos/legacy/proto2_20180125_92554152"
	_ "google.golang.org/protobuf/internal/testprotos/legacy/proto2_20180430_b4deda09"
	_ "google.golang.org/protobuf/internal/testprotos/legacy/proto2_20180814_aa810b61"
	_ "google.golang.org/protobuf/internal/testprotos/legacy/proto2_20190205_c823c79e"
	_ "google.golang.org/protobuf/internal/testprotos/legacy/proto3_20160225_2fc053c5"
	_ "google.golang.org/protobuf/internal/testprotos/legacy/proto3_20160519_a4ab9ec5"
	_ "google.golang.org/protobuf/internal/testprotos/legacy/proto3_20180125_92554152"
	_ "google.golang.org/protobuf/internal/testprotos/legacy/proto3_20180430_b4deda09"
	_ "google.golang.org/protobuf/internal/testprotos/legacy/proto3_20180814_aa810b61"
	_ "google.golang.org/protobuf/internal/testprotos/legacy/proto3_20190205_c823c79e"
	_ "google.golang.org/protobuf/internal/testprotos/messageset/messagesetpb"
	_ "google.golang.org/protobuf/internal/testprotos/messageset/messagesetpb/messagesetpb_hybrid"
	_ "google.golang.org/protobuf/internal/testprotos/messageset/messagesetpb/messagesetpb_opaque"
	_ "google.golang.org/protobuf/internal/testprotos/messageset/msetextpb"
	_ "google.golang.org/protobuf/internal/testprotos/messageset/msetextpb/msetextpb_hybrid"
	_ "google.golang.org/protobuf/internal/testprotos/messageset/msetextpb/msetextpb_opaque"
	_ "google.golang.org/protobuf/internal/testprotos/mixed"
	_ "google.golang.org/protobuf/internal/testprotos/news"
	_ "google.golang.org/protobuf/internal/testprotos/order"
	_ "google.golang.org/protobuf/internal/testprotos/registry"
	_ "google.golang.org/protobuf/internal/testprotos/required"
	_ "google.golang.org/protobuf/internal/testprotos/required/required_hybrid"
	_ "google.golang.org/protobuf/internal/testprotos/required/required_opaque"
	_ "google.golang.org/protobuf/internal/testprotos/test"
	_ "google.golang.org/protobuf/internal/testprotos/test/test_nopackage"
	_ "google.golang.org/protobuf/internal/testprotos/test/test_option"
	_ "google.golang.org/protobuf/internal/testprotos/test3"
	_ "google.golang.org/protobuf/internal/testprotos/test3/test3_hybrid"
	_ "google.golang.org/protobuf/internal/testprotos/test3/test3_opaque"
	_ "google.golang.org/protobuf/internal/testprotos/testeditions"
	_ "google.golang.org/protobuf/internal/testprotos/testeditions/testeditions_hybrid"
	_ "google.golang.org/protobuf/internal/testprotos/testeditions/testeditions_opaque"
	_ "google.golang.org/protobuf/internal/testprotos/textpb2"
	_ "google.golang.org/protobuf/internal/testprotos/textpb3"
	_ "google.golang.org/protobuf/internal/testprotos/textpbeditions"
	_ "google.golang.org/protobuf/internal/testprotos/textpbeditions/textpbeditions_hybrid"
	_ "google.golang.org/protobuf/internal/testprotos/textpbeditions/textpbeditions_opaque"
	_ "google.golang.org/protobuf/types/gofeaturespb"
	_ "google.golang.org/protobuf/types/known/anypb"
	_ "google.golang.org/protobuf/types/known/apipb"
	_ "google.golang.org/protobuf/types/known/durationpb"
	_ "google.golang.org/protobuf/types/known/emptypb"
	_ "google.golang.org/protobuf/types/known/fieldmaskpb"
	_ "google.golang.org/protobuf/types/known/sourcecontextpb"
	_ "google.golang.org/protobuf/types/known/structpb"
	_ "google.golang.org/protobuf/types/known/timestamppb"
	_ "google.golang.org/protobuf/types/known/typepb"
	_ "google.golang.org/protobuf/types/known/wrapperspb"
	_ "google.golang.org/protobuf/types/pluginpb"
)

// ---------------------------------------------------------------- types

var msgAllTypesCache []protoreflect.MessageType

// msgReachesMessageSet reports whether md or a message reachable from it (fields, registered
// extensions) uses message_set_wire_format.
func msgReachesMessageSet(md protoreflect.MessageDescriptor, seen map[protoreflect.FullName]bool) bool {
	if seen[md.FullName()] {
		return false
	}
	seen[md.FullName()] = true
	if messageset.IsMessageSet(md) {
		return true
	}
	fds := md.Fields()
	for i := 0; i < fds.Len(); i++ {
		fd := fds.Get(i)
		if fd.IsMap() {
			fd = fd.MapValue()
		}
		if sub := fd.Message(); sub != nil && msgReachesMessageSet(sub, seen) {
			return true
		}
	}
	for _, xd := range msgExtensionsOf(md) {
		if sub := xd.Message(); sub != nil && msgReachesMessageSet(sub, seen) {
			return true
		}
	}
	return false
}

// msgAllTypes returns every message type linked into the harness, sorted by full name.
func msgAllTypes() []protoreflect.MessageType {
	if msgAllTypesCache != nil {
		return msgAllTypesCache
	}
	var out []protoreflect.MessageType
	protoregistry.GlobalTypes.RangeMessages(func(mt protoreflect.MessageType) bool {
		md := mt.Descriptor()
		if md.IsMapEntry() || msgReachesMessageSet(md, map[protoreflect.FullName]bool{}) {
			return true
		}
		out = append(out, mt)
		return true
	})
	sort.Slice(out, func(i, j int) bool { return out[i].Descriptor().FullName() < out[j].Descriptor().FullName() })
	msgAllTypesCache = out
	return out
}

var msgExtCache = map[protoreflect.FullName][]protoreflect.ExtensionTypeDescriptor{}

// msgExtensionsOf returns the extensions registered (GlobalTypes) for md, sorted by number.
func msgExtensionsOf(md protoreflect.MessageDescriptor) []protoreflect.ExtensionTypeDescriptor {
	if md.ExtensionRanges().Len() == 0 {
		return nil
	}
	if xs, ok := msgExtCache[md.FullName()]; ok {
		return xs
	}
	var xs []protoreflect.ExtensionTypeDescriptor
	protoregistry.GlobalTypes.RangeExtensionsByMessage(md.FullName(), func(xt protoreflect.ExtensionType) bool {
		xs = append(xs, xt.TypeDescriptor())
		return true
	})
	sort.Slice(xs, func(i, j int) bool { return xs[i].Number() < xs[j].Number() })
	msgExtCache[md.FullName()] = xs
	return xs
}

var msgDynTypesCache *protoregistry.Types

// msgDynTypes is a resolver with a dynamicpb extension type for every linked extension; the
// reflection-path flavours use it so that their messages contain no generated messages.
func msgDynTypes() *protoregistry.Types {
	if msgDynTypesCache != nil {
		return msgDynTypesCache
	}
	t := new(protoregistry.Types)
	protoregistry.GlobalTypes.RangeExtensions(func(xt protoreflect.ExtensionType) bool {
		t.RegisterExtension(dynamicpb.NewExtensionType(xt.TypeDescriptor().Descriptor()))
		return true
	})
	msgDynTypesCache = t
	return t
}

func msgIsLazyField(fd protoreflect.FieldDescriptor) bool {
	if l, ok := fd.(interface{ IsLazy() bool }); ok {
		return l.IsLazy()
	}
	return false
}

var msgHasLazyCache = map[protoreflect.FullName]bool{}

func msgHasLazy(md protoreflect.MessageDescriptor) bool {
	if v, ok := msgHasLazyCache[md.FullName()]; ok {
		return v
	}
	seen := map[protoreflect.FullName]bool{}
	var walk func(md protoreflect.MessageDescriptor) bool
	walk = func(md protoreflect.MessageDescriptor) bool {
		if seen[md.FullName()] {
			return false
		}
		seen[md.FullName()] = true
		fds := md.Fields()
		for i := 0; i < fds.Len(); i++ {
			fd := fds.Get(i)
			if msgIsLazyField(fd) {
				return true
			}
			if fd.IsMap() {
				fd = fd.MapValue()
			}
			if sub := fd.Message(); sub != nil && walk(sub) {
				return true
			}
		}
		for _, xd := range msgExtensionsOf(md) {
			if sub := xd.Message(); sub != nil && walk(sub) {
				return true
			}
		}
		return false
	}
	v := walk(md)
	msgHasLazyCache[md.FullName()] = v
	return v
}

var msgDepthExactCache = map[protoreflect.FullName]bool{}

// msgDepthExact reports whether the recursion counter of the decoder is threaded through every
// nested message reachable from mt: false for legacy (non-protoimpl) message types and for
// types that reach a message-typed extension -- the table-driven decoder hands those values to
// proto.UnmarshalOptions without the remaining depth, which restarts the counter.
func msgDepthExact(mt protoreflect.MessageType) bool {
	md := mt.Descriptor()
	if v, ok := msgDepthExactCache[md.FullName()]; ok {
		return v
	}
	v := true
	if strings.Contains(fmt.Sprintf("%T", mt.New().Interface()), "messageIfaceWrapper") {
		v = false
	}
	seen := map[protoreflect.FullName]bool{}
	var walk func(md protoreflect.MessageDescriptor)
	walk = func(md protoreflect.MessageDescriptor) {
		if seen[md.FullName()] {
			return
		}
		seen[md.FullName()] = true
		if strings.HasPrefix(string(md.FullName()), "google.golang.org.proto") {
			v = false // legacy test messages
		}
		fds := md.Fields()
		for i := 0; i < fds.Len(); i++ {
			fd := fds.Get(i)
			if fd.IsMap() {
				fd = fd.MapValue()
			}
			if sub := fd.Message(); sub != nil {
				walk(sub)
			}
		}
		for _, xd := range msgExtensionsOf(md) {
			if sub := xd.Message(); sub != nil {
				v = false
				walk(sub)
			}
		}
	}
	walk(md)
	msgDepthExactCache[md.FullName()] = v
	return v
}

func msgIsLegacyName(n protoreflect.FullName) bool {
	return strings.HasPrefix(string(n), "google.golang.org.proto")
}

var msgLegacyReachCache = map[protoreflect.FullName]bool{}

// msgLegacyReach reports whether md is, or reaches, one of the legacy (pre-protoimpl generated)
// test messages.  Their table-driven codec differs from the modelled one (no unknown-field
// storage in the oldest proto3 ones, recursion counter restarted, finding FB1).
func msgLegacyReach(md protoreflect.MessageDescriptor) bool {
	if v, ok := msgLegacyReachCache[md.FullName()]; ok {
		return v
	}
	v := false
	seen := map[protoreflect.FullName]bool{}
	var walk func(md protoreflect.MessageDescriptor)
	walk = func(md protoreflect.MessageDescriptor) {
		if seen[md.FullName()] {
			return
		}
		seen[md.FullName()] = true
		if msgIsLegacyName(md.FullName()) {
			v = true
		}
		fds := md.Fields()
		for i := 0; i < fds.Len(); i++ {
			fd := fds.Get(i)
			if fd.IsMap() {
				fd = fd.MapValue()
			}
			if sub := fd.Message(); sub != nil {
				walk(sub)
			}
		}
		for _, xd := range msgExtensionsOf(md) {
			if sub := xd.Message(); sub != nil {
				walk(sub)
			}
		}
	}
	walk(md)
	msgLegacyReachCache[md.FullName()] = v
	return v
}

// msgFB1Class recognises the input class of finding FB1: a singular message- or group-typed
// field whose message type is a legacy (non-protoimpl) message occurs with a wire type other
// than its own, at any depth reachable through known message fields.
func msgFB1Class(md protoreflect.MessageDescriptor, b []byte) bool {
	chunks, ok := msgSplitFields(b)
	if !ok {
		return false
	}
	for _, ch := range chunks {
		fd := msgFindField(md, ch.num)
		if fd == nil {
			continue
		}
		sub := fd.Message()
		if sub == nil {
			continue
		}
		if !msgFieldAccepts(fd, ch.typ) {
			if !fd.IsList() && !fd.IsMap() && msgIsLegacyName(sub.FullName()) {
				return true
			}
			continue
		}
		// descend (map entries are messages with fields 1 and 2)
		if ch.typ == protowire.BytesType {
			if p, n := protowire.ConsumeBytes(ch.val); n >= 0 && msgFB1Class(sub, p) {
				return true
			}
		}
		if ch.typ == protowire.StartGroupType {
			if p, n := protowire.ConsumeGroup(ch.num, ch.val); n >= 0 && msgFB1Class(sub, p) {
				return true
			}
		}
	}
	return false
}

// msgFB3Class recognises the input class of finding FB3: some known group-typed field (reachable
// through known message fields) whose protowire.ConsumeGroup scan -- the first thing the
// reflection path does with it -- exceeds the scanner's recursion budget.
func msgFB3Class(md protoreflect.MessageDescriptor, b []byte) bool {
	for len(b) > 0 {
		num, typ, n := protowire.ConsumeTag(b)
		if n < 0 || num > protowire.MaxValidNumber {
			return false
		}
		b = b[n:]
		fd := msgFindField(md, num)
		if fd != nil && typ == protowire.StartGroupType && fd.Kind() == protoreflect.GroupKind {
			content, m := protowire.ConsumeGroup(num, b)
			if m < 0 {
				return m == -6 // errCodeRecursionDepth
			}
			if msgFB3Class(fd.Message(), content) {
				return true
			}
			b = b[m:]
			continue
		}
		m := protowire.ConsumeFieldValue(num, typ, b)
		if m < 0 {
			return false
		}
		if fd != nil && typ == protowire.BytesType && fd.Message() != nil {
			if p, k := protowire.ConsumeBytes(b[:m]); k >= 0 && msgFB3Class(fd.Message(), p) {
				return true
			}
		}
		b = b[m:]
	}
	return false
}

// ---------------------------------------------------------------- schema dump

func msgCollect(md protoreflect.MessageDescriptor, idx map[protoreflect.FullName]int, list *[]protoreflect.MessageDescriptor) {
	if _, ok := idx[md.FullName()]; ok {
		return
	}
	idx[md.FullName()] = len(*list)
	*list = append(*list, md)
	visit := func(fd protoreflect.FieldDescriptor) {
		if fd.IsMap() {
			fd = fd.MapValue()
		}
		if sub := fd.Message(); sub != nil {
			msgCollect(sub, idx, list)
		}
	}
	fds := md.Fields()
	for i := 0; i < fds.Len(); i++ {
		visit(fds.Get(i))
	}
	for _, xd := range msgExtensionsOf(md) {
		visit(xd)
	}
}

func msgFieldToken(fd protoreflect.FieldDescriptor, idx map[protoreflect.FullName]int) string {
	kind := fd.Kind()
	card := 0
	kk, kutf8 := 0, 0
	vdef := int64(0)
	vfd := fd
	switch {
	case fd.IsMap():
		card = 5
		vfd = fd.MapValue()
		kind = vfd.Kind()
		kk = int(fd.MapKey().Kind())
		if strs.EnforceUTF8(fd.MapKey()) {
			kutf8 = 1
		}
		if kind == protoreflect.EnumKind {
			vdef = int64(vfd.Default().Enum())
		}
	case fd.IsList():
		card = 3
		if fd.IsPacked() {
			card = 4
		}
	case fd.Cardinality() == protoreflect.Required:
		card = 2
	case fd.HasPresence():
		card = 0
	default:
		card = 1
	}
	oneof := -1
	if od := fd.ContainingOneof(); od != nil && !od.IsSynthetic() {
		oneof = od.Index()
	}
	flags := 0
	if strs.EnforceUTF8(vfd) {
		flags |= 1
	}
	if fd.IsExtension() {
		flags |= 2
	}
	if msgIsLazyField(fd) {
		flags |= 4
	}
	tid := 0
	if sub := vfd.Message(); sub != nil {
		tid = idx[sub.FullName()]
	}
	return fmt.Sprintf("%s:%d:%d:%d:%d:%d:%d:%d:%s", HexN(uint64(fd.Number())), int(kind), card, oneof, flags, tid, kk, kutf8, HexZ(vdef))
}

// msgDumpSchema returns the schema-table tokens for root descriptor md (type index 0 = md).
func msgDumpSchema(md protoreflect.MessageDescriptor) []string {
	idx := map[protoreflect.FullName]int{}
	var list []protoreflect.MessageDescriptor
	msgCollect(md, idx, &list)
	toks := []string{strconv.Itoa(len(list))}
	for _, d := range list {
		fds := d.Fields()
		xs := msgExtensionsOf(d)
		toks = append(toks, "M"+strconv.Itoa(fds.Len()+len(xs)))
		for i := 0; i < fds.Len(); i++ {
			toks = append(toks, msgFieldToken(fds.Get(i), idx))
		}
		for _, xd := range xs {
			toks = append(toks, msgFieldToken(xd, idx))
		}
	}
	return toks
}

var msgSchemaIDs = map[protoreflect.MessageDescriptor]string{}

// msgSchemaOf returns the id under which md's schema table is known to the model driver in this
// run, emitting the `schema` case line the first time.  fam is the family whose handler stores it.
func msgSchemaOf(c *Ctx, md protoreflect.MessageDescriptor) string {
	if id, ok := msgSchemaIDs[md]; ok {
		return id
	}
	id := strconv.Itoa(len(msgSchemaIDs))
	msgSchemaIDs[md] = id
	c.Case("msg", "schema", append([]string{id, string(md.FullName())}, msgDumpSchema(md)...), []string{"ok"})
	return id
}

// ---------------------------------------------------------------- value dump

func msgScalarToken(fd protoreflect.FieldDescriptor, v protoreflect.Value) string {
	switch fd.Kind() {
	case protoreflect.BoolKind:
		if v.Bool() {
			return "b1"
		}
		return "b0"
	case protoreflect.EnumKind:
		return "z" + HexZ(int64(v.Enum()))
	case protoreflect.Int32Kind, protoreflect.Sint32Kind, protoreflect.Sfixed32Kind,
		protoreflect.Int64Kind, protoreflect.Sint64Kind, protoreflect.Sfixed64Kind:
		return "z" + HexZ(v.Int())
	case protoreflect.Uint32Kind, protoreflect.Fixed32Kind, protoreflect.Uint64Kind, protoreflect.Fixed64Kind:
		return "n" + HexN(v.Uint())
	case protoreflect.FloatKind:
		return "n" + HexN(uint64(math.Float32bits(float32(v.Float()))))
	case protoreflect.DoubleKind:
		return "n" + HexN(math.Float64bits(v.Float()))
	case protoreflect.StringKind:
		return HexB([]byte(v.String()))
	case protoreflect.BytesKind:
		return HexB(v.Bytes())
	}
	panic("msgScalarToken: kind " + fd.Kind().String())
}

func msgKeyLess(a, b protoreflect.MapKey) bool {
	switch a.Interface().(type) {
	case bool:
		return !a.Bool() && b.Bool()
	case int32, int64:
		return a.Int() < b.Int()
	case uint32, uint64:
		return a.Uint() < b.Uint()
	default:
		return a.String() < b.String()
	}
}

func msgAppendValue(toks []string, fd protoreflect.FieldDescriptor, v protoreflect.Value) []string {
	if fd.Message() != nil {
		return msgAppendDump(toks, v.Message())
	}
	return append(toks, msgScalarToken(fd, v))
}

func msgAppendDump(toks []string, m protoreflect.Message) []string {
	type ent struct {
		fd protoreflect.FieldDescriptor
		v  protoreflect.Value
	}
	var es []ent
	m.Range(func(fd protoreflect.FieldDescriptor, v protoreflect.Value) bool {
		es = append(es, ent{fd, v})
		return true
	})
	sort.Slice(es, func(i, j int) bool { return es[i].fd.Number() < es[j].fd.Number() })
	toks = append(toks, "M", strconv.Itoa(len(es)))
	for _, e := range es {
		fd := e.fd
		toks = append(toks, HexN(uint64(fd.Number())))
		switch {
		case fd.IsMap():
			mp := e.v.Map()
			var keys []protoreflect.MapKey
			mp.Range(func(k protoreflect.MapKey, _ protoreflect.Value) bool { keys = append(keys, k); return true })
			sort.Slice(keys, func(i, j int) bool { return msgKeyLess(keys[i], keys[j]) })
			toks = append(toks, strconv.Itoa(len(keys)))
			for _, k := range keys {
				toks = append(toks, "E", msgScalarToken(fd.MapKey(), k.Value()))
				toks = msgAppendValue(toks, fd.MapValue(), mp.Get(k))
			}
		case fd.IsList():
			l := e.v.List()
			toks = append(toks, strconv.Itoa(l.Len()))
			for i := 0; i < l.Len(); i++ {
				toks = msgAppendValue(toks, fd, l.Get(i))
			}
		default:
			toks = append(toks, "1")
			toks = msgAppendValue(toks, fd, e.v)
		}
	}
	return append(toks, HexB(m.GetUnknown()))
}

// msgDump returns the canonical value tokens of m.
func msgDump(m protoreflect.Message) []string { return msgAppendDump(nil, m) }

// ---------------------------------------------------------------- random values

var msgBoundary = []uint64{0, 1, 2, 127, 128, 255, 256, 16383, 16384, 1<<31 - 1, 1 << 31, 1<<32 - 1, 1 << 32,
	1<<63 - 1, 1 << 63, math.MaxUint64, math.MaxUint64 - 1, 0xffffffff80000000, 0x7ff0000000000000, 0xfff0000000000000,
	0x7ff8000000000001, 0xfff8000000000000, 0x7ff0000000000001, 0x8000000000000000, 0x7f800000, 0xff800000, 0x7fc00001, 0x7f800001, 0x80000000}

func msgU64(c *Ctx) uint64 {
	switch c.Intn(3) {
	case 0:
		return msgBoundary[c.Intn(len(msgBoundary))]
	case 1:
		return c.U64() >> uint(c.Intn(64))
	default:
		return gbitsMsg(c)
	}
}

// gbitsMsg: 2^k-1, 2^k, 2^k+1 and random values of every bit length.
func gbitsMsg(c *Ctx) uint64 {
	k := uint(c.Intn(65))
	var base uint64
	if k < 64 {
		base = uint64(1) << k
	}
	switch c.Intn(4) {
	case 0:
		return base - 1
	case 1:
		return base
	case 2:
		return base + 1
	default:
		if k == 0 {
			return 0
		}
		v := c.U64()
		if k < 64 {
			v = v&(base-1) | base>>1
		}
		return v
	}
}

var msgStrings = []string{"", "a", "héllo", "\x00\x7f", "日本語", string(rune(0x10ffff)), "\u0080", "߿ࠀ￿", "\U00010000",
	strings.Repeat("x", 127), strings.Repeat("y", 128), strings.Repeat("é", 100)}
var msgBadStrings = []string{"\xff", "a\x80", "\xc0\xaf", "\xed\xa0\x80", "\xf4\x90\x80\x80", "\xe2\x82", "ok\xf8"}

// msgScalar returns a boundary-heavy random value for a scalar field (never for message kinds).
// allowBadUTF8: may return a string that is not valid UTF-8.
func msgScalar(c *Ctx, fd protoreflect.FieldDescriptor, allowBadUTF8 bool) protoreflect.Value {
	u := msgU64(c)
	switch fd.Kind() {
	case protoreflect.BoolKind:
		return protoreflect.ValueOfBool(u&1 == 1)
	case protoreflect.EnumKind:
		vs := fd.Enum().Values()
		if c.Intn(3) == 0 {
			return protoreflect.ValueOfEnum(protoreflect.EnumNumber(int32(u)))
		}
		return protoreflect.ValueOfEnum(vs.Get(c.Intn(vs.Len())).Number())
	case protoreflect.Int32Kind, protoreflect.Sint32Kind, protoreflect.Sfixed32Kind:
		return protoreflect.ValueOfInt32(int32(u))
	case protoreflect.Uint32Kind, protoreflect.Fixed32Kind:
		return protoreflect.ValueOfUint32(uint32(u))
	case protoreflect.Int64Kind, protoreflect.Sint64Kind, protoreflect.Sfixed64Kind:
		return protoreflect.ValueOfInt64(int64(u))
	case protoreflect.Uint64Kind, protoreflect.Fixed64Kind:
		return protoreflect.ValueOfUint64(u)
	case protoreflect.FloatKind:
		return protoreflect.ValueOfFloat32(math.Float32frombits(uint32(u)))
	case protoreflect.DoubleKind:
		return protoreflect.ValueOfFloat64(math.Float64frombits(u))
	case protoreflect.StringKind:
		if allowBadUTF8 && c.Intn(30) == 0 {
			return protoreflect.ValueOfString(msgBadStrings[c.Intn(len(msgBadStrings))])
		}
		if c.Intn(4) == 0 {
			return protoreflect.ValueOfString(msgStrings[c.Intn(len(msgStrings))] + strconv.Itoa(c.Intn(1000)))
		}
		return protoreflect.ValueOfString(msgStrings[c.Intn(len(msgStrings))])
	case protoreflect.BytesKind:
		switch c.Intn(5) {
		case 0:
			return protoreflect.ValueOfBytes([]byte{})
		case 1:
			return protoreflect.ValueOfBytes(c.Bytes(128 + c.Intn(3)))
		default:
			return protoreflect.ValueOfBytes(c.Bytes(c.Intn(9)))
		}
	}
	panic("msgScalar: kind " + fd.Kind().String())
}

func msgCount(c *Ctx) int {
	switch c.Intn(12) {
	case 0:
		return 0
	case 1:
		return 20 + c.Intn(120)
	default:
		return 1 + c.Intn(3)
	}
}

type msgFillOpts struct {
	budget  *int // remaining number of values this fill may still create
	badUTF8 bool // allow strings that are not valid UTF-8
	unknown bool // add unknown fields
	dense   bool // populate (almost) every field
}

func msgFillField(c *Ctx, m protoreflect.Message, fd protoreflect.FieldDescriptor, depth int, o msgFillOpts) {
	if *o.budget <= 0 {
		return
	}
	*o.budget--
	switch {
	case fd.IsMap():
		mp := m.Mutable(fd).Map()
		n := msgCount(c)
		if n > 30 {
			n = 30
		}
		*o.budget -= n
		for j := 0; j < n; j++ {
			k := msgScalar(c, fd.MapKey(), o.badUTF8).MapKey()
			if fd.MapValue().Message() != nil {
				v := mp.NewValue()
				if depth > 0 {
					msgRandomFillOpts(c, v.Message(), depth-1, o)
				}
				mp.Set(k, v)
			} else {
				mp.Set(k, msgScalar(c, fd.MapValue(), o.badUTF8))
			}
		}
	case fd.IsList():
		var l protoreflect.List
		if fd.IsExtension() {
			l = m.NewField(fd).List()
		} else {
			l = m.Mutable(fd).List()
		}
		n := msgCount(c)
		if fd.Message() != nil && n > 4 {
			n = 4
		}
		*o.budget -= n
		for j := 0; j < n; j++ {
			if fd.Message() != nil {
				v := l.NewElement()
				if depth > 0 {
					msgRandomFillOpts(c, v.Message(), depth-1, o)
				}
				l.Append(v)
			} else {
				l.Append(msgScalar(c, fd, o.badUTF8))
			}
		}
		if fd.IsExtension() && l.Len() > 0 {
			m.Set(fd, protoreflect.ValueOfList(l))
		}
	case fd.Message() != nil:
		if fd.IsExtension() {
			v := m.NewField(fd)
			if depth > 0 {
				msgRandomFillOpts(c, v.Message(), depth-1, o)
			}
			m.Set(fd, v)
		} else if depth > 0 {
			msgRandomFillOpts(c, m.Mutable(fd).Message(), depth-1, o)
		} else {
			m.Mutable(fd)
		}
	default:
		m.Set(fd, msgScalar(c, fd, o.badUTF8))
	}
}

// msgRandomFill populates m (any implementation of protoreflect.Message) with random content:
// boundary scalars, NaN payloads, +-0, empty/non-empty/large collections, empty-but-present
// sub-messages, registered extensions, and unknown fields.
func msgRandomFill(c *Ctx, m protoreflect.Message, depth int) {
	budget := 150 + c.Intn(400)
	msgRandomFillOpts(c, m, depth, msgFillOpts{budget: &budget, badUTF8: true, unknown: true, dense: c.Intn(6) == 0})
}

func msgRandomFillOpts(c *Ctx, m protoreflect.Message, depth int, o msgFillOpts) {
	md := m.Descriptor()
	fds := md.Fields()
	p := 3 // populate with probability 1/p ... per message
	switch c.Intn(4) {
	case 0:
		p = 2
	case 1:
		p = 6
	}
	if fds.Len() > 40 {
		p *= 3
	}
	for i := 0; i < fds.Len(); i++ {
		if !o.dense && c.Intn(p) != 0 {
			continue
		}
		msgFillField(c, m, fds.Get(i), depth, o)
	}
	_, isDyn := m.(*dynamicpb.Message)
	for _, xd := range msgExtensionsOf(md) {
		if c.Intn(p+1) != 0 {
			continue
		}
		var xfd protoreflect.FieldDescriptor = xd
		if isDyn {
			// keep dynamicpb messages purely dynamic: a generated extension type would make
			// message-typed extension values generated messages (decoded by the table-driven path)
			xt, err := msgDynTypes().FindExtensionByNumber(md.FullName(), xd.Number())
			if err != nil {
				continue
			}
			xfd = xt.TypeDescriptor()
		}
		msgFillField(c, m, xfd, depth, o)
	}
	if o.unknown && c.Intn(4) == 0 {
		m.SetUnknown(msgGenUnknown(c, md))
	}
}

// ---------------------------------------------------------------- wire-level generators

func msgAppendVarintPadded(c *Ctx, b []byte, v uint64, pad bool) []byte {
	if !pad || c.Intn(3) != 0 {
		return protowire.AppendVarint(b, v)
	}
	n := protowire.SizeVarint(v)
	total := n + 1 + c.Intn(10-n+1)
	if total > 10 {
		total = 10
	}
	if total <= n {
		return protowire.AppendVarint(b, v)
	}
	for i := 0; i < total-1; i++ {
		b = append(b, byte(v&0x7f)|0x80)
		v >>= 7
	}
	return append(b, byte(v&0x7f))
}

// msgGenWireValue appends a well-formed value of wire type t (for field num) to b.
func msgGenWireValue(c *Ctx, b []byte, num protowire.Number, t protowire.Type, depth int) []byte {
	switch t {
	case protowire.VarintType:
		return msgAppendVarintPadded(c, b, msgU64(c), true)
	case protowire.Fixed32Type:
		return protowire.AppendFixed32(b, uint32(msgU64(c)))
	case protowire.Fixed64Type:
		return protowire.AppendFixed64(b, msgU64(c))
	case protowire.BytesType:
		n := c.Intn(6)
		if c.Intn(10) == 0 {
			n = 127 + c.Intn(3)
		}
		b = msgAppendVarintPadded(c, b, uint64(n), true)
		return append(b, c.Bytes(n)...)
	case protowire.StartGroupType:
		for k := c.Intn(3); k > 0; k-- {
			n2 := protowire.Number(1 + c.Intn(40))
			if c.Intn(4) == 0 {
				n2 = protowire.Number(1 + c.Intn(1<<29-1))
			}
			t2 := []protowire.Type{0, 1, 2, 5, 3}[c.Intn(5)]
			if depth <= 0 && t2 == protowire.StartGroupType {
				t2 = protowire.VarintType
			}
			b = msgAppendVarintPadded(c, b, protowire.EncodeTag(n2, t2), true)
			b = msgGenWireValue(c, b, n2, t2, depth-1)
		}
		return msgAppendVarintPadded(c, b, protowire.EncodeTag(num, protowire.EndGroupType), true)
	}
	panic("msgGenWireValue")
}

// msgFieldAccepts reports whether a known field of md decodes an occurrence with wire type t
// (otherwise the occurrence is retained as unknown).
func msgFieldAccepts(fd protoreflect.FieldDescriptor, t protowire.Type) bool {
	if fd.IsMap() {
		return t == protowire.BytesType
	}
	var own protowire.Type
	switch fd.Kind() {
	case protoreflect.Fixed32Kind, protoreflect.Sfixed32Kind, protoreflect.FloatKind:
		own = protowire.Fixed32Type
	case protoreflect.Fixed64Kind, protoreflect.Sfixed64Kind, protoreflect.DoubleKind:
		own = protowire.Fixed64Type
	case protoreflect.StringKind, protoreflect.BytesKind, protoreflect.MessageKind:
		own = protowire.BytesType
	case protoreflect.GroupKind:
		own = protowire.StartGroupType
	default:
		own = protowire.VarintType
	}
	if t == own {
		return true
	}
	return fd.IsList() && t == protowire.BytesType && own != protowire.StartGroupType
}

func msgFindField(md protoreflect.MessageDescriptor, num protowire.Number) protoreflect.FieldDescriptor {
	if fd := md.Fields().ByNumber(num); fd != nil {
		return fd
	}
	if md.ExtensionRanges().Has(num) {
		if xt, err := protoregistry.GlobalTypes.FindExtensionByNumber(md.FullName(), num); err == nil {
			return xt.TypeDescriptor()
		}
	}
	return nil
}

// msgGenUnknown returns 1-3 well-formed fields that md does not decode: unknown numbers, or known
// numbers with a wire type the field rejects.  Tags are minimal (the fast path re-encodes them);
// values may be non-minimal.
func msgGenUnknown(c *Ctx, md protoreflect.MessageDescriptor) []byte {
	var b []byte
	types := []protowire.Type{0, 1, 2, 5, 3}
	for k := 1 + c.Intn(3); k > 0; k-- {
		var num protowire.Number
		t := types[c.Intn(len(types))]
		ok := false
		for try := 0; try < 20 && !ok; try++ {
			switch c.Intn(4) {
			case 0:
				num = protowire.Number(1 + c.Intn(64))
			case 1:
				num = protowire.Number(1 + c.Intn(1<<29-1))
			case 2:
				num = []protowire.Number{1<<29 - 1, 19000, 536870000, 15, 16, 2047, 2048}[c.Intn(7)]
			default:
				if n := md.Fields().Len(); n > 0 {
					num = md.Fields().Get(c.Intn(n)).Number()
				} else {
					num = 1
				}
			}
			fd := msgFindField(md, num)
			ok = fd == nil || !msgFieldAccepts(fd, t)
		}
		if !ok {
			continue
		}
		b = protowire.AppendTag(b, num, t)
		b = msgGenWireValue(c, b, num, t, 2)
	}
	return b
}

type msgChunk struct {
	num protowire.Number
	typ protowire.Type
	val []byte // value bytes without the tag
}

func msgSplitFields(b []byte) ([]msgChunk, bool) {
	var out []msgChunk
	for len(b) > 0 {
		num, typ, n := protowire.ConsumeTag(b)
		if n < 0 || num > protowire.MaxValidNumber {
			return nil, false
		}
		b = b[n:]
		m := protowire.ConsumeFieldValue(num, typ, b)
		if m < 0 {
			return nil, false
		}
		out = append(out, msgChunk{num, typ, b[:m]})
		b = b[m:]
	}
	return out, true
}

// msgSplitPrefix splits the longest well-formed prefix of b into fields.
func msgSplitPrefix(b []byte) []msgChunk {
	var out []msgChunk
	for len(b) > 0 {
		num, typ, n := protowire.ConsumeTag(b)
		if n < 0 || num > protowire.MaxValidNumber {
			break
		}
		b = b[n:]
		m := protowire.ConsumeFieldValue(num, typ, b)
		if m < 0 {
			break
		}
		out = append(out, msgChunk{num, typ, b[:m]})
		b = b[m:]
	}
	return out
}

func msgPackedElemType(fd protoreflect.FieldDescriptor) (protowire.Type, bool) {
	if !fd.IsList() {
		return 0, false
	}
	switch fd.Kind() {
	case protoreflect.Fixed32Kind, protoreflect.Sfixed32Kind, protoreflect.FloatKind:
		return protowire.Fixed32Type, true
	case protoreflect.Fixed64Kind, protoreflect.Sfixed64Kind, protoreflect.DoubleKind:
		return protowire.Fixed64Type, true
	case protoreflect.StringKind, protoreflect.BytesKind, protoreflect.MessageKind, protoreflect.GroupKind:
		return 0, false
	}
	return protowire.VarintType, true
}

// msgRewrite returns another encoding that decodes to the same message as b (a valid encoding of
// md): non-minimal tags/lengths/varints, packed<->unpacked, sub-messages split in two occurrences,
// and (only between different field numbers, keeping the relative order of equal numbers) reordered.
func msgRewrite(c *Ctx, md protoreflect.MessageDescriptor, b []byte, depth int) []byte {
	return msgRewriteOpts(c, md, b, depth, false)
}

// msgAppendScalarField appends one occurrence (tag + value) of scalar field fd holding v.
func msgAppendScalarField(b []byte, num protowire.Number, fd protoreflect.FieldDescriptor, v protoreflect.Value) []byte {
	switch fd.Kind() {
	case protoreflect.BoolKind:
		b = protowire.AppendTag(b, num, protowire.VarintType)
		return protowire.AppendVarint(b, protowire.EncodeBool(v.Bool()))
	case protoreflect.EnumKind:
		b = protowire.AppendTag(b, num, protowire.VarintType)
		return protowire.AppendVarint(b, uint64(v.Enum()))
	case protoreflect.Int32Kind, protoreflect.Int64Kind:
		b = protowire.AppendTag(b, num, protowire.VarintType)
		return protowire.AppendVarint(b, uint64(v.Int()))
	case protoreflect.Sint32Kind, protoreflect.Sint64Kind:
		b = protowire.AppendTag(b, num, protowire.VarintType)
		return protowire.AppendVarint(b, protowire.EncodeZigZag(v.Int()))
	case protoreflect.Uint32Kind, protoreflect.Uint64Kind:
		b = protowire.AppendTag(b, num, protowire.VarintType)
		return protowire.AppendVarint(b, v.Uint())
	case protoreflect.Sfixed32Kind:
		b = protowire.AppendTag(b, num, protowire.Fixed32Type)
		return protowire.AppendFixed32(b, uint32(v.Int()))
	case protoreflect.Fixed32Kind:
		b = protowire.AppendTag(b, num, protowire.Fixed32Type)
		return protowire.AppendFixed32(b, uint32(v.Uint()))
	case protoreflect.FloatKind:
		b = protowire.AppendTag(b, num, protowire.Fixed32Type)
		return protowire.AppendFixed32(b, math.Float32bits(float32(v.Float())))
	case protoreflect.Sfixed64Kind:
		b = protowire.AppendTag(b, num, protowire.Fixed64Type)
		return protowire.AppendFixed64(b, uint64(v.Int()))
	case protoreflect.Fixed64Kind:
		b = protowire.AppendTag(b, num, protowire.Fixed64Type)
		return protowire.AppendFixed64(b, v.Uint())
	case protoreflect.DoubleKind:
		b = protowire.AppendTag(b, num, protowire.Fixed64Type)
		return protowire.AppendFixed64(b, math.Float64bits(v.Float()))
	case protoreflect.StringKind:
		b = protowire.AppendTag(b, num, protowire.BytesType)
		return protowire.AppendString(b, v.String())
	case protoreflect.BytesKind:
		b = protowire.AppendTag(b, num, protowire.BytesType)
		return protowire.AppendBytes(b, v.Bytes())
	}
	return b
}

// msgExtraOccurrence returns a further occurrence of the known field of piece (num, bytes): a
// fresh scalar value (last one wins / appended), or, for a map entry, the same key with another
// value (upsert).  nil when the field is not of such a shape.
func msgExtraOccurrence(c *Ctx, md protoreflect.MessageDescriptor, num protowire.Number, piece []byte) []byte {
	if md == nil {
		return nil
	}
	fd := msgFindField(md, num)
	if fd == nil {
		return nil
	}
	switch {
	case fd.IsMap():
		_, typ, n := protowire.ConsumeTag(piece)
		if n < 0 || typ != protowire.BytesType {
			return nil
		}
		payload, m := protowire.ConsumeBytes(piece[n:])
		if m < 0 {
			return nil
		}
		chunks, ok := msgSplitFields(payload)
		if !ok {
			return nil
		}
		var entry []byte
		for _, ch := range chunks {
			if ch.num == 1 {
				entry = protowire.AppendTag(entry, 1, ch.typ)
				entry = append(entry, ch.val...)
			}
		}
		if vf := fd.MapValue(); vf.Message() == nil {
			entry = msgAppendScalarField(entry, 2, vf, msgScalar(c, vf, false))
		} else if c.Bool() {
			entry = append(protowire.AppendTag(entry, 2, protowire.BytesType), 0)
		}
		out := protowire.AppendTag(nil, num, protowire.BytesType)
		return protowire.AppendBytes(out, entry)
	case fd.Message() != nil:
		return nil
	default:
		return msgAppendScalarField(nil, num, fd, msgScalar(c, fd, false))
	}
}

// msgRewriteOpts: with perturb, values are also changed (the result decodes to a different
// message, which is fine for model-compared decoding): arbitrary varints for varint fields,
// extra occurrences of scalar fields and of map keys.
func msgRewriteOpts(c *Ctx, md protoreflect.MessageDescriptor, b []byte, depth int, perturb bool) []byte {
	chunks, ok := msgSplitFields(b)
	if !ok {
		return b
	}
	type piece struct {
		num protowire.Number
		b   []byte
	}
	var pieces []piece
	for _, ch := range chunks {
		var fd protoreflect.FieldDescriptor
		if md != nil {
			fd = msgFindField(md, ch.num)
		}
		known := fd != nil && msgFieldAccepts(fd, ch.typ)
		tag := func(t protowire.Type) []byte {
			return msgAppendVarintPadded(c, nil, protowire.EncodeTag(ch.num, t), known)
		}
		var out []byte
		switch {
		case !known:
			// retained raw: keep the bytes (the fast path normalises the tag, so keep it minimal)
			out = append(protowire.AppendTag(nil, ch.num, ch.typ), ch.val...)
		case ch.typ == protowire.VarintType:
			v, _ := protowire.ConsumeVarint(ch.val)
			if perturb && c.Intn(3) == 0 {
				v = msgU64(c) // any uint64: the decoder truncates / zig-zags / tests for non-zero
			}
			if et, okp := msgPackedElemType(fd); okp && et == protowire.VarintType && c.Intn(3) == 0 {
				body := msgAppendVarintPadded(c, nil, v, true)
				out = append(tag(protowire.BytesType), msgAppendVarintPadded(c, nil, uint64(len(body)), true)...)
				out = append(out, body...)
			} else {
				out = msgAppendVarintPadded(c, tag(ch.typ), v, true)
			}
		case ch.typ == protowire.Fixed32Type || ch.typ == protowire.Fixed64Type:
			if _, okp := msgPackedElemType(fd); okp && c.Intn(3) == 0 {
				out = append(tag(protowire.BytesType), msgAppendVarintPadded(c, nil, uint64(len(ch.val)), true)...)
				out = append(out, ch.val...)
			} else {
				out = append(tag(ch.typ), ch.val...)
			}
		case ch.typ == protowire.BytesType:
			payload, _ := protowire.ConsumeBytes(ch.val)
			et, packable := msgPackedElemType(fd)
			switch {
			case fd.IsMap():
				// rewrite the entry: optionally reorder key/value, rewrite a message value
				var sub protoreflect.MessageDescriptor = fd.Message()
				p2 := msgRewriteOpts(c, sub, payload, depth-1, perturb)
				out = append(tag(ch.typ), msgAppendVarintPadded(c, nil, uint64(len(p2)), true)...)
				out = append(out, p2...)
			case packable:
				// packed occurrence: maybe expand into single elements
				if c.Intn(2) == 0 {
					for len(payload) > 0 {
						n := protowire.ConsumeFieldValue(ch.num, et, payload)
						if n < 0 {
							break
						}
						out = append(out, tag(et)...)
						if et == protowire.VarintType {
							v, _ := protowire.ConsumeVarint(payload)
							out = msgAppendVarintPadded(c, out, v, true)
						} else {
							out = append(out, payload[:n]...)
						}
						payload = payload[n:]
					}
					if len(out) == 0 {
						out = append(tag(ch.typ), 0)
					}
				} else {
					out = append(tag(ch.typ), msgAppendVarintPadded(c, nil, uint64(len(payload)), true)...)
					out = append(out, payload...)
				}
			case fd.Message() != nil && depth > 0:
				sub := msgRewriteOpts(c, fd.Message(), payload, depth-1, perturb)
				if parts, ok2 := msgSplitFields(sub); ok2 && len(parts) >= 2 && !fd.IsList() && c.Intn(3) == 0 {
					// split a singular sub-message into two occurrences (merged by the decoder)
					cut := 1 + c.Intn(len(parts)-1)
					var a, bb []byte
					for i, p := range parts {
						enc := append(protowire.AppendVarint(nil, protowire.EncodeTag(p.num, p.typ)), p.val...)
						if i < cut {
							a = append(a, enc...)
						} else {
							bb = append(bb, enc...)
						}
					}
					// parts lost non-minimal tags; fine
					out = append(tag(ch.typ), protowire.AppendVarint(nil, uint64(len(a)))...)
					out = append(out, a...)
					out = append(out, tag(ch.typ)...)
					out = append(out, protowire.AppendVarint(nil, uint64(len(bb)))...)
					out = append(out, bb...)
				} else {
					out = append(tag(ch.typ), msgAppendVarintPadded(c, nil, uint64(len(sub)), true)...)
					out = append(out, sub...)
				}
			default:
				out = append(tag(ch.typ), msgAppendVarintPadded(c, nil, uint64(len(payload)), true)...)
				out = append(out, payload...)
			}
		case ch.typ == protowire.StartGroupType:
			content, n := protowire.ConsumeGroup(ch.num, ch.val)
			if n < 0 {
				out = append(tag(ch.typ), ch.val...)
				break
			}
			if depth > 0 {
				content = msgRewriteOpts(c, fd.Message(), content, depth-1, perturb)
			}
			out = append(tag(ch.typ), content...)
			out = msgAppendVarintPadded(c, out, protowire.EncodeTag(ch.num, protowire.EndGroupType), true)
		default:
			out = append(tag(ch.typ), ch.val...)
		}
		pieces = append(pieces, piece{ch.num, out})
	}
	if perturb && len(pieces) > 0 {
		for k := c.Intn(3); k > 0; k-- {
			src := pieces[c.Intn(len(pieces))]
			if extra := msgExtraOccurrence(c, md, src.num, src.b); extra != nil {
				pieces = append(pieces, piece{src.num, extra})
			}
		}
	}
	// reorder: adjacent swaps between different field numbers that are not members of the same
	// oneof and not (known, unknown) pairs of ... any pair with different numbers commutes, except
	// members of one oneof.
	if len(pieces) > 1 && c.Intn(2) == 0 {
		oneofOf := func(n protowire.Number) protoreflect.OneofDescriptor {
			if md == nil {
				return nil
			}
			if fd := md.Fields().ByNumber(n); fd != nil {
				return fd.ContainingOneof()
			}
			return nil
		}
		unknownPiece := func(n protowire.Number, b []byte) bool {
			if md == nil {
				return true
			}
			_, typ, _ := protowire.ConsumeTag(b)
			fd := msgFindField(md, n)
			return fd == nil || !msgFieldAccepts(fd, typ)
		}
		for k := 0; k < 3*len(pieces); k++ {
			i := c.Intn(len(pieces) - 1)
			a, b2 := pieces[i], pieces[i+1]
			if a.num == b2.num {
				continue
			}
			if oa, ob := oneofOf(a.num), oneofOf(b2.num); oa != nil && oa == ob {
				continue
			}
			if unknownPiece(a.num, a.b) && unknownPiece(b2.num, b2.b) {
				continue // unknown fields keep their input order
			}
			pieces[i], pieces[i+1] = b2, a
		}
	}
	var out []byte
	for _, p := range pieces {
		out = append(out, p.b...)
	}
	return out
}

// msgMutate damages an encoding.
func msgMutate(c *Ctx, b []byte) []byte {
	b = append([]byte(nil), b...)
	switch c.Intn(8) {
	case 0: // truncate
		if len(b) > 0 {
			b = b[:c.Intn(len(b))]
		}
	case 1: // flip a bit
		if len(b) > 0 {
			b[c.Intn(len(b))] ^= 1 << uint(c.Intn(8))
		}
	case 2: // overwrite a byte
		if len(b) > 0 {
			b[c.Intn(len(b))] = byte(c.U64())
		}
	case 3: // insert a byte
		i := c.Intn(len(b) + 1)
		b = append(b[:i], append([]byte{byte(c.U64())}, b[i:]...)...)
	case 4: // delete a byte
		if len(b) > 0 {
			i := c.Intn(len(b))
			b = append(b[:i], b[i+1:]...)
		}
	case 5: // flip the wire type of the first tag of some top-level field
		if chunks, ok := msgSplitFields(b); ok && len(chunks) > 0 {
			k := c.Intn(len(chunks))
			var out []byte
			for i, ch := range chunks {
				t := ch.typ
				if i == k {
					t = protowire.Type(c.Intn(8))
				}
				out = protowire.AppendVarint(out, protowire.EncodeTag(ch.num, t))
				out = append(out, ch.val...)
			}
			b = out
		}
	case 6: // append garbage
		b = append(b, c.Bytes(1+c.Intn(4))...)
	default: // splice two halves
		if len(b) > 2 {
			i, j := c.Intn(len(b)), c.Intn(len(b))
			b = append(append([]byte(nil), b[:i]...), b[j:]...)
		}
	}
	return b
}

// msgErrClass projects an Unmarshal/Marshal error to its class.
func msgErrClass(err error) string {
	s := err.Error()
	switch {
	case strings.Contains(s, "recursion depth"):
		return "e2"
	case strings.Contains(s, "invalid UTF-8"):
		return "e3"
	case strings.Contains(s, "cannot parse invalid wire-format data"), strings.Contains(s, "invalid proto wire format"),
		strings.Contains(s, "mismatching end group marker"), strings.Contains(s, "invalid field number"),
		strings.Contains(s, "unexpected EOF"), strings.Contains(s, "variable length integer overflow"),
		strings.Contains(s, "cannot parse reserved wire type"):
		return "e1"
	}
	msgLastOtherErr = s
	return "e9"
}

var msgLastOtherErr string

// msgF1Class recognises the input class of known finding F1: in some message (at any depth
// reachable through known message fields) a field declared [lazy = true] occurs both with
// wire type LEN and with another wire type.
func msgF1Class(md protoreflect.MessageDescriptor, b []byte) bool {
	chunks, ok := msgSplitFields(b)
	if !ok {
		return false
	}
	seenLen := map[protowire.Number]bool{}
	seenOther := map[protowire.Number]bool{}
	for _, ch := range chunks {
		fd := msgFindField(md, ch.num)
		if fd == nil {
			continue
		}
		if msgIsLazyField(fd) {
			if ch.typ == protowire.BytesType {
				seenLen[ch.num] = true
			} else {
				seenOther[ch.num] = true
			}
		}
		sub := fd.Message()
		if fd.IsMap() {
			continue
		}
		if sub != nil && ch.typ == protowire.BytesType {
			if p, n := protowire.ConsumeBytes(ch.val); n >= 0 && msgF1Class(sub, p) {
				return true
			}
		}
		if sub != nil && ch.typ == protowire.StartGroupType {
			if p, n := protowire.ConsumeGroup(ch.num, ch.val); n >= 0 && msgF1Class(sub, p) {
				return true
			}
		}
	}
	for n := range seenLen {
		if seenOther[n] {
			return true
		}
	}
	return false
}

// ---------------------------------------------------------------- random schemas

var msgRndCounter int

type msgRndGen struct {
	c      *Ctx
	syntax int // 2, 3, or 0 = editions
	pkg    string
	nmsg   int
}

var msgScalarTypes = []descriptorpb.FieldDescriptorProto_Type{
	descriptorpb.FieldDescriptorProto_TYPE_DOUBLE, descriptorpb.FieldDescriptorProto_TYPE_FLOAT,
	descriptorpb.FieldDescriptorProto_TYPE_INT64, descriptorpb.FieldDescriptorProto_TYPE_UINT64,
	descriptorpb.FieldDescriptorProto_TYPE_INT32, descriptorpb.FieldDescriptorProto_TYPE_FIXED64,
	descriptorpb.FieldDescriptorProto_TYPE_FIXED32, descriptorpb.FieldDescriptorProto_TYPE_BOOL,
	descriptorpb.FieldDescriptorProto_TYPE_STRING, descriptorpb.FieldDescriptorProto_TYPE_BYTES,
	descriptorpb.FieldDescriptorProto_TYPE_UINT32, descriptorpb.FieldDescriptorProto_TYPE_ENUM,
	descriptorpb.FieldDescriptorProto_TYPE_SFIXED32, descriptorpb.FieldDescriptorProto_TYPE_SFIXED64,
	descriptorpb.FieldDescriptorProto_TYPE_SINT32, descriptorpb.FieldDescriptorProto_TYPE_SINT64,
}
var msgKeyTypes = []descriptorpb.FieldDescriptorProto_Type{
	descriptorpb.FieldDescriptorProto_TYPE_INT64, descriptorpb.FieldDescriptorProto_TYPE_UINT64,
	descriptorpb.FieldDescriptorProto_TYPE_INT32, descriptorpb.FieldDescriptorProto_TYPE_FIXED64,
	descriptorpb.FieldDescriptorProto_TYPE_FIXED32, descriptorpb.FieldDescriptorProto_TYPE_BOOL,
	descriptorpb.FieldDescriptorProto_TYPE_STRING, descriptorpb.FieldDescriptorProto_TYPE_UINT32,
	descriptorpb.FieldDescriptorProto_TYPE_SFIXED32, descriptorpb.FieldDescriptorProto_TYPE_SFIXED64,
	descriptorpb.FieldDescriptorProto_TYPE_SINT32, descriptorpb.FieldDescriptorProto_TYPE_SINT64,
}

func (g *msgRndGen) fieldNumber(used map[int32]bool) int32 {
	for {
		var n int32
		switch g.c.Intn(6) {
		case 0:
			n = int32(1 + g.c.Intn(15))
		case 1:
			n = int32(16 + g.c.Intn(2032))
		case 2:
			n = []int32{2047, 2048, 18999, 20000, 262143, 262144, 1<<29 - 1, 33554431, 33554432}[g.c.Intn(9)]
		default:
			n = int32(1 + g.c.Intn(40))
		}
		if n >= 19000 && n <= 19999 {
			continue
		}
		if !used[n] {
			used[n] = true
			return n
		}
	}
}

// message builds message "M<k>" with nested definitions; depth limits nesting of definitions.
func (g *msgRndGen) message(name string, fqn string, depth int, siblings []string) *descriptorpb.DescriptorProto {
	c := g.c
	md := &descriptorpb.DescriptorProto{Name: proto.String(name)}
	// nested enum
	enumName := "E"
	ed := &descriptorpb.EnumDescriptorProto{Name: proto.String(enumName)}
	first := int32(0)
	if g.syntax == 2 && c.Intn(2) == 0 {
		first = int32(c.Intn(5)) - 2
	}
	ed.Value = append(ed.Value, &descriptorpb.EnumValueDescriptorProto{Name: proto.String(strings.ToUpper(name) + "_V0"), Number: proto.Int32(first)})
	usedE := map[int32]bool{first: true}
	for i := 1; i < 1+c.Intn(3); i++ {
		n := int32(c.Intn(2000)) - 1000
		if c.Intn(4) == 0 {
			n = []int32{math.MaxInt32, math.MinInt32, -1, 1}[c.Intn(4)]
		}
		if usedE[n] {
			continue
		}
		usedE[n] = true
		ed.Value = append(ed.Value, &descriptorpb.EnumValueDescriptorProto{Name: proto.String(fmt.Sprintf("%s_V%d", strings.ToUpper(name), i)), Number: proto.Int32(n)})
	}
	if g.syntax == 0 && first != 0 {
		// editions: open enums need a zero first value; make it closed instead
		ed.Options = &descriptorpb.EnumOptions{Features: &descriptorpb.FeatureSet{EnumType: descriptorpb.FeatureSet_CLOSED.Enum()}}
	}
	md.EnumType = append(md.EnumType, ed)
	enumFQN := fqn + "." + enumName

	// nested messages
	var nested []string
	if depth > 0 {
		for i := 0; i < c.Intn(3); i++ {
			g.nmsg++
			nn := fmt.Sprintf("N%d", g.nmsg)
			md.NestedType = append(md.NestedType, g.message(nn, fqn+"."+nn, depth-1, append(siblings, fqn)))
			nested = append(nested, fqn+"."+nn)
		}
	}
	msgTargets := append(append([]string{fqn}, nested...), siblings...)

	used := map[int32]bool{}
	nf := 1 + c.Intn(8)
	if c.Intn(8) == 0 {
		nf = 0
	}
	noneof := 0
	if c.Intn(2) == 0 {
		noneof = 1 + c.Intn(2)
	}
	for i := 0; i < noneof; i++ {
		md.OneofDecl = append(md.OneofDecl, &descriptorpb.OneofDescriptorProto{Name: proto.String(fmt.Sprintf("o%d", i))})
	}
	oneofUsed := make([]bool, noneof)
	for i := 0; i < nf; i++ {
		fname := fmt.Sprintf("f%d", i)
		fd := &descriptorpb.FieldDescriptorProto{Name: proto.String(fname), Number: proto.Int32(g.fieldNumber(used)),
			JsonName: proto.String(fname)}
		shape := c.Intn(10)
		isMsg := c.Intn(4) == 0
		typ := msgScalarTypes[c.Intn(len(msgScalarTypes))]
		setType := func(fd *descriptorpb.FieldDescriptorProto, allowGroup bool) {
			if isMsg {
				fd.TypeName = proto.String("." + msgTargets[c.Intn(len(msgTargets))])
				fd.Type = descriptorpb.FieldDescriptorProto_TYPE_MESSAGE.Enum()
				if allowGroup && c.Intn(3) == 0 {
					if g.syntax == 2 {
						// proto2 group: needs its own nested type named after the field (capitalised)
						g.nmsg++
						gn := fmt.Sprintf("G%d", g.nmsg)
						gd := g.message(gn, fqn+"."+gn, 0, append(siblings, fqn))
						md.NestedType = append(md.NestedType, gd)
						fd.Name = proto.String(strings.ToLower(gn))
						fd.JsonName = proto.String(strings.ToLower(gn))
						fd.TypeName = proto.String("." + fqn + "." + gn)
						fd.Type = descriptorpb.FieldDescriptorProto_TYPE_GROUP.Enum()
					} else if g.syntax == 0 {
						if fd.Options == nil {
							fd.Options = &descriptorpb.FieldOptions{}
						}
						if fd.Options.Features == nil {
							fd.Options.Features = &descriptorpb.FeatureSet{}
						}
						fd.Options.Features.MessageEncoding = descriptorpb.FeatureSet_DELIMITED.Enum()
					}
				}
				return
			}
			fd.Type = typ.Enum()
			if typ == descriptorpb.FieldDescriptorProto_TYPE_ENUM {
				fd.TypeName = proto.String("." + enumFQN)
			}
		}
		feat := func() *descriptorpb.FeatureSet {
			if fd.Options == nil {
				fd.Options = &descriptorpb.FieldOptions{}
			}
			if fd.Options.Features == nil {
				fd.Options.Features = &descriptorpb.FeatureSet{}
			}
			return fd.Options.Features
		}
		switch {
		case shape < 4: // singular
			fd.Label = descriptorpb.FieldDescriptorProto_LABEL_OPTIONAL.Enum()
			setType(fd, true)
			switch g.syntax {
			case 2:
				if c.Intn(6) == 0 {
					fd.Label = descriptorpb.FieldDescriptorProto_LABEL_REQUIRED.Enum()
				}
			case 3:
				if !isMsg && c.Intn(3) == 0 {
					// proto3 optional: synthetic oneof
					fd.Proto3Optional = proto.Bool(true)
				}
			case 0:
				if !isMsg {
					switch c.Intn(4) {
					case 0:
						feat().FieldPresence = descriptorpb.FeatureSet_IMPLICIT.Enum()
					case 1:
						feat().FieldPresence = descriptorpb.FeatureSet_LEGACY_REQUIRED.Enum()
					}
				}
				if typ == descriptorpb.FieldDescriptorProto_TYPE_STRING && !isMsg && c.Intn(3) == 0 {
					feat().Utf8Validation = descriptorpb.FeatureSet_NONE.Enum()
				}
			}
			if fd.GetType() == descriptorpb.FieldDescriptorProto_TYPE_ENUM && g.syntax == 0 &&
				fd.GetOptions().GetFeatures().GetFieldPresence() == descriptorpb.FeatureSet_IMPLICIT && first != 0 {
				fd.Options.Features.FieldPresence = nil // implicit presence needs an open enum
			}
		case shape < 7: // repeated
			fd.Label = descriptorpb.FieldDescriptorProto_LABEL_REPEATED.Enum()
			setType(fd, true)
			if !isMsg && typ != descriptorpb.FieldDescriptorProto_TYPE_STRING && typ != descriptorpb.FieldDescriptorProto_TYPE_BYTES {
				switch g.syntax {
				case 2, 3:
					if c.Intn(2) == 0 {
						fd.Options = &descriptorpb.FieldOptions{Packed: proto.Bool(c.Intn(2) == 0)}
					}
				case 0:
					if c.Intn(2) == 0 {
						feat().RepeatedFieldEncoding = descriptorpb.FeatureSet_EXPANDED.Enum()
					}
				}
			}
			if g.syntax == 0 && typ == descriptorpb.FieldDescriptorProto_TYPE_STRING && !isMsg && c.Intn(3) == 0 {
				feat().Utf8Validation = descriptorpb.FeatureSet_NONE.Enum()
			}
		case shape < 9 && noneof > 0: // oneof member
			fd.Label = descriptorpb.FieldDescriptorProto_LABEL_OPTIONAL.Enum()
			setType(fd, true)
			oi := c.Intn(noneof)
			fd.OneofIndex = proto.Int32(int32(oi))
			oneofUsed[oi] = true
		default: // map
			g.nmsg++
			en := fmt.Sprintf("F%dEntry", i)
			fd.Name = proto.String(fmt.Sprintf("f%d", i))
			fd.Label = descriptorpb.FieldDescriptorProto_LABEL_REPEATED.Enum()
			fd.Type = descriptorpb.FieldDescriptorProto_TYPE_MESSAGE.Enum()
			fd.TypeName = proto.String("." + fqn + "." + en)
			kt := msgKeyTypes[c.Intn(len(msgKeyTypes))]
			kf := &descriptorpb.FieldDescriptorProto{Name: proto.String("key"), JsonName: proto.String("key"), Number: proto.Int32(1),
				Label: descriptorpb.FieldDescriptorProto_LABEL_OPTIONAL.Enum(), Type: kt.Enum()}
			vf := &descriptorpb.FieldDescriptorProto{Name: proto.String("value"), JsonName: proto.String("value"), Number: proto.Int32(2),
				Label: descriptorpb.FieldDescriptorProto_LABEL_OPTIONAL.Enum()}
			setType(vf, false)
			if vf.GetType() == descriptorpb.FieldDescriptorProto_TYPE_ENUM && first != 0 {
				vf.Type = descriptorpb.FieldDescriptorProto_TYPE_INT32.Enum()
				vf.TypeName = nil
			}
			md.NestedType = append(md.NestedType, &descriptorpb.DescriptorProto{Name: proto.String(en),
				Field: []*descriptorpb.FieldDescriptorProto{kf, vf}, Options: &descriptorpb.MessageOptions{MapEntry: proto.Bool(true)}})
		}
		if g.syntax == 3 && fd.GetType() == descriptorpb.FieldDescriptorProto_TYPE_ENUM && first != 0 {
			// cannot happen: proto3 enums start at zero
		}
		if fd.Proto3Optional != nil {
			// synthetic oneofs must come after all real ones
			md.OneofDecl = append(md.OneofDecl, &descriptorpb.OneofDescriptorProto{Name: proto.String("_" + fd.GetName())})
			fd.OneofIndex = proto.Int32(int32(len(md.OneofDecl) - 1))
		}
		md.Field = append(md.Field, fd)
	}
	// oneofs must have at least one member: give unused ones a member
	for oi, u := range oneofUsed {
		if !u {
			fd := &descriptorpb.FieldDescriptorProto{Name: proto.String(fmt.Sprintf("om%d", oi)), JsonName: proto.String(fmt.Sprintf("om%d", oi)),
				Number: proto.Int32(g.fieldNumber(used)), Label: descriptorpb.FieldDescriptorProto_LABEL_OPTIONAL.Enum(),
				Type: descriptorpb.FieldDescriptorProto_TYPE_SINT32.Enum(), OneofIndex: proto.Int32(int32(oi))}
			md.Field = append(md.Field, fd)
		}
	}
	// members of one real oneof must be declared consecutively
	var ordered []*descriptorpb.FieldDescriptorProto
	done := map[int32]bool{}
	for _, fd := range md.Field {
		if fd.OneofIndex == nil || fd.GetProto3Optional() {
			ordered = append(ordered, fd)
			continue
		}
		oi := fd.GetOneofIndex()
		if done[oi] {
			continue
		}
		done[oi] = true
		for _, f2 := range md.Field {
			if f2.OneofIndex != nil && !f2.GetProto3Optional() && f2.GetOneofIndex() == oi {
				ordered = append(ordered, f2)
			}
		}
	}
	md.Field = ordered
	return md
}

// msgRandomSchema builds one random valid file and returns its top-level message descriptors.
func msgRandomSchema(c *Ctx) ([]protoreflect.MessageDescriptor, error) {
	msgRndCounter++
	g := &msgRndGen{c: c, syntax: []int{2, 3, 0}[c.Intn(3)], pkg: fmt.Sprintf("verif.rnd%d", msgRndCounter)}
	fdp := &descriptorpb.FileDescriptorProto{
		Name:    proto.String(fmt.Sprintf("verif/rnd%d.proto", msgRndCounter)),
		Package: proto.String(g.pkg),
	}
	switch g.syntax {
	case 2:
		fdp.Syntax = proto.String("proto2")
	case 3:
		fdp.Syntax = proto.String("proto3")
	default:
		fdp.Syntax = proto.String("editions")
		fdp.Edition = descriptorpb.Edition_EDITION_2023.Enum()
		if c.Intn(2) == 0 {
			fs := &descriptorpb.FeatureSet{}
			switch c.Intn(3) {
			case 0:
				fs.FieldPresence = descriptorpb.FeatureSet_IMPLICIT.Enum()
			}
			if c.Intn(3) == 0 {
				fs.RepeatedFieldEncoding = descriptorpb.FeatureSet_EXPANDED.Enum()
			}
			if c.Intn(4) == 0 {
				fs.Utf8Validation = descriptorpb.FeatureSet_NONE.Enum()
			}
			if c.Intn(4) == 0 {
				fs.MessageEncoding = descriptorpb.FeatureSet_DELIMITED.Enum()
			}
			fdp.Options = &descriptorpb.FileOptions{Features: fs}
		}
	}
	nm := 1 + c.Intn(2)
	var tops []string
	for i := 0; i < nm; i++ {
		g.nmsg++
		tops = append(tops, fmt.Sprintf("%s.M%d", g.pkg, g.nmsg))
	}
	for i, fq := range tops {
		var sib []string
		for j, o := range tops {
			if j != i {
				sib = append(sib, o)
			}
		}
		name := fq[len(g.pkg)+1:]
		fdp.MessageType = append(fdp.MessageType, g.message(name, fq, 2, sib))
	}
	fd, err := protodesc.NewFile(fdp, protoregistry.GlobalFiles)
	if err != nil {
		return nil, err
	}
	var out []protoreflect.MessageDescriptor
	for i := 0; i < fd.Messages().Len(); i++ {
		out = append(out, fd.Messages().Get(i))
	}
	return out, nil
}

// msgRandomSchemas returns the root descriptors of n random files (invalid attempts are counted
// in the statistics and skipped).
func msgRandomSchemas(c *Ctx, n int) []protoreflect.MessageDescriptor {
	var out []protoreflect.MessageDescriptor
	for i := 0; i < n; i++ {
		mds, err := msgRandomSchema(c)
		if err != nil {
			c.Stat("rnd_schema_rejected")
			if c.stats["rnd_schema_rejected"] <= 3 {
				c.Sample("rejected random schema: " + err.Error())
			}
			continue
		}
		c.Stat("rnd_schema_ok")
		out = append(out, mds...)
	}
	return out
}

var _ = dynamicpb.NewMessage
