//go:build verif

package main

// family "req" (C10): required-field checks are exact.
//
// Case lines (model-compared; schema lines are emitted through family msg):
//	ni   <id> <0|1 per type index>        | ok          needsInitCheck of every type of the schema table
//	chk  <id> <value>                     | 0|1         proto.CheckInitialized(m) == nil
//	flag <id> <bytes>                     | 0|1|e<n>    UnmarshalInitialized flag of the table-driven eager decoder
// P lines (C10), oracle = reqMissing (independent tree walk through protoreflect):
//	CheckInitialized / Marshal / Unmarshal / protojson / prototext (without AllowPartial) report a
//	required-field error iff the oracle finds an unset required field; with AllowPartial never;
//	the UnmarshalInitialized flag is never set for a partial message; a message accepted by
//	Unmarshal passes CheckInitialized and Marshal.
// Findings recognised: FA1 (lazy), FA3 (Merge into a partial message), FA4 (needsInitCheck memo on type
// cycles), FA5 (second value occurrence in a map entry).  FA2 (non-first oneof member) is repaired
// in the code: its witnesses stay in the corpus as regression inputs.

import (
	"fmt"
	"sort"
	"strings"

	"google.golang.org/protobuf/encoding/protojson"
	"google.golang.org/protobuf/encoding/prototext"
	"google.golang.org/protobuf/encoding/protowire"
	"google.golang.org/protobuf/proto"
	"google.golang.org/protobuf/reflect/protodesc"
	"google.golang.org/protobuf/reflect/protoreflect"
	"google.golang.org/protobuf/reflect/protoregistry"
	"google.golang.org/protobuf/runtime/protoiface"
	"google.golang.org/protobuf/types/descriptorpb"
	"google.golang.org/protobuf/types/dynamicpb"
)

func init() { Register("req", famReq) }

// ---------------------------------------------------------------- descriptor-level facts

func reqSubMessages(md protoreflect.MessageDescriptor) []protoreflect.FieldDescriptor {
	var out []protoreflect.FieldDescriptor
	fds := md.Fields()
	for i := 0; i < fds.Len(); i++ {
		out = append(out, fds.Get(i))
	}
	for _, xd := range msgExtensionsOf(md) {
		out = append(out, xd)
	}
	return out
}

func reqValueMessage(fd protoreflect.FieldDescriptor) protoreflect.MessageDescriptor {
	if fd.IsMap() {
		return fd.MapValue().Message()
	}
	return fd.Message()
}

var reqReachCache = map[protoreflect.FullName]bool{}

// reqReaches: some message reachable from md (fields, map values, registered extensions) declares
// a required field.
func reqReaches(md protoreflect.MessageDescriptor) bool {
	if v, ok := reqReachCache[md.FullName()]; ok {
		return v
	}
	seen := map[protoreflect.FullName]bool{}
	var walk func(md protoreflect.MessageDescriptor) bool
	walk = func(md protoreflect.MessageDescriptor) bool {
		if seen[md.FullName()] {
			return false
		}
		seen[md.FullName()] = true
		if md.RequiredNumbers().Len() > 0 {
			return true
		}
		for _, fd := range reqSubMessages(md) {
			if sub := reqValueMessage(fd); sub != nil && walk(sub) {
				return true
			}
		}
		return false
	}
	v := walk(md)
	reqReachCache[md.FullName()] = v
	return v
}

// reqNeedsInit is needsInitCheck of internal/impl/checkinit.go as a plain reachability (required
// fields or extension ranges reachable through message-typed fields), without its memo table.
func reqNeedsInit(md protoreflect.MessageDescriptor) bool {
	seen := map[protoreflect.FullName]bool{}
	var walk func(md protoreflect.MessageDescriptor) bool
	walk = func(md protoreflect.MessageDescriptor) bool {
		if seen[md.FullName()] {
			return false
		}
		seen[md.FullName()] = true
		if md.RequiredNumbers().Len() > 0 || md.ExtensionRanges().Len() > 0 {
			return true
		}
		fds := md.Fields()
		for i := 0; i < fds.Len(); i++ {
			if sub := reqValueMessage(fds.Get(i)); sub != nil && walk(sub) {
				return true
			}
		}
		return false
	}
	return walk(md)
}

var reqNiDone = map[string]bool{}

// reqEmitNi emits the `ni` line for schema id (type indices as in msgDumpSchema).
func reqEmitNi(c *Ctx, id string, md protoreflect.MessageDescriptor) {
	if reqNiDone[id] {
		return
	}
	reqNiDone[id] = true
	idx := map[protoreflect.FullName]int{}
	var list []protoreflect.MessageDescriptor
	msgCollect(md, idx, &list)
	toks := []string{id}
	for _, d := range list {
		toks = append(toks, Tok(reqNeedsInit(d)))
	}
	c.Case("req", "ni", toks, []string{"ok"})
}

// ---------------------------------------------------------------- oracle

// reqMissing reports whether some message of the tree of m lacks a required field.  underLazy /
// underLateOneof: every such message lies below a [lazy=true] field / below a message-typed oneof
// member that is not the first declared member of its oneof (the input classes of FA1 / FA2).
type reqFacts struct {
	missing        bool
	allUnderLazy   bool
	allUnderLateOO bool
	allUnderCycle  bool // ... below a field whose message type lies on a cycle of message types (FA4)
}

var reqCycleCache = map[protoreflect.FullName]bool{}

// reqInCycle: md reaches itself through message-typed fields.
func reqInCycle(md protoreflect.MessageDescriptor) bool {
	if v, ok := reqCycleCache[md.FullName()]; ok {
		return v
	}
	seen := map[protoreflect.FullName]bool{}
	var walk func(d protoreflect.MessageDescriptor) bool
	walk = func(d protoreflect.MessageDescriptor) bool {
		fds := d.Fields()
		for i := 0; i < fds.Len(); i++ {
			sub := reqValueMessage(fds.Get(i))
			if sub == nil {
				continue
			}
			if sub.FullName() == md.FullName() {
				return true
			}
			if !seen[sub.FullName()] {
				seen[sub.FullName()] = true
				if walk(sub) {
					return true
				}
			}
		}
		return false
	}
	v := walk(md)
	reqCycleCache[md.FullName()] = v
	return v
}

func reqMissing(m protoreflect.Message) reqFacts {
	f := reqFacts{allUnderLazy: true, allUnderLateOO: true, allUnderCycle: true}
	var walk func(m protoreflect.Message, lazy, late, cyc bool)
	walk = func(m protoreflect.Message, lazy, late, cyc bool) {
		md := m.Descriptor()
		nums := md.RequiredNumbers()
		for i := 0; i < nums.Len(); i++ {
			if !m.Has(md.Fields().ByNumber(nums.Get(i))) {
				f.missing = true
				if !lazy {
					f.allUnderLazy = false
				}
				if !late {
					f.allUnderLateOO = false
				}
				if !cyc {
					f.allUnderCycle = false
				}
			}
		}
		m.Range(func(fd protoreflect.FieldDescriptor, v protoreflect.Value) bool {
			lz := lazy || msgIsLazyField(fd)
			lt := late
			cy := cyc
			if sub := reqValueMessage(fd); sub != nil && reqInCycle(sub) {
				cy = true
			}
			if od := fd.ContainingOneof(); od != nil && !od.IsSynthetic() && od.Fields().Get(0) != fd && fd.Message() != nil {
				lt = true
			}
			switch {
			case fd.IsMap():
				if fd.MapValue().Message() != nil {
					v.Map().Range(func(_ protoreflect.MapKey, mv protoreflect.Value) bool { walk(mv.Message(), lz, lt, cy); return true })
				}
			case fd.IsList():
				if fd.Message() != nil {
					for i, l := 0, v.List(); i < l.Len(); i++ {
						walk(l.Get(i).Message(), lz, lt, cy)
					}
				}
			case fd.Message() != nil:
				walk(v.Message(), lz, lt, cy)
			}
			return true
		})
	}
	walk(m, false, false, false)
	return f
}

func reqIsRequiredErr(err error) bool {
	return err != nil && strings.Contains(err.Error(), "required field")
}

// ---------------------------------------------------------------- shapes

type reqSetter func(m protoreflect.Message)

func reqScalarValue(fd protoreflect.FieldDescriptor, k int) protoreflect.Value {
	switch fd.Kind() {
	case protoreflect.BoolKind:
		return protoreflect.ValueOfBool(k%2 == 1)
	case protoreflect.EnumKind:
		return protoreflect.ValueOfEnum(fd.Enum().Values().Get(0).Number())
	case protoreflect.Int32Kind, protoreflect.Sint32Kind, protoreflect.Sfixed32Kind:
		return protoreflect.ValueOfInt32(int32(k))
	case protoreflect.Uint32Kind, protoreflect.Fixed32Kind:
		return protoreflect.ValueOfUint32(uint32(k))
	case protoreflect.Int64Kind, protoreflect.Sint64Kind, protoreflect.Sfixed64Kind:
		return protoreflect.ValueOfInt64(int64(k))
	case protoreflect.Uint64Kind, protoreflect.Fixed64Kind:
		return protoreflect.ValueOfUint64(uint64(k))
	case protoreflect.FloatKind:
		return protoreflect.ValueOfFloat32(float32(k))
	case protoreflect.DoubleKind:
		return protoreflect.ValueOfFloat64(float64(k))
	case protoreflect.StringKind:
		return protoreflect.ValueOfString(fmt.Sprint("s", k))
	case protoreflect.BytesKind:
		return protoreflect.ValueOfBytes([]byte{byte(k)})
	}
	panic("reqScalarValue")
}

// reqChoice: the alternatives of one choice point (a required scalar, a message-typed field, a
// whole oneof); the last alternative is the most complete one.
type reqChoice []reqSetter

func reqMapKey(fd protoreflect.FieldDescriptor, k int) protoreflect.MapKey {
	return reqScalarValue(fd.MapKey(), k).MapKey()
}

func reqFieldAlternatives(c *Ctx, fd protoreflect.FieldDescriptor, depth, cap int) []reqSetter {
	sub := reqValueMessage(fd)
	if sub == nil {
		return []reqSetter{func(m protoreflect.Message) { m.Set(fd, reqScalarValue(fd, 1)) }}
	}
	var subs []reqSetter
	if depth > 0 {
		subs = reqShapes(c, sub, depth-1, cap)
	} else {
		subs = []reqSetter{func(protoreflect.Message) {}}
	}
	var out []reqSetter
	switch {
	case fd.IsMap():
		for _, s := range subs {
			s := s
			out = append(out, func(m protoreflect.Message) {
				mp := m.Mutable(fd).Map()
				v := mp.NewValue()
				s(v.Message())
				mp.Set(reqMapKey(fd, 1), v)
			})
		}
		first, last := subs[0], subs[len(subs)-1]
		out = append(out, func(m protoreflect.Message) {
			mp := m.Mutable(fd).Map()
			v1, v2 := mp.NewValue(), mp.NewValue()
			first(v1.Message())
			last(v2.Message())
			mp.Set(reqMapKey(fd, 1), v1)
			mp.Set(reqMapKey(fd, 2), v2)
		})
		if len(subs) > 1 {
			out = append(out, out[len(subs)-1]) // most complete last: one complete entry
		}
	case fd.IsList():
		mk := func(ss ...reqSetter) reqSetter {
			return func(m protoreflect.Message) {
				var l protoreflect.List
				if fd.IsExtension() {
					l = m.NewField(fd).List()
				} else {
					l = m.Mutable(fd).List()
				}
				for _, s := range ss {
					e := l.NewElement()
					s(e.Message())
					l.Append(e)
				}
				if fd.IsExtension() {
					m.Set(fd, protoreflect.ValueOfList(l))
				}
			}
		}
		for _, s := range subs {
			out = append(out, mk(s))
		}
		out = append(out, mk(subs[len(subs)-1], subs[0]))
		out = append(out, mk(subs[0], subs[len(subs)-1])) // a partial element followed by a complete one
		out = append(out, mk(subs[len(subs)-1], subs[len(subs)-1]))
	default:
		for _, s := range subs {
			s := s
			out = append(out, func(m protoreflect.Message) {
				if fd.IsExtension() {
					v := m.NewField(fd)
					s(v.Message())
					m.Set(fd, v)
				} else {
					s(m.Mutable(fd).Message())
				}
			})
		}
	}
	return out
}

// reqChoices lists the choice points of md that matter for initialization.
func reqChoices(c *Ctx, md protoreflect.MessageDescriptor, depth, cap int) []reqChoice {
	var out []reqChoice
	absent := func(protoreflect.Message) {}
	doneOneof := map[protoreflect.FullName]bool{}
	for _, fd := range reqSubMessages(md) {
		sub := reqValueMessage(fd)
		relevant := fd.Cardinality() == protoreflect.Required || (sub != nil && reqReaches(sub))
		if od := fd.ContainingOneof(); od != nil && !od.IsSynthetic() {
			if doneOneof[od.FullName()] {
				continue
			}
			doneOneof[od.FullName()] = true
			any := false
			for i := 0; i < od.Fields().Len(); i++ {
				if s := od.Fields().Get(i).Message(); s != nil && reqReaches(s) {
					any = true
				}
			}
			if !any {
				continue
			}
			ch := reqChoice{absent}
			// members in reverse declaration order so that the first member's complete shape is last
			for i := od.Fields().Len() - 1; i >= 0; i-- {
				ch = append(ch, reqFieldAlternatives(c, od.Fields().Get(i), depth, cap)...)
			}
			out = append(out, ch)
			continue
		}
		if !relevant {
			continue
		}
		out = append(out, append(reqChoice{absent}, reqFieldAlternatives(c, fd, depth, cap)...))
	}
	return out
}

// reqShapes: all combinations of the alternatives when there are at most cap of them, otherwise
// cap samples (the complete message, complete-but-one, random combinations).  The last shape is
// the most complete one.
func reqShapes(c *Ctx, md protoreflect.MessageDescriptor, depth, cap int) []reqSetter {
	out, _ := reqShapesX(c, md, depth, cap)
	return out
}

func reqShapesX(c *Ctx, md protoreflect.MessageDescriptor, depth, cap int) ([]reqSetter, bool) {
	choices := reqChoices(c, md, depth, cap)
	total := 1
	for _, ch := range choices {
		if total > cap {
			break
		}
		total *= len(ch)
	}
	build := func(pick []int) reqSetter {
		return func(m protoreflect.Message) {
			for i, ch := range choices {
				ch[pick[i]](m)
			}
		}
	}
	var out []reqSetter
	if total <= cap {
		pick := make([]int, len(choices))
		for {
			out = append(out, build(append([]int(nil), pick...)))
			i := 0
			for i < len(pick) {
				pick[i]++
				if pick[i] < len(choices[i]) {
					break
				}
				pick[i] = 0
				i++
			}
			if i == len(pick) {
				break
			}
		}
		return out, true
	}
	last := func() []int {
		p := make([]int, len(choices))
		for i, ch := range choices {
			p[i] = len(ch) - 1
		}
		return p
	}
	for k := 0; k < cap-1; k++ {
		p := last()
		switch c.Intn(4) {
		case 0: // random
			for i, ch := range choices {
				p[i] = c.Intn(len(ch))
			}
		case 1: // complete but a few
			for j := c.Intn(3); j >= 0; j-- {
				i := c.Intn(len(choices))
				p[i] = c.Intn(len(choices[i]))
			}
		case 2: // a complete prefix (the 64-bit mask covers the first 64 required fields)
			n := c.Intn(len(choices) + 1)
			if c.Bool() && len(choices) > 64 {
				n = 62 + c.Intn(5)
			}
			for i := n; i < len(choices); i++ {
				p[i] = 0
			}
		default: // complete but exactly one
			p[c.Intn(len(choices))] = 0
		}
		out = append(out, build(p))
	}
	return append(out, build(last())), false
}

// ---------------------------------------------------------------- checks

type reqTarget struct {
	fls  []w2aFlavour // fls[0] is the table-driven flavour when there is one
	id   string
	lazy bool
}

func reqFlag(fl w2aFlavour, b []byte, nolazy bool) (protoreflect.Message, bool, error) {
	m := fl.new()
	out, err := proto.UnmarshalOptions{AllowPartial: true, NoLazyDecoding: nolazy}.UnmarshalState(protoiface.UnmarshalInput{Buf: b, Message: m})
	return m, out.Flags&protoiface.UnmarshalInitialized != 0, err
}

var reqFA4Cache = map[protoreflect.FullName]bool{}

// reqFA4Prone: md reaches (or is) a message type that lies on a cycle and reaches a required field.
func reqFA4Prone(md protoreflect.MessageDescriptor) bool {
	if v, ok := reqFA4Cache[md.FullName()]; ok {
		return v
	}
	seen := map[protoreflect.FullName]bool{}
	var walk func(d protoreflect.MessageDescriptor) bool
	walk = func(d protoreflect.MessageDescriptor) bool {
		if seen[d.FullName()] {
			return false
		}
		seen[d.FullName()] = true
		if reqInCycle(d) && reqReaches(d) {
			return true
		}
		for _, fd := range reqSubMessages(d) {
			if sub := reqValueMessage(fd); sub != nil && walk(sub) {
				return true
			}
		}
		return false
	}
	v := walk(md)
	reqFA4Cache[md.FullName()] = v
	return v
}

func reqKnownFA4(c *Ctx) {
	c.Known("FA4", "C10", "needsInitCheck memoises false for a message type on a cycle while the cycle is being explored; its partial sub-messages are then never checked on the table-driven path")
	c.Stat("known_FA4")
}

// reqDupMapValue: some map entry of b (at any depth below known message fields) carries more than
// one occurrence of its value field: the input class of FA5.
func reqDupMapValue(md protoreflect.MessageDescriptor, b []byte, depth int) bool {
	chunks, ok := msgSplitFields(b)
	if !ok || depth <= 0 {
		return false
	}
	for _, ch := range chunks {
		fd := msgFindField(md, ch.num)
		if fd == nil || fd.Message() == nil || !msgFieldAccepts(fd, ch.typ) {
			continue
		}
		var p []byte
		n := -1
		if ch.typ == protowire.BytesType {
			p, n = protowire.ConsumeBytes(ch.val)
		} else if ch.typ == protowire.StartGroupType {
			p, n = protowire.ConsumeGroup(ch.num, ch.val)
		}
		if n < 0 {
			continue
		}
		if fd.IsMap() {
			ent, ok := msgSplitFields(p)
			if !ok {
				continue
			}
			vals := 0
			for _, e := range ent {
				if e.num == 2 && e.typ == protowire.BytesType {
					vals++
					if sub := fd.MapValue().Message(); sub != nil {
						if q, k := protowire.ConsumeBytes(e.val); k >= 0 && reqDupMapValue(sub, q, depth-1) {
							return true
						}
					}
				}
			}
			if vals > 1 && fd.MapValue().Message() != nil {
				return true
			}
			continue
		}
		if reqDupMapValue(fd.Message(), p, depth-1) {
			return true
		}
	}
	return false
}

// reqDecodeChecks: every way of decoding b with flavour fl; want = the decoded tree (an
// independent reflection-path decode) lacks a required field.
func reqDecodeChecks(c *Ctx, t *reqTarget, fl w2aFlavour, b []byte, canonical bool) {
	ref := dynamicpb.NewMessage(fl.md)
	if err := (proto.UnmarshalOptions{AllowPartial: true}).Unmarshal(b, ref); err != nil {
		c.Stat("wire_undecodable")
		return
	}
	facts := reqMissing(ref)
	want := facts.missing
	what := fl.what()
	for _, nolazy := range []bool{true, false} {
		if !nolazy && (fl.slow || !t.lazy) {
			continue
		}
		lz := ""
		if !nolazy {
			lz = " (lazy decoding)"
		}
		known := func() bool {
			switch {
			case !nolazy && facts.allUnderLazy:
				c.Known("FA1", "C10", "a partial message inside an undecoded [lazy=true] field is accepted by Unmarshal, CheckInitialized and Marshal")
				c.Stat("known_FA1")
			case !fl.slow && facts.allUnderCycle:
				reqKnownFA4(c)
			case !fl.slow && !canonical && reqDupMapValue(fl.md, b, 8):
				c.Known("FA5", "C10", "a map entry is considered initialized as soon as one occurrence of its value is")
				c.Stat("known_FA5")
			default:
				return false
			}
			return true
		}
		// AllowPartial: never a required-field error; the flag is sound
		m1, flag, err := reqFlag(fl, b, nolazy)
		if err != nil {
			c.PropFail("C10", "Unmarshal with AllowPartial fails"+lz+": "+err.Error()+" "+what, HexB(b))
			continue
		}
		if !fl.slow && nolazy && !reqFA4Prone(fl.md) {
			// (the model has the needsInitCheck of the descriptors, not the order-dependent memo of
			// finding FA4: no flag comparison for types that reach a cycle with required fields)
			c.Case("req", "flag", []string{t.id, HexB(b)}, []string{Tok(flag)})
		}
		if flag {
			c.Stat("flag_set")
		}
		if flag && want && !known() {
			c.PropFail("C10", "UnmarshalInitialized flag set for a partial message"+lz+": "+what, HexB(b))
		}
		_ = m1
		// without AllowPartial: error iff partial
		m2 := fl.new()
		err = proto.UnmarshalOptions{NoLazyDecoding: nolazy}.Unmarshal(b, m2.Interface())
		if err != nil && !reqIsRequiredErr(err) {
			c.PropFail("C10", "Unmarshal fails with another error"+lz+": "+err.Error()+" "+what, HexB(b))
			continue
		}
		if (err != nil) != want {
			if !(want && known()) {
				c.PropFail("C10", fmt.Sprintf("Unmarshal error=%v but a required field is missing=%v%s: %s", err != nil, want, lz, what), HexB(b))
			}
			continue
		}
		if err == nil {
			// an accepted message is initialized for every later API
			if e := proto.CheckInitialized(m2.Interface()); e != nil {
				c.PropFail("C10", "CheckInitialized fails on a message accepted by Unmarshal"+lz+": "+what, HexB(b))
			}
			if _, e := proto.Marshal(m2.Interface()); e != nil {
				c.PropFail("C10", "Marshal fails on a message accepted by Unmarshal"+lz+": "+what, HexB(b))
			}
		}
	}
}

func reqOneShape(c *Ctx, t *reqTarget, fl w2aFlavour, set reqSetter) {
	defer w2aRecover(c, "C10", fl.what())
	m := fl.new()
	set(m)
	facts := reqMissing(m)
	want := facts.missing
	what := fl.what()
	c.Stat("shape_" + fl.name)
	if want {
		c.Stat("shape_partial")
	}
	// CheckInitialized
	errCI := proto.CheckInitialized(m.Interface())
	fa4 := !fl.slow && want && facts.allUnderCycle
	if errCI == nil && fa4 {
		reqKnownFA4(c)
	} else {
		c.Case("req", "chk", append([]string{t.id}, msgDump(m)...), []string{Tok(errCI == nil)})
		if (errCI != nil) != want || (errCI != nil && !reqIsRequiredErr(errCI)) {
			c.PropFail("C10", fmt.Sprintf("CheckInitialized error=%v but a required field is missing=%v: %s", errCI != nil, want, what), strings.Join(msgDump(m), " "))
		}
	}
	// Marshal
	_, errM := proto.Marshal(m.Interface())
	if errM == nil && fa4 {
		reqKnownFA4(c)
	} else if (errM != nil) != want || (errM != nil && !reqIsRequiredErr(errM)) {
		c.PropFail("C10", fmt.Sprintf("Marshal error=%v but a required field is missing=%v: %s", errM != nil, want, what), strings.Join(msgDump(m), " "))
	}
	b, err := w2aMarshal.Marshal(m.Interface())
	if err != nil {
		c.PropFail("C10", "Marshal with AllowPartial fails: "+err.Error()+" "+what)
		return
	}
	// Unmarshal by every flavour of the type
	for _, f2 := range t.fls {
		reqDecodeChecks(c, t, f2, b, true)
	}
	// the same with one known field sent with a wire type its kind rejects (it becomes an unknown
	// field: a required field is then missing although its number occurs in the input)
	if c.Intn(4) == 0 {
		if bw := reqFlipType(c, fl.md, b); bw != nil {
			c.Stat("wire_wrong_type")
			for _, f2 := range t.fls {
				reqDecodeChecks(c, t, f2, bw, false)
			}
		}
	}
	// protojson / prototext
	if c.Intn(3) == 0 {
		_, errJ := protojson.Marshal(m.Interface())
		if errJ == nil && fa4 {
			reqKnownFA4(c)
		} else if (errJ != nil) != want {
			c.PropFail("C10", fmt.Sprintf("protojson.Marshal error=%v but a required field is missing=%v: %s", errJ != nil, want, what), HexB(b))
		}
		if j, e := (protojson.MarshalOptions{AllowPartial: true}).Marshal(m.Interface()); e != nil {
			c.PropFail("C10", "protojson.Marshal with AllowPartial fails: "+e.Error()+" "+what, HexB(b))
		} else {
			m3 := fl.new()
			e3 := protojson.Unmarshal(j, m3.Interface())
			if e3 == nil && fa4 {
				reqKnownFA4(c)
			} else if (e3 != nil) != want || (e3 != nil && !reqIsRequiredErr(e3)) {
				c.PropFail("C10", fmt.Sprintf("protojson.Unmarshal error=%v (%v) but a required field is missing=%v: %s", e3 != nil, e3, want, what), string(j))
			}
			if e4 := (protojson.UnmarshalOptions{AllowPartial: true}).Unmarshal(j, fl.new().Interface()); e4 != nil {
				c.PropFail("C10", "protojson.Unmarshal with AllowPartial fails: "+e4.Error()+" "+what, string(j))
			}
		}
		_, errT := prototext.Marshal(m.Interface())
		if errT == nil && fa4 {
			reqKnownFA4(c)
		} else if (errT != nil) != want {
			c.PropFail("C10", fmt.Sprintf("prototext.Marshal error=%v but a required field is missing=%v: %s", errT != nil, want, what), HexB(b))
		}
		if x, e := (prototext.MarshalOptions{AllowPartial: true}).Marshal(m.Interface()); e != nil {
			c.PropFail("C10", "prototext.Marshal with AllowPartial fails: "+e.Error()+" "+what, HexB(b))
		} else {
			m3 := fl.new()
			e3 := prototext.Unmarshal(x, m3.Interface())
			if e3 == nil && fa4 {
				reqKnownFA4(c)
			} else if (e3 != nil) != want || (e3 != nil && !reqIsRequiredErr(e3)) {
				c.PropFail("C10", fmt.Sprintf("prototext.Unmarshal error=%v (%v) but a required field is missing=%v: %s", e3 != nil, e3, want, what), string(x))
			}
			if e4 := (prototext.UnmarshalOptions{AllowPartial: true}).Unmarshal(x, fl.new().Interface()); e4 != nil {
				c.PropFail("C10", "prototext.Unmarshal with AllowPartial fails: "+e4.Error()+" "+what, string(x))
			}
		}
	}
}

// reqFlipType re-encodes one top-level known field of b (or of a sub-message one level down) with
// another wire type and a well-formed value of that type.
func reqFlipType(c *Ctx, md protoreflect.MessageDescriptor, b []byte) []byte {
	chunks, ok := unkSplit(b)
	if !ok || len(chunks) == 0 {
		return nil
	}
	k := c.Intn(len(chunks))
	var out []byte
	for i, ch := range chunks {
		if i != k {
			out = append(out, ch.tag...)
			out = append(out, ch.val...)
			continue
		}
		fd := msgFindField(md, ch.num)
		if fd != nil && fd.Message() != nil && !fd.IsMap() && ch.typ == protowire.BytesType && c.Bool() {
			if p, n := protowire.ConsumeBytes(ch.val); n >= 0 {
				if p2 := reqFlipType(c, fd.Message(), p); p2 != nil {
					out = append(out, ch.tag...)
					out = protowire.AppendBytes(out, p2)
					continue
				}
			}
		}
		types := []protowire.Type{protowire.VarintType, protowire.Fixed32Type, protowire.Fixed64Type, protowire.BytesType}
		t := types[c.Intn(len(types))]
		if t == ch.typ {
			t = types[(c.Intn(3)+1+int(indexOfType(types, ch.typ)))%len(types)]
		}
		out = protowire.AppendTag(out, ch.num, t)
		switch t {
		case protowire.VarintType:
			out = protowire.AppendVarint(out, uint64(c.Intn(300)))
		case protowire.Fixed32Type:
			out = protowire.AppendFixed32(out, uint32(c.U64()))
		case protowire.Fixed64Type:
			out = protowire.AppendFixed64(out, c.U64())
		default:
			out = protowire.AppendBytes(out, c.Bytes(c.Intn(3)))
		}
	}
	return out
}

func indexOfType(ts []protowire.Type, t protowire.Type) int {
	for i, x := range ts {
		if x == t {
			return i
		}
	}
	return 0
}

// reqMergeEntries concatenates the payloads of the entries that b1 and b2 hold for the same map
// field (so that the entry has its key and value twice), at the top level and one level down.
func reqMergeEntries(md protoreflect.MessageDescriptor, b1, b2 []byte, depth int) []byte {
	c1, ok1 := unkSplit(b1)
	c2, ok2 := unkSplit(b2)
	if !ok1 || !ok2 {
		return nil
	}
	var out []byte
	changed := false
	for _, x := range c1 {
		fd := msgFindField(md, x.num)
		done := false
		if fd != nil && fd.Message() != nil && x.typ == protowire.BytesType && msgFieldAccepts(fd, x.typ) {
			for _, y := range c2 {
				if y.num != x.num || y.typ != x.typ {
					continue
				}
				px, _ := protowire.ConsumeBytes(x.val)
				py, _ := protowire.ConsumeBytes(y.val)
				if fd.IsMap() {
					out = append(out, x.tag...)
					out = protowire.AppendBytes(out, w2aCat(px, py))
					done, changed = true, true
				} else if depth > 0 && !fd.IsList() {
					if p := reqMergeEntries(fd.Message(), px, py, depth-1); p != nil {
						out = append(out, x.tag...)
						out = protowire.AppendBytes(out, p)
						done, changed = true, true
					}
				}
				break
			}
		}
		if !done {
			out = append(out, x.tag...)
			out = append(out, x.val...)
		}
	}
	if !changed {
		return nil
	}
	return out
}

// reqWirePair: non-canonical inputs built from two shapes: concatenation (merge) and map entries
// with repeated key/value fields; and UnmarshalOptions{Merge:true} into an existing message.
func reqWirePair(c *Ctx, t *reqTarget, s1, s2 reqSetter) {
	fl0 := t.fls[len(t.fls)-1]
	defer w2aRecover(c, "C10", fl0.what())
	m1, m2 := fl0.new(), fl0.new()
	s1(m1)
	s2(m2)
	b1, e1 := w2aMarshal.Marshal(m1.Interface())
	b2, e2 := w2aMarshal.Marshal(m2.Interface())
	if e1 != nil || e2 != nil {
		return
	}
	inputs := [][]byte{w2aCat(b1, b2)}
	if x := reqMergeEntries(fl0.md, b1, b2, 3); x != nil {
		inputs = append(inputs, x)
		c.Stat("wire_merged_entries")
	}
	for _, in := range inputs {
		c.Stat("wire_input")
		for _, fl := range t.fls {
			reqDecodeChecks(c, t, fl, in, false)
		}
	}
	// Merge:true into an existing message
	for _, fl := range t.fls {
		dst, _, err := w2aBinCopy(fl, m1, true)
		if err != nil {
			continue
		}
		before := reqMissing(dst).missing
		err = proto.UnmarshalOptions{Merge: true, NoLazyDecoding: true}.Unmarshal(b2, dst.Interface())
		if err != nil && !reqIsRequiredErr(err) {
			c.PropFail("C10", "UnmarshalOptions{Merge:true} fails with another error: "+err.Error()+" "+fl.what(), HexB(b1), HexB(b2))
			continue
		}
		facts := reqMissing(dst)
		if (err != nil) != facts.missing {
			switch {
			case facts.missing && !fl.slow && before:
				c.Known("FA3", "C10", "UnmarshalOptions{Merge:true}: the fast path's initialized flag only covers the input, not what the destination already held")
				c.Stat("known_FA3")
			case facts.missing && !fl.slow && facts.allUnderCycle:
				reqKnownFA4(c)
			default:
				c.PropFail("C10", fmt.Sprintf("UnmarshalOptions{Merge:true} error=%v but a required field is missing=%v: %s", err != nil, facts.missing, fl.what()), HexB(b1), HexB(b2))
			}
		}
	}
}

// ---------------------------------------------------------------- targets

var reqRndCounter int

// reqRandomSchema: a proto2 file with one message holding up to 300 required fields (scalars and
// messages), nested messages with required fields, lists and maps of them.
func reqRandomSchema(c *Ctx) protoreflect.MessageDescriptor {
	reqRndCounter++
	pkg := fmt.Sprintf("verif.reqrnd%d", reqRndCounter)
	opt, req, rep := descriptorpb.FieldDescriptorProto_LABEL_OPTIONAL, descriptorpb.FieldDescriptorProto_LABEL_REQUIRED, descriptorpb.FieldDescriptorProto_LABEL_REPEATED
	tMsg := descriptorpb.FieldDescriptorProto_TYPE_MESSAGE
	scalars := []descriptorpb.FieldDescriptorProto_Type{descriptorpb.FieldDescriptorProto_TYPE_INT32, descriptorpb.FieldDescriptorProto_TYPE_STRING,
		descriptorpb.FieldDescriptorProto_TYPE_BOOL, descriptorpb.FieldDescriptorProto_TYPE_FIXED64, descriptorpb.FieldDescriptorProto_TYPE_BYTES,
		descriptorpb.FieldDescriptorProto_TYPE_SINT64, descriptorpb.FieldDescriptorProto_TYPE_FLOAT}
	leaf := &descriptorpb.DescriptorProto{Name: proto.String("Leaf")}
	for i := 1; i <= 1+c.Intn(3); i++ {
		l := opt
		if i == 1 || c.Bool() {
			l = req
		}
		leaf.Field = append(leaf.Field, reqhField(fmt.Sprintf("l%d", i), int32(i), l, scalars[c.Intn(len(scalars))], ""))
	}
	nreq := []int{1, 3, 10, 63, 64, 65, 70, 128, 200, 300}[c.Intn(10)]
	if c.Intn(3) == 0 {
		nreq = 1 + c.Intn(300)
	}
	top := &descriptorpb.DescriptorProto{Name: proto.String("Top")}
	num := int32(0)
	next := func() int32 {
		num += int32(1 + c.Intn(3))
		if num >= 19000 && num <= 19999 {
			num = 20000
		}
		return num
	}
	nr := 0
	for nr < nreq {
		switch c.Intn(12) {
		case 0: // optional scalar in between
			top.Field = append(top.Field, reqhField(fmt.Sprintf("o%d", len(top.Field)), next(), opt, scalars[c.Intn(len(scalars))], ""))
		case 1: // required message
			top.Field = append(top.Field, reqhField(fmt.Sprintf("rm%d", len(top.Field)), next(), req, tMsg, "."+pkg+".Leaf"))
			nr++
		default:
			top.Field = append(top.Field, reqhField(fmt.Sprintf("r%d", len(top.Field)), next(), req, scalars[c.Intn(len(scalars))], ""))
			nr++
		}
	}
	top.Field = append(top.Field, reqhField("child", next(), opt, tMsg, "."+pkg+".Leaf"))
	top.Field = append(top.Field, reqhField("list", next(), rep, tMsg, "."+pkg+".Leaf"))
	if c.Bool() {
		top.Field = append(top.Field, reqhField("self", next(), opt, tMsg, "."+pkg+".Top"))
	}
	top.NestedType = append(top.NestedType, &descriptorpb.DescriptorProto{Name: proto.String("MpEntry"), Options: &descriptorpb.MessageOptions{MapEntry: proto.Bool(true)},
		Field: []*descriptorpb.FieldDescriptorProto{reqhField("key", 1, opt, descriptorpb.FieldDescriptorProto_TYPE_STRING, ""), reqhField("value", 2, opt, tMsg, "."+pkg+".Leaf")}})
	top.Field = append(top.Field, reqhField("mp", next(), rep, tMsg, "."+pkg+".Top.MpEntry"))
	fdp := &descriptorpb.FileDescriptorProto{Name: proto.String(fmt.Sprintf("verif/reqrnd%d.proto", reqRndCounter)), Package: proto.String(pkg),
		Syntax: proto.String("proto2"), MessageType: []*descriptorpb.DescriptorProto{top, leaf}}
	fd, err := protodesc.NewFile(fdp, protoregistry.GlobalFiles)
	if err != nil {
		c.Stat("reqrnd_rejected")
		c.Sample("rejected required-field schema: " + err.Error())
		return nil
	}
	c.Stat("reqrnd_ok")
	return fd.Messages().Get(0)
}

func famReq(c *Ctx) {
	var targets []*reqTarget
	// hand-built table-driven types first (their coders must be initialised in a fixed order)
	for _, h := range reqhTypes() {
		h := h
		targets = append(targets, &reqTarget{fls: []w2aFlavour{
			{"gen", h.md, h.new, false, false},
			{"dyn", h.md, func() protoreflect.Message { return dynamicpb.NewMessage(h.md) }, true, false}}})
	}
	nh := len(targets)
	for _, mt := range msgAllTypes() {
		md := mt.Descriptor()
		if !reqReaches(md) || msgLegacyReach(md) {
			continue
		}
		targets = append(targets, &reqTarget{fls: w2aFlavoursOf(mt), lazy: msgHasLazy(md)})
	}
	c.StatN("corpus_types", len(targets)-nh)
	sort.SliceStable(targets[nh:], func(i, j int) bool { return targets[nh+i].fls[0].md.FullName() < targets[nh+j].fls[0].md.FullName() })
	nrnd := 2 + c.N/400
	for i := 0; i < nrnd; i++ {
		if md := reqRandomSchema(c); md != nil {
			md := md
			targets = append(targets, &reqTarget{fls: []w2aFlavour{{"rnd", md, func() protoreflect.Message { return dynamicpb.NewMessage(md) }, true, false}}})
		}
	}
	// boundary corpus: the minimal witnesses of the recorded findings, and their initialized twins
	corpus := []struct {
		typ string
		b   []byte
	}{
		{"verif.reqh.One", []byte{0x12, 0x00}},                                                  // FA2: non-first oneof member, partial
		{"verif.reqh.One", []byte{0x1a, 0x00}},                                                  // FA2
		{"verif.reqh.One", []byte{0x12, 0x02, 0x08, 0x01}},                                      // complete
		{"verif.reqh.One", []byte{0x22, 0x00}},                                                  // child partial (detected)
		{"verif.reqh.MapV", []byte{0x0a, 0x08, 0x08, 0x01, 0x12, 0x00, 0x12, 0x02, 0x22, 0x00}}, // FA5
		{"verif.reqh.MapV", []byte{0x0a, 0x08, 0x08, 0x01, 0x12, 0x02, 0x22, 0x00, 0x12, 0x00}}, // same, other order (detected)
		{"verif.reqh.MapV", []byte{0x0a, 0x02, 0x08, 0x01}},                                     // entry without value
		{"verif.reqh.X", []byte{0x0a, 0x06, 0x0a, 0x04, 0x0a, 0x02, 0x12, 0x00}},                // FA4
		{"verif.reqh.X", []byte{0x0a, 0x02, 0x12, 0x00}},                                        // X{a:{c:{}}} (detected)
		{"opaque.goproto.proto.testeditions.TestRequiredLazy", []byte{0x0a, 0x00}},              // FA1
		{"opaque.goproto.proto.testeditions.TestRequiredLazy", []byte{0x0a, 0x02, 0x08, 0x01}},
		{"goproto.proto.test.TestRequiredLazy", []byte{0x0a, 0x00}},
		{"verif.reqh.Flat65", []byte{0x08, 0x01}},
	}
	for _, it := range corpus {
		found := false
		for _, t := range targets {
			if string(t.fls[0].md.FullName()) != it.typ {
				continue
			}
			found = true
			t.id = msgSchemaOf(c, t.fls[0].md)
			reqEmitNi(c, t.id, t.fls[0].md)
			for _, fl := range t.fls {
				reqDecodeChecks(c, t, fl, it.b, false)
			}
		}
		if !found {
			c.PropFail("C10", "corpus type not linked: "+it.typ)
		}
	}
	// budget: c.N shapes in total, spread over the targets; small types are enumerated completely
	per := c.N / len(targets)
	if per < 8 {
		per = 8
	}
	for ti, t := range targets {
		md := t.fls[0].md
		t.id = msgSchemaOf(c, md)
		reqEmitNi(c, t.id, md)
		shapes, exhaustive := reqShapesX(c, md, 3, 400)
		c.StatN("shapes", len(shapes))
		if !exhaustive && len(shapes) > per {
			// more than the budget: the complete shape, and a seed-dependent sample of the others
			keep := []reqSetter{shapes[len(shapes)-1], shapes[0]}
			for len(keep) < per {
				keep = append(keep, shapes[c.Intn(len(shapes))])
			}
			shapes = keep
			c.Stat("types_sampled")
		} else {
			c.Stat("types_exhaustive")
		}
		for _, s := range shapes {
			for _, fl := range t.fls {
				reqOneShape(c, t, fl, s)
			}
		}
		npairs := 3
		if ti < nh {
			npairs = 12
		}
		for k := 0; k < npairs && len(shapes) > 1; k++ {
			reqWirePair(c, t, shapes[c.Intn(len(shapes))], shapes[c.Intn(len(shapes))])
		}
	}
}
