//go:build verif

package main

// family "utf8": property C13 (UTF-8 validation is enforced exactly where required).
//
// Modes (positional arguments after the flags; default "valid"):
//
//	valid              utf8.Valid against the model on exhaustive/structured/random byte strings
//	pos <i> <k> [all]  every string/bytes position of the corpus message types whose index
//	                   is congruent i mod k: every codec, a valid and an ill-formed string
//
// C lines:
//
//	valid <bytes> | 0/1
//	dec <bytes> | <rune> <size>                                           utf8.DecodeRune
//	enforce <legacy> <syntax> <hasmethod> <validated> | 0/1               strs.EnforceUTF8
//	validated <syntax> <override>... | 0/1                                filedesc IsUTF8Validated (hand-built descriptors)
//	pos <codec> <kind> <poskind> <legacy> <syn> <hasm> <val> <msyn> <mhasm> <mval> <bytes> | rej / ok <bytes>

import (
	"encoding/base64"
	"fmt"
	"sort"
	"strings"
	"unicode/utf8"

	"google.golang.org/protobuf/encoding/protojson"
	"google.golang.org/protobuf/encoding/prototext"
	"google.golang.org/protobuf/encoding/protowire"
	"google.golang.org/protobuf/internal/filedesc"
	"google.golang.org/protobuf/internal/flags"
	"google.golang.org/protobuf/internal/impl"
	"google.golang.org/protobuf/internal/strs"
	"google.golang.org/protobuf/proto"
	"google.golang.org/protobuf/reflect/protodesc"
	"google.golang.org/protobuf/reflect/protoreflect"
	"google.golang.org/protobuf/reflect/protoregistry"
	"google.golang.org/protobuf/runtime/protoiface"
	"google.golang.org/protobuf/types/descriptorpb"
	"google.golang.org/protobuf/types/dynamicpb"

	_ "google.golang.org/protobuf/internal/testprotos/annotation"
	_ "google.golang.org/protobuf/internal/testprotos/benchmarks"
	_ "google.golang.org/protobuf/internal/testprotos/benchmarks/datasets/google_message1/proto2"
	_ "google.golang.org/protobuf/internal/testprotos/benchmarks/datasets/google_message1/proto3"
	_ "google.golang.org/protobuf/internal/testprotos/benchmarks/datasets/google_message2"
	_ "google.golang.org/protobuf/internal/testprotos/benchmarks/datasets/google_message3"
	_ "google.golang.org/protobuf/internal/testprotos/benchmarks/datasets/google_message4"
	_ "google.golang.org/protobuf/internal/testprotos/benchmarks/micro"
	_ "google.golang.org/protobuf/internal/testprotos/conformance"
	_ "google.golang.org/protobuf/internal/testprotos/conformance/editions"
	_ "google.golang.org/protobuf/internal/testprotos/conformance/editionsmigration"
	_ "google.golang.org/protobuf/internal/testprotos/conformance/editionunstable"
	_ "google.golang.org/protobuf/internal/testprotos/editionsfuzztest"
	_ "google.golang.org/protobuf/internal/testprotos/enums"
	_ "google.golang.org/protobuf/internal/testprotos/enums/enums_hybrid"
	_ "google.golang.org/protobuf/internal/testprotos/enums/enums_opaque"
	_ "google.golang.org/protobuf/internal/testprotos/examples/ext"
	_ "google.golang.org/protobuf/internal/testprotos/fieldtrack"
	_ "google.golang.org/protobuf/internal/testprotos/fuzz"
	_ "google.golang.org/protobuf/internal/testprotos/lazy"
	_ "google.golang.org/protobuf/internal/testprotos/lazy/lazy_hybrid"
	_ "google.golang.org/protobuf/internal/testprotos/lazy/lazy_opaque"
	_ "google.golang.org/protobuf/internal/testprotos/legacy"
	_ "google.golang.org/protobuf/internal/testprotos/legacy/proto2_20160225_2fc053c5"
	_ "google.golang.org/protobuf/internal/testprotos/legacy/proto2_20160519_a4ab9ec5"
	_ "google.golang.org/protobuf/internal/testprotos/legacy/proto2_20180125_92554152"
	_ "google.golang.org/protobuf/internal/testprotos/legacy/proto2_20180430_b4deda09"
	_ "google.golang.org/protobuf/internal/testprotos/legacy/proto2_20180814_aa810b61"
	_ "google.golang.org/protobuf/internal/testprotos/legacy/proto2_20190205_c823c79e"
	_ "google.golang.org/protobuf/internal/testprotos/legacy/proto3_20160225_2fc053c5"
	_ "google.golang.org/protobuf/internal/testprotos/legacy/proto3_20160519_a4ab9ec5"
	_ "google.golang.org/protobuf/internal/testprotos/legacy/proto3_20180125_92554152"
	_ "google.golang.org/protobuf/internal/testprotos/legacy/proto3_20180430_b4deda09"
	_ "google.golang.org/protobuf/internal/testprotos/legacy/proto3_20180814_aa810b61"
	_ "google.golang.org/protobuf/internal/testprotos/legacy/proto3_20190205_c823c79e"
	_ "google.golang.org/protobuf/internal/testprotos/messageset/messagesetpb"
	_ "google.golang.org/protobuf/internal/testprotos/messageset/messagesetpb/messagesetpb_hybrid"
	_ "google.golang.org/protobuf/internal/testprotos/messageset/messagesetpb/messagesetpb_opaque"
	_ "google.golang.org/protobuf/internal/testprotos/messageset/msetextpb"
	_ "google.golang.org/protobuf/internal/testprotos/messageset/msetextpb/msetextpb_hybrid"
	_ "google.golang.org/protobuf/internal/testprotos/messageset/msetextpb/msetextpb_opaque"
	_ "google.golang.org/protobuf/internal/testprotos/mixed"
	_ "google.golang.org/protobuf/internal/testprotos/news"
	_ "google.golang.org/protobuf/internal/testprotos/order"
	_ "google.golang.org/protobuf/internal/testprotos/registry"
	_ "google.golang.org/protobuf/internal/testprotos/required"
	_ "google.golang.org/protobuf/internal/testprotos/required/required_hybrid"
	_ "google.golang.org/protobuf/internal/testprotos/required/required_opaque"
	_ "google.golang.org/protobuf/internal/testprotos/test"
	_ "google.golang.org/protobuf/internal/testprotos/test/test_nopackage"
	_ "google.golang.org/protobuf/internal/testprotos/test/test_option"
	_ "google.golang.org/protobuf/internal/testprotos/test3"
	_ "google.golang.org/protobuf/internal/testprotos/test3/test3_hybrid"
	_ "google.golang.org/protobuf/internal/testprotos/test3/test3_opaque"
	_ "google.golang.org/protobuf/internal/testprotos/testeditions"
	_ "google.golang.org/protobuf/internal/testprotos/testeditions/testeditions_hybrid"
	_ "google.golang.org/protobuf/internal/testprotos/testeditions/testeditions_opaque"
	_ "google.golang.org/protobuf/internal/testprotos/textpb2"
	_ "google.golang.org/protobuf/internal/testprotos/textpb3"
	_ "google.golang.org/protobuf/internal/testprotos/textpbeditions"
	_ "google.golang.org/protobuf/internal/testprotos/textpbeditions/textpbeditions_hybrid"
	_ "google.golang.org/protobuf/internal/testprotos/textpbeditions/textpbeditions_opaque"
	_ "google.golang.org/protobuf/types/gofeaturespb"
	_ "google.golang.org/protobuf/types/known/anypb"
	_ "google.golang.org/protobuf/types/known/apipb"
	_ "google.golang.org/protobuf/types/known/durationpb"
	_ "google.golang.org/protobuf/types/known/emptypb"
	_ "google.golang.org/protobuf/types/known/fieldmaskpb"
	_ "google.golang.org/protobuf/types/known/sourcecontextpb"
	_ "google.golang.org/protobuf/types/known/structpb"
	_ "google.golang.org/protobuf/types/known/timestamppb"
	_ "google.golang.org/protobuf/types/known/typepb"
	_ "google.golang.org/protobuf/types/known/wrapperspb"
	_ "google.golang.org/protobuf/types/pluginpb"
)

func init() {
	// bin/check names the case file of a run after (family, seed, shard); runs of one property that
	// differ only in their arguments would collide, so every slice of the position sweep is
	// registered as a family of its own.  All of them print C lines of family "utf8".
	Register("utf8", func(c *Ctx) { utf8ModeValid(c) })
	for i := 0; i < 4; i++ {
		i := i
		Register(fmt.Sprintf("utf8p%d", i), func(c *Ctx) { utf8ModePos(c, i, 4) })
	}
	for i := 0; i < 2; i++ {
		i := i
		Register(fmt.Sprintf("utf8q%d", i), func(c *Ctx) { utf8ModePos(c, i, 2) })
	}
}

// ---------------------------------------------------------------- mode valid

// utf8RefValid is an independent statement of Unicode table 3-7 (well-formed UTF-8 byte
// sequences): decode a scalar value by the bit layout, require it to be a scalar value
// and the encoding to be the shortest one.
func utf8RefValid(b []byte) bool {
	for len(b) > 0 {
		b0 := b[0]
		var n int
		var r, min uint32
		switch {
		case b0 < 0x80:
			b = b[1:]
			continue
		case b0&0xE0 == 0xC0:
			n, r, min = 2, uint32(b0&0x1F), 0x80
		case b0&0xF0 == 0xE0:
			n, r, min = 3, uint32(b0&0x0F), 0x800
		case b0&0xF8 == 0xF0:
			n, r, min = 4, uint32(b0&0x07), 0x10000
		default:
			return false
		}
		if len(b) < n {
			return false
		}
		for i := 1; i < n; i++ {
			if b[i]&0xC0 != 0x80 {
				return false
			}
			r = r<<6 | uint32(b[i]&0x3F)
		}
		if r < min || r > 0x10FFFF || (r >= 0xD800 && r <= 0xDFFF) {
			return false
		}
		b = b[n:]
	}
	return true
}

func utf8CaseValid(c *Ctx, b []byte) {
	v := utf8.Valid(b)
	c.Case("utf8", "valid", []string{HexB(b)}, []string{Tok(v)})
	if v {
		c.Stat("valid:1")
	} else {
		c.Stat("valid:0")
	}
	if v != utf8RefValid(b) {
		c.PropFail("C13", "utf8.Valid disagrees with Unicode table 3-7", HexB(b))
	}
	if v != utf8.ValidString(string(b)) {
		c.PropFail("C13", "utf8.Valid and utf8.ValidString disagree", HexB(b))
	}
}

func utf8CaseDec(c *Ctx, b []byte) {
	r, n := utf8.DecodeRune(b)
	c.Case("utf8", "dec", []string{HexB(b)}, []string{HexN(uint64(r)), HexN(uint64(n))})
}

var utf8BoundaryRunes = []rune{0, 1, 0x7f, 0x80, 0x7ff, 0x800, 0xfff, 0x1000, 0xcfff, 0xd000, 0xd7ff, 0xe000, 0xfffd, 0xffff,
	0x10000, 0x3ffff, 0x40000, 0xfffff, 0x100000, 0x10ffff}

// raw (unchecked) encodings used to build overlong forms, surrogates and > U+10FFFF
func utf8Raw2(r uint32) []byte { return []byte{0xC0 | byte(r>>6), 0x80 | byte(r&0x3F)} }
func utf8Raw3(r uint32) []byte {
	return []byte{0xE0 | byte(r>>12), 0x80 | byte(r>>6&0x3F), 0x80 | byte(r&0x3F)}
}
func utf8Raw4(r uint32) []byte {
	return []byte{0xF0 | byte(r>>18), 0x80 | byte(r>>12&0x3F), 0x80 | byte(r>>6&0x3F), 0x80 | byte(r&0x3F)}
}

var utf8BadSeqs = [][]byte{
	{0x80}, {0xbf}, {0xc0, 0x80}, {0xc1, 0xbf}, {0xc0, 0xaf}, {0xe0, 0x80, 0x80}, {0xe0, 0x9f, 0xbf}, {0xf0, 0x80, 0x80, 0x80},
	{0xf0, 0x8f, 0xbf, 0xbf}, {0xed, 0xa0, 0x80}, {0xed, 0xbf, 0xbf}, {0xed, 0xa0, 0x80, 0xed, 0xb0, 0x80},
	{0xf4, 0x90, 0x80, 0x80}, {0xf5, 0x80, 0x80, 0x80}, {0xf7, 0xbf, 0xbf, 0xbf}, {0xf8, 0x88, 0x80, 0x80, 0x80},
	{0xfe}, {0xff}, {0xc2}, {0xe2, 0x82}, {0xf0, 0x9f, 0x98}, {0xf0, 0x9f}, {0xf0}, {0xe2, 0x28, 0xa1}, {0xe2, 0x82, 0x28},
	{0xf0, 0x28, 0x8c, 0xbc}, {0xf0, 0x90, 0x28, 0xbc}, {0xf0, 0x28, 0x8c, 0x28}, {0xc3, 0x28}, {0xa0, 0xa1},
}

// utf8GenString: mostly-valid strings with ill-formed pieces mixed in.
func utf8GenString(c *Ctx) []byte {
	var b []byte
	n := c.Intn(6)
	for i := 0; i <= n; i++ {
		switch c.Intn(10) {
		case 0, 1:
			for k := c.Intn(10); k >= 0; k-- {
				b = append(b, byte(0x20+c.Intn(0x5f)))
			}
		case 2, 3, 4:
			var r rune
			switch c.Intn(4) {
			case 0:
				r = utf8BoundaryRunes[c.Intn(len(utf8BoundaryRunes))]
			case 1:
				r = rune(c.Intn(0x800))
			case 2:
				r = rune(c.Intn(0x10000))
			default:
				r = rune(c.Intn(0x110000))
			}
			if r >= 0xd800 && r < 0xe000 {
				b = append(b, utf8Raw3(uint32(r))...) // a surrogate, raw
			} else {
				b = utf8.AppendRune(b, r)
			}
		case 5:
			b = append(b, utf8BadSeqs[c.Intn(len(utf8BadSeqs))]...)
		case 6:
			b = append(b, c.Bytes(1+c.Intn(4))...)
		case 7: // raw encodings around the limits
			v := uint32(c.Intn(0x200000))
			switch c.Intn(3) {
			case 0:
				b = append(b, utf8Raw2(v&0x7ff)...)
			case 1:
				b = append(b, utf8Raw3(v&0xffff)...)
			default:
				b = append(b, utf8Raw4(v)...)
			}
		case 8: // truncate what we have
			if len(b) > 0 {
				b = b[:len(b)-1]
			}
		default: // flip a bit
			if len(b) > 0 {
				b[c.Intn(len(b))] ^= 1 << c.Intn(8)
			}
		}
	}
	return b
}

func utf8ModeValid(c *Ctx) {
	// boundary corpus first
	utf8CaseValid(c, nil)
	for _, s := range utf8BadSeqs {
		utf8CaseValid(c, s)
		utf8CaseDec(c, s)
	}
	for _, r := range utf8BoundaryRunes {
		b := utf8.AppendRune(nil, r)
		utf8CaseValid(c, b)
		utf8CaseDec(c, b)
		utf8CaseValid(c, b[:len(b)-1])
		// overlong forms of the same value
		if r < 0x80 {
			utf8CaseValid(c, utf8Raw2(uint32(r)))
		}
		if r < 0x800 {
			utf8CaseValid(c, utf8Raw3(uint32(r)))
		}
		if r < 0x10000 {
			utf8CaseValid(c, utf8Raw4(uint32(r)))
		}
		// the ASCII fast path: the sequence at every offset around the 8-byte blocks
		for pre := 0; pre <= 17; pre++ {
			for _, post := range []int{0, 1, 7, 8, 9} {
				s := append([]byte(strings.Repeat("a", pre)), b...)
				s = append(s, strings.Repeat("z", post)...)
				utf8CaseValid(c, s)
				s2 := append([]byte(strings.Repeat("a", pre)), b[:len(b)-1]...)
				s2 = append(s2, strings.Repeat("z", post)...)
				utf8CaseValid(c, s2)
			}
		}
	}
	for _, r := range []uint32{0xd800, 0xdbff, 0xdc00, 0xdfff} {
		utf8CaseValid(c, utf8Raw3(r))
	}
	for _, r := range []uint32{0x110000, 0x13ffff, 0x140000, 0x1fffff} {
		utf8CaseValid(c, utf8Raw4(r))
	}
	// all 1- and 2-byte strings
	for i := 0; i < 256; i++ {
		utf8CaseValid(c, []byte{byte(i)})
		utf8CaseDec(c, []byte{byte(i)})
	}
	for i := 0; i < 65536; i++ {
		utf8CaseValid(c, []byte{byte(i >> 8), byte(i)})
	}
	// 3- and 4-byte strings: every lead byte >= 0xE0, every second byte, continuation-range edges after it
	edge := []byte{0x00, 0x7f, 0x80, 0xbf, 0xc0, 0xff}
	for b0 := 0xe0; b0 <= 0xff; b0++ {
		for b1 := 0; b1 < 256; b1++ {
			for _, b2 := range edge {
				utf8CaseValid(c, []byte{byte(b0), byte(b1), b2})
				if b0 >= 0xf0 && (b1 == 0x7f || (b1 >= 0x80 && b1 <= 0xc0 && b1%8 == 0) || b1 == 0x8f || b1 == 0x90 || b1 == 0xbf) {
					for _, b3 := range edge {
						utf8CaseValid(c, []byte{byte(b0), byte(b1), b2, b3})
					}
				}
			}
			if b1%16 == 0 || b1 == 0x9f || b1 == 0xa0 || b1 == 0x8f || b1 == 0xbf {
				utf8CaseDec(c, []byte{byte(b0), byte(b1), 0x80, 0x80})
				utf8CaseDec(c, []byte{byte(b0), byte(b1), 0xbf})
				utf8CaseDec(c, []byte{byte(b0), byte(b1)})
			}
		}
	}
	// random structured
	for i := 0; i < c.N; i++ {
		b := utf8GenString(c)
		utf8CaseValid(c, b)
		if i%4 == 0 {
			utf8CaseDec(c, b)
		}
	}
}

// ---------------------------------------------------------------- mode pos

const (
	utf8PSingular = iota
	utf8POptional
	utf8PRepeated
	utf8POneof
	utf8PMapKey
	utf8PMapValue
	utf8PExtension
	utf8PExtensionList
	utf8PAnyTypeUrl
)

var utf8PosNames = []string{"singular", "optional", "repeated", "oneof", "mapkey", "mapvalue", "ext", "extlist", "anytypeurl"}

const (
	utf8CBinMarshalFast = iota
	utf8CBinMarshalSlow
	utf8CBinUnmarshalFast
	utf8CBinUnmarshalSlow
	utf8CValidator
	utf8CJsonMarshal
	utf8CJsonUnmarshal
	utf8CTextMarshal
	utf8CTextUnmarshalEsc
	utf8CTextUnmarshalRaw
)

type utf8Position struct {
	name string                        // for samples / failures
	md   protoreflect.MessageDescriptor // message that holds the position (extendee for extensions)
	mt   protoreflect.MessageType       // generated type, nil for hand-built descriptors
	fd   protoreflect.FieldDescriptor   // the field or extension
	pfd  protoreflect.FieldDescriptor   // descriptor of the position itself (fd, or fd.MapKey()/fd.MapValue())
	pos  int
	kind int // 0 string, 1 bytes
}

func utf8PositionsOf(md protoreflect.MessageDescriptor, mt protoreflect.MessageType, out []utf8Position) []utf8Position {
	fds := md.Fields()
	for i := 0; i < fds.Len(); i++ {
		out = utf8PositionsOfField(md, mt, fds.Get(i), false, out)
	}
	return out
}

func utf8KindOf(fd protoreflect.FieldDescriptor) int {
	switch fd.Kind() {
	case protoreflect.StringKind:
		return 0
	case protoreflect.BytesKind:
		return 1
	}
	return -1
}

func utf8PositionsOfField(md protoreflect.MessageDescriptor, mt protoreflect.MessageType, fd protoreflect.FieldDescriptor, ext bool, out []utf8Position) []utf8Position {
	base := string(md.FullName()) + "/" + string(fd.FullName())
	switch {
	case fd.IsMap():
		if k := utf8KindOf(fd.MapKey()); k >= 0 {
			out = append(out, utf8Position{base + "[key]", md, mt, fd, fd.MapKey(), utf8PMapKey, k})
		}
		if k := utf8KindOf(fd.MapValue()); k >= 0 {
			out = append(out, utf8Position{base + "[value]", md, mt, fd, fd.MapValue(), utf8PMapValue, k})
		}
	case utf8KindOf(fd) < 0:
	case fd.FullName() == "google.protobuf.Any.type_url":
		out = append(out, utf8Position{base, md, mt, fd, fd, utf8PAnyTypeUrl, 0})
	case ext && fd.IsList():
		out = append(out, utf8Position{base, md, mt, fd, fd, utf8PExtensionList, utf8KindOf(fd)})
	case ext:
		out = append(out, utf8Position{base, md, mt, fd, fd, utf8PExtension, utf8KindOf(fd)})
	case fd.IsList():
		out = append(out, utf8Position{base, md, mt, fd, fd, utf8PRepeated, utf8KindOf(fd)})
	case fd.ContainingOneof() != nil && !fd.ContainingOneof().IsSynthetic():
		out = append(out, utf8Position{base, md, mt, fd, fd, utf8POneof, utf8KindOf(fd)})
	case fd.HasPresence():
		out = append(out, utf8Position{base, md, mt, fd, fd, utf8POptional, utf8KindOf(fd)})
	default:
		out = append(out, utf8Position{base, md, mt, fd, fd, utf8PSingular, utf8KindOf(fd)})
	}
	return out
}

// utf8CorpusPositions enumerates every string/bytes position of every linked message type
// and extension, in a deterministic order.
func utf8CorpusPositions() []utf8Position {
	var mts []protoreflect.MessageType
	protoregistry.GlobalTypes.RangeMessages(func(mt protoreflect.MessageType) bool {
		if !mt.Descriptor().IsMapEntry() {
			mts = append(mts, mt)
		}
		return true
	})
	sort.Slice(mts, func(i, j int) bool { return mts[i].Descriptor().FullName() < mts[j].Descriptor().FullName() })
	var out []utf8Position
	for _, mt := range mts {
		out = utf8PositionsOf(mt.Descriptor(), mt, out)
	}
	var xts []protoreflect.ExtensionType
	protoregistry.GlobalTypes.RangeExtensions(func(xt protoreflect.ExtensionType) bool {
		xts = append(xts, xt)
		return true
	})
	sort.Slice(xts, func(i, j int) bool { return xts[i].TypeDescriptor().FullName() < xts[j].TypeDescriptor().FullName() })
	for _, xt := range xts {
		xd := xt.TypeDescriptor()
		emd := xd.ContainingMessage()
		mt, err := protoregistry.GlobalTypes.FindMessageByName(emd.FullName())
		if err != nil {
			continue
		}
		out = utf8PositionsOfField(mt.Descriptor(), mt, xd, true, out)
	}
	return out
}

func utf8Syntax(fd protoreflect.FieldDescriptor) string {
	switch fd.Syntax() {
	case protoreflect.Proto2:
		return "2"
	case protoreflect.Proto3:
		return "3"
	}
	return "e"
}

// utf8Facts: what strs.EnforceUTF8 reads of a descriptor.
func utf8Facts(fd protoreflect.FieldDescriptor) (syn, hasm, val string) {
	syn = utf8Syntax(fd)
	if e, ok := fd.(interface{ EnforceUTF8() bool }); ok {
		return syn, "1", Tok(e.EnforceUTF8())
	}
	return syn, "0", "0"
}

// utf8WantEnforce states the property's own notion of "requires UTF-8 validation", independently of
// strs.EnforceUTF8: proto3, or editions with utf8_validation = VERIFY; under -tags protolegacy the
// resolved feature / enforce_utf8 option decides for proto2 and proto3 as well.
func utf8WantEnforce(fd protoreflect.FieldDescriptor) bool {
	v, hasV := fd.(interface{ EnforceUTF8() bool })
	switch {
	case fd.Syntax() == protoreflect.Editions && hasV:
		return v.EnforceUTF8()
	case flags.ProtoLegacy && hasV:
		return v.EnforceUTF8()
	}
	return fd.Syntax() == protoreflect.Proto3
}

func utf8Value(kind int, bs []byte) protoreflect.Value {
	if kind == 0 {
		return protoreflect.ValueOfString(string(bs))
	}
	return protoreflect.ValueOfBytes(append([]byte{}, bs...))
}

func utf8ValueBytes(kind int, v protoreflect.Value) []byte {
	if kind == 0 {
		return []byte(v.String())
	}
	return v.Bytes()
}

func utf8DefaultMapValue(mp protoreflect.Map, vfd protoreflect.FieldDescriptor) protoreflect.Value {
	if vfd.Message() != nil {
		v := mp.NewValue()
		if vfd.Message().FullName() == "google.protobuf.Value" {
			// an empty Value has no JSON form
			v.Message().Set(vfd.Message().Fields().ByName("bool_value"), protoreflect.ValueOfBool(true))
		}
		return v
	}
	if vfd.Kind() == protoreflect.BytesKind {
		return protoreflect.ValueOfBytes(nil)
	}
	return vfd.Default()
}

// utf8Put stores bs at position p of m.
func utf8Put(m protoreflect.Message, p utf8Position, bs []byte) {
	v := utf8Value(p.kind, bs)
	switch p.pos {
	case utf8PMapKey:
		mp := m.Mutable(p.fd).Map()
		mp.Set(v.MapKey(), utf8DefaultMapValue(mp, p.fd.MapValue()))
	case utf8PMapValue:
		mp := m.Mutable(p.fd).Map()
		mp.Set(p.fd.MapKey().Default().MapKey(), v)
	case utf8PRepeated, utf8PExtensionList:
		m.Mutable(p.fd).List().Append(v)
	default:
		m.Set(p.fd, v)
	}
}

// utf8Take reads the bytes at position p of m back.
func utf8Take(m protoreflect.Message, p utf8Position) ([]byte, bool) {
	fd := p.fd
	if !m.Has(fd) {
		// implicit presence: the empty string is not "has"
		if p.pos == utf8PSingular || p.pos == utf8POptional || p.pos == utf8POneof || p.pos == utf8PExtension || p.pos == utf8PAnyTypeUrl {
			return utf8ValueBytes(p.kind, m.Get(fd)), !fd.HasPresence()
		}
		return nil, false
	}
	switch p.pos {
	case utf8PMapKey:
		var out []byte
		n := 0
		m.Get(fd).Map().Range(func(k protoreflect.MapKey, _ protoreflect.Value) bool {
			out = []byte(k.String())
			n++
			return true
		})
		return out, n == 1
	case utf8PMapValue:
		var out []byte
		n := 0
		m.Get(fd).Map().Range(func(_ protoreflect.MapKey, v protoreflect.Value) bool {
			out = utf8ValueBytes(p.kind, v)
			n++
			return true
		})
		return out, n == 1
	case utf8PRepeated, utf8PExtensionList:
		l := m.Get(fd).List()
		if l.Len() != 1 {
			return nil, false
		}
		return utf8ValueBytes(p.kind, l.Get(0)), true
	}
	return utf8ValueBytes(p.kind, m.Get(fd)), true
}

// utf8Wire hand-builds the wire encoding of a message that holds bs at position p.
func utf8Wire(p utf8Position, bs []byte) []byte {
	var b []byte
	switch p.pos {
	case utf8PMapKey:
		e := protowire.AppendTag(nil, 1, protowire.BytesType)
		e = protowire.AppendBytes(e, bs)
		b = protowire.AppendTag(b, p.fd.Number(), protowire.BytesType)
		b = protowire.AppendBytes(b, e)
	case utf8PMapValue:
		e := protowire.AppendTag(nil, 2, protowire.BytesType)
		e = protowire.AppendBytes(e, bs)
		b = protowire.AppendTag(b, p.fd.Number(), protowire.BytesType)
		b = protowire.AppendBytes(b, e)
	default:
		b = protowire.AppendTag(b, p.fd.Number(), protowire.BytesType)
		b = protowire.AppendBytes(b, bs)
	}
	return b
}

// utf8Unwire reads the bytes at position p out of a wire encoding without any validation.
func utf8Unwire(p utf8Position, b []byte) ([]byte, bool) {
	find := func(b []byte, want protowire.Number) ([]byte, int) {
		var out []byte
		n := 0
		for len(b) > 0 {
			num, typ, tn := protowire.ConsumeTag(b)
			if tn < 0 {
				return nil, -1
			}
			b = b[tn:]
			if num == want && typ == protowire.BytesType {
				v, vn := protowire.ConsumeBytes(b)
				if vn < 0 {
					return nil, -1
				}
				out = v
				n++
				b = b[vn:]
				continue
			}
			vn := protowire.ConsumeFieldValue(num, typ, b)
			if vn < 0 {
				return nil, -1
			}
			b = b[vn:]
		}
		return out, n
	}
	v, n := find(b, p.fd.Number())
	if n == 0 && (p.pos == utf8PSingular || p.pos == utf8PAnyTypeUrl) {
		return nil, true // implicit presence: the empty value is not encoded
	}
	if n != 1 {
		return nil, false
	}
	switch p.pos {
	case utf8PMapKey:
		k, kn := find(v, 1)
		return k, kn == 1 || (kn == 0 && len(k) == 0)
	case utf8PMapValue:
		e, en := find(v, 2)
		return e, en == 1
	}
	return v, true
}

func utf8New(p utf8Position, dyn bool) protoreflect.Message {
	if dyn || p.mt == nil {
		return dynamicpb.NewMessage(p.md)
	}
	return p.mt.New()
}

func utf8IsFast(m protoreflect.Message) bool {
	pm := m.ProtoMethods()
	return pm != nil && pm.Marshal != nil && pm.Unmarshal != nil
}

const utf8Placeholder = "zqplaceholderqz"

var utf8MarshalOpts = proto.MarshalOptions{AllowPartial: true}
var utf8UnmarshalOpts = proto.UnmarshalOptions{AllowPartial: true}

// classification of an error: "rej" = reported as invalid UTF-8, "err" = anything else
func utf8ErrClass(err error) string {
	if strings.Contains(err.Error(), "invalid UTF-8") {
		return "rej"
	}
	return "err:" + strings.ReplaceAll(strings.ReplaceAll(err.Error(), "\t", " "), "\n", " ")
}

func utf8JSONEscape(bs []byte) string {
	var sb strings.Builder
	for _, ch := range bs {
		if ch < 0x20 || ch == '"' || ch == '\\' {
			fmt.Fprintf(&sb, "\\u%04x", ch)
		} else {
			sb.WriteByte(ch)
		}
	}
	return sb.String()
}

func utf8TextEscape(bs []byte, raw bool) string {
	var sb strings.Builder
	for _, ch := range bs {
		if ch < 0x20 || ch == '"' || ch == '\\' || ch == '\'' || ch == 0x7f || (!raw && ch >= 0x80) {
			fmt.Fprintf(&sb, "\\x%02x", ch)
		} else {
			sb.WriteByte(ch)
		}
	}
	return sb.String()
}

func utf8SkipJSON(md protoreflect.MessageDescriptor) bool {
	switch md.FullName() {
	case "google.protobuf.Any", "google.protobuf.FieldMask", "google.protobuf.Timestamp", "google.protobuf.Duration":
		return true
	}
	return false
}

// utf8RunCodec runs one codec on bs at position p; returns the observation tokens, or nil when the
// codec does not apply to the position (e.g. no generated type for a hand-built descriptor).
func utf8RunCodec(c *Ctx, p utf8Position, codec int, bs []byte) (obs []string) {
	defer func() {
		if r := recover(); r != nil {
			obs = []string{"panic"}
			c.PropFail("C13", fmt.Sprintf("codec %d panicked at %s: %v", codec, p.name, r), HexB(bs))
		}
	}()
	ok := func(m protoreflect.Message) []string {
		got, has := utf8Take(m, p)
		if !has {
			return []string{"lost"}
		}
		return []string{"ok", HexB(got)}
	}
	switch codec {
	case utf8CBinMarshalFast, utf8CBinMarshalSlow:
		m := utf8New(p, codec == utf8CBinMarshalSlow)
		if utf8IsFast(m) != (codec == utf8CBinMarshalFast) {
			return nil
		}
		utf8Put(m, p, bs)
		out, err := utf8MarshalOpts.Marshal(m.Interface())
		if err != nil {
			return []string{utf8ErrClass(err)}
		}
		if sz := utf8MarshalOpts.Size(m.Interface()); sz != len(out) {
			c.PropFail("C13", fmt.Sprintf("Size %d != len(Marshal) %d at %s", sz, len(out), p.name), HexB(bs))
		}
		// read the position back from the wire without any validation
		got, has := utf8Unwire(p, out)
		if !has {
			return []string{"lost"}
		}
		return []string{"ok", HexB(got)}
	case utf8CBinUnmarshalFast, utf8CBinUnmarshalSlow:
		m := utf8New(p, codec == utf8CBinUnmarshalSlow)
		if utf8IsFast(m) != (codec == utf8CBinUnmarshalFast) {
			return nil
		}
		if err := utf8UnmarshalOpts.Unmarshal(utf8Wire(p, bs), m.Interface()); err != nil {
			return []string{utf8ErrClass(err)}
		}
		return ok(m)
	case utf8CValidator:
		if p.mt == nil {
			return nil
		}
		if _, isMI := p.mt.(*impl.MessageInfo); !isMI {
			return nil
		}
		_, st := impl.Validate(p.mt, protoiface.UnmarshalInput{Buf: utf8Wire(p, bs)})
		switch st {
		case impl.ValidationInvalid:
			return []string{"rej"}
		case impl.ValidationValid:
			return []string{"ok", HexB(bs)}
		}
		return []string{"unknown"}
	case utf8CJsonMarshal:
		if utf8SkipJSON(p.md) {
			return nil
		}
		m := utf8New(p, false)
		utf8Put(m, p, bs)
		out, err := protojson.MarshalOptions{AllowPartial: true}.Marshal(m.Interface())
		if err != nil {
			return []string{utf8ErrClass(err)}
		}
		m2 := utf8New(p, false)
		if err := (protojson.UnmarshalOptions{AllowPartial: true}).Unmarshal(out, m2.Interface()); err != nil {
			return []string{"reread-" + utf8ErrClass(err)}
		}
		return ok(m2)
	case utf8CJsonUnmarshal:
		if utf8SkipJSON(p.md) {
			return nil
		}
		m := utf8New(p, false)
		utf8Put(m, p, []byte(utf8Placeholder))
		tmpl, err := protojson.MarshalOptions{AllowPartial: true}.Marshal(m.Interface())
		if err != nil {
			return nil
		}
		var doc string
		if p.kind == 0 {
			if strings.Count(string(tmpl), utf8Placeholder) != 1 {
				return nil
			}
			doc = strings.Replace(string(tmpl), utf8Placeholder, utf8JSONEscape(bs), 1)
		} else {
			ph := base64.StdEncoding.EncodeToString([]byte(utf8Placeholder))
			if strings.Count(string(tmpl), ph) != 1 {
				return nil
			}
			doc = strings.Replace(string(tmpl), ph, base64.StdEncoding.EncodeToString(bs), 1)
		}
		m2 := utf8New(p, false)
		if err := (protojson.UnmarshalOptions{AllowPartial: true}).Unmarshal([]byte(doc), m2.Interface()); err != nil {
			return []string{utf8ErrClass(err)}
		}
		return ok(m2)
	case utf8CTextMarshal:
		m := utf8New(p, false)
		utf8Put(m, p, bs)
		out, err := prototext.MarshalOptions{AllowPartial: true}.Marshal(m.Interface())
		if err != nil {
			return []string{utf8ErrClass(err)}
		}
		m2 := utf8New(p, false)
		if err := (prototext.UnmarshalOptions{AllowPartial: true}).Unmarshal(out, m2.Interface()); err != nil {
			return []string{"reread-" + utf8ErrClass(err)}
		}
		return ok(m2)
	case utf8CTextUnmarshalEsc, utf8CTextUnmarshalRaw:
		m := utf8New(p, false)
		utf8Put(m, p, []byte(utf8Placeholder))
		tmpl, err := prototext.MarshalOptions{AllowPartial: true}.Marshal(m.Interface())
		if err != nil || strings.Count(string(tmpl), utf8Placeholder) != 1 {
			return nil
		}
		doc := strings.Replace(string(tmpl), utf8Placeholder, utf8TextEscape(bs, codec == utf8CTextUnmarshalRaw), 1)
		m2 := utf8New(p, false)
		if err := (prototext.UnmarshalOptions{AllowPartial: true}).Unmarshal([]byte(doc), m2.Interface()); err != nil {
			return []string{utf8ErrClass(err)}
		}
		return ok(m2)
	}
	return nil
}

var utf8PosInvalid = [][]byte{{0xff}, {'a', 0xff, 'b'}, {0xc0, 0xaf}, {0xed, 0xa0, 0x80}, {0xf4, 0x90, 0x80, 0x80}, {0xe2, 0x82},
	{'x', 0xf0, 0x9f, 0x98}, {0x80}, {0xe0, 0x9f, 0xbf}, {0xf0, 0x8f, 0xbf, 0xbf}, {0xed, 0xbf, 0xbf}, {'1', '2', '3', '4', '5', '6', '7', '8', 0xc1, 0xbf}}
var utf8PosValid = [][]byte{[]byte("a"), {0xc3, 0xa9}, {0xe2, 0x82, 0xac}, {0xf4, 0x8f, 0xbf, 0xbf}, {0xef, 0xbf, 0xbd}, {0xed, 0x9f, 0xbf},
	{0xee, 0x80, 0x80}, {0xf0, 0x90, 0x80, 0x80}, []byte("12345678\xc2\x80"), {'q', 0x7f, '"', '\\', '\'', 0x01}, {0xdf, 0xbf, 0xe0, 0xa0, 0x80}}

// utf8CheckPosition runs every codec on bs at p, prints the C lines and evaluates the property.
func utf8CheckPosition(c *Ctx, p utf8Position, bs []byte) {
	legacy := Tok(flags.ProtoLegacy)
	syn, hasm, val := utf8Facts(p.pfd)
	msyn, mhasm, mval := utf8Facts(p.fd)
	valid := utf8.Valid(bs)
	enfSelf := utf8WantEnforce(p.pfd)
	enfMap := utf8WantEnforce(p.fd)
	if enfSelf != strs.EnforceUTF8(p.pfd) {
		c.PropFail("C13", "strs.EnforceUTF8 disagrees with the rule proto3 / editions VERIFY", p.name, Tok(enfSelf))
	}
	for codec := 0; codec <= utf8CTextUnmarshalRaw; codec++ {
		obs := utf8RunCodec(c, p, codec, bs)
		if obs == nil {
			c.Stat(fmt.Sprintf("pos:skip:codec%d", codec))
			continue
		}
		c.Case("utf8", "pos", []string{HexN(uint64(codec)), HexN(uint64(p.kind)), HexN(uint64(p.pos)), legacy, syn, hasm, val, msyn, mhasm, mval, HexB(bs)}, obs)
		c.Stat(fmt.Sprintf("pos:%s:k%d:enf%s:codec%d:%s", utf8PosNames[p.pos], p.kind, Tok(enfSelf), codec, strings.SplitN(obs[0], ":", 2)[0]))
		// the property's own predicate
		rejected := obs[0] != "ok"
		unchanged := obs[0] == "ok" && len(obs) == 2 && obs[1] == HexB(bs)
		enf := enfSelf
		if codec == utf8CValidator && (p.pos == utf8PMapKey || p.pos == utf8PMapValue) {
			enf = enfMap
		}
		in := []string{p.name, fmt.Sprintf("codec=%d", codec), HexB(bs), strings.Join(obs, " ")}
		switch {
		case p.kind == 0 && enf && !valid && !rejected && utf8ExclFL1(codec, p.pos):
			c.Known("FL1", "C13", "table-driven coder of a repeated string extension does not validate UTF-8: "+p.name)
			c.Stat("known:FL1")
		case p.kind == 0 && enf && !valid && !rejected && utf8ExclFL2(codec, p.pos):
			c.Known("FL2", "C13", "prototext unmarshalAny stores type_url without the UTF-8 test: "+p.name)
			c.Stat("known:FL2")
		case p.kind == 0 && enf && !valid && !rejected:
			c.PropFail("C13", "validated string position accepts ill-formed UTF-8", in...)
		case valid && !unchanged:
			c.PropFail("C13", "well-formed UTF-8 rejected or altered", in...)
		case (p.kind == 1 || !enf) && !unchanged && codec != utf8CJsonMarshal && codec != utf8CJsonUnmarshal && codec != utf8CTextUnmarshalRaw:
			c.PropFail("C13", "bytes / non-validated string position rejects or alters bytes in a binary or text codec", in...)
		case p.kind == 1 && !unchanged && codec != utf8CTextUnmarshalRaw:
			c.PropFail("C13", "bytes position rejects or alters bytes", in...)
		}
	}
}

// recognisers of the recorded findings; tied to the Coq predicates excl_FL1 / excl_FL2 by the "excl" C lines
func utf8ExclFL1(codec, pos int) bool {
	return (codec == utf8CBinMarshalFast || codec == utf8CBinUnmarshalFast) && pos == utf8PExtensionList
}
func utf8ExclFL2(codec, pos int) bool {
	return codec == utf8CTextUnmarshalEsc && pos == utf8PAnyTypeUrl
}

func utf8EnforceCase(c *Ctx, fd protoreflect.FieldDescriptor) {
	syn, hasm, val := utf8Facts(fd)
	c.Case("utf8", "enforce", []string{Tok(flags.ProtoLegacy), syn, hasm, val}, []string{Tok(strs.EnforceUTF8(fd))})
}

func utf8ModePos(c *Ctx, idx, k int) {
	if idx == k-1 {
		defer utf8Nested(c)
	}
	all := true // the whole sweep costs a few seconds; sampling is kept for slower machines
	if idx == 0 {
		for codec := 0; codec <= utf8CTextUnmarshalRaw; codec++ {
			for pos := 0; pos <= utf8PAnyTypeUrl; pos++ {
				c.Case("utf8", "excl", []string{HexN(uint64(codec)), HexN(uint64(pos))}, []string{Tok(utf8ExclFL1(codec, pos)), Tok(utf8ExclFL2(codec, pos))})
			}
		}
	}
	ps := utf8CorpusPositions()
	c.StatN("pos:corpus-positions", len(ps))
	if idx == 0 {
		ps = append(utf8HandBuilt(c), ps...)
	}
	for i, p := range ps {
		if p.mt != nil && i%k != idx {
			continue
		}
		if c.Tier != "thorough" && !all && p.mt != nil {
			// quick tier: every position of the test / test3 / testeditions / textpb families,
			// a deterministic sample (seed dependent) of the others
			n := string(p.md.FullName())
			fam := strings.HasPrefix(n, "goproto.proto.test") || strings.HasPrefix(n, "pb2.") || strings.HasPrefix(n, "pb3.") ||
				strings.HasPrefix(n, "pbeditions.") || strings.HasPrefix(n, "google.protobuf.") || strings.HasPrefix(n, "goproto.proto.lazy")
			if !fam && (uint64(i)*0x9e3779b97f4a7c15+c.Seed*0xbf58476d1ce4e5b9)>>32%4 != 0 {
				c.Stat("pos:not-sampled")
				continue
			}
		}
		c.Stat("pos:positions")
		utf8EnforceCase(c, p.pfd)
		if p.pfd != p.fd {
			utf8EnforceCase(c, p.fd)
		}
		bad := utf8PosInvalid[c.Intn(len(utf8PosInvalid))]
		good := utf8PosValid[c.Intn(len(utf8PosValid))]
		if c.Intn(4) == 0 {
			bad = utf8GenString(c)
			for utf8.Valid(bad) || len(bad) == 0 {
				bad = append(bad, utf8BadSeqs[c.Intn(len(utf8BadSeqs))]...)
			}
		}
		utf8CheckPosition(c, p, bad)
		utf8CheckPosition(c, p, good)
		if c.Tier == "thorough" || p.mt == nil {
			for _, s := range utf8PosInvalid {
				utf8CheckPosition(c, p, s)
			}
			for _, s := range utf8PosValid {
				utf8CheckPosition(c, p, s)
			}
		}
	}
}

// utf8Nested: string positions reached through a (lazy or eager) message field of a generated parent:
// proto.Unmarshal with lazy decoding on (the validator judges the nested bytes) and off.
func utf8Nested(c *Ctx) {
	var mts []protoreflect.MessageType
	protoregistry.GlobalTypes.RangeMessages(func(mt protoreflect.MessageType) bool {
		mts = append(mts, mt)
		return true
	})
	sort.Slice(mts, func(i, j int) bool { return mts[i].Descriptor().FullName() < mts[j].Descriptor().FullName() })
	legacy := Tok(flags.ProtoLegacy)
	for _, mt := range mts {
		fds := mt.Descriptor().Fields()
		for i := 0; i < fds.Len(); i++ {
			f := fds.Get(i)
			lz, ok := f.(interface{ IsLazy() bool })
			if f.Message() == nil || f.IsMap() || f.Kind() != protoreflect.MessageKind {
				continue
			}
			lazy := ok && lz.IsLazy()
			if !lazy && c.Intn(40) != 0 {
				continue
			}
			cmt, err := protoregistry.GlobalTypes.FindMessageByName(f.Message().FullName())
			if err != nil {
				continue
			}
			ps := utf8PositionsOf(cmt.Descriptor(), cmt, nil)
			if len(ps) > 6 {
				k := c.Intn(len(ps) - 5)
				ps = ps[k : k+6]
			}
			for _, p := range ps {
				for _, bs := range [][]byte{utf8PosInvalid[c.Intn(len(utf8PosInvalid))], utf8PosValid[c.Intn(len(utf8PosValid))]} {
					inner := utf8Wire(p, bs)
					w := protowire.AppendBytes(protowire.AppendTag(nil, f.Number(), protowire.BytesType), inner)
					syn, hasm, val := utf8Facts(p.pfd)
					msyn, mhasm, mval := utf8Facts(p.fd)
					for _, nolazy := range []bool{false, true} {
						codec := utf8CValidator // lazy: the nested bytes are judged by the validator
						if nolazy || !lazy {
							codec = utf8CBinUnmarshalFast
						}
						m := mt.New()
						if !utf8IsFast(m) {
							continue
						}
						var obs []string
						func() {
							defer func() {
								if r := recover(); r != nil {
									obs = []string{"panic"}
									c.PropFail("C13", fmt.Sprintf("nested unmarshal panicked at %s: %v", p.name, r), HexB(w))
								}
							}()
							err := proto.UnmarshalOptions{AllowPartial: true, NoLazyDecoding: nolazy}.Unmarshal(w, m.Interface())
							if err != nil {
								obs = []string{utf8ErrClass(err)}
								if codec == utf8CValidator && strings.Contains(err.Error(), "invalid proto wire format") {
									// the validator has a single "invalid" status; lazy decoding reports it as a wire error
									obs = []string{"rej"}
									c.Stat("nested:lazy-reports-wire-error")
								}
								return
							}
							var child protoreflect.Message
							if f.IsList() {
								l := m.Get(f).List()
								if l.Len() != 1 {
									obs = []string{"lost"}
									return
								}
								child = l.Get(0).Message()
							} else {
								child = m.Get(f).Message()
							}
							got, has := utf8Take(child, p)
							if !has {
								obs = []string{"lost"}
								return
							}
							obs = []string{"ok", HexB(got)}
						}()
						c.Case("utf8", "pos", []string{HexN(uint64(codec)), HexN(uint64(p.kind)), HexN(uint64(p.pos)), legacy, syn, hasm, val, msyn, mhasm, mval, HexB(bs)}, obs)
						c.Stat(fmt.Sprintf("nested:lazyfield%s:nolazy%s:%s", Tok(lazy), Tok(nolazy), strings.SplitN(obs[0], ":", 2)[0]))
						enf := utf8WantEnforce(p.pfd)
						valid := utf8.Valid(bs)
						unchanged := obs[0] == "ok" && len(obs) == 2 && obs[1] == HexB(bs)
						in := []string{string(f.FullName()) + " -> " + p.name, fmt.Sprintf("nolazy=%v", nolazy), HexB(w), strings.Join(obs, " ")}
						switch {
						case p.kind == 0 && enf && !valid && obs[0] == "ok" && utf8ExclFL1(codec, p.pos):
							c.Known("FL1", "C13", "nested: "+p.name)
						case p.kind == 0 && enf && !valid && obs[0] == "ok":
							c.PropFail("C13", "validated nested string position accepts ill-formed UTF-8", in...)
						case (valid || p.kind == 1 || !enf) && !unchanged:
							c.PropFail("C13", "nested position rejects or alters bytes that must pass", in...)
						}
					}
				}
			}
		}
	}
}

// ---------------------------------------------------------------- hand-built descriptors

func utf8Str(s string) *string { return &s }
func utf8I32(i int32) *int32   { return &i }

func utf8FeatureOpt(v *bool) *descriptorpb.FieldOptions {
	if v == nil {
		return nil
	}
	f := descriptorpb.FeatureSet_NONE
	if *v {
		f = descriptorpb.FeatureSet_VERIFY
	}
	return &descriptorpb.FieldOptions{Features: &descriptorpb.FeatureSet{Utf8Validation: &f}}
}

func utf8BoolPtr(b bool) *bool { return &b }

func utf8OverrideTok(v *bool) string {
	if v == nil {
		return "-"
	}
	return Tok(*v)
}

// utf8HandBuilt: descriptors that exercise decision-table rows the linked corpus lacks:
// editions files with file-, message- and field-level utf8_validation overrides (incl. a map
// field whose override is / is not propagated to the synthetic entry), and proto2/proto3
// files whose fields carry the legacy enforce_utf8 option (raw descriptor, filedesc.Builder).
func utf8HandBuilt(c *Ctx) []utf8Position {
	var out []utf8Position
	lab := descriptorpb.FieldDescriptorProto_LABEL_OPTIONAL
	rep := descriptorpb.FieldDescriptorProto_LABEL_REPEATED
	tstr := descriptorpb.FieldDescriptorProto_TYPE_STRING
	tbytes := descriptorpb.FieldDescriptorProto_TYPE_BYTES
	tmsg := descriptorpb.FieldDescriptorProto_TYPE_MESSAGE
	ed := descriptorpb.Edition_EDITION_2023
	n := 0
	for _, fileOv := range []*bool{nil, utf8BoolPtr(false)} {
		for _, msgOv := range []*bool{nil, utf8BoolPtr(true), utf8BoolPtr(false)} {
			for _, fieldOv := range []*bool{nil, utf8BoolPtr(true), utf8BoolPtr(false)} {
				for _, propagate := range []bool{false, true} {
					n++
					pkg := fmt.Sprintf("verifutf8.e%d", n)
					entryOpt := (*descriptorpb.FieldOptions)(nil)
					if propagate {
						entryOpt = utf8FeatureOpt(fieldOv)
					}
					fdp := &descriptorpb.FileDescriptorProto{
						Name:    utf8Str(fmt.Sprintf("verifutf8/e%d.proto", n)),
						Package: utf8Str(pkg),
						Syntax:  utf8Str("editions"),
						Edition: &ed,
						MessageType: []*descriptorpb.DescriptorProto{{
							Name: utf8Str("M"),
							Field: []*descriptorpb.FieldDescriptorProto{
								{Name: utf8Str("s"), Number: utf8I32(1), Label: &lab, Type: &tstr, Options: utf8FeatureOpt(fieldOv)},
								{Name: utf8Str("r"), Number: utf8I32(2), Label: &rep, Type: &tstr, Options: utf8FeatureOpt(fieldOv)},
								{Name: utf8Str("o"), Number: utf8I32(3), Label: &lab, Type: &tstr, OneofIndex: utf8I32(0), Options: utf8FeatureOpt(fieldOv)},
								{Name: utf8Str("m"), Number: utf8I32(4), Label: &rep, Type: &tmsg, TypeName: utf8Str("." + pkg + ".M.MEntry"), Options: utf8FeatureOpt(fieldOv)},
								{Name: utf8Str("b"), Number: utf8I32(5), Label: &lab, Type: &tbytes},
							},
							OneofDecl: []*descriptorpb.OneofDescriptorProto{{Name: utf8Str("u")}},
							NestedType: []*descriptorpb.DescriptorProto{{
								Name: utf8Str("MEntry"),
								Field: []*descriptorpb.FieldDescriptorProto{
									{Name: utf8Str("key"), Number: utf8I32(1), Label: &lab, Type: &tstr, Options: entryOpt},
									{Name: utf8Str("value"), Number: utf8I32(2), Label: &lab, Type: &tstr, Options: entryOpt},
								},
								Options: &descriptorpb.MessageOptions{MapEntry: utf8BoolPtr(true)},
							}},
						}},
					}
					if fileOv != nil {
						fdp.Options = &descriptorpb.FileOptions{Features: utf8FeatureOpt(fileOv).Features}
					}
					if msgOv != nil {
						fdp.MessageType[0].Options = &descriptorpb.MessageOptions{Features: utf8FeatureOpt(msgOv).Features}
					}
					file, err := protodesc.NewFile(fdp, protoregistry.GlobalFiles)
					if err != nil {
						c.Stat("hand:editions:error")
						c.Sample("hand-built editions descriptor rejected: " + err.Error())
						continue
					}
					md := file.Messages().Get(0)
					ps := utf8PositionsOf(md, nil, nil)
					for i := range ps {
						ps[i].name = "hand:" + ps[i].name
						var ovs []string
						if ps[i].pos == utf8PMapKey || ps[i].pos == utf8PMapValue {
							// the entry message inherits from M; the map field's own override reaches it only if propagated
							ovs = []string{utf8OverrideTok(fileOv), utf8OverrideTok(msgOv)}
							if propagate {
								ovs = append(ovs, utf8OverrideTok(fieldOv))
							}
						} else if ps[i].kind == 0 {
							ovs = []string{utf8OverrideTok(fileOv), utf8OverrideTok(msgOv), utf8OverrideTok(fieldOv)}
						} else {
							ovs = []string{utf8OverrideTok(fileOv), utf8OverrideTok(msgOv)}
						}
						if e, ok := ps[i].pfd.(interface{ EnforceUTF8() bool }); ok {
							c.Case("utf8", "validated", append([]string{"e"}, ovs...), []string{Tok(e.EnforceUTF8())})
						}
					}
					out = append(out, ps...)
					c.Stat("hand:editions")
				}
			}
		}
	}
	// proto2 / proto3 with the legacy field option enforce_utf8 (FieldOptions field 13, not in descriptor.proto)
	for _, syn := range []string{"proto2", "proto3"} {
		for _, opt := range []*bool{nil, utf8BoolPtr(true), utf8BoolPtr(false)} {
			n++
			pkg := fmt.Sprintf("verifutf8.l%d", n)
			mkopt := func() *descriptorpb.FieldOptions {
				if opt == nil {
					return nil
				}
				o := &descriptorpb.FieldOptions{}
				v := uint64(0)
				if *opt {
					v = 1
				}
				o.ProtoReflect().SetUnknown(protowire.AppendVarint(protowire.AppendTag(nil, 13, protowire.VarintType), v))
				return o
			}
			fdp := &descriptorpb.FileDescriptorProto{
				Name:    utf8Str(fmt.Sprintf("verifutf8/l%d.proto", n)),
				Package: utf8Str(pkg),
				Syntax:  utf8Str(syn),
				MessageType: []*descriptorpb.DescriptorProto{{
					Name: utf8Str("M"),
					Field: []*descriptorpb.FieldDescriptorProto{
						{Name: utf8Str("s"), Number: utf8I32(1), Label: &lab, Type: &tstr, Options: mkopt()},
						{Name: utf8Str("r"), Number: utf8I32(2), Label: &rep, Type: &tstr, Options: mkopt()},
						{Name: utf8Str("o"), Number: utf8I32(3), Label: &lab, Type: &tstr, OneofIndex: utf8I32(0), Options: mkopt()},
						{Name: utf8Str("b"), Number: utf8I32(5), Label: &lab, Type: &tbytes},
					},
					OneofDecl: []*descriptorpb.OneofDescriptorProto{{Name: utf8Str("u")}},
				}},
			}
			raw, err := proto.Marshal(fdp)
			if err != nil {
				continue
			}
			var file protoreflect.FileDescriptor
			func() {
				defer func() {
					if r := recover(); r != nil {
						c.Sample(fmt.Sprintf("filedesc.Builder panicked: %v", r))
					}
				}()
				file = filedesc.Builder{RawDescriptor: raw, NumMessages: 1, FileRegistry: new(protoregistry.Files)}.Build().File
			}()
			if file == nil {
				c.Stat("hand:legacy:error")
				continue
			}
			md := file.Messages().Get(0)
			ps := utf8PositionsOf(md, nil, nil)
			for i := range ps {
				ps[i].name = "hand:" + ps[i].name
				if ps[i].kind == 0 {
					if e, ok := ps[i].pfd.(interface{ EnforceUTF8() bool }); ok {
						c.Case("utf8", "validated", []string{syn[5:], utf8OverrideTok(opt)}, []string{Tok(e.EnforceUTF8())})
					}
				}
			}
			out = append(out, ps...)
			c.Stat("hand:legacy-option")
		}
	}
	return out
}
