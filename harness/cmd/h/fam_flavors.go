//go:build verif

package main

// family "flavors": C29 (all API flavours of one schema are interchangeable).
//
// One abstract content tree (field number -> scalar / list / map / sub-content) is generated per
// case from the OPEN descriptor of a message that is generated in all three API levels
// (packages X, X_hybrid, X_opaque; proto packages P, hybrid.P, opaque.P) and is then built
// independently through every way a user can express it:
//
//	dyn/open dyn/hybrid dyn/opaque   protoreflect on dynamicpb.NewMessage of each descriptor
//	open/fields                      Go reflect on the exported struct fields (pointers, slices, maps,
//	                                 oneof wrapper structs) of the open type
//	hybrid/setters hybrid/fields hybrid/builder hybrid/mix
//	opaque/setters opaque/builder opaque/mix
//	                                 generated Set<Field> methods / <Msg>_builder{...}.Build()
//	                                 (mix: every sub-message picks its own mode)
//	open/refl hybrid/refl opaque/refl  protoreflect on the generated types
//
// and all results are compared with the reference (dyn/open): canonical reflection dump,
// deterministic wire bytes, protojson / prototext output (modulo the hybrid./opaque. package
// label), WhichOneof, proto.Equal within one descriptor, cross-decoding of the reference bytes
// into every message type (lazy and eager) with re-marshal, parse-back of the JSON / text
// output, generated getters / hassers / whichers / exported fields against reflection (built
// and decoded messages; unset scalars against the declared default), and generated
// Clear<Field> / Clear<Oneof> against protoreflect Clear on the reference.
//
// Messages are matched by full name without the label and fields by number; the schemas are
// compared first.  Messages of proto package goproto.proto.test (open form only, plus the
// mixed-API-level file internal/testprotos/mixed) run as "self" flavours against dynamicpb.
//
// Known findings recognised narrowly: F13 (slow path refuses MessageSet without protolegacy;
// the fast path writes type ids >= 2^29 as an unparseable ordinary tag), F1 (lazy decoding).
// FWE2 (opaque WhichOneof of the synthetic oneof of a proto3-optional message field) is repaired;
// its witness stays in the corpus (dense content of opaque test3.TestAllTypes) as a plain comparison.
//
// There is no Coq model comparison in this family: only P (property fails), K (known findings),
// S (statistics) and X (samples) lines.

import (
	"bytes"
	"encoding/json"
	"fmt"
	"math"
	"reflect"
	"sort"
	"strconv"
	"strings"

	"google.golang.org/protobuf/encoding/protojson"
	"google.golang.org/protobuf/encoding/prototext"
	"google.golang.org/protobuf/internal/encoding/messageset"
	"google.golang.org/protobuf/internal/impl"
	"google.golang.org/protobuf/internal/strs"
	"google.golang.org/protobuf/proto"
	"google.golang.org/protobuf/reflect/protoreflect"
	"google.golang.org/protobuf/reflect/protoregistry"
	"google.golang.org/protobuf/types/dynamicpb"

	flvLZH "google.golang.org/protobuf/internal/testprotos/lazy/lazy_hybrid"
	flvLZO "google.golang.org/protobuf/internal/testprotos/lazy/lazy_opaque"
	flvMSH "google.golang.org/protobuf/internal/testprotos/messageset/messagesetpb/messagesetpb_hybrid"
	flvMSO "google.golang.org/protobuf/internal/testprotos/messageset/messagesetpb/messagesetpb_opaque"
	flvMXH "google.golang.org/protobuf/internal/testprotos/messageset/msetextpb/msetextpb_hybrid"
	flvMXO "google.golang.org/protobuf/internal/testprotos/messageset/msetextpb/msetextpb_opaque"
	flvMIX "google.golang.org/protobuf/internal/testprotos/mixed"
	flvRQH "google.golang.org/protobuf/internal/testprotos/required/required_hybrid"
	flvRQO "google.golang.org/protobuf/internal/testprotos/required/required_opaque"
	flvT3H "google.golang.org/protobuf/internal/testprotos/test3/test3_hybrid"
	flvT3O "google.golang.org/protobuf/internal/testprotos/test3/test3_opaque"
	flvTEH "google.golang.org/protobuf/internal/testprotos/testeditions/testeditions_hybrid"
	flvTEO "google.golang.org/protobuf/internal/testprotos/testeditions/testeditions_opaque"
	flvTXH "google.golang.org/protobuf/internal/testprotos/textpbeditions/textpbeditions_hybrid"
	flvTXO "google.golang.org/protobuf/internal/testprotos/textpbeditions/textpbeditions_opaque"

	_ "google.golang.org/protobuf/internal/testprotos/enums"
	_ "google.golang.org/protobuf/internal/testprotos/enums/enums_hybrid"
	_ "google.golang.org/protobuf/internal/testprotos/enums/enums_opaque"
	_ "google.golang.org/protobuf/internal/testprotos/lazy"
	_ "google.golang.org/protobuf/internal/testprotos/messageset/messagesetpb"
	_ "google.golang.org/protobuf/internal/testprotos/messageset/msetextpb"
	_ "google.golang.org/protobuf/internal/testprotos/required"
	_ "google.golang.org/protobuf/internal/testprotos/test"
	_ "google.golang.org/protobuf/internal/testprotos/test3"
	_ "google.golang.org/protobuf/internal/testprotos/testeditions"
	_ "google.golang.org/protobuf/internal/testprotos/textpbeditions"
)

func init() { Register("flavors", famFlavors) }

// flvBuilderValues lists every generated <Msg>_builder struct of the hybrid and opaque packages
// (builders are not reachable from the message types by reflection).  The message type of a
// builder is the result type of its Build method.
var flvBuilderValues = []any{
	// mixed (one file with messages of all three API levels referring to each other)
	flvMIX.Hybrid_builder{},
	flvMIX.HybridLazy_builder{},
	flvMIX.Opaque_builder{},
	flvMIX.OpaqueLazy_builder{},
	// test3/test3_hybrid
	flvT3H.ForeignMessage_builder{},
	flvT3H.ImportMessage_builder{},
	flvT3H.TestAllTypes_NestedMessage_builder{},
	flvT3H.TestAllTypes_builder{},
	// test3/test3_opaque
	flvT3O.ForeignMessage_builder{},
	flvT3O.ImportMessage_builder{},
	flvT3O.TestAllTypes_NestedMessage_builder{},
	flvT3O.TestAllTypes_builder{},
	// testeditions/testeditions_hybrid
	flvTEH.ForeignMessage_builder{},
	flvTEH.ImportMessage_builder{},
	flvTEH.OptionalGroup_builder{},
	flvTEH.OtherRepeatedFieldEncoding_builder{},
	flvTEH.RemoteDefault_builder{},
	flvTEH.RepeatedFieldEncoding_builder{},
	flvTEH.RepeatedGroup_builder{},
	flvTEH.TestAllExtensions_NestedMessage_builder{},
	flvTEH.TestAllExtensions_builder{},
	flvTEH.TestAllTypes_NestedMessage_builder{},
	flvTEH.TestAllTypes_OneofGroup_builder{},
	flvTEH.TestAllTypes_OptionalGroup_builder{},
	flvTEH.TestAllTypes_RepeatedGroup_builder{},
	flvTEH.TestAllTypes_builder{},
	flvTEH.TestFeatureResolution_builder{},
	flvTEH.TestManyMessageFieldsMessage_builder{},
	flvTEH.TestOneofWithRequired_builder{},
	flvTEH.TestPackedExtensions_builder{},
	flvTEH.TestPackedTypes_builder{},
	flvTEH.TestRequiredForeign_builder{},
	flvTEH.TestRequiredGroupFields_OptionalGroup_builder{},
	flvTEH.TestRequiredGroupFields_RepeatedGroup_builder{},
	flvTEH.TestRequiredGroupFields_builder{},
	flvTEH.TestRequiredLazy_builder{},
	flvTEH.TestRequired_builder{},
	// testeditions/testeditions_opaque
	flvTEO.ForeignMessage_builder{},
	flvTEO.ImportMessage_builder{},
	flvTEO.OptionalGroup_builder{},
	flvTEO.OtherRepeatedFieldEncoding_builder{},
	flvTEO.RemoteDefault_builder{},
	flvTEO.RepeatedFieldEncoding_builder{},
	flvTEO.RepeatedGroup_builder{},
	flvTEO.TestAllExtensions_NestedMessage_builder{},
	flvTEO.TestAllExtensions_builder{},
	flvTEO.TestAllTypes_NestedMessage_builder{},
	flvTEO.TestAllTypes_OneofGroup_builder{},
	flvTEO.TestAllTypes_OptionalGroup_builder{},
	flvTEO.TestAllTypes_RepeatedGroup_builder{},
	flvTEO.TestAllTypes_builder{},
	flvTEO.TestFeatureResolution_builder{},
	flvTEO.TestManyMessageFieldsMessage_builder{},
	flvTEO.TestOneofWithRequired_builder{},
	flvTEO.TestPackedExtensions_builder{},
	flvTEO.TestPackedTypes_builder{},
	flvTEO.TestRequiredForeign_builder{},
	flvTEO.TestRequiredGroupFields_OptionalGroup_builder{},
	flvTEO.TestRequiredGroupFields_RepeatedGroup_builder{},
	flvTEO.TestRequiredGroupFields_builder{},
	flvTEO.TestRequiredLazy_builder{},
	flvTEO.TestRequired_builder{},
	// lazy/lazy_hybrid
	flvLZH.Node_builder{},
	// lazy/lazy_opaque
	flvLZO.Node_builder{},
	// required/required_hybrid
	flvRQH.Bool_builder{},
	flvRQH.Bytes_builder{},
	flvRQH.Double_builder{},
	flvRQH.Fixed32_builder{},
	flvRQH.Fixed64_builder{},
	flvRQH.Float_builder{},
	flvRQH.Group_Group_builder{},
	flvRQH.Group_builder{},
	flvRQH.Int32_builder{},
	flvRQH.Int64_builder{},
	flvRQH.Message_M_builder{},
	flvRQH.Message_builder{},
	flvRQH.Sint32_builder{},
	flvRQH.Sint64_builder{},
	flvRQH.String_builder{},
	flvRQH.Uint32_builder{},
	flvRQH.Uint64_builder{},
	// required/required_opaque
	flvRQO.Bool_builder{},
	flvRQO.Bytes_builder{},
	flvRQO.Double_builder{},
	flvRQO.Fixed32_builder{},
	flvRQO.Fixed64_builder{},
	flvRQO.Float_builder{},
	flvRQO.Group_Group_builder{},
	flvRQO.Group_builder{},
	flvRQO.Int32_builder{},
	flvRQO.Int64_builder{},
	flvRQO.Message_M_builder{},
	flvRQO.Message_builder{},
	flvRQO.Sint32_builder{},
	flvRQO.Sint64_builder{},
	flvRQO.String_builder{},
	flvRQO.Uint32_builder{},
	flvRQO.Uint64_builder{},
	// messageset/messagesetpb/messagesetpb_hybrid
	flvMSH.MessageSetContainer_builder{},
	flvMSH.MessageSet_builder{},
	// messageset/messagesetpb/messagesetpb_opaque
	flvMSO.MessageSetContainer_builder{},
	flvMSO.MessageSet_builder{},
	// messageset/msetextpb/msetextpb_hybrid
	flvMXH.Ext1_builder{},
	flvMXH.Ext2_builder{},
	flvMXH.ExtLargeNumber_builder{},
	flvMXH.ExtRequired_builder{},
	// messageset/msetextpb/msetextpb_opaque
	flvMXO.Ext1_builder{},
	flvMXO.Ext2_builder{},
	flvMXO.ExtLargeNumber_builder{},
	flvMXO.ExtRequired_builder{},
	// textpbeditions/textpbeditions_hybrid
	flvTXH.Enums_builder{},
	flvTXH.ExtensionsContainer_builder{},
	flvTXH.Extensions_builder{},
	flvTXH.FakeMessageSetExtension_builder{},
	flvTXH.FakeMessageSet_builder{},
	flvTXH.ImplicitScalars_builder{},
	flvTXH.IndirectRequired_builder{},
	flvTXH.KnownTypes_builder{},
	flvTXH.Maps_builder{},
	flvTXH.MessageSetExtension_builder{},
	flvTXH.MessageSet_builder{},
	flvTXH.NestedWithRequired_builder{},
	flvTXH.Nested_builder{},
	flvTXH.NestsUTF8Validated_builder{},
	flvTXH.Nests_OptGroup_OptNestedGroup_builder{},
	flvTXH.Nests_OptGroup_builder{},
	flvTXH.Nests_RptGroup_builder{},
	flvTXH.Nests_builder{},
	flvTXH.PartialRequired_builder{},
	flvTXH.Repeats_builder{},
	flvTXH.Requireds_builder{},
	flvTXH.Scalars_builder{},
	flvTXH.UTF8Validated_builder{},
	// textpbeditions/textpbeditions_opaque
	flvTXO.Enums_builder{},
	flvTXO.ExtensionsContainer_builder{},
	flvTXO.Extensions_builder{},
	flvTXO.FakeMessageSetExtension_builder{},
	flvTXO.FakeMessageSet_builder{},
	flvTXO.ImplicitScalars_builder{},
	flvTXO.IndirectRequired_builder{},
	flvTXO.KnownTypes_builder{},
	flvTXO.Maps_builder{},
	flvTXO.MessageSetExtension_builder{},
	flvTXO.MessageSet_builder{},
	flvTXO.NestedWithRequired_builder{},
	flvTXO.Nested_builder{},
	flvTXO.NestsUTF8Validated_builder{},
	flvTXO.Nests_OptGroup_OptNestedGroup_builder{},
	flvTXO.Nests_OptGroup_builder{},
	flvTXO.Nests_RptGroup_builder{},
	flvTXO.Nests_builder{},
	flvTXO.PartialRequired_builder{},
	flvTXO.Repeats_builder{},
	flvTXO.Requireds_builder{},
	flvTXO.Scalars_builder{},
	flvTXO.UTF8Validated_builder{},
}

// flvBuilderOf: message Go type (pointer to struct) -> builder struct type.
var flvBuilderOf map[reflect.Type]reflect.Type

func flvInitBuilders(c *Ctx) {
	flvBuilderOf = map[reflect.Type]reflect.Type{}
	for _, b := range flvBuilderValues {
		bt := reflect.TypeOf(b)
		m, ok := bt.MethodByName("Build")
		if !ok || m.Type.NumOut() != 1 {
			c.Stat("registry_builder_without_Build")
			c.Sample("builder without Build method: " + bt.String())
			continue
		}
		flvBuilderOf[m.Type.Out(0)] = bt
		c.Stat("registry_builders")
	}
}

// ---------------------------------------------------------------- discovery of the triples

var flvAPI = [3]string{"open", "hybrid", "opaque"}

// flvStrip removes the API-level label of the proto package.
func flvStrip(n string) string {
	if strings.HasPrefix(n, "hybrid.") {
		return n[len("hybrid."):]
	}
	if strings.HasPrefix(n, "opaque.") {
		return n[len("opaque."):]
	}
	return n
}

type flvTriple struct {
	name   string // full name without label
	fam    string // proto package of the open form
	mts    [3]protoreflect.MessageType
	mset   bool // reaches a message_set_wire_format message
	weight int
}

func (t *flvTriple) full() bool { return t.mts[1] != nil && t.mts[2] != nil }

// label of descriptor variant vi in flavour names
func (t *flvTriple) label(vi int) string {
	if !t.full() {
		return "self"
	}
	return flvAPI[vi]
}

// flvGoAPI classifies a generated message type by the protogen tag of its first struct field.
func flvGoAPI(t reflect.Type) string {
	if t.Kind() == reflect.Ptr && t.Elem().Kind() == reflect.Struct && t.Elem().NumField() > 0 {
		tag := t.Elem().Field(0).Tag.Get("protogen")
		switch {
		case strings.HasPrefix(tag, "opaque."):
			return "opaque"
		case strings.HasPrefix(tag, "hybrid."):
			return "hybrid"
		case strings.HasPrefix(tag, "open."):
			return "open"
		}
	}
	return "other"
}

func flvDiscover(c *Ctx) []*flvTriple {
	by := map[string]*flvTriple{}
	get := func(name string) *flvTriple {
		t := by[name]
		if t == nil {
			t = &flvTriple{name: name}
			by[name] = t
		}
		return t
	}
	protoregistry.GlobalTypes.RangeMessages(func(mt protoreflect.MessageType) bool {
		md := mt.Descriptor()
		if md.IsMapEntry() {
			return true
		}
		n := string(md.FullName())
		vi := 0
		switch {
		case strings.HasPrefix(n, "hybrid."):
			vi = 1
		case strings.HasPrefix(n, "opaque."):
			vi = 2
		default:
			return true
		}
		api := flvGoAPI(reflect.TypeOf(mt.New().Interface()))
		if api != flvAPI[vi] {
			c.Stat("discover_label_vs_gotag_" + flvAPI[vi] + "_" + api)
			c.Sample("proto package label and protogen tag disagree: " + n + " is " + api)
			return true
		}
		get(flvStrip(n)).mts[vi] = mt
		return true
	})
	for name, t := range by {
		mt, err := protoregistry.GlobalTypes.FindMessageByName(protoreflect.FullName(name))
		if err != nil {
			c.Stat("discover_no_open_form")
			c.Sample("no open form linked for " + name)
			delete(by, name)
			continue
		}
		if api := flvGoAPI(reflect.TypeOf(mt.New().Interface())); api != "open" {
			c.Stat("discover_open_form_is_" + api)
			delete(by, name)
			continue
		}
		t.mts[0] = mt
		if !t.full() {
			c.Stat("discover_incomplete_triple")
			c.Sample("not generated in all three forms: " + name)
			delete(by, name)
		}
	}
	// the proto2 package internal/testprotos/test exists only in the open form
	protoregistry.GlobalTypes.RangeMessages(func(mt protoreflect.MessageType) bool {
		md := mt.Descriptor()
		if md.IsMapEntry() || md.ParentFile().Package() != "goproto.proto.test" {
			return true
		}
		if flvGoAPI(reflect.TypeOf(mt.New().Interface())) == "other" {
			c.Stat("discover_single_other_api")
			return true
		}
		t := get(string(md.FullName()))
		t.mts[0] = mt
		return true
	})
	var out []*flvTriple
	for _, t := range by {
		md := t.mts[0].Descriptor()
		t.fam = string(md.ParentFile().Package())
		t.mset = msgReachesMessageSet(md, map[protoreflect.FullName]bool{})
		nf := md.Fields().Len() + len(msgExtensionsOf(md))
		if nf > 30 {
			nf = 30
		}
		t.weight = 2 + nf
		if msgHasLazy(md) || strings.HasSuffix(t.name, ".TestAllTypes") {
			t.weight *= 3
		}
		if !t.full() {
			t.weight = 1 + t.weight/6
		}
		out = append(out, t)
	}
	sort.Slice(out, func(i, j int) bool { return out[i].name < out[j].name })
	for _, t := range out {
		if t.full() {
			c.Stat("triples_" + t.fam)
		} else {
			c.Stat("single_" + t.fam)
		}
	}
	return out
}

// ---------------------------------------------------------------- schema agreement

func flvFieldSig(fd protoreflect.FieldDescriptor) string {
	var sb strings.Builder
	jn := fd.JSONName()
	if fd.IsExtension() {
		jn = "-"
	}
	fmt.Fprintf(&sb, "%d %s %s %s card=%d list=%v map=%v packed=%v presence=%v lazy=%v", fd.Number(), fd.Name(), jn,
		fd.Kind(), fd.Cardinality(), fd.IsList(), fd.IsMap(), fd.IsPacked(), fd.HasPresence(), msgIsLazyField(fd))
	fmt.Fprintf(&sb, " utf8=%v", strs.EnforceUTF8(fd))
	if od := fd.ContainingOneof(); od != nil {
		fmt.Fprintf(&sb, " oneof=%s/%d/%v", od.Name(), od.Index(), od.IsSynthetic())
	}
	if sub := fd.Message(); sub != nil && !fd.IsMap() {
		fmt.Fprintf(&sb, " msg=%s", flvStrip(string(sub.FullName())))
	}
	if ed := fd.Enum(); ed != nil {
		fmt.Fprintf(&sb, " enum=%s closed=%v", flvStrip(string(ed.FullName())), ed.IsClosed())
		vs := ed.Values()
		for i := 0; i < vs.Len(); i++ {
			fmt.Fprintf(&sb, " %s=%d", vs.Get(i).Name(), vs.Get(i).Number())
		}
	}
	if fd.IsMap() {
		fmt.Fprintf(&sb, " key{%s} val{%s}", flvFieldSig(fd.MapKey()), flvFieldSig(fd.MapValue()))
	} else if fd.Message() == nil && !fd.IsList() {
		fmt.Fprintf(&sb, " def=%s/%v", msgScalarToken(fd, fd.Default()), fd.HasDefault())
	}
	if fd.IsExtension() {
		fmt.Fprintf(&sb, " ext=%s of %s", flvStrip(string(fd.FullName())), flvStrip(string(fd.ContainingMessage().FullName())))
	}
	return sb.String()
}

func flvSchemaSig(md protoreflect.MessageDescriptor) []string {
	var out []string
	out = append(out, fmt.Sprintf("message %s mset=%v", flvStrip(string(md.FullName())), messageset.IsMessageSet(md)))
	fds := md.Fields()
	for i := 0; i < fds.Len(); i++ {
		out = append(out, flvFieldSig(fds.Get(i)))
	}
	ods := md.Oneofs()
	for i := 0; i < ods.Len(); i++ {
		out = append(out, fmt.Sprintf("oneof %s %d", ods.Get(i).Name(), ods.Get(i).Fields().Len()))
	}
	er := md.ExtensionRanges()
	for i := 0; i < er.Len(); i++ {
		out = append(out, fmt.Sprintf("range %d-%d", er.Get(i)[0], er.Get(i)[1]))
	}
	return out
}

var flvCommonExtCache = map[protoreflect.FullName]map[protoreflect.FieldNumber]bool{}

// flvCommonExts: numbers of the extensions of the open message md that are registered for all
// linked API-level variants of md (another linked package may extend only the open form).
func flvCommonExts(md protoreflect.MessageDescriptor) map[protoreflect.FieldNumber]bool {
	if s, ok := flvCommonExtCache[md.FullName()]; ok {
		return s
	}
	s := map[protoreflect.FieldNumber]bool{}
	for _, xd := range msgExtensionsOf(md) {
		s[xd.Number()] = true
	}
	for _, label := range []string{"hybrid.", "opaque."} {
		mt, err := protoregistry.GlobalTypes.FindMessageByName(protoreflect.FullName(label + string(md.FullName())))
		if err != nil {
			continue
		}
		have := map[protoreflect.FieldNumber]bool{}
		for _, xd := range msgExtensionsOf(mt.Descriptor()) {
			have[xd.Number()] = true
		}
		for n := range s {
			if !have[n] {
				delete(s, n)
			}
		}
	}
	flvCommonExtCache[md.FullName()] = s
	return s
}

func flvCheckSchemas(c *Ctx, ts []*flvTriple) {
	for _, t := range ts {
		if !t.full() {
			continue
		}
		ref := flvSchemaSig(t.mts[0].Descriptor())
		for vi := 1; vi < 3; vi++ {
			got := flvSchemaSig(t.mts[vi].Descriptor())
			c.Stat("schema_compared")
			if len(got) != len(ref) {
				c.PropFail("C29", "schemas differ (number of fields/oneofs/extensions): open vs "+flvAPI[vi]+" "+t.name, strconv.Itoa(len(ref)), strconv.Itoa(len(got)))
				continue
			}
			for i := range ref {
				if ref[i] != got[i] {
					c.PropFail("C29", "schemas differ: open vs "+flvAPI[vi]+" "+t.name, strings.ReplaceAll(ref[i], "\t", " "), strings.ReplaceAll(got[i], "\t", " "))
					break
				}
			}
			// registered extensions, by number
			xo := map[protoreflect.FieldNumber]string{}
			for _, xd := range msgExtensionsOf(t.mts[0].Descriptor()) {
				xo[xd.Number()] = flvFieldSig(xd)
			}
			for _, xd := range msgExtensionsOf(t.mts[vi].Descriptor()) {
				c.Stat("schema_extension_compared")
				so, ok := xo[xd.Number()]
				delete(xo, xd.Number())
				if !ok {
					c.Stat("schema_extension_only_in_" + flvAPI[vi])
					c.Sample(fmt.Sprintf("extension %d of %s is linked only for the %s form", xd.Number(), t.name, flvAPI[vi]))
				} else if sx := flvFieldSig(xd); sx != so {
					c.PropFail("C29", "extension schemas differ: open vs "+flvAPI[vi]+" "+t.name, so, sx)
				}
			}
			var only []int
			for n := range xo {
				only = append(only, int(n))
			}
			sort.Ints(only)
			for _, n := range only {
				// legitimate: another linked package extends only the open form
				c.Stat("schema_extension_only_in_open")
				c.Sample(fmt.Sprintf("extension %d of %s is linked only for the open form (not for %s)", n, t.name, flvAPI[vi]))
			}
		}
	}
	// enum types of the labelled packages (covers the enums family, which has no messages)
	protoregistry.GlobalTypes.RangeEnums(func(et protoreflect.EnumType) bool {
		ed := et.Descriptor()
		n := string(ed.FullName())
		if flvStrip(n) == n {
			return true
		}
		ot, err := protoregistry.GlobalTypes.FindEnumByName(protoreflect.FullName(flvStrip(n)))
		if err != nil {
			c.Stat("enum_no_open_form")
			return true
		}
		c.Stat("enum_compared")
		od := ot.Descriptor()
		bad := od.Values().Len() != ed.Values().Len() || od.IsClosed() != ed.IsClosed()
		for i := 0; !bad && i < od.Values().Len(); i++ {
			a, b := od.Values().Get(i), ed.Values().Get(i)
			bad = a.Name() != b.Name() || a.Number() != b.Number()
			// the generated Go enum types: String and Number of the same value
			if !bad {
				ga, gb := ot.New(a.Number()), et.New(b.Number())
				sa, oka := ga.(fmt.Stringer)
				sb, okb := gb.(fmt.Stringer)
				if ga.Number() != gb.Number() || oka != okb || (oka && sa.String() != sb.String()) {
					c.PropFail("C29", "generated enum value differs: open vs labelled "+n, string(a.Name()))
				}
			}
		}
		if bad {
			c.PropFail("C29", "enum schemas differ: "+flvStrip(n)+" vs "+n)
		}
		return true
	})
}

// ---------------------------------------------------------------- abstract content

type flvVal struct {
	sc  protoreflect.Value // scalar (when msg == nil)
	msg *flvMsg
}

type flvField struct {
	num  protoreflect.FieldNumber
	ext  bool
	card byte // 's' singular 'l' list 'm' map
	val  flvVal
	list []flvVal
	keys []protoreflect.Value
	vals []flvVal
}

type flvMsg struct {
	fields  []flvField
	unknown []byte
}

type flvGen struct {
	c      *Ctx
	budget int
	dense  bool
	// content properties that legitimately change a comparison
	closedUnknownEnum bool // a closed enum holds a number that is not declared
	hasExt            bool // some message of the content carries an extension field
	largeExtNum       bool // ... with a number above 2^29-1 (legal only in a MessageSet)
}

func (g *flvGen) scalar(fd protoreflect.FieldDescriptor) protoreflect.Value {
	v := msgScalar(g.c, fd, false)
	if fd.Kind() == protoreflect.EnumKind && fd.Enum().IsClosed() && fd.Enum().Values().ByNumber(v.Enum()) == nil {
		g.closedUnknownEnum = true
	}
	return v
}

func (g *flvGen) value(fd protoreflect.FieldDescriptor, depth int) flvVal {
	g.budget--
	if sub := fd.Message(); sub != nil {
		if depth <= 0 || g.budget <= 0 || g.c.Intn(4) == 0 {
			g.c.Stat("gen_empty_present_message")
			return flvVal{msg: &flvMsg{}}
		}
		return flvVal{msg: g.message(sub, depth-1)}
	}
	return flvVal{sc: g.scalar(fd)}
}

func (g *flvGen) field(fd protoreflect.FieldDescriptor, depth int) flvField {
	f := flvField{num: fd.Number(), ext: fd.IsExtension()}
	switch {
	case fd.IsMap():
		f.card = 'm'
		n := g.c.Intn(4)
		seen := map[string]bool{}
		for i := 0; i < n; i++ {
			k := g.scalar(fd.MapKey())
			kt := msgScalarToken(fd.MapKey(), k)
			if seen[kt] {
				continue
			}
			seen[kt] = true
			f.keys = append(f.keys, k)
			f.vals = append(f.vals, g.value(fd.MapValue(), depth))
		}
		g.c.Stat("gen_map_len" + strconv.Itoa(len(f.keys)))
	case fd.IsList():
		f.card = 'l'
		n := g.c.Intn(5)
		for i := 0; i < n; i++ {
			f.list = append(f.list, g.value(fd, depth))
		}
		g.c.Stat("gen_list_len" + strconv.Itoa(n))
	default:
		f.card = 's'
		f.val = g.value(fd, depth)
	}
	return f
}

func (g *flvGen) message(md protoreflect.MessageDescriptor, depth int) *flvMsg {
	c := g.c
	out := &flvMsg{}
	fds := md.Fields()
	p := []int{2, 3, 3, 6}[c.Intn(4)]
	if fds.Len() > 40 {
		p *= 2
	}
	chosen := map[int]protoreflect.FieldNumber{}
	ods := md.Oneofs()
	for i := 0; i < ods.Len(); i++ {
		od := ods.Get(i)
		if !od.IsSynthetic() && (g.dense || c.Intn(3) != 0) {
			chosen[od.Index()] = od.Fields().Get(c.Intn(od.Fields().Len())).Number()
		}
	}
	for i := 0; i < fds.Len(); i++ {
		fd := fds.Get(i)
		if od := fd.ContainingOneof(); od != nil && !od.IsSynthetic() {
			if chosen[od.Index()] != fd.Number() {
				continue
			}
			c.Stat("gen_oneof_member")
		} else if !g.dense && c.Intn(p) != 0 {
			continue
		}
		if g.budget <= 0 {
			break
		}
		out.fields = append(out.fields, g.field(fd, depth))
	}
	common := flvCommonExts(md)
	for _, xd := range msgExtensionsOf(md) {
		if !common[xd.Number()] {
			continue
		}
		if g.budget <= 0 || c.Intn(p+1) != 0 {
			continue
		}
		c.Stat("gen_extension")
		g.hasExt = true
		if xd.Number() > 1<<29-1 {
			g.largeExtNum = true
		}
		out.fields = append(out.fields, g.field(xd, depth))
	}
	if c.Intn(6) == 0 {
		out.unknown = msgGenUnknown(c, md)
		c.Stat("gen_unknown")
	}
	return out
}

func flvHasMset(md protoreflect.MessageDescriptor, m *flvMsg) bool {
	if messageset.IsMessageSet(md) {
		return true
	}
	for i := range m.fields {
		f := &m.fields[i]
		fd := flvFindField(md, f.num, f.ext)
		if fd == nil {
			continue
		}
		vfd := fd
		if fd.IsMap() {
			vfd = fd.MapValue()
		}
		sub := vfd.Message()
		if sub == nil {
			continue
		}
		each := func(v flvVal) bool { return v.msg != nil && flvHasMset(sub, v.msg) }
		switch f.card {
		case 's':
			if each(f.val) {
				return true
			}
		case 'l':
			for _, v := range f.list {
				if each(v) {
					return true
				}
			}
		case 'm':
			for _, v := range f.vals {
				if each(v) {
					return true
				}
			}
		}
	}
	return false
}

// flvFindField: declared field or the extension registered in GlobalTypes for md.
func flvFindField(md protoreflect.MessageDescriptor, num protoreflect.FieldNumber, ext bool) protoreflect.FieldDescriptor {
	if !ext {
		return md.Fields().ByNumber(num)
	}
	xt, err := protoregistry.GlobalTypes.FindExtensionByNumber(md.FullName(), num)
	if err != nil {
		return nil
	}
	return xt.TypeDescriptor()
}

func flvCopyScalar(v protoreflect.Value) protoreflect.Value {
	if b, ok := v.Interface().([]byte); ok {
		return protoreflect.ValueOfBytes(append(make([]byte, 0, len(b)), b...))
	}
	return v
}

// ---------------------------------------------------------------- building through protoreflect

var flvDynExt = map[protoreflect.FullName]protoreflect.ExtensionTypeDescriptor{}

func flvDynExtOf(xd protoreflect.ExtensionTypeDescriptor) protoreflect.ExtensionTypeDescriptor {
	if d, ok := flvDynExt[xd.FullName()]; ok {
		return d
	}
	d := dynamicpb.NewExtensionType(xd.Descriptor()).TypeDescriptor()
	flvDynExt[xd.FullName()] = d
	return d
}

type flvMissing struct{ what string }

// flvFillReflect populates m with the content through protoreflect only.  dyn: message-typed and
// all other extension values are dynamicpb too (dynamicpb.NewExtensionType).
func flvFillReflect(c *Ctx, m protoreflect.Message, content *flvMsg, dyn bool) {
	md := m.Descriptor()
	for i := range content.fields {
		f := &content.fields[i]
		fd := flvFindField(md, f.num, f.ext)
		if fd == nil {
			panic(flvMissing{fmt.Sprintf("no field %d (ext=%v) in %s", f.num, f.ext, md.FullName())})
		}
		if f.ext && dyn {
			fd = flvDynExtOf(fd.(protoreflect.ExtensionTypeDescriptor))
		}
		elem := func(efd protoreflect.FieldDescriptor, v flvVal, mk func() protoreflect.Value) protoreflect.Value {
			if v.msg != nil {
				nv := mk()
				flvFillReflect(c, nv.Message(), v.msg, dyn)
				return nv
			}
			return flvCopyScalar(v.sc)
		}
		switch f.card {
		case 's':
			if f.val.msg != nil {
				if f.ext || c.Bool() {
					nv := m.NewField(fd)
					flvFillReflect(c, nv.Message(), f.val.msg, dyn)
					m.Set(fd, nv)
				} else {
					flvFillReflect(c, m.Mutable(fd).Message(), f.val.msg, dyn)
				}
			} else {
				m.Set(fd, flvCopyScalar(f.val.sc))
			}
		case 'l':
			if len(f.list) == 0 && c.Bool() {
				continue
			}
			var l protoreflect.List
			viaSet := f.ext || c.Bool()
			if viaSet {
				l = m.NewField(fd).List()
			} else {
				l = m.Mutable(fd).List()
			}
			for _, v := range f.list {
				l.Append(elem(fd, v, l.NewElement))
			}
			if viaSet {
				m.Set(fd, protoreflect.ValueOfList(l))
			}
		case 'm':
			if len(f.keys) == 0 && c.Bool() {
				continue
			}
			var mp protoreflect.Map
			viaSet := c.Bool()
			if viaSet {
				mp = m.NewField(fd).Map()
			} else {
				mp = m.Mutable(fd).Map()
			}
			for j, k := range f.keys {
				mp.Set(flvCopyScalar(k).MapKey(), elem(fd.MapValue(), f.vals[j], mp.NewValue))
			}
			if viaSet {
				m.Set(fd, protoreflect.ValueOfMap(mp))
			}
		}
	}
	if content.unknown != nil {
		m.SetUnknown(append(protoreflect.RawFields(nil), content.unknown...))
	}
}

// ---------------------------------------------------------------- Go-side type information

type flvFieldInfo struct {
	num   protoreflect.FieldNumber
	camel string       // Go camel-case name used by setters / builders
	goNm  string       // name of the struct field (open / hybrid) or wrapper field
	sfIdx int          // index of the exported struct field, or -1
	ooIdx int          // index of the exported oneof interface field, or -1
	wrapT reflect.Type // oneof wrapper struct type, or nil
	get   int          // method indices (on the pointer type), or -1
	set   int
	has   int
	clear int
	bfIdx int // builder struct field index, or -1
}

type flvGoInfo struct {
	t        reflect.Type // pointer to struct
	api      string
	md       protoreflect.MessageDescriptor
	f        map[protoreflect.FieldNumber]*flvFieldInfo
	builderT reflect.Type
	which    map[protoreflect.Name]int // real oneof -> Which method index
	hasOO    map[protoreflect.Name]int // real oneof -> Has method index
	clearOO  map[protoreflect.Name]int // real oneof -> Clear method index
}

var flvInfoCache = map[reflect.Type]*flvGoInfo{}

func flvTagNumber(tag reflect.StructTag) protoreflect.FieldNumber {
	s := tag.Get("protobuf")
	parts := strings.Split(s, ",")
	if len(parts) < 2 {
		return 0
	}
	n, err := strconv.Atoi(parts[1])
	if err != nil {
		return 0
	}
	return protoreflect.FieldNumber(n)
}

func flvMethod(t reflect.Type, names ...string) int {
	for _, n := range names {
		if n == "" {
			continue
		}
		if m, ok := t.MethodByName(n); ok {
			return m.Index
		}
	}
	return -1
}

func flvInfoOf(c *Ctx, t reflect.Type) *flvGoInfo {
	if gi, ok := flvInfoCache[t]; ok {
		return gi
	}
	gi := &flvGoInfo{t: t, api: flvGoAPI(t), f: map[protoreflect.FieldNumber]*flvFieldInfo{},
		which: map[protoreflect.Name]int{}, hasOO: map[protoreflect.Name]int{}, clearOO: map[protoreflect.Name]int{}}
	flvInfoCache[t] = gi
	pmsg, ok := reflect.Zero(t).Interface().(proto.Message)
	if !ok {
		gi.api = "other"
		return gi
	}
	gi.md = pmsg.ProtoReflect().Descriptor()
	if gi.api == "other" {
		c.Stat("goinfo_other_api")
		return gi
	}
	st := t.Elem()
	sfByNum := map[protoreflect.FieldNumber]int{}
	hidden := map[protoreflect.FieldNumber]string{}
	ooByName := map[string]int{}
	for i := 0; i < st.NumField(); i++ {
		sf := st.Field(i)
		if n := flvTagNumber(sf.Tag); n != 0 {
			if sf.IsExported() {
				sfByNum[n] = i
			} else {
				hidden[n] = strings.TrimPrefix(sf.Name, "xxx_hidden_")
			}
		}
		if on := sf.Tag.Get("protobuf_oneof"); on != "" && sf.IsExported() {
			ooByName[on] = i
		}
	}
	wrapByNum := map[protoreflect.FieldNumber]reflect.Type{}
	if mr, ok := pmsg.ProtoReflect().(interface{ ProtoMessageInfo() *impl.MessageInfo }); ok {
		for _, w := range mr.ProtoMessageInfo().OneofWrappers {
			wt := reflect.TypeOf(w)
			if wt.Kind() == reflect.Ptr && wt.Elem().Kind() == reflect.Struct && wt.Elem().NumField() == 1 {
				if n := flvTagNumber(wt.Elem().Field(0).Tag); n != 0 {
					wrapByNum[n] = wt.Elem()
				}
			}
		}
	}
	gi.builderT = flvBuilderOf[t]
	fds := gi.md.Fields()
	for i := 0; i < fds.Len(); i++ {
		fd := fds.Get(i)
		fi := &flvFieldInfo{num: fd.Number(), camel: strs.GoCamelCase(string(fd.Name())), sfIdx: -1, ooIdx: -1, bfIdx: -1}
		if idx, ok := sfByNum[fd.Number()]; ok {
			fi.sfIdx = idx
			fi.goNm = st.Field(idx).Name
		} else if h, ok := hidden[fd.Number()]; ok {
			fi.goNm = h
		}
		if od := fd.ContainingOneof(); od != nil && !od.IsSynthetic() {
			if wt, ok := wrapByNum[fd.Number()]; ok {
				fi.goNm = wt.Field(0).Name
				if wt.Field(0).IsExported() {
					fi.wrapT = wt // only used together with an exported oneof interface field
				}
			} else {
				c.Stat("goinfo_no_oneof_wrapper_" + gi.api)
			}
			if idx, ok := ooByName[string(od.Name())]; ok {
				fi.ooIdx = idx
			}
		}
		switch gi.api {
		case "open":
			fi.get = flvMethod(t, "Get"+fi.goNm, "Get"+fi.camel)
			fi.set, fi.has, fi.clear = -1, -1, -1
		default:
			fi.get = flvMethod(t, "Get"+fi.camel, "Get_"+fi.camel, "Get"+fi.goNm)
			fi.set = flvMethod(t, "Set"+fi.camel, "Set_"+fi.camel)
			fi.has = flvMethod(t, "Has"+fi.camel, "Has_"+fi.camel)
			fi.clear = flvMethod(t, "Clear"+fi.camel, "Clear_"+fi.camel)
			if fi.set < 0 {
				c.Stat("goinfo_no_setter_" + gi.api)
				c.Sample(fmt.Sprintf("no Set%s on %s", fi.camel, t))
			}
			if fd.HasPresence() && fi.clear < 0 {
				c.Stat("goinfo_no_clearer_" + gi.api)
				c.Sample(fmt.Sprintf("no Clear%s on %s", fi.camel, t))
			}
			if fd.HasPresence() && fi.has < 0 {
				c.Stat("goinfo_no_hasser_" + gi.api)
				c.Sample(fmt.Sprintf("no Has%s on %s", fi.camel, t))
			}
		}
		if fi.get < 0 {
			c.Stat("goinfo_no_getter_" + gi.api)
			c.Sample(fmt.Sprintf("no Get%s on %s", fi.camel, t))
		}
		if gi.builderT != nil {
			if bf, ok := gi.builderT.FieldByName(fi.camel); ok {
				fi.bfIdx = bf.Index[0]
			} else {
				c.Stat("goinfo_no_builder_field_" + gi.api)
				c.Sample(fmt.Sprintf("no builder field %s in %s", fi.camel, gi.builderT))
			}
		}
		gi.f[fd.Number()] = fi
	}
	if gi.api != "open" {
		ods := gi.md.Oneofs()
		for i := 0; i < ods.Len(); i++ {
			od := ods.Get(i)
			if od.IsSynthetic() {
				continue
			}
			cm := strs.GoCamelCase(string(od.Name()))
			gi.which[od.Name()] = flvMethod(t, "Which"+cm, "Which_"+cm)
			gi.hasOO[od.Name()] = flvMethod(t, "Has"+cm, "Has_"+cm)
			gi.clearOO[od.Name()] = flvMethod(t, "Clear"+cm, "Clear_"+cm)
			if gi.which[od.Name()] < 0 {
				c.Stat("goinfo_no_whicher_" + gi.api)
				c.Sample(fmt.Sprintf("no Which%s on %s", cm, t))
			}
		}
		if gi.builderT == nil {
			c.Stat("goinfo_no_builder_registered_" + gi.api)
			c.Sample("no builder registered for " + t.String())
		}
	}
	c.Stat("goinfo_types_" + gi.api)
	return gi
}

// ---------------------------------------------------------------- building through the Go API

type flvGoBuilder struct {
	c *Ctx
}

func (b *flvGoBuilder) scalar(t reflect.Type, v protoreflect.Value, allowNil bool) reflect.Value {
	rv := reflect.New(t).Elem()
	switch t.Kind() {
	case reflect.Ptr:
		p := reflect.New(t.Elem())
		p.Elem().Set(b.scalar(t.Elem(), v, false))
		return p
	case reflect.Bool:
		rv.SetBool(v.Bool())
	case reflect.Int32, reflect.Int64:
		switch x := v.Interface().(type) {
		case protoreflect.EnumNumber:
			rv.SetInt(int64(x))
		default:
			rv.SetInt(v.Int())
		}
	case reflect.Uint32, reflect.Uint64:
		rv.SetUint(v.Uint())
	case reflect.Float32, reflect.Float64:
		rv.SetFloat(v.Float())
	case reflect.String:
		rv.SetString(v.String())
	case reflect.Slice:
		src := v.Bytes()
		if len(src) == 0 && allowNil && b.c.Bool() {
			b.c.Stat("go_nil_for_empty_bytes")
			return rv // nil slice
		}
		rv.SetBytes(append(make([]byte, 0, len(src)), src...))
	default:
		panic(flvMissing{"scalar of Go type " + t.String()})
	}
	return rv
}

// elem builds one element (scalar or message pointer) of Go type t.
func (b *flvGoBuilder) elem(t reflect.Type, v flvVal, mode string, allowNil bool) reflect.Value {
	if v.msg != nil {
		if t.Kind() != reflect.Ptr || t.Elem().Kind() != reflect.Struct {
			panic(flvMissing{"message value for Go type " + t.String()})
		}
		return b.msg(t, v.msg, mode)
	}
	return b.scalar(t, v.sc, allowNil)
}

// value builds the Go value of type t (scalar, pointer, slice or map) of a whole field.
func (b *flvGoBuilder) value(t reflect.Type, f *flvField, mode string, allowNil bool) reflect.Value {
	switch f.card {
	case 'l':
		if t.Kind() != reflect.Slice {
			panic(flvMissing{"list value for Go type " + t.String()})
		}
		if len(f.list) == 0 && b.c.Bool() {
			return reflect.Zero(t)
		}
		s := reflect.MakeSlice(t, len(f.list), len(f.list))
		for i, v := range f.list {
			s.Index(i).Set(b.elem(t.Elem(), v, mode, true))
		}
		return s
	case 'm':
		if t.Kind() != reflect.Map {
			panic(flvMissing{"map value for Go type " + t.String()})
		}
		if len(f.keys) == 0 && b.c.Bool() {
			return reflect.Zero(t)
		}
		mp := reflect.MakeMapWithSize(t, len(f.keys))
		for i, k := range f.keys {
			mp.SetMapIndex(b.scalar(t.Key(), k, false), b.elem(t.Elem(), f.vals[i], mode, true))
		}
		return mp
	}
	return b.elem(t, f.val, mode, allowNil)
}

// msg builds a generated message of Go type t (pointer to struct) holding content.
// mode: fields | setters | builder | mix | refl  (adapted to what the API level of t offers).
func (b *flvGoBuilder) msg(t reflect.Type, content *flvMsg, mode string) reflect.Value {
	c := b.c
	gi := flvInfoOf(c, t)
	sub := mode // mode handed to sub-messages
	switch {
	case mode == "refl" || gi.api == "other":
		if gi.api == "other" {
			c.Stat("go_build_other_api_via_reflection")
		}
		p := reflect.New(t.Elem())
		flvFillReflect(c, p.Interface().(proto.Message).ProtoReflect(), content, false)
		return p
	case gi.api == "open":
		mode = "fields"
	case mode == "mix":
		if gi.api == "hybrid" {
			mode = []string{"fields", "setters", "builder"}[c.Intn(3)]
		} else {
			mode = []string{"setters", "builder"}[c.Intn(2)]
		}
	case mode == "fields" && gi.api == "opaque":
		mode = "setters"
	}
	if mode == "builder" && gi.builderT == nil {
		c.Stat("go_builder_fallback_to_setters")
		mode = "setters"
	}
	c.Stat("go_msg_" + gi.api + "_" + mode)

	var p reflect.Value  // *T
	var late []*flvField // fields the builder cannot express: set afterwards
	switch mode {
	case "fields":
		p = reflect.New(t.Elem())
		sv := p.Elem()
		for i := range content.fields {
			f := &content.fields[i]
			if f.ext {
				continue
			}
			fi := gi.f[f.num]
			if fi == nil {
				panic(flvMissing{fmt.Sprintf("no field %d in %s", f.num, t)})
			}
			switch {
			case fi.wrapT != nil && fi.ooIdx >= 0:
				w := reflect.New(fi.wrapT)
				w.Elem().Field(0).Set(b.value(fi.wrapT.Field(0).Type, f, sub, true))
				sv.Field(fi.ooIdx).Set(w)
			case fi.sfIdx >= 0:
				fv := sv.Field(fi.sfIdx)
				fv.Set(b.value(fv.Type(), f, sub, false))
			default:
				panic(flvMissing{fmt.Sprintf("no exported struct field for %d in %s", f.num, t)})
			}
		}
	case "setters":
		p = reflect.New(t.Elem())
		for i := range content.fields {
			f := &content.fields[i]
			if f.ext {
				continue
			}
			fi := gi.f[f.num]
			if fi == nil || fi.set < 0 {
				panic(flvMissing{fmt.Sprintf("no setter for field %d in %s", f.num, t)})
			}
			if fd := gi.md.Fields().ByNumber(f.num); fd != nil && c.Intn(3) == 0 {
				if od := fd.ContainingOneof(); od != nil && !od.IsSynthetic() && od.Fields().Len() > 1 {
					// another member first: the real one must replace it
					fd2 := od.Fields().Get(c.Intn(od.Fields().Len()))
					if fi2 := gi.f[fd2.Number()]; fd2.Number() != f.num && fi2 != nil && fi2.set >= 0 {
						junk := (&flvGen{c: c, budget: 4}).field(fd2, 1)
						mv2 := p.Method(fi2.set)
						mv2.Call([]reflect.Value{b.value(mv2.Type().In(0), &junk, sub, true)})
						c.Stat("go_setter_oneof_other_member_first")
					}
				}
			}
			mv := p.Method(fi.set)
			mv.Call([]reflect.Value{b.value(mv.Type().In(0), f, sub, true)})
		}
	case "builder":
		bv := reflect.New(gi.builderT).Elem()
		for i := range content.fields {
			f := &content.fields[i]
			if f.ext {
				continue
			}
			fi := gi.f[f.num]
			if fi == nil {
				panic(flvMissing{fmt.Sprintf("no field %d in %s", f.num, t)})
			}
			if fi.bfIdx < 0 {
				c.Stat("go_builder_field_missing_set_afterwards")
				late = append(late, f)
				continue
			}
			fv := bv.Field(fi.bfIdx)
			fv.Set(b.value(fv.Type(), f, sub, false))
		}
		p = bv.MethodByName("Build").Call(nil)[0]
		for _, f := range late {
			fi := gi.f[f.num]
			if fi.set < 0 {
				panic(flvMissing{fmt.Sprintf("no builder field and no setter for field %d in %s", f.num, t)})
			}
			mv := p.Method(fi.set)
			mv.Call([]reflect.Value{b.value(mv.Type().In(0), f, sub, true)})
		}
	}
	pm := p.Interface().(proto.Message)
	for i := range content.fields {
		f := &content.fields[i]
		if !f.ext {
			continue
		}
		xt, err := protoregistry.GlobalTypes.FindExtensionByNumber(gi.md.FullName(), f.num)
		if err != nil {
			panic(flvMissing{fmt.Sprintf("no extension %d of %s", f.num, gi.md.FullName())})
		}
		gt := reflect.TypeOf(xt.InterfaceOf(xt.Zero()))
		if gt == nil {
			panic(flvMissing{"extension without Go type: " + string(xt.TypeDescriptor().FullName())})
		}
		proto.SetExtension(pm, xt, b.value(gt, f, sub, true).Interface())
	}
	if content.unknown != nil {
		pm.ProtoReflect().SetUnknown(append(protoreflect.RawFields(nil), content.unknown...))
	}
	return p
}

// ---------------------------------------------------------------- observations

var flvWireOpts = proto.MarshalOptions{Deterministic: true, AllowPartial: true}

func flvDumpStr(m protoreflect.Message) string { return strings.Join(msgDump(m), " ") }

func flvClip(s string) string {
	s = strings.NewReplacer("\t", " ", "\n", " ").Replace(s)
	if len(s) > 1500 {
		return s[:1500] + "..."
	}
	return s
}

func flvNormJSON(b []byte) string {
	b = bytes.ReplaceAll(b, []byte(`"[hybrid.`), []byte(`"[`))
	b = bytes.ReplaceAll(b, []byte(`"[opaque.`), []byte(`"[`))
	var out bytes.Buffer
	if err := json.Compact(&out, b); err != nil {
		return "!invalid json: " + string(b)
	}
	return out.String()
}

func flvNormText(b []byte) string {
	s := string(b)
	s = strings.ReplaceAll(s, "[hybrid.", "[")
	s = strings.ReplaceAll(s, "[opaque.", "[")
	for strings.Contains(s, "  ") {
		s = strings.ReplaceAll(s, "  ", " ")
	}
	return strings.TrimSpace(s)
}

// flvWhich renders WhichOneof of every oneof (real and synthetic) of m and of all populated
// sub-messages (the repaired finding FWE2 -- opaque synthetic oneofs -- is a plain comparison now).
func flvWhich(c *Ctx, opaque bool, m protoreflect.Message, out []string) []string {
	md := m.Descriptor()
	ods := md.Oneofs()
	for i := 0; i < ods.Len(); i++ {
		od := ods.Get(i)
		w := m.WhichOneof(od)
		n := protoreflect.FieldNumber(0)
		if w != nil {
			n = w.Number()
		}
		out = append(out, "o"+strconv.Itoa(i)+"="+strconv.Itoa(int(n)))
	}
	type ent struct {
		fd protoreflect.FieldDescriptor
		v  protoreflect.Value
	}
	var es []ent
	m.Range(func(fd protoreflect.FieldDescriptor, v protoreflect.Value) bool {
		if (fd.IsMap() && fd.MapValue().Message() != nil) || (!fd.IsMap() && fd.Message() != nil) {
			es = append(es, ent{fd, v})
		}
		return true
	})
	sort.Slice(es, func(i, j int) bool { return es[i].fd.Number() < es[j].fd.Number() })
	for _, e := range es {
		out = append(out, "f"+strconv.Itoa(int(e.fd.Number())))
		switch {
		case e.fd.IsMap():
			mp := e.v.Map()
			var keys []protoreflect.MapKey
			mp.Range(func(k protoreflect.MapKey, _ protoreflect.Value) bool { keys = append(keys, k); return true })
			sort.Slice(keys, func(i, j int) bool { return msgKeyLess(keys[i], keys[j]) })
			for _, k := range keys {
				out = flvWhich(c, flvIsOpaqueMsg(mp.Get(k).Message()), mp.Get(k).Message(), append(out, "{"))
				out = append(out, "}")
			}
		case e.fd.IsList():
			l := e.v.List()
			for j := 0; j < l.Len(); j++ {
				out = flvWhich(c, flvIsOpaqueMsg(l.Get(j).Message()), l.Get(j).Message(), append(out, "{"))
				out = append(out, "}")
			}
		default:
			out = flvWhich(c, flvIsOpaqueMsg(e.v.Message()), e.v.Message(), append(out, "{"))
			out = append(out, "}")
		}
	}
	return out
}

func flvIsOpaqueMsg(m protoreflect.Message) bool {
	if _, ok := m.Interface().(*dynamicpb.Message); ok {
		return false
	}
	return flvGoAPI(reflect.TypeOf(m.Interface())) == "opaque"
}

// ---------------------------------------------------------------- getters against reflection

// flvDeepToks: render sub-messages by their full dump; otherwise by pointer identity (the getter
// and reflection hand out the same generated struct), which is what makes the check affordable.
// Identity tokens never reach the output: a difference is re-evaluated with full dumps.
var flvDeepToks bool

func flvMsgIdent(m proto.Message) string {
	if !flvDeepToks {
		if rv := reflect.ValueOf(m); rv.Kind() == reflect.Ptr {
			return "msg@" + strconv.FormatUint(uint64(rv.Pointer()), 16)
		}
	}
	return strings.Join(msgDump(m.ProtoReflect()), " ")
}

func flvGoElemToks(fd protoreflect.FieldDescriptor, rv reflect.Value) []string {
	if fd.Message() != nil {
		if rv.Kind() != reflect.Ptr || rv.IsNil() {
			return []string{"nil"}
		}
		return []string{flvMsgIdent(rv.Interface().(proto.Message))}
	}
	switch fd.Kind() {
	case protoreflect.BoolKind:
		return []string{"b" + Tok(rv.Bool())}
	case protoreflect.EnumKind:
		if e, ok := rv.Interface().(protoreflect.Enum); ok {
			return []string{"z" + HexZ(int64(e.Number()))}
		}
		return []string{"z" + HexZ(rv.Int()) + "(no Number method)"}
	case protoreflect.Int32Kind, protoreflect.Sint32Kind, protoreflect.Sfixed32Kind,
		protoreflect.Int64Kind, protoreflect.Sint64Kind, protoreflect.Sfixed64Kind:
		return []string{"z" + HexZ(rv.Int())}
	case protoreflect.Uint32Kind, protoreflect.Fixed32Kind, protoreflect.Uint64Kind, protoreflect.Fixed64Kind:
		return []string{"n" + HexN(rv.Uint())}
	case protoreflect.FloatKind:
		return []string{"n" + HexN(uint64(math.Float32bits(float32(rv.Float()))))}
	case protoreflect.DoubleKind:
		return []string{"n" + HexN(math.Float64bits(rv.Float()))}
	case protoreflect.StringKind:
		return []string{HexB([]byte(rv.String()))}
	case protoreflect.BytesKind:
		return []string{HexB(rv.Bytes())}
	}
	return []string{"?"}
}

// flvGoFieldToks renders a Go getter result (or exported field value, deref'ed) like flvReflFieldToks.
func flvGoFieldToks(fd protoreflect.FieldDescriptor, rv reflect.Value) string {
	switch {
	case fd.IsMap():
		if rv.Kind() != reflect.Map {
			return "!not a map"
		}
		var ents []string
		it := rv.MapRange()
		for it.Next() {
			ents = append(ents, strings.Join(flvGoElemToks(fd.MapKey(), it.Key()), " ")+"->"+strings.Join(flvGoElemToks(fd.MapValue(), it.Value()), " "))
		}
		sort.Strings(ents)
		return "map " + strconv.Itoa(len(ents)) + " " + strings.Join(ents, " ; ")
	case fd.IsList():
		if rv.Kind() != reflect.Slice {
			return "!not a slice"
		}
		toks := []string{"list", strconv.Itoa(rv.Len())}
		for i := 0; i < rv.Len(); i++ {
			toks = append(toks, flvGoElemToks(fd, rv.Index(i))...)
		}
		return strings.Join(toks, " ")
	}
	return strings.Join(flvGoElemToks(fd, rv), " ")
}

func flvReflFieldToks(fd protoreflect.FieldDescriptor, m protoreflect.Message) string {
	v := m.Get(fd)
	switch {
	case fd.IsMap():
		var ents []string
		v.Map().Range(func(k protoreflect.MapKey, e protoreflect.Value) bool {
			if fd.MapValue().Message() != nil {
				ents = append(ents, msgScalarToken(fd.MapKey(), k.Value())+"->"+flvMsgIdent(e.Message().Interface()))
			} else {
				ents = append(ents, msgScalarToken(fd.MapKey(), k.Value())+"->"+msgScalarToken(fd.MapValue(), e))
			}
			return true
		})
		sort.Strings(ents)
		return "map " + strconv.Itoa(len(ents)) + " " + strings.Join(ents, " ; ")
	case fd.IsList():
		l := v.List()
		toks := []string{"list", strconv.Itoa(l.Len())}
		for i := 0; i < l.Len(); i++ {
			if fd.Message() != nil {
				toks = append(toks, flvMsgIdent(l.Get(i).Message().Interface()))
			} else {
				toks = append(toks, msgScalarToken(fd, l.Get(i)))
			}
		}
		return strings.Join(toks, " ")
	case fd.Message() != nil:
		if !m.Has(fd) {
			return "nil"
		}
		return flvMsgIdent(v.Message().Interface())
	}
	return msgScalarToken(fd, v)
}

type flvGetterCheck struct {
	c    *Ctx
	fail func(what string, ev ...string)
	n    int
}

// same compares the Go-side rendering of rv with the reflection rendering of field fd of m; on a
// difference both are rendered again with full sub-message dumps.
func (g *flvGetterCheck) same(fd protoreflect.FieldDescriptor, rv reflect.Value, m protoreflect.Message, want string) (bool, string, string) {
	gs := flvGoFieldToks(fd, rv)
	if gs == want {
		return true, "", ""
	}
	flvDeepToks = true
	defer func() { flvDeepToks = false }()
	gs, want = flvGoFieldToks(fd, rv), flvReflFieldToks(fd, m)
	if gs == want {
		g.c.Stat("getter_submessage_not_pointer_identical_but_equal")
		return true, "", ""
	}
	return false, flvClip(gs), flvClip(want)
}

// check compares, for every declared field of the generated message p (pointer to struct),
// Get<F>() / Has<F>() / Which<Oneof>() / the exported struct field with reflection, recursively.
func (g *flvGetterCheck) check(p reflect.Value, depth int) {
	c := g.c
	if p.Kind() != reflect.Ptr || p.IsNil() || depth > 6 {
		return
	}
	pmsg, ok := p.Interface().(proto.Message)
	if !ok {
		return
	}
	gi := flvInfoOf(c, p.Type())
	if gi.api == "other" {
		return
	}
	m := pmsg.ProtoReflect()
	fds := gi.md.Fields()
	for i := 0; i < fds.Len(); i++ {
		fd := fds.Get(i)
		fi := gi.f[fd.Number()]
		want := flvReflFieldToks(fd, m)
		has := m.Has(fd)
		var got reflect.Value
		if fi.get >= 0 {
			g.n++
			got = p.Method(fi.get).Call(nil)[0]
			if ok, gs, ws := g.same(fd, got, m, want); !ok {
				g.fail(fmt.Sprintf("getter differs from reflection Get: %s.Get%s [%s]", gi.md.FullName(), fi.camel, gi.api), gs, ws)
			}
			if !has && fd.Message() == nil && !fd.IsList() && !fd.IsMap() {
				// unpopulated scalar: the declared default
				if gs, ds := flvGoFieldToks(fd, got), msgScalarToken(fd, fd.Default()); gs != ds {
					g.fail(fmt.Sprintf("getter of an unset field is not the default: %s.Get%s [%s]", gi.md.FullName(), fi.camel, gi.api), gs, ds)
				}
			}
		}
		if fi.has >= 0 {
			g.n++
			if h := p.Method(fi.has).Call(nil)[0].Bool(); h != has {
				g.fail(fmt.Sprintf("hasser differs from reflection Has: %s.Has%s [%s]", gi.md.FullName(), fi.camel, gi.api), Tok(h), Tok(has))
			}
		}
		// exported struct field (open, hybrid)
		if fi.sfIdx >= 0 {
			g.n++
			fv := p.Elem().Field(fi.sfIdx)
			switch {
			case fd.IsList() || fd.IsMap():
				if ok, gs, ws := g.same(fd, fv, m, want); !ok {
					g.fail(fmt.Sprintf("struct field differs from reflection: %s.%s [%s]", gi.md.FullName(), fi.goNm, gi.api), gs, ws)
				}
			case fv.Kind() == reflect.Ptr:
				if fv.IsNil() == has {
					g.fail(fmt.Sprintf("struct field nil-ness differs from reflection Has: %s.%s [%s]", gi.md.FullName(), fi.goNm, gi.api), Tok(!fv.IsNil()), Tok(has))
				} else if has && fd.Message() == nil {
					if ok, gs, ws := g.same(fd, fv.Elem(), m, want); !ok {
						g.fail(fmt.Sprintf("struct field differs from reflection: %s.%s [%s]", gi.md.FullName(), fi.goNm, gi.api), gs, ws)
					}
				} else if has {
					if ok, gs, ws := g.same(fd, fv, m, want); !ok {
						g.fail(fmt.Sprintf("struct field differs from reflection: %s.%s [%s]", gi.md.FullName(), fi.goNm, gi.api), gs, ws)
					}
				}
			case fd.HasPresence() && fd.Kind() == protoreflect.BytesKind:
				if fv.IsNil() == has {
					g.fail(fmt.Sprintf("struct field nil-ness differs from reflection Has: %s.%s [%s]", gi.md.FullName(), fi.goNm, gi.api), Tok(!fv.IsNil()), Tok(has))
				}
			case !fd.HasPresence():
				if ok, gs, ws := g.same(fd, fv, m, want); !ok {
					g.fail(fmt.Sprintf("struct field differs from reflection: %s.%s [%s]", gi.md.FullName(), fi.goNm, gi.api), gs, ws)
				}
			}
		}
		// recursion into the values the getter returned
		if got.IsValid() {
			vfd := fd
			if fd.IsMap() {
				vfd = fd.MapValue()
			}
			if vfd.Message() != nil {
				switch {
				case fd.IsMap():
					it := got.MapRange()
					for it.Next() {
						g.check(it.Value(), depth+1)
					}
				case fd.IsList():
					for j := 0; j < got.Len(); j++ {
						g.check(got.Index(j), depth+1)
					}
				default:
					g.check(got, depth+1)
				}
			}
		}
	}
	ods := gi.md.Oneofs()
	for i := 0; i < ods.Len(); i++ {
		od := ods.Get(i)
		if od.IsSynthetic() {
			continue
		}
		w := m.WhichOneof(od)
		wn := int64(0)
		if w != nil {
			wn = int64(w.Number())
		}
		if idx, ok := gi.which[od.Name()]; ok && idx >= 0 {
			g.n++
			rv := p.Method(idx).Call(nil)[0]
			var gn int64
			switch rv.Kind() {
			case reflect.Int32, reflect.Int64, reflect.Int:
				gn = rv.Int()
			case reflect.Uint32, reflect.Uint64, reflect.Uint:
				gn = int64(rv.Uint())
			default:
				gn = -1
			}
			if gn != wn {
				g.fail(fmt.Sprintf("Which%s differs from reflection WhichOneof: %s [%s]", od.Name(), gi.md.FullName(), gi.api), strconv.FormatInt(gn, 10), strconv.FormatInt(wn, 10))
			}
		}
		if idx, ok := gi.hasOO[od.Name()]; ok && idx >= 0 {
			g.n++
			if h := p.Method(idx).Call(nil)[0].Bool(); h != (w != nil) {
				g.fail(fmt.Sprintf("Has%s (oneof) differs from reflection WhichOneof: %s [%s]", od.Name(), gi.md.FullName(), gi.api), Tok(h), Tok(w != nil))
			}
		}
		// exported oneof interface field: wrapper type of the populated member
		for j := 0; j < od.Fields().Len(); j++ {
			fi := gi.f[od.Fields().Get(j).Number()]
			if fi.ooIdx < 0 || fi.wrapT == nil {
				continue
			}
			iv := p.Elem().Field(fi.ooIdx)
			isThis := !iv.IsNil() && iv.Elem().Type() == reflect.PtrTo(fi.wrapT)
			if isThis != (wn == int64(fi.num)) {
				g.fail(fmt.Sprintf("oneof struct field wrapper differs from reflection WhichOneof: %s.%s [%s]", gi.md.FullName(), od.Name(), gi.api), Tok(isThis), strconv.FormatInt(wn, 10))
			}
		}
	}
}

// ---------------------------------------------------------------- one content through all flavours

type flvBuilt struct {
	name string // flavour
	vi   int    // descriptor variant 0 open 1 hybrid 2 opaque
	gen  bool
	m    proto.Message
	wire []byte
	werr error
	dump string
}

type flvRun struct {
	heavy    bool
	c        *Ctx
	t        *flvTriple
	content  *flvMsg
	gen      *flvGen
	hasMset  bool
	dynExt   bool   // dyn/* flavours use dynamicpb.NewExtensionType instead of the registered extension types
	evidence string // rendered into every P line of this content
	failed   bool
}

var flvFailCount = map[string]int{}
var flvKnownSeen = map[string]bool{}

// flvKnown reports a recognised known finding: one K line per (id, place), every occurrence counted.
func flvKnown(c *Ctx, id, what string) {
	c.Stat("known_" + id)
	if flvKnownSeen[id+what] {
		return
	}
	flvKnownSeen[id+what] = true
	c.Known(id, "C29", what)
}

func (r *flvRun) fail(what string, ev ...string) {
	r.failed = true
	// keep the output readable when one defect fires on every content
	key := what
	if i := strings.Index(key, ":"); i > 0 {
		key = key[:i]
	}
	flvFailCount[key]++
	if flvFailCount[key] > 20 {
		r.c.Stat("pfail_suppressed_after_20")
		r.c.Fails++
		return
	}
	r.c.PropFail("C29", what+" "+r.t.name, append(ev, r.evidence)...)
}

// guard runs f, turning a panic into a P line (unless it is a harness-side lookup miss, which
// is a statistic + sample: the harness could not express the content in that flavour).
func (r *flvRun) guard(what string, f func()) (ok bool) {
	defer func() {
		if x := recover(); x != nil {
			ok = false
			if ms, isMiss := x.(flvMissing); isMiss {
				r.c.Stat("harness_cannot_express")
				r.c.Sample("cannot express: " + what + " " + r.t.name + ": " + ms.what)
				return
			}
			r.fail("panic in "+what+":", flvClip(fmt.Sprint(x)))
		}
	}()
	f()
	return true
}

func (r *flvRun) build(name string) *flvBuilt {
	c := r.c
	parts := strings.SplitN(name, "/", 2)
	bl := &flvBuilt{name: name}
	var mt protoreflect.MessageType
	label := parts[0]
	if label == "dyn" {
		label = parts[1]
	} else {
		bl.gen = true
	}
	for i, a := range flvAPI {
		if a == label {
			bl.vi = i // "self": the only form of a message that is not generated in three forms
		}
	}
	mt = r.t.mts[bl.vi]
	if mt == nil {
		return nil
	}
	ok := r.guard("build "+name, func() {
		if !bl.gen {
			m := dynamicpb.NewMessage(mt.Descriptor())
			flvFillReflect(c, m, r.content, r.dynExt)
			bl.m = m
			return
		}
		gb := &flvGoBuilder{c: c}
		p := gb.msg(reflect.TypeOf(mt.New().Interface()), r.content, parts[1])
		bl.m = p.Interface().(proto.Message)
	})
	if !ok || bl.m == nil {
		return nil
	}
	c.Stat("build_" + name)
	r.guard("marshal/dump "+name, func() {
		bl.wire, bl.werr = flvWireOpts.Marshal(bl.m)
		bl.dump = flvDumpStr(bl.m.ProtoReflect())
	})
	return bl
}

func flvErrStr(err error) string {
	if err == nil {
		return "ok"
	}
	return "err"
}

// flvIsF13 recognises finding F13 narrowly: the reflection-driven (slow path) codec refuses a
// message_set_wire_format message that the content really contains, in a build without protolegacy.
func (r *flvRun) isF13(err error, gen bool) bool {
	return err != nil && !gen && r.hasMset && strings.Contains(err.Error(), "message_set_wire_format")
}

func (r *flvRun) knownF13(where string) {
	flvKnown(r.c, "F13", "slow path refuses MessageSet without protolegacy while generated types encode it as an ordinary message: "+where+" "+r.t.name)
}

// flvRunContent never lets a panic of the implementation end the run.
func flvRunContent(c *Ctx, t *flvTriple, content *flvMsg, gen *flvGen, heavy bool) {
	defer func() {
		if x := recover(); x != nil {
			if ms, isMiss := x.(flvMissing); isMiss {
				c.Stat("harness_cannot_express")
				c.Sample("cannot express: " + t.name + ": " + ms.what)
				return
			}
			c.PropFail("C29", "panic while comparing the flavours of "+t.name, flvClip(fmt.Sprint(x)))
		}
	}()
	flvRunContent1(c, t, content, gen, heavy)
}

func flvRunContent1(c *Ctx, t *flvTriple, content *flvMsg, gen *flvGen, heavy bool) {
	r := &flvRun{c: c, t: t, content: content, gen: gen, heavy: heavy}
	md0 := t.mts[0].Descriptor()
	r.hasMset = t.mset && flvHasMset(md0, content)
	r.dynExt = gen.hasExt && c.Bool()
	c.Stat("contents")
	c.Stat("contents_" + t.fam)
	if gen.hasExt {
		c.Stat("contents_with_extensions_dynExt" + Tok(r.dynExt))
	}
	if r.hasMset {
		c.Stat("contents_with_messageset")
	}

	// ---- build
	names := []string{"dyn/self", "self/fields", "self/refl"}
	if t.full() {
		names = []string{"dyn/open", "open/fields", "hybrid/setters", "opaque/setters", "opaque/builder", "dyn/hybrid", "dyn/opaque"}
		opt := []string{"hybrid/builder", "hybrid/fields", "hybrid/mix", "opaque/mix", "open/refl", "hybrid/refl", "opaque/refl"}
		if heavy {
			names = append(names, opt...)
		} else {
			k := c.Intn(len(opt))
			names = append(names, opt[k], opt[(k+1+c.Intn(len(opt)-1))%len(opt)])
		}
	} else if flvGoAPI(reflect.TypeOf(t.mts[0].New().Interface())) != "open" {
		names = append(names, "self/setters", "self/builder", "self/mix")
	}
	var bs []*flvBuilt
	for _, n := range names {
		if bl := r.build(n); bl != nil {
			bs = append(bs, bl)
		}
	}
	if len(bs) == 0 || bs[0].gen {
		c.Stat("no_reference_build")
		return
	}
	ref := bs[0]
	r.evidence = flvClip(ref.dump)
	// one (uncompared) case line per content, so that the evidence counts what was evaluated
	c.Case("flavors", "content", []string{string(ref.m.ProtoReflect().Descriptor().FullName()), strconv.Itoa(len(bs)), HexB(ref.wire)}, []string{"checked"})

	// ---- reflection dump
	for _, bl := range bs[1:] {
		c.Stat("cmp_dump")
		if bl.dump != ref.dump {
			r.fail("reflection dump differs: "+ref.name+" vs "+bl.name, flvClip(bl.dump))
		}
	}

	// ---- deterministic wire bytes
	var wref *flvBuilt
	if ref.werr == nil {
		wref = ref
	} else if r.isF13(ref.werr, false) {
		r.knownF13("Marshal " + ref.name)
		for _, bl := range bs {
			if bl.gen && bl.werr == nil {
				wref = bl
				break
			}
		}
	} else {
		r.fail("Marshal fails: "+ref.name, flvClip(ref.werr.Error()))
	}
	if wref == nil {
		c.Stat("no_reference_bytes")
		return
	}
	r.evidence = HexB(wref.wire)
	if len(r.evidence) > 3000 {
		r.evidence = r.evidence[:3000] + "..."
	}
	for _, bl := range bs {
		if bl == wref || bl == ref {
			continue
		}
		c.Stat("cmp_wire")
		switch {
		case r.isF13(bl.werr, bl.gen):
			c.Stat("cmp_wire_skipped_F13")
		case bl.werr != nil:
			r.fail("Marshal fails: "+bl.name+" (not "+wref.name+")", flvClip(bl.werr.Error()))
		case !bytes.Equal(bl.wire, wref.wire):
			r.fail("deterministic wire bytes differ: "+wref.name+" vs "+bl.name, HexB(bl.wire))
		}
	}

	// ---- WhichOneof through reflection
	var whichRef string
	for i, bl := range bs {
		var w string
		r.guard("WhichOneof "+bl.name, func() {
			w = strings.Join(flvWhich(c, flvIsOpaqueMsg(bl.m.ProtoReflect()), bl.m.ProtoReflect(), nil), " ")
		})
		if i == 0 {
			whichRef = w
			continue
		}
		c.Stat("cmp_which")
		if w != whichRef {
			r.fail("WhichOneof differs: "+ref.name+" vs "+bl.name, flvClip(w), flvClip(whichRef))
		}
	}

	// ---- proto.Equal within one descriptor
	for vi := 0; vi < 3; vi++ {
		var first *flvBuilt
		for _, bl := range bs {
			if bl.vi != vi {
				continue
			}
			if first == nil {
				first = bl
				continue
			}
			if r.dynExt && first.gen != bl.gen {
				// dynamicpb identifies an extension field by the identity of its descriptor: a
				// message holding dynamicpb.NewExtensionType values is by design not Equal to one
				// holding the registered extension types
				c.Stat("cmp_equal_skipped_dynamic_extension_types")
				continue
			}
			c.Stat("cmp_equal")
			r.guard("proto.Equal "+first.name+" "+bl.name, func() {
				if !proto.Equal(first.m, bl.m) || !proto.Equal(bl.m, first.m) {
					r.fail("proto.Equal is false: " + first.name + " vs " + bl.name)
				}
			})
		}
		// two generated builds of one type go through the fast-path Equal
		var g1 *flvBuilt
		for _, bl := range bs {
			if bl.vi != vi || !bl.gen {
				continue
			}
			if g1 == nil {
				g1 = bl
				continue
			}
			c.Stat("cmp_equal_gen_gen")
			r.guard("proto.Equal "+g1.name+" "+bl.name, func() {
				if !proto.Equal(g1.m, bl.m) {
					r.fail("proto.Equal is false: " + g1.name + " vs " + bl.name)
				}
			})
		}
	}

	// ---- protojson / prototext
	r.textual(bs)

	// ---- cross-decoding of the reference bytes
	r.crossDecode(bs, wref)

	// ---- generated getters against reflection
	for _, bl := range bs {
		if !bl.gen {
			continue
		}
		gc := &flvGetterCheck{c: c, fail: func(what string, ev ...string) { r.fail(what+": built as "+bl.name, ev...) }}
		r.guard("getters "+bl.name, func() { gc.check(reflect.ValueOf(bl.m), 0) })
		c.StatN("cmp_getter_calls", gc.n)
		c.Stat("cmp_getters_" + t.label(bl.vi))
	}

	// ---- generated Clear<Field> / Clear<Oneof> against protoreflect Clear on the reference
	// (destructive: last use of these messages)
	r.clearers(bs)
	if r.failed {
		c.Stat("contents_failed")
	}
}

// clearers clears the same random subset of the populated top-level fields in one hybrid and one
// opaque build (generated Clear methods) and in the reference (protoreflect), then compares.
func (r *flvRun) clearers(bs []*flvBuilt) {
	c := r.c
	ref := bs[0]
	md := ref.m.ProtoReflect().Descriptor()
	var nums []protoreflect.FieldNumber
	for i := range r.content.fields {
		f := &r.content.fields[i]
		if f.ext {
			continue
		}
		if fd := md.Fields().ByNumber(f.num); fd != nil && fd.HasPresence() && c.Intn(3) == 0 {
			nums = append(nums, f.num)
		}
	}
	if len(nums) == 0 {
		return
	}
	var targets []*flvBuilt
	seen := map[string]bool{}
	for _, bl := range bs {
		if !bl.gen {
			continue
		}
		api := flvInfoOf(c, reflect.TypeOf(bl.m)).api
		if api == "open" || seen[api] {
			continue
		}
		seen[api] = true
		targets = append(targets, bl)
	}
	if len(targets) == 0 {
		return
	}
	viaOneof := c.Bool()
	if !r.guard("protoreflect Clear "+ref.name, func() {
		for _, n := range nums {
			ref.m.ProtoReflect().Clear(md.Fields().ByNumber(n))
		}
	}) {
		return
	}
	var want string
	var wantWire []byte
	var werr error
	if !r.guard("dump/Marshal after protoreflect Clear "+ref.name, func() {
		want = flvDumpStr(ref.m.ProtoReflect())
		wantWire, werr = flvWireOpts.Marshal(ref.m)
	}) {
		return
	}
	for _, bl := range targets {
		gi := flvInfoOf(c, reflect.TypeOf(bl.m))
		p := reflect.ValueOf(bl.m)
		ok := r.guard("generated Clear methods "+bl.name, func() {
			for _, n := range nums {
				fi := gi.f[n]
				fd := gi.md.Fields().ByNumber(n)
				if od := fd.ContainingOneof(); od != nil && !od.IsSynthetic() && viaOneof && gi.clearOO[od.Name()] >= 0 {
					p.Method(gi.clearOO[od.Name()]).Call(nil)
					c.Stat("clear_oneof_calls")
					continue
				}
				if fi == nil || fi.clear < 0 {
					panic(flvMissing{fmt.Sprintf("no Clear method for field %d of %s", n, gi.t)})
				}
				p.Method(fi.clear).Call(nil)
				c.Stat("clear_calls")
			}
		})
		if !ok {
			continue
		}
		c.Stat("cmp_clear_" + gi.api)
		var got string
		var gotWire []byte
		var gerr error
		if !r.guard("dump/Marshal after Clear<Field> "+bl.name, func() {
			got = flvDumpStr(bl.m.ProtoReflect())
			gotWire, gerr = flvWireOpts.Marshal(bl.m)
		}) {
			continue
		}
		if got != want {
			r.fail("after Clear<Field>: reflection dump differs: "+ref.name+" vs "+bl.name, flvClip(got), flvClip(want))
		}
		switch {
		case r.isF13(werr, false):
		case (gerr == nil) != (werr == nil):
			r.fail("after Clear<Field>: Marshal error-ness differs: "+ref.name+" vs "+bl.name, fmt.Sprint(werr), fmt.Sprint(gerr))
		case !bytes.Equal(gotWire, wantWire):
			r.fail("after Clear<Field>: deterministic wire bytes differ: "+ref.name+" vs "+bl.name, HexB(gotWire), HexB(wantWire))
		}
		gc := &flvGetterCheck{c: c, fail: func(what string, ev ...string) { r.fail(what+": after Clear<Field> on "+bl.name, ev...) }}
		r.guard("getters after Clear "+bl.name, func() { gc.check(p, 0) })
	}
}

func (r *flvRun) textual(bs []*flvBuilt) {
	c := r.c
	type obs struct {
		js, tx     string
		jerr, terr error
		rawJS      []byte
		rawTX      []byte
	}
	var refObs *obs
	var perVariant [3]*obs
	for i, bl := range bs {
		o := &obs{}
		r.guard("protojson/prototext "+bl.name, func() {
			o.rawJS, o.jerr = protojson.MarshalOptions{AllowPartial: true}.Marshal(bl.m)
			o.rawTX, o.terr = prototext.MarshalOptions{AllowPartial: true, Multiline: false}.Marshal(bl.m)
		})
		if o.jerr == nil {
			o.js = flvNormJSON(o.rawJS)
		}
		if o.terr == nil {
			o.tx = flvNormText(o.rawTX)
		}
		if perVariant[bl.vi] == nil {
			perVariant[bl.vi] = o
		}
		if i == 0 {
			refObs = o
			c.Stat("json_" + flvErrStr(o.jerr))
			c.Stat("text_" + flvErrStr(o.terr))
			continue
		}
		c.Stat("cmp_json")
		c.Stat("cmp_text")
		if (o.jerr == nil) != (refObs.jerr == nil) {
			r.fail("protojson error-ness differs: "+bs[0].name+" vs "+bl.name, fmt.Sprint(refObs.jerr), fmt.Sprint(o.jerr))
		} else if o.js != refObs.js {
			r.fail("protojson output differs: "+bs[0].name+" vs "+bl.name, flvClip(refObs.js), flvClip(o.js))
		}
		if (o.terr == nil) != (refObs.terr == nil) {
			r.fail("prototext error-ness differs: "+bs[0].name+" vs "+bl.name, fmt.Sprint(refObs.terr), fmt.Sprint(o.terr))
		} else if o.tx != refObs.tx {
			r.fail("prototext output differs: "+bs[0].name+" vs "+bl.name, flvClip(refObs.tx), flvClip(o.tx))
		}
	}
	// parse the output back, per descriptor, into dynamicpb and into the generated type
	if !r.heavy && c.Intn(3) != 0 {
		return
	}
	c.Stat("contents_with_parseback")
	var jref, tref string
	for vi := 0; vi < 3; vi++ {
		o := perVariant[vi]
		mt := r.t.mts[vi]
		if o == nil || mt == nil {
			continue
		}
		for _, dyn := range []bool{true, false} {
			label := r.t.label(vi)
			if dyn {
				label = "dyn/" + label
			}
			fresh := func() proto.Message {
				if dyn {
					return dynamicpb.NewMessage(mt.Descriptor())
				}
				return mt.New().Interface()
			}
			if o.jerr == nil {
				c.Stat("cmp_json_parseback")
				m := fresh()
				var err error
				d := "panic"
				r.guard("protojson.Unmarshal "+label, func() {
					err = protojson.UnmarshalOptions{AllowPartial: true}.Unmarshal(o.rawJS, m)
					d = flvErrStr(err)
					if err == nil {
						d = flvDumpStr(m.ProtoReflect())
					}
				})
				if jref == "" {
					jref = d
					c.Stat("json_parseback_" + flvErrStr(err))
				} else if d != jref {
					r.fail("protojson output parsed back differs: dyn/open vs "+label, flvClip(d), flvClip(jref), flvClip(string(o.rawJS)))
				}
			}
			if o.terr == nil {
				c.Stat("cmp_text_parseback")
				m := fresh()
				var err error
				d := "panic"
				r.guard("prototext.Unmarshal "+label, func() {
					err = prototext.UnmarshalOptions{AllowPartial: true}.Unmarshal(o.rawTX, m)
					d = flvErrStr(err)
					if err == nil {
						d = flvDumpStr(m.ProtoReflect())
					}
				})
				if tref == "" {
					tref = d
					c.Stat("text_parseback_" + flvErrStr(err))
				} else if d != tref {
					r.fail("prototext output parsed back differs: dyn/open vs "+label, flvClip(d), flvClip(tref), flvClip(string(o.rawTX)))
				}
			}
		}
	}
}

func (r *flvRun) crossDecode(bs []*flvBuilt, wref *flvBuilt) {
	c := r.c
	b := wref.wire
	var refDump string
	haveRef := false
	for vi := 0; vi < 3; vi++ {
		mt := r.t.mts[vi]
		if mt == nil {
			continue
		}
		for _, dyn := range []bool{true, false} {
			for _, nolazy := range []bool{false, true} {
				if nolazy && dyn {
					continue // the option only concerns the table-driven decoder
				}
				label := r.t.label(vi)
				if dyn {
					label = "dyn/" + label
				}
				if nolazy {
					label += "(NoLazyDecoding)"
				}
				var m proto.Message
				if dyn {
					m = dynamicpb.NewMessage(mt.Descriptor())
				} else {
					m = mt.New().Interface()
				}
				var err error
				if !r.guard("Unmarshal into "+label, func() {
					err = proto.UnmarshalOptions{AllowPartial: true, NoLazyDecoding: nolazy}.Unmarshal(append([]byte(nil), b...), m)
				}) {
					continue
				}
				c.Stat("cmp_decode")
				if err != nil {
					if r.isF13(err, !dyn) {
						r.knownF13("Unmarshal into " + label)
						continue
					}
					if r.hasMset && r.gen.largeExtNum && wref.gen {
						// F13, other face: the fast path wrote a MessageSet item with type id >= 2^29
						// as an ordinary field; nothing can parse that tag
						flvKnown(c, "F13", "generated types encode a MessageSet extension with number >= 2^29 as an ordinary field with an invalid tag: Unmarshal into "+label+" "+r.t.name)
						continue
					}
					r.fail("Unmarshal of "+wref.name+" bytes fails: "+label, flvClip(err.Error()))
					continue
				}
				var d string
				var out []byte
				var merr error
				r.guard("dump/re-marshal decoded "+label, func() {
					d = flvDumpStr(m.ProtoReflect())
					out, merr = flvWireOpts.Marshal(m)
				})
				f1 := func() bool {
					if msgHasLazy(mt.Descriptor()) && msgF1Class(mt.Descriptor(), b) {
						flvKnown(c, "F1", "lazy decoding duplicates a wrong-wire-type occurrence of a lazy field: "+label+" "+r.t.name)
						return true
					}
					return false
				}
				if !haveRef {
					haveRef = true
					refDump = d
					if !r.gen.closedUnknownEnum && d != bs[0].dump && wref == bs[0] {
						r.fail("decoded dump differs from the built dump: "+label, flvClip(d))
					}
				} else if d != refDump {
					if !f1() {
						r.fail("decoded reflection dump differs: first decode vs "+label, flvClip(d), flvClip(refDump))
					}
				}
				switch {
				case r.isF13(merr, !dyn):
					c.Stat("cmp_decode_remarshal_skipped_F13")
				case merr != nil:
					r.fail("re-marshal of decoded message fails: "+label, flvClip(merr.Error()))
				case !bytes.Equal(out, b):
					if !f1() {
						r.fail("re-marshal of decoded message differs from the reference bytes: "+label, HexB(out))
					}
				}
				// getters of the decoded generated message (forces lazy fields through the Go API)
				if !dyn && (!nolazy || msgHasLazy(mt.Descriptor())) {
					gc := &flvGetterCheck{c: c, fail: func(what string, ev ...string) { r.fail(what+": decoded into "+label, ev...) }}
					r.guard("getters of decoded "+label, func() { gc.check(reflect.ValueOf(m), 0) })
					c.StatN("cmp_getter_calls", gc.n)
					c.Stat("cmp_getters_decoded_" + r.t.label(vi))
				}
			}
		}
	}
}

// ---------------------------------------------------------------- driver

// flvNilElements: a nil element inside a repeated message field (reachable only through the generated API: a typed slice
// handed to a setter, or written into the struct field of the open API -- protoreflect cannot store one) means an empty
// message in every flavour: [x, nil, y] must encode exactly as [x, {}, y].
func flvNilElements(c *Ctx) {
	var mts []protoreflect.MessageType
	protoregistry.GlobalTypes.RangeMessages(func(mt protoreflect.MessageType) bool { mts = append(mts, mt); return true })
	sort.Slice(mts, func(i, j int) bool { return mts[i].Descriptor().FullName() < mts[j].Descriptor().FullName() })
	for _, mt := range mts {
		md := mt.Descriptor()
		if md.IsMapEntry() {
			continue
		}
		for i := 0; i < md.Fields().Len(); i++ {
			fd := md.Fields().Get(i)
			if !fd.IsList() || fd.Message() == nil {
				continue
			}
			func() {
				defer func() {
					if r := recover(); r != nil {
						c.Stat("nil_elem_skipped_panic")
					}
				}()
				m1, m2 := mt.New(), mt.New()
				l2 := m2.Mutable(fd).List()
				for k := 0; k < 3; k++ {
					l2.Append(l2.NewElement())
				}
				x, y := l2.NewElement().Message().Interface(), l2.NewElement().Message().Interface()
				et := reflect.TypeOf(x)
				sl := reflect.MakeSlice(reflect.SliceOf(et), 3, 3)
				sl.Index(0).Set(reflect.ValueOf(x))
				sl.Index(2).Set(reflect.ValueOf(y))
				pv := reflect.ValueOf(m1.Interface())
				name := strs.GoCamelCase(string(fd.Name()))
				if fd.Kind() == protoreflect.GroupKind {
					name = strs.GoCamelCase(string(fd.Message().Name()))
				}
				if set := pv.MethodByName("Set" + name); set.IsValid() && set.Type().NumIn() == 1 && set.Type().In(0) == sl.Type() {
					set.Call([]reflect.Value{sl})
				} else if f := pv.Elem().FieldByName(name); f.IsValid() && f.CanSet() && f.Type() == sl.Type() {
					f.Set(sl)
				} else {
					c.Stat("nil_elem_no_typed_access")
					return
				}
				c.Stat("nil_elem_" + presFlavour(mt))
				o := proto.MarshalOptions{Deterministic: true, AllowPartial: true}
				b1, e1 := o.Marshal(m1.Interface())
				b2, e2 := o.Marshal(m2.Interface())
				if e1 != nil || e2 != nil || !bytes.Equal(b1, b2) || o.Size(m1.Interface()) != len(b2) {
					c.PropFail("C29", "a nil element of a repeated message field does not encode as an empty message", string(fd.FullName()), HexB(b1), HexB(b2))
				}
			}()
		}
	}
}

func famFlavors(c *Ctx) {
	flvInitBuilders(c)
	flvNilElements(c)
	ts := flvDiscover(c)
	if len(ts) == 0 {
		c.PropFail("C29", "no message generated in all three API levels is linked")
		return
	}
	flvCheckSchemas(c, ts)

	// boundary corpus first: the empty content and one dense content of every message
	for _, t := range ts {
		g := &flvGen{c: c}
		flvRunContent(c, t, &flvMsg{}, g, false)
		c.Stat("corpus_empty")
	}
	for _, t := range ts {
		if !t.full() || t.mts[0].Descriptor().Fields().Len() < 20 {
			continue
		}
		g := &flvGen{c: c, budget: 400, dense: true}
		content := g.message(t.mts[0].Descriptor(), 2)
		flvRunContent(c, t, content, g, true)
		c.Stat("corpus_dense")
	}

	total := 0
	var fulls []*flvTriple
	for _, t := range ts {
		total += t.weight
		if t.full() {
			fulls = append(fulls, t)
		}
	}
	for i := 0; i < c.N; i++ {
		var t *flvTriple
		if i%4 == 0 && len(fulls) > 0 {
			t = fulls[(i/4)%len(fulls)]
		} else {
			k := c.Intn(total)
			for _, x := range ts {
				if k < x.weight {
					t = x
					break
				}
				k -= x.weight
			}
		}
		g := &flvGen{c: c, budget: 20 + c.Intn(80), dense: c.Intn(12) == 0}
		content := g.message(t.mts[0].Descriptor(), 1+c.Intn(3))
		flvRunContent(c, t, content, g, c.Intn(8) == 0)
	}
}
