//go:build verif

package main

// family "wkt": C45 — structpb NewValue/AsInterface (and Struct/List forms, JSON agreement)
// and anypb New/UnmarshalTo/UnmarshalNew/MessageIs/MessageName.
//
// C lines (compared with coq/theories/Known/{StructModel,AnyModel}.v):
//   newvalue <gval>        | ok <pval> / err
//   asiface  <pval>        | <gval>
//   msgis    <url> <name>  | 0/1
//   msgname  <url>         | <name>
//   newurl   <name>        | <url>
//   b64      <bytes>       | <bytes>
//   utf8     <bytes>       | 0/1
//   i2f      <int>         | <float64 bits>
//   f2f      <float32 bits>| <float64 bits>
//
// value encoding (one token, prefix form):
//   gval: N nil | T | F | D<hex>; float64 bits | S<hex>; float32 bits | I<hexZ>; integer |
//         s<hexbytes>; string | b<hexbytes>; []byte | L<n>; n elements | M<n>; n (key<hexbytes>; value) | X other type
//   pval: U unset | N null | T | F | D<hex>; | s<hexbytes>; | L<n>; ... | M<n>; ...

import (
	"bytes"
	"encoding/base64"
	"encoding/hex"
	"encoding/json"
	"fmt"
	"math"
	"os"
	"regexp"
	"sort"
	"strconv"
	"strings"
	"unicode/utf8"

	"google.golang.org/protobuf/encoding/protojson"
	"google.golang.org/protobuf/encoding/protowire"
	"google.golang.org/protobuf/proto"
	"google.golang.org/protobuf/reflect/protoreflect"
	"google.golang.org/protobuf/reflect/protoregistry"
	"google.golang.org/protobuf/runtime/protoiface"
	"google.golang.org/protobuf/types/known/anypb"
	"google.golang.org/protobuf/types/known/emptypb"
	"google.golang.org/protobuf/types/known/structpb"
)

func init() { Register("wkt", famWkt) }

// ---------------------------------------------------------------- encodings

func wktEncG(sb *strings.Builder, v any) {
	switch v := v.(type) {
	case nil:
		sb.WriteByte('N')
	case bool:
		if v {
			sb.WriteByte('T')
		} else {
			sb.WriteByte('F')
		}
	case float64:
		fmt.Fprintf(sb, "D%x;", math.Float64bits(v))
	case float32:
		fmt.Fprintf(sb, "S%x;", math.Float32bits(v))
	case int:
		sb.WriteString("I" + HexZ(int64(v)) + ";")
	case int8:
		sb.WriteString("I" + HexZ(int64(v)) + ";")
	case int16:
		sb.WriteString("I" + HexZ(int64(v)) + ";")
	case int32:
		sb.WriteString("I" + HexZ(int64(v)) + ";")
	case int64:
		sb.WriteString("I" + HexZ(v) + ";")
	case uint:
		sb.WriteString("I" + HexN(uint64(v)) + ";")
	case uint8:
		sb.WriteString("I" + HexN(uint64(v)) + ";")
	case uint16:
		sb.WriteString("I" + HexN(uint64(v)) + ";")
	case uint32:
		sb.WriteString("I" + HexN(uint64(v)) + ";")
	case uint64:
		sb.WriteString("I" + HexN(v) + ";")
	case string:
		sb.WriteString("s" + hex.EncodeToString([]byte(v)) + ";")
	case []byte:
		sb.WriteString("b" + hex.EncodeToString(v) + ";")
	case []any:
		fmt.Fprintf(sb, "L%d;", len(v))
		for _, e := range v {
			wktEncG(sb, e)
		}
	case map[string]any:
		keys := make([]string, 0, len(v))
		for k := range v {
			keys = append(keys, k)
		}
		sort.Strings(keys)
		fmt.Fprintf(sb, "M%d;", len(v))
		for _, k := range keys {
			sb.WriteString(hex.EncodeToString([]byte(k)) + ";")
			wktEncG(sb, v[k])
		}
	default:
		sb.WriteByte('X')
	}
}

func wktG(v any) string {
	var sb strings.Builder
	wktEncG(&sb, v)
	return sb.String()
}

func wktEncP(sb *strings.Builder, x *structpb.Value) {
	if x == nil {
		sb.WriteByte('U')
		return
	}
	switch k := x.Kind.(type) {
	case *structpb.Value_NullValue:
		if k == nil {
			sb.WriteByte('U')
			return
		}
		sb.WriteByte('N')
	case *structpb.Value_NumberValue:
		if k == nil {
			sb.WriteByte('U')
			return
		}
		fmt.Fprintf(sb, "D%x;", math.Float64bits(k.NumberValue))
	case *structpb.Value_StringValue:
		if k == nil {
			sb.WriteByte('U')
			return
		}
		sb.WriteString("s" + hex.EncodeToString([]byte(k.StringValue)) + ";")
	case *structpb.Value_BoolValue:
		if k == nil {
			sb.WriteByte('U')
			return
		}
		if k.BoolValue {
			sb.WriteByte('T')
		} else {
			sb.WriteByte('F')
		}
	case *structpb.Value_StructValue:
		if k == nil {
			sb.WriteByte('U')
			return
		}
		f := k.StructValue.GetFields() // a nil *Struct is an empty struct
		keys := make([]string, 0, len(f))
		for kk := range f {
			keys = append(keys, kk)
		}
		sort.Strings(keys)
		fmt.Fprintf(sb, "M%d;", len(f))
		for _, kk := range keys {
			sb.WriteString(hex.EncodeToString([]byte(kk)) + ";")
			wktEncP(sb, f[kk])
		}
	case *structpb.Value_ListValue:
		if k == nil {
			sb.WriteByte('U')
			return
		}
		vs := k.ListValue.GetValues()
		fmt.Fprintf(sb, "L%d;", len(vs))
		for _, e := range vs {
			wktEncP(sb, e)
		}
	default:
		sb.WriteByte('U')
	}
}

func wktP(x *structpb.Value) string {
	var sb strings.Builder
	wktEncP(&sb, x)
	return sb.String()
}

// ---------------------------------------------------------------- generators

type wktMyInt int
type wktMyStr string

var wktF64Corpus = []uint64{
	0, 1 << 63, 1, 0x000fffffffffffff, 0x0010000000000000, 0x7fefffffffffffff, 0xffefffffffffffff,
	0x7ff0000000000000, 0xfff0000000000000, 0x7ff8000000000000, 0x7ff0000000000001, 0xfff8000000000000, 0x7fffffffffffffff,
	0x3ff0000000000000, 0xbff0000000000000, 0x4340000000000000 /*2^53*/, 0x433fffffffffffff, 0x4340000000000001,
	0x43e0000000000000 /*2^63*/, 0x43f0000000000000 /*2^64*/, 0xc3e0000000000000, 0x3fb999999999999a /*0.1*/, 0x7fe0000000000000,
	0x4415af1d78b58c40 /*1e21*/, 0x4415af1d78b58c3f, 0x3eb0c6f7a0b5ed8d /*1e-6*/, 0x3eb0c6f7a0b5ed8c, 0x3ff8000000000000,
}

var wktIntCorpus = []any{
	0, int8(-128), int8(127), int16(-32768), int32(math.MinInt32), int32(math.MaxInt32), uint8(255), uint16(65535), uint32(math.MaxUint32),
	int64(1) << 53, int64(1)<<53 + 1, int64(1)<<53 - 1, int64(1)<<53 + 2, int64(1)<<53 + 3, -(int64(1) << 53), -(int64(1)<<53 + 1), -(int64(1)<<53 - 1),
	int64(1)<<54 + 2, int64(1)<<54 + 3, int64(1)<<54 + 1, int64(1)<<54 + 6, int64(1)<<54 + 5,
	int64(math.MaxInt64), int64(math.MinInt64), int64(math.MaxInt64) - 511, int64(math.MaxInt64) - 512, int64(math.MaxInt64) - 513,
	uint64(math.MaxUint64), uint64(math.MaxUint64) - 1023, uint64(math.MaxUint64) - 1024, uint64(math.MaxUint64) - 1025, uint64(1) << 63, uint64(1)<<63 + 1024, uint64(1)<<63 + 1025,
	uint(1)<<24 + 1, int(-1), int64(-1), uint64(1), int64(9007199254740993), uint64(0xfffffffffffff800), uint64(0xfffffffffffffbff), uint64(0xfffffffffffffc00),
}

func wktGenInt(c *Ctx) any {
	if c.Intn(4) == 0 {
		return wktIntCorpus[c.Intn(len(wktIntCorpus))]
	}
	// random bit length, optionally shaped as q<<sh + (half-1|half|half+1) to hit rounding ties
	k := 1 + c.Intn(64)
	v := c.U64()
	if k < 64 {
		v &= (uint64(1) << k) - 1
		v |= uint64(1) << (k - 1)
	} else {
		v |= 1 << 63
	}
	if k > 54 && c.Intn(2) == 0 {
		sh := uint(k - 53)
		half := uint64(1) << (sh - 1)
		v = (v >> sh << sh) + half + uint64(c.Intn(3)) - 1
	}
	switch c.Intn(10) {
	case 0:
		return int(int64(v))
	case 1:
		return int8(v)
	case 2:
		return int16(v)
	case 3:
		return int32(v)
	case 4:
		return int64(v)
	case 5:
		return uint(v)
	case 6:
		return uint8(v)
	case 7:
		return uint16(v)
	case 8:
		return uint32(v)
	default:
		return v
	}
}

func wktGenF64(c *Ctx) float64 {
	switch c.Intn(5) {
	case 0:
		return math.Float64frombits(wktF64Corpus[c.Intn(len(wktF64Corpus))])
	case 1:
		return float64(int64(c.U64()>>uint(c.Intn(64)))) * []float64{1, -1, 0.5, 1e-3, 1e10}[c.Intn(5)]
	case 2: // exponent field extremes
		e := []uint64{0, 1, 2046, 2047, 1023, 1075, 1076}[c.Intn(7)]
		return math.Float64frombits(c.U64()&(1<<63|(1<<52-1)) | e<<52)
	default:
		return math.Float64frombits(c.U64())
	}
}

func wktGenF32(c *Ctx) float32 {
	switch c.Intn(4) {
	case 0:
		return math.Float32frombits([]uint32{0, 1 << 31, 1, 0x007fffff, 0x00800000, 0x7f7fffff, 0x7f800000, 0xff800000, 0x7fc00000, 0x7f800001, 0xffc00001, 0x3f800000, 0x00400000, 0x80000001}[c.Intn(14)])
	case 1:
		e := []uint32{0, 1, 254, 255, 127}[c.Intn(5)]
		return math.Float32frombits(uint32(c.U64())&(1<<31|(1<<23-1)) | e<<23)
	default:
		return math.Float32frombits(uint32(c.U64()))
	}
}

var wktRunes = []rune{0, 'a', 'z', '"', '\\', '<', '&', '\n', 0x7f, 0x80, 0xff, 0x7ff, 0x800, 0xd7ff, 0xe000, 0xfffd, 0xffff, 0x10000, 0x10ffff, 0x2028, 0x2029, 0x1f600, 'é', '世'}

func wktGenValidStr(c *Ctx) string {
	n := c.Intn(7)
	if c.Intn(8) == 0 {
		n = c.Intn(40)
	}
	var b []byte
	for i := 0; i < n; i++ {
		switch c.Intn(3) {
		case 0:
			b = utf8.AppendRune(b, wktRunes[c.Intn(len(wktRunes))])
		case 1:
			b = append(b, byte(0x20+c.Intn(0x5f)))
		default:
			r := rune(c.Intn(0x110000))
			if r >= 0xd800 && r <= 0xdfff {
				r = 0xfffd
			}
			b = utf8.AppendRune(b, r)
		}
	}
	return string(b)
}

var wktBadSeqs = [][]byte{
	{0x80}, {0xbf}, {0xc0, 0x80}, {0xc1, 0xbf}, {0xc2}, {0xc2, 0x7f}, {0xc2, 0xc0}, {0xe0, 0x80, 0x80}, {0xe0, 0x9f, 0xbf}, {0xe0, 0xa0},
	{0xed, 0xa0, 0x80}, {0xed, 0xbf, 0xbf}, {0xef, 0xbf}, {0xf0, 0x80, 0x80, 0x80}, {0xf0, 0x8f, 0xbf, 0xbf}, {0xf0, 0x90, 0x80},
	{0xf4, 0x90, 0x80, 0x80}, {0xf5, 0x80, 0x80, 0x80}, {0xf8, 0x88, 0x80, 0x80, 0x80}, {0xff}, {0xfe}, {0xe1, 0x80, 0x7f}, {0xf1, 0x80, 0x80, 0x7f},
	{0xf4, 0x8f, 0xbf}, {0xe2, 0x28, 0xa1}, {0xf0, 0x28, 0x8c, 0xbc},
}

// mostly-invalid strings (the caller records utf8.ValidString as a statistic)
func wktGenBadStr(c *Ctx) string {
	s := []byte(wktGenValidStr(c))
	switch c.Intn(4) {
	case 0:
		bad := wktBadSeqs[c.Intn(len(wktBadSeqs))]
		p := c.Intn(len(s) + 1)
		s = append(s[:p:p], append(append([]byte{}, bad...), s[p:]...)...)
	case 1:
		if len(s) > 0 {
			s = s[:c.Intn(len(s))] // may cut inside a rune
		}
		s = append(s, wktBadSeqs[c.Intn(len(wktBadSeqs))]...)
	case 2:
		if len(s) > 0 {
			s[c.Intn(len(s))] ^= byte(1 << uint(c.Intn(8)))
		} else {
			s = []byte{byte(0x80 + c.Intn(0x80))}
		}
	default:
		s = c.Bytes(1 + c.Intn(5))
	}
	return string(s)
}

func wktGenStr(c *Ctx, badPct int) string {
	if c.Intn(100) < badPct {
		return wktGenBadStr(c)
	}
	return wktGenValidStr(c)
}

// wktGenG generates a Go value for NewValue. badPct is the probability (percent) of an
// invalid string/key or unsupported type at each leaf.
func wktGenG(c *Ctx, depth int, badPct int) any {
	t := c.Intn(13)
	if depth <= 0 && t >= 9 {
		t = c.Intn(9)
	}
	switch t {
	case 0:
		return nil
	case 1:
		return c.Bool()
	case 2, 3:
		return wktGenF64(c)
	case 4:
		return wktGenInt(c)
	case 5, 6:
		return wktGenStr(c, badPct)
	case 7:
		if c.Intn(6) == 0 {
			return wktGenF32(c)
		}
		n := c.Intn(8)
		if c.Intn(6) == 0 {
			n = c.Intn(50)
		}
		if c.Intn(20) == 0 {
			return []byte(nil)
		}
		return c.Bytes(n)
	case 8:
		if c.Intn(100) < badPct {
			switch c.Intn(8) {
			case 0:
				return struct{}{}
			case 1:
				return []string{"a"}
			case 2:
				return map[string]string{"a": "b"}
			case 3:
				return wktMyInt(3)
			case 4:
				return wktMyStr("x")
			case 5:
				return (*int)(nil)
			case 6:
				return structpb.NewBoolValue(true)
			default:
				return []float64{1}
			}
		}
		return wktGenInt(c)
	case 9, 10:
		n := c.Intn(4)
		if c.Intn(10) == 0 {
			n = c.Intn(12)
		}
		if n == 0 && c.Bool() {
			return []any(nil)
		}
		l := make([]any, n)
		for i := range l {
			l[i] = wktGenG(c, depth-1, badPct)
		}
		return l
	default:
		n := c.Intn(4)
		if c.Intn(10) == 0 {
			n = c.Intn(12)
		}
		if n == 0 && c.Bool() {
			return map[string]any(nil)
		}
		m := make(map[string]any, n)
		for i := 0; i < n; i++ {
			m[wktGenStr(c, badPct)] = wktGenG(c, depth-1, badPct)
		}
		return m
	}
}

// JSON-like domain only (nil, bool, float64 finite, valid strings, lists, maps)
func wktGenJSONLike(c *Ctx, depth int) any {
	t := c.Intn(8)
	if depth <= 0 && t >= 6 {
		t = c.Intn(6)
	}
	switch t {
	case 0:
		return nil
	case 1:
		return c.Bool()
	case 2, 3:
		for {
			f := wktGenF64(c)
			if !math.IsNaN(f) && !math.IsInf(f, 0) {
				return f
			}
		}
	case 4, 5:
		return wktGenValidStr(c)
	case 6:
		n := c.Intn(4)
		l := make([]any, n)
		for i := range l {
			l[i] = wktGenJSONLike(c, depth-1)
		}
		return l
	default:
		n := c.Intn(4)
		m := make(map[string]any, n)
		for i := 0; i < n; i++ {
			m[wktGenValidStr(c)] = wktGenJSONLike(c, depth-1)
		}
		return m
	}
}

// direct construction of Value trees, including the odd forms NewValue never produces
func wktGenP(c *Ctx, depth int) *structpb.Value {
	t := c.Intn(12)
	if depth <= 0 && t >= 8 {
		t = c.Intn(8)
	}
	switch t {
	case 0:
		switch c.Intn(5) {
		case 0:
			return nil
		case 1:
			return &structpb.Value{}
		case 2:
			return &structpb.Value{Kind: (*structpb.Value_NumberValue)(nil)}
		case 3:
			return &structpb.Value{Kind: (*structpb.Value_StructValue)(nil)}
		default:
			return &structpb.Value{Kind: (*structpb.Value_StringValue)(nil)}
		}
	case 1:
		return structpb.NewNullValue()
	case 2:
		return structpb.NewBoolValue(c.Bool())
	case 3, 4, 5:
		return structpb.NewNumberValue(wktGenF64(c))
	case 6, 7:
		if c.Intn(6) == 0 {
			return structpb.NewStringValue([]string{"NaN", "Infinity", "-Infinity", ""}[c.Intn(4)])
		}
		return structpb.NewStringValue(wktGenStr(c, 15))
	case 8, 9:
		if c.Intn(8) == 0 {
			if c.Bool() {
				return &structpb.Value{Kind: &structpb.Value_ListValue{}}
			}
			return structpb.NewListValue(&structpb.ListValue{})
		}
		n := c.Intn(4)
		l := &structpb.ListValue{}
		for i := 0; i < n; i++ {
			l.Values = append(l.Values, wktGenP(c, depth-1))
		}
		return structpb.NewListValue(l)
	default:
		if c.Intn(8) == 0 {
			if c.Bool() {
				return &structpb.Value{Kind: &structpb.Value_StructValue{}}
			}
			return structpb.NewStructValue(&structpb.Struct{})
		}
		n := c.Intn(4)
		s := &structpb.Struct{Fields: map[string]*structpb.Value{}}
		for i := 0; i < n; i++ {
			s.Fields[wktGenStr(c, 15)] = wktGenP(c, depth-1)
		}
		return structpb.NewStructValue(s)
	}
}

// ---------------------------------------------------------------- the property's predicate

// wktNorm is the documented conversion: what NewValue(v).AsInterface() must return.
// ok=false when v is outside NewValue's domain (must be rejected).
func wktNorm(v any) (any, bool) {
	num := func(f float64) any {
		switch {
		case math.IsNaN(f):
			return "NaN"
		case math.IsInf(f, 1):
			return "Infinity"
		case math.IsInf(f, -1):
			return "-Infinity"
		}
		return f
	}
	switch v := v.(type) {
	case nil:
		return nil, true
	case bool:
		return v, true
	case float64:
		return num(v), true
	case float32:
		return num(float64(v)), true
	case int:
		return float64(v), true
	case int8:
		return float64(v), true
	case int16:
		return float64(v), true
	case int32:
		return float64(v), true
	case int64:
		return float64(v), true
	case uint:
		return float64(v), true
	case uint8:
		return float64(v), true
	case uint16:
		return float64(v), true
	case uint32:
		return float64(v), true
	case uint64:
		return float64(v), true
	case string:
		return v, utf8.ValidString(v)
	case []byte:
		return base64.StdEncoding.EncodeToString(v), true
	case []any:
		out := make([]any, len(v))
		for i, e := range v {
			n, ok := wktNorm(e)
			if !ok {
				return nil, false
			}
			out[i] = n
		}
		return out, true
	case map[string]any:
		out := make(map[string]any, len(v))
		for k, e := range v {
			if !utf8.ValidString(k) {
				return nil, false
			}
			n, ok := wktNorm(e)
			if !ok {
				return nil, false
			}
			out[k] = n
		}
		return out, true
	}
	return nil, false
}

// wktDeepEq: structural equality with float64 compared by bit pattern and with the exact
// dynamic types AsInterface documents (nil, bool, float64, string, map[string]any, []any).
func wktDeepEq(a, b any) bool {
	switch a := a.(type) {
	case nil:
		return b == nil
	case bool:
		bb, ok := b.(bool)
		return ok && a == bb
	case float64:
		bb, ok := b.(float64)
		return ok && math.Float64bits(a) == math.Float64bits(bb)
	case string:
		bb, ok := b.(string)
		return ok && a == bb
	case []any:
		bb, ok := b.([]any)
		if !ok || len(a) != len(bb) || (a == nil) != (bb == nil) {
			return false
		}
		for i := range a {
			if !wktDeepEq(a[i], bb[i]) {
				return false
			}
		}
		return true
	case map[string]any:
		bb, ok := b.(map[string]any)
		if !ok || len(a) != len(bb) || (a == nil) != (bb == nil) {
			return false
		}
		for k, x := range a {
			y, ok := bb[k]
			if !ok || !wktDeepEq(x, y) {
				return false
			}
		}
		return true
	}
	return false
}

// semantic JSON equality: decode both texts (numbers kept as text, compared as float64 bits)
func wktJSONSemEq(a, b []byte) (bool, string) {
	dec := func(x []byte) (any, error) {
		d := json.NewDecoder(bytes.NewReader(x))
		d.UseNumber()
		var v any
		if err := d.Decode(&v); err != nil {
			return nil, err
		}
		if d.More() {
			return nil, fmt.Errorf("trailing data")
		}
		return v, nil
	}
	va, err := dec(a)
	if err != nil {
		return false, "left does not parse"
	}
	vb, err := dec(b)
	if err != nil {
		return false, "right does not parse"
	}
	var eq func(x, y any) bool
	eq = func(x, y any) bool {
		switch x := x.(type) {
		case nil:
			return y == nil
		case bool:
			yy, ok := y.(bool)
			return ok && x == yy
		case string:
			yy, ok := y.(string)
			return ok && x == yy
		case json.Number:
			yy, ok := y.(json.Number)
			if !ok {
				return false
			}
			fx, e1 := strconv.ParseFloat(string(x), 64)
			fy, e2 := strconv.ParseFloat(string(yy), 64)
			return e1 == nil && e2 == nil && math.Float64bits(fx) == math.Float64bits(fy)
		case []any:
			yy, ok := y.([]any)
			if !ok || len(x) != len(yy) {
				return false
			}
			for i := range x {
				if !eq(x[i], yy[i]) {
					return false
				}
			}
			return true
		case map[string]any:
			yy, ok := y.(map[string]any)
			if !ok || len(x) != len(yy) {
				return false
			}
			for k, e := range x {
				f, ok := yy[k]
				if !ok || !eq(e, f) {
					return false
				}
			}
			return true
		}
		return false
	}
	return eq(va, vb), ""
}

func wktHasNonFinite(x *structpb.Value) bool {
	switch k := x.GetKind().(type) {
	case *structpb.Value_NumberValue:
		return k != nil && (math.IsNaN(k.NumberValue) || math.IsInf(k.NumberValue, 0))
	case *structpb.Value_StructValue:
		if k == nil {
			return false
		}
		for _, v := range k.StructValue.GetFields() {
			if wktHasNonFinite(v) {
				return true
			}
		}
	case *structpb.Value_ListValue:
		if k == nil {
			return false
		}
		for _, v := range k.ListValue.GetValues() {
			if wktHasNonFinite(v) {
				return true
			}
		}
	}
	return false
}

// wktJSONOK: every Value in the tree has a oneof member set and all strings/keys are valid UTF-8
// (the conditions under which protojson.Marshal must succeed, given finite numbers).
func wktJSONOK(x *structpb.Value) bool {
	if x == nil {
		return false
	}
	switch k := x.Kind.(type) {
	case *structpb.Value_NullValue:
		return k != nil
	case *structpb.Value_BoolValue:
		return k != nil
	case *structpb.Value_NumberValue:
		return k != nil && !math.IsNaN(k.NumberValue) && !math.IsInf(k.NumberValue, 0)
	case *structpb.Value_StringValue:
		return k != nil && utf8.ValidString(k.StringValue)
	case *structpb.Value_StructValue:
		if k == nil {
			return false
		}
		for kk, v := range k.StructValue.GetFields() {
			if !utf8.ValidString(kk) || !wktJSONOK(v) {
				return false
			}
		}
		return true
	case *structpb.Value_ListValue:
		if k == nil {
			return false
		}
		for _, v := range k.ListValue.GetValues() {
			if !wktJSONOK(v) {
				return false
			}
		}
		return true
	}
	return false
}

func wktCheckJSON(c *Ctx, x *structpb.Value, in string) {
	pj, err := protojson.Marshal(x)
	ok := wktJSONOK(x)
	if (err == nil) != ok {
		c.PropFail("C45", fmt.Sprintf("protojson.Marshal(Value) success=%v but expected %v", err == nil, ok), in)
		return
	}
	if err != nil {
		c.Stat("json_skip_err")
		return
	}
	ej, err := json.Marshal(x.AsInterface())
	if err != nil {
		c.PropFail("C45", "encoding/json fails on AsInterface() of a Value protojson accepts", in)
		return
	}
	if eq, why := wktJSONSemEq(ej, pj); !eq {
		c.PropFail("C45", "json.Marshal(AsInterface()) not semantically equal to protojson.Marshal(value) "+why, in, HexB(ej), HexB(pj))
		return
	}
	// MarshalJSON method is protojson.Marshal; UnmarshalJSON inverts it
	mj, err := x.MarshalJSON()
	if err != nil {
		c.PropFail("C45", "Value.MarshalJSON fails where protojson.Marshal succeeds", in)
		return
	}
	if eq, _ := wktJSONSemEq(mj, pj); !eq {
		c.PropFail("C45", "Value.MarshalJSON differs from protojson.Marshal", in)
	}
	var back structpb.Value
	if err := back.UnmarshalJSON(pj); err != nil {
		c.PropFail("C45", "Value.UnmarshalJSON rejects protojson.Marshal output", in, HexB(pj))
		return
	}
	if wktP(&back) != wktP(x) {
		c.PropFail("C45", "Value JSON round trip changes the value", in, wktP(&back))
	}
	// and encoding/json's text is accepted too, with the same result
	var back2 structpb.Value
	if err := back2.UnmarshalJSON(ej); err != nil || wktP(&back2) != wktP(x) {
		c.PropFail("C45", "Value.UnmarshalJSON(json.Marshal(AsInterface())) differs from the value", in, HexB(ej))
	}
	c.Stat("json_checked")
}

func wktNewValue(c *Ctx, v any) {
	in := wktG(v)
	x, err := func() (x *structpb.Value, err error) {
		defer func() {
			if r := recover(); r != nil {
				c.PropFail("C45", fmt.Sprintf("NewValue panics: %v", r), in)
				err = fmt.Errorf("panic")
			}
		}()
		return structpb.NewValue(v)
	}()
	want, ok := wktNorm(v)
	if err != nil {
		c.Case("wkt", "newvalue", []string{in}, []string{"err"})
		c.Stat("newvalue_err")
		if ok {
			c.PropFail("C45", "NewValue rejects a value of its documented domain", in)
		}
		if x != nil {
			c.PropFail("C45", "NewValue returns both a value and an error", in)
		}
		return
	}
	c.Case("wkt", "newvalue", []string{in}, []string{"ok", wktP(x)})
	c.Stat("newvalue_ok")
	if !ok {
		c.PropFail("C45", "NewValue accepts a value outside its documented domain (invalid UTF-8 or unsupported type)", in)
		return
	}
	got := x.AsInterface()
	// NewValue turns nil slices/maps into empty ones (documented through NewList/NewStruct make())
	if !wktDeepEq(got, want) {
		c.PropFail("C45", "NewValue(v).AsInterface() differs from v modulo the documented conversions", in, wktG(got), wktG(want))
	}
	if !wktHasNonFinite(x) {
		wktCheckJSON(c, x, in)
	}
	// Struct / List entry points agree with the Value entry point
	switch v := v.(type) {
	case map[string]any:
		s, err := structpb.NewStruct(v)
		if err != nil || !wktDeepEq(any(s.AsMap()), want) || wktP(structpb.NewStructValue(s)) != wktP(x) {
			c.PropFail("C45", "NewStruct/AsMap disagree with NewValue/AsInterface", in)
		}
	case []any:
		l, err := structpb.NewList(v)
		if err != nil || !wktDeepEq(any(l.AsSlice()), want) || wktP(structpb.NewListValue(l)) != wktP(x) {
			c.PropFail("C45", "NewList/AsSlice disagree with NewValue/AsInterface", in)
		}
	}
}

func wktAsIface(c *Ctx, x *structpb.Value) {
	in := wktP(x)
	got := x.AsInterface()
	c.Case("wkt", "asiface", []string{in}, []string{wktG(got)})
	// AsInterface output is always acceptable to NewValue iff all strings/keys are valid UTF-8, and is a fixed point
	y, err := structpb.NewValue(got)
	if err == nil {
		if !wktDeepEq(y.AsInterface(), got) {
			c.PropFail("C45", "AsInterface is not a fixed point of NewValue∘AsInterface", in)
		}
	} else {
		c.Stat("asiface_not_reaccepted")
	}
	if !wktHasNonFinite(x) {
		wktCheckJSON(c, x, in)
	}
}

// ---------------------------------------------------------------- Any: names and URLs

// a message whose descriptor reports an arbitrary full name (MessageIs only looks at that)
type wktFakeDesc struct {
	protoreflect.MessageDescriptor
	name protoreflect.FullName
}

func (d wktFakeDesc) FullName() protoreflect.FullName { return d.name }

type wktFakeRefl struct {
	protoreflect.Message
	d wktFakeDesc
}

func (m wktFakeRefl) Descriptor() protoreflect.MessageDescriptor { return m.d }
func (m wktFakeRefl) ProtoMethods() *protoiface.Methods          { return nil }
func (m wktFakeRefl) Interface() protoreflect.ProtoMessage       { return wktFakeMsg{m} }

type wktFakeMsg struct{ r wktFakeRefl }

func (m wktFakeMsg) ProtoReflect() protoreflect.Message { return m.r }

func wktFake(name string) proto.Message {
	e := (&emptypb.Empty{}).ProtoReflect()
	return wktFakeMsg{wktFakeRefl{e, wktFakeDesc{e.Descriptor(), protoreflect.FullName(name)}}}
}

func wktMsgIs(c *Ctx, url, name string) bool {
	a := &anypb.Any{TypeUrl: url}
	got := a.MessageIs(wktFake(name))
	c.Case("wkt", "msgis", []string{HexB([]byte(url)), HexB([]byte(name))}, []string{Tok(got)})
	// the suffix rule, stated independently
	want := url == name || strings.HasSuffix(url, "/"+name)
	if got != want {
		c.PropFail("C45", "MessageIs differs from: url == name or url ends with \"/\"+name", HexB([]byte(url)), HexB([]byte(name)))
	}
	return got
}

var wktFullNameRE = regexp.MustCompile(`^[A-Za-z_][A-Za-z0-9_]*(\.[A-Za-z_][A-Za-z0-9_]*)*$`)

func wktMsgName(c *Ctx, url string) string {
	a := &anypb.Any{TypeUrl: url}
	got := string(a.MessageName())
	c.Case("wkt", "msgname", []string{HexB([]byte(url))}, []string{HexB([]byte(got))})
	// stated independently: the part after the last slash, if it is ident(.ident)*
	want := url
	if i := strings.LastIndexByte(url, '/'); i >= 0 {
		want = url[i+1:]
	}
	if !wktFullNameRE.MatchString(want) {
		want = ""
	}
	if got != want {
		c.PropFail("C45", "MessageName is not the valid full name after the last slash", HexB([]byte(url)), HexB([]byte(got)))
	}
	if got != "" {
		if !protoreflect.FullName(got).IsValid() || !(url == got || strings.HasSuffix(url, "/"+got)) || strings.Contains(got, "/") {
			c.PropFail("C45", "MessageName returns something that is not the valid name after the last slash", HexB([]byte(url)))
		}
		if !a.MessageIs(wktFake(got)) {
			c.PropFail("C45", "MessageIs is false for the message named by MessageName", HexB([]byte(url)))
		}
	}
	return got
}

func wktAllStrings(alpha string, maxLen int) []string {
	out := []string{""}
	prev := []string{""}
	for l := 1; l <= maxLen; l++ {
		var cur []string
		for _, p := range prev {
			for i := 0; i < len(alpha); i++ {
				cur = append(cur, p+alpha[i:i+1])
			}
		}
		out = append(out, cur...)
		prev = cur
	}
	return out
}

func wktGenName(c *Ctx) string {
	segs := 1 + c.Intn(3)
	var sb strings.Builder
	for i := 0; i < segs; i++ {
		if i > 0 {
			sb.WriteByte('.')
		}
		n := 1 + c.Intn(4)
		for j := 0; j < n; j++ {
			const first = "abzAZ_"
			const rest = "abzAZ_09"
			if j == 0 {
				sb.WriteByte(first[c.Intn(len(first))])
			} else {
				sb.WriteByte(rest[c.Intn(len(rest))])
			}
		}
	}
	return sb.String()
}

func wktMutateStr(c *Ctx, s string) string {
	b := []byte(s)
	switch c.Intn(5) {
	case 0:
		if len(b) > 0 {
			p := c.Intn(len(b))
			b = append(b[:p:p], b[p+1:]...)
		}
	case 1:
		p := c.Intn(len(b) + 1)
		ch := []byte("/.a1_- \x00\x80Z")[c.Intn(10)]
		b = append(b[:p:p], append([]byte{ch}, b[p:]...)...)
	case 2:
		if len(b) > 0 {
			b[c.Intn(len(b))] = "/.a1_-"[c.Intn(6)]
		}
	case 3:
		if len(b) > 0 {
			b = b[c.Intn(len(b)):]
		}
	default:
		if len(b) > 0 {
			b = b[:c.Intn(len(b))]
		}
	}
	return string(b)
}

func wktAnyNames(c *Ctx, n int) {
	// exhaustive small strings
	urls := wktAllStrings("a/.", 4)
	names := wktAllStrings("a/.", 3)
	for _, u := range urls {
		for _, nm := range names {
			wktMsgIs(c, u, nm)
		}
	}
	for _, u := range wktAllStrings("a1./_", 5) {
		wktMsgName(c, u)
	}
	prefixes := []string{"", "type.googleapis.com/", "/", "//", "http://x.y/z/", "a", "type.googleapis.com", "x/y/", "example.com/sub/"}
	for i := 0; i < n; i++ {
		name := wktGenName(c)
		if c.Intn(5) == 0 {
			name = wktMutateStr(c, name)
		}
		url := prefixes[c.Intn(len(prefixes))] + name
		switch c.Intn(6) {
		case 0:
			url = wktMutateStr(c, url)
		case 1:
			url = prefixes[c.Intn(len(prefixes))] + wktGenName(c)
		case 2:
			url = prefixes[c.Intn(len(prefixes))] + "x" + name
		}
		wktMsgIs(c, url, name)
		wktMsgName(c, url)
		// New builds prefix + full name, whatever the name is
		a, err := anypb.New(wktFake(name))
		if err != nil {
			c.PropFail("C45", "anypb.New fails on an empty message", HexB([]byte(name)))
			continue
		}
		c.Case("wkt", "newurl", []string{HexB([]byte(name))}, []string{HexB([]byte(a.TypeUrl))})
		if !a.MessageIs(wktFake(name)) {
			c.PropFail("C45", "MessageIs false right after New", HexB([]byte(name)))
		}
		if protoreflect.FullName(name).IsValid() && string(a.MessageName()) != name {
			c.PropFail("C45", "MessageName after New is not the full name", HexB([]byte(name)))
		}
	}
}

// ---------------------------------------------------------------- Any: every registered message type

type wktRng struct{ s uint64 }

func (r *wktRng) U64() uint64 {
	r.s += 0x9e3779b97f4a7c15
	z := r.s
	z = (z ^ (z >> 30)) * 0xbf58476d1ce4e5b9
	z = (z ^ (z >> 27)) * 0x94d049bb133111eb
	return z ^ (z >> 31)
}
func (r *wktRng) Intn(n int) int {
	if n <= 0 {
		return 0
	}
	return int(r.U64() % uint64(n))
}

func wktRandStr(r *wktRng) string {
	n := r.Intn(6)
	b := make([]byte, 0, n)
	for i := 0; i < n; i++ {
		if r.Intn(5) == 0 {
			b = utf8.AppendRune(b, wktRunes[r.Intn(len(wktRunes))])
		} else {
			b = append(b, byte('a'+r.Intn(26)))
		}
	}
	return string(b)
}

func wktRandScalar(r *wktRng, fd protoreflect.FieldDescriptor) protoreflect.Value {
	small := func() uint64 {
		switch r.Intn(4) {
		case 0:
			return uint64(r.Intn(3))
		case 1:
			return r.U64() >> uint(r.Intn(64))
		case 2:
			return ^uint64(0) >> uint(r.Intn(64))
		}
		return r.U64()
	}
	switch fd.Kind() {
	case protoreflect.BoolKind:
		return protoreflect.ValueOfBool(r.Intn(2) == 1)
	case protoreflect.EnumKind:
		vals := fd.Enum().Values()
		if !fd.Enum().IsClosed() && r.Intn(4) == 0 {
			return protoreflect.ValueOfEnum(protoreflect.EnumNumber(int32(small())))
		}
		return protoreflect.ValueOfEnum(vals.Get(r.Intn(vals.Len())).Number())
	case protoreflect.Int32Kind, protoreflect.Sint32Kind, protoreflect.Sfixed32Kind:
		return protoreflect.ValueOfInt32(int32(small()))
	case protoreflect.Uint32Kind, protoreflect.Fixed32Kind:
		return protoreflect.ValueOfUint32(uint32(small()))
	case protoreflect.Int64Kind, protoreflect.Sint64Kind, protoreflect.Sfixed64Kind:
		return protoreflect.ValueOfInt64(int64(small()))
	case protoreflect.Uint64Kind, protoreflect.Fixed64Kind:
		return protoreflect.ValueOfUint64(small())
	case protoreflect.FloatKind:
		if r.Intn(3) == 0 {
			return protoreflect.ValueOfFloat32(math.Float32frombits(uint32(r.U64())))
		}
		return protoreflect.ValueOfFloat32(float32(int32(small())) / 8)
	case protoreflect.DoubleKind:
		if r.Intn(3) == 0 {
			return protoreflect.ValueOfFloat64(math.Float64frombits(r.U64()))
		}
		return protoreflect.ValueOfFloat64(float64(int64(small())) / 8)
	case protoreflect.StringKind:
		return protoreflect.ValueOfString(wktRandStr(r))
	case protoreflect.BytesKind:
		n := r.Intn(6)
		b := make([]byte, n)
		for i := range b {
			b[i] = byte(r.U64())
		}
		return protoreflect.ValueOfBytes(b)
	}
	panic("wkt: unexpected kind " + fd.Kind().String())
}

// wktFill populates m through protoreflect only. Required fields are always set.
func wktFill(r *wktRng, m protoreflect.Message, depth int) {
	md := m.Descriptor()
	fds := md.Fields()
	// choose at most one member per oneof
	chosen := map[protoreflect.FullName]int{}
	for i := 0; i < md.Oneofs().Len(); i++ {
		od := md.Oneofs().Get(i)
		if od.IsSynthetic() {
			continue
		}
		chosen[od.FullName()] = r.Intn(od.Fields().Len()+1) - 1
	}
	for i := 0; i < fds.Len(); i++ {
		fd := fds.Get(i)
		req := fd.Cardinality() == protoreflect.Required
		if od := fd.ContainingOneof(); od != nil && !od.IsSynthetic() {
			idx := chosen[od.FullName()]
			if idx < 0 || od.Fields().Get(idx) != fd {
				continue
			}
		} else if !req && r.Intn(3) == 0 {
			continue
		}
		if !req && depth <= 0 && fd.Message() != nil {
			continue
		}
		if fd.IsWeak() {
			continue
		}
		switch {
		case fd.IsMap():
			if depth <= 0 {
				continue
			}
			mp := m.Mutable(fd).Map()
			n := r.Intn(3)
			for j := 0; j < n; j++ {
				k := wktRandScalar(r, fd.MapKey()).MapKey()
				if fd.MapValue().Message() != nil {
					v := mp.NewValue()
					wktFill(r, v.Message(), depth-1)
					mp.Set(k, v)
				} else {
					mp.Set(k, wktRandScalar(r, fd.MapValue()))
				}
			}
		case fd.IsList():
			l := m.Mutable(fd).List()
			n := r.Intn(3)
			for j := 0; j < n; j++ {
				if fd.Message() != nil {
					if depth <= 0 {
						break
					}
					v := l.NewElement()
					wktFill(r, v.Message(), depth-1)
					l.Append(v)
				} else {
					l.Append(wktRandScalar(r, fd))
				}
			}
		case fd.Message() != nil:
			// required message fields are set even at the depth limit (recursive required
			// messages can never be initialized: give up on those)
			if depth < -6 {
				continue
			}
			wktFill(r, m.Mutable(fd).Message(), depth-1)
		default:
			m.Set(fd, wktRandScalar(r, fd))
		}
	}
	// (MessageSet-format messages are left without unknown fields: without -tags protolegacy the
	// table-driven marshaler drops them, which belongs to F13 / C08 / C47, not to Any)
	type msetter interface{ IsMessageSet() bool }
	isMset := false
	if x, ok := md.(msetter); ok {
		isMset = x.IsMessageSet()
	}
	if r.Intn(4) == 0 && !md.IsMapEntry() && !isMset {
		// an unknown field with a number that no field or extension uses
		num := protowire.Number(536870000 + r.Intn(900))
		if fds.ByNumber(num) == nil {
			var u []byte
			u = protowire.AppendTag(u, num, protowire.VarintType)
			u = protowire.AppendVarint(u, r.U64()>>uint(r.Intn(64)))
			m.SetUnknown(u)
		}
	}
}

func wktUsesMessageSet(md protoreflect.MessageDescriptor, seen map[protoreflect.FullName]bool) bool {
	if seen[md.FullName()] {
		return false
	}
	seen[md.FullName()] = true
	type msetter interface{ IsMessageSet() bool }
	if x, ok := md.(msetter); ok && x.IsMessageSet() {
		return true
	}
	for i := 0; i < md.Fields().Len(); i++ {
		if sub := md.Fields().Get(i).Message(); sub != nil && wktUsesMessageSet(sub, seen) {
			return true
		}
	}
	return false
}

func wktAnyTypes(c *Ctx, rounds int) {
	var mts []protoreflect.MessageType
	protoregistry.GlobalTypes.RangeMessages(func(mt protoreflect.MessageType) bool {
		mts = append(mts, mt)
		return true
	})
	sort.Slice(mts, func(i, j int) bool { return mts[i].Descriptor().FullName() < mts[j].Descriptor().FullName() })
	c.StatN("any_registered_types", len(mts))
	if len(mts) < 900 {
		c.PropFail("C45", fmt.Sprintf("only %d registered message types (the import list is expected to give about 1013)", len(mts)))
	}
	for round := 0; round < rounds; round++ {
		for i, mt := range mts {
			name := string(mt.Descriptor().FullName())
			func() {
				defer func() {
					if r := recover(); r != nil {
						c.PropFail("C45", fmt.Sprintf("panic in Any round trip: %v", r), name)
					}
				}()
				seed := c.U64()
				depth := 1 + c.Intn(3)
				build := func() proto.Message {
					m := mt.New()
					wktFill(&wktRng{seed}, m, depth)
					return m.Interface()
				}
				m, want := build(), build()
				if !proto.Equal(m, want) {
					c.PropFail("C45", "harness: two builds from the same seed differ", name)
					return
				}
				a, err := anypb.New(m)
				if err != nil && proto.CheckInitialized(m) != nil {
					c.Stat("any_skip_uninitializable")
					return
				}
				if err != nil {
					if wktUsesMessageSet(mt.Descriptor(), map[protoreflect.FullName]bool{}) {
						c.Stat("any_skip_messageset")
						return
					}
					c.PropFail("C45", "anypb.New fails: "+wktErrClass(err), name, HexN(seed))
					return
				}
				c.Stat("any_types_checked")
				if a.TypeUrl != "type.googleapis.com/"+name {
					c.PropFail("C45", "New: unexpected type URL", name, HexB([]byte(a.TypeUrl)))
				}
				c.Case("wkt", "newurl", []string{HexB([]byte(name))}, []string{HexB([]byte(a.TypeUrl))})
				c.Case("wkt", "msgname", []string{HexB([]byte(a.TypeUrl))}, []string{HexB([]byte(a.MessageName()))})
				if string(a.MessageName()) != name {
					c.PropFail("C45", "MessageName is not the full name", name)
				}
				other := mts[(i+1+c.Intn(len(mts)-1))%len(mts)]
				oname := string(other.Descriptor().FullName())
				is1, is2 := a.MessageIs(m), a.MessageIs(other.New().Interface())
				c.Case("wkt", "msgis", []string{HexB([]byte(a.TypeUrl)), HexB([]byte(name))}, []string{Tok(is1)})
				c.Case("wkt", "msgis", []string{HexB([]byte(a.TypeUrl)), HexB([]byte(oname))}, []string{Tok(is2)})
				if !is1 || !a.MessageIs(mt.Zero().Interface()) {
					c.PropFail("C45", "MessageIs false for the packed type", name)
				}
				if is2 {
					c.PropFail("C45", "MessageIs true for a different type", name, oname)
				}
				if a.MessageIs(nil) {
					c.PropFail("C45", "MessageIs(nil) true", name)
				}
				fresh := mt.New().Interface()
				// UnmarshalTo resets its destination: pre-populate it
				wktFill(&wktRng{seed ^ 0x5555}, fresh.ProtoReflect(), 1)
				if err := a.UnmarshalTo(fresh); err != nil {
					c.PropFail("C45", "UnmarshalTo fails: "+wktErrClass(err), name, HexN(seed))
				} else if !proto.Equal(fresh, want) {
					if os.Getenv("WKT_DEBUG") != "" {
						fmt.Fprintf(os.Stderr, "DEBUG %s\n want=%v\n unk=%x\n got=%v\n unk=%x\n bytes=%x\n", name, want, want.ProtoReflect().GetUnknown(), fresh, fresh.ProtoReflect().GetUnknown(), a.Value)
					}
					c.PropFail("C45", "New → UnmarshalTo is not Equal to the source", name, HexN(seed))
				}
				n, err := a.UnmarshalNew()
				if err != nil {
					c.PropFail("C45", "UnmarshalNew fails: "+wktErrClass(err), name, HexN(seed))
				} else {
					if n.ProtoReflect().Descriptor() != mt.Descriptor() {
						c.PropFail("C45", "UnmarshalNew returns another type", name, string(n.ProtoReflect().Descriptor().FullName()))
					}
					if !proto.Equal(n, want) {
						c.PropFail("C45", "New → UnmarshalNew is not Equal to the source", name, HexN(seed))
					}
				}
				o := other.New().Interface()
				if err := a.UnmarshalTo(o); err == nil {
					c.PropFail("C45", "UnmarshalTo into a different type succeeds", name, oname)
				}
				// MarshalFrom into an existing Any overwrites both fields; deterministic option goes through
				b := &anypb.Any{TypeUrl: "x/y", Value: []byte{1, 2, 3}}
				if err := anypb.MarshalFrom(b, m, proto.MarshalOptions{Deterministic: true}); err != nil {
					c.PropFail("C45", "MarshalFrom fails: "+wktErrClass(err), name)
				} else {
					f2 := mt.New().Interface()
					if b.TypeUrl != a.TypeUrl || anypb.UnmarshalTo(b, f2, proto.UnmarshalOptions{}) != nil || !proto.Equal(f2, want) {
						c.PropFail("C45", "MarshalFrom/UnmarshalTo with options does not round-trip", name, HexN(seed))
					}
				}
				// other URL prefixes are equally acceptable to the unpacking side
				a2 := &anypb.Any{TypeUrl: "example.org/a/b/" + name, Value: a.Value}
				f3 := mt.New().Interface()
				if err := a2.UnmarshalTo(f3); err != nil || !proto.Equal(f3, want) {
					c.PropFail("C45", "UnmarshalTo with a custom URL prefix fails", name)
				}
				// an Any is itself a message: Any-in-Any
				aa, err := anypb.New(a)
				if err != nil || string(aa.MessageName()) != "google.protobuf.Any" {
					c.PropFail("C45", "Any in Any fails", name)
				} else {
					inner := &anypb.Any{}
					if err := aa.UnmarshalTo(inner); err != nil || !proto.Equal(inner, a) {
						c.PropFail("C45", "Any in Any does not round-trip", name)
					}
				}
			}()
		}
	}
	// error cases of UnmarshalNew
	for _, u := range []string{"", "type.googleapis.com/", "type.googleapis.com/no.such.Type", "no.such.Type", "/", "type.googleapis.com/google.protobuf.Empty/"} {
		a := &anypb.Any{TypeUrl: u}
		if _, err := a.UnmarshalNew(); err == nil {
			c.PropFail("C45", "UnmarshalNew succeeds on an unresolvable URL", HexB([]byte(u)))
		}
	}
	for _, u := range []string{"google.protobuf.Empty", "/google.protobuf.Empty", "a/b/c/google.protobuf.Empty"} {
		a := &anypb.Any{TypeUrl: u}
		if m, err := a.UnmarshalNew(); err != nil || m.ProtoReflect().Descriptor().FullName() != "google.protobuf.Empty" {
			c.PropFail("C45", "UnmarshalNew fails on a resolvable URL", HexB([]byte(u)))
		}
	}
	var nilAny *anypb.Any
	if nilAny.MessageName() != "" || nilAny.MessageIs(&emptypb.Empty{}) {
		c.PropFail("C45", "nil Any: MessageName/MessageIs not empty/false")
	}
	if err := anypb.UnmarshalTo(nil, &emptypb.Empty{}, proto.UnmarshalOptions{}); err == nil {
		c.PropFail("C45", "UnmarshalTo(nil source) succeeds")
	}
	if _, err := anypb.New(nil); err == nil {
		c.PropFail("C45", "New(nil) succeeds")
	}
}

func wktErrClass(err error) string {
	s := err.Error()
	if len(s) > 120 {
		s = s[:120]
	}
	return strings.Map(func(r rune) rune {
		if r == '\t' || r == '\n' {
			return ' '
		}
		return r
	}, s)
}

// ---------------------------------------------------------------- driver

func wktPrimitives(c *Ctx, n int) {
	for i := 0; i < n; i++ {
		b := c.Bytes(c.Intn(10))
		c.Case("wkt", "b64", []string{HexB(b)}, []string{HexB([]byte(base64.StdEncoding.EncodeToString(b)))})
		s := wktGenStr(c, 50)
		ok := utf8.ValidString(s)
		if ok {
			c.Stat("utf8_valid")
		} else {
			c.Stat("utf8_invalid")
		}
		c.Case("wkt", "utf8", []string{HexB([]byte(s))}, []string{Tok(ok)})
	}
	for _, bad := range wktBadSeqs {
		c.Case("wkt", "utf8", []string{HexB(bad)}, []string{Tok(utf8.Valid(bad))})
	}
	for _, r := range wktRunes {
		b := utf8.AppendRune(nil, r)
		c.Case("wkt", "utf8", []string{HexB(b)}, []string{Tok(utf8.Valid(b))})
	}
}

func famWkt(c *Ctx) {
	// 1. boundary corpus
	for _, v := range wktIntCorpus {
		wktNewValue(c, v)
	}
	for _, b := range wktF64Corpus {
		wktNewValue(c, math.Float64frombits(b))
		wktAsIface(c, structpb.NewNumberValue(math.Float64frombits(b)))
	}
	for _, v := range []any{nil, true, false, "", "a", "\xff", "NaN", "Infinity", []byte(nil), []byte{}, []byte{0}, []byte{0, 0}, []byte{0xff, 0xff, 0xff}, []byte("hello"),
		[]any(nil), []any{}, map[string]any(nil), map[string]any{}, []any{nil}, []any{[]any{}}, map[string]any{"": nil}, map[string]any{"\xc0\x80": 1},
		map[string]any{"a": "\xed\xa0\x80"}, []any{1, "a", []any{map[string]any{"k": []byte{1, 2}}}}, float32(0.1), float32(math.Inf(-1)),
		struct{}{}, []string{}, wktMyInt(1), json.Number("1"), (*structpb.Value)(nil), map[string]any{"a": map[string]any{"b": map[string]any{"c": uint8(7)}}}} {
		if _, isNum := v.(json.Number); isNum {
			continue // handled below (outside the model)
		}
		wktNewValue(c, v)
	}
	for _, x := range []*structpb.Value{nil, {}, {Kind: (*structpb.Value_BoolValue)(nil)}, {Kind: &structpb.Value_StructValue{}}, {Kind: &structpb.Value_ListValue{}},
		structpb.NewListValue(&structpb.ListValue{Values: []*structpb.Value{nil, {}}}),
		structpb.NewStructValue(&structpb.Struct{Fields: map[string]*structpb.Value{"a": nil, "\xff": structpb.NewStringValue("\xff")}})} {
		wktAsIface(c, x)
	}
	// deep nesting
	for _, d := range []int{10, 100, 1000} {
		var v any = float64(d)
		for i := 0; i < d; i++ {
			if i%2 == 0 {
				v = []any{v}
			} else {
				v = map[string]any{"k": v}
			}
		}
		in := fmt.Sprintf("deep%d", d)
		x, err := structpb.NewValue(v)
		if err != nil || !wktDeepEq(x.AsInterface(), v) {
			c.PropFail("C45", "deeply nested value does not round-trip", in)
		}
		if d <= 100 {
			wktNewValue(c, v)
		}
	}
	// json.Number goes through strconv.ParseFloat (not part of the model)
	for i := 0; i < 200; i++ {
		var s string
		switch c.Intn(4) {
		case 0:
			s = strconv.FormatFloat(wktGenF64(c), 'g', -1, 64)
		case 1:
			s = []string{"", "1e", "0x10", "1_0", "1e999", "-1e999", "nan", "Inf", " 1", "1 ", "+1", ".5", "5.", "1e-400", "0x1p-2", "infinity"}[c.Intn(16)]
		default:
			s = strconv.FormatInt(int64(c.U64()>>uint(c.Intn(64))), 10)
		}
		x, err := structpb.NewValue(json.Number(s))
		f, perr := strconv.ParseFloat(s, 64)
		if (err == nil) != (perr == nil) || (err == nil && math.Float64bits(x.GetNumberValue()) != math.Float64bits(f)) {
			c.PropFail("C45", "NewValue(json.Number) differs from strconv.ParseFloat", HexB([]byte(s)))
		}
	}
	wktPrimitives(c, c.N/8+50)
	// integer and float32 conversions on their own
	for i := 0; i < c.N/4+100; i++ {
		v := wktGenInt(c)
		x, _ := structpb.NewValue(v)
		c.Case("wkt", "i2f", []string{strings.TrimSuffix(strings.TrimPrefix(wktG(v), "I"), ";")}, []string{HexN(math.Float64bits(x.GetNumberValue()))})
		f := wktGenF32(c)
		y, _ := structpb.NewValue(f)
		c.Case("wkt", "f2f", []string{HexN(uint64(math.Float32bits(f)))}, []string{HexN(math.Float64bits(y.GetNumberValue()))})
	}
	// 2. structured mostly-valid stream, 3. malformed stream
	for i := 0; i < c.N; i++ {
		switch {
		case i%4 == 0:
			v := wktGenJSONLike(c, 1+c.Intn(4))
			c.Stat("gen_jsonlike")
			// on the JSON-like domain the round trip is the identity (up to nil → empty containers, which the generator does not produce)
			x, err := structpb.NewValue(v)
			if err != nil {
				c.PropFail("C45", "NewValue rejects a JSON-like value", wktG(v))
			} else if !wktDeepEq(x.AsInterface(), v) {
				c.PropFail("C45", "NewValue(v).AsInterface() != v on the JSON-like domain", wktG(v), wktG(x.AsInterface()))
			}
			wktNewValue(c, v)
		case i%4 == 1:
			c.Stat("gen_mixed")
			wktNewValue(c, wktGenG(c, 1+c.Intn(4), 0))
		case i%4 == 2:
			c.Stat("gen_malformed")
			wktNewValue(c, wktGenG(c, 1+c.Intn(3), 12))
		default:
			c.Stat("gen_pval")
			wktAsIface(c, wktGenP(c, 1+c.Intn(4)))
		}
	}
	// 4. Any
	wktAnyNames(c, c.N/2+100)
	rounds := 1
	if c.Tier == "thorough" {
		rounds = 4
	}
	wktAnyTypes(c, rounds)
}
