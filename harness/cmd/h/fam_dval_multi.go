//go:build verif

package main

// family "dval" (C35), part 4: multi-file schemas.  Random dependency graphs of 2-5 files
// (public and non-public imports, chains, diamonds, unused imports) are registered in a local
// protoregistry.Files inside the child; the last file (the subject) references one type of
// another file through a field type, an extendee or a method input/output.  Whether that
// reference must resolve is computed here from the graph alone:
//   visible(a, f)  :=  f = a  or  a imports f directly  or  f is reachable from a direct import
//                      of a through PUBLIC import edges only.
//   C dval visible <n> {<k> {<dep> <public>}*k}*n <subject> <target> | <0/1>   (model: Desc/VisibleModel.v)

import (
	"fmt"
	"strings"

	"google.golang.org/protobuf/proto"
	"google.golang.org/protobuf/types/descriptorpb"
)

type dvalMFile struct {
	deps []int
	pub  []bool
	pkg  string
}

// dvalVisible: reachability computed independently of the implementation.
func dvalVisible(files []dvalMFile, a, f int) bool {
	if f == a {
		return true
	}
	seen := map[int]bool{}
	var queue []int
	for _, d := range files[a].deps {
		if d == f {
			return true
		}
		if !seen[d] {
			seen[d] = true
			queue = append(queue, d)
		}
	}
	for len(queue) > 0 {
		d := queue[0]
		queue = queue[1:]
		for i, j := range files[d].deps {
			if !files[d].pub[i] {
				continue
			}
			if j == f {
				return true
			}
			if !seen[j] {
				seen[j] = true
				queue = append(queue, j)
			}
		}
	}
	return false
}

func dvalMName(i int) string { return fmt.Sprintf("f%d.proto", i) }

func dvalMDepFile(files []dvalMFile, i int) *descriptorpb.FileDescriptorProto {
	opt := descriptorpb.FieldDescriptorProto_LABEL_OPTIONAL.Enum()
	i32 := descriptorpb.FieldDescriptorProto_TYPE_INT32.Enum()
	f := files[i]
	p := &descriptorpb.FileDescriptorProto{Name: proto.String(dvalMName(i)), Package: proto.String(f.pkg), Syntax: proto.String("proto2")}
	m := &descriptorpb.DescriptorProto{Name: proto.String(fmt.Sprintf("T%d", i)),
		Field:          []*descriptorpb.FieldDescriptorProto{{Name: proto.String("v"), Number: proto.Int32(1), Label: opt, Type: i32}},
		NestedType:     []*descriptorpb.DescriptorProto{{Name: proto.String("In"), Field: []*descriptorpb.FieldDescriptorProto{{Name: proto.String("w"), Number: proto.Int32(1), Label: opt, Type: i32}}}},
		ExtensionRange: []*descriptorpb.DescriptorProto_ExtensionRange{{Start: proto.Int32(100), End: proto.Int32(200)}}}
	for k, d := range f.deps {
		p.Dependency = append(p.Dependency, dvalMName(d))
		if f.pub[k] {
			p.PublicDependency = append(p.PublicDependency, int32(k))
		}
		// a valid use of the direct import
		m.Field = append(m.Field, &descriptorpb.FieldDescriptorProto{Name: proto.String(fmt.Sprintf("d%d", d)), Number: proto.Int32(int32(10 + k)), Label: opt,
			Type: descriptorpb.FieldDescriptorProto_TYPE_MESSAGE.Enum(), TypeName: proto.String(fmt.Sprintf(".%s.T%d", files[d].pkg, d))})
	}
	p.MessageType = []*descriptorpb.DescriptorProto{m}
	p.EnumType = []*descriptorpb.EnumDescriptorProto{{Name: proto.String(fmt.Sprintf("E%d", i)),
		Value: []*descriptorpb.EnumValueDescriptorProto{{Name: proto.String(fmt.Sprintf("E%d_Z", i)), Number: proto.Int32(0)}}}}
	return p
}

// dvalIsScopeOf: a short name declared in package pkg resolves from a declaration in package from.
func dvalIsScopeOf(pkg, from string) bool {
	return pkg == from || strings.HasPrefix(from, pkg+".")
}

func dvalMultiCase(c *Ctx) *dvalCase {
	k := 2 + c.Intn(4)
	files := make([]dvalMFile, k)
	pkgs := []string{"p", "p", "p.s", "q", "p.s.t", "r.u"}
	for i := 0; i < k; i++ {
		files[i].pkg = pkgs[c.Intn(len(pkgs))]
		if c.Intn(3) == 0 {
			files[i].pkg = fmt.Sprintf("q%d", i)
		}
		for j := 0; j < i; j++ {
			if c.Intn(2) == 0 || (i == k-1 && j == i-1 && len(files[i].deps) == 0) {
				files[i].deps = append(files[i].deps, j)
				files[i].pub = append(files[i].pub, c.Intn(2) == 0)
			}
		}
	}
	a := k - 1
	files[a].pkg = []string{"p.s.t.sub", "p.sub", "p", "zz"}[c.Intn(4)]
	set := &descriptorpb.FileDescriptorSet{}
	for i := 0; i < a; i++ {
		set.File = append(set.File, dvalMDepFile(files, i))
	}
	opt := descriptorpb.FieldDescriptorProto_LABEL_OPTIONAL.Enum()
	i32 := descriptorpb.FieldDescriptorProto_TYPE_INT32.Enum()
	subj := &descriptorpb.FileDescriptorProto{Name: proto.String(dvalMName(a)), Package: proto.String(files[a].pkg), Syntax: proto.String("proto2")}
	for kk, d := range files[a].deps {
		subj.Dependency = append(subj.Dependency, dvalMName(d))
		if files[a].pub[kk] {
			subj.PublicDependency = append(subj.PublicDependency, int32(kk))
		}
	}
	m := &descriptorpb.DescriptorProto{Name: proto.String("M"), Field: []*descriptorpb.FieldDescriptorProto{{Name: proto.String("own"), Number: proto.Int32(1), Label: opt, Type: i32}}}
	subj.MessageType = []*descriptorpb.DescriptorProto{m}
	// some valid references to direct imports (others stay unused imports)
	for kk, d := range files[a].deps {
		if c.Bool() {
			m.Field = append(m.Field, &descriptorpb.FieldDescriptorProto{Name: proto.String(fmt.Sprintf("ok%d", d)), Number: proto.Int32(int32(20 + kk)), Label: opt,
				Type: descriptorpb.FieldDescriptorProto_TYPE_MESSAGE.Enum(), TypeName: proto.String(fmt.Sprintf(".%s.T%d", files[d].pkg, d))})
		}
	}

	allow := c.Bool()
	// the reference under test
	scenario := "file"
	t := c.Intn(a)
	expectOK := false
	var msgRef, enumRef string
	switch c.Intn(8) {
	case 0: // a file that is not registered at all
		scenario = "missing-file"
		subj.Dependency = append(subj.Dependency, "missing.proto")
		msgRef, enumRef = ".zz.missing.T", ".zz.missing.E"
		expectOK = allow
		t = -1
	case 1: // a type that does not exist in a visible package
		scenario = "missing-type"
		d := files[a].deps[c.Intn(len(files[a].deps))]
		msgRef, enumRef = fmt.Sprintf(".%s.Nope%d", files[d].pkg, d), fmt.Sprintf(".%s.NopeE%d", files[d].pkg, d)
		expectOK = allow
		t = -1
	default:
		pkg := files[t].pkg
		tn, en := fmt.Sprintf("T%d", t), fmt.Sprintf("E%d", t)
		if c.Intn(4) == 0 {
			tn += ".In"
		}
		switch form := c.Intn(3); {
		case form == 0 && dvalIsScopeOf(pkg, files[a].pkg): // resolves in an outer scope of the subject
			msgRef, enumRef = tn, en
			scenario = "file-short"
		case form == 1: // relative, from the root
			msgRef, enumRef = pkg+"."+tn, pkg+"."+en
			scenario = "file-relative"
		default:
			msgRef, enumRef = "."+pkg+"."+tn, "."+pkg+"."+en
		}
		expectOK = dvalVisible(files, a, t)
		if expectOK {
			scenario += "-visible"
		} else {
			scenario += "-hidden"
		}
	}
	site := []string{"field-msg", "field-enum", "field-kind0", "extendee", "method-in", "method-out"}[c.Intn(6)]
	switch site {
	case "field-msg":
		m.Field = append(m.Field, &descriptorpb.FieldDescriptorProto{Name: proto.String("x"), Number: proto.Int32(2), Label: opt,
			Type: descriptorpb.FieldDescriptorProto_TYPE_MESSAGE.Enum(), TypeName: proto.String(msgRef)})
	case "field-enum":
		m.Field = append(m.Field, &descriptorpb.FieldDescriptorProto{Name: proto.String("x"), Number: proto.Int32(2), Label: opt,
			Type: descriptorpb.FieldDescriptorProto_TYPE_ENUM.Enum(), TypeName: proto.String(enumRef)})
	case "field-kind0":
		ref := msgRef
		if c.Bool() {
			ref = enumRef
		}
		m.Field = append(m.Field, &descriptorpb.FieldDescriptorProto{Name: proto.String("x"), Number: proto.Int32(2), Label: opt, TypeName: proto.String(ref)})
	case "extendee":
		ext := strings.TrimSuffix(msgRef, ".In") // only T<i> has an extension range
		x := &descriptorpb.FieldDescriptorProto{Name: proto.String("xx"), Number: proto.Int32(150), Label: opt, Type: i32, Extendee: proto.String(ext)}
		if c.Bool() {
			subj.Extension = append(subj.Extension, x)
		} else {
			m.Extension = append(m.Extension, x)
		}
	case "method-in":
		subj.Service = []*descriptorpb.ServiceDescriptorProto{{Name: proto.String("S"), Method: []*descriptorpb.MethodDescriptorProto{
			{Name: proto.String("m"), InputType: proto.String(msgRef), OutputType: proto.String("." + files[a].pkg + ".M")}}}}
	case "method-out":
		subj.Service = []*descriptorpb.ServiceDescriptorProto{{Name: proto.String("S"), Method: []*descriptorpb.MethodDescriptorProto{
			{Name: proto.String("m"), InputType: proto.String("M"), OutputType: proto.String(msgRef)}}}}
	}
	set.File = append(set.File, subj)
	raw, err := proto.MarshalOptions{Deterministic: true}.Marshal(set)
	if err != nil {
		panic(err)
	}
	in := &dvalInput{Flags: dvalFlagMulti, Raw: raw}
	if allow {
		in.Flags |= dvalFlagAllow
	}
	cs := &dvalCase{In: in, What: "multi:" + site + ":" + scenario}
	if expectOK {
		cs.Expect = "accept"
	} else {
		cs.Expect = "reject"
	}
	if t >= 0 {
		toks := []string{HexN(uint64(k))}
		for _, f := range files {
			toks = append(toks, HexN(uint64(len(f.deps))))
			for i, d := range f.deps {
				toks = append(toks, HexN(uint64(d)), Tok(f.pub[i]))
			}
		}
		cs.Vis = append(toks, HexN(uint64(a)), HexN(uint64(t)))
	}
	return cs
}

// dvalMultiCorpus: the three-file shape of the import-visibility regression, in all variants.
func dvalMultiCorpus() []*dvalCase {
	var out []*dvalCase
	opt := descriptorpb.FieldDescriptorProto_LABEL_OPTIONAL.Enum()
	for _, bPublic := range []bool{false, true} {
		for _, allow := range []bool{false, true} {
			for _, site := range []string{"field", "extendee", "method"} {
				files := []dvalMFile{{pkg: "p"}, {pkg: "p", deps: []int{0}, pub: []bool{bPublic}}, {pkg: "p", deps: []int{1}, pub: []bool{false}}}
				set := &descriptorpb.FileDescriptorSet{File: []*descriptorpb.FileDescriptorProto{dvalMDepFile(files, 0), dvalMDepFile(files, 1)}}
				a := &descriptorpb.FileDescriptorProto{Name: proto.String(dvalMName(2)), Package: proto.String("p"), Syntax: proto.String("proto2"), Dependency: []string{dvalMName(1)},
					MessageType: []*descriptorpb.DescriptorProto{{Name: proto.String("M")}}}
				switch site {
				case "field":
					a.MessageType[0].Field = []*descriptorpb.FieldDescriptorProto{{Name: proto.String("x"), Number: proto.Int32(1), Label: opt,
						Type: descriptorpb.FieldDescriptorProto_TYPE_MESSAGE.Enum(), TypeName: proto.String(".p.T0")}}
				case "extendee":
					a.Extension = []*descriptorpb.FieldDescriptorProto{{Name: proto.String("xx"), Number: proto.Int32(150), Label: opt,
						Type: descriptorpb.FieldDescriptorProto_TYPE_INT32.Enum(), Extendee: proto.String(".p.T0")}}
				case "method":
					a.Service = []*descriptorpb.ServiceDescriptorProto{{Name: proto.String("S"), Method: []*descriptorpb.MethodDescriptorProto{
						{Name: proto.String("m"), InputType: proto.String(".p.T0"), OutputType: proto.String(".p.M")}}}}
				}
				set.File = append(set.File, a)
				raw, _ := proto.MarshalOptions{Deterministic: true}.Marshal(set)
				in := &dvalInput{Flags: dvalFlagMulti, Raw: raw}
				if allow {
					in.Flags |= dvalFlagAllow
				}
				cs := &dvalCase{In: in, What: fmt.Sprintf("multicorpus:a->b->c:%s:b-imports-c-publicly=%v", site, bPublic), Expect: "reject",
					Vis: []string{"3", "0", "1", "0", Tok(bPublic), "1", "1", "0", "2", "0"}}
				if bPublic {
					cs.Expect = "accept"
				}
				out = append(out, cs)
			}
		}
	}
	return out
}
