//go:build verif && verifgen

package main

// The generator test data of cmd/protoc-gen-go declares extensions whose numbers collide with
// internal/testprotos (e.g. MessageOptions 1001).  They are linked only into the binary built with
// the extra tag `verifgen`, which the gen/names families (C40, C42) use; every other family runs
// in a binary without them, so the global registries it enumerates are conflict-free.
import (
	_ "google.golang.org/protobuf/cmd/protoc-gen-go/testdata/annotations"
	_ "google.golang.org/protobuf/cmd/protoc-gen-go/testdata/comments"
	_ "google.golang.org/protobuf/cmd/protoc-gen-go/testdata/enumprefix"
	_ "google.golang.org/protobuf/cmd/protoc-gen-go/testdata/extensions/base"
	_ "google.golang.org/protobuf/cmd/protoc-gen-go/testdata/extensions/ext"
	_ "google.golang.org/protobuf/cmd/protoc-gen-go/testdata/extensions/extra"
	_ "google.golang.org/protobuf/cmd/protoc-gen-go/testdata/extensions/proto3"
	_ "google.golang.org/protobuf/cmd/protoc-gen-go/testdata/featureresolution"
	_ "google.golang.org/protobuf/cmd/protoc-gen-go/testdata/features"
	_ "google.golang.org/protobuf/cmd/protoc-gen-go/testdata/fieldnames"
	_ "google.golang.org/protobuf/cmd/protoc-gen-go/testdata/import_public"
	_ "google.golang.org/protobuf/cmd/protoc-gen-go/testdata/imports"
	_ "google.golang.org/protobuf/cmd/protoc-gen-go/testdata/issue780_oneof_conflict"
	_ "google.golang.org/protobuf/cmd/protoc-gen-go/testdata/nameclash"
	_ "google.golang.org/protobuf/cmd/protoc-gen-go/testdata/proto2"
	_ "google.golang.org/protobuf/cmd/protoc-gen-go/testdata/proto3"
	_ "google.golang.org/protobuf/cmd/protoc-gen-go/testdata/protoeditions"
	_ "google.golang.org/protobuf/cmd/protoc-gen-go/testdata/retention"
)
