//go:build verif

package main

// family "range": C32, reflect/protorange.
//
// C line: range <tree> <script> | one token per callback event, then ret:nil|ret:err
//   tree   := s | M{ (num:tree,)* [u] [a tree] } | L{ (tree,)* } | P{ (idx:tree,)* }
//             fields in number order, map entries in key order (idx = position in that order),
//             'u' = has unknown fields, 'a tree' = resolvable google.protobuf.Any and its expansion
//   script := '-' | (path@push|pop=B|T|E)(;...)*   path = steps joined by '/'
//   event  := +depth:step | -depth:step            step = r | f<num> | u | a | i<idx> | k<idx>
// The tree is dumped by the harness's own reference traversal (protoreflect only,
// own sorting), so a wrong visiting order or a missed/duplicated value shows up
// both as a P line and as a disagreement with the model.

import (
	"errors"
	"fmt"
	"sort"
	"strings"

	"google.golang.org/protobuf/proto"
	"google.golang.org/protobuf/reflect/protopath"
	"google.golang.org/protobuf/reflect/protorange"
	"google.golang.org/protobuf/reflect/protoreflect"
	"google.golang.org/protobuf/reflect/protoregistry"
	"google.golang.org/protobuf/types/dynamicpb"
	"google.golang.org/protobuf/types/known/anypb"
	"google.golang.org/protobuf/types/known/durationpb"
	"google.golang.org/protobuf/types/known/structpb"

	testpb "google.golang.org/protobuf/internal/testprotos/test"
	testeditionspb "google.golang.org/protobuf/internal/testprotos/testeditions"
	textpb2 "google.golang.org/protobuf/internal/testprotos/textpb2"
)

func init() { Register("range", famRange) }

var rangeErr = errors.New("verif: callback error")

type rangeNode struct {
	kind byte // 's' scalar, 'M' message, 'L' list, 'P' map
	val  protoreflect.Value
	kids []rangeKid
	// for maps: key -> index in range order
	keyIdx map[any]int
	any    bool // kids[0] is the Any expansion
}
type rangeKid struct {
	step string
	node *rangeNode
}

// ---- the reference traversal (independent of protorange and of internal/order)
func rangeRefMessage(m protoreflect.Message) *rangeNode {
	n := &rangeNode{kind: 'M', val: protoreflect.ValueOfMessage(m)}
	md := m.Descriptor()
	if md.FullName() == "google.protobuf.Any" {
		url := m.Get(md.Fields().ByNumber(1)).String()
		val := m.Get(md.Fields().ByNumber(2)).Bytes()
		if mt, err := protoregistry.GlobalTypes.FindMessageByURL(url); err == nil {
			m2 := mt.New()
			if (proto.UnmarshalOptions{AllowPartial: true}).Unmarshal(val, m2.Interface()) == nil {
				n.any = true
				n.kids = []rangeKid{{"a", rangeRefMessage(m2)}}
				return n
			}
		}
	}
	type fv struct {
		fd protoreflect.FieldDescriptor
		v  protoreflect.Value
	}
	var fs []fv
	m.Range(func(fd protoreflect.FieldDescriptor, v protoreflect.Value) bool {
		fs = append(fs, fv{fd, v})
		return true
	})
	sort.Slice(fs, func(i, j int) bool { return fs[i].fd.Number() < fs[j].fd.Number() })
	for _, f := range fs {
		n.kids = append(n.kids, rangeKid{fmt.Sprintf("f%d", f.fd.Number()), rangeRefValue(f.fd, f.v)})
	}
	if b := m.GetUnknown(); len(b) > 0 {
		n.kids = append(n.kids, rangeKid{"u", &rangeNode{kind: 's', val: protoreflect.ValueOfBytes(b)}})
	}
	return n
}

func rangeKeyLess(a, b protoreflect.MapKey) bool {
	switch x := a.Interface().(type) {
	case bool:
		return !x && b.Bool()
	case int32:
		return x < b.Interface().(int32)
	case int64:
		return x < b.Interface().(int64)
	case uint32:
		return x < b.Interface().(uint32)
	case uint64:
		return x < b.Interface().(uint64)
	case string:
		return strings.Compare(x, b.String()) < 0
	}
	panic("key type")
}

func rangeRefValue(fd protoreflect.FieldDescriptor, v protoreflect.Value) *rangeNode {
	switch {
	case fd.IsMap():
		n := &rangeNode{kind: 'P', val: v, keyIdx: map[any]int{}}
		var keys []protoreflect.MapKey
		v.Map().Range(func(k protoreflect.MapKey, _ protoreflect.Value) bool {
			keys = append(keys, k)
			return true
		})
		sort.Slice(keys, func(i, j int) bool { return rangeKeyLess(keys[i], keys[j]) })
		for i, k := range keys {
			n.keyIdx[k.Interface()] = i
			ev := v.Map().Get(k)
			var kid *rangeNode
			if fd.MapValue().Message() != nil {
				kid = rangeRefMessage(ev.Message())
			} else {
				kid = &rangeNode{kind: 's', val: ev}
			}
			n.kids = append(n.kids, rangeKid{fmt.Sprintf("k%d", i), kid})
		}
		return n
	case fd.IsList():
		n := &rangeNode{kind: 'L', val: v}
		for i := 0; i < v.List().Len(); i++ {
			ev := v.List().Get(i)
			var kid *rangeNode
			if fd.Message() != nil {
				kid = rangeRefMessage(ev.Message())
			} else {
				kid = &rangeNode{kind: 's', val: ev}
			}
			n.kids = append(n.kids, rangeKid{fmt.Sprintf("i%d", i), kid})
		}
		return n
	case fd.Message() != nil:
		return rangeRefMessage(v.Message())
	default:
		return &rangeNode{kind: 's', val: v}
	}
}

func (n *rangeNode) dump(sb *strings.Builder) {
	switch n.kind {
	case 's':
		sb.WriteString("s")
	case 'M':
		sb.WriteString("M{")
		for _, k := range n.kids {
			switch k.step[0] {
			case 'f':
				sb.WriteString(k.step[1:])
				sb.WriteString(":")
				k.node.dump(sb)
				sb.WriteString(",")
			case 'u':
				sb.WriteString("u")
			case 'a':
				sb.WriteString("a")
				k.node.dump(sb)
			}
		}
		sb.WriteString("}")
	case 'L':
		sb.WriteString("L{")
		for _, k := range n.kids {
			k.node.dump(sb)
			sb.WriteString(",")
		}
		sb.WriteString("}")
	case 'P':
		sb.WriteString("P{")
		for _, k := range n.kids {
			sb.WriteString(k.step[1:])
			sb.WriteString(":")
			k.node.dump(sb)
			sb.WriteString(",")
		}
		sb.WriteString("}")
	}
}

// positions lists every populated position below n (depth first), as path strings.
func (n *rangeNode) positions(prefix string, out *[]string) {
	for _, k := range n.kids {
		p := prefix + "/" + k.step
		*out = append(*out, p)
		k.node.positions(p, out)
	}
}

// ---- one run of protorange with scripted callbacks
type rangeRun struct {
	events []string
	pushed []string // path strings in push order
	ret    error
	fails  []string
}

func rangeStepTok(parent *rangeNode, s protopath.Step) string {
	switch s.Kind() {
	case protopath.RootStep:
		return "r"
	case protopath.FieldAccessStep:
		return fmt.Sprintf("f%d", s.FieldDescriptor().Number())
	case protopath.UnknownAccessStep:
		return "u"
	case protopath.AnyExpandStep:
		return "a"
	case protopath.ListIndexStep:
		return fmt.Sprintf("i%d", s.ListIndex())
	case protopath.MapIndexStep:
		if parent != nil && parent.keyIdx != nil {
			if i, ok := parent.keyIdx[s.MapIndex().Interface()]; ok {
				return fmt.Sprintf("k%d", i)
			}
		}
		return "k?"
	}
	return "?"
}

// rangeApply computes the value that step s designates below parent (protoreflect only).
func rangeApply(parent protoreflect.Value, s protopath.Step) (v protoreflect.Value, ok bool) {
	defer func() {
		if recover() != nil {
			ok = false
		}
	}()
	switch s.Kind() {
	case protopath.FieldAccessStep:
		return parent.Message().Get(s.FieldDescriptor()), parent.Message().Has(s.FieldDescriptor())
	case protopath.UnknownAccessStep:
		return protoreflect.ValueOfBytes(parent.Message().GetUnknown()), len(parent.Message().GetUnknown()) > 0
	case protopath.ListIndexStep:
		return parent.List().Get(s.ListIndex()), true
	case protopath.MapIndexStep:
		return parent.Map().Get(s.MapIndex()), parent.Map().Has(s.MapIndex())
	case protopath.AnyExpandStep:
		m := parent.Message()
		val := m.Get(m.Descriptor().Fields().ByNumber(2)).Bytes()
		mt, err := protoregistry.GlobalTypes.FindMessageByName(s.MessageDescriptor().FullName())
		if err != nil {
			return v, false
		}
		m2 := mt.New()
		if (proto.UnmarshalOptions{AllowPartial: true}).Unmarshal(val, m2.Interface()) != nil {
			return v, false
		}
		return protoreflect.ValueOfMessage(m2), true
	}
	return v, false
}

func rangeExec(root proto.Message, ref *rangeNode, script map[string]string) *rangeRun {
	run := &rangeRun{}
	fail := func(s string) {
		if len(run.fails) < 4 {
			run.fails = append(run.fails, s)
		}
	}
	var nodes []*rangeNode // reference nodes of the open path ([0] = root)
	var toks []string      // step tokens of the open path
	verdict := func(kind string) error {
		switch script[strings.Join(toks, "/")+"@"+kind] {
		case "B":
			return protorange.Break
		case "T":
			return protorange.Terminate
		case "E":
			return rangeErr
		}
		return nil
	}
	check := func(p protopath.Values) {
		if len(p.Path) != len(p.Values) {
			fail("len(Path) != len(Values)")
		}
		if len(p.Path) == 0 || p.Path[0].Kind() != protopath.RootStep {
			fail("path does not start with a Root step")
		}
	}
	push := func(p protopath.Values) error {
		check(p)
		depth := len(p.Path)
		if depth != len(toks)+1 {
			fail(fmt.Sprintf("push at depth %d with %d open steps", depth, len(toks)))
			run.events = append(run.events, "+?")
			return protorange.Terminate
		}
		last := p.Index(-1)
		var parent *rangeNode
		if depth > 1 {
			parent = nodes[len(nodes)-1]
		}
		tok := rangeStepTok(parent, last.Step)
		// reference node for this step
		var node *rangeNode
		if depth == 1 {
			node = ref
			if !last.Value.Message().IsValid() || last.Value.Message() != root.ProtoReflect() {
				fail("root step value is not the message passed to Range")
			}
		} else {
			for _, k := range parent.kids {
				if k.step == tok {
					node = k.node
				}
			}
			if node == nil {
				fail("visited a value that is not a populated position: " + strings.Join(toks, "/") + "/" + tok)
				node = &rangeNode{kind: 's'}
			}
			// the value of the step is the step applied to the parent value
			want, ok := rangeApply(p.Index(-2).Value, last.Step)
			if !ok {
				fail("step does not apply to the parent value: " + strings.Join(toks, "/") + "/" + tok)
			} else if last.Step.Kind() == protopath.AnyExpandStep {
				if !proto.Equal(want.Message().Interface(), last.Value.Message().Interface()) {
					fail("AnyExpand value differs from the unmarshalled Any body")
				}
			} else if !want.Equal(last.Value) {
				fail("step value differs from the step applied to the parent value: " + strings.Join(toks, "/") + "/" + tok)
			}
		}
		toks = append(toks, tok)
		nodes = append(nodes, node)
		run.events = append(run.events, fmt.Sprintf("+%d:%s", depth, tok))
		run.pushed = append(run.pushed, strings.Join(toks, "/"))
		return verdict("push")
	}
	pop := func(p protopath.Values) error {
		check(p)
		depth := len(p.Path)
		var parent *rangeNode
		if depth > 1 && depth-2 < len(nodes) {
			parent = nodes[depth-2]
		}
		tok := rangeStepTok(parent, p.Index(-1).Step)
		run.events = append(run.events, fmt.Sprintf("-%d:%s", depth, tok))
		if depth != len(toks) || toks[len(toks)-1] != tok {
			fail(fmt.Sprintf("pop of %s at depth %d does not match the open step", tok, depth))
			return protorange.Terminate
		}
		if n := nodes[len(nodes)-1]; n.kind == 's' && n.val.IsValid() && !n.val.Equal(p.Index(-1).Value) {
			fail("pop sees a different value than push")
		}
		v := verdict("pop")
		toks = toks[:len(toks)-1]
		nodes = nodes[:len(nodes)-1]
		return v
	}
	func() {
		defer func() {
			if r := recover(); r != nil {
				fail(fmt.Sprint("panic: ", r))
			}
		}()
		run.ret = protorange.Options{Stable: true}.Range(root.ProtoReflect(), push, pop)
	}()
	if len(toks) != 0 {
		fail("unbalanced: steps left open at the end")
	}
	switch run.ret {
	case nil:
		run.events = append(run.events, "ret:nil")
	case rangeErr:
		run.events = append(run.events, "ret:err")
	default:
		run.events = append(run.events, "ret:other")
		fail("Range returned an error that no callback returned: " + run.ret.Error())
	}
	return run
}

var rangeTypes = []protoreflect.MessageType{
	(&testpb.TestAllTypes{}).ProtoReflect().Type(),
	(&testeditionspb.TestAllTypes{}).ProtoReflect().Type(),
	(&textpb2.KnownTypes{}).ProtoReflect().Type(),
	(&textpb2.Maps{}).ProtoReflect().Type(),
	(&textpb2.Nests{}).ProtoReflect().Type(),
	(&testpb.TestAllExtensions{}).ProtoReflect().Type(),
	(&structpb.Struct{}).ProtoReflect().Type(),
	(&anypb.Any{}).ProtoReflect().Type(),
}

var rangeAnyTypes = []protoreflect.MessageType{
	(&textpb2.Nested{}).ProtoReflect().Type(),
	(&textpb2.Maps{}).ProtoReflect().Type(),
	(&anypb.Any{}).ProtoReflect().Type(),
	(&durationpb.Duration{}).ProtoReflect().Type(),
	(&textpb2.KnownTypes{}).ProtoReflect().Type(),
	(&structpb.Value{}).ProtoReflect().Type(),
	(&testpb.TestAllTypes{}).ProtoReflect().Type(),
}

// boundary corpus: empty message, only unknown fields, Any in its resolvable /
// unresolvable / malformed / nested forms, both bool map keys, message lists
func rangeCorpus(c *Ctx) {
	unk := []byte{0xf8, 0xff, 0xff, 0xff, 0x0f, 0x01} // field 536870911 varint 1
	mustAny := func(m proto.Message) *anypb.Any {
		a, err := anypb.New(m)
		if err != nil {
			panic(err)
		}
		return a
	}
	onlyUnknown := &testpb.TestAllTypes{}
	onlyUnknown.ProtoReflect().SetUnknown(unk)
	nested := &textpb2.Nested{OptString: proto.String("x"), OptNested: &textpb2.Nested{OptString: proto.String("y")}}
	anyWithUnknown := mustAny(nested)
	anyWithUnknown.ProtoReflect().SetUnknown(unk)
	ms := []proto.Message{
		&testpb.TestAllTypes{},
		onlyUnknown,
		&anypb.Any{},
		mustAny(&textpb2.Nested{}),
		mustAny(nested),
		anyWithUnknown,
		&anypb.Any{TypeUrl: "type.googleapis.com/no.such.Type", Value: []byte{1, 2}},
		&anypb.Any{TypeUrl: "type.googleapis.com/pb2.Nested", Value: []byte{0xff}},
		&anypb.Any{TypeUrl: "pb2.Nested"},
		mustAny(mustAny(mustAny(nested))),
		&textpb2.KnownTypes{OptAny: mustAny(&durationpb.Duration{Seconds: 1}), OptDuration: &durationpb.Duration{}},
		&testpb.TestAllTypes{
			MapBoolBool:           map[bool]bool{true: false, false: true},
			MapInt32Int32:         map[int32]int32{-1: 1, 0: 2, 7: 3, -100: 4},
			MapStringNestedMessage: map[string]*testpb.TestAllTypes_NestedMessage{"": {}, "b": {A: proto.Int32(1)}, "a": nil, "é": {}},
			RepeatedNestedMessage: []*testpb.TestAllTypes_NestedMessage{{}, {A: proto.Int32(2)}, {Corecursive: onlyUnknown}},
			RepeatedInt32:         []int32{0, 0, 0},
			OptionalNestedMessage: &testpb.TestAllTypes_NestedMessage{},
		},
	}
	for _, m := range ms {
		rangeOne(c, m)
	}
}

func famRange(c *Ctx) {
	rangeCorpus(c)
	for c.Cases < c.N {
		g := &wpiGen{c: c, fill: 8 + c.Intn(25), depth: 1 + c.Intn(3), anyTypes: rangeAnyTypes, anyBad: 20, unknown: true, ext: true}
		mt := rangeTypes[c.Intn(len(rangeTypes))]
		if c.Intn(12) == 0 {
			g.fill = 0 // empty message
		}
		if mt.Descriptor().FullName() == "google.protobuf.Struct" || mt.Descriptor().FullName() == "google.protobuf.Any" {
			g.fill = 60
		}
		m := g.message(mt)
		if mt.Descriptor().FullName() == "pb2.KnownTypes" && c.Intn(10) < 7 {
			// make sure the Any field is populated often (its expansion is the interesting case)
			if fd := mt.Descriptor().Fields().ByName("opt_any"); fd != nil && !m.ProtoReflect().Has(fd) {
				g.fillField(m.ProtoReflect(), fd, 3)
			}
		}
		if c.Intn(4) == 0 {
			// the same content as a dynamicpb message (another implementation of protoreflect.Message)
			if b, err := (proto.MarshalOptions{AllowPartial: true}).Marshal(m); err == nil {
				dm := dynamicpb.NewMessage(mt.Descriptor())
				if (proto.UnmarshalOptions{AllowPartial: true}).Unmarshal(b, dm) == nil {
					m = dm
					c.Stat("dynamicpb_messages")
				}
			}
		}
		rangeOne(c, m)
	}
}

func rangeOne(c *Ctx, m proto.Message) {
	ref := rangeRefMessage(m.ProtoReflect())
	var sb strings.Builder
	ref.dump(&sb)
	tree := sb.String()
	var want []string
	want = append(want, "r")
	ref.positions("r", &want)
	c.Stat(fmt.Sprintf("positions_log2_%d", delimBitsLen(len(want))))
	if strings.Contains(tree, "a") {
		c.Stat("trees_with_any_expansion")
	}
	if strings.Contains(tree, "u") {
		c.Stat("trees_with_unknown")
	}
	if len(tree) > 6000 {
		c.Stat("skipped_large")
		return
	}
	before, _ := proto.MarshalOptions{Deterministic: true, AllowPartial: true}.Marshal(m)

	emit := func(script map[string]string) *rangeRun {
		run := rangeExec(m, ref, script)
		var parts []string
		for k, v := range script {
			parts = append(parts, k+"="+v)
		}
		sort.Strings(parts)
		st := strings.Join(parts, ";")
		if st == "" {
			st = "-"
		}
		for _, f := range run.fails {
			c.PropFail("C32", f, tree, st)
		}
		c.Case("range", "range", []string{tree, st}, run.events)
		return run
	}

	// 1. always-continue: the pushes are exactly the populated positions, in order, once each
	run := emit(nil)
	if strings.Join(run.pushed, " ") != strings.Join(want, " ") {
		c.PropFail("C32", "pushes differ from the reference traversal: got ["+strings.Join(run.pushed, " ")+"] want ["+strings.Join(want, " ")+"]", tree)
	}
	if run.ret != nil {
		c.PropFail("C32", "Range returned an error although no callback did", tree)
	}

	// 2. scripted runs: Break / Terminate / error at visit positions
	verdicts := []string{"B", "T", "E"}
	kinds := []string{"push", "pop"}
	var picks []int
	if c.Tier == "thorough" || len(want) <= 6 {
		for i := range want {
			picks = append(picks, i)
		}
	} else {
		picks = append(picks, 0, len(want)-1)
		for i := 0; i < 5; i++ {
			picks = append(picks, c.Intn(len(want)))
		}
	}
	for _, k := range picks {
		for _, kind := range kinds {
			for _, v := range verdicts {
				if c.Tier != "thorough" && len(want) > 6 && c.Intn(3) != 0 {
					continue
				}
				run := emit(map[string]string{want[k] + "@" + kind: v})
				c.Stat("script_" + kind + "_" + v)
				// the scripted position must have been reached exactly once
				cnt := 0
				for _, p := range run.pushed {
					if p == want[k] {
						cnt++
					}
				}
				if cnt != 1 {
					c.PropFail("C32", fmt.Sprintf("position %s pushed %d times", want[k], cnt), tree)
				}
				// the property's own reading of Break / Terminate
				qi := -1
				for i, p := range run.pushed {
					if p == want[k] {
						qi = i
					}
				}
				if qi >= 0 {
					for _, p := range run.pushed[qi+1:] {
						below := strings.HasPrefix(p, want[k]+"/")
						switch {
						case kind == "push" && below:
							c.PropFail("C32", "a non-nil verdict from push must skip the children: "+p+" visited", tree, want[k]+"@"+kind+"="+v)
						case v != "B" && !below:
							c.PropFail("C32", "Terminate / error must stop the traversal: "+p+" visited afterwards", tree, want[k]+"@"+kind+"="+v)
						}
					}
				}
				if (v == "E") != (run.ret == rangeErr) {
					c.PropFail("C32", "Range result: a callback error must be returned unchanged, Break/Terminate must not", tree, want[k]+"@"+kind+"="+v)
				}
			}
		}
	}
	// precedence of verdicts (amendError): push and pop of the same position, and of a position and its parent
	for i := 0; i < 4; i++ {
		k := c.Intn(len(want))
		s := map[string]string{want[k] + "@push": verdicts[c.Intn(3)], want[k] + "@pop": verdicts[c.Intn(3)]}
		if j := strings.LastIndex(want[k], "/"); j > 0 && c.Bool() {
			s = map[string]string{want[k] + "@" + kinds[c.Intn(2)]: verdicts[c.Intn(3)], want[k][:j] + "@pop": verdicts[c.Intn(3)]}
		}
		emit(s)
		c.Stat("script_same_position")
	}
	// two-entry scripts: precedence of verdicts (amendError)
	for i := 0; i < 3 && len(want) > 1; i++ {
		a, b := c.Intn(len(want)), c.Intn(len(want))
		s := map[string]string{
			want[a] + "@" + kinds[c.Intn(2)]: verdicts[c.Intn(3)],
			want[b] + "@" + kinds[c.Intn(2)]: verdicts[c.Intn(3)],
		}
		emit(s)
		c.Stat("script_double")
	}
	// every callback returns the same verdict
	for _, v := range verdicts {
		s := map[string]string{}
		for _, p := range want {
			if c.Intn(3) == 0 {
				s[p+"@"+kinds[c.Intn(2)]] = v
			}
		}
		emit(s)
		c.Stat("script_many")
	}
	after, _ := proto.MarshalOptions{Deterministic: true, AllowPartial: true}.Marshal(m)
	if string(before) != string(after) {
		c.PropFail("C32", "read-only traversal changed the message", tree)
	}
}
