//go:build verif

package main

// family "msg": binary Marshal/Unmarshal against the message codec model (coq/theories/Msg).
//
// Case lines (model-compared):
//	schema <id> <tokens...>                       | ok
//	enc <id> 0 <f|s> <value...>                        | ok <deterministic Marshal bytes> <Size> v1  or  utf8   (v1: the model's msg_valid holds)
//	dec <id> 0 <f|s> <limit> <bytes>              | ok <canonical dump>  or  e1/e2/e3
// P lines: C03 (Unmarshal(Marshal(m)) not Equal m, all flavours/options), C04 (Size != len(Marshal),
// MarshalAppend does not extend the prefix).

import (
	"bytes"
	"fmt"
	"sort"
	"strings"

	"google.golang.org/protobuf/encoding/protowire"
	"google.golang.org/protobuf/proto"
	"google.golang.org/protobuf/reflect/protoreflect"
	"google.golang.org/protobuf/types/dynamicpb"
)

func init() {
	Register("msg", famMsg)
	Register("msgsize", func(c *Ctx) { msgSizeOnly = true; famMsg(c) })
}

// msgSizeOnly: family "msgsize" (C04) -- only the enc case (bytes + Size against the model) and the
// Size / MarshalAppend predicates, no decoding; its case lines belong to model family "msg".
var msgSizeOnly bool

var msgDetOpts = proto.MarshalOptions{Deterministic: true, AllowPartial: true}
var msgDefOpts = proto.MarshalOptions{AllowPartial: true}

// msgNewFn creates an empty message of one flavour of a type.
type msgFlavour struct {
	depthExact bool // small recursion limits are modelled exactly
	noDec      bool // legacy message types: the table-driven decoder is not the modelled one
	name       string
	md         protoreflect.MessageDescriptor
	new        func() protoreflect.Message
	slow       bool // decoded by the reflection path (dynamicpb)
}

func msgFlavoursOf(mt protoreflect.MessageType) []msgFlavour {
	md := mt.Descriptor()
	de := msgDepthExact(mt)
	return []msgFlavour{
		{de, msgLegacyReach(md), "gen", md, func() protoreflect.Message { return mt.New() }, false},
		{true, false, "dyn", md, func() protoreflect.Message { return dynamicpb.NewMessage(md) }, true},
	}
}

func msgUnmarshal(fl msgFlavour, b []byte, limit int, nolazy bool) (protoreflect.Message, error) {
	m := fl.new()
	o := proto.UnmarshalOptions{AllowPartial: true, RecursionLimit: limit, NoLazyDecoding: nolazy}
	if fl.slow {
		o.Resolver = msgDynTypes()
	}
	err := o.Unmarshal(b, m.Interface())
	return m, err
}

func msgObs(m protoreflect.Message, err error) []string {
	if err != nil {
		return []string{msgErrClass(err)}
	}
	return append([]string{"ok"}, msgDump(m)...)
}

func msgEqualToks(a, b []string) bool {
	if len(a) != len(b) {
		return false
	}
	for i := range a {
		if a[i] != b[i] {
			return false
		}
	}
	return true
}

// msgDecCase decodes b with one flavour and emits the `dec` case line.
func msgDecCase(c *Ctx, fl msgFlavour, id string, b []byte, limit int) {
	defer func() {
		if r := recover(); r != nil {
			c.PropFail("C03", fmt.Sprintf("panic in Unmarshal (%s %s): %v", fl.name, fl.md.FullName(), r), HexB(b))
		}
	}()
	if msgLegacyReach(fl.md) && msgFB1Class(fl.md, b) {
		// finding FB1 (also reached from dynamicpb through generated legacy extension types)
		c.Stat("dec_skipped_FB1")
		return
	}
	m, err := msgUnmarshal(fl, b, limit, false)
	obs := msgObs(m, err)
	if !fl.slow && msgHasLazy(fl.md) {
		m2, err2 := msgUnmarshal(fl, b, limit, true)
		obs2 := msgObs(m2, err2)
		if !msgEqualToks(obs, obs2) {
			if err != nil && err2 != nil {
				// both fail; the lazy path validates instead of decoding and reports a depth
				// overrun inside a lazy field as a parse error
				c.Stat("lazy_error_class_differs")
				obs = obs2
			} else if msgF1Class(fl.md, b) {
				c.Known("F1", "C03", "lazy decoding differs from eager decoding on a wrong-wire-type occurrence of a lazy field")
				c.Stat("known_F1")
				obs = obs2
			} else {
				c.PropFail("C03", "lazy and eager decoding differ ("+string(fl.md.FullName())+")", HexB(b))
			}
		}
	}
	mode := "f"
	if fl.slow {
		mode = "s"
	}
	lim := limit
	if lim == 0 {
		lim = protowire.DefaultRecursionLimit
	}
	if obs[0] == "e9" {
		c.Sample("unclassified error: " + msgLastOtherErr)
	}
	c.Stat("dec_" + fl.name + "_" + obs[0])
	c.Case("msg", "dec", []string{id, "0", mode, HexN(uint64(lim)), HexB(b)}, obs)
}

// msgRoundTrip evaluates C03 on the implementation for message m of flavour fl.
func msgRoundTrip(c *Ctx, fl msgFlavour, m protoreflect.Message) {
	for oi, opts := range []proto.MarshalOptions{msgDefOpts, msgDetOpts} {
		b, err := opts.Marshal(m.Interface())
		if err != nil {
			continue // invalid UTF-8 content: reported through the enc case
		}
		for _, nolazy := range []bool{false, true} {
			if nolazy && (fl.slow || !msgHasLazy(fl.md)) {
				continue
			}
			m2, err := msgUnmarshal(fl, b, 0, nolazy)
			what := fmt.Sprintf("%s %s opts=%d nolazy=%v", fl.name, fl.md.FullName(), oi, nolazy)
			if err != nil {
				if fl.slow && msgErrClass(err) == "e1" && msgFB3Class(fl.md, b) {
					c.Known("FB3", "C03", "reflection path: ConsumeGroup budget exhausted by unknown groups nested in a known group")
					c.Stat("known_FB3")
					continue
				}
				c.PropFail("C03", "Unmarshal(Marshal(m)) fails: "+msgErrClass(err)+" "+what, HexB(b))
				continue
			}
			// marshal the decoded message before anything reads it (a lazily decoded message
			// still holds its raw buffers here)
			b2, err := opts.Marshal(m2.Interface())
			if err != nil {
				c.PropFail("C03", "Marshal(Unmarshal(Marshal(m))) fails: "+what, HexB(b))
				continue
			}
			if sz := opts.Size(m2.Interface()); sz != len(b2) {
				c.PropFail("C04", fmt.Sprintf("Size=%d but len(Marshal)=%d after Unmarshal: %s", sz, len(b2), what), HexB(b))
			}
			if !proto.Equal(m.Interface(), m2.Interface()) {
				if msgLegacyReach(fl.md) && msgFB1Class(fl.md, b) {
					c.Known("FB1", "C03", "legacy message field allocated by a wrong-wire-type occurrence")
					c.Stat("known_FB1")
					continue
				}
				if !nolazy && msgF1Class(fl.md, b) {
					c.Known("F1", "C03", "lazy decoding duplicates a wrong-wire-type occurrence of a lazy field")
					c.Stat("known_F1")
					continue
				}
				c.PropFail("C03", "Unmarshal(Marshal(m)) not Equal m: "+what, HexB(b))
				continue
			}
			// second generation: what the decoded message marshals to decodes to m again
			known := func() bool {
				if msgLegacyReach(fl.md) && msgFB1Class(fl.md, b) {
					c.Known("FB1", "C03", "legacy message field allocated by a wrong-wire-type occurrence")
					c.Stat("known_FB1")
					return true
				}
				if !nolazy && msgF1Class(fl.md, b) {
					c.Known("F1", "C03", "lazy decoding duplicates a wrong-wire-type occurrence of a lazy field")
					c.Stat("known_F1")
					return true
				}
				return false
			}
			if oi == 1 && !bytes.Equal(b, b2) {
				if !known() {
					c.PropFail("C03", "deterministic bytes change after a round trip: "+what, HexB(b), HexB(b2))
				}
				continue
			}
			m3, err := msgUnmarshal(fl, b2, 0, true)
			if err != nil || !proto.Equal(m.Interface(), m3.Interface()) {
				if !known() {
					c.PropFail("C03", "second-generation round trip differs: "+what, HexB(b), HexB(b2))
				}
			}
		}
	}
}

// msgSizeChecks evaluates C04 on the implementation.
func msgSizeChecks(c *Ctx, fl msgFlavour, m protoreflect.Message) {
	for oi, opts := range []proto.MarshalOptions{msgDefOpts, msgDetOpts, {AllowPartial: true, UseCachedSize: true}} {
		what := fmt.Sprintf("%s %s opts=%d", fl.name, fl.md.FullName(), oi)
		sz := opts.Size(m.Interface())
		b, err := opts.Marshal(m.Interface())
		if err != nil {
			continue
		}
		if sz != len(b) {
			c.PropFail("C04", fmt.Sprintf("Size=%d but len(Marshal)=%d: %s", sz, len(b), what), HexB(b))
		}
		// prefixes with capacity below / at / above what is needed
		plen := c.Intn(5)
		prefix := c.Bytes(plen)
		var buf []byte
		switch c.Intn(4) {
		case 0:
			buf = append([]byte(nil), prefix...)
		case 1:
			buf = make([]byte, plen, plen+sz)
			copy(buf, prefix)
		case 2:
			buf = make([]byte, plen, plen+sz+1+c.Intn(64))
			copy(buf, prefix)
		default:
			buf = make([]byte, plen, plen+c.Intn(sz+1))
			copy(buf, prefix)
		}
		out, err := opts.MarshalAppend(buf, m.Interface())
		if err != nil {
			c.PropFail("C04", "MarshalAppend fails where Marshal succeeds: "+what, HexB(b))
			continue
		}
		if len(out) != plen+sz || !bytes.Equal(out[:plen], prefix) {
			c.PropFail("C04", "MarshalAppend(prefix, m) is not prefix ++ Size bytes: "+what, HexB(prefix), HexB(out))
			continue
		}
		if oi == 1 && !bytes.Equal(out[plen:], b) {
			c.PropFail("C04", "MarshalAppend(prefix, m) differs from prefix ++ Marshal(m): "+what, HexB(prefix), HexB(out), HexB(b))
		}
		if oi != 1 {
			// same content up to map order: it must decode to an equal message
			if msgLegacyReach(fl.md) && msgFB1Class(fl.md, out[plen:]) {
				continue // finding FB1 (reported under C03)
			}
			if m2, err := msgUnmarshal(fl, out[plen:], 0, true); err != nil || !proto.Equal(m.Interface(), m2.Interface()) {
				c.PropFail("C04", "MarshalAppend output does not decode to m: "+what, HexB(out))
			}
		}
	}
}

// msgSubSites collects the mutable sub-messages of m (singular message fields, list elements,
// map values, oneof message members, message-typed extensions), m itself excluded, and the
// populated list fields as (message, field) pairs.
type msgListSite struct {
	m  protoreflect.Message
	fd protoreflect.FieldDescriptor
}

func msgSubSites(m protoreflect.Message, subs *[]protoreflect.Message, lists *[]msgListSite, depth int) {
	if depth <= 0 {
		return
	}
	m.Range(func(fd protoreflect.FieldDescriptor, v protoreflect.Value) bool {
		switch {
		case fd.IsMap():
			if fd.MapValue().Message() != nil {
				mp := m.Mutable(fd).Map()
				var keys []protoreflect.MapKey
				mp.Range(func(k protoreflect.MapKey, _ protoreflect.Value) bool { keys = append(keys, k); return true })
				sort.Slice(keys, func(i, j int) bool { return msgKeyLess(keys[i], keys[j]) })
				for _, k := range keys {
					sub := mp.Mutable(k).Message()
					*subs = append(*subs, sub)
					msgSubSites(sub, subs, lists, depth-1)
				}
			}
		case fd.IsList():
			if !fd.IsExtension() {
				*lists = append(*lists, msgListSite{m, fd})
			}
			if fd.Message() != nil {
				l := v.List()
				for i := 0; i < l.Len(); i++ {
					sub := l.Get(i).Message()
					*subs = append(*subs, sub)
					msgSubSites(sub, subs, lists, depth-1)
				}
			}
		case fd.Message() != nil:
			sub := v.Message()
			*subs = append(*subs, sub)
			msgSubSites(sub, subs, lists, depth-1)
		}
		return true
	})
}

// msgInPlaceChecks (C04, C16): after Size/Marshal have run once (size caches filled), sub-messages
// are shrunk or grown in place through protoreflect; Size, Marshal and MarshalAppend must follow.
func msgInPlaceChecks(c *Ctx, fl msgFlavour, m protoreflect.Message) {
	defer func() {
		if r := recover(); r != nil {
			c.Stat("inplace_panic")
			c.Sample(fmt.Sprintf("in-place mutation panic %s %s: %v", fl.name, fl.md.FullName(), r))
		}
	}()
	for round := 0; round < 2; round++ {
		// fill the caches
		msgDefOpts.Size(m.Interface())
		if _, err := msgDetOpts.Marshal(m.Interface()); err != nil {
			return
		}
		var subs []protoreflect.Message
		var lists []msgListSite
		msgSubSites(m, &subs, &lists, 4)
		if len(subs) == 0 && len(lists) == 0 {
			return
		}
		// Range order of maps is random: sort the sites by nothing observable would be wrong, so the
		// choice is made by index into the deterministic part only when there are no map fields;
		// determinism of the run is not needed for a predicate that must hold for every choice.
		what := ""
		for k := 1 + c.Intn(3); k > 0; k-- {
			switch {
			case len(subs) > 0 && c.Intn(3) != 0:
				sub := subs[c.Intn(len(subs))]
				switch c.Intn(3) {
				case 0: // empty but present
					var fds []protoreflect.FieldDescriptor
					sub.Range(func(fd protoreflect.FieldDescriptor, _ protoreflect.Value) bool { fds = append(fds, fd); return true })
					for _, fd := range fds {
						sub.Clear(fd)
					}
					sub.SetUnknown(nil)
					what += "clear;"
				case 1: // set a scalar field (crossing varint-length boundaries both ways)
					fds := sub.Descriptor().Fields()
					for try := 0; try < 8 && fds.Len() > 0; try++ {
						fd := fds.Get(c.Intn(fds.Len()))
						if fd.Message() == nil && !fd.IsList() && !fd.IsMap() {
							sub.Set(fd, msgScalar(c, fd, false))
							what += "set;"
							break
						}
					}
				default: // unknown fields come and go
					if c.Bool() {
						sub.SetUnknown(nil)
					} else {
						sub.SetUnknown(msgGenUnknown(c, sub.Descriptor()))
					}
					what += "unknown;"
				}
			case len(lists) > 0:
				ls := lists[c.Intn(len(lists))]
				l := ls.m.Mutable(ls.fd).List()
				if c.Bool() && l.Len() > 0 {
					l.Truncate(c.Intn(l.Len()))
					what += "truncate;"
				} else if ls.fd.Message() != nil {
					l.Append(l.NewElement())
					what += "append-msg;"
				} else {
					for j := 1 + c.Intn(130); j > 0; j-- {
						l.Append(msgScalar(c, ls.fd, false))
					}
					what += "append;"
				}
			}
		}
		c.Stat("inplace_rounds")
		tag := fmt.Sprintf("after in-place mutation (%s) %s %s", what, fl.name, fl.md.FullName())
		det, err := msgDetOpts.Marshal(m.Interface())
		if err != nil {
			if msgErrClass(err) != "e3" {
				c.PropFail("C04", "Marshal fails "+tag+": "+err.Error())
			}
			return
		}
		for oi, opts := range []proto.MarshalOptions{msgDefOpts, msgDetOpts} {
			sz := opts.Size(m.Interface())
			b, err := opts.Marshal(m.Interface())
			if err != nil {
				c.PropFail("C04", fmt.Sprintf("Marshal fails %s opts=%d: %v", tag, oi, err))
				return
			}
			if sz != len(b) {
				c.PropFail("C04", fmt.Sprintf("Size=%d but len(Marshal)=%d %s opts=%d", sz, len(b), tag, oi), HexB(b))
			}
			// the cache was just refreshed by Size: the cached size must be the same
			if csz := (proto.MarshalOptions{AllowPartial: true, Deterministic: oi == 1, UseCachedSize: true}).Size(m.Interface()); csz != sz {
				c.PropFail("C04", fmt.Sprintf("cached Size=%d but Size=%d %s opts=%d", csz, sz, tag, oi))
			}
			prefix := c.Bytes(c.Intn(4))
			buf := make([]byte, len(prefix), len(prefix)+c.Intn(sz+8))
			copy(buf, prefix)
			out, err := opts.MarshalAppend(buf, m.Interface())
			if err != nil || len(out) != len(prefix)+sz || !bytes.Equal(out[:len(prefix)], prefix) {
				c.PropFail("C04", fmt.Sprintf("MarshalAppend is not prefix ++ Size bytes %s opts=%d err=%v", tag, oi, err))
			} else if oi == 1 && !bytes.Equal(out[len(prefix):], det) {
				c.PropFail("C04", "MarshalAppend differs from prefix ++ Marshal "+tag, HexB(out), HexB(det))
			}
		}
		// the bytes are those of a message rebuilt from them (no stale state leaks into the output)
		if msgLegacyReach(fl.md) && msgFB1Class(fl.md, det) {
			continue
		}
		if m2, err := msgUnmarshal(fl, det, 0, true); err != nil {
			c.PropFail("C04", "bytes "+tag+" do not decode: "+msgErrClass(err), HexB(det))
		} else if det2, err := msgDetOpts.Marshal(m2.Interface()); err != nil || !bytes.Equal(det, det2) {
			if fl.slow && msgFB3Class(fl.md, det) {
				continue
			}
			c.PropFail("C04", "bytes "+tag+" differ from those of a binary-rebuilt copy", HexB(det), HexB(det2))
		}
	}
}

// msgOneValue runs every check for one random content of one flavour.
func msgOneValue(c *Ctx, fl msgFlavour, id string, depth int) {
	var m protoreflect.Message
	func() {
		defer func() {
			if r := recover(); r != nil {
				c.Stat("fill_panic")
				c.Sample(fmt.Sprintf("fill panic %s %s: %v", fl.name, fl.md.FullName(), r))
				m = nil
			}
		}()
		m = fl.new()
		msgRandomFill(c, m, depth)
	}()
	if m == nil {
		return
	}
	defer func() {
		if r := recover(); r != nil {
			c.PropFail("C03", fmt.Sprintf("panic (%s %s): %v", fl.name, fl.md.FullName(), r))
		}
	}()
	val := msgDump(m)
	mode := "f"
	if fl.slow {
		mode = "s"
	}
	det, err := msgDetOpts.Marshal(m.Interface())
	if err != nil {
		c.Stat("enc_" + fl.name + "_" + msgErrClass(err))
		if msgErrClass(err) == "e3" {
			c.Case("msg", "enc", append([]string{id, "0", mode}, val...), []string{"utf8"})
		} else {
			c.PropFail("C03", "Marshal fails: "+err.Error()+" "+string(fl.md.FullName()))
			if strings.Contains(err.Error(), "size mismatch") {
				// the marshaler noticed that a computed size differs from the bytes it wrote
				c.PropFail("C04", "Marshal reports a size mismatch: "+err.Error()+" "+string(fl.md.FullName()))
			}
		}
		return
	}
	c.Stat("enc_" + fl.name + "_ok")
	c.Case("msg", "enc", append([]string{id, "0", mode}, val...), []string{"ok", HexB(det), HexN(uint64(msgDetOpts.Size(m.Interface()))), "v1"})
	msgSizeChecks(c, fl, m)
	if msgSizeOnly {
		msgInPlaceChecks(c, fl, m)
		return
	}
	msgRoundTrip(c, fl, m)

	// decode: canonical bytes, other valid encodings, merges, mutations, small recursion limits
	all := msgFlavoursAll[fl.md]
	inputs := [][]byte{det}
	inputs = append(inputs, msgRewrite(c, fl.md, det, 3))
	inputs = append(inputs, msgRewriteOpts(c, fl.md, det, 3, true))
	if c.Intn(2) == 0 {
		inputs = append(inputs, msgRewriteOpts(c, fl.md, det, 3, true))
	}
	// concatenation of two encodings = merge
	m2 := fl.new()
	okFill := true
	func() {
		defer func() {
			if r := recover(); r != nil {
				okFill = false
			}
		}()
		msgRandomFill(c, m2, depth)
	}()
	if okFill {
		if det2, err := msgDetOpts.Marshal(m2.Interface()); err == nil {
			cat := append(append([]byte(nil), det...), det2...)
			inputs = append(inputs, cat)
			if c.Intn(2) == 0 {
				inputs = append(inputs, msgRewrite(c, fl.md, cat, 3))
			}
		}
	}
	nmut := 2
	for i := 0; i < nmut; i++ {
		src := inputs[c.Intn(len(inputs))]
		inputs = append(inputs, msgMutate(c, src))
	}
	for i, in := range inputs {
		limit := 0
		if i > 0 && c.Intn(5) == 0 {
			limit = 1 + c.Intn(5)
		}
		for _, f2 := range all {
			if f2.noDec {
				c.Stat("dec_skipped_legacy")
				continue
			}
			if f2.depthExact {
				msgDecCase(c, f2, id, in, limit)
			} else {
				msgDecCase(c, f2, id, in, 0)
			}
		}
	}
}

var msgFlavoursAll = map[protoreflect.MessageDescriptor][]msgFlavour{}

// msgCorpus replays the minimal witnesses of the recorded findings (and regression inputs).
func msgCorpus(c *Ctx) {
	find := func(name string) (msgFlavour, bool) {
		for _, mt := range msgAllTypes() {
			if string(mt.Descriptor().FullName()) == name {
				return msgFlavoursOf(mt)[0], true
			}
		}
		c.PropFail("C03", "corpus type not linked: "+name)
		return msgFlavour{}, false
	}
	// F1: lazy field 99 of opaque.lazy_tree.Node occurs with LEN and with VARINT
	if fl, ok := find("opaque.lazy_tree.Node"); ok {
		m, err := msgUnmarshal(fl, []byte{0x9a, 0x06, 0x02, 0x08, 0x05, 0x98, 0x06, 0x07}, 0, true)
		if err != nil {
			c.PropFail("C03", "F1 witness does not decode eagerly")
		} else {
			before := c.stats["known_F1"]
			msgRoundTrip(c, fl, m)
			if c.stats["known_F1"] == before {
				c.Stat("F1_witness_passes")
			}
		}
	}
	// FB4 (repaired in /repo; regression inputs): map entries in which the key -- or the value --
	// occurs with an accepted wire type and then again with a rejected one, and the other way
	// round; dynamicpb used to panic on the first shape ("cannot convert nil to map key").  A
	// panic or a disagreement with the model here is a plain C03 failure.
	for _, mt := range msgAllTypes() {
		if mt.Descriptor().FullName() != "goproto.proto.testeditions.TestAllTypes" {
			continue
		}
		fls := msgFlavoursOf(mt)
		id := msgSchemaOf(c, mt.Descriptor())
		entry := func(num protowire.Number, fields ...[]byte) []byte {
			var e []byte
			for _, f := range fields {
				e = append(e, f...)
			}
			return protowire.AppendBytes(protowire.AppendTag(nil, num, protowire.BytesType), e)
		}
		vi := func(n protowire.Number, v uint64) []byte {
			return protowire.AppendVarint(protowire.AppendTag(nil, n, protowire.VarintType), v)
		}
		f32 := func(n protowire.Number, v uint32) []byte {
			return protowire.AppendFixed32(protowire.AppendTag(nil, n, protowire.Fixed32Type), v)
		}
		f64 := func(n protowire.Number, v uint64) []byte {
			return protowire.AppendFixed64(protowire.AppendTag(nil, n, protowire.Fixed64Type), v)
		}
		ln := func(n protowire.Number, v string) []byte {
			return protowire.AppendString(protowire.AppendTag(nil, n, protowire.BytesType), v)
		}
		grp := func(n protowire.Number) []byte {
			return protowire.AppendTag(protowire.AppendTag(nil, n, protowire.StartGroupType), n, protowire.EndGroupType)
		}
		inputs := [][]byte{
			{0xc2, 0x03, 0x07, 0x08, 0x01, 0x0d, 0, 0, 0, 0},       // the FB4 witness: map_int32_int32 {key 1, key as fixed32}
			entry(56, f32(1, 7), vi(1, 1)),                         // rejected first, accepted later
			entry(56, vi(1, 1), f32(1, 7), vi(1, 2)),               // accepted, rejected, accepted
			entry(56, vi(1, 1), vi(2, 5), f64(2, 9)),               // value: accepted then rejected
			entry(56, vi(1, 1), ln(2, "x"), vi(2, 5)),              // value: rejected then accepted
			entry(57, vi(1, 3), ln(1, "k")),                        // int64 key, then LEN
			entry(60, vi(1, 3), grp(1)),                            // sint32 key, then a group
			entry(62, f32(1, 3), vi(1, 4)),                         // fixed32 key, then varint
			entry(63, f64(1, 3), f32(1, 4)),                        // fixed64 key, then fixed32
			entry(68, vi(1, 1), f64(1, 0)),                         // bool key, then fixed64
			entry(69, ln(1, "k"), vi(1, 4), ln(2, "v")),            // string key, then varint
			entry(69, ln(1, "k"), ln(2, "v"), f32(2, 1)),           // string value, then fixed32
			entry(71, ln(1, "k"), vi(1, 4), ln(2, ""), vi(2, 1)),   // message value, then varint
			entry(73, ln(1, "k"), f32(1, 4), vi(2, 1), ln(2, "e")), // enum value, then LEN
			entry(66, vi(1, 1), f32(2, 0x7fc00000), vi(2, 1)),      // float value, then varint
		}
		for _, in := range inputs {
			for _, fl := range fls {
				msgDecCase(c, fl, id, in, 0)
			}
		}
	}
	// FB1: legacy message field 4 (optional Message) occurs as fixed32
	if fl, ok := find("google.golang.org.proto2_20160225.SiblingMessage"); ok {
		m := fl.new()
		m.SetUnknown([]byte{0x25, 0, 0, 0, 0})
		before := c.stats["known_FB1"]
		msgRoundTrip(c, fl, m)
		if c.stats["known_FB1"] == before {
			c.Stat("FB1_witness_passes")
		}
	}
}

// msgDeepCorpus: nesting at the recursion limit.
func msgDeepCorpus(c *Ctx) {
	var tat protoreflect.MessageType
	for _, mt := range msgAllTypes() {
		if mt.Descriptor().FullName() == "goproto.proto.test.TestAllTypes" {
			tat = mt
		}
	}
	if tat == nil {
		c.PropFail("C03", "corpus type not linked: goproto.proto.test.TestAllTypes")
		return
	}
	fls := msgFlavoursOf(tat)
	id := msgSchemaOf(c, tat.Descriptor())
	// FB3: optionalgroup (field 16) holding an unknown group (field 1000) nested 10001 deep
	deep := c.Intn(3) == 0 // the expensive boundary cases run in about a third of the shards
	for _, levels := range []int{10000, 10001} {
		if levels == 10000 && !deep {
			continue
		}
		var u []byte
		for i := 0; i < levels; i++ {
			u = protowire.AppendTag(u, 1000, protowire.StartGroupType)
		}
		for i := 0; i < levels; i++ {
			u = protowire.AppendTag(u, 1000, protowire.EndGroupType)
		}
		gfd := tat.Descriptor().Fields().ByNumber(16)
		for _, fl := range fls {
			m := fl.new()
			m.Mutable(gfd).Message().SetUnknown(u)
			msgRoundTrip(c, fl, m)
			// 40 kB nested 10000 deep: costly for the extracted model, most of all the accepted
			// case on the reflection path (scanned twice), which is left to the predicate above
			if b, err := msgDetOpts.Marshal(m.Interface()); err == nil && (deep || c.Intn(2) == 0) && !(fl.slow && levels == 10000) {
				msgDecCase(c, fl, id, b, 0)
			}
		}
	}
	// nesting at the recursion limit L (levels = number of nested messages, the top-level one
	// included): chains TestAllTypes -(18)-> NestedMessage -(2)-> TestAllTypes ..., the same
	// through map entries (71: map<string, NestedMessage>; an entry costs one more level) and
	// through groups (16: optionalgroup -(1000)-> NestedMessage -(2)-> TestAllTypes).
	wrap := func(num protowire.Number, b []byte) []byte {
		nb := protowire.AppendTag(make([]byte, 0, len(b)+8), num, protowire.BytesType)
		return protowire.AppendBytes(nb, b)
	}
	for _, L := range []int{1, 2, 3, 4, 7, 50, 100} {
		for _, levels := range []int{L - 1, L, L + 1} {
			if levels < 1 {
				continue
			}
			// (a) plain sub-messages
			var b []byte
			for i := 1; i < levels; i++ {
				if (levels-i)%2 == 0 {
					b = wrap(2, b)
				} else {
					b = wrap(18, b)
				}
			}
			// (b) through map entries: TestAllTypes -(71 entry)-(2)-> NestedMessage -(2)-> TestAllTypes
			var mb []byte
			for used := 1; used+3 <= levels; used += 3 {
				mb = wrap(71, wrap(2, wrap(2, mb)))
			}
			// (c) through groups
			var gb []byte
			for used := 1; used+3 <= levels; used += 3 {
				inner := wrap(1000, wrap(2, gb))
				gb = protowire.AppendTag(nil, 16, protowire.StartGroupType)
				gb = append(gb, inner...)
				gb = protowire.AppendTag(gb, 16, protowire.EndGroupType)
			}
			for _, fl := range fls {
				msgDecCase(c, fl, id, b, L)
				msgDecCase(c, fl, id, mb, L)
				msgDecCase(c, fl, id, gb, L)
			}
		}
	}
	_ = deep
}

func famMsg(c *Ctx) {
	if !msgSizeOnly {
		msgCorpus(c)
		msgDeepCorpus(c)
	}
	types := msgAllTypes()
	c.StatN("linked_types", len(types))
	// budget: c.N random contents in total; every linked type gets at least one per run when
	// N >= 2*len(types); 1/4 of the budget goes to random schemas
	type target struct {
		fls   []msgFlavour
		id    string
		depth int
	}
	var targets []target
	for _, mt := range types {
		fls := msgFlavoursOf(mt)
		msgFlavoursAll[mt.Descriptor()] = fls
		targets = append(targets, target{fls: fls})
	}
	nrnd := c.N / 40
	if nrnd < 4 {
		nrnd = 4
	}
	var rnd []target
	for _, md := range msgRandomSchemas(c, nrnd) {
		md := md
		fls := []msgFlavour{{true, false, "rnd", md, func() protoreflect.Message { return dynamicpb.NewMessage(md) }, true}}
		msgFlavoursAll[md] = fls
		rnd = append(rnd, target{fls: fls})
	}
	budget := c.N
	// the all-kinds types get extra weight
	heavy := map[string]bool{}
	for _, n := range []string{"goproto.proto.test.TestAllTypes", "goproto.proto.test3.TestAllTypes", "goproto.proto.testeditions.TestAllTypes",
		"hybrid.goproto.proto.test3.TestAllTypes", "opaque.goproto.proto.test3.TestAllTypes",
		"hybrid.goproto.proto.testeditions.TestAllTypes", "opaque.goproto.proto.testeditions.TestAllTypes",
		"goproto.proto.test.TestAllExtensions", "goproto.proto.testeditions.TestAllExtensions",
		"opaque.lazy_opaque.Node", "goproto.proto.test.TestRequired"} {
		heavy[n] = true
	}
	run := func(t *target) {
		fl := t.fls[c.Intn(len(t.fls))]
		if t.id == "" {
			t.id = msgSchemaOf(c, fl.md)
		}
		msgOneValue(c, fl, t.id, 1+c.Intn(3))
	}
	spent := 0
	// pass 1: one content for each linked type, in a seed-dependent rotation so that small budgets
	// still cover all types over a few seeds
	start := c.Intn(len(targets))
	for i := 0; i < len(targets) && spent < budget*2/5; i++ {
		run(&targets[(start+i)%len(targets)])
		spent++
	}
	for spent < budget {
		switch {
		case len(rnd) > 0 && c.Intn(3) == 0:
			run(&rnd[c.Intn(len(rnd))])
		case c.Intn(3) == 0:
			// a heavy type
			for {
				t := &targets[c.Intn(len(targets))]
				if heavy[string(t.fls[0].md.FullName())] || c.Intn(50) == 0 {
					run(t)
					break
				}
			}
		default:
			run(&targets[c.Intn(len(targets))])
		}
		spent++
	}
}
