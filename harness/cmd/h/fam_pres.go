//go:build verif

package main

// family "pres": C11 — field presence follows the declared presence discipline.
//
// C lines (model: coq/theories/Msg/PresenceModel.v via ocaml/fam_pres.ml):
//   haspres <label> <syn> <lbl> <oneof> <p3opt> <msg> <ext> <ismap> <islazy> <chain...> | HasPresence usePresence canBeLazy schema-card
//   bitmap  <flavour> <nwords> <ops...>                                       | query results..., words...
//   go_bitmap <flavour> <nwords> <base> <ops...>                              | query results..., words..., LoadPresenceCache  (Tier T: Gen/PresenceGo.v)
//   hist    <label> <class> <kind> <ops...>                                   | Has after every op
//   ohist   <label> <nwords> <fieldflags> <ops...>                            | Has after every op, raw XXX_presence words
//   enc     <label> <class> <num> <val|->                                     | wire bytes
//   dec     <num> <bytes>                                                     | ok has value | err
//
// P lines: Has disagrees with the rule of the property text; presence lost / implicit zero
// encoded after binary, JSON or text round trips; bitmap word arithmetic touches another word.

import (
	"fmt"
	"math"
	"reflect"
	"sort"
	"strings"
	"unsafe"

	"google.golang.org/protobuf/encoding/protojson"
	"google.golang.org/protobuf/encoding/prototext"
	"google.golang.org/protobuf/encoding/protowire"
	"google.golang.org/protobuf/internal/filedesc"
	"google.golang.org/protobuf/internal/impl"
	"google.golang.org/protobuf/internal/strs"
	"google.golang.org/protobuf/proto"
	"google.golang.org/protobuf/reflect/protodesc"
	"google.golang.org/protobuf/reflect/protoreflect"
	"google.golang.org/protobuf/reflect/protoregistry"
	"google.golang.org/protobuf/types/descriptorpb"
	"google.golang.org/protobuf/types/dynamicpb"
)

// "presr" is the same family under a second name: bin/check names the case files after the family, and the
// run with build tag protoreflect (reflection slow path of package proto) must not share them.
func init() { Register("pres", famPres); Register("presr", famPres) }

// ---------------------------------------------------------------- unexported presence methods
// internal/impl/presence.go has the word-index arithmetic (toElem); its methods are not
// exported, the harness binds them by symbol name.

type presPtr struct{ P unsafe.Pointer }

//go:linkname presAnyPresent google.golang.org/protobuf/internal/impl.presence.AnyPresent
func presAnyPresent(p presPtr, size uint32) bool

//go:linkname presPresent google.golang.org/protobuf/internal/impl.presence.Present
func presPresent(p presPtr, num uint32) bool

//go:linkname presSetPresent google.golang.org/protobuf/internal/impl.presence.SetPresent
func presSetPresent(p presPtr, num uint32, size uint32)

//go:linkname presSetPresentUnatomic google.golang.org/protobuf/internal/impl.presence.SetPresentUnatomic
func presSetPresentUnatomic(p presPtr, num uint32, size uint32)

//go:linkname presClearPresent google.golang.org/protobuf/internal/impl.presence.ClearPresent
func presClearPresent(p presPtr, num uint32)

//go:linkname presLoadPresenceCache google.golang.org/protobuf/internal/impl.presence.LoadPresenceCache
func presLoadPresenceCache(p presPtr) uint32

// ---------------------------------------------------------------- bitmap

const presGuard = 2 // guard words after the bitmap: must stay zero

// ops: s<i> SetPresent, n<i> SetPresentNonAtomic, c<i> ClearPresent, p<i> Present?, a<size> AnyPresent?
func presBitmapCase(c *Ctx, flavour string, nwords int, ops []string) {
	arr := make([]uint32, nwords+presGuard)
	base := presPtr{unsafe.Pointer(&arr[0])}
	ref := map[uint32]bool{}
	var obs []string
	size := uint32(32 * nwords)
	for _, op := range ops {
		var v uint64
		fmt.Sscanf(op[1:], "%x", &v)
		i := uint32(v)
		switch op[0] {
		case 's':
			if flavour == "x" {
				impl.Export{}.SetPresent(&arr[i/32], i, size)
			} else {
				presSetPresent(base, i, size)
			}
			ref[i] = true
		case 'n':
			if flavour == "x" {
				impl.Export{}.SetPresentNonAtomic(&arr[i/32], i, size)
			} else {
				presSetPresentUnatomic(base, i, size)
			}
			ref[i] = true
		case 'c':
			if flavour == "x" {
				impl.Export{}.ClearPresent(&arr[i/32], i)
			} else {
				presClearPresent(base, i)
			}
			delete(ref, i)
		case 'p':
			var got bool
			if flavour == "x" {
				got = impl.Export{}.Present(&arr[i/32], i)
			} else {
				got = presPresent(base, i)
			}
			obs = append(obs, Tok(got))
			if got != ref[i] {
				c.PropFail("C11", "bitmap Present disagrees with the set of indices", append([]string{flavour, HexN(uint64(nwords))}, ops...)...)
			}
		case 'a':
			got := presAnyPresent(base, i)
			obs = append(obs, Tok(got))
			want := false
			lim := (i + 31) / 32 * 32
			for k := range ref {
				if k < lim {
					want = true
				}
			}
			if got != want {
				c.PropFail("C11", "AnyPresent disagrees with the set of indices", append([]string{flavour, HexN(uint64(nwords))}, ops...)...)
			}
		}
	}
	for k := 0; k < nwords; k++ {
		obs = append(obs, HexN(uint64(arr[k])))
	}
	for k := nwords; k < len(arr); k++ {
		if arr[k] != 0 {
			c.PropFail("C11", "bitmap operation wrote outside the array", append([]string{flavour, HexN(uint64(nwords))}, ops...)...)
		}
	}
	c.Case("pres", "bitmap", append([]string{flavour, HexN(uint64(nwords))}, ops...), obs)
	// Tier T: the same observations, recomputed by the Gallina translation of presence.go (Gen/PresenceGo.v)
	// over a heap at a made-up base address (real addresses are not observable; the theorems are for every
	// base address): mostly a typical Go heap address, sometimes the very top of the address space.
	gbase := uint64(0xc000010000) + 4*uint64(len(ops)*7+nwords)
	if len(ops)%5 == 0 {
		gbase = -uint64(4 * nwords) // base + 4*nwords = 2^64
	}
	gobs := append(append([]string{}, obs...), HexN(uint64(presLoadPresenceCache(base))))
	c.Case("pres", "go_bitmap", append([]string{flavour, HexN(uint64(nwords)), HexN(gbase)}, ops...), gobs)
}

func presBitmapCorpus(c *Ctx) {
	for _, fl := range []string{"x", "p"} {
		for nw := 1; nw <= 5; nw++ {
			var ops []string
			// every boundary index of every word: set, query neighbours, clear
			for w := 0; w < nw; w++ {
				for _, b := range []int{0, 1, 30, 31} {
					i := w*32 + b
					ops = append(ops, fmt.Sprintf("s%x", i), fmt.Sprintf("p%x", i))
					if i > 0 {
						ops = append(ops, fmt.Sprintf("p%x", i-1))
					}
					if i+1 < nw*32 {
						ops = append(ops, fmt.Sprintf("p%x", i+1))
					}
					if i+32 < nw*32 {
						ops = append(ops, fmt.Sprintf("p%x", i+32))
					}
				}
			}
			if fl == "p" {
				for s := 0; s <= nw*32; s += 16 {
					ops = append(ops, fmt.Sprintf("a%x", s))
				}
			}
			presBitmapCase(c, fl, nw, ops)
			ops = nil
			for i := 0; i < nw*32; i++ {
				ops = append(ops, fmt.Sprintf("n%x", i))
			}
			for i := 0; i < nw*32; i += 3 {
				ops = append(ops, fmt.Sprintf("c%x", i), fmt.Sprintf("p%x", i), fmt.Sprintf("p%x", (i+1)%(nw*32)))
			}
			presBitmapCase(c, fl, nw, ops)
			// one single bit per case, AnyPresent for every size
			if fl == "p" {
				for _, i := range []int{0, 31, 32, 33, 63, 64, 95, 96, 127, 128, 159} {
					if i >= nw*32 {
						continue
					}
					ops = []string{fmt.Sprintf("s%x", i)}
					for s := 0; s <= nw*32; s++ {
						ops = append(ops, fmt.Sprintf("a%x", s))
					}
					ops = append(ops, fmt.Sprintf("c%x", i), fmt.Sprintf("a%x", nw*32))
					presBitmapCase(c, fl, nw, ops)
				}
			}
		}
	}
}

func presBitmapRandom(c *Ctx) {
	nw := 1 + c.Intn(6)
	fl := "x"
	if c.Bool() {
		fl = "p"
	}
	n := 1 + c.Intn(24)
	var ops []string
	var last int
	for k := 0; k < n; k++ {
		i := c.Intn(nw * 32)
		switch c.Intn(4) {
		case 0:
			i = last
		case 1:
			i = (last + 32) % (nw * 32) // same bit, next word
		}
		last = i
		switch c.Intn(8) {
		case 0, 1:
			ops = append(ops, fmt.Sprintf("s%x", i))
		case 2:
			ops = append(ops, fmt.Sprintf("n%x", i))
		case 3, 4:
			ops = append(ops, fmt.Sprintf("c%x", i))
		case 5, 6:
			ops = append(ops, fmt.Sprintf("p%x", i))
		default:
			if fl == "p" {
				ops = append(ops, fmt.Sprintf("a%x", c.Intn(nw*32+1)))
			} else {
				ops = append(ops, fmt.Sprintf("p%x", i))
			}
		}
	}
	presBitmapCase(c, fl, nw, ops)
}

// ---------------------------------------------------------------- corpus

var presCorpusPrefixes = []string{
	"internal/testprotos/test/", "internal/testprotos/test3/", "internal/testprotos/testeditions/",
	"internal/testprotos/lazy/", "internal/testprotos/required/", "internal/testprotos/textpb2/",
	"internal/testprotos/textpb3/", "internal/testprotos/textpbeditions/", "internal/testprotos/mixed/",
	"internal/testprotos/editionsfuzztest/", "internal/testprotos/conformance/", "internal/testprotos/nullable/",
}

var presCorpusTypes []protoreflect.MessageType
var presCorpusExts map[protoreflect.FullName][]protoreflect.ExtensionType

func presCorpus() []protoreflect.MessageType {
	if presCorpusTypes != nil {
		return presCorpusTypes
	}
	protoregistry.GlobalTypes.RangeMessages(func(mt protoreflect.MessageType) bool {
		path := mt.Descriptor().ParentFile().Path()
		for _, p := range presCorpusPrefixes {
			if strings.HasPrefix(path, p) {
				if mt.Descriptor().Options() != nil {
					if o, ok := mt.Descriptor().Options().(*descriptorpb.MessageOptions); ok && o.GetMessageSetWireFormat() {
						return true
					}
				}
				presCorpusTypes = append(presCorpusTypes, mt)
				break
			}
		}
		return true
	})
	sort.Slice(presCorpusTypes, func(i, j int) bool {
		return presCorpusTypes[i].Descriptor().FullName() < presCorpusTypes[j].Descriptor().FullName()
	})
	presCorpusExts = map[protoreflect.FullName][]protoreflect.ExtensionType{}
	protoregistry.GlobalTypes.RangeExtensions(func(xt protoreflect.ExtensionType) bool {
		n := xt.TypeDescriptor().ContainingMessage().FullName()
		presCorpusExts[n] = append(presCorpusExts[n], xt)
		return true
	})
	for _, l := range presCorpusExts {
		sort.Slice(l, func(i, j int) bool { return l[i].TypeDescriptor().FullName() < l[j].TypeDescriptor().FullName() })
	}
	return presCorpusTypes
}

// the main types, by full name suffix, that get op histories on every field
func presIsMainType(md protoreflect.MessageDescriptor) bool {
	n := string(md.FullName())
	for _, s := range []string{".TestAllTypes", ".TestManyMessageFieldsMessage", ".TestRequired", ".TestAllExtensions",
		".TestPackedTypes", ".TestUnpackedTypes", ".TestRequiredForeign", ".Scalars", ".Repeats", ".Nests", ".Maps", ".Oneofs",
		".Proto3Optional", ".ImplicitScalars", ".Top", ".Sub", ".Int32", ".FieldNames", ".TestFieldTrack"} {
		if strings.HasSuffix(n, s) {
			return true
		}
	}
	return false
}

// ---------------------------------------------------------------- haspres

func presFPTok(fs *descriptorpb.FeatureSet) string {
	if fs == nil || fs.FieldPresence == nil {
		return "-"
	}
	switch fs.GetFieldPresence() {
	case descriptorpb.FeatureSet_EXPLICIT:
		return "E"
	case descriptorpb.FeatureSet_IMPLICIT:
		return "I"
	case descriptorpb.FeatureSet_LEGACY_REQUIRED:
		return "L"
	}
	return "-"
}

// features.field_presence on the path file -> enclosing messages -> field
func presChain(fd protoreflect.FieldDescriptor) []string {
	var rev []string
	if o, ok := fd.Options().(*descriptorpb.FieldOptions); ok && o != nil {
		rev = append(rev, presFPTok(o.GetFeatures()))
	} else {
		rev = append(rev, "-")
	}
	for p := fd.Parent(); p != nil; p = p.Parent() {
		switch d := p.(type) {
		case protoreflect.MessageDescriptor:
			if o, ok := d.Options().(*descriptorpb.MessageOptions); ok && o != nil {
				rev = append(rev, presFPTok(o.GetFeatures()))
			} else {
				rev = append(rev, "-")
			}
		case protoreflect.FileDescriptor:
			if o, ok := d.Options().(*descriptorpb.FileOptions); ok && o != nil {
				rev = append(rev, presFPTok(o.GetFeatures()))
			} else {
				rev = append(rev, "-")
			}
		}
	}
	out := make([]string, len(rev))
	for i := range rev {
		out[len(rev)-1-i] = rev[i]
	}
	return out
}

func presSynTok(s protoreflect.Syntax) string {
	switch s {
	case protoreflect.Proto2:
		return "2"
	case protoreflect.Proto3:
		return "3"
	}
	return "e"
}

// declared label: "o" optional, "q" required, "r" repeated.  decl != "" overrides (random schemas
// know what they declared); for linked descriptors the label is read back: an editions field
// with cardinality Required was declared optional + LEGACY_REQUIRED.
func presHasPresCase(c *Ctx, label string, fd protoreflect.FieldDescriptor, decl string) {
	syn := fd.ParentFile().Syntax()
	lbl := decl
	if lbl == "" {
		switch fd.Cardinality() {
		case protoreflect.Optional:
			lbl = "o"
		case protoreflect.Required:
			lbl = "q"
			if syn == protoreflect.Editions {
				lbl = "o"
			}
		case protoreflect.Repeated:
			lbl = "r"
		}
	}
	od := fd.ContainingOneof()
	inOneof := od != nil && !od.IsSynthetic()
	p3opt := od != nil && od.IsSynthetic()
	isMsg := fd.Message() != nil
	isLazy := false
	if l, ok := fd.(interface{ IsLazy() bool }); ok {
		isLazy = l.IsLazy()
	}
	chain := presChain(fd)
	ins := append([]string{label, presSynTok(syn), lbl, Tok(inOneof), Tok(p3opt), Tok(isMsg), Tok(fd.IsExtension()), Tok(fd.IsMap()), Tok(isLazy)}, chain...)
	hp := fd.HasPresence()
	use, lazy := false, false
	func() {
		defer func() {
			if r := recover(); r != nil {
				c.PropFail("C11", "UsePresenceForField panics", ins...)
			}
		}()
		use, lazy = filedesc.UsePresenceForField(fd)
	}()
	// the cardinality class that the message-codec harness (C03, common_msg.go msgFieldToken) puts
	// into its schema tables: 0 explicit, 1 implicit, 2 required, 3 repeated (4 packed, folded
	// into 3 here), 5 map -- tied to the same decision table (PresenceCodec.pc_card)
	card := "?"
	if parts := strings.Split(msgFieldToken(fd, nil), ":"); len(parts) > 2 {
		card = parts[2]
		if card == "4" {
			card = "3"
		}
	}
	// one C line per distinct (attributes, observation): the model is a function of the attributes
	key := strings.Join(ins[1:], " ") + "|" + Tok(hp) + Tok(use) + Tok(lazy) + card
	if !presHasPresSeen[key] {
		presHasPresSeen[key] = true
		c.Case("pres", "haspres", ins, []string{Tok(hp), Tok(use), Tok(lazy), card})
	}
	c.Stat("haspres_syn" + presSynTok(syn))

	// the rule of the property text, evaluated independently of the model
	fp := "E"
	if syn == protoreflect.Proto3 {
		fp = "I"
	}
	for _, t := range chain {
		if t != "-" {
			fp = t
		}
	}
	singular := lbl != "r"
	rule := singular && (fd.IsExtension() || isMsg || inOneof ||
		syn == protoreflect.Proto2 || (syn == protoreflect.Proto3 && p3opt) || (syn == protoreflect.Editions && fp != "I"))
	valid := true
	if syn != protoreflect.Editions && strings.Join(chain, "") != strings.Repeat("-", len(chain)) {
		valid = false
	}
	if fp == "L" && (lbl != "o" || inOneof || fd.IsExtension()) {
		valid = false
	}
	if valid && hp != rule {
		c.PropFail("C11", "HasPresence disagrees with the declared presence discipline", ins...)
	}
}

var presHasPresSeen = map[string]bool{}

func presHasPresCorpus(c *Ctx) {
	var visit func(md protoreflect.MessageDescriptor)
	seen := map[protoreflect.FullName]bool{}
	visit = func(md protoreflect.MessageDescriptor) {
		if seen[md.FullName()] {
			return
		}
		seen[md.FullName()] = true
		for i := 0; i < md.Fields().Len(); i++ {
			fd := md.Fields().Get(i)
			presHasPresCase(c, string(fd.FullName()), fd, "")
		}
		for i := 0; i < md.Extensions().Len(); i++ {
			fd := md.Extensions().Get(i)
			presHasPresCase(c, string(fd.FullName()), fd, "")
		}
		for i := 0; i < md.Messages().Len(); i++ {
			visit(md.Messages().Get(i))
		}
	}
	protoregistry.GlobalFiles.RangeFiles(func(f protoreflect.FileDescriptor) bool { return true })
	var files []protoreflect.FileDescriptor
	protoregistry.GlobalFiles.RangeFiles(func(f protoreflect.FileDescriptor) bool {
		files = append(files, f)
		return true
	})
	sort.Slice(files, func(i, j int) bool { return files[i].Path() < files[j].Path() })
	for _, f := range files {
		for i := 0; i < f.Messages().Len(); i++ {
			visit(f.Messages().Get(i))
		}
		for i := 0; i < f.Extensions().Len(); i++ {
			fd := f.Extensions().Get(i)
			presHasPresCase(c, string(fd.FullName()), fd, "")
		}
	}
}

// ---------------------------------------------------------------- random schemas

var presSchemaSeq int

type presFieldSpec struct {
	name   string
	decl   string // o q r
	kind   descriptorpb.FieldDescriptorProto_Type
	oneof  int // -1 none, else index of a real oneof
	p3opt  bool
	fp     string // "-", E, I, L
	isMap  bool
	ext    bool
	packed int // 0 unset
}

var presScalarKinds = []descriptorpb.FieldDescriptorProto_Type{
	descriptorpb.FieldDescriptorProto_TYPE_INT32, descriptorpb.FieldDescriptorProto_TYPE_INT64,
	descriptorpb.FieldDescriptorProto_TYPE_UINT32, descriptorpb.FieldDescriptorProto_TYPE_UINT64,
	descriptorpb.FieldDescriptorProto_TYPE_SINT32, descriptorpb.FieldDescriptorProto_TYPE_SINT64,
	descriptorpb.FieldDescriptorProto_TYPE_FIXED32, descriptorpb.FieldDescriptorProto_TYPE_FIXED64,
	descriptorpb.FieldDescriptorProto_TYPE_SFIXED32, descriptorpb.FieldDescriptorProto_TYPE_SFIXED64,
	descriptorpb.FieldDescriptorProto_TYPE_FLOAT, descriptorpb.FieldDescriptorProto_TYPE_DOUBLE,
	descriptorpb.FieldDescriptorProto_TYPE_BOOL, descriptorpb.FieldDescriptorProto_TYPE_STRING,
	descriptorpb.FieldDescriptorProto_TYPE_BYTES, descriptorpb.FieldDescriptorProto_TYPE_ENUM,
}

func presFeat(tok string) *descriptorpb.FeatureSet {
	switch tok {
	case "E":
		return &descriptorpb.FeatureSet{FieldPresence: descriptorpb.FeatureSet_EXPLICIT.Enum()}
	case "I":
		return &descriptorpb.FeatureSet{FieldPresence: descriptorpb.FeatureSet_IMPLICIT.Enum()}
	case "L":
		return &descriptorpb.FeatureSet{FieldPresence: descriptorpb.FeatureSet_LEGACY_REQUIRED.Enum()}
	}
	return nil
}

// presRandomSchema builds a file with one outer message (optionally with message-level
// features), a nested message M holding the generated fields, an enum and a sub message.
// wellFormed=false adds combinations protoc rejects (kept only if protodesc accepts them).
func presRandomSchema(c *Ctx, syn string, wellFormed bool) (protoreflect.FileDescriptor, map[string]string) {
	presSchemaSeq++
	pkg := fmt.Sprintf("presrnd%d", presSchemaSeq)
	fdp := &descriptorpb.FileDescriptorProto{
		Name:    proto.String(pkg + ".proto"),
		Package: proto.String(pkg),
	}
	switch syn {
	case "2":
		fdp.Syntax = proto.String("proto2")
	case "3":
		fdp.Syntax = proto.String("proto3")
	default:
		fdp.Syntax = proto.String("editions")
		fdp.Edition = descriptorpb.Edition_EDITION_2023.Enum()
	}
	fileFP, outerFP, innerFP := "-", "-", "-"
	if syn == "e" {
		pick := func() string { return []string{"-", "-", "E", "I"}[c.Intn(4)] }
		fileFP, outerFP, innerFP = pick(), pick(), pick()
		if f := presFeat(fileFP); f != nil {
			fdp.Options = &descriptorpb.FileOptions{Features: f}
		}
	}
	fdp.EnumType = []*descriptorpb.EnumDescriptorProto{{
		Name: proto.String("E"),
		Value: []*descriptorpb.EnumValueDescriptorProto{
			{Name: proto.String("E0"), Number: proto.Int32(0)},
			{Name: proto.String("E1"), Number: proto.Int32(1)},
			{Name: proto.String("E5"), Number: proto.Int32(5)},
		},
	}}
	sub := &descriptorpb.DescriptorProto{
		Name: proto.String("Sub"),
		Field: []*descriptorpb.FieldDescriptorProto{{
			Name: proto.String("a"), Number: proto.Int32(1), Label: descriptorpb.FieldDescriptorProto_LABEL_OPTIONAL.Enum(),
			Type: descriptorpb.FieldDescriptorProto_TYPE_INT32.Enum(),
		}},
	}
	inner := &descriptorpb.DescriptorProto{Name: proto.String("M")}
	if f := presFeat(innerFP); f != nil {
		inner.Options = &descriptorpb.MessageOptions{Features: f}
	}
	if syn == "2" || (syn == "e" && c.Bool()) {
		inner.ExtensionRange = []*descriptorpb.DescriptorProto_ExtensionRange{{Start: proto.Int32(1000), End: proto.Int32(2000)}}
	}
	outer := &descriptorpb.DescriptorProto{Name: proto.String("Outer"), NestedType: []*descriptorpb.DescriptorProto{inner}}
	if f := presFeat(outerFP); f != nil {
		outer.Options = &descriptorpb.MessageOptions{Features: f}
	}
	fdp.MessageType = []*descriptorpb.DescriptorProto{sub, outer}

	decls := map[string]string{}
	nf := 2 + c.Intn(10)
	noneofs := c.Intn(3)
	for i := 0; i < noneofs; i++ {
		inner.OneofDecl = append(inner.OneofDecl, &descriptorpb.OneofDescriptorProto{Name: proto.String(fmt.Sprintf("o%d", i))})
	}
	oneofUsed := make([]bool, noneofs)
	num := int32(1)
	var p3opts []*descriptorpb.FieldDescriptorProto
	var exts []*descriptorpb.FieldDescriptorProto
	mapN := 0
	for i := 0; i < nf; i++ {
		f := &descriptorpb.FieldDescriptorProto{Name: proto.String(fmt.Sprintf("f%d", i)), Number: proto.Int32(num)}
		num += int32(1 + c.Intn(3))
		decl := "o"
		// kind
		switch c.Intn(10) {
		case 0:
			f.Type = descriptorpb.FieldDescriptorProto_TYPE_MESSAGE.Enum()
			f.TypeName = proto.String("." + pkg + ".Sub")
		case 1:
			if syn == "2" {
				// group: needs its own nested type
				gname := fmt.Sprintf("G%d", i)
				inner.NestedType = append(inner.NestedType, &descriptorpb.DescriptorProto{Name: proto.String(gname),
					Field: []*descriptorpb.FieldDescriptorProto{{Name: proto.String("a"), Number: proto.Int32(1),
						Label: descriptorpb.FieldDescriptorProto_LABEL_OPTIONAL.Enum(), Type: descriptorpb.FieldDescriptorProto_TYPE_INT32.Enum()}}})
				f.Name = proto.String(strings.ToLower(gname))
				f.Type = descriptorpb.FieldDescriptorProto_TYPE_GROUP.Enum()
				f.TypeName = proto.String("." + pkg + ".Outer.M." + gname)
			} else {
				f.Type = descriptorpb.FieldDescriptorProto_TYPE_MESSAGE.Enum()
				f.TypeName = proto.String("." + pkg + ".Sub")
				if syn == "e" && c.Bool() {
					f.Options = &descriptorpb.FieldOptions{Features: &descriptorpb.FeatureSet{MessageEncoding: descriptorpb.FeatureSet_DELIMITED.Enum()}}
				}
			}
		default:
			k := presScalarKinds[c.Intn(len(presScalarKinds))]
			f.Type = k.Enum()
			if k == descriptorpb.FieldDescriptorProto_TYPE_ENUM {
				f.TypeName = proto.String("." + pkg + ".E")
			}
		}
		isMsg := f.GetType() == descriptorpb.FieldDescriptorProto_TYPE_MESSAGE || f.GetType() == descriptorpb.FieldDescriptorProto_TYPE_GROUP
		// shape
		shape := c.Intn(12)
		switch {
		case shape < 2:
			decl = "r"
		case shape == 2 && syn == "2":
			decl = "q"
		case shape == 3 && noneofs > 0:
			k := c.Intn(noneofs)
			f.OneofIndex = proto.Int32(int32(k))
			oneofUsed[k] = true
		case shape == 4 && syn == "3":
			f.Proto3Optional = proto.Bool(true)
			p3opts = append(p3opts, f)
		case shape == 5 && f.GetType() != descriptorpb.FieldDescriptorProto_TYPE_GROUP && mapN < 2:
			// map<int32, T>: synthesise the entry type
			mapN++
			ename := fmt.Sprintf("F%dEntry", i)
			vt := *f
			val := &descriptorpb.FieldDescriptorProto{Name: proto.String("value"), Number: proto.Int32(2),
				Label: descriptorpb.FieldDescriptorProto_LABEL_OPTIONAL.Enum(), Type: vt.Type, TypeName: vt.TypeName}
			inner.NestedType = append(inner.NestedType, &descriptorpb.DescriptorProto{Name: proto.String(ename),
				Field: []*descriptorpb.FieldDescriptorProto{{Name: proto.String("key"), Number: proto.Int32(1),
					Label: descriptorpb.FieldDescriptorProto_LABEL_OPTIONAL.Enum(), Type: descriptorpb.FieldDescriptorProto_TYPE_INT32.Enum()}, val},
				Options: &descriptorpb.MessageOptions{MapEntry: proto.Bool(true)}})
			f.Type = descriptorpb.FieldDescriptorProto_TYPE_MESSAGE.Enum()
			f.TypeName = proto.String("." + pkg + ".Outer.M." + ename)
			f.Options = nil
			decl = "r"
			isMsg = true
		case shape == 6 && len(inner.ExtensionRange) > 0:
			f.Extendee = proto.String("." + pkg + ".Outer.M")
			f.Number = proto.Int32(1000 + int32(len(exts)))
			f.Name = proto.String(fmt.Sprintf("x%d", i))
			if c.Intn(3) == 0 {
				decl = "r"
			}
			exts = append(exts, f)
		}
		// field-level feature
		fp := "-"
		if syn == "e" {
			plain := f.OneofIndex == nil && f.Extendee == nil && decl == "o"
			switch c.Intn(6) {
			case 0:
				fp = "E"
			case 1:
				if plain && !isMsg || !wellFormed {
					fp = "I"
				}
			case 2:
				if plain || !wellFormed {
					fp = "L"
				}
			}
			if decl == "r" && wellFormed {
				fp = "-"
			}
		} else if !wellFormed && c.Intn(4) == 0 {
			fp = []string{"E", "I", "L"}[c.Intn(3)]
		}
		if ft := presFeat(fp); ft != nil {
			if f.Options == nil {
				f.Options = &descriptorpb.FieldOptions{}
			}
			if f.Options.Features == nil {
				f.Options.Features = ft
			} else {
				f.Options.Features.FieldPresence = ft.FieldPresence
			}
		}
		switch decl {
		case "o":
			f.Label = descriptorpb.FieldDescriptorProto_LABEL_OPTIONAL.Enum()
		case "q":
			f.Label = descriptorpb.FieldDescriptorProto_LABEL_REQUIRED.Enum()
		case "r":
			f.Label = descriptorpb.FieldDescriptorProto_LABEL_REPEATED.Enum()
		}
		if !wellFormed && syn != "2" && c.Intn(8) == 0 && f.OneofIndex == nil {
			f.Label = descriptorpb.FieldDescriptorProto_LABEL_REQUIRED.Enum()
			decl = "q"
		}
		decls[f.GetName()] = decl
		if f.Extendee != nil {
			continue
		}
		inner.Field = append(inner.Field, f)
	}
	// every declared oneof needs a member
	for k, used := range oneofUsed {
		if !used {
			f := &descriptorpb.FieldDescriptorProto{Name: proto.String(fmt.Sprintf("om%d", k)), Number: proto.Int32(num),
				Label: descriptorpb.FieldDescriptorProto_LABEL_OPTIONAL.Enum(), Type: descriptorpb.FieldDescriptorProto_TYPE_INT32.Enum(),
				OneofIndex: proto.Int32(int32(k))}
			num++
			inner.Field = append(inner.Field, f)
			decls[f.GetName()] = "o"
		}
	}
	// synthetic oneofs come after the real ones
	for _, f := range p3opts {
		f.OneofIndex = proto.Int32(int32(len(inner.OneofDecl)))
		inner.OneofDecl = append(inner.OneofDecl, &descriptorpb.OneofDescriptorProto{Name: proto.String("_" + f.GetName())})
	}
	// extensions declared at file scope or nested in Outer
	for _, x := range exts {
		if c.Bool() {
			fdp.Extension = append(fdp.Extension, x)
		} else {
			outer.Extension = append(outer.Extension, x)
		}
	}
	fd, err := protodesc.NewFile(fdp, nil)
	if err != nil {
		c.Stat("schema_rejected_" + syn)
		return nil, nil
	}
	c.Stat("schema_ok_" + syn)
	return fd, decls
}

func presSchemaFields(fd protoreflect.FileDescriptor) (md protoreflect.MessageDescriptor, exts []protoreflect.FieldDescriptor) {
	md = fd.Messages().ByName("Outer").Messages().ByName("M")
	for i := 0; i < fd.Extensions().Len(); i++ {
		exts = append(exts, fd.Extensions().Get(i))
	}
	ox := fd.Messages().ByName("Outer").Extensions()
	for i := 0; i < ox.Len(); i++ {
		exts = append(exts, ox.Get(i))
	}
	return
}

// ---------------------------------------------------------------- values and histories

// a value of a random bit length (boundary values 2^k-1, 2^k, 2^k+1 included)
func presBits(c *Ctx) uint64 {
	k := c.Intn(65)
	var v uint64
	if k > 0 {
		v = c.U64()
		if k < 64 {
			v &= (uint64(1) << k) - 1
			v |= uint64(1) << (k - 1)
		}
	}
	switch c.Intn(4) {
	case 0:
		if k < 64 {
			return (uint64(1) << k) - 1
		}
		return ^uint64(0)
	case 1:
		if k < 64 {
			return uint64(1) << k
		}
	}
	return v
}

type presVal struct {
	tok string
	v   protoreflect.Value
}

func presKindTok(fd protoreflect.FieldDescriptor) string {
	switch fd.Kind() {
	case protoreflect.BoolKind:
		return "b"
	case protoreflect.FloatKind:
		return "f"
	case protoreflect.DoubleKind:
		return "d"
	case protoreflect.StringKind, protoreflect.BytesKind, protoreflect.MessageKind, protoreflect.GroupKind:
		return "x"
	}
	return "i"
}

// presGenVal: zeroish = 0 non-zero, 1 the zero value, 2 "looks like zero but is not" (-0.0, default of the field)
func presGenVal(c *Ctx, m protoreflect.Message, fd protoreflect.FieldDescriptor, zeroish int) presVal {
	pick64 := func() uint64 {
		if zeroish == 1 {
			return 0
		}
		v := presBits(c)
		if v == 0 {
			v = 1
		}
		return v
	}
	switch fd.Kind() {
	case protoreflect.BoolKind:
		b := zeroish != 1
		return presVal{"b" + Tok(b), protoreflect.ValueOfBool(b)}
	case protoreflect.Int32Kind, protoreflect.Sint32Kind, protoreflect.Sfixed32Kind:
		v := int32(pick64())
		if zeroish != 1 && v == 0 {
			v = math.MinInt32
		}
		return presVal{"i" + HexN(uint64(int64(v))), protoreflect.ValueOfInt32(v)}
	case protoreflect.Int64Kind, protoreflect.Sint64Kind, protoreflect.Sfixed64Kind:
		v := int64(pick64())
		return presVal{"i" + HexN(uint64(v)), protoreflect.ValueOfInt64(v)}
	case protoreflect.Uint32Kind, protoreflect.Fixed32Kind:
		v := uint32(pick64())
		if zeroish != 1 && v == 0 {
			v = 1 << 31
		}
		return presVal{"i" + HexN(uint64(v)), protoreflect.ValueOfUint32(v)}
	case protoreflect.Uint64Kind, protoreflect.Fixed64Kind:
		v := pick64()
		return presVal{"i" + HexN(v), protoreflect.ValueOfUint64(v)}
	case protoreflect.EnumKind:
		var n protoreflect.EnumNumber
		vals := fd.Enum().Values()
		switch {
		case zeroish == 1:
			n = 0
		case zeroish == 2 && fd.DefaultEnumValue() != nil && fd.DefaultEnumValue().Number() != 0:
			n = fd.DefaultEnumValue().Number()
		default:
			n = vals.Get(c.Intn(vals.Len())).Number()
			if n == 0 {
				n = vals.Get(vals.Len() - 1).Number()
			}
			if n == 0 {
				n = 7
			}
		}
		return presVal{"i" + HexN(uint64(int64(n))), protoreflect.ValueOfEnum(n)}
	case protoreflect.FloatKind:
		var bits uint32
		switch {
		case zeroish == 1:
			bits = 0
		case zeroish == 2:
			bits = 0x80000000 // -0.0
		default:
			bits = []uint32{0x3fc00000, 0x7fc00000, 0x00000001, 0x80000001, 0x7f800000, 0xff800000, uint32(c.U64()) | 1}[c.Intn(7)]
		}
		return presVal{"f" + HexN(uint64(bits)), protoreflect.ValueOfFloat32(math.Float32frombits(bits))}
	case protoreflect.DoubleKind:
		var bits uint64
		switch {
		case zeroish == 1:
			bits = 0
		case zeroish == 2:
			bits = 1 << 63
		default:
			bits = []uint64{0x3ff8000000000000, 0x7ff8000000000001, 1, 1<<63 | 1, 0x7ff0000000000000, c.U64() | 1}[c.Intn(6)]
		}
		return presVal{"d" + HexN(bits), protoreflect.ValueOfFloat64(math.Float64frombits(bits))}
	case protoreflect.StringKind:
		s := ""
		if zeroish != 1 {
			s = []string{"a", "0", "\x00", "héllo", " "}[c.Intn(5)]
		}
		return presVal{HexB([]byte(s)), protoreflect.ValueOfString(s)}
	case protoreflect.BytesKind:
		var b []byte
		switch {
		case zeroish == 1 && c.Bool():
			b = nil
		case zeroish == 1:
			b = []byte{}
		default:
			b = [][]byte{{0}, {1, 2}, {0xff}}[c.Intn(3)]
		}
		return presVal{HexB(b), protoreflect.ValueOfBytes(b)}
	case protoreflect.MessageKind, protoreflect.GroupKind:
		return presVal{"x", m.NewField(fd)}
	}
	panic("presGenVal: kind")
}

func presFieldClass(fd protoreflect.FieldDescriptor) string {
	switch {
	case fd.IsMap():
		return "map"
	case fd.IsList():
		return "list"
	case fd.Message() != nil:
		return "msg"
	case fd.HasPresence():
		return "exp"
	}
	return "imp"
}

func presMapKey(fd protoreflect.FieldDescriptor, id int) protoreflect.MapKey {
	switch fd.MapKey().Kind() {
	case protoreflect.BoolKind:
		return protoreflect.ValueOfBool(id%2 == 1).MapKey()
	case protoreflect.StringKind:
		return protoreflect.ValueOfString(fmt.Sprintf("k%d", id)).MapKey()
	case protoreflect.Int32Kind, protoreflect.Sint32Kind, protoreflect.Sfixed32Kind:
		return protoreflect.ValueOfInt32(int32(id)).MapKey()
	case protoreflect.Int64Kind, protoreflect.Sint64Kind, protoreflect.Sfixed64Kind:
		return protoreflect.ValueOfInt64(int64(id)).MapKey()
	case protoreflect.Uint32Kind, protoreflect.Fixed32Kind:
		return protoreflect.ValueOfUint32(uint32(id)).MapKey()
	default:
		return protoreflect.ValueOfUint64(uint64(id)).MapKey()
	}
}

// element value for a list or map field
func presGenElem(c *Ctx, m protoreflect.Message, fd protoreflect.FieldDescriptor, zeroish int) presVal {
	efd := fd
	if fd.IsMap() {
		efd = fd.MapValue()
	}
	if efd.Message() != nil {
		if fd.IsMap() {
			return presVal{"x", m.NewField(fd).Map().NewValue()}
		}
		return presVal{"x", m.NewField(fd).List().NewElement()}
	}
	return presGenVal(c, m, efd, zeroish)
}

// the rule of the property text, tracked directly by the harness (independent of the model)
type presRule struct {
	class  string
	exp    bool
	nz     bool
	length int
	keys   map[int]bool
}

func presNonZeroTok(tok string) bool {
	switch tok[0] {
	case 'b':
		return tok == "b1"
	case 'x':
		return len(tok) > 1
	default: // i f d: the bits
		return strings.Trim(tok[1:], "0") != ""
	}
}

// presHistory runs one random op history on field fd of a fresh message of type mt and
// returns the message (for the round-trip checks).
// presScript, when non-nil, dictates the operations of the next presHistory call (one r-value per step; 98 = binary
// round trip).  Used by presScriptedCorpus for the short sequences that random histories reach too rarely.
var presScript []int

// presScriptedCorpus runs, on every message-typed, list and map field of every opaque / hybrid / lazy-capable corpus
// type, the sequences "populate, round trip, <first operation on the decoded message>": the decoded message is in
// the state the decoder leaves (a lazy field still in wire form: presence bit set, no materialised value), and the
// first operation on it must behave as on any other populated field.
func presScriptedCorpus(c *Ctx, types []protoreflect.MessageType) {
	scripts := [][]int{
		{3, 98, 7},        // Mutable, R, Clear
		{0, 98, 7, 98},    // Set, R, Clear, R
		{3, 98, 9, 7},     // Mutable, R, Get, Clear
		{3, 98, 3, 7},     // Mutable, R, Mutable, Clear
		{3, 98, 0, 98, 7}, // Mutable, R, Set, R, Clear
		{3, 98, 98, 7, 3}, // Mutable, R, R, Clear, Mutable
	}
	for _, mt := range types {
		words := presOpaqueWords(mt.New()) != nil
		for _, fd := range presFieldsOf(mt) {
			if fd.IsWeak() || fd.IsExtension() {
				continue
			}
			isLazy := false
			if l, ok := fd.(interface{ IsLazy() bool }); ok {
				isLazy = l.IsLazy()
			}
			if !(isLazy || (words && presFieldClass(fd) == "msg")) {
				continue
			}
			for _, sc := range scripts {
				presScript = sc
				if presFieldClass(fd) == "list" {
					presScript = append([]int(nil), sc...)
					for i, r := range presScript {
						if r == 7 {
							presScript[i] = 8 // Clear of a list
						} else if r == 3 {
							presScript[i] = 0 // Append
						}
					}
				}
				presHistory(c, presFlavour(mt)+":"+string(fd.FullName()), mt, fd, len(presScript))
				presScript = nil
				c.Stat("hist_scripted")
			}
		}
	}
}

func presHistory(c *Ctx, label string, mt protoreflect.MessageType, fd protoreflect.FieldDescriptor, nops int) (m protoreflect.Message, ok bool) {
	m = mt.New()
	class := presFieldClass(fd)
	rule := presRule{class: class, keys: map[int]bool{}}
	ins := []string{label, class, presKindTok(fd)}
	var obs []string
	failed := false
	defer func() {
		if r := recover(); r != nil {
			c.PropFail("C11", fmt.Sprintf("panic during history: %v", r), ins...)
			ok = false
		}
	}()
	zmode := func() int {
		switch c.Intn(5) {
		case 0, 1:
			return 1
		case 2:
			return 2
		}
		return 0
	}
	// "R": a binary round trip in the middle of the history (Marshal, Unmarshal into a fresh message, carry on with the
	// decoded message).  Presence must survive it, and the decoded message is in whatever internal state the decoder
	// leaves (lazy fields still in wire form, presence bits set without a materialised value, ...).  Not for extensions
	// (no resolver here) nor enum-typed fields (an unknown number of a closed enum legitimately moves to the unknown fields).
	rtOK := !fd.IsExtension() && fd.Kind() != protoreflect.EnumKind && !(fd.IsMap() && fd.MapValue().Kind() == protoreflect.EnumKind)
	afterRT := false
	for k := 0; k < nops; k++ {
		r := c.Intn(10)
		if afterRT && c.Intn(2) == 0 {
			// Clear as the first operation on the freshly decoded message (nothing has read the field yet)
			r = 7
			if class == "list" {
				r = 8
			}
		}
		afterRT = false
		doRT := rtOK && k > 0 && c.Intn(7) == 0
		if presScript != nil { // scripted history (presScriptedCorpus): r-values given, 98 = round trip
			r, doRT = presScript[k], presScript[k] == 98 && rtOK
		}
		if doRT {
			if b, err := (proto.MarshalOptions{AllowPartial: true}).Marshal(m.Interface()); err == nil {
				m2 := mt.New()
				if err := (proto.UnmarshalOptions{AllowPartial: true}).Unmarshal(b, m2.Interface()); err == nil {
					m = m2
					ins = append(ins, "R")
					c.Stat("hist_roundtrip_" + class)
					r = 99 // no further operation in this step: observe Has right after the round trip
					afterRT = true
				}
			}
		}
		switch class {
		case "exp", "imp":
			switch {
			case r == 99:
			case r < 5:
				v := presGenVal(c, m, fd, zmode())
				m.Set(fd, v.v)
				ins = append(ins, "S"+v.tok)
				rule.exp, rule.nz = true, presNonZeroTok(v.tok)
			case r < 8:
				m.Clear(fd)
				ins = append(ins, "C")
				rule.exp, rule.nz = false, false
			default:
				m.Get(fd)
				ins = append(ins, "G")
			}
		case "msg":
			switch {
			case r == 99:
			case r < 3:
				m.Set(fd, m.NewField(fd))
				ins = append(ins, "Sx")
				rule.exp = true
			case r < 5:
				m.Mutable(fd)
				ins = append(ins, "M")
				rule.exp = true
			case r < 8:
				m.Clear(fd)
				ins = append(ins, "C")
				rule.exp = false
			default:
				m.Get(fd)
				ins = append(ins, "G")
			}
		case "list":
			switch {
			case r == 99:
			case r < 4:
				v := presGenElem(c, m, fd, zmode())
				m.Mutable(fd).List().Append(v.v)
				ins = append(ins, "A"+v.tok)
				rule.length++
			case r < 6:
				n := 0
				if rule.length > 0 {
					n = c.Intn(rule.length + 1)
				}
				m.Mutable(fd).List().Truncate(n)
				ins = append(ins, "T"+HexN(uint64(n)))
				rule.length = n
			case r == 6:
				l := m.NewField(fd).List()
				n := c.Intn(3)
				var toks []string
				for j := 0; j < n; j++ {
					v := presGenElem(c, m, fd, zmode())
					l.Append(v.v)
					toks = append(toks, v.tok)
				}
				m.Set(fd, protoreflect.ValueOfList(l))
				ins = append(ins, "L"+strings.Join(toks, ","))
				rule.length = n
			case r == 7:
				m.Mutable(fd)
				ins = append(ins, "M")
			case r == 8:
				m.Clear(fd)
				ins = append(ins, "C")
				rule.length = 0
			default:
				m.Get(fd)
				ins = append(ins, "G")
			}
		case "map":
			switch {
			case r == 99:
			case r < 4:
				id := c.Intn(4)
				if fd.MapKey().Kind() == protoreflect.BoolKind {
					id %= 2
				}
				v := presGenElem(c, m, fd, zmode())
				m.Mutable(fd).Map().Set(presMapKey(fd, id), v.v)
				ins = append(ins, "K"+HexN(uint64(id))+"="+v.tok)
				rule.keys[id] = true
			case r < 6:
				id := c.Intn(4)
				if fd.MapKey().Kind() == protoreflect.BoolKind {
					id %= 2
				}
				m.Mutable(fd).Map().Clear(presMapKey(fd, id))
				ins = append(ins, "D"+HexN(uint64(id)))
				delete(rule.keys, id)
			case r == 6:
				m.Mutable(fd)
				ins = append(ins, "M")
			case r == 7:
				m.Clear(fd)
				ins = append(ins, "C")
				rule.keys = map[int]bool{}
			default:
				m.Get(fd)
				ins = append(ins, "G")
			}
		}
		has := m.Has(fd)
		obs = append(obs, Tok(has))
		var want bool
		switch class {
		case "exp", "msg":
			want = rule.exp
		case "imp":
			want = rule.nz
		case "list":
			want = rule.length > 0
		case "map":
			want = len(rule.keys) > 0
		}
		if has != want && !failed {
			failed = true
			c.PropFail("C11", "Has disagrees with the presence rule of the field class", ins...)
		}
		// generated Has<Field> method (opaque / hybrid API), when there is one
		if gh, found := presGeneratedHas(m, fd); found && gh != has && !failed {
			failed = true
			c.PropFail("C11", "generated Has method disagrees with reflection Has", ins...)
		}
	}
	c.Case("pres", "hist", ins, obs)
	c.Stat("hist_" + class)
	return m, true
}

func presGeneratedHas(m protoreflect.Message, fd protoreflect.FieldDescriptor) (has, found bool) {
	if fd.IsExtension() || fd.IsList() || fd.IsMap() {
		return false, false
	}
	if _, ok := m.Interface().(*dynamicpb.Message); ok {
		return false, false
	}
	rv := reflect.ValueOf(m.Interface())
	meth := rv.MethodByName("Has" + strs.GoCamelCase(string(fd.Name())))
	if !meth.IsValid() || meth.Type().NumIn() != 0 || meth.Type().NumOut() != 1 || meth.Type().Out(0).Kind() != reflect.Bool {
		return false, false
	}
	return meth.Call(nil)[0].Bool(), true
}

// does the top level of wire data b contain field num?
func presWireHas(b []byte, num protoreflect.FieldNumber) bool {
	for len(b) > 0 {
		n, t, l := protowire.ConsumeField(b)
		if l < 0 {
			return false
		}
		if n == num {
			return true
		}
		_ = t
		b = b[l:]
	}
	return false
}

// presRoundTrips: the state of field fd in m must survive binary / JSON / text round trips and
// the wire data names the field iff Has.
func presRoundTrips(c *Ctx, label string, m protoreflect.Message, fd protoreflect.FieldDescriptor, resolver interface {
	protoregistry.ExtensionTypeResolver
	protoregistry.MessageTypeResolver
}) {
	has := m.Has(fd)
	defer func() {
		if r := recover(); r != nil {
			c.PropFail("C11", fmt.Sprintf("panic during round trip: %v", r), label)
		}
	}()
	presCodecCase(c, m)
	b, err := proto.MarshalOptions{AllowPartial: true, Deterministic: true}.Marshal(m.Interface())
	if err != nil {
		c.Stat("rt_binary_marshal_err")
	} else {
		onWire := presWireHas(b, fd.Number())
		if onWire != has {
			what := "explicit presence lost: populated field is not encoded"
			if onWire {
				what = "unpopulated field (implicit zero) is encoded"
			}
			c.PropFail("C11", what, label, presFieldClass(fd), HexB(b))
		}
		m2 := m.New()
		uo := proto.UnmarshalOptions{AllowPartial: true}
		if resolver != nil {
			uo.Resolver = resolver
		}
		if err := uo.Unmarshal(b, m2.Interface()); err != nil {
			c.Stat("rt_binary_unmarshal_err")
		} else if m2.Has(fd) != has {
			c.PropFail("C11", "presence changed by binary round trip", label, presFieldClass(fd), HexB(b))
		}
		c.Stat("rt_binary")
	}
	jb, err := protojson.MarshalOptions{AllowPartial: true}.Marshal(m.Interface())
	if err != nil {
		c.Stat("rt_json_marshal_err")
	} else {
		m2 := m.New()
		uo := protojson.UnmarshalOptions{AllowPartial: true}
		if resolver != nil {
			uo.Resolver = resolver
		}
		if err := uo.Unmarshal(jb, m2.Interface()); err != nil {
			c.Stat("rt_json_unmarshal_err")
		} else if m2.Has(fd) != has {
			c.PropFail("C11", "presence changed by JSON round trip", label, presFieldClass(fd), HexB(jb))
		}
		c.Stat("rt_json")
	}
	tb, err := prototext.MarshalOptions{AllowPartial: true}.Marshal(m.Interface())
	if err != nil {
		c.Stat("rt_text_marshal_err")
	} else {
		m2 := m.New()
		uo := prototext.UnmarshalOptions{AllowPartial: true}
		if resolver != nil {
			uo.Resolver = resolver
		}
		if err := uo.Unmarshal(tb, m2.Interface()); err != nil {
			c.Stat("rt_text_unmarshal_err")
		} else if m2.Has(fd) != has {
			c.PropFail("C11", "presence changed by text round trip", label, presFieldClass(fd), HexB(tb))
		}
		c.Stat("rt_text")
	}
}

// presCodecCase: Has on the canonical value (PresenceCodec.pc_has over the message codec model of
// C03) against Has of the implementation for every field of the message type, and the numbers
// of the top-level wire fields of Marshal(m) against the model's pc_wire.
//
//	chas <schema id> <field numbers> <canonical value tokens...> | <has bits> <wire field numbers>
func presCodecCase(c *Ctx, m protoreflect.Message) {
	md := m.Descriptor()
	if len(m.GetUnknown()) > 0 || msgReachesMessageSet(md, map[protoreflect.FullName]bool{}) {
		return
	}
	b, err := proto.MarshalOptions{AllowPartial: true, Deterministic: true}.Marshal(m.Interface())
	if err != nil {
		return
	}
	id := msgSchemaOf(c, md)
	var fds []protoreflect.FieldDescriptor
	for i := 0; i < md.Fields().Len(); i++ {
		fds = append(fds, md.Fields().Get(i))
	}
	for _, x := range msgExtensionsOf(md) {
		fds = append(fds, x)
	}
	var nums []string
	var bits strings.Builder
	for _, fd := range fds {
		nums = append(nums, HexN(uint64(fd.Number())))
		bits.WriteString(Tok(m.Has(fd)))
	}
	var wire []string
	for rest := b; len(rest) > 0; {
		n, _, l := protowire.ConsumeField(rest)
		if l < 0 {
			c.PropFail("C11", "Marshal output does not scan", HexB(b))
			return
		}
		wire = append(wire, HexN(uint64(n)))
		rest = rest[l:]
	}
	w := "-"
	if len(wire) > 0 {
		w = strings.Join(wire, ",")
	}
	ins := append([]string{id, strings.Join(nums, ",")}, msgDump(m)...)
	c.Case("pres", "chas", ins, []string{bits.String(), w})
	c.Stat("chas")
}

func presFlavour(mt protoreflect.MessageType) string {
	m := mt.New().Interface()
	if _, ok := m.(*dynamicpb.Message); ok {
		return "dyn"
	}
	t := reflect.TypeOf(m).Elem()
	if t.Kind() == reflect.Struct && t.NumField() > 0 {
		if pg := t.Field(0).Tag.Get("protogen"); pg != "" {
			return pg
		}
	}
	return "gen"
}

func presFieldsOf(mt protoreflect.MessageType) []protoreflect.FieldDescriptor {
	var out []protoreflect.FieldDescriptor
	md := mt.Descriptor()
	for i := 0; i < md.Fields().Len(); i++ {
		out = append(out, md.Fields().Get(i))
	}
	if _, dyn := mt.New().Interface().(*dynamicpb.Message); !dyn {
		presCorpus()
		for _, xt := range presCorpusExts[md.FullName()] {
			out = append(out, xt.TypeDescriptor())
		}
	}
	return out
}

func presHistOnType(c *Ctx, mt protoreflect.MessageType, perField int, resolver interface {
	protoregistry.ExtensionTypeResolver
	protoregistry.MessageTypeResolver
}) {
	fl := presFlavour(mt)
	for _, fd := range presFieldsOf(mt) {
		if fd.IsWeak() {
			continue
		}
		label := fl + ":" + string(fd.FullName())
		for k := 0; k < perField; k++ {
			m, ok := presHistory(c, label, mt, fd, 1+c.Intn(8))
			if ok && c.Intn(2) == 0 {
				presRoundTrips(c, label, m, fd, resolver)
			}
		}
		// also the same field through dynamicpb over the same descriptor
		if fl != "dyn" && !fd.IsExtension() && c.Intn(3) == 0 {
			dmt := dynamicpb.NewMessageType(mt.Descriptor())
			m, ok := presHistory(c, "dyn:"+string(fd.FullName()), dmt, fd, 1+c.Intn(8))
			if ok && c.Intn(4) == 0 {
				presRoundTrips(c, "dyn:"+string(fd.FullName()), m, fd, resolver)
			}
		}
	}
}

// ---------------------------------------------------------------- opaque: raw XXX_presence

// presOpaqueWords reads the raw presence words of an opaque message (nil if it has none).
func presOpaqueWords(m protoreflect.Message) []uint32 {
	rv := reflect.ValueOf(m.Interface())
	if rv.Kind() != reflect.Ptr || rv.Elem().Kind() != reflect.Struct {
		return nil
	}
	f := rv.Elem().FieldByName("XXX_presence")
	if !f.IsValid() || f.Kind() != reflect.Array {
		return nil
	}
	out := make([]uint32, f.Len())
	for i := range out {
		out[i] = uint32(f.Index(i).Uint())
	}
	return out
}

// flags token: one letter per field in declaration order:
//
//	n not in a oneof, m oneof member (not last), l last member of its oneof
func presFieldFlags(md protoreflect.MessageDescriptor) string {
	var sb strings.Builder
	for i := 0; i < md.Fields().Len(); i++ {
		fd := md.Fields().Get(i)
		od := fd.ContainingOneof()
		switch {
		case od == nil:
			sb.WriteByte('n')
		case od.Fields().Get(od.Fields().Len()-1) == fd:
			sb.WriteByte('l')
		default:
			sb.WriteByte('m')
		}
	}
	return sb.String()
}

func presOpaqueHistory(c *Ctx, mt protoreflect.MessageType, nops int) {
	m := mt.New()
	words := presOpaqueWords(m)
	if words == nil {
		return
	}
	md := mt.Descriptor()
	// fields that use the presence bitmap
	var cand []protoreflect.FieldDescriptor
	for i := 0; i < md.Fields().Len(); i++ {
		fd := md.Fields().Get(i)
		if use, _ := filedesc.UsePresenceForField(fd); use && !fd.IsList() {
			cand = append(cand, fd)
		}
	}
	if len(cand) == 0 {
		return
	}
	ins := []string{presFlavour(mt) + ":" + string(md.FullName()), HexN(uint64(len(words))), presFieldFlags(md)}
	var obs []string
	defer func() {
		if r := recover(); r != nil {
			c.PropFail("C11", fmt.Sprintf("panic during opaque history: %v", r), ins...)
		}
	}()
	for k := 0; k < nops; k++ {
		fd := cand[c.Intn(len(cand))]
		if k > 0 && c.Intn(3) == 0 {
			// stay near: a field in the next word / the neighbouring bit
			fd = cand[(c.Intn(len(cand)))]
		}
		pos := HexN(uint64(fd.Index()))
		switch r := c.Intn(6); {
		case r < 3:
			if fd.Message() != nil {
				m.Set(fd, m.NewField(fd))
			} else {
				m.Set(fd, presGenVal(c, m, fd, c.Intn(3)).v)
			}
			ins = append(ins, pos+"S")
		case r < 5:
			m.Clear(fd)
			ins = append(ins, pos+"C")
		default:
			if fd.Message() != nil {
				m.Mutable(fd)
				ins = append(ins, pos+"M")
			} else {
				m.Get(fd)
				ins = append(ins, pos+"G")
			}
		}
		obs = append(obs, Tok(m.Has(fd)))
	}
	for _, w := range presOpaqueWords(m) {
		obs = append(obs, HexN(uint64(w)))
	}
	c.Case("pres", "ohist", ins, obs)
	c.Stat("ohist")
}

// ---------------------------------------------------------------- minimal codec

var presEncTypes map[string]protoreflect.MessageType

func presEncType(class string, num int32, kind descriptorpb.FieldDescriptorProto_Type) protoreflect.MessageType {
	key := fmt.Sprintf("%s/%d/%d", class, num, kind)
	if presEncTypes == nil {
		presEncTypes = map[string]protoreflect.MessageType{}
	}
	if mt, ok := presEncTypes[key]; ok {
		return mt
	}
	syntax := "proto2"
	if class == "imp" {
		syntax = "proto3"
	}
	presSchemaSeq++
	pkg := fmt.Sprintf("presenc%d", presSchemaSeq)
	fdp := &descriptorpb.FileDescriptorProto{
		Name: proto.String(pkg + ".proto"), Package: proto.String(pkg), Syntax: proto.String(syntax),
		MessageType: []*descriptorpb.DescriptorProto{{
			Name: proto.String("M"),
			Field: []*descriptorpb.FieldDescriptorProto{{
				Name: proto.String("f"), Number: proto.Int32(num),
				Label: descriptorpb.FieldDescriptorProto_LABEL_OPTIONAL.Enum(), Type: kind.Enum(),
			}},
		}},
	}
	fd, err := protodesc.NewFile(fdp, nil)
	if err != nil {
		panic(err)
	}
	mt := dynamicpb.NewMessageType(fd.Messages().Get(0))
	presEncTypes[key] = mt
	return mt
}

var presEncNums = []int32{1, 15, 16, 2047, 2048, 262143, 262144, 1<<29 - 1}

func presEncCase(c *Ctx) {
	class := []string{"exp", "imp"}[c.Intn(2)]
	num := presEncNums[c.Intn(len(presEncNums))]
	if c.Intn(3) == 0 {
		num = int32(1 + c.Intn(1<<29-1))
		if num >= 19000 && num <= 19999 {
			num = 20000
		}
	}
	kinds := []descriptorpb.FieldDescriptorProto_Type{descriptorpb.FieldDescriptorProto_TYPE_UINT64,
		descriptorpb.FieldDescriptorProto_TYPE_INT64, descriptorpb.FieldDescriptorProto_TYPE_INT32,
		descriptorpb.FieldDescriptorProto_TYPE_UINT32, descriptorpb.FieldDescriptorProto_TYPE_BOOL}
	kind := kinds[c.Intn(len(kinds))]
	mt := presEncType(class, num, kind)
	fd := mt.Descriptor().Fields().Get(0)
	m := mt.New()
	tok := "-"
	if class == "imp" || c.Intn(4) != 0 {
		v := presGenVal(c, m, fd, c.Intn(3))
		m.Set(fd, v.v)
		tok = v.tok
	}
	b, err := proto.MarshalOptions{Deterministic: true}.Marshal(m.Interface())
	if err != nil {
		c.PropFail("C11", "marshal error on single scalar field", class, HexN(uint64(num)), tok)
		return
	}
	c.Case("pres", "enc", []string{fd.Kind().String(), class, HexN(uint64(num)), tok}, []string{HexB(b)})
	if presWireHas(b, fd.Number()) != m.Has(fd) {
		c.PropFail("C11", "wire data names the field iff Has: violated", class, HexN(uint64(num)), tok)
	}
	c.Stat("enc_" + class)
}

// dec: a buffer of varint fields (some with other numbers) decoded into an explicit-presence uint64 field
func presDecCase(c *Ctx) {
	num := presEncNums[c.Intn(len(presEncNums))]
	mt := presEncType("exp", num, descriptorpb.FieldDescriptorProto_TYPE_UINT64)
	fd := mt.Descriptor().Fields().Get(0)
	var b []byte
	n := c.Intn(5)
	for k := 0; k < n; k++ {
		fn := protowire.Number(num)
		switch c.Intn(4) {
		case 0:
			fn = protowire.Number(presEncNums[c.Intn(len(presEncNums))])
		case 1:
			fn = protowire.Number(1 + c.Intn(1<<20))
		}
		v := presBits(c)
		if c.Intn(3) == 0 {
			v = 0
		}
		b = protowire.AppendTag(b, fn, protowire.VarintType)
		b = protowire.AppendVarint(b, v)
	}
	if c.Intn(6) == 0 && len(b) > 0 {
		b = b[:len(b)-1-c.Intn(len(b))] // truncated
	}
	m := mt.New()
	err := proto.Unmarshal(b, m.Interface())
	var obs []string
	if err != nil {
		obs = []string{"err"}
	} else if m.Has(fd) {
		obs = []string{"ok", "1", HexN(m.Get(fd).Uint())}
	} else {
		obs = []string{"ok", "0", "0"}
	}
	c.Case("pres", "dec", []string{HexN(uint64(num)), HexB(b)}, obs)
	c.Stat("dec")
}

// ---------------------------------------------------------------- driver

func famPres(c *Ctx) {
	// (a) boundary corpus
	presBitmapCorpus(c)
	presHasPresCorpus(c)
	types := presCorpus()
	var mains, opaques []protoreflect.MessageType
	for _, mt := range types {
		if presIsMainType(mt.Descriptor()) {
			mains = append(mains, mt)
		}
		if presOpaqueWords(mt.New()) != nil {
			opaques = append(opaques, mt)
		}
	}
	c.StatN("corpus_types", len(types))
	c.StatN("corpus_main_types", len(mains))
	c.StatN("corpus_opaque_types", len(opaques))
	presScriptedCorpus(c, types)
	for _, mt := range mains {
		presHistOnType(c, mt, 1, nil)
	}
	for _, mt := range opaques {
		presOpaqueHistory(c, mt, 4+c.Intn(20))
	}
	for _, num := range presEncNums {
		for _, class := range []string{"exp", "imp"} {
			mt := presEncType(class, num, descriptorpb.FieldDescriptorProto_TYPE_UINT64)
			fd := mt.Descriptor().Fields().Get(0)
			for _, v := range []uint64{0, 1, 127, 128, 1<<64 - 1} {
				m := mt.New()
				m.Set(fd, protoreflect.ValueOfUint64(v))
				b, _ := proto.Marshal(m.Interface())
				c.Case("pres", "enc", []string{"uint64", class, HexN(uint64(num)), "i" + HexN(v)}, []string{HexB(b)})
				if presWireHas(b, fd.Number()) != m.Has(fd) {
					c.PropFail("C11", "wire data names the field iff Has: violated", class, HexN(uint64(num)), HexN(v))
				}
			}
		}
	}
	// (b) random part
	for c.Cases < c.N {
		switch r := c.Intn(20); {
		case r < 3:
			presBitmapRandom(c)
		case r < 7:
			syn := []string{"2", "3", "e", "e"}[c.Intn(4)]
			well := c.Intn(4) != 0
			fd, decls := presRandomSchema(c, syn, well)
			if fd == nil {
				continue
			}
			md, exts := presSchemaFields(fd)
			lbl := "rnd" + syn
			if !well {
				lbl += "!"
			}
			for i := 0; i < md.Fields().Len(); i++ {
				f := md.Fields().Get(i)
				presHasPresCase(c, lbl, f, decls[string(f.Name())])
			}
			for _, x := range exts {
				presHasPresCase(c, lbl, x, decls[string(x.Name())])
			}
			if well {
				presHistOnType(c, dynamicpb.NewMessageType(md), 1, nil)
			}
		case r < 12:
			mt := mains[c.Intn(len(mains))]
			fds := presFieldsOf(mt)
			fd := fds[c.Intn(len(fds))]
			label := presFlavour(mt) + ":" + string(fd.FullName())
			m, ok := presHistory(c, label, mt, fd, 1+c.Intn(10))
			if ok && c.Intn(2) == 0 {
				presRoundTrips(c, label, m, fd, nil)
			}
		case r < 14:
			mt := types[c.Intn(len(types))]
			fds := presFieldsOf(mt)
			if len(fds) == 0 {
				continue
			}
			fd := fds[c.Intn(len(fds))]
			label := presFlavour(mt) + ":" + string(fd.FullName())
			m, ok := presHistory(c, label, mt, fd, 1+c.Intn(6))
			if ok && c.Intn(3) == 0 {
				presRoundTrips(c, label, m, fd, nil)
			}
		case r < 16:
			presOpaqueHistory(c, opaques[c.Intn(len(opaques))], 1+c.Intn(30))
		case r < 18:
			presEncCase(c)
		default:
			presDecCase(c)
		}
	}
}
