//go:build verif

package main

// The struct-tag-only types LegacyAbMessage / LegacyAb3Message against dynamicpb messages
// over an independently written schema (what the tags mean), not over the descriptor that
// the runtime derived from the tags: same random content, deterministic wire bytes, Size,
// reflection snapshots and cross-decoding.  (JSON / text are not compared: an enum known
// only through a tag has no value names.)

import (
	"bytes"
	"fmt"

	"google.golang.org/protobuf/proto"
	"google.golang.org/protobuf/reflect/protodesc"
	"google.golang.org/protobuf/reflect/protoreflect"
	"google.golang.org/protobuf/reflect/protoregistry"
	"google.golang.org/protobuf/types/descriptorpb"
	"google.golang.org/protobuf/types/dynamicpb"
)

type legacyAbField struct {
	num      int32
	name     string
	typ      descriptorpb.FieldDescriptorProto_Type
	rep, req bool
	packed   int // 0 unset, 1 true, 2 false
	oneof    bool
	mapKV    [2]descriptorpb.FieldDescriptorProto_Type // map<k,v> when non-zero
	def      string
}

func legacyAbSchema(c *Ctx, proto3 bool, msgName string, fs []legacyAbField) protoreflect.MessageDescriptor {
	pkg := "verif.legab2"
	syntax := "proto2"
	if proto3 {
		pkg, syntax = "verif.legab3", "proto3"
	}
	self := "." + pkg + "." + msgName
	msg := &descriptorpb.DescriptorProto{Name: proto.String(msgName)}
	hasOneof := false
	for _, f := range fs {
		fp := &descriptorpb.FieldDescriptorProto{Name: proto.String(f.name), Number: proto.Int32(f.num), Type: f.typ.Enum(),
			Label: descriptorpb.FieldDescriptorProto_LABEL_OPTIONAL.Enum()}
		switch {
		case f.rep:
			fp.Label = descriptorpb.FieldDescriptorProto_LABEL_REPEATED.Enum()
		case f.req:
			fp.Label = descriptorpb.FieldDescriptorProto_LABEL_REQUIRED.Enum()
		}
		switch f.typ {
		case descriptorpb.FieldDescriptorProto_TYPE_ENUM:
			fp.TypeName = proto.String("." + pkg + ".AbEnum")
		case descriptorpb.FieldDescriptorProto_TYPE_MESSAGE:
			fp.TypeName = proto.String(self)
		}
		if f.mapKV[0] != 0 {
			en := ""
			up := true
			for i := 0; i < len(f.name); i++ { // MapEntryName: CamelCase + "Entry"
				ch := f.name[i]
				if ch == '_' {
					up = true
					continue
				}
				if up && 'a' <= ch && ch <= 'z' {
					ch -= 'a' - 'A'
				}
				up = false
				en += string(ch)
			}
			en += "Entry"
			val := &descriptorpb.FieldDescriptorProto{Name: proto.String("value"), Number: proto.Int32(2), Type: f.mapKV[1].Enum(),
				Label: descriptorpb.FieldDescriptorProto_LABEL_OPTIONAL.Enum()}
			if f.mapKV[1] == descriptorpb.FieldDescriptorProto_TYPE_MESSAGE {
				val.TypeName = proto.String(self)
			}
			msg.NestedType = append(msg.NestedType, &descriptorpb.DescriptorProto{
				Name: proto.String(en), Options: &descriptorpb.MessageOptions{MapEntry: proto.Bool(true)},
				Field: []*descriptorpb.FieldDescriptorProto{
					{Name: proto.String("key"), Number: proto.Int32(1), Type: f.mapKV[0].Enum(), Label: descriptorpb.FieldDescriptorProto_LABEL_OPTIONAL.Enum()},
					val,
				}})
			fp.Type = descriptorpb.FieldDescriptorProto_TYPE_MESSAGE.Enum()
			fp.TypeName = proto.String(self + "." + en)
		}
		switch f.packed {
		case 1:
			fp.Options = &descriptorpb.FieldOptions{Packed: proto.Bool(true)}
		case 2:
			fp.Options = &descriptorpb.FieldOptions{Packed: proto.Bool(false)}
		}
		if f.oneof {
			hasOneof = true
			fp.OneofIndex = proto.Int32(0)
		}
		if f.def != "" {
			fp.DefaultValue = proto.String(f.def)
		}
		msg.Field = append(msg.Field, fp)
	}
	if hasOneof {
		msg.OneofDecl = []*descriptorpb.OneofDescriptorProto{{Name: proto.String("oneof_union")}}
	}
	fdp := &descriptorpb.FileDescriptorProto{
		Name: proto.String("verif/" + pkg + ".proto"), Syntax: proto.String(syntax), Package: proto.String(pkg),
		MessageType: []*descriptorpb.DescriptorProto{msg},
		EnumType: []*descriptorpb.EnumDescriptorProto{{Name: proto.String("AbEnum"), Value: []*descriptorpb.EnumValueDescriptorProto{
			{Name: proto.String("AB_0"), Number: proto.Int32(0)}, {Name: proto.String("AB_1"), Number: proto.Int32(1)}, {Name: proto.String("AB_2"), Number: proto.Int32(2)}}}},
	}
	fd, err := protodesc.NewFile(fdp, new(protoregistry.Files))
	if err != nil {
		c.PropFail("C46", "the intended schema of an aberrant type is rejected: "+err.Error(), msgName)
		return nil
	}
	return fd.Messages().Get(0)
}

var legacyAbSchemas [2]protoreflect.MessageDescriptor

func legacyAbSchemaSetup(c *Ctx) {
	if legacyAbSchemas[0] != nil {
		return
	}
	const (
		tDouble  = descriptorpb.FieldDescriptorProto_TYPE_DOUBLE
		tFloat   = descriptorpb.FieldDescriptorProto_TYPE_FLOAT
		tInt64   = descriptorpb.FieldDescriptorProto_TYPE_INT64
		tUint64  = descriptorpb.FieldDescriptorProto_TYPE_UINT64
		tInt32   = descriptorpb.FieldDescriptorProto_TYPE_INT32
		tFixed64 = descriptorpb.FieldDescriptorProto_TYPE_FIXED64
		tFixed32 = descriptorpb.FieldDescriptorProto_TYPE_FIXED32
		tBool    = descriptorpb.FieldDescriptorProto_TYPE_BOOL
		tString  = descriptorpb.FieldDescriptorProto_TYPE_STRING
		tMessage = descriptorpb.FieldDescriptorProto_TYPE_MESSAGE
		tBytes   = descriptorpb.FieldDescriptorProto_TYPE_BYTES
		tUint32  = descriptorpb.FieldDescriptorProto_TYPE_UINT32
		tEnum    = descriptorpb.FieldDescriptorProto_TYPE_ENUM
		tSfix64  = descriptorpb.FieldDescriptorProto_TYPE_SFIXED64
		tSint32  = descriptorpb.FieldDescriptorProto_TYPE_SINT32
		tSint64  = descriptorpb.FieldDescriptorProto_TYPE_SINT64
	)
	type kv = [2]descriptorpb.FieldDescriptorProto_Type
	legacyAbSchemas[0] = legacyAbSchema(c, false, "AbMessage", []legacyAbField{
		{num: 1, name: "opt_bool", typ: tBool, def: "true"},
		{num: 2, name: "opt_int32", typ: tInt32, def: "-12345"},
		{num: 3, name: "opt_sint32", typ: tSint32},
		{num: 4, name: "opt_uint64", typ: tUint64},
		{num: 5, name: "opt_fixed32", typ: tFixed32},
		{num: 6, name: "opt_sfixed64", typ: tSfix64},
		{num: 7, name: "opt_float", typ: tFloat, def: "3.14159"},
		{num: 8, name: "opt_double", typ: tDouble},
		{num: 9, name: "opt_string", typ: tString, def: "hello, \"world!\"\n"},
		{num: 10, name: "opt_bytes", typ: tBytes},
		{num: 11, name: "opt_enum", typ: tEnum},
		{num: 12, name: "opt_message", typ: tMessage},
		{num: 13, name: "req_int64", typ: tInt64, req: true},
		{num: 18, name: "rep_bool", typ: tBool, rep: true, packed: 1},
		{num: 19, name: "rep_int32", typ: tInt32, rep: true},
		{num: 20, name: "rep_sint64", typ: tSint64, rep: true, packed: 1},
		{num: 21, name: "rep_fixed64", typ: tFixed64, rep: true},
		{num: 22, name: "rep_double", typ: tDouble, rep: true, packed: 1},
		{num: 31, name: "rep_string", typ: tString, rep: true},
		{num: 32, name: "rep_bytes", typ: tBytes, rep: true},
		{num: 33, name: "rep_enum", typ: tEnum, rep: true},
		{num: 34, name: "rep_message", typ: tMessage, rep: true},
		{num: 36, name: "map_string_int32", rep: true, mapKV: kv{tString, tInt32}},
		{num: 37, name: "map_int64_sint32", rep: true, mapKV: kv{tInt64, tSint32}},
		{num: 49, name: "map_string_bytes", rep: true, mapKV: kv{tString, tBytes}},
		{num: 51, name: "map_string_message", rep: true, mapKV: kv{tString, tMessage}},
		{num: 52, name: "oneof_bool", typ: tBool, oneof: true},
		{num: 65, name: "oneof_string", typ: tString, oneof: true},
		{num: 68, name: "oneof_message", typ: tMessage, oneof: true},
	})
	legacyAbSchemas[1] = legacyAbSchema(c, true, "Ab3Message", []legacyAbField{
		{num: 1, name: "f_bool", typ: tBool},
		{num: 2, name: "f_int32", typ: tInt32},
		{num: 3, name: "f_sint64", typ: tSint64},
		{num: 4, name: "f_fixed32", typ: tFixed32},
		{num: 5, name: "f_float", typ: tFloat},
		{num: 6, name: "f_double", typ: tDouble},
		{num: 7, name: "f_string", typ: tString},
		{num: 8, name: "f_bytes", typ: tBytes},
		{num: 9, name: "f_enum", typ: tEnum},
		{num: 10, name: "f_message", typ: tMessage},
		{num: 11, name: "rep_int32", typ: tInt32, rep: true},
		{num: 12, name: "rep_string", typ: tString, rep: true},
		{num: 13, name: "rep_message", typ: tMessage, rep: true},
		{num: 14, name: "map_u32_bool", rep: true, mapKV: kv{tUint32, tBool}},
		{num: 15, name: "rep_unpacked", typ: tInt64, rep: true, packed: 2},
	})
}

// clear a field everywhere it can occur (the schemas are self-recursive)
func legacyAbClear(m protoreflect.Message, num protoreflect.FieldNumber) {
	if fd := m.Descriptor().Fields().ByNumber(num); fd != nil {
		m.Clear(fd)
	}
	m.Range(func(fd protoreflect.FieldDescriptor, v protoreflect.Value) bool {
		switch {
		case fd.IsMap() && fd.MapValue().Message() != nil:
			v.Map().Range(func(_ protoreflect.MapKey, mv protoreflect.Value) bool {
				legacyAbClear(mv.Message(), num)
				return true
			})
		case fd.IsList() && fd.Message() != nil:
			for i := 0; i < v.List().Len(); i++ {
				legacyAbClear(v.List().Get(i).Message(), num)
			}
		case !fd.IsMap() && !fd.IsList() && fd.Message() != nil:
			legacyAbClear(v.Message(), num)
		}
		return true
	})
}

func legacyAbSchemaPair(c *Ctx, which int, seed uint64) {
	legacyAbSchemaSetup(c)
	md := legacyAbSchemas[which]
	if md == nil {
		return
	}
	label := []string{"aberrant/proto2 vs intended schema", "aberrant/proto3 vs intended schema"}[which]
	defer func() {
		if r := recover(); r != nil {
			c.PropFail("C46", fmt.Sprintf("panic: %v", r), label, HexN(seed))
		}
	}()
	newA := func() proto.Message {
		if which == 0 {
			return legacyV2(new(LegacyAbMessage))
		}
		return legacyV2(new(LegacyAb3Message))
	}
	a, b := newA(), dynamicpb.NewMessage(md)
	if a.ProtoReflect().Descriptor().Fields().Len() != md.Fields().Len() {
		c.PropFail("C46", "derived descriptor and intended schema have different numbers of fields", label)
		return
	}
	save := c.rng
	c.rng = seed
	legacyFill(c, a.ProtoReflect(), 2, nil)
	c.rng = seed
	legacyFill(c, b, 2, nil)
	c.rng = save
	da, db := legacyDumpStr(a), legacyDumpStr(b)
	if da != db {
		c.PropFail("C46", "same content: reflection snapshots differ", label, HexN(seed))
		return
	}
	wa, ea := legacyMO.Marshal(a)
	wb, eb := legacyMO.Marshal(b)
	if (ea == nil) != (eb == nil) {
		c.PropFail("C46", "same content: only one of the two marshals", label, HexN(seed))
		return
	}
	if ea != nil {
		return
	}
	if !bytes.Equal(wa, wb) {
		if which == 1 {
			// FJ2: rep_unpacked (field 15) is written packed by the struct-tag-only type
			legacyAbClear(a.ProtoReflect(), 15)
			legacyAbClear(b, 15)
			wa2, _ := legacyMO.Marshal(a)
			wb2, _ := legacyMO.Marshal(b)
			if bytes.Equal(wa2, wb2) && legacyDumpStr(a) == legacyDumpStr(b) {
				c.Known("FJ2", "C46", "struct-tag-only proto3 message writes its [packed=false] field packed")
				c.Stat("abschema:FJ2")
				return
			}
		}
		c.PropFail("C46", "struct-tag-only message and dynamicpb over the intended schema marshal the same content differently", label, HexN(seed))
		return
	}
	c.Stat("abschema:" + []string{"proto2", "proto3"}[which])
	if legacyMO.Size(a) != len(wa) {
		c.PropFail("C46", "Size differs from len(Marshal)", label, HexN(seed))
	}
	a2, b2 := newA(), dynamicpb.NewMessage(md)
	if legacyUO.Unmarshal(wb, a2) != nil || legacyUO.Unmarshal(wa, b2) != nil {
		c.PropFail("C46", "cross-decoding fails", label, HexN(seed))
		return
	}
	if d1, d2 := legacyDumpStr(a2), legacyDumpStr(b2); d1 != d2 || d1 != da {
		c.PropFail("C46", "cross-decoding gives different content", label, HexN(seed))
	}
}
