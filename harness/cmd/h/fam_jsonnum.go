//go:build verif

package main

// family "jsonnum": Tier T correspondence for C21 — the unexported functions of
// internal/encoding/json/decode_number.go (bound by symbol name) against their Gallina
// translation (coq/theories/Gen/JsonNumGo.v via ocaml/fam_jsonnum.ml).
//
// C lines:
//   go_isnotdelim <byte, decimal>      | 0/1
//   go_parsenum   <input bytes>        | n ok      (a panic of the real function prints "panic")
//
// P lines: parseNumber disagrees with an independent RFC 8259 number recogniser (regexp)
// followed by the delimiter rule; parseNumber panics.

import (
	"regexp"
	"strconv"
	_ "unsafe"

	_ "google.golang.org/protobuf/internal/encoding/json"
)

func init() { Register("jsonnum", famJsonnum) }

//go:linkname jsonnumParseNumber google.golang.org/protobuf/internal/encoding/json.parseNumber
func jsonnumParseNumber(input []byte) (int, bool)

//go:linkname jsonnumIsNotDelim google.golang.org/protobuf/internal/encoding/json.isNotDelim
func jsonnumIsNotDelim(c byte) bool

var jsonnumRFC = regexp.MustCompile(`^-?(0|[1-9][0-9]*)(\.[0-9]+)?([eE][+-]?[0-9]+)?`)

// jsonnumOracle is RFC 8259 "number" (longest match is what a greedy left-to-right scan
// finds, every production being deterministic) + "the next byte is not one of -+._a-zA-Z0-9".
func jsonnumOracle(in []byte) (int, bool) {
	m := jsonnumRFC.Find(in)
	if m == nil {
		return 0, false
	}
	n := len(m)
	if n < len(in) {
		c := in[n]
		if c == '-' || c == '+' || c == '.' || c == '_' || ('a' <= c && c <= 'z') || ('A' <= c && c <= 'Z') || ('0' <= c && c <= '9') {
			return 0, false
		}
	}
	return n, true
}

var jsonnumCorpus = []string{
	"", "-", "0", "-0", "1", "-1", "01", "00", "-01", "+1", "+", "1+", ".", ".5", "0.", "0.5", "1.", "1.5", "1..5",
	"1.e5", "1.5e", "1.5e+", "1.5e-", "1.5e+3", "1.5E-3", "1e5", "1E5", "1e", "1e+", "1e-", "1e,", "1e+,", "1e-]",
	"1e+x", "1ex", "1e5x", "1e5,", "1e5 ", "1e05", "0e0", "0e", "0x10", "1_000", "1,2", "1]", "1}", "1 ", "1\n", "1:",
	"12345678901234567890", "-12345678901234567890.0123456789e+0123456789", "9", "-9", "19", "10", "1a", "1A", "1-", "1.5.",
	"1.5-", "1.5_", "1.5e5.", "1.5e5e5", "-.5", "-e5", "-a", "--1", "e5", "E5", "a", "-\x00", "1\x00", "1\xff", "1.\xff",
	"0.0", "0.00e00", "0.e", "0.5e", "2.", "2.x", "2.5x", "2e+5+", "1\"", "1/", "1\\", "1[", "1{", "0,", "0]", "0}", "0 0",
	".", "1.e", "1.5e+5", "5e-", "5e- ", "5E+]", "-0.0e-0", "-0.0e-0z",
}

func jsonnumCase(c *Ctx, in []byte) {
	var n int
	var ok, panicked bool
	func() {
		defer func() {
			if r := recover(); r != nil {
				panicked = true
			}
		}()
		n, ok = jsonnumParseNumber(in)
	}()
	if panicked {
		c.Stat("parsenum/panic")
		c.PropFail("C21", "parseNumber panics", HexB(in))
		c.Case("jsonnum", "go_parsenum", []string{HexB(in)}, []string{"panic"})
		return
	}
	on, ook := jsonnumOracle(in)
	if on != n || ook != ok {
		c.PropFail("C21", "parseNumber differs from RFC 8259 number + delimiter rule: got "+strconv.Itoa(n)+"/"+strconv.FormatBool(ok)+" want "+strconv.Itoa(on)+"/"+strconv.FormatBool(ook), HexB(in))
	}
	if ok {
		c.Stat("parsenum/ok")
	} else {
		c.Stat("parsenum/reject")
	}
	b := "0"
	if ok {
		b = "1"
	}
	c.Case("jsonnum", "go_parsenum", []string{HexB(in)}, []string{strconv.Itoa(n), b})
}

// jsonnumGen builds a number-like byte string from optional parts, then damages it with
// some probability.
func jsonnumGen(c *Ctx) []byte {
	var b []byte
	digits := func(n int, first19 bool) {
		for i := 0; i < n; i++ {
			d := byte('0' + c.Intn(10))
			if i == 0 && first19 && d == '0' {
				d = '1' + byte(c.Intn(9))
			}
			b = append(b, d)
		}
	}
	if c.Intn(3) == 0 {
		b = append(b, '-')
	}
	switch c.Intn(8) {
	case 0:
		b = append(b, '0')
	case 1: // leading zeros
		b = append(b, '0')
		digits(1+c.Intn(3), false)
	case 2: // no integer part
	default:
		digits(1+c.Intn(6), true)
	}
	if c.Intn(2) == 0 {
		b = append(b, '.')
		if c.Intn(8) != 0 {
			digits(1+c.Intn(5), false)
		}
	}
	if c.Intn(2) == 0 {
		b = append(b, "eE"[c.Intn(2)])
		switch c.Intn(4) {
		case 0:
			b = append(b, '+')
		case 1:
			b = append(b, '-')
		}
		if c.Intn(6) != 0 {
			digits(1+c.Intn(4), false)
		}
	}
	// what follows the number
	const tails = ",]} \n\t:\"-+._aZ09e.Ex\x00\xff/["
	switch c.Intn(4) {
	case 0:
	case 1:
		b = append(b, tails[c.Intn(len(tails))])
	default:
		b = append(b, tails[c.Intn(len(tails))])
		b = append(b, c.Bytes(c.Intn(3))...)
	}
	// damage
	if len(b) > 0 && c.Intn(4) == 0 {
		const alphabet = "-+.eE0123456789,] x_"
		i := c.Intn(len(b))
		switch c.Intn(3) {
		case 0:
			b[i] = alphabet[c.Intn(len(alphabet))]
		case 1:
			b = append(b[:i], b[i+1:]...)
		default:
			b = append(b[:i+1], b[i:]...)
			b[i] = alphabet[c.Intn(len(alphabet))]
		}
	}
	return b
}

func famJsonnum(c *Ctx) {
	for i := 0; i < 256; i++ {
		b := "0"
		if jsonnumIsNotDelim(byte(i)) {
			b = "1"
		}
		c.Case("jsonnum", "go_isnotdelim", []string{strconv.Itoa(i)}, []string{b})
	}
	for _, s := range jsonnumCorpus {
		jsonnumCase(c, []byte(s))
	}
	c.Sample("parseNumber(\"-1.5e+3]\") corpus + generated number-like strings with damaged bytes")
	for i := 0; i < c.N; i++ {
		if c.Intn(10) == 0 {
			const alphabet = "-+.eE0123456789,] x"
			n := c.Intn(8)
			b := make([]byte, n)
			for j := range b {
				b[j] = alphabet[c.Intn(len(alphabet))]
			}
			c.Stat("gen/soup")
			jsonnumCase(c, b)
			continue
		}
		c.Stat("gen/structured")
		jsonnumCase(c, jsonnumGen(c))
	}
}
