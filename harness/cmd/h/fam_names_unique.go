//go:build verif

package main

import (
	"fmt"
	"sort"
	"strings"

	"google.golang.org/protobuf/compiler/protogen"
	"google.golang.org/protobuf/internal/strs"
	"google.golang.org/protobuf/proto"
	"google.golang.org/protobuf/types/descriptorpb"
	"google.golang.org/protobuf/types/pluginpb"
)

// makeNameUnique is a closure inside protogen.newMessage; it is driven through
// the public API: a CodeGeneratorRequest with one message is handed to
// protogen.Options.New and the resulting Go names are read back.
//
//   unique <oneof names|-> <field:oneofIndex|field:->...  |  <field GoNames> <oneof GoNames|->

type namesMsg struct {
	fields  []string
	oneofOf []int // -1 = none; index into oneofs
	oneofs  []string
	synth   []bool // oneof is synthetic (proto3 optional)
	nested  []string
	enums   []string   // nested enum names
	values  [][]string // values per nested enum
	proto3  bool
}

func (m *namesMsg) String() string {
	var fs []string
	for i, f := range m.fields {
		if m.oneofOf[i] >= 0 {
			fs = append(fs, fmt.Sprintf("%s@%s", f, m.oneofs[m.oneofOf[i]]))
		} else {
			fs = append(fs, f)
		}
	}
	return fmt.Sprintf("fields=%v nested=%v enums=%v%v", fs, m.nested, m.enums, m.values)
}

func namesBuildRequest(m *namesMsg, param string) *pluginpb.CodeGeneratorRequest {
	msg := &descriptorpb.DescriptorProto{Name: proto.String("M")}
	for i, f := range m.fields {
		fd := &descriptorpb.FieldDescriptorProto{
			Name:   proto.String(f),
			Number: proto.Int32(int32(i + 1)),
			Label:  descriptorpb.FieldDescriptorProto_LABEL_OPTIONAL.Enum(),
			Type:   descriptorpb.FieldDescriptorProto_TYPE_INT32.Enum(),
		}
		if k := m.oneofOf[i]; k >= 0 {
			fd.OneofIndex = proto.Int32(int32(k))
			if m.synth[k] {
				fd.Proto3Optional = proto.Bool(true)
			}
		}
		msg.Field = append(msg.Field, fd)
	}
	for _, o := range m.oneofs {
		msg.OneofDecl = append(msg.OneofDecl, &descriptorpb.OneofDescriptorProto{Name: proto.String(o)})
	}
	for _, n := range m.nested {
		msg.NestedType = append(msg.NestedType, &descriptorpb.DescriptorProto{Name: proto.String(n)})
	}
	for i, e := range m.enums {
		ed := &descriptorpb.EnumDescriptorProto{Name: proto.String(e)}
		for j, v := range m.values[i] {
			ed.Value = append(ed.Value, &descriptorpb.EnumValueDescriptorProto{Name: proto.String(v), Number: proto.Int32(int32(j))})
		}
		msg.EnumType = append(msg.EnumType, ed)
	}
	syntax := "proto2"
	if m.proto3 {
		syntax = "proto3"
	}
	fdp := &descriptorpb.FileDescriptorProto{
		Name:        proto.String("t.proto"),
		Package:     proto.String("p"),
		Syntax:      proto.String(syntax),
		Options:     &descriptorpb.FileOptions{GoPackage: proto.String("example.com/p")},
		MessageType: []*descriptorpb.DescriptorProto{msg},
	}
	req := &pluginpb.CodeGeneratorRequest{
		FileToGenerate: []string{"t.proto"},
		ProtoFile:      []*descriptorpb.FileDescriptorProto{fdp},
	}
	if param != "" {
		req.Parameter = proto.String(param)
	}
	return req
}

func namesJoin(l []string) string {
	if len(l) == 0 {
		return "-"
	}
	return strings.Join(l, ",")
}

// dups returns the identifiers that occur more than once in roles (name -> role list).
func namesDups(roles map[string][]string) []string {
	var d []string
	for k, v := range roles {
		if len(v) > 1 {
			d = append(d, k)
		}
	}
	sort.Strings(d)
	return d
}

// namesRunMessage builds the message, observes the Go names and evaluates the
// property's predicate.  Returns false when the descriptor was rejected.
func namesRunMessage(c *Ctx, m *namesMsg) bool {
	gen, err := protogen.Options{}.New(namesBuildRequest(m, ""))
	if err != nil {
		c.Stat("unique_rejected")
		return false
	}
	pm := gen.Files[0].Messages[0]
	var ins, fgo, ogo []string
	ins = append(ins, namesJoin(m.oneofs))
	for i, f := range m.fields {
		if m.oneofOf[i] >= 0 {
			ins = append(ins, fmt.Sprintf("%s:%d", f, m.oneofOf[i]))
		} else {
			ins = append(ins, f+":-")
		}
	}
	for _, f := range pm.Fields {
		fgo = append(fgo, f.GoName)
	}
	for _, o := range pm.Oneofs {
		ogo = append(ogo, o.GoName)
	}

	// ---- the property's predicate on the implementation (open API) ----
	// identifiers in the scope of the generated struct type: struct fields and methods
	roles := map[string][]string{}
	add := func(name, role string) { roles[name] = append(roles[name], role) }
	for _, b := range []string{"Reset", "String", "ProtoMessage", "ProtoReflect", "Descriptor"} {
		add(b, "method:"+b)
	}
	for _, f := range pm.Fields {
		if f.Oneof == nil || f.Oneof.Desc.IsSynthetic() {
			add(f.GoName, "field:"+string(f.Desc.Name()))
		}
		add("Get"+f.GoName, "getter:"+string(f.Desc.Name()))
	}
	for _, o := range pm.Oneofs {
		if !o.Desc.IsSynthetic() {
			add(o.GoName, "oneof:"+string(o.Desc.Name()))
			add("Get"+o.GoName, "oneofgetter:"+string(o.Desc.Name()))
		}
	}
	// the theorem's side condition (C42_names_distinct_iff): no oneof's getter
	// name is also the Go name of a field or oneof
	allNames := map[string]bool{}
	for _, f := range pm.Fields {
		allNames[f.GoName] = true
	}
	for _, o := range pm.Oneofs {
		allNames[o.GoName] = true
	}
	getterFree := true
	for _, o := range pm.Oneofs {
		if allNames["Get"+o.GoName] {
			getterFree = false
		}
	}
	dups := namesDups(roles)
	nodup := "1"
	for _, d := range dups {
		r := strings.Join(roles[d], "+")
		switch {
		case strings.Contains(r, "method:ProtoReflect"):
			c.Stat("unique_dup_protoreflect")
			c.Known("FH1", "C42", "field named ProtoReflect: struct field and method ProtoReflect() of the same type ("+r+")")
		case !getterFree:
			c.Stat("unique_dup_F12")
			c.Known("F12", "C42", "a oneof's getter name is also a Go name: "+d+" ("+r+")")
		default:
			c.PropFail("C42", "duplicate identifier "+d+" in generated message ("+r+")", m.String())
		}
		nodup = "0"
	}
	gf := "1"
	if !getterFree {
		gf = "0"
		c.Stat("unique_not_getter_free")
	}
	_ = nodup
	c.Case("names", "unique", ins, []string{namesJoin(fgo), namesJoin(ogo), gf})
	c.Stat("unique_ok")
	if len(m.oneofs) > 0 {
		c.Stat("unique_with_oneofs")
	}
	renamed := false
	for _, f := range pm.Fields {
		if strings.HasSuffix(f.GoName, "_") && !strings.HasSuffix(string(f.Desc.Name()), "_") {
			renamed = true
		}
	}
	if renamed {
		c.Stat("unique_renamed")
	}

	// ---- package-level identifiers derived from the message ----
	proles := map[string][]string{}
	padd := func(name, role string) { proles[name] = append(proles[name], role) }
	for _, n := range pm.Messages {
		padd(n.GoIdent.GoName, "nestedmsg")
	}
	for _, e := range pm.Enums {
		padd(e.GoIdent.GoName, "nestedenum")
		for _, v := range e.Values {
			padd(v.GoIdent.GoName, "enumvalue")
		}
	}
	var wraps, members []string
	for _, f := range pm.Fields {
		if f.Oneof != nil && !f.Oneof.Desc.IsSynthetic() {
			padd(f.GoIdent.GoName, "oneofwrapper:"+string(f.Desc.Name()))
			wraps = append(wraps, f.GoIdent.GoName)
			members = append(members, f.GoName)
		}
	}
	for _, d := range namesDups(proles) {
		r := strings.Join(proles[d], "+")
		onlyWrapVal := true
		for _, x := range proles[d] {
			if x == "nestedmsg" || x == "nestedenum" {
				onlyWrapVal = false
			}
		}
		nw := strings.Count(r, "oneofwrapper:")
		switch {
		case onlyWrapVal && nw >= 1:
			// documented in newMessage as incomplete: wrapper types are only
			// compared with nested messages and enums
			c.Stat("unique_dup_wrapper")
			c.Known("FH2", "C42", "oneof wrapper type name collides with another wrapper or an enum value: "+d+" ("+r+")")
		default:
			c.PropFail("C42", "duplicate package-level identifier "+d+" ("+r+")", m.String())
		}
	}
	if len(pm.Messages)+len(pm.Enums) > 0 && len(wraps) > 0 {
		var taken []string
		for _, n := range pm.Messages {
			taken = append(taken, n.GoIdent.GoName)
		}
		for _, e := range pm.Enums {
			taken = append(taken, e.GoIdent.GoName)
		}
		// wrap <message Go name> <nested message and enum Go identifiers> <Go names of oneof members> | <wrapper type names>
		c.Case("names", "wrap", []string{pm.GoIdent.GoName, namesJoin(taken), namesJoin(members)}, []string{namesJoin(wraps)})
	}
	return true
}

var namesBases = []string{"x", "y", "foo"}
var namesForms = []func(b, B string) string{
	func(b, B string) string { return b },
	func(b, B string) string { return B },
	func(b, B string) string { return "_" + b },
	func(b, B string) string { return b + "_" },
	func(b, B string) string { return b + "__" },
	func(b, B string) string { return "get_" + b },
	func(b, B string) string { return "Get_" + b },
	func(b, B string) string { return "get" + B },
	func(b, B string) string { return "Get" + B },
	func(b, B string) string { return "get_get_" + b },
	func(b, B string) string { return "getGet" + B },
	func(b, B string) string { return "get_" + b + "_" },
	func(b, B string) string { return "Get" + B + "_" },
	func(b, B string) string { return "set_" + b },
	func(b, B string) string { return "has_" + b },
	func(b, B string) string { return "clear_" + b },
	func(b, B string) string { return "which_" + b },
	func(b, B string) string { return "x_" + b },
	func(b, B string) string { return "X" + B },
	func(b, B string) string { return b + "_1" },
	func(b, B string) string { return B + "1" },
	func(b, B string) string { return "x_" + b + "_2" },
	func(b, B string) string { return "X" + B + "_3" },
	func(b, B string) string { return "_" + b + "_1" },
}
var namesSpecial = []string{
	"reset", "Reset", "string", "String", "proto_message", "ProtoMessage", "descriptor", "Descriptor", "marshal", "Marshal",
	"unmarshal", "extension_map", "ExtensionMap", "extension_range_array", "get_reset", "get_string", "reset_", "string_",
	"XXX_unrecognized", "xxx_sizecache", "build", "Build", "get_build", "state", "size_cache", "unknown_fields",
	"get", "Get", "get_", "set", "has", "clear", "which", "proto_reflect_", "getDescriptor", "proto_reflect", "ProtoReflect",
}

func namesRandName(c *Ctx) string {
	if c.Intn(5) == 0 {
		return namesSpecial[c.Intn(len(namesSpecial))]
	}
	b := namesBases[c.Intn(len(namesBases))]
	if c.Intn(3) > 0 {
		b = namesBases[0] // concentrate on one base so that names collide
	}
	B := strings.ToUpper(b[:1]) + b[1:]
	return namesForms[c.Intn(len(namesForms))](b, B)
}

func namesRandMsg(c *Ctx) *namesMsg {
	m := &namesMsg{}
	used := map[string]bool{}
	fresh := func() string {
		for i := 0; i < 20; i++ {
			n := namesRandName(c)
			if !used[n] {
				used[n] = true
				return n
			}
		}
		n := fmt.Sprintf("f%d", len(used))
		used[n] = true
		return n
	}
	nf := 1 + c.Intn(7)
	no := 0
	switch c.Intn(4) {
	case 0:
	case 1:
		no = 1
	default:
		no = c.Intn(4)
	}
	m.proto3 = c.Intn(4) == 0
	for i := 0; i < no; i++ {
		m.oneofs = append(m.oneofs, fresh())
		m.synth = append(m.synth, false)
	}
	for i := 0; i < nf; i++ {
		m.fields = append(m.fields, fresh())
		k := -1
		if no > 0 && c.Intn(2) == 0 {
			k = c.Intn(no)
		}
		m.oneofOf = append(m.oneofOf, k)
	}
	// every oneof needs a member
	for k := 0; k < no; k++ {
		has := false
		for _, o := range m.oneofOf {
			if o == k {
				has = true
			}
		}
		if !has {
			m.fields = append(m.fields, fresh())
			m.oneofOf = append(m.oneofOf, k)
		}
	}
	// proto3 optional: a synthetic oneof "_<field>" after the real ones
	if m.proto3 {
		for i := range m.fields {
			if m.oneofOf[i] < 0 && c.Intn(2) == 0 {
				n := "_" + m.fields[i]
				if used[n] {
					continue
				}
				used[n] = true
				m.oneofs = append(m.oneofs, n)
				m.synth = append(m.synth, true)
				m.oneofOf[i] = len(m.oneofs) - 1
			}
		}
	}
	if c.Intn(3) == 0 {
		// nested declarations whose Go identifiers are distinct among themselves:
		// the property quantifies over field (and oneof) names only
		goUsed := map[string]bool{}
		freshDecl := func() string {
			for i := 0; i < 20; i++ {
				n := namesRandName(c)
				g := strs.GoCamelCase("M." + n)
				if !used[n] && !goUsed[g] {
					used[n], goUsed[g] = true, true
					return n
				}
			}
			n := fmt.Sprintf("D%d", len(used))
			used[n] = true
			return n
		}
		for i, n := 0, c.Intn(3); i < n; i++ {
			m.nested = append(m.nested, freshDecl())
		}
		for i, n := 0, c.Intn(3); i < n; i++ {
			m.enums = append(m.enums, freshDecl())
			var vs []string
			for j, k := 0, 1+c.Intn(2); j < k; j++ {
				vs = append(vs, freshDecl())
			}
			m.values = append(m.values, vs)
		}
	}
	return m
}

// namesOpaque: the same message under default_api_level=API_OPAQUE.  Methods of the
// message type (accessors by Field.MethodName / Oneof.MethodName, base methods) and the
// fields of the builder struct must be pairwise distinct.  P lines only (the opaque
// resolver, protogen_opaque.go, is not modelled in Coq).
func namesOpaque(c *Ctx, m *namesMsg) {
	gen, err := protogen.Options{}.New(namesBuildRequest(m, "default_api_level=API_OPAQUE"))
	if err != nil {
		return
	}
	pm := gen.Files[0].Messages[0]
	roles := map[string][]string{}
	add := func(name, role string) {
		if name != "" {
			roles[name] = append(roles[name], role)
		}
	}
	for _, b := range []string{"Reset", "String", "ProtoMessage", "ProtoReflect"} {
		add(b, "method:"+b)
	}
	broles := map[string][]string{"Build": {"method:Build"}}
	suffixed := map[string]bool{} // fields renamed by resolveCamelCaseConflicts
	for _, f := range pm.Fields {
		ms := []string{"Get", "Set"}
		if f.Desc.HasPresence() {
			ms = append(ms, "Has", "Clear")
		}
		for _, meth := range ms {
			n, compat := f.MethodName(meth)
			add(n, meth+":"+string(f.Desc.Name()))
			add(compat, meth+"compat:"+string(f.Desc.Name()))
		}
		bn := f.BuilderFieldName()
		broles[bn] = append(broles[bn], "builder:"+string(f.Desc.Name()))
		if strings.HasSuffix(bn, fmt.Sprintf("_%d", f.Desc.Number())) && bn != strs.GoCamelCase(string(f.Desc.Name())) {
			suffixed[string(f.Desc.Name())] = true
			if f.Oneof != nil {
				suffixed[string(f.Oneof.Desc.Name())] = true // resolveCamelCaseConflict suffixes the oneof as well
			}
		}
	}
	for _, o := range pm.Oneofs {
		if o.Desc.IsSynthetic() {
			continue
		}
		for _, meth := range []string{"Has", "Clear", "Which"} {
			add(o.MethodName(meth), "oneof"+meth+":"+string(o.Desc.Name()))
		}
	}
	report := func(kind string, rl map[string][]string) {
		for _, d := range namesDups(rl) {
			r := strings.Join(rl[d], "+")
			f18 := false
			for _, x := range rl[d] {
				if i := strings.Index(x, ":"); i >= 0 && suffixed[x[i+1:]] {
					f18 = true
				}
			}
			// FH5: a oneof and another oneof or field with the same camel-cased name
			// (only field/field collisions get a _<number> suffix)
			f19, hasOneof, camel := true, false, ""
			for _, x := range rl[d] {
				i := strings.Index(x, ":")
				if i < 0 || strings.HasPrefix(x, "method:") {
					f19 = false
					break
				}
				if strings.HasPrefix(x, "oneof") {
					hasOneof = true
				}
				cc := strs.GoCamelCase(x[i+1:])
				if camel != "" && cc != camel {
					f19 = false
				}
				camel = cc
			}
			if f19 && hasOneof && !f18 {
				c.Stat("opaque_dup_F19")
				c.Known("FH5", "C42", "opaque API: a oneof and another oneof or field have the same camel-cased name: "+d+" ("+r+")")
				continue
			}
			if f18 {
				c.Stat("opaque_dup_F18")
				c.Known("FH4", "C42", "opaque API: the _<number> suffix of resolveCamelCaseConflicts collides with another field: "+d+" ("+r+")")
			} else {
				c.PropFail("C42", "opaque API: duplicate "+kind+" "+d+" ("+r+")", m.String())
			}
		}
	}
	report("method", roles)
	report("builder field", broles)
	c.Stat("opaque_checked")
}

// namesHybridModel: the same message under default_api_level=API_HYBRID; observes what
// protogen_opaque.go computed (Field.camelCase via BuilderFieldName, hasConflictHybrid via
// the "_" infix of MethodName) for comparison with CodeGen/OpaqueModel.v.
//   opaque <oneof names|-> <field:number:oneofIndex|-:presence>... | <camelCase> <conflict flags> <oneof camelCase> <oneof conflict flags>
func namesHybridModel(c *Ctx, m *namesMsg) {
	gen, err := protogen.Options{}.New(namesBuildRequest(m, "default_api_level=API_HYBRID"))
	if err != nil {
		return
	}
	pm := gen.Files[0].Messages[0]
	ins := []string{namesJoin(m.oneofs)}
	var cams, ocams []string
	flags, oflags := "", ""
	for i, f := range pm.Fields {
		k := "-"
		if m.oneofOf[i] >= 0 {
			k = fmt.Sprint(m.oneofOf[i])
		}
		ins = append(ins, fmt.Sprintf("%s:%d:%s:%s", m.fields[i], f.Desc.Number(), k, Tok(f.Desc.HasPresence())))
		bn := f.BuilderFieldName()
		cams = append(cams, bn)
		set, _ := f.MethodName("Set")
		switch set {
		case "Set" + bn:
			flags += "0"
		case "Set_" + bn:
			flags += "1"
		default:
			flags += "?"
		}
	}
	for _, o := range pm.Oneofs {
		h := strings.TrimPrefix(o.MethodName("Has"), "Has")
		if strings.HasPrefix(h, "_") {
			oflags += "1"
			h = h[1:]
		} else {
			oflags += "0"
		}
		ocams = append(ocams, h)
	}
	if oflags == "" {
		oflags = "-"
	}
	c.Case("names", "opaque", ins, []string{namesJoin(cams), flags, namesJoin(ocams), oflags})
	if strings.Contains(flags, "1") || strings.Contains(oflags, "1") {
		c.Stat("hybrid_conflict_infix")
	}
}

func namesMk(fields []string, oneofOf []int, oneofs []string) *namesMsg {
	return &namesMsg{fields: fields, oneofOf: oneofOf, oneofs: oneofs, synth: make([]bool, len(oneofs))}
}

func namesUniqueCorpus(c *Ctx) {
	corpus := []*namesMsg{
		// F12: struct field GetY and the oneof getter GetY()
		namesMk([]string{"get_y", "a"}, []int{-1, 0}, []string{"y"}),
		// erasure: usedNames["GetY"] = false forgets the field GetY; the later oneof getY is named GetY again
		namesMk([]string{"get_y", "a", "b"}, []int{-1, 0, 1}, []string{"y", "getY"}),
		// a chain of erasures ends in two *fields* with the same Go name
		namesMk([]string{"get_get_v", "a", "b", "c", "d", "getGetV"}, []int{-1, 0, 1, 2, 3, -1},
			[]string{"get_v", "Get_get_v", "v", "getV"}),
		namesMk([]string{"x", "X", "get_x", "GetX", "x_"}, []int{-1, -1, -1, -1, -1}, nil),
		namesMk([]string{"reset", "string", "proto_message", "descriptor", "marshal", "get_reset", "Reset"}, []int{-1, -1, -1, -1, -1, -1, -1}, nil),
		namesMk([]string{"_x", "X_x", "xx"}, []int{-1, -1, -1}, nil),
		// FH1: ProtoReflect is a method of every message but not a reserved name
		namesMk([]string{"proto_reflect"}, []int{-1}, nil),
		namesMk([]string{"a", "b"}, []int{0, 0}, []string{"reset"}),
		namesMk([]string{"a", "b", "get_o"}, []int{0, 0, -1}, []string{"o"}),
		namesMk([]string{"get_o", "a", "b"}, []int{-1, 0, 0}, []string{"o"}),
		{fields: []string{"foo", "foo_"}, oneofOf: []int{0, 0}, oneofs: []string{"o"}, synth: []bool{false}, nested: []string{"Foo"}},
		{fields: []string{"foo"}, oneofOf: []int{0}, oneofs: []string{"o"}, synth: []bool{false}, enums: []string{"E"}, values: [][]string{{"Foo"}}},
	}
	corpus = append(corpus,
		// FH4: _foo and X_foo get the suffixes _1 and _2; x_foo_2 is XFoo_2 already
		namesMk([]string{"_foo", "X_foo", "x_foo_2"}, []int{-1, -1, -1}, nil),
		namesMk([]string{"_foo", "X_foo", "XFoo"}, []int{-1, -1, -1}, nil),
		namesMk([]string{"build", "Build", "build_"}, []int{-1, -1, -1}, nil),
		namesMk([]string{"foo", "set_foo", "has_foo", "clear_foo", "get_foo", "a", "which_o", "has_o", "clear_o"}, []int{-1, -1, -1, -1, -1, 0, -1, -1, -1}, []string{"o"}))
	for _, m := range corpus {
		if !namesRunMessage(c, m) {
			c.PropFail("C42", "corpus message rejected by protogen", m.String())
		}
		namesOpaque(c, m)
		namesHybridModel(c, m)
	}
}

func namesUniqueRandom(c *Ctx, n int) {
	for i := 0; i < n; i++ {
		m := namesRandMsg(c)
		if namesRunMessage(c, m) {
			namesOpaque(c, m)
			namesHybridModel(c, m)
		}
	}
}
