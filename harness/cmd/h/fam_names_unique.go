//go:build verif

package main

func namesUnique(c *Ctx) {}
