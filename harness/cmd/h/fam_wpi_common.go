//go:build verif

package main

// Shared helpers of the families delim / range / nil (work package I):
// random population of arbitrary generated messages through protoreflect.

import (
	"fmt"
	"math"
	"sort"

	"google.golang.org/protobuf/encoding/protowire"
	"google.golang.org/protobuf/internal/encoding/messageset"
	"google.golang.org/protobuf/proto"
	"google.golang.org/protobuf/reflect/protoreflect"
	"google.golang.org/protobuf/reflect/protoregistry"
	"google.golang.org/protobuf/types/known/anypb"
)

type wpiGen struct {
	c *Ctx
	// probability (percent) that a field is populated
	fill int
	// maximum nesting depth of populated sub-messages
	depth int
	// candidate message types packed into google.protobuf.Any values
	anyTypes []protoreflect.MessageType
	// percentage of Any values whose type URL is unresolvable / body malformed
	anyBad int
	// add unknown fields
	unknown bool
	// populate extensions
	ext bool
}

var wpiStrings = []string{"", "a", "hello", "é", "世界", "\U0001F600", "x y", "0", "\x00", "tab\tnl\n"}

func (g *wpiGen) str() string {
	c := g.c
	if c.Intn(3) > 0 {
		return wpiStrings[c.Intn(len(wpiStrings))]
	}
	n := c.Intn(12)
	b := make([]rune, n)
	for i := range b {
		switch c.Intn(4) {
		case 0:
			b[i] = rune(0x20 + c.Intn(0x5f))
		case 1:
			b[i] = rune(0xa0 + c.Intn(0x700))
		case 2:
			b[i] = rune(0x800 + c.Intn(0xd000-0x800))
		default:
			b[i] = rune(0x10000 + c.Intn(0x1000))
		}
	}
	return string(b)
}

func (g *wpiGen) i64() int64 {
	c := g.c
	switch c.Intn(6) {
	case 0:
		return 0
	case 1:
		return int64(c.Intn(256)) - 128
	case 2:
		return math.MaxInt64
	case 3:
		return math.MinInt64
	default:
		return int64(c.U64() >> uint(c.Intn(64)))
	}
}

func (g *wpiGen) f64() float64 {
	c := g.c
	switch c.Intn(8) {
	case 0:
		return 0
	case 1:
		return math.Copysign(0, -1)
	case 2:
		return math.Inf(1)
	case 3:
		return math.NaN()
	case 4:
		return float64(c.Intn(1000)) / 8
	default:
		return math.Float64frombits(c.U64())
	}
}

// scalar returns a random value for a non-message, non-group kind.
func (g *wpiGen) scalar(fd protoreflect.FieldDescriptor) protoreflect.Value {
	c := g.c
	switch fd.Kind() {
	case protoreflect.BoolKind:
		return protoreflect.ValueOfBool(c.Bool())
	case protoreflect.EnumKind:
		vs := fd.Enum().Values()
		n := vs.Get(c.Intn(vs.Len())).Number()
		if !fd.Enum().IsClosed() && c.Intn(8) == 0 {
			n = protoreflect.EnumNumber(int32(c.Intn(2000)) - 1000)
		}
		return protoreflect.ValueOfEnum(n)
	case protoreflect.Int32Kind, protoreflect.Sint32Kind, protoreflect.Sfixed32Kind:
		return protoreflect.ValueOfInt32(int32(g.i64()))
	case protoreflect.Uint32Kind, protoreflect.Fixed32Kind:
		return protoreflect.ValueOfUint32(uint32(g.i64()))
	case protoreflect.Int64Kind, protoreflect.Sint64Kind, protoreflect.Sfixed64Kind:
		return protoreflect.ValueOfInt64(g.i64())
	case protoreflect.Uint64Kind, protoreflect.Fixed64Kind:
		return protoreflect.ValueOfUint64(uint64(g.i64()))
	case protoreflect.FloatKind:
		return protoreflect.ValueOfFloat32(float32(g.f64()))
	case protoreflect.DoubleKind:
		return protoreflect.ValueOfFloat64(g.f64())
	case protoreflect.StringKind:
		return protoreflect.ValueOfString(g.str())
	case protoreflect.BytesKind:
		return protoreflect.ValueOfBytes(c.Bytes(c.Intn(10)))
	}
	panic("wpiGen.scalar: " + fd.Kind().String())
}

func (g *wpiGen) unknownBytes() []byte {
	c := g.c
	var b []byte
	for i, k := 0, 1+c.Intn(3); i < k; i++ {
		num := protowire.Number(536870000 + c.Intn(900))
		switch c.Intn(4) {
		case 0:
			b = protowire.AppendTag(b, num, protowire.VarintType)
			b = protowire.AppendVarint(b, c.U64()>>uint(c.Intn(64)))
		case 1:
			b = protowire.AppendTag(b, num, protowire.Fixed32Type)
			b = protowire.AppendFixed32(b, uint32(c.U64()))
		case 2:
			b = protowire.AppendTag(b, num, protowire.BytesType)
			b = protowire.AppendBytes(b, c.Bytes(c.Intn(6)))
		default:
			b = protowire.AppendTag(b, num, protowire.StartGroupType)
			b = protowire.AppendTag(b, 1, protowire.VarintType)
			b = protowire.AppendVarint(b, uint64(c.Intn(300)))
			b = protowire.AppendTag(b, num, protowire.EndGroupType)
		}
	}
	return b
}

// fill populates m (which must be empty and mutable).
func (g *wpiGen) fillMsg(m protoreflect.Message, depth int) {
	c := g.c
	md := m.Descriptor()
	if md.FullName() == "google.protobuf.Any" && len(g.anyTypes) > 0 && depth > 0 {
		g.fillAny(m, depth)
		return
	}
	fds := md.Fields()
	for i := 0; i < fds.Len(); i++ {
		fd := fds.Get(i)
		if fd.Cardinality() != protoreflect.Required && c.Intn(100) >= g.fill {
			continue
		}
		g.fillField(m, fd, depth)
	}
	if g.ext && md.ExtensionRanges().Len() > 0 && !messageset.IsMessageSet(md) {
		var xts []protoreflect.ExtensionType
		protoregistry.GlobalTypes.RangeExtensionsByMessage(md.FullName(), func(xt protoreflect.ExtensionType) bool {
			xts = append(xts, xt)
			return true
		})
		sort.Slice(xts, func(i, j int) bool { return xts[i].TypeDescriptor().Number() < xts[j].TypeDescriptor().Number() })
		for _, xt := range xts {
			if c.Intn(100) < g.fill/2 {
				g.fillField(m, xt.TypeDescriptor(), depth)
			}
		}
	}
	if g.unknown && c.Intn(4) == 0 {
		m.SetUnknown(g.unknownBytes())
	}
}

func (g *wpiGen) fillAny(m protoreflect.Message, depth int) {
	c := g.c
	fds := m.Descriptor().Fields()
	mt := g.anyTypes[c.Intn(len(g.anyTypes))]
	inner := mt.New()
	g.fillMsg(inner, depth-1)
	b, err := proto.MarshalOptions{AllowPartial: true, Deterministic: true}.Marshal(inner.Interface())
	if err != nil {
		b = nil
	}
	url := "type.googleapis.com/" + string(mt.Descriptor().FullName())
	if c.Intn(100) < g.anyBad {
		switch c.Intn(3) {
		case 0:
			url = "type.googleapis.com/no.such.Type"
		case 1:
			b = append(b, 0xff) // truncated tag: the body does not unmarshal
		default:
			url = ""
		}
	}
	if url != "" || c.Bool() {
		m.Set(fds.ByNumber(1), protoreflect.ValueOfString(url))
	}
	if len(b) > 0 || c.Bool() {
		m.Set(fds.ByNumber(2), protoreflect.ValueOfBytes(b))
	}
	if g.unknown && c.Intn(6) == 0 {
		m.SetUnknown(g.unknownBytes())
	}
}

func (g *wpiGen) fillField(m protoreflect.Message, fd protoreflect.FieldDescriptor, depth int) {
	c := g.c
	isMsg := fd.Message() != nil && !fd.IsMap()
	switch {
	case fd.IsMap():
		vd := fd.MapValue()
		if vd.Message() != nil && depth <= 0 {
			return
		}
		mp := m.Mutable(fd).Map()
		for i, k := 0, c.Intn(4); i < k; i++ {
			key := g.scalar(fd.MapKey()).MapKey()
			if vd.Message() != nil {
				v := mp.NewValue()
				g.fillMsg(v.Message(), depth-1)
				mp.Set(key, v)
			} else {
				mp.Set(key, g.scalar(vd))
			}
		}
	case fd.IsList():
		if isMsg && depth <= 0 {
			return
		}
		ls := m.Mutable(fd).List()
		for i, k := 0, c.Intn(4); i < k; i++ {
			if isMsg {
				v := ls.NewElement()
				g.fillMsg(v.Message(), depth-1)
				ls.Append(v)
			} else {
				ls.Append(g.scalar(fd))
			}
		}
	case isMsg:
		if depth <= 0 {
			if fd.Cardinality() == protoreflect.Required {
				m.Mutable(fd) // present but empty
			}
			return
		}
		g.fillMsg(m.Mutable(fd).Message(), depth-1)
	default:
		m.Set(fd, g.scalar(fd))
	}
}

func (g *wpiGen) message(mt protoreflect.MessageType) proto.Message {
	m := mt.New()
	g.fillMsg(m, g.depth)
	return m.Interface()
}

var _ = anypb.New
var _ = fmt.Sprint
