//go:build verif

package main

// family "dval" (C35), part 3: targeted invalidity injections (one per definite-error class of
// the property text) and random/adversarial edits, both on the small AST.

import (
	"strings"
)

type dvalInjection struct {
	Class string
	// needAllowOff: the error is definite only when AllowUnresolvable is off
	NeedAllowOff bool
	Apply        func(c *Ctx, f *dvalFile) bool
}

func dvalPickMsg(c *Ctx, f *dvalFile, pred func(m *dvalMsg) bool) (*dvalMsg, string) {
	var cands []dvalMsgRef
	for _, mr := range dvalAllMsgs(f) {
		if pred(mr.M) {
			cands = append(cands, mr)
		}
	}
	if len(cands) == 0 {
		return nil, ""
	}
	r := cands[c.Intn(len(cands))]
	return r.M, r.Full
}
func dvalPickEnum(c *Ctx, f *dvalFile, pred func(e *dvalEnum) bool) *dvalEnum {
	var cands []*dvalEnum
	for _, er := range dvalAllEnums(f) {
		if pred(er.E) {
			cands = append(cands, er.E)
		}
	}
	if len(cands) == 0 {
		return nil
	}
	return cands[c.Intn(len(cands))]
}
func dvalMaxNum(m *dvalMsg) int32 {
	mx := int32(0)
	for _, fl := range m.Fields {
		if fl.Num > mx && fl.Num < 100000 {
			mx = fl.Num
		}
	}
	for _, r := range append(append([]dvalRange{}, m.ResRanges...), m.ExtRanges...) {
		if r.E > mx && r.E < 100000 {
			mx = r.E
		}
	}
	return mx
}
func dvalHasFields(m *dvalMsg) bool  { return len(m.Fields) > 0 && !m.MapEntry }
func dvalNotEntry(m *dvalMsg) bool   { return !m.MapEntry }
func dvalPlainField(f *dvalField) bool { return f.Oneof == nil && f.Type != 10 && f.Type != 11 }

// addField appends a plain int32 field at the FRONT (keeps oneof members consecutive).
func dvalAddField(m *dvalMsg, name string, num int32) *dvalField {
	m.Fields = append([]dvalField{{Name: name, Num: num, Label: 1, Type: 5}}, m.Fields...)
	return &m.Fields[0]
}

var dvalInjections = []dvalInjection{
	{"dup-field-name", false, func(c *Ctx, f *dvalFile) bool {
		m, _ := dvalPickMsg(c, f, dvalHasFields)
		if m == nil {
			return false
		}
		dvalAddField(m, m.Fields[c.Intn(len(m.Fields))].Name, dvalMaxNum(m)+100)
		return true
	}},
	{"dup-message-name", false, func(c *Ctx, f *dvalFile) bool {
		f.Msgs = append(f.Msgs, dvalMsg{Name: f.Msgs[c.Intn(len(f.Msgs))].Name})
		return true
	}},
	{"dup-enum-value-name", false, func(c *Ctx, f *dvalFile) bool {
		e := dvalPickEnum(c, f, func(e *dvalEnum) bool { return len(e.Vals) > 0 })
		if e == nil {
			return false
		}
		e.Vals = append(e.Vals, dvalEVal{Name: e.Vals[0].Name, Num: 77, HasNum: true})
		return true
	}},
	{"dup-field-number", false, func(c *Ctx, f *dvalFile) bool {
		m, _ := dvalPickMsg(c, f, dvalHasFields)
		if m == nil {
			return false
		}
		dvalAddField(m, "zz_dup", m.Fields[c.Intn(len(m.Fields))].Num)
		return true
	}},
	{"dup-enum-number-noalias", false, func(c *Ctx, f *dvalFile) bool {
		e := dvalPickEnum(c, f, func(e *dvalEnum) bool { return len(e.Vals) > 0 && !e.Alias })
		if e == nil {
			return false
		}
		e.Vals = append(e.Vals, dvalEVal{Name: "ZZ_DUPNUM", Num: e.Vals[c.Intn(len(e.Vals))].Num, HasNum: true})
		return true
	}},
	{"alias-without-aliases", false, func(c *Ctx, f *dvalFile) bool {
		e := dvalPickEnum(c, f, func(e *dvalEnum) bool { return len(e.Vals) > 0 && !e.Alias })
		if e == nil {
			return false
		}
		e.Alias = true
		return true
	}},
	{"empty-enum", false, func(c *Ctx, f *dvalFile) bool {
		e := dvalPickEnum(c, f, func(e *dvalEnum) bool { return true })
		if e == nil {
			f.Enums = append(f.Enums, dvalEnum{Name: "ZZEmpty"})
			return true
		}
		// an enum that is referenced by a map value is still required to be non-empty
		e.Vals = nil
		e.Alias = false
		return true
	}},
	{"invalid-reserved-range", false, func(c *Ctx, f *dvalFile) bool {
		m, _ := dvalPickMsg(c, f, dvalNotEntry)
		if m == nil {
			return false
		}
		b := dvalMaxNum(m) + 200
		rs := []dvalRange{{b, b}, {b + 5, b}, {0, 5}, {-3, 2}, {b, 1<<29 + 1}, {1 << 29, 1<<29 + 5}}
		m.ResRanges = append(m.ResRanges, rs[c.Intn(len(rs))])
		return true
	}},
	{"invalid-extension-range", false, func(c *Ctx, f *dvalFile) bool {
		if f.Syntax == 1 {
			return false
		}
		m, _ := dvalPickMsg(c, f, dvalNotEntry)
		if m == nil {
			return false
		}
		b := dvalMaxNum(m) + 200
		rs := []dvalRange{{b, b}, {b + 5, b}, {0, 5}, {-3, 2}, {b, 1<<29 + 1}}
		m.ExtRanges = append(m.ExtRanges, rs[c.Intn(len(rs))])
		return true
	}},
	{"invalid-enum-reserved-range", false, func(c *Ctx, f *dvalFile) bool {
		e := dvalPickEnum(c, f, func(e *dvalEnum) bool { return true })
		if e == nil {
			return false
		}
		e.ResRanges = append(e.ResRanges, dvalRange{500, 499 - int32(c.Intn(3))})
		return true
	}},
	{"overlapping-reserved-ranges", false, func(c *Ctx, f *dvalFile) bool {
		m, _ := dvalPickMsg(c, f, dvalNotEntry)
		if m == nil {
			return false
		}
		b := dvalMaxNum(m) + 200
		m.ResRanges = append(m.ResRanges, dvalRange{b, b + 10})
		o := []dvalRange{{b + 9, b + 20}, {b, b + 10}, {b + 3, b + 4}, {b - 5, b + 1}}
		m.ResRanges = append(m.ResRanges, o[c.Intn(len(o))])
		if c.Bool() {
			n := len(m.ResRanges)
			m.ResRanges[n-1], m.ResRanges[n-2] = m.ResRanges[n-2], m.ResRanges[n-1]
		}
		return true
	}},
	{"overlapping-extension-ranges", false, func(c *Ctx, f *dvalFile) bool {
		if f.Syntax == 1 {
			return false
		}
		m, _ := dvalPickMsg(c, f, dvalNotEntry)
		if m == nil {
			return false
		}
		b := dvalMaxNum(m) + 200
		m.ExtRanges = append(m.ExtRanges, dvalRange{b, b + 10}, dvalRange{b + 9 - int32(c.Intn(9)), b + 20})
		return true
	}},
	{"overlapping-reserved-extension", false, func(c *Ctx, f *dvalFile) bool {
		if f.Syntax == 1 {
			return false
		}
		m, _ := dvalPickMsg(c, f, dvalNotEntry)
		if m == nil {
			return false
		}
		b := dvalMaxNum(m) + 200
		m.ExtRanges = append(m.ExtRanges, dvalRange{b, b + 10})
		o := []dvalRange{{b + 9, b + 20}, {b, b + 10}, {b + 3, b + 4}, {b - 5, b + 1}}
		m.ResRanges = append(m.ResRanges, o[c.Intn(len(o))])
		return true
	}},
	{"overlapping-enum-reserved-ranges", false, func(c *Ctx, f *dvalFile) bool {
		e := dvalPickEnum(c, f, func(e *dvalEnum) bool { return true })
		if e == nil {
			return false
		}
		e.ResRanges = append(e.ResRanges, dvalRange{500, 510}, dvalRange{510 - int32(c.Intn(10)), 520})
		return true
	}},
	{"duplicate-reserved-name", false, func(c *Ctx, f *dvalFile) bool {
		m, _ := dvalPickMsg(c, f, dvalNotEntry)
		if m == nil {
			return false
		}
		m.ResNames = append(m.ResNames, "zz_r", "zz_r")
		return true
	}},
	{"reserved-name-used", false, func(c *Ctx, f *dvalFile) bool {
		m, _ := dvalPickMsg(c, f, dvalHasFields)
		if m == nil {
			return false
		}
		m.ResNames = append(m.ResNames, m.Fields[c.Intn(len(m.Fields))].Name)
		return true
	}},
	{"enum-reserved-name-used", false, func(c *Ctx, f *dvalFile) bool {
		e := dvalPickEnum(c, f, func(e *dvalEnum) bool { return len(e.Vals) > 0 })
		if e == nil {
			return false
		}
		e.ResNames = append(e.ResNames, e.Vals[c.Intn(len(e.Vals))].Name)
		return true
	}},
	{"reserved-number-used", false, func(c *Ctx, f *dvalFile) bool {
		m, _ := dvalPickMsg(c, f, dvalHasFields)
		if m == nil {
			return false
		}
		n := m.Fields[c.Intn(len(m.Fields))].Num
		lo := n - int32(c.Intn(2))
		if lo < 1 {
			lo = 1
		}
		m.ResRanges = append(m.ResRanges, dvalRange{lo, n + 1 + int32(c.Intn(2))})
		return true
	}},
	{"enum-reserved-number-used", false, func(c *Ctx, f *dvalFile) bool {
		e := dvalPickEnum(c, f, func(e *dvalEnum) bool { return len(e.Vals) > 0 })
		if e == nil {
			return false
		}
		n := e.Vals[c.Intn(len(e.Vals))].Num
		e.ResRanges = append(e.ResRanges, dvalRange{n - int32(c.Intn(2)), n + int32(c.Intn(2))})
		return true
	}},
	{"field-in-extension-range", false, func(c *Ctx, f *dvalFile) bool {
		if f.Syntax == 1 {
			return false
		}
		m, _ := dvalPickMsg(c, f, dvalHasFields)
		if m == nil {
			return false
		}
		n := m.Fields[c.Intn(len(m.Fields))].Num
		m.ExtRanges = append(m.ExtRanges, dvalRange{n, n + 1 + int32(c.Intn(2))})
		return true
	}},
	{"invalid-field-number", false, func(c *Ctx, f *dvalFile) bool {
		m, _ := dvalPickMsg(c, f, dvalHasFields)
		if m == nil {
			return false
		}
		ns := []int32{0, -1, -2147483648, 1 << 29, 2147483647}
		m.Fields[c.Intn(len(m.Fields))].Num = ns[c.Intn(len(ns))]
		return true
	}},
	{"implementation-reserved-field-number", false, func(c *Ctx, f *dvalFile) bool {
		m, _ := dvalPickMsg(c, f, dvalNotEntry)
		if m == nil {
			return false
		}
		for _, r := range append(append([]dvalRange{}, m.ResRanges...), m.ExtRanges...) {
			if r.S <= 19999 && r.E > 19000 {
				return false
			}
		}
		dvalAddField(m, "zz_resnum", []int32{19000, 19500, 19999}[c.Intn(3)])
		return true
	}},
	{"invalid-extension-number", false, func(c *Ctx, f *dvalFile) bool {
		if len(f.Exts) == 0 {
			return false
		}
		ns := []int32{-1, 19000, 19999, -2147483648}
		f.Exts[c.Intn(len(f.Exts))].Num = ns[c.Intn(len(ns))]
		return true
	}},
	{"extension-outside-range", false, func(c *Ctx, f *dvalFile) bool {
		if len(f.Exts) == 0 {
			return false
		}
		f.Exts[c.Intn(len(f.Exts))].Num = 1
		return true
	}},
	{"extension-required", false, func(c *Ctx, f *dvalFile) bool {
		if len(f.Exts) == 0 {
			return false
		}
		f.Exts[c.Intn(len(f.Exts))].Label = 2
		return true
	}},
	{"extension-in-oneof", false, func(c *Ctx, f *dvalFile) bool {
		if len(f.Exts) == 0 {
			return false
		}
		z := int32(0)
		f.Exts[c.Intn(len(f.Exts))].Oneof = &z
		return true
	}},
	{"field-with-extendee", false, func(c *Ctx, f *dvalFile) bool {
		m, full := dvalPickMsg(c, f, dvalHasFields)
		if m == nil {
			return false
		}
		s := "." + full
		m.Fields[c.Intn(len(m.Fields))].Extendee = &s
		return true
	}},
	{"map-entry-wrong-name", false, func(c *Ctx, f *dvalFile) bool {
		return dvalOnMapEntry(c, f, func(parent, ent *dvalMsg, fld *dvalField) {
			old := ent.Name
			ent.Name = "ZzWrongEntry"
			fld.TypeName = strings.TrimSuffix(fld.TypeName, old) + ent.Name
		})
	}},
	{"map-entry-not-repeated", false, func(c *Ctx, f *dvalFile) bool {
		return dvalOnMapEntry(c, f, func(parent, ent *dvalMsg, fld *dvalField) { fld.Label = 1 })
	}},
	{"map-entry-bad-key", false, func(c *Ctx, f *dvalFile) bool {
		return dvalOnMapEntry(c, f, func(parent, ent *dvalMsg, fld *dvalField) {
			switch c.Intn(5) {
			case 0:
				ent.Fields[0].Type = []int32{1, 2, 12}[c.Intn(3)] // double, float, bytes keys
			case 1:
				ent.Fields[0].Name = "k"
			case 2:
				ent.Fields[0].Num = 3
			case 3:
				ent.Fields[0].Label = 3
			case 4:
				ent.Fields[1].Name = "val"
			}
		})
	}},
	{"map-entry-field-count", false, func(c *Ctx, f *dvalFile) bool {
		return dvalOnMapEntry(c, f, func(parent, ent *dvalMsg, fld *dvalField) {
			if c.Bool() {
				ent.Fields = ent.Fields[:1]
			} else {
				ent.Fields = append(ent.Fields, dvalField{Name: "extra", Num: 3, Label: 1, Type: 5})
			}
		})
	}},
	{"map-entry-nested-decl", false, func(c *Ctx, f *dvalFile) bool {
		return dvalOnMapEntry(c, f, func(parent, ent *dvalMsg, fld *dvalField) {
			ent.Msgs = append(ent.Msgs, dvalMsg{Name: "ZzInner"})
		})
	}},
	{"group-name-mismatch", false, func(c *Ctx, f *dvalFile) bool {
		if f.Syntax != 0 {
			return false
		}
		return dvalOnGroup(c, f, func(parent *dvalMsg, fld *dvalField) { fld.Name = "zz_" + fld.Name })
	}},
	{"group-unresolvable", true, func(c *Ctx, f *dvalFile) bool {
		return dvalOnGroup(c, f, func(parent *dvalMsg, fld *dvalField) { fld.TypeName = ".zz.Unknown" })
	}},
	{"group-in-proto3", false, func(c *Ctx, f *dvalFile) bool {
		if f.Syntax != 1 {
			return false
		}
		m, full := dvalPickMsg(c, f, dvalNotEntry)
		if m == nil {
			return false
		}
		m.Msgs = append(m.Msgs, dvalMsg{Name: "ZzG"})
		fl := dvalAddField(m, "zzg", dvalMaxNum(m)+100)
		fl.Type, fl.TypeName = 10, "."+full+".ZzG"
		return true
	}},
	{"empty-oneof", false, func(c *Ctx, f *dvalFile) bool {
		m, _ := dvalPickMsg(c, f, dvalNotEntry)
		if m == nil {
			return false
		}
		// before any synthetic oneof would be position 0; an empty oneof anywhere is an error
		m.Oneofs = append(m.Oneofs, "zz_empty")
		return true
	}},
	{"nonconsecutive-oneof", false, func(c *Ctx, f *dvalFile) bool {
		m, _ := dvalPickMsg(c, f, func(m *dvalMsg) bool {
			if m.MapEntry {
				return false
			}
			for i := range m.Oneofs {
				if dvalCountOneof(m, int32(i)) >= 2 {
					return true
				}
			}
			return false
		})
		if m == nil {
			return false
		}
		for i := range m.Fields {
			if i+1 < len(m.Fields) && m.Fields[i].Oneof != nil && m.Fields[i+1].Oneof != nil && *m.Fields[i].Oneof == *m.Fields[i+1].Oneof {
				nf := dvalField{Name: "zz_between", Num: dvalMaxNum(m) + 100, Label: 1, Type: 5}
				fs := append([]dvalField{}, m.Fields[:i+1]...)
				fs = append(fs, nf)
				fs = append(fs, m.Fields[i+1:]...)
				m.Fields = fs
				return true
			}
		}
		return false
	}},
	{"oneof-member-repeated", false, func(c *Ctx, f *dvalFile) bool {
		m, _ := dvalPickMsg(c, f, func(m *dvalMsg) bool { return !m.MapEntry && dvalFirstOneofField(m) >= 0 })
		if m == nil {
			return false
		}
		m.Fields[dvalFirstOneofField(m)].Label = int32(2 + c.Intn(2))
		return true
	}},
	{"invalid-oneof-index", false, func(c *Ctx, f *dvalFile) bool {
		m, _ := dvalPickMsg(c, f, dvalHasFields)
		if m == nil {
			return false
		}
		v := []int32{-1, int32(len(m.Oneofs)), 2147483647, -2147483648}[c.Intn(4)]
		m.Fields[c.Intn(len(m.Fields))].Oneof = &v
		return true
	}},
	{"invalid-label", false, func(c *Ctx, f *dvalFile) bool {
		m, _ := dvalPickMsg(c, f, dvalHasFields)
		if m == nil {
			return false
		}
		for i := range m.Fields {
			if dvalPlainField(&m.Fields[i]) && !m.Fields[i].P3Opt {
				m.Fields[i].Label = []int32{0, 4, -1, 100}[c.Intn(4)]
				return true
			}
		}
		return false
	}},
	{"proto3-required", false, func(c *Ctx, f *dvalFile) bool {
		if f.Syntax != 1 {
			return false
		}
		m, _ := dvalPickMsg(c, f, dvalNotEntry)
		if m == nil {
			return false
		}
		dvalAddField(m, "zz_req", dvalMaxNum(m)+100).Label = 2
		return true
	}},
	{"proto3-extension-range", false, func(c *Ctx, f *dvalFile) bool {
		if f.Syntax != 1 {
			return false
		}
		m, _ := dvalPickMsg(c, f, dvalNotEntry)
		if m == nil {
			return false
		}
		b := dvalMaxNum(m) + 300
		m.ExtRanges = append(m.ExtRanges, dvalRange{b, b + 5})
		return true
	}},
	{"open-enum-first-nonzero", false, func(c *Ctx, f *dvalFile) bool {
		if f.Syntax == 0 {
			return false
		}
		e := dvalPickEnum(c, f, func(e *dvalEnum) bool { return len(e.Vals) > 0 && !e.Alias })
		if e == nil {
			return false
		}
		e.Vals[0].Num = 1000 + int32(c.Intn(5))
		return true
	}},
	{"proto3-extension-of-message", false, func(c *Ctx, f *dvalFile) bool {
		if f.Syntax != 1 {
			return false
		}
		// extension ranges are themselves forbidden in proto3, so extend an unresolvable
		// (placeholder) non-option message: definite only with AllowUnresolvable (otherwise the
		// reference itself is the error, which is a rejection as well)
		ex := ".zz.NotAnOptionsMessage"
		f.Exts = append(f.Exts, dvalField{Name: "zz_ext", Num: 1000, Label: 1, Type: 5, Extendee: &ex})
		return true
	}},
	{"proto3-optional-outside-proto3", false, func(c *Ctx, f *dvalFile) bool {
		if f.Syntax == 1 {
			return false
		}
		m, _ := dvalPickMsg(c, f, dvalNotEntry)
		if m == nil {
			return false
		}
		dvalAddField(m, "zz_p3o", dvalMaxNum(m)+100).P3Opt = true
		return true
	}},
	{"proto3-optional-repeated", false, func(c *Ctx, f *dvalFile) bool {
		if f.Syntax != 1 {
			return false
		}
		m, _ := dvalPickMsg(c, f, dvalNotEntry)
		if m == nil {
			return false
		}
		fl := dvalAddField(m, "zz_p3o", dvalMaxNum(m)+100)
		fl.P3Opt, fl.Label = true, 3
		return true
	}},
	{"proto3-optional-in-multi-oneof", false, func(c *Ctx, f *dvalFile) bool {
		if f.Syntax != 1 {
			return false
		}
		m, _ := dvalPickMsg(c, f, func(m *dvalMsg) bool {
			for i := range m.Oneofs {
				if dvalCountOneof(m, int32(i)) >= 2 {
					return true
				}
			}
			return false
		})
		if m == nil {
			return false
		}
		for i := range m.Fields {
			if m.Fields[i].Oneof != nil && dvalCountOneof(m, *m.Fields[i].Oneof) >= 2 {
				m.Fields[i].P3Opt = true
				return true
			}
		}
		return false
	}},
	{"unresolvable-type", true, func(c *Ctx, f *dvalFile) bool {
		m, _ := dvalPickMsg(c, f, dvalNotEntry)
		if m == nil {
			return false
		}
		fl := dvalAddField(m, "zz_unres", dvalMaxNum(m)+100)
		fl.Type = []int32{11, 14, 0}[c.Intn(3)]
		fl.TypeName = []string{".zz.Unknown", "Unknown", "zz.Unknown.Deeper"}[c.Intn(3)]
		return true
	}},
	{"unresolvable-extendee", true, func(c *Ctx, f *dvalFile) bool {
		if f.Syntax == 1 {
			return false
		}
		ex := []string{".zz.Unknown", "Unknown"}[c.Intn(2)]
		f.Exts = append(f.Exts, dvalField{Name: "zz_ext", Num: 1000, Label: 1, Type: 5, Extendee: &ex})
		return true
	}},
	{"type-name-kind-mismatch", false, func(c *Ctx, f *dvalFile) bool {
		// a message-typed field that names an enum, or the converse
		ers := dvalAllEnums(f)
		m, full := dvalPickMsg(c, f, dvalNotEntry)
		if m == nil {
			return false
		}
		fl := dvalAddField(m, "zz_mismatch", dvalMaxNum(m)+100)
		if len(ers) > 0 && c.Bool() {
			fl.Type, fl.TypeName = 11, "."+ers[c.Intn(len(ers))].Full
		} else {
			fl.Type, fl.TypeName = 14, "."+full
		}
		return true
	}},
	{"scalar-with-type-name", false, func(c *Ctx, f *dvalFile) bool {
		m, full := dvalPickMsg(c, f, dvalNotEntry)
		if m == nil {
			return false
		}
		dvalAddField(m, "zz_tn", dvalMaxNum(m)+100).TypeName = "." + full
		return true
	}},
	{"missing-type-name", false, func(c *Ctx, f *dvalFile) bool {
		m, _ := dvalPickMsg(c, f, dvalNotEntry)
		if m == nil {
			return false
		}
		dvalAddField(m, "zz_notn", dvalMaxNum(m)+100).Type = []int32{11, 14, 10, 0}[c.Intn(4)]
		return true
	}},
	{"invalid-kind", false, func(c *Ctx, f *dvalFile) bool {
		m, _ := dvalPickMsg(c, f, dvalNotEntry)
		if m == nil {
			return false
		}
		dvalAddField(m, "zz_kind", dvalMaxNum(m)+100).Type = []int32{19, 20, 100, -1}[c.Intn(4)]
		return true
	}},
	{"invalid-name", false, func(c *Ctx, f *dvalFile) bool {
		m, _ := dvalPickMsg(c, f, dvalNotEntry)
		if m == nil {
			return false
		}
		names := []string{"", "a.b", "1a", "a-b", "a b", ".", "a.", "\xff", "é"}
		n := names[c.Intn(len(names))]
		switch c.Intn(4) {
		case 0:
			dvalAddField(m, n, dvalMaxNum(m)+100)
		case 1:
			m.Msgs = append(m.Msgs, dvalMsg{Name: n})
		case 2:
			m.Enums = append(m.Enums, dvalEnum{Name: n, Vals: []dvalEVal{{Name: "ZZ_INVNAME_V", Num: 0, HasNum: true}}})
		case 3:
			m.Oneofs = append(m.Oneofs, n)
		}
		return true
	}},
	{"packed-nonpackable", false, func(c *Ctx, f *dvalFile) bool {
		m, full := dvalPickMsg(c, f, dvalNotEntry)
		if m == nil {
			return false
		}
		fl := dvalAddField(m, "zz_packed", dvalMaxNum(m)+100)
		fl.Packed = 2
		switch c.Intn(4) {
		case 0: // not repeated
		case 1:
			fl.Label, fl.Type = 3, 9
		case 2:
			fl.Label, fl.Type = 3, 12
		case 3:
			fl.Label, fl.Type, fl.TypeName = 3, 11, "."+full
		}
		return true
	}},
	{"message-set", false, func(c *Ctx, f *dvalFile) bool {
		// MessageSet is unsupported without the protolegacy tag, and malformed otherwise
		// (it has fields / no extension ranges / proto3)
		m, _ := dvalPickMsg(c, f, func(m *dvalMsg) bool { return !m.MapEntry && (len(m.Fields) > 0 || len(m.ExtRanges) == 0) })
		if m == nil {
			return false
		}
		m.MsgSet = true
		return true
	}},
	{"invalid-package", false, func(c *Ctx, f *dvalFile) bool {
		f.Pkg = []string{".", "p.", ".p", "p..q", "1p", "p q", "p-q"}[c.Intn(7)]
		return true
	}},
}

func dvalCountOneof(m *dvalMsg, idx int32) int {
	n := 0
	for _, fl := range m.Fields {
		if fl.Oneof != nil && *fl.Oneof == idx {
			n++
		}
	}
	return n
}
func dvalFirstOneofField(m *dvalMsg) int {
	for i, fl := range m.Fields {
		if fl.Oneof != nil && !fl.P3Opt {
			return i
		}
	}
	return -1
}

// dvalOnMapEntry finds a (parent, map entry, map field) triple and applies fn.
func dvalOnMapEntry(c *Ctx, f *dvalFile, fn func(parent, ent *dvalMsg, fld *dvalField)) bool {
	type trip struct {
		p, e *dvalMsg
		f    *dvalField
	}
	var cands []trip
	for _, mr := range dvalAllMsgs(f) {
		for i := range mr.M.Msgs {
			e := &mr.M.Msgs[i]
			if !e.MapEntry {
				continue
			}
			for j := range mr.M.Fields {
				if strings.HasSuffix(mr.M.Fields[j].TypeName, e.Name) && mr.M.Fields[j].Type == 11 {
					cands = append(cands, trip{mr.M, e, &mr.M.Fields[j]})
				}
			}
		}
	}
	if len(cands) == 0 {
		return false
	}
	t := cands[c.Intn(len(cands))]
	fn(t.p, t.e, t.f)
	return true
}
func dvalOnGroup(c *Ctx, f *dvalFile, fn func(parent *dvalMsg, fld *dvalField)) bool {
	type pair struct {
		p *dvalMsg
		f *dvalField
	}
	var cands []pair
	for _, mr := range dvalAllMsgs(f) {
		for j := range mr.M.Fields {
			if mr.M.Fields[j].Type == 10 {
				cands = append(cands, pair{mr.M, &mr.M.Fields[j]})
			}
		}
	}
	if len(cands) == 0 {
		return false
	}
	t := cands[c.Intn(len(cands))]
	fn(t.p, t.f)
	return true
}

// ---------------------------------------------------------------- random / adversarial edits

var dvalAdvNums = []int32{0, 1, 2, -1, 15, 16, 18999, 19000, 19999, 20000, 1<<29 - 1, 1 << 29, 2147483647, -2147483648, 100, 1000}
var dvalAdvNames = []string{"", "a", "a.b", ".", "1a", "key", "value", "A", "_", "a_b", "aB", "M1", "E1", "f1", "Entry", "x y", "\xff\xfe", "p", "p.M1"}
var dvalAdvTypeNames = []string{"", ".", "..", ".p", "p", "M1", ".p.M1", ".M1", "p.M1", "E1", ".p.E1", "M1.f1", ".p.M1.f1", "*.x", ".zz.Unknown", "Unknown", "a..b", ".a.", "M1.M2", "key",
	".google.protobuf.FileOptions", ".google.protobuf.MessageOptions", ".google.protobuf.FieldOptions", "google.protobuf.FileOptions"}

func dvalAdvNum(c *Ctx) int32 {
	if c.Intn(4) == 0 {
		return int32(c.Intn(60)) - 5
	}
	return dvalAdvNums[c.Intn(len(dvalAdvNums))]
}
func dvalAdvRange(c *Ctx) dvalRange {
	s := dvalAdvNum(c)
	switch c.Intn(4) {
	case 0:
		return dvalRange{s, s + 1 + int32(c.Intn(5))}
	case 1:
		return dvalRange{s, s}
	default:
		return dvalRange{s, dvalAdvNum(c)}
	}
}

// dvalLocalNames returns names/full names that occur in the file (to create collisions and references).
func dvalLocalNames(f *dvalFile) (names, fulls []string) {
	for _, mr := range dvalAllMsgs(f) {
		names = append(names, mr.M.Name)
		fulls = append(fulls, mr.Full)
		for _, fl := range mr.M.Fields {
			names = append(names, fl.Name)
			fulls = append(fulls, mr.Full+"."+fl.Name)
		}
		for _, o := range mr.M.Oneofs {
			names = append(names, o)
		}
	}
	for _, er := range dvalAllEnums(f) {
		names = append(names, er.E.Name)
		fulls = append(fulls, er.Full)
		for _, v := range er.E.Vals {
			names = append(names, v.Name)
		}
	}
	return
}

func dvalAdvName(c *Ctx, f *dvalFile) string {
	names, _ := dvalLocalNames(f)
	if len(names) > 0 && c.Intn(2) == 0 {
		n := names[c.Intn(len(names))]
		switch c.Intn(4) {
		case 0:
			return strings.ToLower(n)
		case 1:
			return strings.ToUpper(n)
		}
		return n
	}
	return dvalAdvNames[c.Intn(len(dvalAdvNames))]
}
func dvalAdvTypeName(c *Ctx, f *dvalFile) string {
	_, fulls := dvalLocalNames(f)
	if len(fulls) > 0 && c.Intn(2) == 0 {
		n := fulls[c.Intn(len(fulls))]
		switch c.Intn(4) {
		case 0:
			return n // relative form (no leading dot)
		case 1:
			if i := strings.LastIndexByte(n, '.'); i >= 0 {
				return n[i+1:]
			}
		case 2:
			if i := strings.IndexByte(n, '.'); i >= 0 {
				return n[i+1:]
			}
		}
		return "." + n
	}
	return dvalAdvTypeNames[c.Intn(len(dvalAdvTypeNames))]
}

func dvalMutField(c *Ctx, f *dvalFile, fl *dvalField, nOneofs int) {
	switch c.Intn(11) {
	case 0:
		fl.Name = dvalAdvName(c, f)
	case 1:
		fl.Num = dvalAdvNum(c)
	case 2:
		fl.Label = []int32{0, 1, 2, 3, 4, -1}[c.Intn(6)]
	case 3:
		fl.Type = int32(c.Intn(21)) - 1
	case 4:
		fl.TypeName = dvalAdvTypeName(c, f)
	case 5:
		if c.Intn(3) == 0 {
			fl.Oneof = nil
		} else {
			v := []int32{0, 1, int32(nOneofs) - 1, int32(nOneofs), -1, 2147483647}[c.Intn(6)]
			fl.Oneof = &v
		}
	case 6:
		fl.P3Opt = !fl.P3Opt
	case 7:
		if c.Bool() {
			fl.JSON = nil
		} else {
			s := dvalAdvName(c, f)
			fl.JSON = &s
		}
	case 8:
		fl.Packed = c.Intn(3)
	case 9:
		if c.Bool() {
			fl.Extendee = nil
		} else {
			s := dvalAdvTypeName(c, f)
			fl.Extendee = &s
		}
	case 10:
		fl.Type = []int32{10, 11, 14, 0}[c.Intn(4)]
		fl.TypeName = dvalAdvTypeName(c, f)
	}
}

func dvalMutEnum(c *Ctx, f *dvalFile, e *dvalEnum) {
	switch c.Intn(9) {
	case 0:
		e.Name = dvalAdvName(c, f)
	case 1:
		e.Vals = nil
	case 2:
		if len(e.Vals) > 0 {
			e.Vals[c.Intn(len(e.Vals))].Num = dvalAdvNum(c)
		}
	case 3:
		if len(e.Vals) > 0 {
			v := &e.Vals[c.Intn(len(e.Vals))]
			v.HasNum = !v.HasNum
			if !v.HasNum {
				v.Num = 0
			}
		}
	case 4:
		e.Alias = !e.Alias
	case 5:
		e.ResRanges = append(e.ResRanges, dvalAdvRange(c))
	case 6:
		e.ResNames = append(e.ResNames, dvalAdvName(c, f))
	case 7:
		if len(e.Vals) > 0 {
			// name variants that collide after prefix stripping / case folding
			v := e.Vals[c.Intn(len(e.Vals))]
			nv := dvalEVal{Name: strings.ToLower(v.Name), Num: dvalAdvNum(c), HasNum: true}
			if c.Bool() {
				nv.Name = strings.ReplaceAll(v.Name, "_", "__")
			}
			e.Vals = append(e.Vals, nv)
		}
	case 8:
		if len(e.Vals) > 0 {
			e.Vals[c.Intn(len(e.Vals))].Name = dvalAdvName(c, f)
		}
	}
}

// dvalMutate applies one random edit somewhere in the file.
func dvalMutate(c *Ctx, f *dvalFile) {
	msgs := dvalAllMsgs(f)
	enums := dvalAllEnums(f)
	switch k := c.Intn(20); {
	case k < 7 && len(msgs) > 0: // a field
		m := msgs[c.Intn(len(msgs))].M
		if len(m.Fields) > 0 {
			dvalMutField(c, f, &m.Fields[c.Intn(len(m.Fields))], len(m.Oneofs))
		} else {
			dvalAddField(m, dvalAdvName(c, f), dvalAdvNum(c))
		}
	case k < 9 && len(enums) > 0:
		dvalMutEnum(c, f, enums[c.Intn(len(enums))].E)
	case k < 11 && len(msgs) > 0: // ranges / reserved names
		m := msgs[c.Intn(len(msgs))].M
		switch c.Intn(4) {
		case 0:
			m.ResRanges = append(m.ResRanges, dvalAdvRange(c))
		case 1:
			m.ExtRanges = append(m.ExtRanges, dvalAdvRange(c))
		case 2:
			m.ResNames = append(m.ResNames, dvalAdvName(c, f))
		case 3:
			if len(m.ResRanges) > 0 {
				m.ResRanges[c.Intn(len(m.ResRanges))] = dvalAdvRange(c)
			} else if len(m.ExtRanges) > 0 {
				m.ExtRanges[c.Intn(len(m.ExtRanges))] = dvalAdvRange(c)
			}
		}
	case k < 13 && len(msgs) > 0: // structure of a message
		m := msgs[c.Intn(len(msgs))].M
		switch c.Intn(9) {
		case 0:
			m.Name = dvalAdvName(c, f)
		case 1:
			m.MapEntry = !m.MapEntry
		case 2:
			m.MsgSet = !m.MsgSet
		case 3:
			if len(m.Fields) > 1 {
				i, j := c.Intn(len(m.Fields)), c.Intn(len(m.Fields))
				m.Fields[i], m.Fields[j] = m.Fields[j], m.Fields[i]
			}
		case 4:
			if len(m.Fields) > 0 {
				i := c.Intn(len(m.Fields))
				m.Fields = append(m.Fields[:i:i], m.Fields[i+1:]...)
			}
		case 5:
			if len(m.Fields) > 0 {
				m.Fields = append(m.Fields, dvalCopyFields(m.Fields[c.Intn(len(m.Fields)):][:1])...)
			}
		case 6:
			m.Oneofs = append(m.Oneofs, dvalAdvName(c, f))
		case 7:
			if len(m.Oneofs) > 0 {
				i := c.Intn(len(m.Oneofs))
				m.Oneofs = append(m.Oneofs[:i:i], m.Oneofs[i+1:]...)
			}
		case 8:
			m.Msgs = append(m.Msgs, dvalMsg{Name: dvalAdvName(c, f)})
		}
	case k < 15: // extensions
		var xs *[]dvalField
		xs = &f.Exts
		if len(msgs) > 0 && c.Bool() {
			xs = &msgs[c.Intn(len(msgs))].M.Exts
		}
		if len(*xs) > 0 && c.Intn(3) != 0 {
			dvalMutField(c, f, &(*xs)[c.Intn(len(*xs))], 0)
		} else {
			ex := dvalAdvTypeName(c, f)
			x := dvalField{Name: dvalAdvName(c, f), Num: dvalAdvNum(c), Label: int32(1 + 2*c.Intn(2)), Type: dvalScalarTypes[c.Intn(len(dvalScalarTypes))], Extendee: &ex}
			if c.Intn(4) == 0 {
				x.Extendee = nil
			}
			*xs = append(*xs, x)
		}
	case k < 16:
		f.Syntax = c.Intn(4)
	case k < 17:
		f.Allow = !f.Allow
	case k < 18:
		f.Pkg = []string{"", "p", "p.q", ".", "p.", "1", "M1", "google.protobuf"}[c.Intn(8)]
	case k < 19 && len(enums) > 0:
		// duplicate an enum as a top-level declaration (name clashes of values)
		f.Enums = append(f.Enums, dvalCopyEnums([]dvalEnum{*enums[c.Intn(len(enums))].E})...)
	default:
		if len(msgs) > 0 {
			m := msgs[c.Intn(len(msgs))].M
			if len(m.Fields) > 0 {
				dvalMutField(c, f, &m.Fields[c.Intn(len(m.Fields))], len(m.Oneofs))
			}
		}
	}
}
