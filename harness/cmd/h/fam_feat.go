//go:build verif

package main

// family "feat" — C38: editions features resolve by inheritance and preserve semantics.
//
//   C feat resolve <how> <syntax> <edition> <n> <ov>*n <kind>         | <efeat> [<closed>]
//   C feat field   <how> <syntax> <edition> <n> <ov>*n <own ov> <label> <type> <packedopt> <inoneof> <isext> <mapish>
//                                                                     | <efeat> <card> <kind> <presence> <packed> <utf8>
// <how> = "pd" (protodesc.NewFile) or "raw" (filedesc.Builder over the serialised descriptor:
// internal/filedesc/editions.go unmarshalFeatureSet); the model ignores it.
// <ov> = 9 tokens (presence enum repeated utf8 msgenc json golegacy api strip), "-" = unset.
// <efeat> = 10 tokens in the order of filedesc.EditionFeatures.
//
//   P C38 ... : the proto2/proto3 test messages of internal/testprotos/editionsfuzztest and
//   their editions translations disagree on a wire / JSON / text result.

import (
	"bytes"
	"fmt"
	"strings"

	"google.golang.org/protobuf/encoding/protojson"
	"google.golang.org/protobuf/encoding/prototext"
	"google.golang.org/protobuf/encoding/protowire"
	"google.golang.org/protobuf/internal/filedesc"
	"google.golang.org/protobuf/internal/strs"
	"google.golang.org/protobuf/proto"
	"google.golang.org/protobuf/reflect/protodesc"
	"google.golang.org/protobuf/reflect/protoreflect"
	"google.golang.org/protobuf/reflect/protoregistry"
	"google.golang.org/protobuf/types/descriptorpb"
	"google.golang.org/protobuf/types/gofeaturespb"

	fuzzpb "google.golang.org/protobuf/internal/testprotos/editionsfuzztest"
)

func init() { Register("feat", famFeat) }

type featOv [9]*int32 // presence enum repeated utf8 msgenc json golegacy api strip

func featOvTokens(t []string, o featOv) []string {
	for _, v := range o {
		if v == nil {
			t = append(t, "-")
		} else {
			t = append(t, HexN(uint64(uint32(*v))))
		}
	}
	return t
}

// featOvOf reads an explicit feature set back from an options message.
func featOvOf(fs *descriptorpb.FeatureSet) (o featOv) {
	if fs == nil {
		return
	}
	p := func(v int32) *int32 { return &v }
	if fs.FieldPresence != nil {
		o[0] = p(int32(*fs.FieldPresence))
	}
	if fs.EnumType != nil {
		o[1] = p(int32(*fs.EnumType))
	}
	if fs.RepeatedFieldEncoding != nil {
		o[2] = p(int32(*fs.RepeatedFieldEncoding))
	}
	if fs.Utf8Validation != nil {
		o[3] = p(int32(*fs.Utf8Validation))
	}
	if fs.MessageEncoding != nil {
		o[4] = p(int32(*fs.MessageEncoding))
	}
	if fs.JsonFormat != nil {
		o[5] = p(int32(*fs.JsonFormat))
	}
	if proto.HasExtension(fs, gofeaturespb.E_Go) {
		gf := proto.GetExtension(fs, gofeaturespb.E_Go).(*gofeaturespb.GoFeatures)
		if gf.LegacyUnmarshalJsonEnum != nil {
			if *gf.LegacyUnmarshalJsonEnum {
				o[6] = p(1)
			} else {
				o[6] = p(0)
			}
		}
		if gf.ApiLevel != nil {
			o[7] = p(int32(*gf.ApiLevel))
		}
		if gf.StripEnumPrefix != nil {
			o[8] = p(int32(*gf.StripEnumPrefix))
		}
	}
	return
}

func featEfeatTokens(e filedesc.EditionFeatures) []string {
	return []string{HexN(uint64(e.StripEnumPrefix)), Tok(e.IsFieldPresence), Tok(e.IsLegacyRequired), Tok(e.IsOpenEnum), Tok(e.IsPacked),
		Tok(e.IsUTF8Validated), Tok(e.IsDelimitedEncoded), Tok(e.IsJSONCompliant), Tok(e.GenerateLegacyUnmarshalJSON), HexN(uint64(e.APILevel))}
}

// featRandomFS: a random explicit feature set; density p/16 per feature.
func featRandomFS(c *Ctx, density int, allowLegacyReq bool) *descriptorpb.FeatureSet {
	fs := &descriptorpb.FeatureSet{}
	set := false
	pick := func(vals ...int32) int32 {
		if c.Intn(12) == 0 {
			return 0 // *_UNKNOWN
		}
		return vals[c.Intn(len(vals))]
	}
	if c.Intn(16) < density {
		vals := []int32{1, 2}
		if allowLegacyReq {
			vals = append(vals, 3)
		}
		fs.FieldPresence = descriptorpb.FeatureSet_FieldPresence(pick(vals...)).Enum()
		set = true
	}
	if c.Intn(16) < density {
		fs.EnumType = descriptorpb.FeatureSet_EnumType(pick(1, 2)).Enum()
		set = true
	}
	if c.Intn(16) < density {
		fs.RepeatedFieldEncoding = descriptorpb.FeatureSet_RepeatedFieldEncoding(pick(1, 2)).Enum()
		set = true
	}
	if c.Intn(16) < density {
		fs.Utf8Validation = descriptorpb.FeatureSet_Utf8Validation(pick(2, 3)).Enum()
		set = true
	}
	if c.Intn(16) < density {
		fs.MessageEncoding = descriptorpb.FeatureSet_MessageEncoding(pick(1, 2)).Enum()
		set = true
	}
	if c.Intn(16) < density {
		fs.JsonFormat = descriptorpb.FeatureSet_JsonFormat(pick(1, 2)).Enum()
		set = true
	}
	if c.Intn(16) < density {
		gf := &gofeaturespb.GoFeatures{}
		if c.Bool() {
			gf.LegacyUnmarshalJsonEnum = proto.Bool(c.Bool())
		}
		if c.Bool() {
			gf.ApiLevel = gofeaturespb.GoFeatures_APILevel(c.Intn(4)).Enum()
		}
		if c.Bool() {
			gf.StripEnumPrefix = gofeaturespb.GoFeatures_StripEnumPrefix(c.Intn(4)).Enum()
		}
		proto.SetExtension(fs, gofeaturespb.E_Go, gf)
		set = true
	}
	if !set {
		return nil
	}
	return fs
}

type featGen struct {
	c        *Ctx
	editions bool
	ctr      int
}

func (g *featGen) id(p string) string { g.ctr++; return fmt.Sprintf("%s%d", p, g.ctr) }
func (g *featGen) fs(density int, legacyReq bool) *descriptorpb.FeatureSet {
	if !g.editions {
		return nil
	}
	return featRandomFS(g.c, density, legacyReq)
}

var featScalarTypes = []int32{1, 2, 3, 4, 5, 6, 7, 8, 9, 12, 13, 15, 16, 17, 18}

func (g *featGen) field(name string, num int32, full string, enumName string) *descriptorpb.FieldDescriptorProto {
	c := g.c
	f := &descriptorpb.FieldDescriptorProto{Name: proto.String(name), Number: proto.Int32(num)}
	lab := int32(1)
	if c.Intn(3) == 0 {
		lab = 3
	}
	ty := featScalarTypes[c.Intn(len(featScalarTypes))]
	switch c.Intn(6) {
	case 0:
		ty = 11
		f.TypeName = proto.String("." + full)
	case 1:
		if enumName != "" {
			ty = 14
			f.TypeName = proto.String(enumName)
		}
	case 2:
		ty = 9
	}
	f.Label = descriptorpb.FieldDescriptorProto_Label(lab).Enum()
	f.Type = descriptorpb.FieldDescriptorProto_Type(ty).Enum()
	if fs := g.fs(5, lab == 1); fs != nil {
		f.Options = &descriptorpb.FieldOptions{Features: fs}
	}
	if lab == 3 && c.Intn(6) == 0 {
		if f.Options == nil {
			f.Options = &descriptorpb.FieldOptions{}
		}
		f.Options.Packed = proto.Bool(c.Bool())
	}
	return f
}

func (g *featGen) enum(name string) *descriptorpb.EnumDescriptorProto {
	e := &descriptorpb.EnumDescriptorProto{Name: proto.String(name), Value: []*descriptorpb.EnumValueDescriptorProto{
		{Name: proto.String(strings.ToUpper(name) + "_ZERO"), Number: proto.Int32(0)}, {Name: proto.String(strings.ToUpper(name) + "_ONE"), Number: proto.Int32(1)}}}
	if fs := g.fs(5, false); fs != nil {
		e.Options = &descriptorpb.EnumOptions{Features: fs}
	}
	return e
}

func (g *featGen) msg(scope string, depth int) *descriptorpb.DescriptorProto {
	c := g.c
	m := &descriptorpb.DescriptorProto{Name: proto.String(g.id("M"))}
	full := scope + "." + m.GetName()
	if fs := g.fs(4, c.Intn(8) == 0); fs != nil {
		m.Options = &descriptorpb.MessageOptions{Features: fs}
	}
	enumName := ""
	if c.Bool() {
		e := g.enum(g.id("E"))
		m.EnumType = append(m.EnumType, e)
		enumName = "." + full + "." + e.GetName()
	}
	num := int32(1)
	for i, k := 0, 1+c.Intn(4); i < k; i++ {
		m.Field = append(m.Field, g.field(g.id("f"), num, full, enumName))
		num++
	}
	if c.Intn(3) == 0 { // a map field
		fname := g.id("f")
		ent := &descriptorpb.DescriptorProto{Name: proto.String(dvalMapEntryName(fname)), Options: &descriptorpb.MessageOptions{MapEntry: proto.Bool(true)},
			Field: []*descriptorpb.FieldDescriptorProto{
				{Name: proto.String("key"), Number: proto.Int32(1), Label: descriptorpb.FieldDescriptorProto_LABEL_OPTIONAL.Enum(), Type: descriptorpb.FieldDescriptorProto_TYPE_STRING.Enum()},
				{Name: proto.String("value"), Number: proto.Int32(2), Label: descriptorpb.FieldDescriptorProto_LABEL_OPTIONAL.Enum(), Type: descriptorpb.FieldDescriptorProto_TYPE_MESSAGE.Enum(), TypeName: proto.String("." + full)}}}
		if c.Bool() {
			ent.Field[1].Type = descriptorpb.FieldDescriptorProto_TYPE_STRING.Enum()
			ent.Field[1].TypeName = nil
		}
		m.NestedType = append(m.NestedType, ent)
		mf := &descriptorpb.FieldDescriptorProto{Name: proto.String(fname), Number: proto.Int32(num), Label: descriptorpb.FieldDescriptorProto_LABEL_REPEATED.Enum(),
			Type: descriptorpb.FieldDescriptorProto_TYPE_MESSAGE.Enum(), TypeName: proto.String("." + full + "." + ent.GetName())}
		if fs := g.fs(4, false); fs != nil {
			mf.Options = &descriptorpb.FieldOptions{Features: fs}
		}
		m.Field = append(m.Field, mf)
		num++
	}
	if c.Intn(3) == 0 { // a oneof with members
		idx := int32(len(m.OneofDecl))
		o := &descriptorpb.OneofDescriptorProto{Name: proto.String(g.id("o"))}
		if fs := g.fs(5, false); fs != nil {
			o.Options = &descriptorpb.OneofOptions{Features: fs}
		}
		m.OneofDecl = append(m.OneofDecl, o)
		for i, k := 0, 1+c.Intn(2); i < k; i++ {
			f := g.field(g.id("f"), num, full, enumName)
			f.Label = descriptorpb.FieldDescriptorProto_LABEL_OPTIONAL.Enum()
			if f.Options != nil {
				f.Options.Packed = nil
				if f.Options.Features != nil && f.Options.Features.GetFieldPresence() == descriptorpb.FeatureSet_LEGACY_REQUIRED {
					f.Options.Features.FieldPresence = nil
				}
			}
			f.OneofIndex = proto.Int32(idx)
			m.Field = append(m.Field, f)
			num++
		}
	}
	if depth > 0 {
		for i, k := 0, c.Intn(3); i < k; i++ {
			m.NestedType = append(m.NestedType, g.msg(full, depth-1))
		}
	}
	if c.Intn(4) == 0 {
		m.ExtensionRange = append(m.ExtensionRange, &descriptorpb.DescriptorProto_ExtensionRange{Start: proto.Int32(1000), End: proto.Int32(2000)})
	}
	return m
}

func featFile(c *Ctx) *descriptorpb.FileDescriptorProto {
	g := &featGen{c: c}
	p := &descriptorpb.FileDescriptorProto{Name: proto.String("feat.proto"), Package: proto.String("fp")}
	switch c.Intn(8) {
	case 0:
		p.Syntax = proto.String("proto2")
	case 1:
		p.Syntax = proto.String("proto3")
	case 2:
		p.Syntax = proto.String("editions")
		p.Edition = descriptorpb.Edition_EDITION_2024.Enum()
		g.editions = true
	case 3:
		p.Syntax = proto.String("editions")
		p.Edition = descriptorpb.Edition_EDITION_UNSTABLE.Enum()
		g.editions = true
	default:
		p.Syntax = proto.String("editions")
		p.Edition = descriptorpb.Edition_EDITION_2023.Enum()
		g.editions = true
	}
	if fs := g.fs(5, c.Intn(10) == 0); fs != nil {
		p.Options = &descriptorpb.FileOptions{Features: fs}
	}
	if c.Bool() {
		p.EnumType = append(p.EnumType, g.enum(g.id("E")))
	}
	for i, k := 0, 1+c.Intn(3); i < k; i++ {
		p.MessageType = append(p.MessageType, g.msg("fp", 2))
	}
	// extensions of messages that have a range (not in proto3)
	if p.GetSyntax() != "proto3" {
		var targets []string
		var walk func(ms []*descriptorpb.DescriptorProto, scope string)
		walk = func(ms []*descriptorpb.DescriptorProto, scope string) {
			for _, m := range ms {
				if len(m.ExtensionRange) > 0 {
					targets = append(targets, scope+"."+m.GetName())
				}
				walk(m.NestedType, scope+"."+m.GetName())
			}
		}
		walk(p.MessageType, "fp")
		n := int32(1000)
		for _, t := range targets {
			x := g.field(g.id("x"), n, t, "")
			n++
			if x.Options != nil && x.Options.Features != nil && x.Options.Features.GetFieldPresence() == descriptorpb.FeatureSet_LEGACY_REQUIRED {
				x.Options.Features.FieldPresence = nil
			}
			x.Extendee = proto.String("." + t)
			if c.Bool() {
				p.Extension = append(p.Extension, x)
			} else {
				host := p.MessageType[c.Intn(len(p.MessageType))]
				host.Extension = append(host.Extension, x)
			}
		}
	}
	return p
}

// featFeaturesOf reads the resolved feature struct off a descriptor built by either path.
func featFeaturesOf(d protoreflect.Descriptor) (filedesc.EditionFeatures, bool) {
	switch d := d.(type) {
	case *filedesc.File:
		return d.L1.EditionFeatures, true
	case *filedesc.Message:
		return d.L1.EditionFeatures, true
	case *filedesc.Field:
		return d.L1.EditionFeatures, true
	case *filedesc.Oneof:
		return d.L1.EditionFeatures, true
	case *filedesc.Enum:
		return d.L1.EditionFeatures, true
	case *filedesc.Extension:
		return d.L1.EditionFeatures, true
	}
	return filedesc.EditionFeatures{}, false
}

type featWalker struct {
	c      *Ctx
	how    string
	syntax protoreflect.Syntax
	ed     int32
}

func (w *featWalker) head(chain []featOv) []string {
	t := []string{w.how, HexN(uint64(w.syntax)), HexN(uint64(uint32(w.ed))), HexN(uint64(len(chain)))}
	for _, o := range chain {
		t = featOvTokens(t, o)
	}
	return t
}
func (w *featWalker) resolve(kind string, chain []featOv, d protoreflect.Descriptor) {
	e, ok := featFeaturesOf(d)
	if !ok {
		w.c.PropFail("C38", "descriptor of unexpected Go type", fmt.Sprintf("%T", d))
		return
	}
	if w.how == "raw" && kind == "oneof" {
		// filedesc.Builder never fills OneofL1.EditionFeatures (nothing reads it): not compared
		w.c.Stat("raw-oneof-not-compared")
		return
	}
	if w.how == "raw" && kind == "enum" && chain[len(chain)-1] != (featOv{}) {
		// known finding FM3: Enum.unmarshalSeed ignores EnumOptions.features.  Recognised
		// narrowly: the enum has the features of its parent, unchanged.
		pe, _ := featFeaturesOf(d.Parent())
		if e == pe {
			own := chain[len(chain)-1]
			if own[1] != nil && (*own[1] == 1) != pe.IsOpenEnum {
				// FM3 (= FK1) was repaired in /repo by 42c075f; a recurrence is a violation
				w.c.PropFail("C38", "filedesc.Builder ignores features set on an enum: IsClosed() differs from the protodesc descriptor", string(d.FullName()))
			} else {
				w.c.Stat("known:FM3:invisible")
			}
			return
		}
		// anything else goes to the model comparison below
	}
	obs := featEfeatTokens(e)
	if ed, ok := d.(protoreflect.EnumDescriptor); ok {
		obs = append(obs, Tok(ed.IsClosed()))
	}
	w.c.Case("feat", "resolve", append(w.head(chain), kind), obs)
	w.c.Stat("leaf:" + kind)
}
func (w *featWalker) field(chain []featOv, fdp *descriptorpb.FieldDescriptorProto, fd protoreflect.FieldDescriptor, isExt, mapish bool) {
	e, ok := featFeaturesOf(fd)
	if !ok {
		w.c.PropFail("C38", "descriptor of unexpected Go type", fmt.Sprintf("%T", fd))
		return
	}
	in := w.head(chain)
	in = featOvTokens(in, featOvOf(fdp.GetOptions().GetFeatures()))
	po := "-"
	if fdp.GetOptions() != nil && fdp.GetOptions().Packed != nil {
		po = Tok(fdp.GetOptions().GetPacked())
	}
	in = append(in, HexN(uint64(fdp.GetLabel())), HexN(uint64(fdp.GetType())), po, Tok(fdp.OneofIndex != nil), Tok(isExt), Tok(mapish))
	obs := featEfeatTokens(e)
	obs = append(obs, HexN(uint64(fd.Cardinality())), HexN(uint64(fd.Kind())), Tok(fd.HasPresence()), Tok(fd.IsPacked()), Tok(strs.EnforceUTF8(fd)))
	w.c.Case("feat", "field", in, obs)
	// the property's own predicate: in an editions file the UTF-8 bit the codecs use is the
	// resolved utf8_validation feature
	if w.syntax == protoreflect.Editions && fd.Kind() == protoreflect.StringKind && strs.EnforceUTF8(fd) != e.IsUTF8Validated {
		if isExt && e.IsUTF8Validated {
			// known finding FM4: strs.EnforceUTF8 reads the feature only through
			// filedesc.Field.EnforceUTF8; extension descriptors fall through to "syntax == proto3"
			w.c.Known("FM4", "C38", "string extension in an editions file: utf8_validation resolves to VERIFY but EnforceUTF8 is false")
			w.c.Stat("known:FM4")
		} else {
			w.c.PropFail("C38", "EnforceUTF8 differs from the resolved utf8_validation feature", strings.Join(in, " "))
		}
	}
	if isExt {
		w.c.Stat("leaf:extension")
	} else {
		w.c.Stat("leaf:field")
	}
}

func (w *featWalker) enums(chain []featOv, eps []*descriptorpb.EnumDescriptorProto, eds protoreflect.EnumDescriptors) {
	for i, ep := range eps {
		w.resolve("enum", append(append([]featOv{}, chain...), featOvOf(ep.GetOptions().GetFeatures())), eds.Get(i))
	}
}
func (w *featWalker) exts(chain []featOv, xps []*descriptorpb.FieldDescriptorProto, xds protoreflect.ExtensionDescriptors) {
	for i, xp := range xps {
		w.field(chain, xp, xds.Get(i), true, false)
	}
}
func (w *featWalker) msgs(chain []featOv, mps []*descriptorpb.DescriptorProto, mds protoreflect.MessageDescriptors) {
	for i, mp := range mps {
		md := mds.Get(i)
		ch := append(append([]featOv{}, chain...), featOvOf(mp.GetOptions().GetFeatures()))
		w.resolve("msg", ch, md)
		entries := map[string]bool{}
		for _, n := range mp.NestedType {
			if n.GetOptions().GetMapEntry() {
				entries[n.GetName()] = true
			}
		}
		for j, fp := range mp.Field {
			tn := fp.GetTypeName()
			if k := strings.LastIndexByte(tn, '.'); k >= 0 {
				tn = tn[k+1:]
			}
			mapish := mp.GetOptions().GetMapEntry() || (fp.GetType() == descriptorpb.FieldDescriptorProto_TYPE_MESSAGE && entries[tn] && strings.HasSuffix(fp.GetTypeName(), "."+mp.GetName()+"."+tn))
			w.field(ch, fp, md.Fields().Get(j), false, mapish)
		}
		for j, op := range mp.OneofDecl {
			w.resolve("oneof", append(append([]featOv{}, ch...), featOvOf(op.GetOptions().GetFeatures())), md.Oneofs().Get(j))
		}
		w.enums(ch, mp.EnumType, md.Enums())
		w.msgs(ch, mp.NestedType, md.Messages())
		w.exts(ch, mp.Extension, md.Extensions())
	}
}

func featWalkFile(c *Ctx, how string, p *descriptorpb.FileDescriptorProto, fd protoreflect.FileDescriptor) {
	ed := int32(p.GetEdition())
	switch p.GetSyntax() {
	case "proto2", "":
		ed = 998
	case "proto3":
		ed = 999
	}
	w := &featWalker{c: c, how: how, syntax: fd.Syntax(), ed: ed}
	ch := []featOv{featOvOf(p.GetOptions().GetFeatures())}
	w.resolve("file", ch, fd)
	w.enums(ch, p.EnumType, fd.Enums())
	w.msgs(ch, p.MessageType, fd.Messages())
	w.exts(ch, p.Extension, fd.Extensions())
}

func featHasPackedAndFeature(p *descriptorpb.FileDescriptorProto) bool {
	found := false
	var fields func(fs []*descriptorpb.FieldDescriptorProto)
	fields = func(fs []*descriptorpb.FieldDescriptorProto) {
		for _, f := range fs {
			if o := f.GetOptions(); o != nil && o.Packed != nil && o.GetFeatures() != nil && o.GetFeatures().RepeatedFieldEncoding != nil {
				found = true
			}
		}
	}
	var walk func(ms []*descriptorpb.DescriptorProto)
	walk = func(ms []*descriptorpb.DescriptorProto) {
		for _, m := range ms {
			fields(m.Field)
			fields(m.Extension)
			walk(m.NestedType)
		}
	}
	fields(p.Extension)
	walk(p.MessageType)
	return found
}

func featSchemaCase(c *Ctx) {
	p := featFile(c)
	var fd protoreflect.FileDescriptor
	var err error
	func() {
		defer func() {
			if r := recover(); r != nil {
				err = fmt.Errorf("panic: %v", r)
				c.PropFail("C38", "protodesc.NewFile panics on a generated editions schema", fmt.Sprint(r), HexB(featMarshal(p)))
			}
		}()
		fd, err = protodesc.NewFile(p, nil)
	}()
	if err != nil {
		c.Stat("schema-rejected:" + dvalClass(dvalOutcome{"err", err.Error()}))
		return
	}
	c.Stat("schema:" + p.GetSyntax() + fmt.Sprint(int32(p.GetEdition())))
	featWalkFile(c, "pd", p, fd)
	// the same file through the raw-descriptor builder (generated-code path)
	if featHasPackedAndFeature(p) {
		// both a [packed] option and features.repeated_field_encoding on one field: protoc
		// rejects this, and the two builders order them differently; not compared
		c.Stat("raw-skipped:packed+feature")
		return
	}
	func() {
		defer func() {
			if r := recover(); r != nil {
				c.PropFail("C38", "filedesc.Builder panics on a schema that protodesc accepts", fmt.Sprint(r), HexB(featMarshal(p)))
			}
		}()
		out := filedesc.Builder{RawDescriptor: featMarshal(p), FileRegistry: &protoregistry.Files{}, TypeResolver: &protoregistry.Types{}}.Build()
		featWalkFile(c, "raw", p, out.File)
	}()
}

func featMarshal(p proto.Message) []byte {
	b, err := proto.MarshalOptions{Deterministic: true, AllowPartial: true}.Marshal(p)
	if err != nil {
		panic(err)
	}
	return b
}

// ---------------------------------------------------------------- behavioural equivalence of the message pairs

type featPair struct {
	name string
	a, b protoreflect.MessageType
}

// The two proto3 files name the values of their foreign enum differently
// (FOREIGN_PROTO3_x vs FOREIGN_PROTO3_EDITIONS_x); JSON / text documents are renamed when they
// cross from one member to the other.  Nothing else differs in naming.
func featToB(doc []byte) []byte {
	return bytes.ReplaceAll(doc, []byte("FOREIGN_PROTO3_"), []byte("FOREIGN_PROTO3_EDITIONS_"))
}
func featFromB(doc string) string {
	return strings.ReplaceAll(doc, "FOREIGN_PROTO3_EDITIONS_", "FOREIGN_PROTO3_")
}

func featPairs() []featPair {
	return []featPair{
		{"proto2", (&fuzzpb.TestAllTypesProto2{}).ProtoReflect().Type(), (&fuzzpb.TestAllTypesProto2Editions{}).ProtoReflect().Type()},
		{"proto3", (&fuzzpb.TestAllTypesProto3{}).ProtoReflect().Type(), (&fuzzpb.TestAllTypesProto3Editions{}).ProtoReflect().Type()},
	}
}

func featRandScalar(c *Ctx, fd protoreflect.FieldDescriptor) protoreflect.Value {
	switch fd.Kind() {
	case protoreflect.BoolKind:
		return protoreflect.ValueOfBool(c.Bool())
	case protoreflect.Int32Kind, protoreflect.Sint32Kind, protoreflect.Sfixed32Kind:
		return protoreflect.ValueOfInt32(int32(gbits(c)))
	case protoreflect.Int64Kind, protoreflect.Sint64Kind, protoreflect.Sfixed64Kind:
		return protoreflect.ValueOfInt64(int64(gbits(c)))
	case protoreflect.Uint32Kind, protoreflect.Fixed32Kind:
		return protoreflect.ValueOfUint32(uint32(gbits(c)))
	case protoreflect.Uint64Kind, protoreflect.Fixed64Kind:
		return protoreflect.ValueOfUint64(gbits(c))
	case protoreflect.FloatKind:
		return protoreflect.ValueOfFloat32([]float32{0, 1.5, -2.25, 3e38, 1e-40}[c.Intn(5)])
	case protoreflect.DoubleKind:
		return protoreflect.ValueOfFloat64([]float64{0, 1.5, -2.25, 1e308, 5e-324}[c.Intn(5)])
	case protoreflect.StringKind:
		s := []string{"", "a", "héllo", "\x00", "x\xffy", "\xc0\x80", "日本"}[c.Intn(7)]
		return protoreflect.ValueOfString(s)
	case protoreflect.BytesKind:
		return protoreflect.ValueOfBytes(c.Bytes(c.Intn(5)))
	case protoreflect.EnumKind:
		return protoreflect.ValueOfEnum(protoreflect.EnumNumber([]int32{0, 1, 2, -1, 3, 100, -7}[c.Intn(7)]))
	}
	panic("kind")
}

func featPopulate(c *Ctx, m protoreflect.Message, depth int) {
	fds := m.Descriptor().Fields()
	for i, k := 0, c.Intn(8); i < k; i++ {
		fd := fds.Get(c.Intn(fds.Len()))
		switch {
		case fd.IsMap():
			mp := m.Mutable(fd).Map()
			for j, kk := 0, 1+c.Intn(2); j < kk; j++ {
				key := featRandScalar(c, fd.MapKey()).MapKey()
				if fd.MapValue().Message() != nil {
					v := mp.NewValue()
					if depth > 0 {
						featPopulate(c, v.Message(), depth-1)
					}
					mp.Set(key, v)
				} else {
					mp.Set(key, featRandScalar(c, fd.MapValue()))
				}
			}
		case fd.IsList():
			l := m.Mutable(fd).List()
			for j, kk := 0, 1+c.Intn(3); j < kk; j++ {
				if fd.Message() != nil {
					v := l.NewElement()
					if depth > 0 {
						featPopulate(c, v.Message(), depth-1)
					}
					l.Append(v)
				} else {
					l.Append(featRandScalar(c, fd))
				}
			}
		case fd.Message() != nil:
			if depth > 0 {
				featPopulate(c, m.Mutable(fd).Message(), depth-1)
			} else {
				m.Mutable(fd)
			}
		default:
			m.Set(fd, featRandScalar(c, fd))
		}
	}
	if c.Intn(6) == 0 { // unknown fields
		var u []byte
		u = protowire.AppendTag(u, protowire.Number(5000+c.Intn(5)), protowire.VarintType)
		u = protowire.AppendVarint(u, c.U64())
		m.SetUnknown(u)
	}
}

func featMutateBytes(c *Ctx, b []byte) []byte {
	b = append([]byte(nil), b...)
	switch c.Intn(7) {
	case 0:
		if len(b) > 0 {
			b = b[:c.Intn(len(b))]
		}
	case 1:
		if len(b) > 0 {
			b[c.Intn(len(b))] ^= byte(1 << uint(c.Intn(8)))
		}
	case 2:
		if len(b) > 0 {
			i := c.Intn(len(b))
			b = append(b[:i], append(c.Bytes(1+c.Intn(3)), b[i:]...)...)
		}
	case 3:
		if len(b) > 1 {
			i := c.Intn(len(b) - 1)
			b = append(b[:i], b[i+1:]...)
		}
	case 4: // append a field with a wrong wire type for a known number
		num := protowire.Number(1 + c.Intn(125))
		b = protowire.AppendTag(b, num, protowire.Type([]int{0, 1, 2, 5, 3}[c.Intn(5)]))
		b = append(b, c.Bytes(c.Intn(9))...)
	case 5: // packed <-> unpacked for a repeated scalar: a length-delimited blob of varints
		num := protowire.Number(31 + c.Intn(15))
		b = protowire.AppendTag(b, num, protowire.BytesType)
		var pk []byte
		for j, k := 0, c.Intn(4); j < k; j++ {
			pk = protowire.AppendVarint(pk, gbits(c))
		}
		b = protowire.AppendBytes(b, pk)
	case 6: // group framing for the group / delimited fields 16, 46, 121
		num := protowire.Number([]int{16, 46, 121, 18}[c.Intn(4)])
		b = protowire.AppendTag(b, num, protowire.StartGroupType)
		if c.Bool() {
			b = protowire.AppendTag(b, 17, protowire.VarintType)
			b = protowire.AppendVarint(b, 7)
		}
		if c.Intn(4) != 0 {
			b = protowire.AppendTag(b, num, protowire.EndGroupType)
		}
	}
	return b
}

type featResult struct {
	ok  bool
	det []byte
	sz  int
	js  string
	jok bool
	tx  string
	tok bool
}

func featObserveWire(mt protoreflect.MessageType, in []byte) (r featResult, pan string) {
	defer func() {
		if x := recover(); x != nil {
			pan = fmt.Sprint(x)
		}
	}()
	m := mt.New().Interface()
	err := proto.UnmarshalOptions{}.Unmarshal(in, m)
	r.ok = err == nil
	if !r.ok {
		// a partial message (missing required fields) is still comparable
		if err2 := (proto.UnmarshalOptions{AllowPartial: true}).Unmarshal(in, mt.New().Interface()); err2 != nil {
			return
		}
		m = mt.New().Interface()
		proto.UnmarshalOptions{AllowPartial: true}.Unmarshal(in, m)
	}
	r.det, _ = proto.MarshalOptions{Deterministic: true, AllowPartial: true}.Marshal(m)
	r.sz = proto.Size(m)
	js, err := protojson.MarshalOptions{AllowPartial: true}.Marshal(m)
	r.js, r.jok = string(js), err == nil
	tx, err := prototext.MarshalOptions{AllowPartial: true}.Marshal(m)
	r.tx, r.tok = string(tx), err == nil
	r.js, r.tx = featFromB(r.js), featFromB(r.tx)
	return
}

func featObserveText(mt protoreflect.MessageType, json bool, in []byte) (ok bool, det []byte, pan string) {
	defer func() {
		if x := recover(); x != nil {
			pan = fmt.Sprint(x)
		}
	}()
	m := mt.New().Interface()
	var err error
	if json {
		err = protojson.UnmarshalOptions{AllowPartial: true}.Unmarshal(in, m)
	} else {
		err = prototext.UnmarshalOptions{AllowPartial: true}.Unmarshal(in, m)
	}
	if err != nil {
		return false, nil, ""
	}
	det, _ = proto.MarshalOptions{Deterministic: true, AllowPartial: true}.Marshal(m)
	return true, det, ""
}

func featPairCase(c *Ctx, pr featPair) {
	m := pr.a.New()
	featPopulate(c, m, 2)
	wire, _ := proto.MarshalOptions{AllowPartial: true}.Marshal(m.Interface())
	switch c.Intn(4) {
	case 0:
	case 1:
		wire = c.Bytes(c.Intn(24))
	default:
		for j, k := 0, 1+c.Intn(2); j < k; j++ {
			wire = featMutateBytes(c, wire)
		}
	}
	ra, pa := featObserveWire(pr.a, wire)
	rb, pb := featObserveWire(pr.b, wire)
	in := HexB(wire)
	c.Stat("pair:" + pr.name)
	if pa != "" || pb != "" {
		c.PropFail("C38", "panic while decoding/encoding a pair member: "+pa+" / "+pb, pr.name, in)
		return
	}
	if ra.ok {
		c.Stat("pair-wire-ok:" + pr.name)
	}
	switch {
	case ra.ok != rb.ok:
		c.PropFail("C38", fmt.Sprintf("wire Unmarshal verdicts differ (%v vs %v)", ra.ok, rb.ok), pr.name, in)
	case !bytes.Equal(ra.det, rb.det):
		c.PropFail("C38", "re-marshalled deterministic bytes differ", pr.name, in, HexB(ra.det), HexB(rb.det))
	case ra.sz != rb.sz:
		c.PropFail("C38", "proto.Size differs", pr.name, in)
	case ra.jok != rb.jok || ra.js != rb.js:
		c.PropFail("C38", "protojson.Marshal differs", pr.name, in, ra.js, rb.js)
	case ra.tok != rb.tok || ra.tx != rb.tx:
		c.PropFail("C38", "prototext.Marshal differs", pr.name, in, ra.tx, rb.tx)
	}
	// JSON / text documents: the marshalled forms and light mutations of them
	for _, isJSON := range []bool{true, false} {
		doc := ra.tx
		if isJSON {
			doc = ra.js
		}
		if doc == "" {
			continue
		}
		d := []byte(doc)
		if c.Intn(3) == 0 && len(d) > 0 {
			switch c.Intn(3) {
			case 0:
				d = d[:c.Intn(len(d))]
			case 1:
				d[c.Intn(len(d))] = "\"{}[]:,0a \\"[c.Intn(11)]
			case 2:
				i := c.Intn(len(d))
				d = append(d[:i], append([]byte{d[i]}, d[i:]...)...)
			}
		}
		oka, da, p1 := featObserveText(pr.a, isJSON, d)
		okb, db, p2 := featObserveText(pr.b, isJSON, featToB(d))
		fmtName := map[bool]string{true: "protojson", false: "prototext"}[isJSON]
		if p1 != "" || p2 != "" {
			c.PropFail("C38", fmtName+".Unmarshal panics: "+p1+" / "+p2, pr.name, HexB(d))
		} else if oka != okb {
			c.PropFail("C38", fmt.Sprintf("%s.Unmarshal verdicts differ (%v vs %v)", fmtName, oka, okb), pr.name, HexB(d))
		} else if !bytes.Equal(da, db) {
			c.PropFail("C38", fmtName+".Unmarshal results differ", pr.name, HexB(d))
		}
		if oka {
			c.Stat("pair-" + fmtName + "-ok")
		}
	}
}

func famFeat(c *Ctx) {
	pairs := featPairs()
	// corpus: the repository's own two fuzz seeds and a few boundary inputs
	for _, pr := range pairs {
		for _, seed := range [][]byte{[]byte("Hello World!"), []byte("\x82\x01\x010"), {}, {0x80, 0x01, 0x03}, {0xf2, 0x01, 0x02, 0xff, 0xfe}, {0x72, 0x02, 0xc0, 0x80}} {
			ra, pa := featObserveWire(pr.a, seed)
			rb, pb := featObserveWire(pr.b, seed)
			if pa != "" || pb != "" || ra.ok != rb.ok || !bytes.Equal(ra.det, rb.det) || ra.js != rb.js || ra.tx != rb.tx {
				c.PropFail("C38", "pair members disagree on a corpus input", pr.name, HexB(seed))
			}
			c.Stat("pair-corpus")
		}
	}
	// the generated descriptors of the pair: NestedEnum is CLOSED in both schemas
	{
		a := fuzzpb.TestAllTypesProto2_FOO.Descriptor().IsClosed()
		b := fuzzpb.TestAllTypesProto2Editions_FOO.Descriptor().IsClosed()
		switch {
		case a && !b:
			c.PropFail("C38", "TestAllTypesProto2Editions.NestedEnum (option features.enum_type = CLOSED) reports IsClosed() = false (regression of the repaired FM3/FK1)")
		case a != b:
			c.PropFail("C38", "NestedEnum closedness differs between the proto2 pair members", fmt.Sprint(a, b))
		}
	}
	for i := 0; i < c.N; i++ {
		switch i % 3 {
		case 0:
			featSchemaCase(c)
		default:
			featPairCase(c, pairs[c.Intn(len(pairs))])
		}
	}
}
