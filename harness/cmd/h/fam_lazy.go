//go:build verif

package main

// family "lazy": C17 -- lazy decoding is observationally equivalent to eager decoding.
//
// For every input two messages are decoded from the same bytes, one with lazy decoding (the
// default) and one with NoLazyDecoding; then one random access script (reads, writes, Size,
// Marshal, Equal, Clone, Merge, CheckInitialized, JSON/text) is applied to both, and every
// observation is compared.
//
// Case lines (model-compared, model = Msg/LazyModel.v):
//	lz <schema id> <limit> <bytes> <script...>  | <verdict> <per-op observations...>
//	    script tokens: see lazyScriptTokens; observations: see ocaml/fam_lazy.ml
// P lines: any observable differs between lazy and eager (verdict, dump, presence, Equal,
// CheckInitialized, deterministic bytes, JSON/text); any panic on access after a successful
// Unmarshal; Size != len(Marshal) -- except the recognised classes F1 and FWB2.

import (
	"fmt"
	"reflect"
	"sort"
	"strings"

	"google.golang.org/protobuf/encoding/protojson"
	"google.golang.org/protobuf/encoding/prototext"
	"google.golang.org/protobuf/encoding/protowire"
	"google.golang.org/protobuf/internal/impl"
	"google.golang.org/protobuf/proto"
	"google.golang.org/protobuf/reflect/protoreflect"
)

func init() { Register("lazy", famLazy) }

type lazyTarget struct {
	mt   protoreflect.MessageType
	md   protoreflect.MessageDescriptor
	id   string
	own  bool // the message type itself has lazy fields and a lazy-capable (opaque) implementation
	lazy []protoreflect.FieldDescriptor
	raw  bool // Marshal of this type is deterministic without the option (no maps, no extensions reachable)
}

// lazyRawOK: no map field and no extension range reachable from md.
func lazyRawOK(md protoreflect.MessageDescriptor, seen map[protoreflect.FullName]bool) bool {
	if seen[md.FullName()] {
		return true
	}
	seen[md.FullName()] = true
	if md.ExtensionRanges().Len() > 0 {
		return false
	}
	fds := md.Fields()
	for i := 0; i < fds.Len(); i++ {
		fd := fds.Get(i)
		if fd.IsMap() {
			return false
		}
		if sub := fd.Message(); sub != nil && !lazyRawOK(sub, seen) {
			return false
		}
	}
	return true
}

// ---------------------------------------------------------------- inputs

func lazyFillBytes(c *Ctx, mt protoreflect.MessageType, depth int, maxBudget int) []byte {
	var det []byte
	func() {
		defer func() { recover() }()
		m := mt.New()
		budget := 2 + c.Intn(maxBudget)
		msgRandomFillOpts(c, m, depth, msgFillOpts{budget: &budget, badUTF8: false, unknown: c.Intn(3) == 0, dense: c.Intn(6) == 0})
		det, _ = msgDetOpts.Marshal(m.Interface())
	}()
	return det
}

func lazyTypeOf(md protoreflect.MessageDescriptor) protoreflect.MessageType {
	for _, mt := range msgAllTypes() {
		if mt.Descriptor() == md {
			return mt
		}
	}
	return nil
}

// lazyAimed builds a top-level field sequence around the lazy fields of md: several occurrences of
// a lazy field (contiguous, separated by other fields, out of order), empty payloads, nested
// aimed payloads, wrong-wire-type occurrences (F1), unknown fields, other known scalars.
func lazyAimed(c *Ctx, t *lazyTarget, depth int, allowF1 bool) []byte {
	md := t.md
	type piece struct {
		num protowire.Number
		b   []byte
	}
	var pieces []piece
	var scalars []protoreflect.FieldDescriptor
	fds := md.Fields()
	for i := 0; i < fds.Len(); i++ {
		fd := fds.Get(i)
		if fd.Message() == nil && !fd.IsList() && !fd.IsMap() {
			scalars = append(scalars, fd)
		}
	}
	n := 1 + c.Intn(6)
	for k := 0; k < n; k++ {
		r := c.Intn(12)
		switch {
		case r < 6 && len(t.lazy) > 0:
			fd := t.lazy[c.Intn(len(t.lazy))]
			var payload []byte
			sub := lazyTypeOf(fd.Message())
			switch c.Intn(5) {
			case 0: // empty
			case 1:
				if depth > 0 && sub != nil {
					if st := lazyTargetOf(sub); st != nil {
						payload = lazyAimed(c, st, depth-1, allowF1)
						break
					}
				}
				fallthrough
			default:
				if sub != nil {
					payload = lazyFillBytes(c, sub, 1+c.Intn(2), 12)
					if c.Intn(3) == 0 {
						payload = msgRewrite(c, fd.Message(), payload, 2)
					}
				}
			}
			b := msgAppendVarintPadded(c, nil, protowire.EncodeTag(fd.Number(), protowire.BytesType), c.Intn(4) == 0)
			b = msgAppendVarintPadded(c, b, uint64(len(payload)), c.Intn(4) == 0)
			b = append(b, payload...)
			pieces = append(pieces, piece{fd.Number(), b})
			if c.Intn(3) == 0 { // a contiguous second occurrence
				pieces = append(pieces, piece{fd.Number(), append([]byte(nil), b...)})
			}
		case r == 6 && allowF1 && len(t.lazy) > 0:
			fd := t.lazy[c.Intn(len(t.lazy))]
			typ := []protowire.Type{0, 1, 5, 3}[c.Intn(4)]
			b := protowire.AppendTag(nil, fd.Number(), typ)
			b = msgGenWireValue(c, b, fd.Number(), typ, 1)
			pieces = append(pieces, piece{fd.Number(), b})
		case r < 10 && len(scalars) > 0:
			fd := scalars[c.Intn(len(scalars))]
			pieces = append(pieces, piece{fd.Number(), msgAppendScalarField(nil, fd.Number(), fd, msgScalar(c, fd, false))})
		default:
			pieces = append(pieces, piece{0, msgGenUnknown(c, md)})
		}
	}
	switch c.Intn(3) {
	case 0: // in field-number order
		sort.SliceStable(pieces, func(i, j int) bool { return pieces[i].num < pieces[j].num })
	case 1: // shuffled
		for i := len(pieces) - 1; i > 0; i-- {
			j := c.Intn(i + 1)
			pieces[i], pieces[j] = pieces[j], pieces[i]
		}
	}
	var out []byte
	for _, p := range pieces {
		out = append(out, p.b...)
	}
	return out
}

var lazyTargets []*lazyTarget

func lazyTargetOf(mt protoreflect.MessageType) *lazyTarget {
	for _, t := range lazyTargets {
		if t.mt == mt {
			return t
		}
	}
	return nil
}

// ---------------------------------------------------------------- scripts

type lazyOp struct {
	name  string
	path  []protowire.Number // singular message fields from the root
	fd    protowire.Number
	val   protoreflect.Value
	bytes []byte
}

func (o lazyOp) String() string {
	s := o.name
	if len(o.path) > 0 || o.fd != 0 {
		s += fmt.Sprintf("%v.%d", o.path, o.fd)
	}
	if o.bytes != nil {
		s += ":" + HexB(o.bytes)
	}
	return s
}

var lazyJSON = protojson.MarshalOptions{AllowPartial: true}
var lazyText = prototext.MarshalOptions{AllowPartial: true}

// lazyNav follows path; write = through Mutable (creating sub-messages), else through Get.
func lazyNav(m protoreflect.Message, path []protowire.Number, write bool) protoreflect.Message {
	for _, n := range path {
		fd := msgFindField(m.Descriptor(), n)
		if fd == nil || fd.Message() == nil || fd.IsList() || fd.IsMap() {
			return nil
		}
		if write {
			if fd.IsExtension() {
				return nil
			}
			m = m.Mutable(fd).Message()
		} else {
			m = m.Get(fd).Message()
		}
	}
	return m
}

func lazyFieldObs(m protoreflect.Message, fd protoreflect.FieldDescriptor) []string {
	v := m.Get(fd)
	switch {
	case fd.IsMap():
		return []string{"map", fmt.Sprint(v.Map().Len())}
	case fd.IsList():
		return []string{"list", fmt.Sprint(v.List().Len())}
	case fd.Message() != nil:
		if !v.Message().IsValid() {
			return []string{"nilmsg"}
		}
		return msgDump(v.Message())
	default:
		return []string{msgScalarToken(fd, v)}
	}
}

// lazyApply runs one operation on m and returns what it observed.  ref: an independent eager
// decode of the same input (for Equal); newEager decodes bytes eagerly into a fresh message.
func lazyApply(op lazyOp, m protoreflect.Message, nolazy bool, ref protoreflect.Message, newEager func(md protoreflect.MessageDescriptor, b []byte) protoreflect.Message) (obs []string) {
	defer func() {
		if r := recover(); r != nil {
			obs = []string{"panic", fmt.Sprint(r)}
		}
	}()
	switch op.name {
	case "dump":
		return msgDump(m)
	case "has", "get", "clear", "set", "mutable", "setmsg", "unknown":
		write := op.name == "clear" || op.name == "set" || op.name == "mutable" || op.name == "setmsg"
		sub := lazyNav(m, op.path, write)
		if sub == nil {
			return []string{"nopath"}
		}
		if op.name == "unknown" {
			return []string{HexB(sub.GetUnknown())}
		}
		fd := msgFindField(sub.Descriptor(), op.fd)
		if fd == nil {
			return []string{"nofield"}
		}
		switch op.name {
		case "has":
			return []string{Tok(sub.Has(fd))}
		case "get":
			return lazyFieldObs(sub, fd)
		case "clear":
			if !sub.IsValid() {
				return []string{"readonly"}
			}
			sub.Clear(fd)
			return []string{"done", Tok(sub.Has(fd))}
		case "set":
			sub.Set(fd, op.val)
			return []string{"done"}
		case "mutable":
			if fd.IsExtension() {
				return []string{"skip"}
			}
			return msgDump(sub.Mutable(fd).Message())
		case "setmsg":
			nm := newEager(fd.Message(), op.bytes)
			if nm == nil {
				return []string{"skip"}
			}
			sub.Set(fd, protoreflect.ValueOfMessage(nm))
			return []string{"done"}
		}
	case "detmarshal":
		b, err := msgDetOpts.Marshal(m.Interface())
		if err != nil {
			return []string{"err", msgErrClass(err)}
		}
		return []string{HexB(b), fmt.Sprint(msgDetOpts.Size(m.Interface()))}
	case "marshal":
		// not deterministic and, for a still-lazy field, the retained bytes: compare what it decodes to
		sz := proto.MarshalOptions{AllowPartial: true}.Size(m.Interface())
		b, err := proto.MarshalOptions{AllowPartial: true}.Marshal(m.Interface())
		if err != nil {
			return []string{"err", msgErrClass(err)}
		}
		if sz != len(b) {
			return []string{"size-mismatch", fmt.Sprint(sz), fmt.Sprint(len(b))}
		}
		m2 := newEager(m.Descriptor(), b)
		if m2 == nil {
			return []string{"undecodable", HexB(b)}
		}
		return msgDump(m2)
	case "strictmarshal":
		_, err := proto.MarshalOptions{}.Marshal(m.Interface())
		return []string{Tok(err == nil)}
	case "equal":
		return []string{Tok(proto.Equal(m.Interface(), ref.Interface())), Tok(proto.Equal(ref.Interface(), m.Interface()))}
	case "clone":
		return msgDump(proto.Clone(m.Interface()).ProtoReflect())
	case "checkinit":
		return []string{Tok(proto.CheckInitialized(m.Interface()) == nil)}
	case "json":
		b, err := lazyJSON.Marshal(m.Interface())
		if err != nil {
			return []string{"err"}
		}
		return []string{HexB(b)}
	case "text":
		b, err := lazyText.Marshal(m.Interface())
		if err != nil {
			return []string{"err"}
		}
		return []string{HexB(b)}
	case "mergeunmarshal":
		err := proto.UnmarshalOptions{Merge: true, AllowPartial: true}.Unmarshal(op.bytes, m.Interface())
		if err != nil {
			return []string{"err"} // the class may differ; the content after a failed merge is unspecified
		}
		return []string{"ok"}
	case "reunmarshal":
		// Unmarshal without Merge resets the message first; m is decoded in its own mode again
		err := proto.UnmarshalOptions{AllowPartial: true, NoLazyDecoding: nolazy}.Unmarshal(op.bytes, m.Interface())
		if err != nil {
			return []string{"err"}
		}
		return []string{"ok"}
	case "mergefrom":
		src := newEager(m.Descriptor(), op.bytes)
		if src == nil {
			return []string{"skip"}
		}
		proto.Merge(m.Interface(), src.Interface())
		return []string{"done"}
	case "mergeinto":
		dst := newEager(m.Descriptor(), op.bytes)
		if dst == nil {
			return []string{"skip"}
		}
		proto.Merge(dst.Interface(), m.Interface())
		return msgDump(dst)
	case "size":
		// Size of a still-lazy field is the retained length; only its agreement with Marshal is checked
		sz := proto.Size(m.Interface())
		b, err := proto.MarshalOptions{AllowPartial: true}.Marshal(m.Interface())
		if err != nil {
			return []string{"err"}
		}
		return []string{Tok(sz == len(b))}
	}
	return []string{"?"}
}

// lazyPaths lists the singular-message-field paths (by number) of md up to a depth.
func lazyPaths(md protoreflect.MessageDescriptor, depth int, prefix []protowire.Number, out *[][]protowire.Number) {
	*out = append(*out, append([]protowire.Number(nil), prefix...))
	if depth == 0 {
		return
	}
	fds := md.Fields()
	for i := 0; i < fds.Len(); i++ {
		fd := fds.Get(i)
		if fd.Message() != nil && !fd.IsList() && !fd.IsMap() && (msgIsLazyField(fd) || msgHasLazy(fd.Message())) {
			lazyPaths(fd.Message(), depth-1, append(prefix, fd.Number()), out)
		}
	}
}

func lazyMdAt(md protoreflect.MessageDescriptor, path []protowire.Number) protoreflect.MessageDescriptor {
	for _, n := range path {
		md = md.Fields().ByNumber(n).Message()
	}
	return md
}

func lazyScript(c *Ctx, t *lazyTarget, second []byte) []lazyOp {
	var paths [][]protowire.Number
	lazyPaths(t.md, 2, nil, &paths)
	var ops []lazyOp
	// what the retained bytes of a still-lazy field are used for: Marshal and Size before anything is read
	switch c.Intn(4) {
	case 0:
		ops = append(ops, lazyOp{name: "marshal"})
	case 1:
		ops = append(ops, lazyOp{name: "size"}, lazyOp{name: "marshal"})
	}
	n := 1 + c.Intn(7)
	for k := 0; k < n; k++ {
		path := paths[c.Intn(len(paths))]
		md := lazyMdAt(t.md, path)
		fds := md.Fields()
		var fd protoreflect.FieldDescriptor
		if fds.Len() > 0 {
			fd = fds.Get(c.Intn(fds.Len()))
			// prefer the lazy fields and their neighbours
			if c.Intn(2) == 0 {
				for i := 0; i < fds.Len(); i++ {
					if msgIsLazyField(fds.Get(i)) && c.Intn(2) == 0 {
						fd = fds.Get(i)
						break
					}
				}
			}
		}
		r := c.Intn(24)
		switch {
		case r < 3 && fd != nil:
			ops = append(ops, lazyOp{name: "has", path: path, fd: fd.Number()})
		case r < 6 && fd != nil:
			ops = append(ops, lazyOp{name: "get", path: path, fd: fd.Number()})
		case r < 8 && fd != nil:
			ops = append(ops, lazyOp{name: "clear", path: path, fd: fd.Number()})
		case r < 10 && fd != nil:
			if fd.Message() == nil && !fd.IsList() && !fd.IsMap() {
				ops = append(ops, lazyOp{name: "set", path: path, fd: fd.Number(), val: msgScalar(c, fd, false)})
			} else if fd.Message() != nil && !fd.IsList() && !fd.IsMap() {
				ops = append(ops, lazyOp{name: "mutable", path: path, fd: fd.Number()})
			}
		case r == 10 && fd != nil && fd.Message() != nil && !fd.IsList() && !fd.IsMap():
			var b []byte
			if sub := lazyTypeOf(fd.Message()); sub != nil && c.Bool() {
				b = lazyFillBytes(c, sub, 1, 8)
			}
			ops = append(ops, lazyOp{name: "setmsg", path: path, fd: fd.Number(), bytes: append([]byte{}, b...)})
		case r == 11:
			ops = append(ops, lazyOp{name: "unknown", path: path})
		case r == 12:
			ops = append(ops, lazyOp{name: "dump"})
		case r == 13:
			ops = append(ops, lazyOp{name: "detmarshal"})
		case r == 14:
			ops = append(ops, lazyOp{name: "marshal"})
		case r == 15:
			ops = append(ops, lazyOp{name: "equal"})
		case r == 16:
			ops = append(ops, lazyOp{name: "clone"})
		case r == 17:
			ops = append(ops, lazyOp{name: "checkinit"}, lazyOp{name: "strictmarshal"})
		case r == 18:
			ops = append(ops, lazyOp{name: "json"})
		case r == 19:
			ops = append(ops, lazyOp{name: "text"})
		case r == 20:
			if c.Bool() {
				ops = append(ops, lazyOp{name: "reunmarshal", bytes: append([]byte{}, second...)}, lazyOp{name: "marshal"})
			} else {
				ops = append(ops, lazyOp{name: "mergeunmarshal", bytes: append([]byte{}, second...)})
			}
		case r == 21:
			ops = append(ops, lazyOp{name: "mergefrom", bytes: append([]byte{}, second...)})
		case r == 22:
			ops = append(ops, lazyOp{name: "mergeinto", bytes: append([]byte{}, second...)})
		default:
			ops = append(ops, lazyOp{name: "size"})
		}
	}
	// always end with the full observation
	ops = append(ops, lazyOp{name: "equal"}, lazyOp{name: "detmarshal"}, lazyOp{name: "dump"})
	return ops
}

// ---------------------------------------------------------------- one input

// lazyNeedsInit: some lazy field of md (or of a message reachable through message fields) has a
// message type that needs an initialization check -- the class of finding FWB2.
func lazyReachesRequired(md protoreflect.MessageDescriptor, seen map[protoreflect.FullName]bool) bool {
	if seen[md.FullName()] {
		return false
	}
	seen[md.FullName()] = true
	if md.RequiredNumbers().Len() > 0 {
		return true
	}
	fds := md.Fields()
	for i := 0; i < fds.Len(); i++ {
		fd := fds.Get(i)
		if fd.IsMap() {
			fd = fd.MapValue()
		}
		if sub := fd.Message(); sub != nil && lazyReachesRequired(sub, seen) {
			return true
		}
	}
	return false
}

func lazyFWB2Class(md protoreflect.MessageDescriptor, seen map[protoreflect.FullName]bool) bool {
	if seen[md.FullName()] {
		return false
	}
	seen[md.FullName()] = true
	fds := md.Fields()
	for i := 0; i < fds.Len(); i++ {
		fd := fds.Get(i)
		if msgIsLazyField(fd) && lazyReachesRequired(fd.Message(), map[protoreflect.FullName]bool{}) {
			return true
		}
		if fd.IsMap() {
			fd = fd.MapValue()
		}
		if sub := fd.Message(); sub != nil && lazyFWB2Class(sub, seen) {
			return true
		}
	}
	return false
}

func lazyDecode(mt protoreflect.MessageType, b []byte, nolazy, allowPartial bool, limit int) (m protoreflect.Message, class string) {
	defer func() {
		if r := recover(); r != nil {
			class = "panic: " + fmt.Sprint(r)
		}
	}()
	m = mt.New()
	err := proto.UnmarshalOptions{NoLazyDecoding: nolazy, AllowPartial: allowPartial, RecursionLimit: limit}.Unmarshal(b, m.Interface())
	return m, dectotClass(err)
}

func lazyOne(c *Ctx, t *lazyTarget, b []byte, second []byte, what string, fixed ...lazyOp) {
	c.Stat("in_" + what)
	name := string(t.md.FullName())
	f1 := msgF1Class(t.md, b)
	if f1 {
		c.Stat("input_F1_class")
	}
	fail := func(msg string, extra ...string) {
		c.PropFail("C17", msg+" ("+name+", "+what+")", append([]string{HexB(b)}, extra...)...)
	}
	limit := 0
	if c.Intn(8) == 0 {
		limit = 1 + c.Intn(6)
	}
	if lazyForceLimit > 0 {
		limit = lazyForceLimit
	}
	// verdicts
	mL, cL := lazyDecode(t.mt, b, false, true, limit)
	mE, cE := lazyDecode(t.mt, b, true, true, limit)
	if strings.HasPrefix(cL, "panic") || strings.HasPrefix(cE, "panic") {
		fail("panic in Unmarshal: " + cL + " / " + cE)
		return
	}
	c.Stat("verdict_" + cE)
	if (cL == "ok") != (cE == "ok") {
		effLim := limit
		if effLim == 0 {
			effLim = protowire.DefaultRecursionLimit
		}
		if cL == "ok" && cE == "e2" && dectotMapWtAtLimit(t.md, b, effLim-1) {
			c.Known("FWB4", "C17", "a map field with a non-LEN wire type at the recursion limit inside a lazy field")
			c.Stat("known_FWB4")
			return
		}
		fail("Unmarshal verdicts differ: lazy " + cL + ", eager " + cE)
		return
	}
	if cL != cE {
		c.Stat("error_class_differs_" + cL + "_" + cE)
	}
	_, sL := lazyDecode(t.mt, b, false, false, limit)
	_, sE := lazyDecode(t.mt, b, true, false, limit)
	if (sL == "ok") != (sE == "ok") {
		if sL == "ok" && sE == "e4" && lazyFWB2Class(t.md, map[protoreflect.FullName]bool{}) {
			c.Known("FWB2", "C17", "strict lazy Unmarshal accepts a message whose lazy field lacks a required field")
			c.Stat("known_FWB2")
		} else {
			fail("strict Unmarshal verdicts differ: lazy " + sL + ", eager " + sE)
		}
	}
	lazyCase(c, t, b, limit, cL, sL)
	if cE != "ok" {
		return
	}
	// an independent reference and the script
	newEager := func(md protoreflect.MessageDescriptor, in []byte) protoreflect.Message {
		mt := lazyTypeOf(md)
		if mt == nil {
			return nil
		}
		m := mt.New()
		if err := (proto.UnmarshalOptions{NoLazyDecoding: true, AllowPartial: true}).Unmarshal(in, m.Interface()); err != nil {
			return nil
		}
		return m
	}
	ref := newEager(t.md, b)
	if ref == nil {
		fail("the reference decode failed")
		return
	}
	// is any field still lazy?  (statistics: how often the scripts start from retained bytes)
	script := fixed
	if script == nil {
		script = lazyScript(c, t, second)
	}
	f1 = f1 || func() bool {
		for _, op := range script {
			if op.bytes != nil && (op.name == "mergeunmarshal" || op.name == "reunmarshal") && msgF1Class(t.md, op.bytes) {
				return true
			}
		}
		return false
	}()
	var names []string
	for _, op := range script {
		names = append(names, op.String())
	}
	for i, op := range script {
		oL := lazyApply(op, mL, false, ref, newEager)
		oE := lazyApply(op, mE, true, ref, newEager)
		c.Stat("op_" + op.name)
		if len(oL) > 0 && oL[0] == "panic" && !(len(oE) > 0 && oE[0] == "panic") {
			fail(fmt.Sprintf("panic on access after a successful Unmarshal: op %d %s: %s", i, op.String(), oL[1]), strings.Join(names, " "))
			return
		}
		if len(oL) > 0 && (oL[0] == "size-mismatch" || oL[0] == "undecodable") {
			if f1 {
				c.Known("F1", "C17", "lazy decoding duplicates a wrong-wire-type occurrence of a lazy field")
				c.Stat("known_F1")
				return
			}
			fail(fmt.Sprintf("Marshal of the lazily decoded message: %s (op %d)", strings.Join(oL, " "), i), strings.Join(names, " "))
			return
		}
		if msgEqualToks(oL, oE) && (op.name == "reunmarshal" || op.name == "mergeunmarshal") && oL[0] == "err" {
			c.Stat("script_stopped_after_failed_unmarshal")
			return
		}
		if !msgEqualToks(oL, oE) {
			switch {
			case f1:
				c.Known("F1", "C17", "lazy decoding duplicates a wrong-wire-type occurrence of a lazy field")
				c.Stat("known_F1")
			case (op.name == "checkinit" || op.name == "strictmarshal") && oL[0] == "1" && oE[0] == "0" &&
				lazyFWB2Class(t.md, map[protoreflect.FullName]bool{}):
				c.Known("FWB2", "C17", "CheckInitialized/Marshal skip the required-field check of a still-lazy field")
				c.Stat("known_FWB2")
				continue
			default:
				fail(fmt.Sprintf("observation differs at op %d %s: lazy %s / eager %s", i, op.String(),
					lazyShort(oL), lazyShort(oE)), strings.Join(names, " "))
			}
			return
		}
	}
	c.Stat("scripts_equal")
}

// lazySNaN32 reports whether the (well-formed) input holds a signalling NaN in a float field.
// protoreflect hands float32 values out as float64; the conversion quiets the NaN, so the dump
// (through reflection) cannot show the stored bits.  Such inputs get no dump comparison.
func lazySNaN32(md protoreflect.MessageDescriptor, b []byte) bool {
	roots, ok := dectotParse(md, b, 8)
	if !ok {
		return false
	}
	var all []*dectotNode
	dectotCollect(roots, &all)
	snan := func(bits uint32) bool { return bits&0x7f800000 == 0x7f800000 && bits&0x007fffff != 0 && bits&0x00400000 == 0 }
	for _, nd := range all {
		if nd.fd == nil || nd.fd.Kind() != protoreflect.FloatKind {
			continue
		}
		raw := nd.raw
		if nd.typ != protowire.Fixed32Type && nd.typ != protowire.BytesType {
			continue
		}
		for len(raw) >= 4 {
			if snan(uint32(raw[0]) | uint32(raw[1])<<8 | uint32(raw[2])<<16 | uint32(raw[3])<<24) {
				return true
			}
			raw = raw[4:]
		}
	}
	return false
}

// lazyCase emits the model-compared observation of one input: the lazy verdicts, Marshal of the
// untouched message (the retained bytes of still-lazy fields) and the dump after reading everything.
func lazyCase(c *Ctx, t *lazyTarget, b []byte, limit int, cL, sL string) {
	if !t.own || (limit != 0 && !msgDepthExact(t.mt)) {
		// the model describes a message type whose own struct retains lazy fields
		return
	}
	if sL == "ok" || sL == "e4" {
		// the fast path's initialized shortcut (finding FWB5) is outside the model
		if m, cl := lazyDecode(t.mt, b, true, true, limit); cl == "ok" && dectotFWB5Class(m, 50) {
			c.Stat("case_skipped_FWB5")
			return
		}
	}
	if cL == "ok" && lazySNaN32(t.md, b) {
		c.Stat("case_skipped_snan32")
		return
	}
	if t.id == "" {
		t.id = msgSchemaOf(c, t.md)
	}
	lim := limit
	if lim == 0 {
		lim = protowire.DefaultRecursionLimit
	}
	in := []string{t.id, HexN(uint64(lim)), HexB(b), Tok(t.raw)}
	if cL != "ok" {
		c.Case("lazy", "lz", in, []string{cL})
		return
	}
	defer func() {
		if r := recover(); r != nil {
			c.PropFail("C17", fmt.Sprintf("panic while observing the lazily decoded message (%s): %v", t.md.FullName(), r), HexB(b))
		}
	}()
	m, _ := lazyDecode(t.mt, b, false, true, limit)
	raw := "-"
	if t.raw {
		out, err := proto.MarshalOptions{AllowPartial: true}.Marshal(m.Interface())
		if err != nil {
			raw = "err"
		} else {
			raw = HexB(out)
		}
	}
	c.Case("lazy", "lz", in, append([]string{cL, sL, raw}, msgDump(m)...))
}

var lazyForceLimit int

// lazyBreadth: inside a lazy field, many sequential occurrences of a depth-consuming construct
// (or a boundary-numbered field in some nesting context) under a small RecursionLimit that the
// real nesting fits: the validation-only pass and the eager decoder must agree.
func lazyBreadth(c *Ctx, t *lazyTarget) (b []byte, limit int, what string) {
	fd := t.lazy[c.Intn(len(t.lazy))]
	sub := fd.Message()
	var payload []byte
	cost := 0
	if c.Intn(4) == 0 {
		extra := dectotBoundaryField(c)
		payload, _, cost = dectotNestFn(c, sub, c.Intn(3), func(protoreflect.MessageDescriptor) ([]byte, int) { return extra, 0 }, extra, c.Bool())
		what = "lazy_boundary_tag"
		limit = 0
	} else {
		payload, _, cost = dectotNestFn(c, sub, c.Intn(3), func(md protoreflect.MessageDescriptor) ([]byte, int) {
			return dectotSiblingBytes(c, md, 22+c.Intn(8))
		}, nil, false)
		what = "lazy_siblings"
		limit = 1 + cost + c.Intn(3)
		if limit > 20 {
			limit = 0
		}
	}
	b = protowire.AppendBytes(protowire.AppendTag(nil, fd.Number(), protowire.BytesType), payload)
	if c.Bool() {
		b = append(b, lazyFillBytes(c, t.mt, 1, 6)...)
	}
	return b, limit, what
}

func lazyShort(toks []string) string {
	s := strings.Join(toks, " ")
	if len(s) > 300 {
		s = s[:300] + "..."
	}
	return s
}

// ---------------------------------------------------------------- corpus and driver

func lazyCorpus(c *Ctx) {
	find := func(name string) *lazyTarget {
		for _, t := range lazyTargets {
			if string(t.md.FullName()) == name {
				return t
			}
		}
		c.PropFail("C17", "corpus type not linked: "+name)
		return nil
	}
	if t := find("opaque.lazy_tree.Node"); t != nil {
		// F1: [99:LEN{08 05}][99:VARINT 7]
		before := c.stats["known_F1"]
		f1 := []byte{0x9a, 0x06, 0x02, 0x08, 0x05, 0x98, 0x06, 0x07}
		lazyOne(c, t, f1, nil, "corpus_F1", lazyOp{name: "marshal"}, lazyOp{name: "dump"})
		lazyOne(c, t, f1, nil, "corpus_F1", lazyOp{name: "size"}, lazyOp{name: "equal"})
		lazyOne(c, t, []byte{0x98, 0x06, 0x07, 0x9a, 0x06, 0x02, 0x08, 0x05}, nil, "corpus_F1", lazyOp{name: "marshal"})
		lazyOne(c, t, []byte{0x9a, 0x06, 0x02, 0x08, 0x05, 0x08, 0x01, 0x9d, 0x06, 1, 2, 3, 4}, nil, "corpus_F1", lazyOp{name: "marshal"})
		for i := 0; i < 4; i++ {
			lazyOne(c, t, f1, nil, "corpus_F1")
		}
		if c.stats["known_F1"] == before {
			c.Stat("F1_witness_passes")
		}
		for _, in := range [][]byte{
			{}, {0x9a, 0x06, 0x00}, {0x9a, 0x06, 0x02, 0x08, 0x05}, {0x9a, 0x06, 0x02, 0x08, 0x05, 0x9a, 0x06, 0x02, 0x10, 0x07},
			{0x9a, 0x06, 0x02, 0x08, 0x05, 0x08, 0x01, 0x9a, 0x06, 0x02, 0x10, 0x07},       // non-contiguous
			{0x9a, 0x06, 0x02, 0x08, 0x05, 0xa0, 0x06, 0x01, 0x9a, 0x06, 0x02, 0x08, 0x06}, // unknown 100 between
			{0x9a, 0x06, 0x04, 0x9a, 0x06, 0x01, 0x00},                                     // invalid at depth 2
			{0x9a, 0x06, 0x03, 0x72, 0x01, 0xff},                                           // bad UTF-8 at depth 1
			{0x9a, 0x86, 0x80, 0x00, 0x82, 0x00, 0x08, 0x85, 0x00},                         // non-minimal tag, length, value
			{0x08, 0x01, 0x9a, 0x06, 0x02, 0x08, 0x05, 0x10, 0x02, 0x9a, 0x06, 0x06, 0x9a, 0x06, 0x03, 0x72, 0x01, 0x61},
		} {
			for i := 0; i < 3; i++ {
				lazyOne(c, t, in, []byte{0x9a, 0x06, 0x02, 0x18, 0x09}, "corpus")
			}
		}
	}
	if t := find("opaque.lazy_tree.Node"); t != nil {
		// FWB6: 10500 levels through the lazy field with RecursionLimit 30000: forcing restarts the
		// counter at the default limit, fails, and the error is dropped
		levels := 10500
		size := make([]int, levels+1)
		size[levels] = 2
		for i := levels - 1; i >= 0; i-- {
			size[i] = 2 + protowire.SizeBytes(size[i+1])
		}
		var b []byte
		for i := 0; i < levels; i++ {
			b = protowire.AppendTag(b, 99, protowire.BytesType)
			b = protowire.AppendVarint(b, uint64(size[i+1]))
		}
		b = append(b, 0x08, 0x05)
		depth := func(nolazy bool) (d int, err error) {
			defer func() {
				if r := recover(); r != nil {
					err = fmt.Errorf("panic: %v", r)
				}
			}()
			m := t.mt.New()
			if err := (proto.UnmarshalOptions{RecursionLimit: 30000, NoLazyDecoding: nolazy}).Unmarshal(b, m.Interface()); err != nil {
				return -1, err
			}
			fd := t.md.Fields().ByNumber(99)
			for m.Has(fd) {
				m = m.Get(fd).Message()
				d++
			}
			return d, nil
		}
		dE, errE := depth(true)
		dL, errL := depth(false)
		switch {
		case errE != nil || errL != nil:
			c.PropFail("C17", fmt.Sprintf("FWB6 witness: eager %v / lazy %v", errE, errL))
		case dE != dL:
			c.Known("FWB6", "C17", "forcing a lazy field restarts the recursion counter at the default limit and drops the error")
			c.Stat("known_FWB6")
		default:
			c.Stat("FWB6_witness_passes")
		}
	}
	if t := find("opaque.goproto.proto.testeditions.TestRequiredLazy"); t != nil {
		before := c.stats["known_FWB2"]
		for i := 0; i < 4; i++ {
			lazyOne(c, t, []byte{0x0a, 0x00}, nil, "corpus_FWB2")
		}
		if c.stats["known_FWB2"] == before {
			c.Stat("FWB2_witness_passes")
		}
		lazyOne(c, t, []byte{0x0a, 0x02, 0x08, 0x01}, nil, "corpus")
		lazyOne(c, t, []byte{0x0a, 0x02, 0x08, 0x01, 0x0a, 0x00}, nil, "corpus")
	}
}

func famLazy(c *Ctx) {
	lazyTargets = nil
	for _, mt := range msgAllTypes() {
		md := mt.Descriptor()
		if !msgHasLazy(md) || msgLegacyReach(md) {
			continue
		}
		if _, ok := mt.(*impl.MessageInfo); !ok {
			continue
		}
		t := &lazyTarget{mt: mt, md: md, raw: lazyRawOK(md, map[protoreflect.FullName]bool{})}
		if rt := reflect.TypeOf(mt.New().Interface()); rt.Kind() == reflect.Ptr && rt.Elem().Kind() == reflect.Struct {
			_, t.own = rt.Elem().FieldByName("XXX_lazyUnmarshalInfo")
		}
		if t.own {
			c.Stat("lazy_capable_types")
		}
		fds := md.Fields()
		for i := 0; i < fds.Len(); i++ {
			if msgIsLazyField(fds.Get(i)) {
				t.lazy = append(t.lazy, fds.Get(i))
			}
		}
		lazyTargets = append(lazyTargets, t)
	}
	c.StatN("lazy_reaching_types", len(lazyTargets))
	heavyNames := map[string]int{"opaque.lazy_tree.Node": 6, "opaque.goproto.proto.testeditions.TestAllTypes": 3,
		"opaque.goproto.proto.testeditions.TestRequiredLazy": 2, "goproto.proto.test.OpaqueLazy": 4,
		"goproto.proto.test.OpenLazy": 1, "goproto.proto.test.HybridLazy": 1}
	var heavy []*lazyTarget
	for _, t := range lazyTargets {
		for k := heavyNames[string(t.md.FullName())]; k > 0; k-- {
			heavy = append(heavy, t)
		}
	}
	if len(heavy) == 0 {
		c.PropFail("C17", "no lazy-capable type linked")
		return
	}
	lazyCorpus(c)
	for spent := 0; spent < c.N; spent++ {
		var t *lazyTarget
		if c.Intn(8) == 0 {
			t = lazyTargets[c.Intn(len(lazyTargets))]
		} else {
			t = heavy[c.Intn(len(heavy))]
		}
		func() {
			defer func() {
				if r := recover(); r != nil {
					c.PropFail("C17", fmt.Sprintf("panic in the harness or the implementation (%s): %v", t.md.FullName(), r))
				}
			}()
			second := lazyFillBytes(c, t.mt, 1, 10)
			if c.Intn(3) == 0 {
				second = lazyAimed(c, t, 1, false)
			}
			var b []byte
			what := ""
			if len(t.lazy) > 0 && c.Intn(8) == 0 {
				var lim int
				b, lim, what = lazyBreadth(c, t)
				lazyForceLimit = lim
				lazyOne(c, t, b, second, what)
				lazyForceLimit = 0
				return
			}
			switch r := c.Intn(10); {
			case r < 3:
				b, what = lazyFillBytes(c, t.mt, 1+c.Intn(3), 40), "fill"
			case r < 5:
				b, what = msgRewrite(c, t.md, lazyFillBytes(c, t.mt, 1+c.Intn(3), 40), 3), "rewrite"
			case r < 8:
				b, what = lazyAimed(c, t, 2, c.Intn(6) == 0), "aimed"
			case r < 9:
				// one local defect somewhere (mostly inside a lazy payload)
				src := lazyAimed(c, t, 2, false)
				if roots, ok := dectotParse(t.md, src, 6); ok {
					dectotDefect(c, &roots)
					b, what = dectotRender(nil, roots), "defect"
				} else {
					b, what = src, "aimed"
				}
			default:
				src := lazyAimed(c, t, 2, false)
				b, what = msgMutate(c, src), "bytemut"
			}
			lazyOne(c, t, b, second, what)
		}()
	}
}
