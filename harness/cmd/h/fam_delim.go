//go:build verif

package main

// family "delim": C27, encoding/protodelim.
//
// C ops
//   marshal <body>                                           | <stream>
//   read <maxsize> <terr> <reader> <oseed> <raw> <bad> <stream> | one token per UnmarshalFrom call until the first non-success
// reader = bufio:<n> (a *bufio.Reader with buffer n) or plain (any other protodelim.Reader);
// oseed seeds the model's arbitrary chunking oracle; raw=1: the target is a capturing message
// (see delimCapture): the exact bytes handed to Unmarshal are printed and a body is
// rejected iff it starts with 0xff (the codec's verdict is a parameter of the model);
// bad is unused ('-').

import (
	"bufio"
	"bytes"
	"errors"
	"fmt"
	"io"
	"strings"
	"testing/iotest"

	"google.golang.org/protobuf/encoding/protodelim"
	"google.golang.org/protobuf/encoding/protowire"
	"google.golang.org/protobuf/proto"
	"google.golang.org/protobuf/reflect/protoreflect"
	"google.golang.org/protobuf/runtime/protoiface"
	"google.golang.org/protobuf/types/known/emptypb"

	lazyopaquepb "google.golang.org/protobuf/internal/testprotos/lazy/lazy_opaque"
	testpb "google.golang.org/protobuf/internal/testprotos/test"
	testeditionspb "google.golang.org/protobuf/internal/testprotos/testeditions"
)

func init() { Register("delim", famDelim) }

var delimErrReader = errors.New("verif: reader failure")

// delimByteReader turns any io.Reader into a protodelim.Reader that is not a *bufio.Reader.
type delimByteReader struct{ r io.Reader }

func (d delimByteReader) Read(p []byte) (int, error) { return d.r.Read(p) }
func (d delimByteReader) ReadByte() (byte, error) {
	var b [1]byte
	for {
		n, err := d.r.Read(b[:])
		if n == 1 {
			return b[0], nil
		}
		if err != nil {
			return 0, err
		}
	}
}

// persistent error after the data
type delimErrAfter struct {
	r   io.Reader
	err error
}

func (d *delimErrAfter) Read(p []byte) (int, error) {
	n, err := d.r.Read(p)
	if err == io.EOF {
		err = d.err
		if n > 0 {
			err = nil
		}
	}
	return n, err
}

type delimReaderKind struct {
	name  string // diagnostic name
	model string // what the model needs to know: bufio:<n> | plain
	mk    func(src io.Reader) protodelim.Reader
}

func delimKinds(c *Ctx) delimReaderKind {
	bufSizes := []int{16, 17, 24, 32, 64, 100, 128, 255, 256, 512, 1000, 1024, 2048, 4095, 4096}
	switch c.Intn(10) {
	case 0:
		return delimReaderKind{"bytes", "plain", func(src io.Reader) protodelim.Reader { return src.(protodelim.Reader) }}
	case 1:
		return delimReaderKind{"onebyte", "plain", func(src io.Reader) protodelim.Reader { return delimByteReader{iotest.OneByteReader(src)} }}
	case 2:
		return delimReaderKind{"half", "plain", func(src io.Reader) protodelim.Reader { return delimByteReader{iotest.HalfReader(src)} }}
	case 3:
		return delimReaderKind{"dataerr", "plain", func(src io.Reader) protodelim.Reader { return delimByteReader{iotest.DataErrReader(src)} }}
	case 4:
		n := bufSizes[c.Intn(len(bufSizes))]
		return delimReaderKind{fmt.Sprintf("bufio-onebyte:%d", n), fmt.Sprintf("bufio:%x", n), func(src io.Reader) protodelim.Reader {
			return bufio.NewReaderSize(iotest.OneByteReader(src), n)
		}}
	case 5:
		n := bufSizes[c.Intn(len(bufSizes))]
		return delimReaderKind{fmt.Sprintf("bufio-dataerr:%d", n), fmt.Sprintf("bufio:%x", n), func(src io.Reader) protodelim.Reader {
			return bufio.NewReaderSize(iotest.DataErrReader(src), n)
		}}
	default:
		n := bufSizes[c.Intn(len(bufSizes))]
		if c.Intn(4) == 0 {
			n = 16 + c.Intn(4096-16+1)
		}
		return delimReaderKind{fmt.Sprintf("bufio:%d", n), fmt.Sprintf("bufio:%x", n), func(src io.Reader) protodelim.Reader {
			return bufio.NewReaderSize(src, n)
		}}
	}
}

const delimDefaultMax = 4 << 20

func delimEffMax(max int64) uint64 {
	switch {
	case max == 0:
		return delimDefaultMax
	case max == -1:
		return 1<<63 - 1
	default:
		return uint64(max)
	}
}

// delimClass maps an UnmarshalFrom error to the model's result class.
func delimClass(err error) string {
	var tl *protodelim.SizeTooLargeError
	switch {
	case err == io.EOF:
		return "eof"
	case err == io.ErrUnexpectedEOF:
		return "ueof"
	case err == delimErrReader:
		return "rerr"
	case errors.As(err, &tl):
		return fmt.Sprintf("big:%x:%x", tl.Size, tl.MaxSize)
	case err != nil && err == protowire.ParseError(-3):
		return "ovf"
	case err == delimBodyErr:
		return "bad"
	case errors.Is(err, proto.Error):
		return "perr"
	default:
		return "other"
	}
}

// delimRun performs repeated UnmarshalFrom calls until the first error.
// newMsg yields the target of the i-th call; got receives each successfully read message.
func delimRun(r protodelim.Reader, max int64, newMsg func(i int) proto.Message, got func(i int, m proto.Message)) (classes []string) {
	defer func() {
		if p := recover(); p != nil {
			classes = append(classes, "panic")
		}
	}()
	for i := 0; i < 1<<20; i++ {
		m := newMsg(i)
		err := protodelim.UnmarshalOptions{MaxSize: max}.UnmarshalFrom(r, m)
		if err != nil {
			classes = append(classes, delimClass(err))
			return classes
		}
		got(i, m)
		classes = append(classes, "ok")
	}
	return append(classes, "runaway")
}

// delimCapture is a proto.Message whose Unmarshal method records exactly the
// bytes it is given and rejects bodies that start with 0xff; everything else is
// delegated to an Empty message.  protodelim is generic in the message, so this
// observes the framing without involving the real codec.
type delimCapture struct {
	protoreflect.Message
	got   []byte
	calls int
}

var delimBodyErr = errors.New("verif: body rejected")

func newDelimCapture() *delimCapture {
	return &delimCapture{Message: (&emptypb.Empty{}).ProtoReflect()}
}
func (d *delimCapture) ProtoReflect() protoreflect.Message      { return d }
func (d *delimCapture) Interface() protoreflect.ProtoMessage    { return d }
func (d *delimCapture) ProtoMethods() *protoiface.Methods {
	return &protoiface.Methods{
		Flags: protoiface.SupportUnmarshalDiscardUnknown,
		Unmarshal: func(in protoiface.UnmarshalInput) (protoiface.UnmarshalOutput, error) {
			d.calls++
			d.got = append([]byte{}, in.Buf...)
			if len(in.Buf) > 0 && in.Buf[0] == 0xff {
				return protoiface.UnmarshalOutput{}, delimBodyErr
			}
			return protoiface.UnmarshalOutput{Flags: protoiface.UnmarshalInitialized}, nil
		},
	}
}

type delimFrame struct {
	msg  proto.Message
	body []byte
}

var delimTypes = []protoreflect.MessageType{
	(&testpb.TestAllTypes{}).ProtoReflect().Type(),
	(&testeditionspb.TestAllTypes{}).ProtoReflect().Type(),
	(&lazyopaquepb.Node{}).ProtoReflect().Type(),
	(&emptypb.Empty{}).ProtoReflect().Type(),
}

func delimEmitRead(c *Ctx, max int64, terr bool, kind delimReaderKind, raw bool, stream []byte, classes []string, bodies [][]byte) {
	obs := make([]string, len(classes))
	for i, cl := range classes {
		if cl == "ok" {
			if raw {
				obs[i] = "ok:" + HexB(bodies[i])
			} else {
				obs[i] = fmt.Sprintf("ok:%x", len(bodies[i]))
			}
		} else {
			obs[i] = cl
		}
	}
	bad := "-"
	c.Case("delim", "read", []string{HexZ(max), Tok(terr), kind.model, HexN(c.U64() >> 32), Tok(raw), bad, HexB(stream)}, obs)
}

// source wraps the stream bytes, optionally ending in a persistent non-EOF error
func delimSource(stream []byte, terr bool, kind delimReaderKind) protodelim.Reader {
	if !terr {
		return kind.mk(bytes.NewReader(stream))
	}
	src := &delimErrAfter{r: bytes.NewReader(stream), err: delimErrReader}
	if kind.name == "bytes" {
		return delimByteReader{src}
	}
	return kind.mk(src)
}

// raw reads: the target captures exactly the bytes handed to Unmarshal
func delimRawRead(c *Ctx, max int64, terr bool, kind delimReaderKind, stream []byte) []string {
	var bodies [][]byte
	var last *delimCapture
	classes := delimRun(delimSource(stream, terr, kind), max,
		func(int) proto.Message { last = newDelimCapture(); return last },
		func(i int, m proto.Message) {
			d := m.(*delimCapture)
			if d.calls != 1 {
				c.PropFail("C27", fmt.Sprintf("Unmarshal called %d times for one frame", d.calls), HexB(stream))
			}
			bodies = append(bodies, d.got)
		})
	if n := len(classes); n > 0 && classes[n-1] != "ok" && classes[n-1] != "bad" && last != nil && last.calls != 0 {
		c.PropFail("C27", "Unmarshal was called although the frame is incomplete or refused: "+classes[n-1], HexZ(max), HexB(stream))
	}
	delimEmitRead(c, max, terr, kind, true, stream, classes, bodies)
	return classes
}

func famDelim(c *Ctx) {
	delimCorpus(c)
	g := &wpiGen{c: c, fill: 25, depth: 2, unknown: true, ext: false}
	for c.Cases < c.N {
		switch c.Intn(10) {
		case 0, 1, 2, 3, 4, 5:
			delimStructured(c, g)
		case 6, 7:
			for i := 0; i < 12; i++ {
				delimMalformed(c, g)
			}
		case 8:
			delimAlias(c, g)
		default:
			for i := 0; i < 3; i++ {
				delimMarshal(c, g)
			}
		}
	}
}

// ---- boundary corpus
func delimCorpus(c *Ctx) {
	plain := delimReaderKind{"bytes", "plain", func(src io.Reader) protodelim.Reader { return src.(protodelim.Reader) }}
	buf16 := delimReaderKind{"bufio:16", "bufio:10", func(src io.Reader) protodelim.Reader { return bufio.NewReaderSize(src, 16) }}
	one := delimReaderKind{"onebyte", "plain", func(src io.Reader) protodelim.Reader { return delimByteReader{iotest.OneByteReader(src)} }}
	streams := [][]byte{
		{},
		{0x00},
		{0x00, 0x00, 0x00},
		{0x80, 0x00},
		{0x80, 0x80, 0x80, 0x80, 0x80, 0x80, 0x80, 0x80, 0x80, 0x00},
		{0x80, 0x80, 0x80, 0x80, 0x80, 0x80, 0x80, 0x80, 0x80, 0x01},
		{0x80, 0x80, 0x80, 0x80, 0x80, 0x80, 0x80, 0x80, 0x80, 0x02},
		{0x80, 0x80, 0x80, 0x80, 0x80, 0x80, 0x80, 0x80, 0x80, 0x80, 0x00},
		{0xff, 0xff, 0xff, 0xff, 0xff, 0xff, 0xff, 0xff, 0xff, 0xff, 0x01},
		{0xff, 0xff, 0xff, 0xff, 0xff, 0xff, 0xff, 0xff, 0xff, 0x01},
		{0xfe, 0xff, 0xff, 0xff, 0xff, 0xff, 0xff, 0xff, 0xff, 0x01},
		{0x80},
		{0x80, 0x80, 0x80, 0x80, 0x80, 0x80, 0x80, 0x80, 0x80},
		{0x02, 0x08},
		{0x02, 0x08, 0x01},
		{0x02, 0x08, 0x01, 0x02, 0x08},
		{0x01, 0x08},          // body is a truncated field
		{0x02, 0x0c, 0x01},    // end group without start
		{0x02, 0x00, 0x01},    // field number 0
		{0x81, 0x80, 0x80, 0x02}, // 4 MiB + 1
		{0x80, 0x80, 0x80, 0x02}, // exactly 4 MiB, no body
	}
	for _, s := range streams {
		for _, max := range []int64{0, -1, 1, 2, 3, -2, 1<<63 - 1, -1 << 63} {
			sz0, _ := protowire.ConsumeVarint(s)
			for ki, k := range []delimReaderKind{plain, buf16, one} {
				for _, terr := range []bool{false, true} {
					if sz0 >= 1<<20 && sz0 <= 4<<20 && sz0 <= delimEffMax(max) && (ki == 2 || terr || (max != 0 && max != -1)) {
						continue // megabyte allocations: a few combinations are enough
					}
					cl := delimRawRead(c, max, terr, k, s)
					delimNoPanic(c, cl, max, s)
				}
			}
		}
	}
	// regression inputs of the repaired F15: a size prefix the stream cannot back,
	// with the limit disabled, is a truncated stream (io.ErrUnexpectedEOF), never a panic
	for _, s := range [][]byte{
		{0xff, 0xff, 0xff, 0xff, 0xff, 0xff, 0xff, 0xff, 0x7f},       // 2^63-1, no body
		{0x81, 0x80, 0x80, 0x80, 0x80, 0x80, 0x80, 0x01},             // 2^49+1, no body
		{0x81, 0x80, 0x80, 0x80, 0x80, 0x80, 0x40, 0x01, 0x02},       // 2^48+1, short body
		{0x81, 0x80, 0x80, 0x02, 0x08, 0x01, 0x10, 0x02},             // 4 MiB + 1 (just above maxPreallocSize), short body
		{0x80, 0x80, 0x80, 0x02, 0x08, 0x01},                         // exactly 4 MiB, short body
		{0x80, 0x80, 0x80, 0x80, 0x01, 0x08},                         // 256 MiB, short body
	} {
		for _, k := range []delimReaderKind{plain, buf16, one} {
			cl := delimRawRead(c, -1, false, k, s)
			delimNoPanic(c, cl, -1, s)
			if len(cl) != 1 || cl[0] != "ueof" {
				c.PropFail("C27", "unbacked size prefix with MaxSize=-1: want io.ErrUnexpectedEOF, got ["+strings.Join(cl, " ")+"]", k.name, HexB(s))
			}
			c.Stat("regression_F15")
		}
	}
}

// delimNoPanic: UnmarshalFrom never panics.
func delimNoPanic(c *Ctx, classes []string, max int64, stream []byte) {
	if len(classes) > 0 && classes[len(classes)-1] == "panic" {
		c.PropFail("C27", "panic in UnmarshalFrom", HexZ(max), HexB(stream))
	}
}

// ---- structured streams: real messages, every truncation point, MaxSize around the sizes
func delimStructured(c *Ctx, g *wpiGen) {
	nmsg := c.Intn(5)
	if c.Intn(8) == 0 {
		nmsg = 0
	}
	var frames []delimFrame
	var buf bytes.Buffer
	var offs []int // frame start offsets, plus the end
	for i := 0; i < nmsg; i++ {
		mt := delimTypes[c.Intn(len(delimTypes))]
		var m proto.Message
		switch c.Intn(6) {
		case 0:
			m = mt.New().Interface() // empty message: zero-length body
		case 1:
			gg := *g
			gg.fill, gg.depth = 70, 3 // large
			m = gg.message(mt)
		default:
			m = g.message(mt)
		}
		offs = append(offs, buf.Len())
		n, err := protodelim.MarshalOptions{MarshalOptions: proto.MarshalOptions{Deterministic: true}}.MarshalTo(&buf, m)
		if err != nil {
			c.PropFail("C27", "MarshalTo failed: "+err.Error())
			return
		}
		if n != buf.Len()-offs[i] {
			c.PropFail("C27", "MarshalTo returned the wrong byte count", fmt.Sprint(n), fmt.Sprint(buf.Len()-offs[i]))
		}
		body, _ := proto.MarshalOptions{Deterministic: true}.Marshal(m)
		frames = append(frames, delimFrame{m, body})
		// shape of the frame
		want := protowire.AppendVarint(nil, uint64(len(body)))
		want = append(want, body...)
		if !bytes.Equal(buf.Bytes()[offs[i]:], want) {
			c.PropFail("C27", "MarshalTo frame is not varint(len) ++ body", HexB(buf.Bytes()[offs[i]:]), HexB(want))
		}
		c.Stat(fmt.Sprintf("body_len_log2_%d", delimBitsLen(len(body))))
	}
	full := append([]byte{}, buf.Bytes()...)
	offs = append(offs, len(full))
	c.Stat(fmt.Sprintf("frames_%d", nmsg))

	// MaxSize candidates
	maxes := []int64{0, -1}
	if nmsg > 0 {
		sz := int64(len(frames[c.Intn(nmsg)].body))
		maxes = append(maxes, sz-1, sz, sz+1)
	}
	// truncation points: all of them for small streams, a sample (always including
	// the frame boundaries and their neighbours) otherwise
	var cuts []int
	if len(full) <= 48 {
		for i := 0; i <= len(full); i++ {
			cuts = append(cuts, i)
		}
	} else {
		seen := map[int]bool{}
		add := func(i int) {
			if i >= 0 && i <= len(full) && !seen[i] {
				seen[i] = true
				cuts = append(cuts, i)
			}
		}
		for _, o := range offs {
			add(o - 1)
			add(o)
			add(o + 1)
			add(o + 2)
		}
		for i := 0; i < 8; i++ {
			add(c.Intn(len(full) + 1))
		}
	}
	for _, cut := range cuts {
		max := maxes[c.Intn(len(maxes))]
		kind := delimKinds(c)
		terr := c.Intn(8) == 0
		stream := full[:cut]
		// expectation from the structure
		endTok, cutTok := "eof", "ueof"
		if terr {
			endTok, cutTok = "rerr", "rerr"
		}
		var want []string
		for i := 0; ; i++ {
			if i == nmsg || cut == offs[i] {
				want = append(want, endTok)
				break
			}
			hdr := protowire.SizeVarint(uint64(len(frames[i].body)))
			if cut < offs[i]+hdr { // inside the size varint
				want = append(want, cutTok)
				break
			}
			if sz := uint64(len(frames[i].body)); sz > delimEffMax(max) {
				want = append(want, fmt.Sprintf("big:%x:%x", sz, delimEffMax(max)))
				break
			}
			if cut < offs[i+1] { // inside the body (or nothing of it)
				want = append(want, cutTok)
				break
			}
			want = append(want, "ok")
		}
		var got []proto.Message
		classes := delimRun(delimSource(stream, terr, kind), max,
			func(i int) proto.Message {
				if i < nmsg {
					return frames[i].msg.ProtoReflect().New().Interface()
				}
				return &emptypb.Empty{}
			},
			func(i int, m proto.Message) { got = append(got, m) })
		if strings.Join(classes, " ") != strings.Join(want, " ") {
			c.PropFail("C27", "wrong result sequence: got ["+strings.Join(classes, " ")+"] want ["+strings.Join(want, " ")+"]",
				HexZ(max), Tok(terr), kind.name, HexB(stream))
		}
		var bodies [][]byte
		for i, m := range got {
			if i < nmsg && !proto.Equal(m, frames[i].msg) {
				c.PropFail("C27", fmt.Sprintf("message %d read back is not proto.Equal to the one written", i), HexZ(max), kind.name, HexB(stream))
			}
			if i < nmsg {
				bodies = append(bodies, frames[i].body)
			} else {
				bodies = append(bodies, nil)
			}
		}
		c.Stat("cut_" + want[len(want)-1][:2])
		c.Stat("reader_" + strings.SplitN(kind.name, ":", 2)[0])
		delimEmitRead(c, max, terr, kind, false, stream, classes, bodies)
	}
}

// 2^k-1, 2^k, 2^k+1 and random values of every bit length
func delimBits(c *Ctx) uint64 {
	k := uint(c.Intn(64))
	switch c.Intn(4) {
	case 0:
		return uint64(1)<<k - 1
	case 1:
		return uint64(1) << k
	case 2:
		return uint64(1)<<k + 1
	default:
		return c.U64() >> (63 - k)
	}
}

// non-minimal varint with up to `extra` padding bytes (10 bytes at most)
func delimPadded(b []byte, v uint64, extra int) []byte {
	n := protowire.SizeVarint(v)
	if n+extra > 10 {
		extra = 10 - n
	}
	if extra <= 0 {
		return protowire.AppendVarint(b, v)
	}
	for i := 0; i < n; i++ {
		b = append(b, byte(v)|0x80)
		v >>= 7
	}
	for i := 0; i < extra-1; i++ {
		b = append(b, 0x80)
	}
	return append(b, 0x00)
}

func delimBitsLen(n int) int {
	k := 0
	for n > 0 {
		k++
		n >>= 1
	}
	return k
}

// ---- malformed streams: overlong / overflowing size varints, wrong sizes, garbage
func delimMalformed(c *Ctx, g *wpiGen) {
	var s []byte
	nfr := 1 + c.Intn(4)
	for i := 0; i < nfr; i++ {
		var body []byte
		switch c.Intn(4) {
		case 0:
			body = c.Bytes(c.Intn(12)) // mostly not a message
			if len(body) > 0 && c.Intn(3) == 0 {
				body[0] = 0xff // rejected by the capturing message
			}
		case 1:
			body = nil
		default:
			body = g.unknownBytes()
		}
		size := uint64(len(body))
		switch c.Intn(8) {
		case 0:
			size += uint64(1 + c.Intn(3)) // claims more than there is
		case 1:
			if size > 0 {
				size -= uint64(1 + c.Intn(int(size)))
			}
		case 2:
			size = delimBits(c) // arbitrary, often huge
		}
		switch c.Intn(6) {
		case 0:
			s = delimPadded(s, size, 1+c.Intn(9)) // non-minimal
		case 1:
			// 10 or 11 continuation-heavy bytes
			k := 9 + c.Intn(3)
			for j := 0; j < k; j++ {
				s = append(s, 0x80|byte(c.U64()))
			}
			s = append(s, byte(c.Intn(4)))
		default:
			s = protowire.AppendVarint(s, size)
		}
		s = append(s, body...)
	}
	if c.Intn(3) == 0 && len(s) > 0 {
		s = s[:c.Intn(len(s)+1)]
	}
	if c.Intn(6) == 0 && len(s) > 0 {
		s[c.Intn(len(s))] ^= 1 << uint(c.Intn(8))
	}
	maxes := []int64{0, 0, -1, 1, 5, 16, 127, 128, -2, int64(c.Intn(40))}
	max := maxes[c.Intn(len(maxes))]
	kind := delimKinds(c)
	terr := c.Intn(8) == 0
	cl := delimRawRead(c, max, terr, kind, s)
	delimNoPanic(c, cl, max, s)
	c.Stat("malformed_" + strings.SplitN(cl[len(cl)-1], ":", 2)[0])
}

// ---- marshal: frame shape against the model, writer errors returned unchanged
type delimFailWriter struct {
	n   int // bytes accepted before failing
	err error
}

func (w *delimFailWriter) Write(p []byte) (int, error) {
	if len(p) <= w.n {
		w.n -= len(p)
		return len(p), nil
	}
	k := w.n
	w.n = 0
	return k, w.err
}

func delimMarshal(c *Ctx, g *wpiGen) {
	var body []byte
	switch c.Intn(5) {
	case 0:
	case 1:
		// around the one/two-byte size boundary
		for len(body) < 120+c.Intn(20) {
			body = append(body, g.unknownBytes()...)
		}
	case 2:
		for len(body) < 16380+c.Intn(10) {
			body = append(body, g.unknownBytes()...)
		}
	default:
		body = g.unknownBytes()
	}
	m := &emptypb.Empty{}
	m.ProtoReflect().SetUnknown(body)
	var buf bytes.Buffer
	n, err := protodelim.MarshalTo(&buf, m)
	if err != nil || n != buf.Len() {
		c.PropFail("C27", "MarshalTo error or wrong count", HexB(body))
	}
	c.Case("delim", "marshal", []string{HexB(body)}, []string{HexB(buf.Bytes())})
	// failing writer
	fw := &delimFailWriter{n: c.Intn(buf.Len() + 1), err: delimErrReader}
	limit := fw.n
	n, err = protodelim.MarshalTo(fw, m)
	if limit < buf.Len() {
		// the two Write calls: the error must come back unchanged; n counts accepted bytes
		if err != delimErrReader {
			c.PropFail("C27", "MarshalTo did not return the writer's error unchanged", HexB(body), fmt.Sprint(limit))
		} else if n != limit {
			c.PropFail("C27", "MarshalTo byte count on writer error", HexB(body), fmt.Sprint(limit), fmt.Sprint(n))
		}
	}
}

// ---- aliasing: a message read through the bufio fast path must not share
// memory with the reader's buffer or the source bytes
func delimAlias(c *Ctx, g *wpiGen) {
	nmsg := 2 + c.Intn(4)
	var buf bytes.Buffer
	var orig []proto.Message
	gg := *g
	gg.fill = 60
	for i := 0; i < nmsg; i++ {
		mt := delimTypes[c.Intn(3)]
		m := gg.message(mt)
		orig = append(orig, m)
		protodelim.MarshalTo(&buf, m)
	}
	src := append([]byte{}, buf.Bytes()...)
	sizes := []int{16, 64, 256, 4096, 65536}
	br := bufio.NewReaderSize(bytes.NewReader(src), sizes[c.Intn(len(sizes))])
	var got []proto.Message
	var snaps [][]byte
	for i := 0; i < nmsg; i++ {
		m := orig[i].ProtoReflect().New().Interface()
		if err := protodelim.UnmarshalFrom(br, m); err != nil {
			c.PropFail("C27", "alias: read failed: "+err.Error(), HexB(src))
			return
		}
		got = append(got, m)
		if c.Bool() {
			// snapshot without touching the message (lazy fields stay lazy)
			snaps = append(snaps, nil)
		} else {
			b, _ := proto.MarshalOptions{Deterministic: true}.Marshal(m)
			snaps = append(snaps, b)
		}
	}
	// clobber everything the reader ever owned
	for i := range src {
		src[i] = 0xAA
	}
	junk := bytes.Repeat([]byte{0x55}, br.Size())
	br.Reset(bytes.NewReader(junk))
	br.Peek(br.Size())
	for i, m := range got {
		if !proto.Equal(m, orig[i]) {
			c.PropFail("C27", fmt.Sprintf("alias: message %d changed after the reader's buffer was overwritten", i))
			return
		}
		if snaps[i] != nil {
			b, _ := proto.MarshalOptions{Deterministic: true}.Marshal(m)
			if !bytes.Equal(b, snaps[i]) {
				c.PropFail("C27", fmt.Sprintf("alias: message %d marshals differently after the reader's buffer was overwritten", i))
				return
			}
		}
	}
	c.Stat("alias_checks")
	c.Cases++ // counts towards the budget although it has no model line
}
