//go:build verif

package main

// Synthetic legacy extensions for family "legacy" (C46): protoimpl.ExtensionInfo values
// populated only through the deprecated exported fields (ExtendedType, ExtensionType,
// Field, Name, Tag, Filename), as github.com/golang/protobuf-era generated code did.
// internal/impl/legacy_extension.go initFromLegacy derives the descriptor from the tag.
// Each one is compared with the extension built from the equivalent FieldDescriptorProto
// (protodesc.NewFile + dynamicpb.NewExtensionType): every accessor, and for random
// contents the deterministic wire bytes, protojson / prototext output and cross-decoding.
// The tags also go through the tag / untag C lines (Coq model Desc/TagModel.v).
//
// Second source: every extension type linked into the binary is taken through its own
// legacy fields (initToLegacy) and back (initFromLegacy).

import (
	"bytes"
	"fmt"
	"reflect"
	"sort"
	"strings"

	"google.golang.org/protobuf/encoding/protojson"
	"google.golang.org/protobuf/encoding/prototext"
	"google.golang.org/protobuf/internal/encoding/defval"
	"google.golang.org/protobuf/internal/encoding/messageset"
	"google.golang.org/protobuf/proto"
	"google.golang.org/protobuf/reflect/protodesc"
	"google.golang.org/protobuf/reflect/protoreflect"
	"google.golang.org/protobuf/reflect/protoregistry"
	"google.golang.org/protobuf/runtime/protoiface"
	"google.golang.org/protobuf/runtime/protoimpl"
	"google.golang.org/protobuf/types/descriptorpb"
	"google.golang.org/protobuf/types/dynamicpb"

	p2c "google.golang.org/protobuf/internal/testprotos/legacy/proto2_20180125_92554152"
	testpb "google.golang.org/protobuf/internal/testprotos/test"
)

type legacyXPair struct {
	label    string
	tag      string
	elem     reflect.Type // Go type the tag is decoded against
	enumName string
	fj2      bool // tag marked proto3 without "packed" on a packable repeated kind (see FJ2)
	extendee protoreflect.MessageType
	l        *protoimpl.ExtensionInfo   // known through the legacy fields only
	d        protoreflect.ExtensionType // from the equivalent FieldDescriptorProto
}

var legacyXPairs []*legacyXPair

type legacyXKind struct {
	name    string
	keyword string
	typ     descriptorpb.FieldDescriptorProto_Type
	opt     any    // v1 ExtensionType of an optional extension
	rep     any    // ... of a repeated one
	def     string // a default in descriptor format ("" = none tried)
	noPack  bool
}

func legacyXKinds() []legacyXKind {
	T := func(t descriptorpb.FieldDescriptorProto_Type) descriptorpb.FieldDescriptorProto_Type { return t }
	return []legacyXKind{
		{"bool", "varint", T(descriptorpb.FieldDescriptorProto_TYPE_BOOL), (*bool)(nil), []bool(nil), "true", false},
		{"int32", "varint", T(descriptorpb.FieldDescriptorProto_TYPE_INT32), (*int32)(nil), []int32(nil), "-12345", false},
		{"sint32", "zigzag32", T(descriptorpb.FieldDescriptorProto_TYPE_SINT32), (*int32)(nil), []int32(nil), "-3200", false},
		{"uint32", "varint", T(descriptorpb.FieldDescriptorProto_TYPE_UINT32), (*uint32)(nil), []uint32(nil), "3200", false},
		{"int64", "varint", T(descriptorpb.FieldDescriptorProto_TYPE_INT64), (*int64)(nil), []int64(nil), "-123456789", false},
		{"sint64", "zigzag64", T(descriptorpb.FieldDescriptorProto_TYPE_SINT64), (*int64)(nil), []int64(nil), "-6400", false},
		{"uint64", "varint", T(descriptorpb.FieldDescriptorProto_TYPE_UINT64), (*uint64)(nil), []uint64(nil), "18446744073709551615", false},
		{"fixed32", "fixed32", T(descriptorpb.FieldDescriptorProto_TYPE_FIXED32), (*uint32)(nil), []uint32(nil), "320000", false},
		{"sfixed32", "fixed32", T(descriptorpb.FieldDescriptorProto_TYPE_SFIXED32), (*int32)(nil), []int32(nil), "-320000", false},
		{"float", "fixed32", T(descriptorpb.FieldDescriptorProto_TYPE_FLOAT), (*float32)(nil), []float32(nil), "3.14159", false},
		{"fixed64", "fixed64", T(descriptorpb.FieldDescriptorProto_TYPE_FIXED64), (*uint64)(nil), []uint64(nil), "640000", false},
		{"sfixed64", "fixed64", T(descriptorpb.FieldDescriptorProto_TYPE_SFIXED64), (*int64)(nil), []int64(nil), "-640000", false},
		{"double", "fixed64", T(descriptorpb.FieldDescriptorProto_TYPE_DOUBLE), (*float64)(nil), []float64(nil), "-inf", false},
		{"string", "bytes", T(descriptorpb.FieldDescriptorProto_TYPE_STRING), (*string)(nil), []string(nil), "hello, \"world!\"\n,name=x", true},
		{"bytes", "bytes", T(descriptorpb.FieldDescriptorProto_TYPE_BYTES), []byte(nil), [][]byte(nil), "dead\\336\\255\\276\\357beef", true},
	}
}

type legacyXSpec struct {
	name     string
	keyword  string
	typ      descriptorpb.FieldDescriptorProto_Type
	typeName string // for enum / message / group
	enumName string // legacy enum name for the tag
	extType  any
	repeated bool
	packed   bool // "packed" in the tag, [packed=true] in the schema
	proto3   bool // "proto3" in the tag
	json     bool // "json=" in the tag (the generators wrote it; extensions ignore it)
	def      string
	packable bool
	deps     []string
}

func legacyXSpecs() []legacyXSpec {
	var specs []legacyXSpec
	for _, k := range legacyXKinds() {
		packable := !k.noPack
		specs = append(specs,
			legacyXSpec{name: "opt_" + k.name, keyword: k.keyword, typ: k.typ, extType: k.opt, packable: packable},
			legacyXSpec{name: "def_" + k.name, keyword: k.keyword, typ: k.typ, extType: k.opt, def: k.def, json: true, packable: packable},
			legacyXSpec{name: "rep_" + k.name, keyword: k.keyword, typ: k.typ, extType: k.rep, repeated: true, json: true, packable: packable},
			legacyXSpec{name: "rep3_" + k.name, keyword: k.keyword, typ: k.typ, extType: k.rep, repeated: true, proto3: true, packable: packable},
		)
		if packable {
			specs = append(specs,
				legacyXSpec{name: "packed_" + k.name, keyword: k.keyword, typ: k.typ, extType: k.rep, repeated: true, packed: true, packable: true},
				legacyXSpec{name: "packed3_" + k.name, keyword: k.keyword, typ: k.typ, extType: k.rep, repeated: true, packed: true, proto3: true, json: true, packable: true})
		}
	}
	const testFile = "internal/testprotos/test/test.proto"
	const legFile = "proto2_20180125_92554152/test.proto"
	en := descriptorpb.FieldDescriptorProto_TYPE_ENUM
	ms := descriptorpb.FieldDescriptorProto_TYPE_MESSAGE
	fe, fen := ".goproto.proto.test.ForeignEnum", "goproto.proto.test.ForeignEnum"
	le, len_ := ".google.golang.org.proto2_20180125.SiblingEnum", "google.golang.org.proto2_20180125.SiblingEnum"
	specs = append(specs,
		legacyXSpec{name: "opt_enum", keyword: "varint", typ: en, typeName: fe, enumName: fen, extType: (*testpb.ForeignEnum)(nil), packable: true, deps: []string{testFile}},
		legacyXSpec{name: "def_enum", keyword: "varint", typ: en, typeName: fe, enumName: fen, extType: (*testpb.ForeignEnum)(nil), def: "FOREIGN_BAR", json: true, packable: true, deps: []string{testFile}},
		legacyXSpec{name: "rep_enum", keyword: "varint", typ: en, typeName: fe, enumName: fen, extType: []testpb.ForeignEnum(nil), repeated: true, packable: true, deps: []string{testFile}},
		legacyXSpec{name: "packed_enum", keyword: "varint", typ: en, typeName: fe, enumName: fen, extType: []testpb.ForeignEnum(nil), repeated: true, packed: true, packable: true, deps: []string{testFile}},
		legacyXSpec{name: "opt_legacy_enum", keyword: "varint", typ: en, typeName: le, enumName: len_, extType: (*p2c.SiblingEnum)(nil), packable: true, deps: []string{legFile}},
		legacyXSpec{name: "def_legacy_enum", keyword: "varint", typ: en, typeName: le, enumName: len_, extType: (*p2c.SiblingEnum)(nil), def: "BRAVO", packable: true, deps: []string{legFile}},
		legacyXSpec{name: "packed_legacy_enum", keyword: "varint", typ: en, typeName: le, enumName: len_, extType: []p2c.SiblingEnum(nil), repeated: true, packed: true, packable: true, deps: []string{legFile}},
		legacyXSpec{name: "opt_message", keyword: "bytes", typ: ms, typeName: ".goproto.proto.test.ForeignMessage", extType: (*testpb.ForeignMessage)(nil), json: true, deps: []string{testFile}},
		legacyXSpec{name: "rep_message", keyword: "bytes", typ: ms, typeName: ".goproto.proto.test.ForeignMessage", extType: []*testpb.ForeignMessage(nil), repeated: true, deps: []string{testFile}},
		legacyXSpec{name: "opt_legacy_message", keyword: "bytes", typ: ms, typeName: ".google.golang.org.proto2_20180125.SiblingMessage", extType: (*p2c.SiblingMessage)(nil), deps: []string{legFile}},
		legacyXSpec{name: "rep_legacy_message", keyword: "bytes", typ: ms, typeName: ".google.golang.org.proto2_20180125.SiblingMessage", extType: []*p2c.SiblingMessage(nil), repeated: true, deps: []string{legFile}},
	)
	return specs
}

func legacyXElem(extType any) reflect.Type {
	t := reflect.TypeOf(extType)
	isOptional := t.Kind() == reflect.Ptr && t.Elem().Kind() != reflect.Struct
	isRepeated := t.Kind() == reflect.Slice && t.Elem().Kind() != reflect.Uint8
	if isOptional || isRepeated {
		t = t.Elem()
	}
	return t
}

func legacyXSetup(c *Ctx) {
	if legacyXPairs != nil {
		return
	}
	legacySetup()
	type ext struct {
		label   string
		mt      protoreflect.MessageType
		v1      protoiface.MessageV1
		base    int32
		extFile string
	}
	extendees := []ext{
		{"v2", (&testpb.TestAllExtensions{}).ProtoReflect().Type(), (*testpb.TestAllExtensions)(nil), 30000, "internal/testprotos/test/test.proto"},
		{"legacy", legacyV2(new(p2c.Message)).ProtoReflect().Type(), (*p2c.Message)(nil), 40000, "proto2_20180125_92554152/test.proto"},
	}
	specs := legacyXSpecs()
	for _, e := range extendees {
		pkg := "verif.legx" + e.label
		fdp := &descriptorpb.FileDescriptorProto{
			Name: proto.String("verif/legx_" + e.label + ".proto"), Syntax: proto.String("proto2"), Package: proto.String(pkg),
		}
		deps := map[string]bool{e.extFile: true}
		for i, s := range specs {
			for _, d := range s.deps {
				deps[d] = true
			}
			f := &descriptorpb.FieldDescriptorProto{
				Name: proto.String(s.name), Number: proto.Int32(e.base + int32(i)), Type: s.typ.Enum(),
				Label:    descriptorpb.FieldDescriptorProto_LABEL_OPTIONAL.Enum(),
				Extendee: proto.String("." + string(e.mt.Descriptor().FullName())),
			}
			if s.repeated {
				f.Label = descriptorpb.FieldDescriptorProto_LABEL_REPEATED.Enum()
			}
			if s.typeName != "" {
				f.TypeName = proto.String(s.typeName)
			}
			if s.packed {
				f.Options = &descriptorpb.FieldOptions{Packed: proto.Bool(true)}
			}
			if s.def != "" {
				f.DefaultValue = proto.String(s.def)
			}
			fdp.Extension = append(fdp.Extension, f)
		}
		for d := range deps {
			fdp.Dependency = append(fdp.Dependency, d)
		}
		sort.Strings(fdp.Dependency)
		fd, err := protodesc.NewFile(fdp, protoregistry.GlobalFiles)
		if err != nil {
			c.PropFail("C46", "the schema of the synthetic extensions is rejected: "+err.Error(), e.label)
			continue
		}
		for i, s := range specs {
			dxd := fd.Extensions().Get(i)
			num := e.base + int32(i)
			// the tag as the historical generators wrote it
			tagName := s.name
			parts := []string{s.keyword, fmt.Sprint(num)}
			if s.repeated {
				parts = append(parts, "rep")
			} else {
				parts = append(parts, "opt")
			}
			if s.packed {
				parts = append(parts, "packed")
			}
			parts = append(parts, "name="+tagName)
			if s.json {
				parts = append(parts, "json="+strings.ReplaceAll(strings.Title(strings.ReplaceAll(s.name, "_", " ")), " ", ""))
			}
			if s.proto3 {
				parts = append(parts, "proto3")
			}
			if s.enumName != "" {
				parts = append(parts, "enum="+s.enumName)
			}
			if s.def != "" {
				d, err := defval.Marshal(dxd.Default(), dxd.DefaultEnumValue(), dxd.Kind(), defval.GoTag)
				if err != nil {
					c.PropFail("C46", "defval.Marshal of a schema default fails", s.name)
					continue
				}
				parts = append(parts, "def="+d)
			}
			tag := strings.Join(parts, ",")
			legacyXPairs = append(legacyXPairs, &legacyXPair{
				label: e.label + "/" + s.name, tag: tag, elem: legacyXElem(s.extType), enumName: s.enumName,
				fj2:      s.proto3 && !s.packed && s.repeated && s.packable,
				extendee: e.mt,
				l: &protoimpl.ExtensionInfo{
					ExtendedType: e.v1, ExtensionType: s.extType, Field: num,
					Name: pkg + "." + s.name, Tag: tag, Filename: "verif/legx_" + e.label + ".proto",
				},
				d: dynamicpb.NewExtensionType(dxd),
			})
		}
	}
}

// every accessor of an extension descriptor
func legacyXSig(xd protoreflect.ExtensionDescriptor) string {
	var sb strings.Builder
	fmt.Fprintf(&sb, "%s full=%s ext=%v list=%v map=%v optkw=%v text=%s extendee=%s", legacyFieldSig(xd), xd.FullName(),
		xd.IsExtension(), xd.IsList(), xd.IsMap(), xd.HasOptionalKeyword(), xd.TextName(), xd.ContainingMessage().FullName())
	if xd.ContainingOneof() != nil {
		sb.WriteString(" oneof")
	}
	if xd.HasDefault() && xd.Kind() == protoreflect.EnumKind && xd.DefaultEnumValue() != nil {
		fmt.Fprintf(&sb, " defenum=%s", xd.DefaultEnumValue().Name())
	}
	return sb.String()
}

func legacyXDescriptors(c *Ctx, p *legacyXPair) (ok bool) {
	defer func() {
		if r := recover(); r != nil {
			c.PropFail("C46", fmt.Sprintf("panic deriving a legacy extension descriptor: %v", r), p.label, p.tag)
			ok = false
		}
	}()
	lxd, dxd := p.l.TypeDescriptor(), p.d.TypeDescriptor()
	c.Stat("legx:descriptor")
	want, got := legacyXSig(dxd), legacyXSig(lxd)
	if want != got {
		if p.fj2 && strings.Replace(got, " packed=true", " packed=false", 1) == want {
			c.Known("FJ2", "C46", "legacy extension tag marked proto3 without \"packed\" is derived as packed")
			return false
		}
		c.PropFail("C46", "extension derived from the legacy ExtensionDesc fields differs from the one built from the equivalent FieldDescriptorProto", p.label, p.tag, want, got)
		return false
	}
	// the same tag through the struct-tag codec C lines (Coq model)
	legacyOpUntag(c, p.tag, p.elem, true)
	tl, td := legacyOpTag(c, lxd, p.enumName), legacyOpTag(c, dxd, p.enumName)
	if tl != td {
		c.PropFail("C46", "tag.Marshal of the derived and of the built extension differ", p.label, tl, td)
	}
	// the legacy fields are kept
	if p.l.Field != int32(lxd.Number()) || p.l.Name != string(lxd.FullName()) {
		c.PropFail("C46", "legacy extension descriptor disagrees with its Field / Name", p.label)
	}
	return true
}

// the same random content in an extendee through the legacy and through the built extension type
func legacyXContent(c *Ctx, label string, mt protoreflect.MessageType, l, d protoreflect.ExtensionType, seed uint64) {
	defer func() {
		if r := recover(); r != nil {
			c.PropFail("C46", fmt.Sprintf("panic using a legacy extension: %v", r), label, HexN(seed))
		}
	}()
	ml, md := mt.New(), mt.New()
	save := c.rng
	c.rng = seed
	legacyFillField(c, ml, l.TypeDescriptor(), 1)
	c.rng = seed
	legacyFillField(c, md, d.TypeDescriptor(), 1)
	c.rng = save
	ol, od := legacyObserve(ml.Interface()), legacyObserve(md.Interface())
	if diff := legacyDiff(ol, od); diff != "" {
		c.PropFail("C46", "legacy and built extension with the same content differ in "+diff, label, HexN(seed))
		return
	}
	c.Stat("legx:content")
	if strings.Contains(ol.errs, "wire") {
		return
	}
	regL, regD := new(protoregistry.Types), new(protoregistry.Types)
	regL.RegisterExtension(l)
	regD.RegisterExtension(d)
	// cross-decoding: the bytes written through one are read through the other
	ml2, md2 := mt.New(), mt.New()
	e1 := proto.UnmarshalOptions{Resolver: regL, AllowPartial: true}.Unmarshal(od.wire, ml2.Interface())
	e2 := proto.UnmarshalOptions{Resolver: regD, AllowPartial: true}.Unmarshal(ol.wire, md2.Interface())
	if e1 != nil || e2 != nil {
		c.PropFail("C46", "cross-decoding of extension bytes fails", label, HexN(seed))
		return
	}
	ol2, od2 := legacyObserve(ml2.Interface()), legacyObserve(md2.Interface())
	if diff := legacyDiff(ol2, od2); diff != "" {
		c.PropFail("C46", "after cross-decoding: legacy and built extension differ in "+diff, label, HexN(seed))
	}
	if ol2.dump != ol.dump || !bytes.Equal(ol2.wire, ol.wire) {
		c.PropFail("C46", "decoding the encoded extension changes the content", label, HexN(seed))
	}
	if len(ml2.GetUnknown()) != 0 || len(md2.GetUnknown()) != 0 {
		c.PropFail("C46", "extension bytes end up in the unknown fields", label, HexN(seed))
	}
	if !strings.Contains(ol.errs, "json") {
		ml3, md3 := mt.New(), mt.New()
		e1 := protojson.UnmarshalOptions{Resolver: regL, AllowPartial: true}.Unmarshal([]byte(od.json), ml3.Interface())
		e2 := protojson.UnmarshalOptions{Resolver: regD, AllowPartial: true}.Unmarshal([]byte(ol.json), md3.Interface())
		if e1 != nil || e2 != nil {
			c.PropFail("C46", "protojson output with an extension does not parse back", label, HexN(seed))
		} else if a, b := legacyObserve(ml3.Interface()), legacyObserve(md3.Interface()); legacyDiff(a, b) != "" || a.dump != ol.dump {
			c.PropFail("C46", "after JSON cross-parsing: legacy and built extension differ", label, HexN(seed))
		}
	}
	if !strings.Contains(ol.errs, "text") {
		ml3, md3 := mt.New(), mt.New()
		e1 := prototext.UnmarshalOptions{Resolver: regL, AllowPartial: true}.Unmarshal([]byte(od.text), ml3.Interface())
		e2 := prototext.UnmarshalOptions{Resolver: regD, AllowPartial: true}.Unmarshal([]byte(ol.text), md3.Interface())
		if e1 != nil || e2 != nil {
			c.PropFail("C46", "prototext output with an extension does not parse back", label, HexN(seed))
		} else if a, b := legacyObserve(ml3.Interface()), legacyObserve(md3.Interface()); legacyDiff(a, b) != "" || a.dump != ol.dump {
			c.PropFail("C46", "after text cross-parsing: legacy and built extension differ", label, HexN(seed))
		}
	}
}

// Group extensions: protodesc wants the group's message declared next to the field, so an
// equivalent schema cannot point at an existing Go type; the derived descriptor is checked by
// hand here (and every linked group extension goes through legacyXLinkedCorpus).
func legacyXGroups(c *Ctx) {
	defer func() {
		if r := recover(); r != nil {
			c.PropFail("C46", fmt.Sprintf("panic deriving a legacy group extension: %v", r))
		}
	}()
	for _, g := range []struct {
		extType  any
		rep      bool
		msg      protoreflect.FullName
		card, nm string
	}{
		{(*testpb.TestAllTypes_OptionalGroup)(nil), false, "goproto.proto.test.TestAllTypes.OptionalGroup", "opt", "OptionalGroup"},
		{[]*testpb.TestAllTypes_RepeatedGroup(nil), true, "goproto.proto.test.TestAllTypes.RepeatedGroup", "rep", "RepeatedGroup"},
	} {
		tag := "group,31000," + g.card + ",name=" + g.nm
		xi := &protoimpl.ExtensionInfo{ExtendedType: (*testpb.TestAllExtensions)(nil), ExtensionType: g.extType,
			Field: 31000, Name: "verif.legxg." + strings.ToLower(g.nm), Tag: tag}
		xd := xi.TypeDescriptor()
		if xd.Kind() != protoreflect.GroupKind || xd.Message() == nil || xd.Message().FullName() != g.msg ||
			xd.IsList() != g.rep || xd.Number() != 31000 || xd.IsPacked() || xd.Name() != protoreflect.Name(strings.ToLower(g.nm)) ||
			xd.ContainingMessage().FullName() != "goproto.proto.test.TestAllExtensions" || xd.HasPresence() == g.rep {
			c.PropFail("C46", "legacy group extension derived wrongly", tag)
		}
		legacyOpUntag(c, tag, legacyXElem(g.extType), true)
		// content: the same group value set through the legacy type on two messages, and a round trip
		m := (&testpb.TestAllExtensions{}).ProtoReflect()
		save := c.rng
		legacyFillField(c, m, xd, 1)
		c.rng = save
		b, err := legacyMO.Marshal(m.Interface())
		reg := new(protoregistry.Types)
		reg.RegisterExtension(xi)
		m2 := (&testpb.TestAllExtensions{}).ProtoReflect()
		if err != nil || (proto.UnmarshalOptions{Resolver: reg, AllowPartial: true}).Unmarshal(b, m2.Interface()) != nil ||
			!proto.Equal(m.Interface(), m2.Interface()) || len(m2.GetUnknown()) != 0 {
			c.PropFail("C46", "legacy group extension does not round-trip", tag)
		}
		// on the wire it is a group: start tag 31000/3
		if m.Has(xd) && len(b) > 0 && !bytes.HasPrefix(b, protowireTag(31000, 3)) {
			c.PropFail("C46", "legacy group extension is not written as a group", tag)
		}
		c.Stat("legx:group")
	}
}

func protowireTag(num int32, typ byte) []byte {
	v := uint64(num)<<3 | uint64(typ)
	var b []byte
	for v >= 0x80 {
		b = append(b, byte(v)|0x80)
		v >>= 7
	}
	return append(b, byte(v))
}

var legacyXGood []*legacyXPair

// the whole matrix: descriptors once, then one content each
func legacyXCorpus(c *Ctx) {
	legacyXSetup(c)
	legacyXGroups(c)
	legacyXGood = legacyXGood[:0]
	for _, p := range legacyXPairs {
		if legacyXDescriptors(c, p) {
			legacyXGood = append(legacyXGood, p)
			legacyXContent(c, p.label, p.extendee, p.l, p.d, c.U64())
		}
	}
}

func legacyXRandom(c *Ctx, seed uint64) {
	if len(legacyXGood) == 0 {
		return
	}
	p := legacyXGood[c.Intn(len(legacyXGood))]
	legacyXContent(c, p.label, p.extendee, p.l, p.d, seed)
}

// ---------------------------------------------------------------- every linked extension, through its own legacy fields

type legacyXLinked struct {
	name string
	mt   protoreflect.MessageType
	x, y *protoimpl.ExtensionInfo
}

var legacyXLinkedAll []*legacyXLinked

func legacyXLinkedCorpus(c *Ctx) {
	var xts []*protoimpl.ExtensionInfo
	protoregistry.GlobalTypes.RangeExtensions(func(xt protoreflect.ExtensionType) bool {
		if xi, ok := xt.(*protoimpl.ExtensionInfo); ok {
			xts = append(xts, xi)
		}
		return true
	})
	sort.Slice(xts, func(i, j int) bool { return xts[i].TypeDescriptor().FullName() < xts[j].TypeDescriptor().FullName() })
	legacyXLinkedAll = legacyXLinkedAll[:0]
	for _, x := range xts {
		func() {
			xd := x.TypeDescriptor()
			name := string(xd.FullName())
			defer func() {
				if r := recover(); r != nil {
					c.PropFail("C46", fmt.Sprintf("panic taking an extension through its legacy fields: %v", r), name)
				}
			}()
			if messageset.IsMessageSet(xd.ContainingMessage()) {
				// MessageSet extendees work only in builds with -tags protolegacy (C47; F13 otherwise)
				c.Stat("legx:linked-messageset-skipped")
				return
			}
			x.Zero() // completes the lazy initialisation, which fills in the legacy fields
			if x.ExtendedType == nil || x.ExtensionType == nil {
				c.Stat("legx:linked-no-v1-parent")
				return
			}
			mt, err := protoregistry.GlobalTypes.FindMessageByName(xd.ContainingMessage().FullName())
			if err != nil {
				return
			}
			y := &protoimpl.ExtensionInfo{ExtendedType: x.ExtendedType, ExtensionType: x.ExtensionType,
				Field: x.Field, Name: x.Name, Tag: x.Tag, Filename: x.Filename}
			yd := y.TypeDescriptor()
			c.Stat("legx:linked")
			// the syntax of the declaring file, the JSON name and laziness are not carried by the legacy fields
			strip := func(xd protoreflect.ExtensionDescriptor) string {
				s := legacyXSig(xd)
				if i := strings.Index(s, " optkw="); i >= 0 {
					j := strings.Index(s[i+1:], " ")
					s = s[:i] + s[i+1+j:]
				}
				return s
			}
			if want, got := strip(xd), strip(yd); want != got {
				c.PropFail("C46", "an extension taken through its legacy fields (initToLegacy, initFromLegacy) comes back different", name, want, got)
				return
			}
			legacyXLinkedAll = append(legacyXLinkedAll, &legacyXLinked{name, mt, x, y})
		}()
	}
	// contents for the packed ones always, for a sample of the others
	for i, p := range legacyXLinkedAll {
		if p.x.TypeDescriptor().IsPacked() || i%7 == int(c.Seed%7) {
			legacyXContent(c, "linked/"+p.name, p.mt, p.x, p.y, c.U64())
		}
	}
}

func legacyXLinkedRandom(c *Ctx, seed uint64) {
	if len(legacyXLinkedAll) == 0 {
		return
	}
	p := legacyXLinkedAll[c.Intn(len(legacyXLinkedAll))]
	legacyXContent(c, "linked/"+p.name, p.mt, p.x, p.y, seed)
}
