//go:build verif

package main

// Helpers shared by the families det (C05), equal (C30) and fastslow (C08).
//
//	detBinaryCopy(new, m)         Marshal -> Unmarshal into a fresh message (never proto.Clone/Merge)
//	detBuild(c, src, dst, perm)   independent construction of src's content in dst through protoreflect
//	                              only; fields assigned / map entries inserted in a c-chosen order;
//	                              returns the "concrete dump": the canonical value tokens of
//	                              common_msg.go, but in assignment / insertion order
//	detFill(c, m, depth, budget)  random content without invalid UTF-8
//	detDigest(b)                  short hex digest
//	detNormalizeUnknown(m)        re-encode the tag of every unknown field minimally, in the whole tree
//	detSelfExec(...)              run another harness process and collect its "D" lines

import (
	"bufio"
	"crypto/sha256"
	"encoding/hex"
	"fmt"
	"os"
	"os/exec"
	"sort"
	"strconv"
	"strings"

	"google.golang.org/protobuf/encoding/protowire"
	"google.golang.org/protobuf/proto"
	"google.golang.org/protobuf/reflect/protoreflect"
)

func detDigest(b []byte) string {
	h := sha256.Sum256(b)
	return hex.EncodeToString(h[:8])
}

func detDigestToks(toks []string) string {
	return detDigest([]byte(strings.Join(toks, "\t")))
}

// detFill: random content, valid UTF-8 only (Marshal must succeed).
func detFill(c *Ctx, m protoreflect.Message, depth int, budget int, unknown bool) (ok bool) {
	defer func() {
		if r := recover(); r != nil {
			c.Stat("fill_panic")
			ok = false
		}
	}()
	b := budget
	msgRandomFillOpts(c, m, depth, msgFillOpts{budget: &b, badUTF8: false, unknown: unknown, dense: c.Intn(8) == 0})
	return true
}

// detBinaryCopy returns Unmarshal(Marshal(m)) in a fresh message made by mk.
func detBinaryCopy(mk func() protoreflect.Message, m protoreflect.Message, det bool) (protoreflect.Message, error) {
	b, err := proto.MarshalOptions{AllowPartial: true, Deterministic: det}.Marshal(m.Interface())
	if err != nil {
		return nil, err
	}
	m2 := mk()
	if err := (proto.UnmarshalOptions{AllowPartial: true}).Unmarshal(b, m2.Interface()); err != nil {
		return nil, err
	}
	return m2, nil
}

type detEnt struct {
	fd protoreflect.FieldDescriptor
	v  protoreflect.Value
}

// detPopulated: the populated fields of m sorted by number (independent of Range order).
func detPopulated(m protoreflect.Message) []detEnt {
	var es []detEnt
	m.Range(func(fd protoreflect.FieldDescriptor, v protoreflect.Value) bool {
		es = append(es, detEnt{fd, v})
		return true
	})
	sort.Slice(es, func(i, j int) bool { return es[i].fd.Number() < es[j].fd.Number() })
	return es
}

func detSortedKeys(mp protoreflect.Map) []protoreflect.MapKey {
	var keys []protoreflect.MapKey
	mp.Range(func(k protoreflect.MapKey, _ protoreflect.Value) bool { keys = append(keys, k); return true })
	sort.Slice(keys, func(i, j int) bool { return msgKeyLess(keys[i], keys[j]) })
	return keys
}

func detShuffleEnts(c *Ctx, es []detEnt) {
	for i := len(es) - 1; i > 0; i-- {
		j := c.Intn(i + 1)
		es[i], es[j] = es[j], es[i]
	}
}

func detShuffleKeys(c *Ctx, ks []protoreflect.MapKey) {
	for i := len(ks) - 1; i > 0; i-- {
		j := c.Intn(i + 1)
		ks[i], ks[j] = ks[j], ks[i]
	}
}

func detCopyScalar(fd protoreflect.FieldDescriptor, v protoreflect.Value) protoreflect.Value {
	if fd.Kind() == protoreflect.BytesKind {
		return protoreflect.ValueOfBytes(append([]byte{}, v.Bytes()...))
	}
	return v
}

// detSetValue stores a copy of (fd, v) of the source message in dst and appends the concrete tokens
// of the field's values (without the number / count header).
func detSetField(c *Ctx, dst protoreflect.Message, fd protoreflect.FieldDescriptor, v protoreflect.Value, perm bool, toks []string) []string {
	switch {
	case fd.IsMap():
		src := v.Map()
		keys := detSortedKeys(src)
		if perm {
			detShuffleKeys(c, keys)
		}
		mp := dst.Mutable(fd).Map()
		vfd := fd.MapValue()
		for _, k := range keys {
			toks = append(toks, "E", msgScalarToken(fd.MapKey(), k.Value()))
			if vfd.Message() != nil {
				nv := mp.NewValue()
				toks = detBuildInto(c, src.Get(k).Message(), nv.Message(), perm, toks)
				mp.Set(k, nv)
			} else {
				mp.Set(k, detCopyScalar(vfd, src.Get(k)))
				toks = append(toks, msgScalarToken(vfd, src.Get(k)))
			}
		}
	case fd.IsList():
		src := v.List()
		var l protoreflect.List
		if fd.IsExtension() {
			l = dst.NewField(fd).List()
		} else {
			dst.Clear(fd)
			l = dst.Mutable(fd).List()
		}
		for i := 0; i < src.Len(); i++ {
			if fd.Message() != nil {
				e := l.NewElement()
				toks = detBuildInto(c, src.Get(i).Message(), e.Message(), perm, toks)
				l.Append(e)
			} else {
				l.Append(detCopyScalar(fd, src.Get(i)))
				toks = append(toks, msgScalarToken(fd, src.Get(i)))
			}
		}
		if fd.IsExtension() {
			dst.Set(fd, protoreflect.ValueOfList(l))
		}
	case fd.Message() != nil:
		if fd.IsExtension() {
			nv := dst.NewField(fd)
			toks = detBuildInto(c, v.Message(), nv.Message(), perm, toks)
			dst.Set(fd, nv)
		} else {
			dst.Clear(fd)
			toks = detBuildInto(c, v.Message(), dst.Mutable(fd).Message(), perm, toks)
		}
	default:
		dst.Set(fd, detCopyScalar(fd, v))
		toks = append(toks, msgScalarToken(fd, v))
	}
	return toks
}

func detFieldCount(fd protoreflect.FieldDescriptor, v protoreflect.Value) int {
	switch {
	case fd.IsMap():
		return v.Map().Len()
	case fd.IsList():
		return v.List().Len()
	}
	return 1
}

// detBuildInto copies src into the (empty) message dst and appends the concrete dump.
func detBuildInto(c *Ctx, src, dst protoreflect.Message, perm bool, toks []string) []string {
	es := detPopulated(src)
	if perm {
		detShuffleEnts(c, es)
	}
	toks = append(toks, "M", strconv.Itoa(len(es)))
	for _, e := range es {
		toks = append(toks, HexN(uint64(e.fd.Number())), strconv.Itoa(detFieldCount(e.fd, e.v)))
		toks = detSetField(c, dst, e.fd, e.v, perm, toks)
	}
	u := src.GetUnknown()
	if len(u) > 0 {
		dst.SetUnknown(append(protoreflect.RawFields{}, u...))
	}
	return append(toks, HexB(u))
}

// detBuild: see the file comment.
func detBuild(c *Ctx, src, dst protoreflect.Message, perm bool) []string {
	return detBuildInto(c, src, dst, perm, nil)
}

// detNormalizeUnknown re-encodes the tag of every unknown field of m and of every message
// reachable from it minimally (what the table-driven decoder stores; the reflection decoder keeps
// the tag bytes of the input).  Values are left untouched.
func detNormalizeUnknown(m protoreflect.Message) {
	if u := m.GetUnknown(); len(u) > 0 {
		if n := detMinimalTags(u); n != nil {
			m.SetUnknown(n)
		}
	}
	m.Range(func(fd protoreflect.FieldDescriptor, v protoreflect.Value) bool {
		switch {
		case fd.IsMap():
			if fd.MapValue().Message() != nil {
				v.Map().Range(func(_ protoreflect.MapKey, x protoreflect.Value) bool {
					detNormalizeUnknown(x.Message())
					return true
				})
			}
		case fd.IsList():
			if fd.Message() != nil {
				l := v.List()
				for i := 0; i < l.Len(); i++ {
					detNormalizeUnknown(l.Get(i).Message())
				}
			}
		case fd.Message() != nil:
			detNormalizeUnknown(v.Message())
		}
		return true
	})
}

// detMinimalTags returns u with every top-level tag re-encoded minimally, nil when u does not
// parse or nothing changes.
func detMinimalTags(u []byte) []byte {
	var out []byte
	changed := false
	b := u
	for len(b) > 0 {
		num, typ, n := protowire.ConsumeTag(b)
		if n < 0 {
			return nil
		}
		m := protowire.ConsumeFieldValue(num, typ, b[n:])
		if m < 0 {
			return nil
		}
		tag := protowire.AppendTag(nil, num, typ)
		if len(tag) != n {
			changed = true
		}
		out = append(out, tag...)
		out = append(out, b[n:n+m]...)
		b = b[n+m:]
	}
	if !changed {
		return nil
	}
	return out
}

// detSelfExec runs harness binary bin for family fam with the same seed / n / tier as c and the
// extra environment env; the child writes "D\t<key>\t<tokens...>" lines to a temporary file,
// which are returned in order.
func detSelfExec(c *Ctx, bin, fam string, env []string) ([][]string, error) {
	tmp, err := os.CreateTemp("", "verif-"+fam+"-child-*")
	if err != nil {
		return nil, err
	}
	tmp.Close()
	defer os.Remove(tmp.Name())
	cmd := exec.Command(bin, fam, "-seed", strconv.FormatUint(c.Seed, 10), "-n", strconv.Itoa(c.N), "-tier", c.Tier, "-out", os.DevNull)
	cmd.Env = append(os.Environ(), env...)
	cmd.Env = append(cmd.Env, "VERIF_CHILD_OUT="+tmp.Name(), "GOLANG_PROTOBUF_REGISTRATION_CONFLICT=ignore")
	if out, err := cmd.CombinedOutput(); err != nil {
		tail := string(out)
		if len(tail) > 600 {
			tail = tail[len(tail)-600:]
		}
		return nil, fmt.Errorf("%v: %s", err, tail)
	}
	f, err := os.Open(tmp.Name())
	if err != nil {
		return nil, err
	}
	defer f.Close()
	var lines [][]string
	sc := bufio.NewScanner(f)
	sc.Buffer(make([]byte, 1<<20), 1<<28)
	for sc.Scan() {
		parts := strings.Split(sc.Text(), "\t")
		if len(parts) >= 2 && parts[0] == "D" {
			lines = append(lines, parts[1:])
		}
	}
	return lines, sc.Err()
}

// detChildWriter: in a child process (VERIF_CHILD_OUT set) returns a writer for D lines.
type detChild struct {
	w *bufio.Writer
	f *os.File
}

func detChildOpen() *detChild {
	p := os.Getenv("VERIF_CHILD_OUT")
	if p == "" {
		return nil
	}
	f, err := os.Create(p)
	if err != nil {
		panic(err)
	}
	return &detChild{w: bufio.NewWriterSize(f, 1<<20), f: f}
}

func (d *detChild) Line(toks ...string) {
	d.w.WriteString("D\t" + strings.Join(toks, "\t") + "\n")
}

func (d *detChild) Close() {
	d.w.Flush()
	d.f.Close()
}
