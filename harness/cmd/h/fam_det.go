//go:build verif

package main

// family "det" (C05): deterministic marshaling is a function of message content.
//
// For every linked message type and for random schemas: one random content m0, then messages with
// the same content obtained along different routes -- repeated marshals, binary copies (default
// marshal, i.e. random map order, then Unmarshal), independent reconstruction through protoreflect
// with permuted field-assignment and map-insertion order (generated type and dynamicpb), operation
// histories with noise (values overwritten, map keys inserted and deleted, fields set and cleared),
// proto.Clone, and the same seeded cases re-executed in a SEPARATE PROCESS of this binary (other
// map hash seeds).  All must marshal to identical bytes with Deterministic set.
// Conversely: any two messages of one type with identical deterministic bytes must be proto.Equal
// (family members, representation variants such as empty-but-allocated lists and maps, and
// accidental collisions between different random contents).
//
// Case lines (model-compared, Msg/DetModel.v):
//	det  <schema id> <concrete value>     | x<deterministic bytes>
//	     (the value tokens of common_msg.go, but fields in ASSIGNMENT order and map entries in
//	     INSERTION order; the model sorts)
//	hist <schema id> <nops> <op>...       | x<deterministic bytes>
//	     op = S <num> <n> <val>... | C <num> | P <num> <key> <val> | D <num> <key> | U x<unknown>
// P lines: C05.

import (
	"bytes"
	"fmt"
	"os"
	"strconv"

	"google.golang.org/protobuf/proto"
	"google.golang.org/protobuf/reflect/protoreflect"
	"google.golang.org/protobuf/types/dynamicpb"
)

func init() { Register("det", famDet) }

type detRun struct {
	c       *Ctx
	child   *detChild
	digests [][2]string
	seen    map[string]protoreflect.Message // type name + det digest -> first message with these bytes
}

func (d *detRun) record(key string, b []byte) {
	dg := detDigest(b)
	if d.child != nil {
		d.child.Line(key, dg)
		return
	}
	d.digests = append(d.digests, [2]string{key, dg})
}

type detTarget struct {
	md  protoreflect.MessageDescriptor
	gen func() protoreflect.Message // nil for random schemas
	id  string
}

func (t *detTarget) dyn() protoreflect.Message { return dynamicpb.NewMessage(t.md) }
func (t *detTarget) base() protoreflect.Message {
	if t.gen != nil {
		return t.gen()
	}
	return t.dyn()
}

func detMarshal(m protoreflect.Message) ([]byte, error) {
	return proto.MarshalOptions{Deterministic: true, AllowPartial: true}.Marshal(m.Interface())
}

// ---------------------------------------------------------------- histories

type detThread struct {
	steps []func() []string // each step performs one operation on dst and returns its tokens
}

// detHistory builds the content of src in dst by an operation history with noise, returning the
// op tokens and the number of ops.  Only the top level is noisy; nested messages are built by
// detBuild (permuted).
func detHistory(c *Ctx, t *detTarget, src, dst protoreflect.Message) ([]string, int) {
	var threads []detThread
	scratch := func(fd protoreflect.FieldDescriptor) (v protoreflect.Value, ok bool) {
		defer func() {
			if r := recover(); r != nil {
				ok = false
			}
		}()
		tmp := dst.New()
		b := 12
		msgFillField(c, tmp, fd, 1, msgFillOpts{budget: &b, badUTF8: false, unknown: false})
		if !tmp.Has(fd) {
			return protoreflect.Value{}, false
		}
		return tmp.Get(fd), true
	}
	setOp := func(fd protoreflect.FieldDescriptor, v protoreflect.Value) func() []string {
		return func() []string {
			toks := []string{"S", HexN(uint64(fd.Number())), strconv.Itoa(detFieldCount(fd, v))}
			return detSetField(c, dst, fd, v, true, toks)
		}
	}
	clearOp := func(fd protoreflect.FieldDescriptor) func() []string {
		return func() []string {
			dst.Clear(fd)
			return []string{"C", HexN(uint64(fd.Number()))}
		}
	}
	putOp := func(fd protoreflect.FieldDescriptor, k protoreflect.MapKey, v protoreflect.Value) func() []string {
		return func() []string {
			toks := []string{"P", HexN(uint64(fd.Number())), msgScalarToken(fd.MapKey(), k.Value())}
			mp := dst.Mutable(fd).Map()
			vfd := fd.MapValue()
			if vfd.Message() != nil {
				nv := mp.NewValue()
				toks = detBuildInto(c, v.Message(), nv.Message(), true, toks)
				mp.Set(k, nv)
			} else {
				mp.Set(k, detCopyScalar(vfd, v))
				toks = append(toks, msgScalarToken(vfd, v))
			}
			return toks
		}
	}
	delOp := func(fd protoreflect.FieldDescriptor, k protoreflect.MapKey) func() []string {
		return func() []string {
			dst.Mutable(fd).Map().Clear(k)
			return []string{"D", HexN(uint64(fd.Number())), msgScalarToken(fd.MapKey(), k.Value())}
		}
	}
	final := map[protoreflect.FieldNumber]bool{}
	oneofUsed := map[protoreflect.FullName]bool{}
	es := detPopulated(src)
	detShuffleEnts(c, es)
	for _, e := range es {
		fd, v := e.fd, e.v
		final[fd.Number()] = true
		if od := fd.ContainingOneof(); od != nil {
			oneofUsed[od.FullName()] = true
		}
		var th detThread
		if fd.IsMap() {
			src := v.Map()
			keys := detSortedKeys(src)
			detShuffleKeys(c, keys)
			// extra keys that are deleted again, and first values that are overwritten
			if nv, ok := scratch(fd); ok && c.Intn(2) == 0 {
				extra := detSortedKeys(nv.Map())
				var dels []func() []string
				for _, k := range extra {
					if src.Has(k) {
						continue
					}
					th.steps = append(th.steps, putOp(fd, k, nv.Map().Get(k)))
					dels = append(dels, delOp(fd, k))
				}
				for _, k := range keys {
					if nv.Map().Has(k) {
						// a first value that is overwritten
						th.steps = append(th.steps, putOp(fd, k, nv.Map().Get(k)))
					}
					th.steps = append(th.steps, putOp(fd, k, src.Get(k)))
					if len(dels) > 0 && c.Intn(2) == 0 {
						th.steps = append(th.steps, dels[0])
						dels = dels[1:]
					}
				}
				th.steps = append(th.steps, dels...)
			} else {
				for _, k := range keys {
					th.steps = append(th.steps, putOp(fd, k, src.Get(k)))
				}
			}
		} else {
			if c.Intn(3) == 0 {
				if nv, ok := scratch(fd); ok {
					th.steps = append(th.steps, setOp(fd, nv))
					if c.Intn(3) == 0 {
						th.steps = append(th.steps, clearOp(fd))
					}
				}
			}
			th.steps = append(th.steps, setOp(fd, v))
		}
		threads = append(threads, th)
	}
	// noise on fields that are not part of the final content: set, then cleared
	fds := t.md.Fields()
	for i := 0; i < fds.Len() && i < 200; i++ {
		fd := fds.Get(i)
		if final[fd.Number()] || c.Intn(6) != 0 {
			continue
		}
		if od := fd.ContainingOneof(); od != nil && oneofUsed[od.FullName()] {
			continue // setting it would clear the final member
		}
		nv, ok := scratch(fd)
		if !ok {
			continue
		}
		var th detThread
		if fd.IsMap() {
			for _, k := range detSortedKeys(nv.Map()) {
				th.steps = append(th.steps, putOp(fd, k, nv.Map().Get(k)))
			}
			if c.Bool() {
				for _, k := range detSortedKeys(nv.Map()) {
					th.steps = append(th.steps, delOp(fd, k))
				}
			} else {
				th.steps = append(th.steps, clearOp(fd))
			}
		} else {
			th.steps = append(th.steps, setOp(fd, nv), clearOp(fd))
		}
		if od := fd.ContainingOneof(); od != nil {
			oneofUsed[od.FullName()] = true
		}
		threads = append(threads, th)
	}
	// unknown bytes: possibly set to something else first
	u := src.GetUnknown()
	unkOp := func(b []byte) func() []string {
		return func() []string {
			dst.SetUnknown(append(protoreflect.RawFields{}, b...))
			return []string{"U", HexB(b)}
		}
	}
	var uth detThread
	if c.Intn(3) == 0 {
		uth.steps = append(uth.steps, unkOp(msgGenUnknown(c, t.md)))
	}
	if len(uth.steps) > 0 || len(u) > 0 {
		uth.steps = append(uth.steps, unkOp(u))
		threads = append(threads, uth)
	}
	// interleave the threads, keeping each thread's order
	var toks []string
	nops := 0
	for len(threads) > 0 {
		i := c.Intn(len(threads))
		if len(threads[i].steps) == 0 {
			threads = append(threads[:i], threads[i+1:]...)
			continue
		}
		toks = append(toks, threads[i].steps[0]()...)
		threads[i].steps = threads[i].steps[1:]
		nops++
	}
	return toks, nops
}

// ---------------------------------------------------------------- one content

// detInvisible applies representation changes that do not change the content: allocated-but-empty
// lists and maps, empty extension lists.
func detInvisible(c *Ctx, t *detTarget, m protoreflect.Message) {
	fds := t.md.Fields()
	for i := 0; i < fds.Len() && i < 300; i++ {
		fd := fds.Get(i)
		if m.Has(fd) || c.Intn(3) != 0 || fd.ContainingOneof() != nil {
			continue
		}
		if fd.IsList() || fd.IsMap() {
			m.Mutable(fd) // allocated, empty
			c.Stat("invisible_empty_collection")
		}
	}
	for _, xd := range msgExtensionsOf(t.md) {
		if xd.IsList() && !m.Has(xd) && c.Intn(2) == 0 {
			m.Set(xd, m.NewField(xd)) // an extension-map entry holding an empty list
			c.Stat("invisible_empty_ext_list")
		}
	}
}

func (d *detRun) one(t *detTarget, depth int) {
	c := d.c
	name := string(t.md.FullName())
	defer func() {
		if r := recover(); r != nil {
			c.PropFail("C05", fmt.Sprintf("panic (%s): %v", name, r))
		}
	}()
	m0 := t.base()
	if !detFill(c, m0, depth, 60+c.Intn(200), true) {
		return
	}
	det0, err := detMarshal(m0)
	if err != nil {
		c.Stat("marshal_error")
		return
	}
	d.record(name, det0)
	dump0 := msgDump(m0)
	if t.id == "" {
		t.id = msgSchemaOf(c, t.md)
	}
	c.Case("det", "det", append([]string{t.id}, dump0...), []string{HexB(det0)})

	type variant struct {
		name string
		m    protoreflect.Message
	}
	var vs []variant
	add := func(name string, m protoreflect.Message, err error) {
		if err != nil || m == nil {
			c.Stat("variant_failed_" + name)
			return
		}
		vs = append(vs, variant{name, m})
	}
	// repeated marshals of the same message, with other operations in between
	proto.MarshalOptions{AllowPartial: true}.Marshal(m0.Interface())
	proto.Size(m0.Interface())
	add("again", m0, nil)
	// binary copies (default marshal: map entries in Go's iteration order)
	mc, err := detBinaryCopy(t.base, m0, false)
	add("bincopy", mc, err)
	if t.gen != nil {
		mc, err = detBinaryCopy(t.dyn, m0, false)
		add("bincopy_dyn", mc, err)
	}
	// permuted reconstruction
	mp := t.base()
	ctoks := detBuild(c, m0, mp, true)
	add("perm", mp, nil)
	if b, err := detMarshal(mp); err == nil {
		c.Case("det", "det", append([]string{t.id}, ctoks...), []string{HexB(b)})
	}
	if t.gen != nil {
		md := t.dyn()
		detBuild(c, m0, md, true)
		add("perm_dyn", md, nil)
	}
	// history with noise
	mh := t.base()
	if t.gen != nil && c.Intn(3) == 0 {
		mh = t.dyn()
	}
	htoks, nops := detHistory(c, t, m0, mh)
	add("hist", mh, nil)
	if b, err := detMarshal(mh); err == nil {
		c.Case("det", "hist", append([]string{t.id, strconv.Itoa(nops)}, htoks...), []string{HexB(b)})
		c.StatN("hist_ops", nops)
	}
	// representation variants
	mi := t.base()
	detBuild(c, m0, mi, true)
	detInvisible(c, t, mi)
	add("invisible", mi, nil)
	// clone
	add("clone", proto.Clone(m0.Interface()).ProtoReflect(), nil)

	for _, v := range vs {
		if !msgEqualToks(msgDump(v.m), dump0) {
			// not the same content (e.g. legacy types without unknown-field storage): nothing to compare
			c.Stat("variant_content_differs_" + v.name)
			continue
		}
		c.Stat("variant_same_content")
		b, err := detMarshal(v.m)
		if err != nil {
			c.PropFail("C05", "Marshal fails for a message with the same content ("+v.name+" "+name+")", HexB(det0))
			continue
		}
		d.record(name+"/"+v.name, b)
		if !bytes.Equal(b, det0) {
			c.PropFail("C05", "differing deterministic bytes for equal content ("+v.name+" "+name+")", HexB(det0), HexB(b))
			continue
		}
		// a second marshal of the variant
		if b2, err := detMarshal(v.m); err != nil || !bytes.Equal(b2, b) {
			c.PropFail("C05", "repeated deterministic marshal differs ("+v.name+" "+name+")", HexB(b), HexB(b2))
		}
		if !proto.Equal(m0.Interface(), v.m.Interface()) || !proto.Equal(v.m.Interface(), m0.Interface()) {
			c.PropFail("C05", "equal deterministic bytes but not proto.Equal ("+v.name+" "+name+")", HexB(det0))
		}
	}
	// near miss: one value changed; if the bytes happen to be the same the messages must be Equal
	mn := t.base()
	detBuild(c, m0, mn, false)
	if equalMutate(c, mn) {
		if b, err := detMarshal(mn); err == nil {
			if bytes.Equal(b, det0) {
				c.Stat("nearmiss_same_bytes")
				if !proto.Equal(m0.Interface(), mn.Interface()) {
					c.PropFail("C05", "equal deterministic bytes but not proto.Equal (near miss "+name+")", HexB(det0))
				}
			} else {
				c.Stat("nearmiss_different_bytes")
			}
			d.collide(name, b, mn)
		}
	}
	d.collide(name, det0, m0)
}

// collide: different random contents of one type with the same deterministic bytes must be Equal.
func (d *detRun) collide(name string, b []byte, m protoreflect.Message) {
	key := name + "#" + detDigest(b)
	if prev, ok := d.seen[key]; ok {
		d.c.Stat("same_bytes_pairs")
		if !proto.Equal(prev.Interface(), m.Interface()) || !proto.Equal(m.Interface(), prev.Interface()) {
			d.c.PropFail("C05", "equal deterministic bytes but not proto.Equal ("+name+")", HexB(b))
		}
		return
	}
	if len(d.seen) < 20000 {
		d.seen[key] = m
	}
}

// ---------------------------------------------------------------- corpus

func detFindType(name string) protoreflect.MessageType {
	for _, mt := range msgAllTypes() {
		if string(mt.Descriptor().FullName()) == name {
			return mt
		}
	}
	return nil
}

// detCorpus: boundary shapes -- maps of every key kind with keys whose sorted order differs from
// insertion order and from the order of their encodings (negative numbers, multi-byte varints,
// strings that are prefixes of each other), nested maps, several extensions.
func (d *detRun) corpus() {
	c := d.c
	for _, name := range []string{"goproto.proto.test.TestAllTypes", "goproto.proto.test3.TestAllTypes", "goproto.proto.testeditions.TestAllTypes",
		"opaque.goproto.proto.test3.TestAllTypes", "goproto.proto.test.TestAllExtensions"} {
		mt := detFindType(name)
		if mt == nil {
			c.PropFail("C05", "corpus type not linked: "+name)
			continue
		}
		t := &detTarget{md: mt.Descriptor(), gen: func() protoreflect.Message { return mt.New() }}
		m := t.gen()
		fds := t.md.Fields()
		for i := 0; i < fds.Len(); i++ {
			fd := fds.Get(i)
			if !fd.IsMap() {
				continue
			}
			mp := m.Mutable(fd).Map()
			var keys []protoreflect.Value
			switch fd.MapKey().Kind() {
			case protoreflect.BoolKind:
				keys = []protoreflect.Value{protoreflect.ValueOfBool(true), protoreflect.ValueOfBool(false)}
			case protoreflect.Int32Kind, protoreflect.Sint32Kind, protoreflect.Sfixed32Kind:
				for _, k := range []int32{300, -1, 0, 127, 128, -2147483648, 2147483647, 1, -128} {
					keys = append(keys, protoreflect.ValueOfInt32(k))
				}
			case protoreflect.Int64Kind, protoreflect.Sint64Kind, protoreflect.Sfixed64Kind:
				for _, k := range []int64{1 << 40, -1, 0, 255, 256, -1 << 63, 1<<63 - 1, 1} {
					keys = append(keys, protoreflect.ValueOfInt64(k))
				}
			case protoreflect.Uint32Kind, protoreflect.Fixed32Kind:
				for _, k := range []uint32{300, 1<<32 - 1, 0, 127, 128, 1 << 31, 1} {
					keys = append(keys, protoreflect.ValueOfUint32(k))
				}
			case protoreflect.Uint64Kind, protoreflect.Fixed64Kind:
				for _, k := range []uint64{1 << 63, 1<<64 - 1, 0, 255, 256, 1 << 32, 1} {
					keys = append(keys, protoreflect.ValueOfUint64(k))
				}
			case protoreflect.StringKind:
				for _, k := range []string{"b", "", "ab", "a", "a\x00", "aa", "é", "z", "\U00010000", "￿", "B"} {
					keys = append(keys, protoreflect.ValueOfString(k))
				}
			}
			for _, k := range keys {
				if fd.MapValue().Message() != nil {
					mp.Set(k.MapKey(), mp.NewValue())
				} else {
					mp.Set(k.MapKey(), msgScalar(c, fd.MapValue(), false))
				}
			}
		}
		for _, xd := range msgExtensionsOf(t.md) {
			if xd.Message() == nil && !xd.IsList() {
				m.Set(xd, msgScalar(c, xd, false))
			}
		}
		det0, err := detMarshal(m)
		if err != nil {
			c.PropFail("C05", "corpus message does not marshal: "+name)
			continue
		}
		d.record("corpus:"+name, det0)
		t.id = msgSchemaOf(c, t.md)
		c.Case("det", "det", append([]string{t.id}, msgDump(m)...), []string{HexB(det0)})
		for k := 0; k < 4; k++ {
			m2 := t.gen()
			if k%2 == 1 {
				m2 = t.dyn()
			}
			ctoks := detBuild(c, m, m2, true)
			b, err := detMarshal(m2)
			if err != nil || !bytes.Equal(b, det0) {
				c.PropFail("C05", "differing deterministic bytes for equal content (corpus "+name+")", HexB(det0), HexB(b))
			}
			c.Case("det", "det", append([]string{t.id}, ctoks...), []string{HexB(b)})
			d.record("corpus:"+name, b)
		}
	}
}

func famDet(c *Ctx) {
	d := &detRun{c: c, child: detChildOpen(), seen: map[string]protoreflect.Message{}}
	d.corpus()
	types := msgAllTypes()
	c.StatN("linked_types", len(types))
	var targets []*detTarget
	for _, mt := range types {
		mt := mt
		targets = append(targets, &detTarget{md: mt.Descriptor(), gen: func() protoreflect.Message { return mt.New() }})
	}
	nrnd := c.N / 40
	if nrnd < 4 {
		nrnd = 4
	}
	var rnd []*detTarget
	for _, md := range msgRandomSchemas(c, nrnd) {
		rnd = append(rnd, &detTarget{md: md})
	}
	heavy := []*detTarget{}
	for _, t := range targets {
		n := 0
		fds := t.md.Fields()
		for i := 0; i < fds.Len(); i++ {
			if fds.Get(i).IsMap() {
				n++
			}
		}
		if n >= 3 || len(msgExtensionsOf(t.md)) >= 8 || (msgHasLazy(t.md) && fds.Len() > 0 && c.Intn(4) == 0) {
			heavy = append(heavy, t) // maps, many extensions, lazily decoded fields (Deterministic forces the decode)
		}
	}
	c.StatN("map_heavy_types", len(heavy))
	spent := 0
	start := c.Intn(len(targets))
	for i := 0; i < len(targets) && spent < c.N*2/5; i++ {
		d.one(targets[(start+i)%len(targets)], 1+c.Intn(3))
		spent++
	}
	for spent < c.N {
		switch {
		case len(rnd) > 0 && c.Intn(4) == 0:
			d.one(rnd[c.Intn(len(rnd))], 1+c.Intn(3))
		case len(heavy) > 0 && c.Intn(2) == 0:
			d.one(heavy[c.Intn(len(heavy))], 1+c.Intn(3))
		default:
			d.one(targets[c.Intn(len(targets))], 1+c.Intn(3))
		}
		spent++
	}
	if d.child != nil {
		d.child.Close()
		return
	}
	// the same cases in a separate process (different map hash seeds)
	lines, err := detSelfExec(c, os.Args[0], "det", nil)
	if err != nil {
		c.PropFail("C05", "separate process failed: "+err.Error())
		return
	}
	if len(lines) != len(d.digests) {
		c.PropFail("C05", fmt.Sprintf("separate process produced %d digests, this process %d (case generation is not a function of the seed?)", len(lines), len(d.digests)))
		return
	}
	for i, l := range lines {
		if len(l) != 2 || l[0] != d.digests[i][0] {
			c.PropFail("C05", fmt.Sprintf("separate process diverges at digest %d: %v vs %v", i, l, d.digests[i]))
			return
		}
		if l[1] != d.digests[i][1] {
			c.PropFail("C05", "deterministic bytes differ between two processes of the same binary ("+l[0]+")", l[1], d.digests[i][1])
			continue
		}
		c.Stat("cross_process_equal")
	}
}
