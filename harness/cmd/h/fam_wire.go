//go:build verif

package main

import (
	"bytes"
	"fmt"
	"math/bits"

	"google.golang.org/protobuf/encoding/protowire"
)

// family "wire": C01 (round trips, sizes) and C02 (scanner) on encoding/protowire.

func init() { Register("wire", famWire) }

// G-BITS: for every bit length: 2^k-1, 2^k, 2^k+1 and random values of that length.
func gbits(c *Ctx) uint64 {
	k := c.Intn(65)
	switch c.Intn(5) {
	case 0:
		if k == 64 {
			return ^uint64(0)
		}
		return (uint64(1) << k) - 1
	case 1:
		if k == 64 {
			return 0
		}
		return uint64(1) << k
	case 2:
		if k == 64 {
			return 1
		}
		return (uint64(1) << k) + 1
	default:
		if k == 0 {
			return 0
		}
		v := c.U64()
		if k < 64 {
			v &= (uint64(1) << k) - 1
			v |= uint64(1) << (k - 1)
		}
		return v
	}
}

var interestingNums = []protowire.Number{1, 2, 15, 16, 2047, 2048, 1 << 18, 1<<28 - 1, 1 << 28, 1<<29 - 1}

func gnum(c *Ctx) protowire.Number {
	if c.Intn(3) == 0 {
		return interestingNums[c.Intn(len(interestingNums))]
	}
	k := 1 + c.Intn(29)
	v := protowire.Number(c.U64() & ((1 << k) - 1))
	if v < 1 {
		v = 1
	}
	return v
}

func errOrN(n int) (string, bool) {
	if n < 0 {
		return fmt.Sprintf("e%d", n), true
	}
	return "", false
}

// genField appends one well-formed field (C02 grammar) to b.
func genField(c *Ctx, b []byte, depth int) []byte {
	num := gnum(c)
	t := c.Intn(6)
	if depth <= 0 && t == 3 {
		t = 0
	}
	switch t {
	case 0:
		b = protowire.AppendTag(b, num, protowire.VarintType)
		b = appendVarintMaybePadded(c, b, gbits(c))
	case 1:
		b = protowire.AppendTag(b, num, protowire.Fixed64Type)
		b = protowire.AppendFixed64(b, c.U64())
	case 2, 4:
		b = protowire.AppendTag(b, num, protowire.BytesType)
		b = protowire.AppendBytes(b, c.Bytes(c.Intn(12)))
	case 3:
		b = protowire.AppendTag(b, num, protowire.StartGroupType)
		for i, k := 0, c.Intn(4); i < k; i++ {
			b = genField(c, b, depth-1)
		}
		if c.Intn(8) == 0 { // padded (non-minimal) end tag
			b = appendPadded(b, protowire.EncodeTag(num, protowire.EndGroupType), 1+c.Intn(3))
		} else {
			b = protowire.AppendTag(b, num, protowire.EndGroupType)
		}
	case 5:
		b = protowire.AppendTag(b, num, protowire.Fixed32Type)
		b = protowire.AppendFixed32(b, uint32(c.U64()))
	}
	return b
}

// appendPadded writes v as a non-minimal varint with `extra` additional bytes (if room).
func appendPadded(b []byte, v uint64, extra int) []byte {
	n := protowire.SizeVarint(v)
	if n+extra > 10 {
		extra = 10 - n
	}
	if extra <= 0 {
		return protowire.AppendVarint(b, v)
	}
	for i := 0; i < n-1; i++ {
		b = append(b, byte(v)|0x80)
		v >>= 7
	}
	b = append(b, byte(v)|0x80)
	for i := 0; i < extra-1; i++ {
		b = append(b, 0x80)
	}
	return append(b, 0x00)
}

func appendVarintMaybePadded(c *Ctx, b []byte, v uint64) []byte {
	if c.Intn(6) == 0 {
		return appendPadded(b, v, 1+c.Intn(9))
	}
	return protowire.AppendVarint(b, v)
}

// mutate applies one G-MUT mutation.
func mutate(c *Ctx, b []byte) []byte {
	b = append([]byte(nil), b...)
	if len(b) == 0 {
		return c.Bytes(c.Intn(4))
	}
	switch c.Intn(7) {
	case 0: // truncate
		return b[:c.Intn(len(b))]
	case 1: // flip wire type of first tag
		b[0] = b[0]&^7 | byte(c.Intn(8))
	case 2: // overlong varint inserted
		i := c.Intn(len(b))
		ins := bytes.Repeat([]byte{0xff}, 9+c.Intn(3))
		ins = append(ins, byte(c.Intn(4)))
		b = append(b[:i], append(ins, b[i:]...)...)
	case 3: // random byte change
		b[c.Intn(len(b))] = byte(c.U64())
	case 4: // delete a byte
		i := c.Intn(len(b))
		b = append(b[:i], b[i+1:]...)
	case 5: // append junk
		b = append(b, c.Bytes(1+c.Intn(3))...)
	case 6: // set a byte's high bit
		b[c.Intn(len(b))] |= 0x80
	}
	return b
}

func famWire(c *Ctx) {
	const fam = "wire"
	// corpus (minimised earlier failures and boundary cases) first
	for _, v := range []uint64{0, 1, 127, 128, 16383, 16384, 1<<63 - 1, 1 << 63, ^uint64(0)} {
		wireVarint(c, v, nil)
	}
	deepGroups(c)
	for i := 0; i < c.N; i++ {
		switch i % 12 {
		case 0:
			wireVarint(c, gbits(c), c.Bytes(c.Intn(3)))
		case 1: // fixed
			v := gbits(c)
			suf := c.Bytes(c.Intn(3))
			b32 := protowire.AppendFixed32(nil, uint32(v))
			b64 := protowire.AppendFixed64(nil, v)
			c.Case(fam, "fixed32", []string{HexN(uint64(uint32(v)))}, []string{HexB(b32)})
			c.Case(fam, "fixed64", []string{HexN(v)}, []string{HexB(b64)})
			in32 := append(append([]byte(nil), b32...), suf...)
			g32, n32 := protowire.ConsumeFixed32(in32)
			c.Case(fam, "cfixed32", []string{HexB(in32)}, []string{"ok", HexN(uint64(g32)), fmt.Sprint(n32)})
			if g32 != uint32(v) || n32 != len(b32) || n32 != protowire.SizeFixed32() {
				c.PropFail("C01", "fixed32 round trip", HexN(v))
			}
			in64 := append(append([]byte(nil), b64...), suf...)
			g64, n64 := protowire.ConsumeFixed64(in64)
			c.Case(fam, "cfixed64", []string{HexB(in64)}, []string{"ok", HexN(g64), fmt.Sprint(n64)})
			if g64 != v || n64 != len(b64) || n64 != protowire.SizeFixed64() {
				c.PropFail("C01", "fixed64 round trip", HexN(v))
			}
			// truncated
			tr := in64[:c.Intn(8)]
			_, nt := protowire.ConsumeFixed64(tr)
			e, _ := errOrN(nt)
			c.Case(fam, "cfixed64", []string{HexB(tr)}, []string{e})
			c.Stat("op.fixed")
		case 2: // zigzag, bool
			x := int64(gbits(c))
			z := protowire.EncodeZigZag(x)
			c.Case(fam, "zz", []string{HexZ(x)}, []string{HexN(z)})
			c.Case(fam, "unzz", []string{HexN(z)}, []string{HexZ(protowire.DecodeZigZag(z))})
			if protowire.DecodeZigZag(z) != x {
				c.PropFail("C01", "zigzag decode(encode x) != x", HexZ(x))
			}
			u := gbits(c)
			d := protowire.DecodeZigZag(u)
			c.Case(fam, "unzz", []string{HexN(u)}, []string{HexZ(d)})
			if protowire.EncodeZigZag(d) != u {
				c.PropFail("C01", "zigzag encode(decode u) != u", HexN(u))
			}
			bb := c.Bool()
			c.Case(fam, "bool", []string{Tok(bb)}, []string{HexN(protowire.EncodeBool(bb))})
			c.Case(fam, "unbool", []string{HexN(u)}, []string{Tok(protowire.DecodeBool(u))})
			if protowire.DecodeBool(protowire.EncodeBool(bb)) != bb {
				c.PropFail("C01", "bool round trip", Tok(bb))
			}
			c.Stat("op.zigzag_bool")
		case 3: // tags
			num := gnum(c)
			typ := protowire.Type(c.Intn(8))
			et := protowire.EncodeTag(num, typ)
			c.Case(fam, "etag", []string{HexN(uint64(num)), HexN(uint64(typ))}, []string{HexN(et)})
			dn, dt := protowire.DecodeTag(et)
			if dn != num || dt != typ {
				c.PropFail("C01", "tag decode(encode) mismatch", HexN(uint64(num)), HexN(uint64(typ)))
			}
			x := gbits(c)
			xn, xt := protowire.DecodeTag(x)
			if xn < 0 {
				c.Case(fam, "dtag", []string{HexN(x)}, []string{"-1", "0"})
			} else {
				c.Case(fam, "dtag", []string{HexN(x)}, []string{HexN(uint64(xn)), HexN(uint64(xt))})
			}
			b := protowire.AppendTag(nil, num, typ)
			c.Case(fam, "tag", []string{HexN(uint64(num)), HexN(uint64(typ))}, []string{HexB(b), HexN(uint64(protowire.SizeTag(num)))})
			if len(b) != protowire.SizeTag(num) {
				c.PropFail("C01", "SizeTag != len(AppendTag)", HexN(uint64(num)))
			}
			in := append(b, c.Bytes(c.Intn(3))...)
			cn, ct, n := protowire.ConsumeTag(in)
			if e, bad := errOrN(n); bad {
				c.Case(fam, "ctag", []string{HexB(in)}, []string{e})
				c.PropFail("C01", "ConsumeTag rejects AppendTag output", HexB(in))
			} else {
				c.Case(fam, "ctag", []string{HexB(in)}, []string{"ok", HexN(uint64(cn)), HexN(uint64(ct)), fmt.Sprint(n)})
				if cn != num || ct != typ || n != len(b) {
					c.PropFail("C01", "tag round trip", HexB(in))
				}
			}
			c.Stat("op.tag")
		case 4: // arbitrary tag bytes
			var in []byte
			if c.Bool() {
				in = appendPadded(nil, gbits(c), c.Intn(4))
			} else {
				in = c.Bytes(c.Intn(12))
			}
			wireCTag(c, in)
		case 5: // bytes / string
			v := c.Bytes(c.Intn(40))
			if c.Intn(20) == 0 {
				v = c.Bytes(100 + c.Intn(300))
			}
			b := protowire.AppendBytes(nil, v)
			c.Case(fam, "bytes", []string{HexB(v)}, []string{HexB(b), HexN(uint64(protowire.SizeBytes(len(v))))})
			bs := protowire.AppendString(nil, string(v))
			if !bytes.Equal(b, bs) || len(b) != protowire.SizeBytes(len(v)) {
				c.PropFail("C01", "AppendString/AppendBytes/SizeBytes disagree", HexB(v))
			}
			in := append(b, c.Bytes(c.Intn(3))...)
			g, n := protowire.ConsumeBytes(in)
			gs, ns := protowire.ConsumeString(in)
			if !bytes.Equal(g, v) || n != len(b) || gs != string(v) || ns != n {
				c.PropFail("C01", "bytes round trip", HexB(v))
			}
			wireCBytes(c, in)
			wireCBytes(c, mutate(c, in))
			c.Stat("op.bytes")
		case 6, 7: // well-formed field
			b := genField(c, nil, 3)
			wireCField(c, b, true)
			c.Stat("op.field_valid")
		case 8, 9: // mutated field
			b := mutate(c, genField(c, nil, 3))
			if c.Intn(3) == 0 {
				b = mutate(c, b)
			}
			wireCField(c, b, false)
			c.Stat("op.field_mutated")
		case 10: // groups
			num := gnum(c)
			var body []byte
			for i, k := 0, c.Intn(4); i < k; i++ {
				body = genField(c, body, 2)
			}
			g := protowire.AppendGroup(nil, num, body)
			c.Case(fam, "agroup", []string{HexN(uint64(num)), HexB(body)}, []string{HexB(g), HexN(uint64(protowire.SizeGroup(num, len(body))))})
			if len(g) != protowire.SizeGroup(num, len(body)) {
				c.PropFail("C01", "SizeGroup != len(AppendGroup)", HexB(g))
			}
			in := append(append([]byte(nil), g...), c.Bytes(c.Intn(3))...)
			v, n := protowire.ConsumeGroup(num, in)
			if !bytes.Equal(v, body) || n != len(g) {
				c.PropFail("C01", "group round trip", HexN(uint64(num)), HexB(in))
			}
			wireCGroup(c, num, in)
			wireCGroup(c, num, mutate(c, in))
			// padded end tag
			p := appendPadded(append([]byte(nil), body...), protowire.EncodeTag(num, protowire.EndGroupType), 1+c.Intn(3))
			wireCGroup(c, num, p)
			c.Stat("op.group")
		case 11: // random bytes as a field / field value
			b := c.Bytes(c.Intn(10))
			wireCField(c, b, false)
			num := gnum(c)
			typ := protowire.Type(c.Intn(8))
			n := protowire.ConsumeFieldValue(num, typ, b)
			if e, bad := errOrN(n); bad {
				c.Case(fam, "cfv", []string{HexN(uint64(num)), HexN(uint64(typ)), HexB(b)}, []string{e})
			} else {
				c.Case(fam, "cfv", []string{HexN(uint64(num)), HexN(uint64(typ)), HexB(b)}, []string{"ok", fmt.Sprint(n)})
			}
			if n > len(b) {
				c.PropFail("C02", "ConsumeFieldValue overread", HexB(b))
			}
			c.Stat("op.random")
		}
	}
}

func wireVarint(c *Ctx, v uint64, suf []byte) {
	b := protowire.AppendVarint(nil, v)
	c.Case("wire", "varint", []string{HexN(v)}, []string{HexB(b), HexN(uint64(protowire.SizeVarint(v)))})
	if len(b) != protowire.SizeVarint(v) {
		c.PropFail("C01", "SizeVarint != len(AppendVarint)", HexN(v))
	}
	// minimality: shortest encoding has ceil(bitlen/7) bytes (1 for zero)
	want := (bits.Len64(v) + 6) / 7
	if want == 0 {
		want = 1
	}
	if len(b) != want {
		c.PropFail("C01", "AppendVarint not minimal", HexN(v))
	}
	in := append(append([]byte(nil), b...), suf...)
	g, n := protowire.ConsumeVarint(in)
	if g != v || n != len(b) {
		c.PropFail("C01", "varint round trip", HexN(v))
	}
	wireCVarint(c, in)
	// padded and mutated forms
	wireCVarint(c, appendPadded(nil, v, 1+c.Intn(9)))
	wireCVarint(c, mutate(c, in))
	c.Stat(fmt.Sprintf("varint.len%d", len(b)))
}

func wireCVarint(c *Ctx, in []byte) {
	g, n := protowire.ConsumeVarint(in)
	if e, bad := errOrN(n); bad {
		c.Case("wire", "cvarint", []string{HexB(in)}, []string{e})
		c.Stat("cvarint." + e)
	} else {
		c.Case("wire", "cvarint", []string{HexB(in)}, []string{"ok", HexN(g), fmt.Sprint(n)})
		c.Stat("cvarint.ok")
	}
	if n > len(in) {
		c.PropFail("C02", "ConsumeVarint overread", HexB(in))
	}
}

func wireCTag(c *Ctx, in []byte) {
	defer func() {
		if r := recover(); r != nil {
			c.PropFail("C02", "ConsumeTag panicked", HexB(in))
		}
	}()
	cn, ct, n := protowire.ConsumeTag(in)
	if e, bad := errOrN(n); bad {
		c.Case("wire", "ctag", []string{HexB(in)}, []string{e})
		c.Stat("ctag." + e)
	} else {
		c.Case("wire", "ctag", []string{HexB(in)}, []string{"ok", HexN(uint64(cn)), HexN(uint64(ct)), fmt.Sprint(n)})
		c.Stat("ctag.ok")
	}
	if n > len(in) {
		c.PropFail("C02", "ConsumeTag overread", HexB(in))
	}
}

func wireCBytes(c *Ctx, in []byte) {
	g, n := protowire.ConsumeBytes(in)
	if e, bad := errOrN(n); bad {
		c.Case("wire", "cbytes", []string{HexB(in)}, []string{e})
	} else {
		c.Case("wire", "cbytes", []string{HexB(in)}, []string{"ok", HexB(g), fmt.Sprint(n)})
	}
	if n > len(in) {
		c.PropFail("C02", "ConsumeBytes overread", HexB(in))
	}
}

func wireCField(c *Ctx, in []byte, mustOK bool) {
	defer func() {
		if r := recover(); r != nil {
			c.PropFail("C02", "ConsumeField panicked", HexB(in))
		}
	}()
	num, typ, n := protowire.ConsumeField(in)
	if e, bad := errOrN(n); bad {
		c.Case("wire", "cfield", []string{HexB(in)}, []string{e})
		c.Stat("cfield." + e)
		if mustOK {
			c.PropFail("C02", "well-formed field rejected", HexB(in))
		}
		if protowire.ParseError(n) == nil {
			c.PropFail("C02", "ParseError(nil) for negative length", HexB(in))
		}
	} else {
		c.Case("wire", "cfield", []string{HexB(in)}, []string{"ok", HexN(uint64(num)), HexN(uint64(typ)), fmt.Sprint(n)})
		c.Stat("cfield.ok")
		if mustOK && n != len(in) {
			c.PropFail("C02", "well-formed field not consumed exactly", HexB(in))
		}
	}
	if n > len(in) {
		c.PropFail("C02", "ConsumeField overread", HexB(in))
	}
}

func wireCGroup(c *Ctx, num protowire.Number, in []byte) {
	ins := []string{HexN(uint64(num)), HexB(in)}
	defer func() {
		if r := recover(); r != nil {
			c.Case("wire", "cgroup", ins, []string{"panic"})
			c.PropFail("C02", "ConsumeGroup panicked", ins...)
		}
	}()
	v, n := protowire.ConsumeGroup(num, in)
	if e, bad := errOrN(n); bad {
		c.Case("wire", "cgroup", ins, []string{e})
		c.Stat("cgroup." + e)
	} else {
		c.Case("wire", "cgroup", ins, []string{"ok", HexB(v), fmt.Sprint(n)})
		c.Stat("cgroup.ok")
	}
	if n > len(in) {
		c.PropFail("C02", "ConsumeGroup overread", ins...)
	}
}

// deepGroups: nesting at DefaultRecursionLimit-1, =, +1, +2.
func deepGroups(c *Ctx) {
	for _, d := range []int{9999, 10000, 10001, 10002, 10003} {
		var b []byte
		for i := 0; i < d; i++ {
			b = append(b, 0x0b) // field 1 start group
		}
		for i := 0; i < d; i++ {
			b = append(b, 0x0c)
		}
		wireCField(c, b, false)
		c.Stat("deepgroups")
	}
}
