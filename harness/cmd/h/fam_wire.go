//go:build verif

package main

import (
	"bytes"
	"fmt"
	"io"
	"math"
	"math/bits"
	"os"
	"strings"

	"google.golang.org/protobuf/encoding/protowire"
)

// family "wire": C01 (round trips, sizes) and C02 (scanner) on encoding/protowire.

func init() {
	Register("wire", famWire)
	// "wirex": exhaustive short byte strings (C02); prints its cases under family "wire"
	Register("wirex", famWireExh)
}

// wireArg reports whether the run was started with the extra argument name
// (props/Cxx.json "args"; the flag parser of main.go stops at the first non-flag).
func wireArg(name string) bool {
	for _, a := range os.Args[2:] {
		if a == name {
			return true
		}
	}
	return false
}

// Operations whose Go function is also translated to Gallina by srcmodel (Tier T):
// every such case is emitted a second time as "go_<op>", which the model driver
// answers with the *translated* function (Gen/WireGo.v) instead of the spec model.
var wireGoOps = map[string]bool{
	"varint": true, "cvarint": true, "fixed32": true, "fixed64": true, "cfixed32": true, "cfixed64": true,
	"zz": true, "unzz": true, "bool": true, "unbool": true, "etag": true, "dtag": true, "tag": true,
	"ctag": true, "bytes": true, "cbytes": true, "agroup": true,
	"cfv": true, "cfield": true, "cgroup": true, // translated with fuel-indexed fixpoints (loops, recursion)
}

// wireNoGo suppresses the go_<op> duplicates (bulk exhaustive enumeration).
var wireNoGo bool

func wireCase(c *Ctx, op string, ins, obs []string) {
	c.Case("wire", op, ins, obs)
	if wireGoOps[op] && !wireNoGo {
		c.Case("wire", "go_"+op, ins, obs)
	}
}

// G-BITS: for every bit length: 2^k-1, 2^k, 2^k+1 and random values of that length.
func gbits(c *Ctx) uint64 {
	k := c.Intn(65)
	switch c.Intn(5) {
	case 0:
		if k == 64 {
			return ^uint64(0)
		}
		return (uint64(1) << k) - 1
	case 1:
		if k == 64 {
			return 0
		}
		return uint64(1) << k
	case 2:
		if k == 64 {
			return 1
		}
		return (uint64(1) << k) + 1
	default:
		if k == 0 {
			return 0
		}
		v := c.U64()
		if k < 64 {
			v &= (uint64(1) << k) - 1
			v |= uint64(1) << (k - 1)
		}
		return v
	}
}

// field numbers above MaxValidNumber (2^29-1) up to MaxInt32 are deliberately accepted by the scanner
var interestingNums = []protowire.Number{1, 2, 15, 16, 2047, 2048, 1 << 18, 1<<28 - 1, 1 << 28, 1<<29 - 1, 1 << 29, 1<<31 - 1}

func gnum(c *Ctx) protowire.Number {
	if c.Intn(3) == 0 {
		return interestingNums[c.Intn(len(interestingNums))]
	}
	k := 1 + c.Intn(31)
	v := protowire.Number(c.U64() & ((1 << k) - 1))
	if v < 1 {
		v = 1
	}
	return v
}

func errOrN(n int) (string, bool) {
	if n < 0 {
		return fmt.Sprintf("e%d", n), true
	}
	return "", false
}

// genField appends one well-formed field (C02 grammar) to b.
func genField(c *Ctx, b []byte, depth int) []byte {
	num := gnum(c)
	t := c.Intn(6)
	if depth <= 0 && t == 3 {
		t = 0
	}
	switch t {
	case 0:
		b = protowire.AppendTag(b, num, protowire.VarintType)
		b = appendVarintMaybePadded(c, b, gbits(c))
	case 1:
		b = protowire.AppendTag(b, num, protowire.Fixed64Type)
		b = protowire.AppendFixed64(b, c.U64())
	case 2, 4:
		b = protowire.AppendTag(b, num, protowire.BytesType)
		b = protowire.AppendBytes(b, c.Bytes(c.Intn(12)))
	case 3:
		b = protowire.AppendTag(b, num, protowire.StartGroupType)
		for i, k := 0, c.Intn(4); i < k; i++ {
			b = genField(c, b, depth-1)
		}
		if c.Intn(8) == 0 { // padded (non-minimal) end tag
			b = appendPadded(b, protowire.EncodeTag(num, protowire.EndGroupType), 1+c.Intn(3))
		} else {
			b = protowire.AppendTag(b, num, protowire.EndGroupType)
		}
	case 5:
		b = protowire.AppendTag(b, num, protowire.Fixed32Type)
		b = protowire.AppendFixed32(b, uint32(c.U64()))
	}
	return b
}

// appendPadded writes v as a non-minimal varint with `extra` additional bytes (if room).
func appendPadded(b []byte, v uint64, extra int) []byte {
	n := protowire.SizeVarint(v)
	if n+extra > 10 {
		extra = 10 - n
	}
	if extra <= 0 {
		return protowire.AppendVarint(b, v)
	}
	for i := 0; i < n-1; i++ {
		b = append(b, byte(v)|0x80)
		v >>= 7
	}
	b = append(b, byte(v)|0x80)
	for i := 0; i < extra-1; i++ {
		b = append(b, 0x80)
	}
	return append(b, 0x00)
}

func appendVarintMaybePadded(c *Ctx, b []byte, v uint64) []byte {
	if c.Intn(6) == 0 {
		return appendPadded(b, v, 1+c.Intn(9))
	}
	return protowire.AppendVarint(b, v)
}

// mutate applies one G-MUT mutation.
func mutate(c *Ctx, b []byte) []byte {
	b = append([]byte(nil), b...)
	if len(b) == 0 {
		return c.Bytes(c.Intn(4))
	}
	switch c.Intn(7) {
	case 0: // truncate
		return b[:c.Intn(len(b))]
	case 1: // flip wire type of first tag
		b[0] = b[0]&^7 | byte(c.Intn(8))
	case 2: // overlong varint inserted
		i := c.Intn(len(b))
		ins := bytes.Repeat([]byte{0xff}, 9+c.Intn(3))
		ins = append(ins, byte(c.Intn(4)))
		b = append(b[:i], append(ins, b[i:]...)...)
	case 3: // random byte change
		b[c.Intn(len(b))] = byte(c.U64())
	case 4: // delete a byte
		i := c.Intn(len(b))
		b = append(b[:i], b[i+1:]...)
	case 5: // append junk
		b = append(b, c.Bytes(1+c.Intn(3))...)
	case 6: // set a byte's high bit
		b[c.Intn(len(b))] |= 0x80
	}
	return b
}

func famWire(c *Ctx) {
	// corpus (minimised earlier failures and boundary cases) first
	for _, v := range []uint64{0, 1, 127, 128, 16383, 16384, 1<<63 - 1, 1 << 63, ^uint64(0)} {
		wireVarint(c, v, nil)
	}
	deepGroups(c)
	wireCorpus(c)
	c02 := wireArg("c02") // run for C02: spend the C01-only slots on the scanner
	for i := 0; i < c.N; i++ {
		k := i % 12
		if c02 {
			switch k {
			case 1:
				k = 6
			case 2:
				k = 8
			case 3:
				k = 11
			}
		}
		switch k {
		case 0:
			wireVarint(c, gbits(c), c.Bytes(c.Intn(3)))
		case 1: // fixed
			v := gbits(c)
			suf := c.Bytes(c.Intn(3))
			b32 := protowire.AppendFixed32(nil, uint32(v))
			b64 := protowire.AppendFixed64(nil, v)
			wireCase(c, "fixed32", []string{HexN(uint64(uint32(v)))}, []string{HexB(b32)})
			wireCase(c, "fixed64", []string{HexN(v)}, []string{HexB(b64)})
			in32 := append(append([]byte(nil), b32...), suf...)
			g32, n32 := protowire.ConsumeFixed32(in32)
			wireCase(c, "cfixed32", []string{HexB(in32)}, []string{"ok", HexN(uint64(g32)), fmt.Sprint(n32)})
			if g32 != uint32(v) || n32 != len(b32) || n32 != protowire.SizeFixed32() {
				c.PropFail("C01", "fixed32 round trip", HexN(v))
			}
			in64 := append(append([]byte(nil), b64...), suf...)
			g64, n64 := protowire.ConsumeFixed64(in64)
			wireCase(c, "cfixed64", []string{HexB(in64)}, []string{"ok", HexN(g64), fmt.Sprint(n64)})
			if g64 != v || n64 != len(b64) || n64 != protowire.SizeFixed64() {
				c.PropFail("C01", "fixed64 round trip", HexN(v))
			}
			// truncated
			tr := in64[:c.Intn(8)]
			_, nt := protowire.ConsumeFixed64(tr)
			e, _ := errOrN(nt)
			wireCase(c, "cfixed64", []string{HexB(tr)}, []string{e})
			c.Stat("op.fixed")
		case 2: // zigzag, bool
			x := int64(gbits(c))
			z := protowire.EncodeZigZag(x)
			wireCase(c, "zz", []string{HexZ(x)}, []string{HexN(z)})
			wireCase(c, "unzz", []string{HexN(z)}, []string{HexZ(protowire.DecodeZigZag(z))})
			if protowire.DecodeZigZag(z) != x {
				c.PropFail("C01", "zigzag decode(encode x) != x", HexZ(x))
			}
			u := gbits(c)
			d := protowire.DecodeZigZag(u)
			wireCase(c, "unzz", []string{HexN(u)}, []string{HexZ(d)})
			if protowire.EncodeZigZag(d) != u {
				c.PropFail("C01", "zigzag encode(decode u) != u", HexN(u))
			}
			bb := c.Bool()
			wireCase(c, "bool", []string{Tok(bb)}, []string{HexN(protowire.EncodeBool(bb))})
			wireCase(c, "unbool", []string{HexN(u)}, []string{Tok(protowire.DecodeBool(u))})
			if protowire.DecodeBool(protowire.EncodeBool(bb)) != bb {
				c.PropFail("C01", "bool round trip", Tok(bb))
			}
			c.Stat("op.zigzag_bool")
		case 3: // tags
			num := gnum(c)
			typ := protowire.Type(c.Intn(8))
			et := protowire.EncodeTag(num, typ)
			wireCase(c, "etag", []string{HexN(uint64(num)), HexN(uint64(typ))}, []string{HexN(et)})
			dn, dt := protowire.DecodeTag(et)
			if dn != num || dt != typ {
				c.PropFail("C01", "tag decode(encode) mismatch", HexN(uint64(num)), HexN(uint64(typ)))
			}
			x := gbits(c)
			xn, xt := protowire.DecodeTag(x)
			if xn < 0 {
				wireCase(c, "dtag", []string{HexN(x)}, []string{"-1", "0"})
			} else {
				wireCase(c, "dtag", []string{HexN(x)}, []string{HexN(uint64(xn)), HexN(uint64(xt))})
			}
			b := protowire.AppendTag(nil, num, typ)
			wireCase(c, "tag", []string{HexN(uint64(num)), HexN(uint64(typ))}, []string{HexB(b), HexN(uint64(protowire.SizeTag(num)))})
			if len(b) != protowire.SizeTag(num) {
				c.PropFail("C01", "SizeTag != len(AppendTag)", HexN(uint64(num)))
			}
			in := append(b, c.Bytes(c.Intn(3))...)
			cn, ct, n := protowire.ConsumeTag(in)
			if e, bad := errOrN(n); bad {
				wireCase(c, "ctag", []string{HexB(in)}, []string{e})
				c.PropFail("C01", "ConsumeTag rejects AppendTag output", HexB(in))
			} else {
				wireCase(c, "ctag", []string{HexB(in)}, []string{"ok", HexN(uint64(cn)), HexN(uint64(ct)), fmt.Sprint(n)})
				if cn != num || ct != typ || n != len(b) {
					c.PropFail("C01", "tag round trip", HexB(in))
				}
			}
			c.Stat("op.tag")
		case 4: // arbitrary tag bytes
			var in []byte
			if c.Bool() {
				in = appendPadded(nil, gbits(c), c.Intn(4))
			} else {
				in = c.Bytes(c.Intn(12))
			}
			wireCTag(c, in)
		case 5: // bytes / string
			v := c.Bytes(c.Intn(40))
			if c.Intn(20) == 0 {
				v = c.Bytes(100 + c.Intn(300))
			}
			b := protowire.AppendBytes(nil, v)
			wireCase(c, "bytes", []string{HexB(v)}, []string{HexB(b), HexN(uint64(protowire.SizeBytes(len(v))))})
			bs := protowire.AppendString(nil, string(v))
			if !bytes.Equal(b, bs) || len(b) != protowire.SizeBytes(len(v)) {
				c.PropFail("C01", "AppendString/AppendBytes/SizeBytes disagree", HexB(v))
			}
			in := append(b, c.Bytes(c.Intn(3))...)
			g, n := protowire.ConsumeBytes(in)
			gs, ns := protowire.ConsumeString(in)
			if !bytes.Equal(g, v) || n != len(b) || gs != string(v) || ns != n {
				c.PropFail("C01", "bytes round trip", HexB(v))
			}
			wireCBytes(c, in)
			wireCBytes(c, mutate(c, in))
			c.Stat("op.bytes")
		case 6, 7: // well-formed field
			b := genField(c, nil, 3)
			wireCField(c, b, true)
			c.Stat("op.field_valid")
		case 8, 9: // mutated field
			b := mutate(c, genField(c, nil, 3))
			if c.Intn(3) == 0 {
				b = mutate(c, b)
			}
			wireCField(c, b, false)
			c.Stat("op.field_mutated")
		case 10: // groups
			num := gnum(c)
			var body []byte
			for i, k := 0, c.Intn(4); i < k; i++ {
				body = genField(c, body, 2)
			}
			g := protowire.AppendGroup(nil, num, body)
			wireCase(c, "agroup", []string{HexN(uint64(num)), HexB(body)}, []string{HexB(g), HexN(uint64(protowire.SizeGroup(num, len(body))))})
			if len(g) != protowire.SizeGroup(num, len(body)) {
				c.PropFail("C01", "SizeGroup != len(AppendGroup)", HexB(g))
			}
			in := append(append([]byte(nil), g...), c.Bytes(c.Intn(3))...)
			v, n := protowire.ConsumeGroup(num, in)
			if !bytes.Equal(v, body) || n != len(g) {
				c.PropFail("C01", "group round trip", HexN(uint64(num)), HexB(in))
			}
			wireCGroup(c, num, in)
			wireCGroup(c, num, mutate(c, in))
			// padded end tag
			p := appendPadded(append([]byte(nil), body...), protowire.EncodeTag(num, protowire.EndGroupType), 1+c.Intn(3))
			wireCGroup(c, num, p)
			c.Stat("op.group")
		case 11: // random bytes as a field / field value
			b := c.Bytes(c.Intn(10))
			wireCField(c, b, false)
			num := gnum(c)
			typ := protowire.Type(c.Intn(8))
			n := protowire.ConsumeFieldValue(num, typ, b)
			if e, bad := errOrN(n); bad {
				wireCase(c, "cfv", []string{HexN(uint64(num)), HexN(uint64(typ)), HexB(b)}, []string{e})
			} else {
				wireCase(c, "cfv", []string{HexN(uint64(num)), HexN(uint64(typ)), HexB(b)}, []string{"ok", fmt.Sprint(n)})
			}
			if n > len(b) {
				c.PropFail("C02", "ConsumeFieldValue overread", HexB(b))
			}
			wirePErr(c, n)
			wirePErr(c, int(int64(gbits(c))))
			wirePErr(c, c.Intn(16)-10)
			c.Stat("op.random")
		}
	}
}

func wireVarint(c *Ctx, v uint64, suf []byte) {
	b := protowire.AppendVarint(nil, v)
	wireCase(c, "varint", []string{HexN(v)}, []string{HexB(b), HexN(uint64(protowire.SizeVarint(v)))})
	if len(b) != protowire.SizeVarint(v) {
		c.PropFail("C01", "SizeVarint != len(AppendVarint)", HexN(v))
	}
	// minimality: shortest encoding has ceil(bitlen/7) bytes (1 for zero)
	want := (bits.Len64(v) + 6) / 7
	if want == 0 {
		want = 1
	}
	if len(b) != want {
		c.PropFail("C01", "AppendVarint not minimal", HexN(v))
	}
	in := append(append([]byte(nil), b...), suf...)
	g, n := protowire.ConsumeVarint(in)
	if g != v || n != len(b) {
		c.PropFail("C01", "varint round trip", HexN(v))
	}
	wireCVarint(c, in)
	// padded and mutated forms
	wireCVarint(c, appendPadded(nil, v, 1+c.Intn(9)))
	wireCVarint(c, mutate(c, in))
	c.Stat(fmt.Sprintf("varint.len%d", len(b)))
}

func wireCVarint(c *Ctx, in []byte) {
	defer func() {
		if r := recover(); r != nil {
			c.PropFail("C02", "ConsumeVarint panicked", HexB(in))
		}
	}()
	g, n := protowire.ConsumeVarint(in)
	if e, bad := errOrN(n); bad {
		wireCase(c, "cvarint", []string{HexB(in)}, []string{e})
		c.Stat("cvarint." + e)
	} else {
		wireCase(c, "cvarint", []string{HexB(in)}, []string{"ok", HexN(g), fmt.Sprint(n)})
		c.Stat("cvarint.ok")
	}
	if n > len(in) {
		c.PropFail("C02", "ConsumeVarint overread", HexB(in))
	}
}

func wireCTag(c *Ctx, in []byte) {
	defer func() {
		if r := recover(); r != nil {
			c.PropFail("C02", "ConsumeTag panicked", HexB(in))
		}
	}()
	cn, ct, n := protowire.ConsumeTag(in)
	if e, bad := errOrN(n); bad {
		wireCase(c, "ctag", []string{HexB(in)}, []string{e})
		c.Stat("ctag." + e)
	} else {
		wireCase(c, "ctag", []string{HexB(in)}, []string{"ok", HexN(uint64(cn)), HexN(uint64(ct)), fmt.Sprint(n)})
		c.Stat("ctag.ok")
	}
	if n > len(in) {
		c.PropFail("C02", "ConsumeTag overread", HexB(in))
	}
}

func wireCBytes(c *Ctx, in []byte) {
	defer func() {
		if r := recover(); r != nil {
			c.PropFail("C02", "ConsumeBytes panicked", HexB(in))
		}
	}()
	g, n := protowire.ConsumeBytes(in)
	if e, bad := errOrN(n); bad {
		wireCase(c, "cbytes", []string{HexB(in)}, []string{e})
	} else {
		wireCase(c, "cbytes", []string{HexB(in)}, []string{"ok", HexB(g), fmt.Sprint(n)})
	}
	if n > len(in) {
		c.PropFail("C02", "ConsumeBytes overread", HexB(in))
	}
}

func wireCField(c *Ctx, in []byte, mustOK bool) {
	defer func() {
		if r := recover(); r != nil {
			c.PropFail("C02", "ConsumeField panicked", HexB(in))
		}
	}()
	num, typ, n := protowire.ConsumeField(in)
	if gn, gok := wireGField(in); gok != (n >= 0) || (gok && gn != n) {
		c.PropFail("C02", "ConsumeField disagrees with the wire grammar", HexB(in))
	}
	if n < -6 {
		c.PropFail("C02", "ConsumeField returned an undocumented error code", HexB(in))
	}
	if e, bad := errOrN(n); bad {
		wireCase(c, "cfield", []string{HexB(in)}, []string{e})
		c.Stat("cfield." + e)
		if mustOK {
			c.PropFail("C02", "well-formed field rejected", HexB(in))
		}
		if protowire.ParseError(n) == nil {
			c.PropFail("C02", "ParseError(nil) for negative length", HexB(in))
		}
	} else {
		wireCase(c, "cfield", []string{HexB(in)}, []string{"ok", HexN(uint64(num)), HexN(uint64(typ)), fmt.Sprint(n)})
		c.Stat("cfield.ok")
		if mustOK && n != len(in) {
			c.PropFail("C02", "well-formed field not consumed exactly", HexB(in))
		}
	}
	if n > len(in) {
		c.PropFail("C02", "ConsumeField overread", HexB(in))
	}
}

func wireCGroup(c *Ctx, num protowire.Number, in []byte) {
	ins := []string{HexN(uint64(num)), HexB(in)}
	defer func() {
		if r := recover(); r != nil {
			wireCase(c, "cgroup", ins, []string{"panic"})
			c.PropFail("C02", "ConsumeGroup panicked", ins...)
		}
	}()
	v, n := protowire.ConsumeGroup(num, in)
	if e, bad := errOrN(n); bad {
		wireCase(c, "cgroup", ins, []string{e})
		c.Stat("cgroup." + e)
	} else {
		wireCase(c, "cgroup", ins, []string{"ok", HexB(v), fmt.Sprint(n)})
		c.Stat("cgroup.ok")
	}
	if n > len(in) {
		c.PropFail("C02", "ConsumeGroup overread", ins...)
	}
}

// deepGroups: nesting at DefaultRecursionLimit-1, =, +1, +2.
func deepGroups(c *Ctx) {
	for _, d := range []int{300, 9999, 10000, 10001, 10002, 10003} {
		// the translated scanner recomputes its loop fuel (the input length, as a unary
		// number) at every nesting level: quadratic, so it only sees the moderately deep case
		wireNoGo = d > 1000
		var b []byte
		for i := 0; i < d; i++ {
			b = append(b, 0x0b) // field 1 start group
		}
		for i := 0; i < d; i++ {
			b = append(b, 0x0c)
		}
		wireCField(c, b, false)
		c.Stat("deepgroups")
	}
	wireNoGo = false
}

// wirePErr: ParseError maps a code to the class of the returned error value.
func wirePErr(c *Ctx, n int) {
	err := protowire.ParseError(n)
	class := 99
	switch {
	case err == nil:
		class = 0
	case err == io.ErrUnexpectedEOF:
		class = 1
	case strings.Contains(err.Error(), "invalid field number"):
		class = 2
	case strings.Contains(err.Error(), "overflow"):
		class = 3
	case strings.Contains(err.Error(), "reserved wire type"):
		class = 4
	case strings.Contains(err.Error(), "end group"):
		class = 5
	case strings.Contains(err.Error(), "parse error"):
		class = 6
	}
	c.Case("wire", "perr", []string{HexZ(int64(n))}, []string{fmt.Sprint(class)})
	if (n >= 0) != (err == nil) {
		c.PropFail("C02", "ParseError nil-ness does not match the sign of the code", HexZ(int64(n)))
	}
	if n < 0 && n >= -5 && class != -n {
		c.PropFail("C02", "ParseError maps a documented code to the wrong error", HexZ(int64(n)))
	}
}

// ---- an independent recogniser of the C02 wire grammar (the property's own predicate) ----

// wireGVarint: length of the varint at the start of b per the grammar (<= 10 bytes,
// 10th byte <= 1), its value, and whether there is one.
func wireGVarint(b []byte) (v uint64, n int, ok bool) {
	for i := 0; i < len(b) && i < 10; i++ {
		x := b[i]
		if i == 9 {
			if x > 1 {
				return 0, 0, false
			}
			return v | uint64(x)<<63, 10, true
		}
		v |= uint64(x&0x7f) << (7 * uint(i))
		if x < 0x80 {
			return v, i + 1, true
		}
	}
	return 0, 0, false
}

func wireGTag(b []byte) (num uint64, typ int, n int, ok bool) {
	v, n, ok := wireGVarint(b)
	if !ok || v>>3 < 1 || v>>3 > math.MaxInt32 {
		return 0, 0, 0, false
	}
	return v >> 3, int(v & 7), n, true
}

// wireGValue: number of bytes of the value of wire type typ at the start of b; dep = group levels allowed.
func wireGValue(num uint64, typ int, b []byte, dep int) (int, bool) {
	switch typ {
	case 0:
		_, n, ok := wireGVarint(b)
		return n, ok
	case 1:
		return 8, len(b) >= 8
	case 5:
		return 4, len(b) >= 4
	case 2:
		m, n, ok := wireGVarint(b)
		if !ok || m > uint64(len(b)-n) {
			return 0, false
		}
		return n + int(m), true
	case 3:
		if dep <= 0 {
			return 0, false
		}
		off := 0
		for {
			num2, typ2, n, ok := wireGTag(b[off:])
			if !ok {
				return 0, false
			}
			off += n
			if typ2 == 4 {
				return off, num2 == num
			}
			m, ok := wireGValue(num2, typ2, b[off:], dep-1)
			if !ok {
				return 0, false
			}
			off += m
		}
	}
	return 0, false
}

func wireGField(b []byte) (int, bool) {
	num, typ, n, ok := wireGTag(b)
	if !ok {
		return 0, false
	}
	m, ok := wireGValue(num, typ, b[n:], protowire.DefaultRecursionLimit+1)
	return n + m, ok
}

// wireCorpus: minimised boundary inputs (one per grammar rule / error code).
func wireCorpus(c *Ctx) {
	for _, h := range []string{
		"", "00", "08", "0801", "08ff", "0880", "08808080808080808080", "08ffffffffffffffffff01", "08ffffffffffffffffff02",
		"0800ff", "0d01020304", "0d010203", "090102030405060708", "0901020304050607", "0a00", "0a0161", "0a0261",
		"0aff01", "0affffffffffffffffff01", "0b0c", "0b14", "0b0b0c0c", "0b0b0c14", "0b8c00", "0b8c8000", "0b8c808080808080808000",
		"0c", "0e", "0f", "0b", "0b08", "0b0801", "0b08010c", "f8ffffff3f00", "f8ffffff7f00", "80808080800100", "f8ffffffff0000",
		"ffffffffffffffffff01", "0b0a0361620c0c", "0b0a03610c0c0c", "1b1c", "1b0c",
	} {
		b := ParseHexB("x" + h)
		wireCField(c, b, false)
		wireCTag(c, b)
		wireCVarint(c, b)
		wireCBytes(c, b)
		wireCGroup(c, 1, b)
		if len(b) > 0 {
			wireCGroup(c, protowire.Number(b[0]>>3), b[1:])
		}
	}
	for n := -8; n <= 2; n++ {
		wirePErr(c, n)
	}
	wirePErr(c, math.MinInt64)
	wirePErr(c, math.MaxInt64)
}

// famWireExh ("wirex"): every byte string of length <= c.N (2 quick, 3 thorough) through
// ConsumeField / ConsumeTag / ConsumeVarint / ConsumeBytes / ConsumeGroup.  Length-3 strings
// are partitioned over the 16 thorough shards by first byte (shard seeds differ by 7919 = 15 mod 16).
func famWireExh(c *Ctx) {
	maxLen := c.N
	if maxLen > 3 {
		maxLen = 3
	}
	one := func(b []byte) {
		wireNoGo = len(b) >= 2 // the translated functions see every string of length <= 1
		wireCField(c, b, false)
		if len(b) <= 2 {
			wireCTag(c, b)
			wireCBytes(c, b)
			wireCGroup(c, 1, b)
		}
		if len(b) <= 1 {
			wireCVarint(c, b)
		}
	}
	one(nil)
	c.Stat("exh.len0")
	for a := 0; a < 256 && maxLen >= 1; a++ {
		one([]byte{byte(a)})
		c.Stat("exh.len1")
		for b := 0; b < 256 && maxLen >= 2; b++ {
			one([]byte{byte(a), byte(b)})
			c.Stat("exh.len2")
			if maxLen >= 3 && uint64(a%16) == c.Seed%16 {
				for d := 0; d < 256; d++ {
					one([]byte{byte(a), byte(b), byte(d)})
				}
				c.StatN("exh.len3", 256)
			}
		}
	}
	if maxLen >= 3 {
		c.Stat(fmt.Sprintf("exh.len3.residue%d", c.Seed%16))
	}
}
