package main

import (
	"fmt"
	"os"
	"path/filepath"
	"strings"
)

// wireExpected lists the functions of encoding/protowire/wire.go (Coq name
// without the "go_" prefix) that the proofs rely on.  When one of them is no
// longer translatable the extractor still writes its output but exits with
// status 3.
var wireExpected = []string{
	"AppendVarint", "ConsumeVarint", "SizeVarint",
	"AppendFixed32", "ConsumeFixed32", "SizeFixed32",
	"AppendFixed64", "ConsumeFixed64", "SizeFixed64",
	"AppendBytes", "ConsumeBytes", "SizeBytes",
	"AppendString", "ConsumeString",
	"AppendTag", "ConsumeTag", "SizeTag",
	"AppendGroup", "SizeGroup",
	"EncodeTag", "DecodeTag",
	"EncodeZigZag", "DecodeZigZag",
	"EncodeBool", "DecodeBool",
	"ParseError", "Number_IsValid",
	"consumeFieldValueD", "ConsumeFieldValue", "ConsumeField", "ConsumeGroup",
}

// extractWire generates Gen/WireGo.v from encoding/protowire/wire.go.
func extractWire(repo string) error {
	return extractGoFile(repo, "encoding/protowire/wire.go", "WireGo.v", wireExpected)
}

// extractGoFile translates one Go source file of the repository (path
// relative to the repository root, slash separated) into one generated Coq
// file and checks the expected-translatable list.
func extractGoFile(repo, rel, target string, expected []string) error {
	u, err := TranslateFile(filepath.Join(repo, filepath.FromSlash(rel)))
	if err != nil {
		return err
	}
	for _, n := range u.Notes {
		fmt.Fprintf(os.Stderr, "srcmodel: note: %s\n", n)
	}
	if err := writeGenerated(target, u.Render(rel)); err != nil {
		return err
	}
	byName := map[string]*FuncDef{}
	for _, f := range u.Funcs {
		byName[f.Name] = f
		if f.Unsupported != "" {
			fmt.Fprintf(os.Stderr, "srcmodel: %s: %s is unsupported: %s\n", rel, f.CoqName, f.Unsupported)
		}
	}
	var missing []string
	for _, n := range expected {
		switch f := byName[n]; {
		case f == nil:
			fmt.Fprintf(os.Stderr, "srcmodel: %s: expected function %s not found\n", rel, n)
			missing = append(missing, n)
		case f.Unsupported != "":
			missing = append(missing, n)
		}
	}
	if len(missing) > 0 {
		return fmt.Errorf("%w: %s", errIncomplete, strings.Join(missing, " "))
	}
	return nil
}
